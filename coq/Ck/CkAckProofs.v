(* C06: proofs, part 1.  The acknowledgement layer of every operation of the combined model is
   characterised by a small abstract machine [ak_step]; part 2 (CkAckThms.v) proves the C06 statements
   on that machine and lifts them to all histories of the combined model. *)
From Icv Require Import Base.Tac Ck.CkState Ck.CkFull Ck.CkAck.
Local Open Scope Z_scope.

Lemma ackt_eqb_eq a b : ackt_eqb a b = true <-> a = b.
Proof. destruct a, b; cbv; split; congruence. Qed.

Lemma ackt_eqb_refl a : ackt_eqb a a = true.
Proof. destruct a; reflexivity. Qed.

(* ---------------------------------------------------------------- events that matter to C06 *)

(* events no C06 statement looks at *)
Definition cka_inert (x : out) : bool :=
  match x with
  | OAckSet _ | OAckCleared | ORefused _ | ONotify NAck | ONotify NProblem => false
  | _ => true
  end.

Definition cka_all_inert (o : list out) : Prop := Forall (fun x => cka_inert x = true) o.

Lemma all_inert_app a b : cka_all_inert a -> cka_all_inert b -> cka_all_inert (a ++ b).
Proof. intros; apply Forall_app; split; assumption. Qed.

Lemma all_inert_nil : cka_all_inert [].
Proof. constructor. Qed.

#[global] Hint Resolve all_inert_app all_inert_nil : cka.

Lemma trigger_dt_inert fuel : forall now paused id t ds,
  cka_all_inert (snd (trigger_dt fuel now paused id t ds)).
Proof.
  induction fuel as [|fuel IH]; intros now paused id t ds; cbn [trigger_dt]; [constructor|].
  destruct (find_dt id ds) as [d|]; [|constructor].
  destruct (negb (dt_can_be_triggered now d)); [constructor|].
  set (ds1 := if d_trigger d =? 0 then upd_trigger id t ds else ds). clearbody ds1.
  assert (forall l acc, cka_all_inert (snd acc) ->
            cka_all_inert (snd (fold_left (fun (acc : list dt * list out) cid =>
               let '(dsa, oa) := acc in
               let '(dsb, ob) := trigger_dt fuel now paused cid t dsa in (dsb, oa ++ ob)) l acc))) as Hf.
  { induction l as [|x l IHl]; intros [dsa oa] Ha; [exact Ha|].
    cbn [fold_left]. apply IHl.
    pose proof (IH now paused x t dsa) as Hx.
    destruct (trigger_dt fuel now paused x t dsa) as [dsb ob]. cbn [snd] in *. auto with cka. }
  specialize (Hf (d_triggers d) (ds1, []) all_inert_nil).
  destruct (fold_left _ (d_triggers d) (ds1, [])) as [ds2 o2]. cbn [snd] in *.
  apply all_inert_app; [assumption|]. apply all_inert_app.
  - destruct (negb (d_fixed d) && negb paused); repeat constructor.
  - repeat constructor.
Qed.

Lemma trigger_all_inert now paused t ds : cka_all_inert (snd (trigger_all now paused t ds)).
Proof.
  unfold trigger_all.
  assert (forall l acc, cka_all_inert (snd acc) ->
            cka_all_inert (snd (fold_left (fun (acc : list dt * list out) id =>
               let '(dsa, oa) := acc in
               let '(dsb, ob) := trigger_dt (chain_fuel dsa) now paused id t dsa in (dsb, oa ++ ob)) l acc))) as Hf.
  { induction l as [|x l IHl]; intros [dsa oa] Ha; [exact Ha|].
    cbn [fold_left]. apply IHl.
    pose proof (trigger_dt_inert (chain_fuel dsa) now paused x t dsa) as Hx.
    destruct (trigger_dt (chain_fuel dsa) now paused x t dsa) as [dsb ob]. cbn [snd] in *. auto with cka. }
  apply Hf. constructor.
Qed.

Lemma remove_dt_inert fuel : forall now paused id children r ds,
  cka_all_inert (snd (fst (remove_dt fuel now paused id children r ds))).
Proof.
  induction fuel as [|fuel IH]; intros now paused id children r ds; cbn [remove_dt]; [constructor|].
  destruct (find_dt id ds) as [d|]; [|constructor].
  destruct (d_owned d && match r with RByUser => true | _ => false end); [constructor|].
  set (kids := if children then map d_id (filter (fun x => d_parent x =? id) ds) else []). clearbody kids.
  assert (forall l (acc : list dt * list out * bool), cka_all_inert (snd (fst acc)) ->
            cka_all_inert (snd (fst (fold_left (fun (acc : list dt * list out * bool) (k : Z) =>
               let '(dsa, oa, oka) := acc in
               if (oka : bool) then
                 let '(dsb, ob, okb) := remove_dt fuel now paused k true r dsa in (dsb, oa ++ ob, okb)
               else acc) l acc)))) as Hf.
  { induction l as [|x l IHl]; intros [[dsa oa] oka] Ha; [exact Ha|].
    cbn [fold_left]. apply IHl. destruct oka; [|exact Ha].
    pose proof (IH now paused x true r dsa) as Hx.
    destruct (remove_dt fuel now paused x true r dsa) as [[dsb ob] okb]. cbn [fst snd] in *. auto with cka. }
  specialize (Hf kids (ds, [], true) all_inert_nil).
  destruct (fold_left _ kids (ds, [], true)) as [[ds1 o1] ok1]. cbn [fst snd] in *.
  destruct (negb ok1); [exact Hf|].
  destruct (find_dt id ds1) as [d1|]; [|exact Hf]. cbn [fst snd].
  apply all_inert_app; [assumption|]. apply all_inert_app; [repeat constructor|].
  destruct (dt_is_triggered now d1 && negb paused); repeat constructor.
Qed.

(* ---------------------------------------------------------------- the abstract acknowledgement machine *)

Record akst := { ak_ack : ackt; ak_exp : Z; ak_cms : list comment; ak_next : Z; ak_paused : bool }.

Definition ak_of (f : full) : akst :=
  {| ak_ack := f_ack f; ak_exp := f_ack_expiry f; ak_cms := f_comments f; ak_next := f_next_cm f;
     ak_paused := f_paused f |}.

Inductive ak_in :=
| AkResult (sc ok_new : bool) (r_end : Z)            (* an accepted check result *)
| AkAck (v : via) (entry_ok sticky notify pers eg : bool) (expiry : Z)
| AkClusterSet (sticky notify : bool) (expiry : Z)
| AkUnack
| AkClusterClear
| AkRead                                             (* anything that just calls GetAcknowledgement() *)
| AkCmTimer
| AkPause (p : bool)
| AkNop.

Definition ak_expired (now : Z) (s : akst) : bool :=
  negb (ackt_eqb (ak_ack s) AckNone) && negb (ak_exp s =? 0) && (ak_exp s <? now).

Definition ak_clear (s : akst) : akst :=
  {| ak_ack := AckNone; ak_exp := 0; ak_cms := ak_cms s; ak_next := ak_next s; ak_paused := ak_paused s |}.

Definition ak_set_cms (s : akst) (cs : list comment) (n : Z) : akst :=
  {| ak_ack := ak_ack s; ak_exp := ak_exp s; ak_cms := cs; ak_next := n; ak_paused := ak_paused s |}.

(* the lazy expiry *)
Definition ak_read (now : Z) (s : akst) : akst * list out :=
  if ak_expired now s then (ak_clear s, [OAckCleared]) else (s, []).

Definition ak_step (now : Z) (i : ak_in) (s : akst) : akst * list out :=
  match i with
  | AkResult sc ok_new r_end =>
      let '(s1, o1) := ak_read now s in
      let '(s2, o2) :=
        if sc && (ackt_eqb (ak_ack s1) AckNormal || (ackt_eqb (ak_ack s1) AckSticky && ok_new))
        then (ak_clear s1, [OAckCleared]) else (s1, []) in
      let s3 :=
        if ackt_eqb (ak_ack s2) AckNone
        then ak_set_cms s2 (filter (fun c => cm_persistent c || (r_end <? cm_entry c)) (ak_cms s2)) (ak_next s2)
        else s2 in
      (s3, o1 ++ o2)
  | AkAck v entry_ok sticky notify pers eg expiry =>
      let ebad :=
        match v with
        | ViaApi => eg && (expiry <=? now)
        | ViaExt => false
        | ViaExtExpire => negb (expiry =? 0) && (expiry <=? now)
        end in
      let e' := match v with ViaApi => if eg then expiry else 0 | ViaExt => 0 | ViaExtExpire => expiry end in
      if entry_ok || ebad then (s, [])
      else
        let '(s1, o1) := ak_read now s in
        if negb (ackt_eqb (ak_ack s1) AckNone) then (s1, o1)
        else
          let ty := if sticky then AckSticky else AckNormal in
          ({| ak_ack := ty; ak_exp := e';
              ak_cms := ak_cms s1 ++ [{| cm_id := ak_next s1; cm_persistent := pers; cm_entry := now; cm_expire := e' |}];
              ak_next := ak_next s1 + 1; ak_paused := ak_paused s1 |},
           o1 ++ (if notify && negb (ak_paused s1) then [ONotify NAck] else []) ++ [OAckSet ty])
  | AkClusterSet sticky notify expiry =>
      let '(s1, o1) := ak_read now s in
      if negb (ackt_eqb (ak_ack s1) AckNone) then (s1, o1)
      else
        let ty := if sticky then AckSticky else AckNormal in
        ({| ak_ack := ty; ak_exp := expiry; ak_cms := ak_cms s1; ak_next := ak_next s1; ak_paused := ak_paused s1 |},
         o1 ++ (if notify && negb (ak_paused s1) then [ONotify NAck] else []) ++ [OAckSet ty])
  | AkUnack =>
      (ak_set_cms (ak_clear s) (filter cm_persistent (ak_cms s)) (ak_next s),
       if negb (ackt_eqb (ak_ack s) AckNone) then [OAckCleared] else [])
  | AkClusterClear => (ak_clear s, if negb (ackt_eqb (ak_ack s) AckNone) then [OAckCleared] else [])
  | AkRead => ak_read now s
  | AkCmTimer =>
      (ak_set_cms s (filter (fun c => negb (negb (cm_expire c =? 0) && (cm_expire c <? now)) || cm_persistent c) (ak_cms s))
                  (ak_next s), [])
  | AkPause p =>
      ({| ak_ack := ak_ack s; ak_exp := ak_exp s; ak_cms := ak_cms s; ak_next := ak_next s; ak_paused := p |}, [])
  | AkNop => (s, [])
  end.

(* which abstract input an operation of the combined model is, from the state it runs in *)
Definition cka_abs (c : fcfg) (now : Z) (f : full) (o : cka_op) (i : ak_in) : Prop :=
  match o with
  | CkaBase (OpResult r) =>
      if rejected now (f_st f) r then i = AkNop
      else i = AkResult (i_state_change (snd (step_accept (fc_base c) (f_st f) r)))
                        (is_ok (c_kind (fc_base c)) (r_state r)) (r_end r)
  | CkaBase (OpAck v sticky notify pers eg expiry) => i = AkAck v (entry_state_ok c f) sticky notify pers eg expiry
  | CkaClusterSet sticky notify expiry => i = AkClusterSet sticky notify expiry
  | CkaBase OpUnack => i = AkUnack
  | CkaClusterClear => i = AkClusterClear
  | CkaBase OpAckRead => i = AkRead
  | CkaBase OpCommentTimer => i = AkCmTimer
  | CkaBase (OpPause p) => i = AkPause p
  | CkaBase OpFire => i = AkRead \/ i = AkNop
  | CkaBase _ => i = AkNop
  end.

(* the events of the acknowledgement layer *)
Definition cka_is_ev (x : out) : bool :=
  match x with OAckSet _ | OAckCleared | ONotify NAck => true | _ => false end.

Lemma filter_inert (p : out -> bool) o :
  (forall x, cka_inert x = true -> p x = false) -> cka_all_inert o -> filter p o = [].
Proof.
  intros Hp H. induction H as [|x l Hx _ IH]; [reflexivity|].
  cbn [filter]. rewrite (Hp x Hx). exact IH.
Qed.

Lemma is_ev_inert x : cka_inert x = true -> cka_is_ev x = false.
Proof. destruct x as [[]| | | | | | | |]; cbn; congruence. Qed.

(* ---------------------------------------------------------------- the lazy expiry *)

Lemma ak_expired_of now f : ak_expired now (ak_of f) = cka_expired now f.
Proof. reflexivity. Qed.

Lemma get_ack_spec now f :
  get_ack now f =
  if cka_expired now f then (AckNone, fst (clear_ack f), [OAckCleared]) else (f_ack f, f, []).
Proof.
  unfold get_ack, cka_expired.
  destruct (negb (ackt_eqb (f_ack f) AckNone)) eqn:Ha; cbn [andb]; [|reflexivity].
  destruct (negb (f_ack_expiry f =? 0) && (f_ack_expiry f <? now)); [|reflexivity].
  unfold clear_ack. rewrite Ha. reflexivity.
Qed.

Lemma get_ack_ak now f :
  let '(a, f', o) := get_ack now f in
  a = ak_ack (fst (ak_read now (ak_of f))) /\ ak_of f' = fst (ak_read now (ak_of f)) /\
  o = snd (ak_read now (ak_of f)) /\
  f_st f' = f_st f /\ f_dts f' = f_dts f /\ f_lsc f' = f_lsc f /\
  f_sp_problem f' = f_sp_problem f /\ f_sp_recovery f' = f_sp_recovery f /\
  f_sp_fstart f' = f_sp_fstart f /\ f_sp_fend f' = f_sp_fend f /\ f_sbs f' = f_sbs f /\ f_flap f' = f_flap f /\
  f_next_check f' = f_next_check f /\ f_parent_checked f' = f_parent_checked f /\
  f_parent_up f' = f_parent_up f /\ f_parent_lsc f' = f_parent_lsc f.
Proof.
  rewrite get_ack_spec. unfold ak_read. rewrite ak_expired_of.
  destruct (cka_expired now f); cbn; repeat split; reflexivity.
Qed.

Lemma ak_read_not_expired now s : ak_expired now (fst (ak_read now s)) = false.
Proof.
  unfold ak_read. destruct (ak_expired now s) eqn:E; cbn [fst]; [reflexivity|exact E].
Qed.

(* ---------------------------------------------------------------- check results *)

(* lines 271-281 of ProcessCheckResult: the clearing on a state change followed by the read that decides
   about the comments *)
Lemma ack_change_then_read k now sc new f0 :
  let '(f1, o1) := ack_on_change k now sc new f0 in
  let '(a3, f2, o2) := get_ack now f1 in
  let '(s1, p1) := ak_read now (ak_of f0) in
  let '(s2, p2) :=
    if sc && (ackt_eqb (ak_ack s1) AckNormal || (ackt_eqb (ak_ack s1) AckSticky && is_ok k new))
    then (ak_clear s1, [OAckCleared]) else (s1, []) in
  ak_of f2 = s2 /\ o1 ++ o2 = p1 ++ p2 /\ a3 = ak_ack s2 /\ f_st f2 = f_st f0 /\ f_dts f2 = f_dts f0 /\
  ak_expired now s2 = false.
Proof.
  unfold ack_on_change, get_ack, clear_ack, ak_read, ak_expired, ak_of, ak_clear.
  destruct f0 as [st0 lsc0 a0 e0 cms0 ncm0 dts0 spp spr spfs spfe sbs fl pa nc pc pu pl].
  cbn [f_st f_lsc f_ack f_ack_expiry f_comments f_next_cm f_dts f_paused ak_ack ak_exp ak_cms ak_next ak_paused].
  destruct a0, sc, (is_ok k new);
    repeat (cbn; match goal with
                 | |- context [e0 =? 0] => destruct (e0 =? 0) eqn:?
                 | |- context [e0 <? now] => destruct (e0 <? now) eqn:?
                 end; try congruence);
    cbn; repeat split; reflexivity.
Qed.

Definition cka_is_ref (x : out) : bool := match x with ORefused _ => true | _ => false end.

Lemma is_ref_inert x : cka_inert x = true -> cka_is_ref x = false.
Proof. destruct x as [[]| | | | | | | |]; cbn; congruence. Qed.
Lemma is_nprob_inert x : cka_inert x = true -> cka_is_nprob x = false.
Proof. destruct x as [[]| | | | | | | |]; cbn; congruence. Qed.

Lemma ak_of_set_core f s l a b c d e g n : ak_of (set_core f s l a b c d e g n) = ak_of f.
Proof. reflexivity. Qed.
Lemma ak_of_set_dts f ds : ak_of (set_dts f ds) = ak_of f.
Proof. reflexivity. Qed.

Lemma ak_read_idle now s : ak_expired now s = false -> ak_read now s = (s, []).
Proof. intros H. unfold ak_read. rewrite H. reflexivity. Qed.

Lemma do_result_facts c now r f :
  rejected now (f_st f) r = false ->
  let k := c_kind (fc_base c) in
  let sa := step_accept (fc_base c) (f_st f) r in
  let inp := AkResult (i_state_change (snd sa)) (is_ok k (r_state r)) (r_end r) in
  let '(f', outs) := do_result c now r f in
  ak_of f' = fst (ak_step now inp (ak_of f)) /\
  filter cka_is_ev outs = snd (ak_step now inp (ak_of f)) /\
  f_st f' = fst sa /\
  (f_ack f' <> AckNone -> filter cka_is_nprob outs = []) /\
  filter cka_is_ref outs = [].
Proof.
  intros Hrej. cbv zeta. unfold do_result. rewrite Hrej. cbv zeta.
  destruct (step_accept (fc_base c) (f_st f) r) as [s' i] eqn:Esa. cbn [fst snd].
  match goal with
  | |- context [ack_on_change ?k ?n ?sc ?ns ?f0] =>
      pose proof (ack_change_then_read k n sc ns f0) as H; rewrite ak_of_set_core in H;
      destruct (ack_on_change k n sc ns f0) as [f1 o1]
  end.
  destruct (get_ack now f1) as [[a3 f2] o2].
  cbn [ak_step]. revert H.
  destruct (ak_read now (ak_of f)) as [s1 p1] eqn:Erd.
  assert (filter cka_is_ev p1 = p1 /\ filter cka_is_nprob p1 = [] /\ filter cka_is_ref p1 = []) as (Hp1 & Hp1' & Hp1'').
  { unfold ak_read in Erd. destruct (ak_expired now (ak_of f)); inversion Erd; repeat split; reflexivity. }
  match goal with |- context [if ?b then (ak_clear s1, _) else _] =>
    destruct (if b then (ak_clear s1, [OAckCleared]) else (s1, [])) as [s2 p2] eqn:Ecl;
    assert (filter cka_is_ev p2 = p2 /\ filter cka_is_nprob p2 = [] /\ filter cka_is_ref p2 = []) as (Hp2 & Hp2' & Hp2'')
      by (destruct b; inversion Ecl; repeat split; reflexivity);
    clear Ecl
  end.
  intros (Hf2 & Ho12 & Ha3 & Hst2 & _ & Hne).
  cbn [set_core f_st] in Hst2.
  (* downtimes triggered by the result *)
  match goal with |- context [if ?b then trigger_all ?n ?p ?t ?d else ?e] =>
    assert (cka_all_inert (snd (if b then trigger_all n p t d else e))) as Hi3
      by (destruct b; [apply trigger_all_inert|constructor]);
    destruct (if b then trigger_all n p t d else e) as [ds3 o3] end.
  cbn [snd] in Hi3.
  (* IsAcknowledged() for the suppression: nothing left to expire *)
  pose proof (get_ack_ak now (set_dts f2 ds3)) as H4.
  rewrite ak_of_set_dts, Hf2, (ak_read_idle now s2 Hne) in H4.
  destruct (get_ack now (set_dts f2 ds3)) as [[a4 f4] o4]. cbn [fst snd] in H4.
  destruct H4 as (Ha4 & Hf4 & Ho4 & Hst4 & _).
  cbn [set_dts f_st] in Hst4.
  set (f5 := if ackt_eqb a3 AckNone then remove_ack_comments (Some (r_end r)) f4 else f4).
  assert (f_st f5 = s') as Hst5.
  { unfold f5. destruct (ackt_eqb a3 AckNone); cbn [remove_ack_comments set_comments f_st]; congruence. }
  assert (ak_of f5 =
          if ackt_eqb (ak_ack s2) AckNone
          then ak_set_cms s2 (filter (fun c => cm_persistent c || (r_end r <? cm_entry c)) (ak_cms s2)) (ak_next s2)
          else s2) as Hf5.
  { unfold f5. rewrite Ha3. destruct (ackt_eqb (ak_ack s2) AckNone); [|exact Hf4].
    rewrite <- Hf4. reflexivity. }
  assert (f_ack f5 = a4) as Hack5.
  { change (f_ack f5) with (ak_ack (ak_of f5)). rewrite Hf5, Ha4.
    destruct (ackt_eqb (ak_ack s2) AckNone); reflexivity. }
  clearbody f5.
  (* flapping notifications *)
  match goal with |- context [if negb (is_flapping c (f_flap f5)) && ?x then ?A else ?B] =>
    set (EFL := if negb (is_flapping c (f_flap f5)) && x then A else B) end.
  assert (cka_all_inert (snd EFL)) as Hfl.
  { unfold EFL. repeat match goal with |- context [if ?b then _ else _] => destruct b end; repeat constructor. }
  destruct EFL as [[sup_fs sup_fe] o_fl]. cbn [snd] in Hfl.
  (* the state notification *)
  match goal with |- context [if ?b then ?T else (false, false, @nil out)] =>
    lazymatch T with context [ackt_eqb a4 AckNone] => set (EST := if b then T else (false, false, @nil out)) end end.
  assert (filter cka_is_ev (snd EST) = [] /\ filter cka_is_ref (snd EST) = [] /\
          (a4 <> AckNone -> filter cka_is_nprob (snd EST) = [])) as (Hst_ev & Hst_ref & Hst_np).
  { unfold EST. destruct a4; rewrite ?orb_true_r; cbn [ackt_eqb ackt_num Z.eqb negb orb];
      repeat match goal with |- context [if ?b then _ else _] => destruct b end;
      repeat split; try reflexivity; intros; congruence. }
  destruct EST as [[sup_p sup_r] o_st]. cbn [snd] in Hst_ev, Hst_ref, Hst_np.
  assert (forall p : out -> bool, (forall x, cka_inert x = true -> p x = false) ->
            filter p p1 = [] -> filter p p2 = [] -> filter p o_st = [] ->
            filter p (o1 ++ o2 ++ o3 ++ o4 ++ [ONewResult] ++ [OStateChange (i_event i)] ++ o_fl ++ o_st) = []) as Hnone.
  { intros p Hp A B C. rewrite (app_assoc o1 o2), Ho12. rewrite !filter_app, A, B, C.
    rewrite (filter_inert p o3 Hp Hi3), (filter_inert p o_fl Hp Hfl). subst o4. cbn.
    rewrite (Hp ONewResult eq_refl), (Hp (OStateChange (i_event i)) eq_refl). reflexivity. }
  repeat split.
  - (* state of the layer *)
    rewrite <- Hf5. destruct (sup_fs || sup_fe || sup_p || sup_r); reflexivity.
  - rewrite (app_assoc o1 o2), Ho12. rewrite !filter_app, Hp1, Hp2, Hst_ev.
    rewrite (filter_inert _ o3 is_ev_inert Hi3), (filter_inert _ o_fl is_ev_inert Hfl). subst o4. cbn.
    rewrite !app_nil_r. reflexivity.
  - destruct (sup_fs || sup_fe || sup_p || sup_r); exact Hst5.
  - intros Hacked. apply Hnone; auto using is_nprob_inert.
    apply Hst_np. intros ->. apply Hacked.
    destruct (sup_fs || sup_fe || sup_p || sup_r); exact Hack5.
  - apply Hnone; auto using is_ref_inert.
Qed.

(* ---------------------------------------------------------------- FireSuppressedNotifications *)

Lemma cka_expired_cleared now f : cka_expired now (fst (clear_ack f)) = false.
Proof. reflexivity. Qed.

Lemma do_fire_facts c now f :
  exists i, (i = AkRead \/ i = AkNop) /\
    ak_of (fst (do_fire c now f)) = fst (ak_step now i (ak_of f)) /\
    filter cka_is_ev (snd (do_fire c now f)) = snd (ak_step now i (ak_of f)) /\
    f_st (fst (do_fire c now f)) = f_st f /\
    (f_ack (fst (do_fire c now f)) <> AckNone -> filter cka_is_nprob (snd (do_fire c now f)) = []) /\
    filter cka_is_ref (snd (do_fire c now f)) = [].
Proof.
  unfold do_fire.
  destruct (f_paused f); [exists AkNop; cbn; repeat split; auto|].
  destruct (negb (f_sp_problem f || f_sp_recovery f || f_sp_fstart f || f_sp_fend f));
    [exists AkNop; cbn; repeat split; auto|].
  destruct (f_sp_problem f || f_sp_recovery f).
  2:{ exists AkNop. cbn.
      repeat match goal with |- context [if ?b then _ else _] => destruct b end; cbn; repeat split; auto. }
  destruct (negb (notif_reachable f) || in_downtime now f) eqn:Es1.
  { exists AkNop. cbn.
    repeat match goal with |- context [if ?b then _ else _] => destruct b end; cbn; repeat split; auto. }
  exists AkRead. cbn [ak_step]. unfold ak_read. rewrite ak_expired_of.
  rewrite get_ack_spec. destruct (cka_expired now f) eqn:Ex.
  - cbn [negb ackt_eqb ackt_num Z.eqb].
    change (notif_reachable (fst (clear_ack f))) with (notif_reachable f).
    change (in_downtime now (fst (clear_ack f))) with (in_downtime now f). rewrite Es1.
    rewrite get_ack_spec, cka_expired_cleared. cbn [fst snd clear_ack f_ack negb ackt_eqb ackt_num Z.eqb andb].
    repeat match goal with |- context [if ?b then _ else _] => destruct b end; cbn;
      repeat split; auto; intros H; exfalso; apply H; reflexivity.
  - destruct (f_ack f) eqn:Ea; cbn [negb ackt_eqb ackt_num Z.eqb].
    + rewrite Es1, get_ack_spec, Ex, Ea. cbn [negb ackt_eqb ackt_num Z.eqb].
      repeat match goal with |- context [if ?b then _ else _] => destruct b end; cbn;
        repeat split; auto; try (intros H; exfalso; apply H; assumption).
    + cbn [andb]. repeat match goal with |- context [if ?b then _ else _] => destruct b end; cbn; repeat split; auto.
    + cbn [andb]. repeat match goal with |- context [if ?b then _ else _] => destruct b end; cbn; repeat split; auto.
Qed.

(* ---------------------------------------------------------------- operations outside the layer *)

Definition cka_quiet (o : list out) : Prop := filter cka_is_ev o = [] /\ filter cka_is_nprob o = [].

Lemma quiet_inert o : cka_all_inert o -> cka_quiet o.
Proof. intros H; split; apply filter_inert; auto using is_ev_inert, is_nprob_inert. Qed.

Lemma quiet_app a b : cka_quiet a -> cka_quiet b -> cka_quiet (a ++ b).
Proof. intros [A1 A2] [B1 B2]; split; rewrite filter_app; [rewrite A1, B1|rewrite A2, B2]; reflexivity. Qed.

Definition cka_frame_step (f f' : full) (o : list out) : Prop :=
  ak_of f' = ak_of f /\ f_st f' = f_st f /\ cka_quiet o.

Lemma do_dt_add_frame c now id fixed start end_ duration trig_by parent owned f :
  cka_frame_step f (fst (do_dt_add c now id fixed start end_ duration trig_by parent owned f))
                 (snd (do_dt_add c now id fixed start end_ duration trig_by parent owned f)).
Proof.
  unfold do_dt_add.
  match goal with |- context [if ?b then trigger_dt ?a1 ?a2 ?a3 ?a4 ?a5 ?a6 else ?e] =>
    assert (cka_all_inert (snd (if b then trigger_dt a1 a2 a3 a4 a5 a6 else e))) as H1
      by (destruct b; [apply trigger_dt_inert|constructor]);
    destruct (if b then trigger_dt a1 a2 a3 a4 a5 a6 else e) as [ds1 o1] end.
  cbn [snd] in H1.
  assert (forall X : list dt * list out,
            X = match find_dt id ds1 with
                | Some d1 =>
                    if fixed && dt_can_be_triggered now d1
                    then let '(dsx, ox) := trigger_dt (chain_fuel ds1) now (f_paused f) id (Z.max start now) ds1 in
                         (dsx, (if negb (f_paused f) then [ONotify NDowntimeStart] else []) ++ ox)
                    else (ds1, [])
                | None => (ds1, [])
                end -> cka_all_inert (snd X)) as H2.
  { intros X ->. destruct (find_dt id ds1) as [d1|]; [|constructor].
    destruct (fixed && dt_can_be_triggered now d1); [|constructor].
    pose proof (trigger_dt_inert (chain_fuel ds1) now (f_paused f) id (Z.max start now) ds1) as Hx.
    destruct (trigger_dt (chain_fuel ds1) now (f_paused f) id (Z.max start now) ds1) as [dsx ox]. cbn [snd] in *.
    apply all_inert_app; [destruct (negb (f_paused f)); repeat constructor|assumption]. }
  specialize (H2 _ eq_refl).
  match goal with H2 : cka_all_inert (snd ?X) |- _ => destruct X as [ds2 o2] end. cbn [snd] in H2.
  cbn [fst snd]. repeat split; apply filter_inert;
    auto using is_ev_inert, is_nprob_inert; repeat apply all_inert_app; auto; repeat constructor.
Qed.

Lemma do_dt_remove_frame now id children r f :
  cka_frame_step f (fst (do_dt_remove now id children r f)) (snd (do_dt_remove now id children r f)).
Proof.
  unfold do_dt_remove.
  pose proof (remove_dt_inert (chain_fuel (f_dts f)) now (f_paused f) id children r (f_dts f)) as H.
  destruct (remove_dt (chain_fuel (f_dts f)) now (f_paused f) id children r (f_dts f)) as [[ds o] ok].
  cbn [fst snd] in *. repeat split.
  - apply quiet_app; [apply quiet_inert; assumption|destruct ok; split; reflexivity].
  - apply quiet_app; [apply quiet_inert; assumption|destruct ok; split; reflexivity].
Qed.

Lemma do_dt_start_timer_frame now f :
  cka_frame_step f (fst (do_dt_start_timer now f)) (snd (do_dt_start_timer now f)).
Proof.
  unfold do_dt_start_timer.
  assert (forall l acc, cka_all_inert (snd acc) ->
            cka_all_inert (snd (fold_left (fun (acc : list dt * list out) id =>
               let '(dsa, oa) := acc in
               match find_dt id dsa with
               | Some d =>
                   if dt_can_be_triggered now d && d_fixed d
                   then let '(dsb, ob) := trigger_dt (chain_fuel dsa) now (f_paused f) id
                                                     (Z.max (d_start d) (d_entry d)) dsa in
                        (dsb, oa ++ (if negb (f_paused f) then [ONotify NDowntimeStart] else []) ++ ob)
                   else acc
               | None => acc
               end) l acc))) as Hf.
  { induction l as [|x l IHl]; intros [dsa oa] Ha; [exact Ha|].
    cbn [fold_left]. apply IHl.
    destruct (find_dt x dsa) as [d|]; [|exact Ha].
    destruct (dt_can_be_triggered now d && d_fixed d); [|exact Ha].
    pose proof (trigger_dt_inert (chain_fuel dsa) now (f_paused f) x (Z.max (d_start d) (d_entry d)) dsa) as Hx.
    destruct (trigger_dt (chain_fuel dsa) now (f_paused f) x (Z.max (d_start d) (d_entry d)) dsa) as [dsb ob].
    cbn [snd] in *. repeat apply all_inert_app; auto. destruct (negb (f_paused f)); repeat constructor. }
  specialize (Hf (map d_id (f_dts f)) (f_dts f, []) all_inert_nil).
  destruct (fold_left _ (map d_id (f_dts f)) (f_dts f, [])) as [ds o]. cbn [fst snd] in *.
  repeat split; apply quiet_inert; assumption.
Qed.

Lemma do_dt_cleanup_frame now id f :
  cka_frame_step f (fst (do_dt_cleanup now id f)) (snd (do_dt_cleanup now id f)).
Proof.
  unfold do_dt_cleanup.
  destruct (find_dt id (f_dts f)) as [d|]; [|repeat split].
  destruct (dt_is_expired now d); [apply do_dt_remove_frame|repeat split].
Qed.

(* ---------------------------------------------------------------- the entry points *)

Lemma do_ack_facts c now v sticky notify pers eg expiry f :
  let i := AkAck v (entry_state_ok c f) sticky notify pers eg expiry in
  let st := do_ack c now v sticky notify pers eg expiry f in
  ak_of (fst st) = fst (ak_step now i (ak_of f)) /\
  filter cka_is_ev (snd st) = snd (ak_step now i (ak_of f)) /\
  f_st (fst st) = f_st f /\ filter cka_is_nprob (snd st) = [].
Proof.
  cbv zeta. unfold do_ack. cbn [ak_step].
  assert (forall f0, f0 = f ->
    let st :=
      (let '(a, f1, o1) := get_ack now f0 in
       if negb (ackt_eqb a AckNone) then (f1, o1 ++ [ORefused 3])
       else
         let cm := {| cm_id := f_next_cm f1; cm_persistent := pers; cm_entry := now;
                      cm_expire := match v with ViaApi => if eg then expiry else 0 | ViaExt => 0 | ViaExtExpire => expiry end |} in
         let f2 := set_comments f1 (f_comments f1 ++ [cm]) (f_next_cm f1 + 1) in
         let f3 := set_ack f2 (if sticky then AckSticky else AckNormal)
                     match v with ViaApi => if eg then expiry else 0 | ViaExt => 0 | ViaExtExpire => expiry end in
         (f3, o1 ++ (if notify && negb (f_paused f3) then [ONotify NAck] else [])
                 ++ [OAckSet (if sticky then AckSticky else AckNormal)])) in
    let sp :=
      (let '(s1, o1) := ak_read now (ak_of f) in
       if negb (ackt_eqb (ak_ack s1) AckNone) then (s1, o1)
       else
         ({| ak_ack := if sticky then AckSticky else AckNormal;
             ak_exp := match v with ViaApi => if eg then expiry else 0 | ViaExt => 0 | ViaExtExpire => expiry end;
             ak_cms := ak_cms s1 ++ [{| cm_id := ak_next s1; cm_persistent := pers; cm_entry := now;
                                        cm_expire := match v with ViaApi => if eg then expiry else 0 | ViaExt => 0 | ViaExtExpire => expiry end |}];
             ak_next := ak_next s1 + 1; ak_paused := ak_paused s1 |},
          o1 ++ (if notify && negb (ak_paused s1) then [ONotify NAck] else [])
             ++ [OAckSet (if sticky then AckSticky else AckNormal)])) in
    ak_of (fst st) = fst sp /\ filter cka_is_ev (snd st) = snd sp /\ f_st (fst st) = f_st f /\
    filter cka_is_nprob (snd st) = []) as Hproceed.
  { intros f0 ->. cbv zeta. rewrite get_ack_spec. unfold ak_read. rewrite ak_expired_of. unfold ak_of.
    destruct (cka_expired now f) eqn:Ex.
    - cbn. destruct notify, (f_paused f); cbn; repeat split; reflexivity.
    - cbn [fst snd ak_ack].
      destruct (f_ack f) eqn:Ea; cbn [negb ackt_eqb ackt_num Z.eqb].
      + cbn. destruct notify, (f_paused f); cbn; repeat split; reflexivity.
      + cbn. rewrite Ea. repeat split; reflexivity.
      + cbn. rewrite Ea. repeat split; reflexivity. }
  specialize (Hproceed f eq_refl). cbv zeta in Hproceed.
  destruct v.
  - destruct (eg && (expiry <=? now)); destruct (entry_state_ok c f); cbn [orb];
      try (cbn; repeat split; reflexivity); exact Hproceed.
  - destruct (entry_state_ok c f); cbn [orb]; try (cbn; repeat split; reflexivity); exact Hproceed.
  - destruct (negb (expiry =? 0) && (expiry <=? now)); destruct (entry_state_ok c f); cbn [orb];
      try (cbn; repeat split; reflexivity); exact Hproceed.
Qed.

Lemma cluster_set_facts now sticky notify expiry f :
  let i := AkClusterSet sticky notify expiry in
  let st := cka_cluster_set now sticky notify expiry f in
  ak_of (fst st) = fst (ak_step now i (ak_of f)) /\
  filter cka_is_ev (snd st) = snd (ak_step now i (ak_of f)) /\
  f_st (fst st) = f_st f /\ filter cka_is_nprob (snd st) = [] /\ filter cka_is_ref (snd st) = [].
Proof.
  cbv zeta. unfold cka_cluster_set. cbn [ak_step]. rewrite get_ack_spec. unfold ak_read. rewrite ak_expired_of. unfold ak_of.
  destruct (cka_expired now f) eqn:Ex.
  - cbn. destruct notify, (f_paused f); cbn; repeat split; reflexivity.
  - cbn [fst snd ak_ack].
    destruct (f_ack f) eqn:Ea; cbn [negb ackt_eqb ackt_num Z.eqb].
    + cbn. destruct notify, (f_paused f); cbn; repeat split; reflexivity.
    + cbn. rewrite Ea. repeat split; reflexivity.
    + cbn. rewrite Ea. repeat split; reflexivity.
Qed.

(* ---------------------------------------------------------------- every operation *)

Theorem cka_step_sim c now f o :
  exists i, cka_abs c now f o i /\
    ak_of (fst (cka_step c now f o)) = fst (ak_step now i (ak_of f)) /\
    filter cka_is_ev (snd (cka_step c now f o)) = snd (ak_step now i (ak_of f)).
Proof.
  destruct o as [b|sticky notify expiry|].
  - destruct b; cbn [cka_step full_step cka_abs].
    + (* result *)
      destruct (rejected now (f_st f) r) eqn:Hrej.
      * exists AkNop. unfold do_result. rewrite Hrej. cbn. auto.
      * pose proof (do_result_facts c now r f Hrej) as H. cbv zeta in H.
        destruct (do_result c now r f) as [f' outs]. destruct H as (A & B & _).
        eexists; split; [reflexivity|]. split; assumption.
    + exists AkNop. cbn. auto.
    + pose proof (do_ack_facts c now v sticky notify persistent expiry_given expiry f) as H. cbv zeta in H.
      destruct H as (A & B & _). eexists; split; [reflexivity|]. split; assumption.
    + exists AkUnack. split; [reflexivity|]. unfold do_unack, clear_ack, remove_ack_comments, ak_of, ak_set_cms, ak_clear. cbn.
      rewrite (filter_ext (fun c => cm_persistent c || false) cm_persistent) by (intros; apply orb_false_r).
      destruct (f_ack f); cbn; auto.
    + exists AkRead. split; [reflexivity|].
      pose proof (get_ack_ak now f) as H. destruct (get_ack now f) as [[a f'] o']. cbn [fst snd ak_step].
      destruct H as (_ & A & B & _). subst o'. split; [assumption|].
      unfold ak_read. destruct (ak_expired now (ak_of f)); reflexivity.
    + exists AkCmTimer. cbn. auto.
    + exists AkNop. split; [reflexivity|].
      destruct (do_dt_add_frame c now id fixed start end_ duration trig_by parent owned f) as (A & _ & B & _). cbn. auto.
    + exists AkNop. split; [reflexivity|].
      destruct (do_dt_remove_frame now id children r f) as (A & _ & B & _). cbn. auto.
    + exists AkNop. split; [reflexivity|].
      destruct (do_dt_start_timer_frame now f) as (A & _ & B & _). cbn. auto.
    + exists AkNop. split; [reflexivity|].
      destruct (do_dt_cleanup_frame now id f) as (A & _ & B & _). cbn. auto.
    + destruct (do_fire_facts c now f) as (i & Hi & A & B & _). exists i. auto.
    + exists (AkPause p). cbn. auto.
    + exists AkNop. cbn. auto.
  - pose proof (cluster_set_facts now sticky notify expiry f) as H. cbv zeta in H. destruct H as (A & B & _).
    eexists; split; [reflexivity|]. split; assumption.
  - exists AkClusterClear. split; [reflexivity|]. cbn [cka_step]. unfold cka_cluster_clear, clear_ack. cbn.
    destruct (f_ack f); cbn; auto.
Qed.

(* the C01 layer is touched by accepted results only *)
Theorem cka_step_st c now f o :
  f_st (fst (cka_step c now f o)) =
  match o with
  | CkaBase (OpResult r) =>
      if rejected now (f_st f) r then f_st f else fst (step_accept (fc_base c) (f_st f) r)
  | _ => f_st f
  end.
Proof.
  destruct o as [b|sticky notify expiry|].
  - destruct b; cbn [cka_step full_step]; try reflexivity.
    + destruct (rejected now (f_st f) r) eqn:Hrej.
      * unfold do_result. rewrite Hrej. reflexivity.
      * pose proof (do_result_facts c now r f Hrej) as H. cbv zeta in H.
        destruct (do_result c now r f) as [f' outs]. destruct H as (_ & _ & A & _). exact A.
    + apply (do_ack_facts c now v sticky notify persistent expiry_given expiry f).
    + pose proof (get_ack_ak now f) as H. destruct (get_ack now f) as [[a f'] o']. apply H.
    + apply do_dt_add_frame.
    + apply do_dt_remove_frame.
    + apply do_dt_start_timer_frame.
    + apply do_dt_cleanup_frame.
    + destruct (do_fire_facts c now f) as (i & _ & _ & _ & A & _). exact A.
  - apply cluster_set_facts.
  - reflexivity.
Qed.

(* no Problem notification is requested by an operation that leaves the object acknowledged *)
Theorem cka_step_no_problem c now f o :
  f_ack (fst (cka_step c now f o)) <> AckNone -> filter cka_is_nprob (snd (cka_step c now f o)) = [].
Proof.
  destruct o as [b|sticky notify expiry|].
  - destruct b; cbn [cka_step full_step]; try reflexivity.
    + destruct (rejected now (f_st f) r) eqn:Hrej.
      * unfold do_result. rewrite Hrej. reflexivity.
      * pose proof (do_result_facts c now r f Hrej) as H. cbv zeta in H.
        destruct (do_result c now r f) as [f' outs]. destruct H as (_ & _ & _ & A & _). exact A.
    + intros _. apply (do_ack_facts c now v sticky notify persistent expiry_given expiry f).
    + intros _. unfold do_unack, clear_ack. cbn. destruct (f_ack f); reflexivity.
    + intros _. rewrite get_ack_spec. destruct (cka_expired now f); reflexivity.
    + intros _. apply do_dt_add_frame.
    + intros _. apply do_dt_remove_frame.
    + intros _. apply do_dt_start_timer_frame.
    + intros _. apply do_dt_cleanup_frame.
    + destruct (do_fire_facts c now f) as (i & _ & _ & _ & _ & A & _). exact A.
  - intros _. apply cluster_set_facts.
  - intros _. cbn. unfold cka_cluster_clear, clear_ack. cbn. destruct (f_ack f); reflexivity.
Qed.
