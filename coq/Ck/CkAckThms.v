(* C06: proofs, part 2.  The statements of C06 on the combined model (all operations, all histories). *)
From Icv Require Import Base.Tac Ck.CkState Ck.CkStateProofs Ck.CkFull Ck.CkAck Ck.CkAckObs Ck.CkAckProofs.
Local Open Scope Z_scope.

Definition cka_acked (f : full) : bool := negb (ackt_eqb (f_ack f) AckNone).
Definition ak_acked (s : akst) : bool := negb (ackt_eqb (ak_ack s) AckNone).

(* ---------------------------------------------------------------- counting through the event filter *)

Lemma count_through_ev (p : out -> bool) o :
  (forall x, p x = true -> cka_is_ev x = true) -> cka_count p o = cka_count p (filter cka_is_ev o).
Proof.
  intros Hp. unfold cka_count. f_equal. f_equal.
  induction o as [|x o IH]; [reflexivity|].
  cbn [filter]. destruct (cka_is_ev x) eqn:Ex; cbn [filter].
  - destruct (p x); [f_equal|]; exact IH.
  - destruct (p x) eqn:Px; [rewrite (Hp x Px) in Ex; discriminate|exact IH].
Qed.

Lemma clr_is_ev x : cka_is_clr x = true -> cka_is_ev x = true.
Proof. destruct x as [[]| | | | | | | |]; cbn; congruence. Qed.
Lemma set_is_ev x : cka_is_set x = true -> cka_is_ev x = true.
Proof. destruct x as [[]| | | | | | | |]; cbn; congruence. Qed.
Lemma nack_is_ev x : cka_is_nack x = true -> cka_is_ev x = true.
Proof. destruct x as [[]| | | | | | | |]; cbn; congruence. Qed.

Lemma alternates_through_ev o : forall a, cka_alternates a o = cka_alternates a (filter cka_is_ev o).
Proof.
  induction o as [|x o IH]; intros a; [reflexivity|].
  destruct x as [[]| | | | | | | |]; cbn [filter cka_is_ev cka_alternates]; try apply IH.
  - destruct a; [reflexivity|apply IH].
  - destruct a; [apply IH|reflexivity].
Qed.

Lemma alternates_app o1 : forall a o2,
  cka_alternates a (o1 ++ o2) =
  match cka_alternates a o1 with Some b => cka_alternates b o2 | None => None end.
Proof.
  induction o1 as [|x o1 IH]; intros a o2; [reflexivity|].
  destruct x as [[]| | | | | | | |]; cbn [app cka_alternates]; try apply IH.
  - destruct a; [reflexivity|apply IH].
  - destruct a; [apply IH|reflexivity].
Qed.

(* ---------------------------------------------------------------- the abstract machine *)

Ltac ak_crush :=
  unfold ak_step, ak_read, ak_expired, ak_clear, ak_set_cms, ak_acked;
  repeat (cbn;
          match goal with
          | |- context [match ?v with ViaApi => _ | ViaExt => _ | ViaExtExpire => _ end] => destruct v
          | |- context [if ?b then _ else _] => destruct b eqn:?
          end);
  cbn; try reflexivity; try congruence;
  try (rewrite ?andb_false_r, ?andb_true_r, ?orb_false_r in *; congruence).

(* set and cleared events alternate, and agree with the attribute *)
Lemma ak_step_alternates now i s :
  cka_alternates (ak_acked s) (snd (ak_step now i s)) = Some (ak_acked (fst (ak_step now i s))).
Proof.
  destruct s as [a e cms n p]. destruct i; destruct a; ak_crush.
Qed.

(* exactly one Acknowledgement notification per accepted acknowledgement with notify, none otherwise *)
Definition ak_in_notify (i : ak_in) : bool :=
  match i with AkAck _ _ _ n _ _ _ | AkClusterSet _ n _ => n | _ => false end.

Lemma ak_step_notify now i s :
  cka_count cka_is_nack (snd (ak_step now i s)) =
  if ak_in_notify i && negb (ak_paused s) && (0 <? cka_count cka_is_set (snd (ak_step now i s))) then 1 else 0.
Proof.
  destruct s as [a e cms n p]. destruct i; destruct a; ak_crush.
Qed.

Lemma ak_step_set_count now i s : 0 <= cka_count cka_is_set (snd (ak_step now i s)) <= 1.
Proof.
  destruct s as [a e cms n p]. destruct i; destruct a; ak_crush; lia.
Qed.

(* persistent comments are never removed *)
Lemma ak_step_persistent now i s c0 :
  In c0 (ak_cms s) -> cm_persistent c0 = true -> In c0 (ak_cms (fst (ak_step now i s))).
Proof.
  intros Hin Hp.
  assert (forall q, In c0 (filter (fun c => cm_persistent c || q c) (ak_cms s))) as F1.
  { intros q. apply filter_In. split; [assumption|]. rewrite Hp. reflexivity. }
  assert (In c0 (filter cm_persistent (ak_cms s))) as F2 by (apply filter_In; auto).
  assert (forall q, In c0 (filter (fun c => q c || cm_persistent c) (ak_cms s))) as F3.
  { intros q. apply filter_In. split; [assumption|]. rewrite Hp. apply orb_true_r. }
  destruct s as [a e cms n p]. cbn [ak_cms] in *.
  destruct i; unfold ak_step, ak_read, ak_expired, ak_clear, ak_set_cms;
    cbn [ak_ack ak_exp ak_cms ak_next ak_paused];
    repeat match goal with
           | |- context [if ?b then _ else _] => destruct b
           end; cbn [fst snd ak_cms ak_ack]; auto; try (apply in_or_app; left; assumption).
Qed.

(* ---------------------------------------------------------------- lifting to the combined model *)

Theorem cka_step_alternates c now f o :
  cka_alternates (cka_acked f) (snd (cka_step c now f o)) = Some (cka_acked (fst (cka_step c now f o))).
Proof.
  destruct (cka_step_sim c now f o) as (i & _ & A & B).
  rewrite alternates_through_ev, B.
  change (cka_acked f) with (ak_acked (ak_of f)).
  change (cka_acked (fst (cka_step c now f o))) with (ak_acked (ak_of (fst (cka_step c now f o)))).
  rewrite A. apply ak_step_alternates.
Qed.

Theorem cka_history_alternates c h : forall f,
  cka_alternates (cka_acked f) (cka_outs c f h) = Some (cka_acked (cka_run c f h)).
Proof.
  induction h as [|[now o] t IH]; intros f; [reflexivity|].
  cbn [cka_outs cka_run]. rewrite alternates_app, cka_step_alternates. apply IH.
Qed.

Definition cka_op_notify (o : cka_op) : bool :=
  match o with CkaBase (OpAck _ _ n _ _ _) | CkaClusterSet _ n _ => n | _ => false end.

Theorem cka_step_notify_once c now f o :
  cka_count cka_is_nack (snd (cka_step c now f o)) =
  if cka_op_notify o && negb (f_paused f) && (0 <? cka_count cka_is_set (snd (cka_step c now f o))) then 1 else 0.
Proof.
  destruct (cka_step_sim c now f o) as (i & Habs & A & B).
  rewrite (count_through_ev cka_is_nack _ nack_is_ev), (count_through_ev cka_is_set _ set_is_ev), B.
  rewrite ak_step_notify. change (ak_paused (ak_of f)) with (f_paused f).
  assert (ak_in_notify i = cka_op_notify o \/
          (cka_count cka_is_set (snd (ak_step now i (ak_of f))) = 0 /\ cka_op_notify o = false)) as [->|[E1 E2]].
  { destruct o as [b|s n e|]; [destruct b|..]; cbn [cka_abs cka_op_notify] in *; subst; auto.
    - destruct (rejected now (f_st f) r); subst; auto.
    - destruct Habs; subst; auto. }
  - reflexivity.
  - rewrite E1, E2. cbn. rewrite andb_false_r. destruct (ak_in_notify i && negb (f_paused f)); reflexivity.
Qed.

Theorem cka_history_persistent c h : forall f c0,
  In c0 (f_comments f) -> cm_persistent c0 = true -> In c0 (f_comments (cka_run c f h)).
Proof.
  induction h as [|[now o] t IH]; intros f c0 Hin Hp; [exact Hin|].
  cbn [cka_run]. apply IH; [|exact Hp].
  destruct (cka_step_sim c now f o) as (i & _ & A & _).
  change (f_comments (fst (cka_step c now f o))) with (ak_cms (ak_of (fst (cka_step c now f o)))).
  rewrite A. apply ak_step_persistent; assumption.
Qed.

(* ---------------------------------------------------------------- results: the clear rule *)

Lemma state_change_api b s r :
  i_state_change (snd (step_accept b s r)) =
  negb (cka_api_state (c_kind b) (s_raw s) =? cka_api_state (c_kind b) (r_state r)).
Proof.
  unfold step_accept.
  destruct (if is_ok (c_kind b) (r_state r) then _ else _) as [[ty att] rec].
  cbn [snd i_state_change]. unfold cka_api_state.
  destruct (c_kind b), (s_raw s), (r_state r); reflexivity.
Qed.

Lemma is_ok_api k s : is_ok k s = (cka_api_state k s =? 0).
Proof. destruct k, s; reflexivity. Qed.

Lemma ak_result_rule now sc okn rend s :
  let s' := fst (ak_step now (AkResult sc okn rend) s) in
  let o := snd (ak_step now (AkResult sc okn rend) s) in
  ak_ack s' =
    (if ak_expired now s then AckNone
     else match ak_ack s with
          | AckNone => AckNone
          | AckNormal => if sc then AckNone else AckNormal
          | AckSticky => if sc && okn then AckNone else AckSticky
          end) /\
  (ak_acked s = true -> ak_exp s' = (if ackt_eqb (ak_ack s') AckNone then 0 else ak_exp s)) /\
  cka_count cka_is_clr o = (if ak_acked s && negb (ak_acked s') then 1 else 0) /\
  cka_count cka_is_set o = 0 /\ cka_count cka_is_nack o = 0 /\
  ak_cms s' =
    (if ackt_eqb (ak_ack s') AckNone
     then filter (fun x => cm_persistent x || (rend <? cm_entry x)) (ak_cms s)
     else ak_cms s) /\
  ak_expired now s' = false.
Proof.
  destruct s as [a e cms n p]. cbv zeta.
  destruct a, sc, okn; ak_crush; repeat split; try reflexivity; try congruence.
Qed.

Theorem cka_result_rule c now r f :
  rejected now (f_st f) r = false ->
  let k := c_kind (fc_base c) in
  let f' := fst (cka_step c now f (CkaBase (OpResult r))) in
  let outs := snd (cka_step c now f (CkaBase (OpResult r))) in
  let changed := negb (cka_api_state k (s_raw (f_st f)) =? cka_api_state k (r_state r)) in
  let ok_new := cka_api_state k (r_state r) =? 0 in
  (f_ack f' =
    (if cka_expired now f then AckNone
     else match f_ack f with
          | AckNone => AckNone
          | AckNormal => if changed then AckNone else AckNormal
          | AckSticky => if changed && ok_new then AckNone else AckSticky
          end) /\
   (cka_acked f = true -> f_ack_expiry f' = (if ackt_eqb (f_ack f') AckNone then 0 else f_ack_expiry f)) /\
   cka_count cka_is_clr outs = (if cka_acked f && negb (cka_acked f') then 1 else 0) /\
   cka_count cka_is_set outs = 0 /\ cka_count cka_is_nack outs = 0 /\
   f_comments f' =
     (if ackt_eqb (f_ack f') AckNone
      then filter (fun x => cm_persistent x || (r_end r <? cm_entry x)) (f_comments f)
      else f_comments f) /\
   cka_expired now f' = false) /\
  (f_ack f' <> AckNone -> cka_count cka_is_nprob outs = 0).
Proof.
  intros Hrej. cbv zeta. split.
  - cbn [cka_step full_step].
    pose proof (do_result_facts c now r f Hrej) as H. cbv zeta in H.
    destruct (do_result c now r f) as [f' outs]. cbn [fst snd] in *.
    destruct H as (A & B & _).
    rewrite (count_through_ev cka_is_clr _ clr_is_ev), (count_through_ev cka_is_set _ set_is_ev),
            (count_through_ev cka_is_nack _ nack_is_ev), B.
    rewrite state_change_api, is_ok_api in A.
    rewrite state_change_api, is_ok_api.
    pose proof (ak_result_rule now
      (negb (cka_api_state (c_kind (fc_base c)) (s_raw (f_st f)) =? cka_api_state (c_kind (fc_base c)) (r_state r)))
      (cka_api_state (c_kind (fc_base c)) (r_state r) =? 0) (r_end r) (ak_of f)) as R.
    cbv zeta in R. rewrite <- A in R. exact R.
  - intros E. unfold cka_count. rewrite (cka_step_no_problem c now f _ E). reflexivity.
Qed.

Theorem cka_result_rejected c now r f :
  rejected now (f_st f) r = true -> cka_step c now f (CkaBase (OpResult r)) = (f, [ORefused 5]).
Proof. intros H. cbn [cka_step full_step]. unfold do_result. rewrite H. reflexivity. Qed.

(* ---------------------------------------------------------------- expiry *)

Lemma eff_ack_get now f : fst (fst (get_ack now f)) = cka_eff_ack now f.
Proof. rewrite get_ack_spec. unfold cka_eff_ack. destruct (cka_expired now f); reflexivity. Qed.

Theorem cka_read_expiry c now f :
  let f' := fst (cka_step c now f (CkaBase OpAckRead)) in
  let outs := snd (cka_step c now f (CkaBase OpAckRead)) in
  (cka_expired now f = true -> f_ack f' = AckNone /\ f_ack_expiry f' = 0 /\ outs = [OAckCleared]) /\
  (cka_expired now f = false -> f' = f /\ outs = []) /\
  f_ack f' = cka_eff_ack now f /\ cka_expired now f' = false.
Proof.
  cbv zeta. cbn [cka_step full_step]. rewrite get_ack_spec. unfold cka_eff_ack.
  destruct (cka_expired now f) eqn:E; cbn [fst snd]; repeat split; try congruence; try reflexivity; auto.
Qed.

(* ---------------------------------------------------------------- the entry points *)

Theorem cka_ack_refused c now v sticky notify pers eg expiry f :
  entry_state_ok c f = true \/ cka_eff_ack now f <> AckNone \/ cka_expiry_bad now v eg expiry = true ->
  exists n, 1 <= n <= 3 /\
    cka_step c now f (CkaBase (OpAck v sticky notify pers eg expiry)) = (f, [ORefused n]).
Proof.
  intros H. cbn [cka_step full_step]. unfold do_ack, cka_expiry_bad in *.
  assert (cka_eff_ack now f <> AckNone ->
          (let '(a, f1, o1) := get_ack now f in
           if negb (ackt_eqb a AckNone) then (f1, o1 ++ [ORefused 3])
           else
             let cm := {| cm_id := f_next_cm f1; cm_persistent := pers; cm_entry := now;
                          cm_expire := match v with ViaApi => if eg then expiry else 0 | ViaExt => 0 | ViaExtExpire => expiry end |} in
             let f2 := set_comments f1 (f_comments f1 ++ [cm]) (f_next_cm f1 + 1) in
             let f3 := set_ack f2 (if sticky then AckSticky else AckNormal)
                         match v with ViaApi => if eg then expiry else 0 | ViaExt => 0 | ViaExtExpire => expiry end in
             (f3, o1 ++ (if notify && negb (f_paused f3) then [ONotify NAck] else [])
                     ++ [OAckSet (if sticky then AckSticky else AckNormal)])) = (f, [ORefused 3])) as Hp.
  { intros Ha. rewrite get_ack_spec. unfold cka_eff_ack in Ha.
    destruct (cka_expired now f); [congruence|].
    destruct (f_ack f); [congruence|reflexivity|reflexivity]. }
  destruct v.
  - destruct (eg && (expiry <=? now)); [exists 1; split; [lia|reflexivity]|].
    destruct (entry_state_ok c f); [exists 2; split; [lia|reflexivity]|].
    destruct H as [H|[H|H]]; try discriminate. exists 3. split; [lia|]. apply Hp; assumption.
  - destruct (entry_state_ok c f); [exists 2; split; [lia|reflexivity]|].
    destruct H as [H|[H|H]]; try discriminate. exists 3. split; [lia|]. apply Hp; assumption.
  - destruct (entry_state_ok c f); [exists 2; split; [lia|reflexivity]|].
    destruct (negb (expiry =? 0) && (expiry <=? now)); [exists 1; split; [lia|reflexivity]|].
    destruct H as [H|[H|H]]; try discriminate. exists 3. split; [lia|]. apply Hp; assumption.
Qed.

Theorem cka_ack_accepted c now v sticky notify pers eg expiry f :
  entry_state_ok c f = false -> cka_eff_ack now f = AckNone -> cka_expiry_bad now v eg expiry = false ->
  let f' := fst (cka_step c now f (CkaBase (OpAck v sticky notify pers eg expiry))) in
  let outs := snd (cka_step c now f (CkaBase (OpAck v sticky notify pers eg expiry))) in
  f_ack f' = (if sticky then AckSticky else AckNormal) /\
  f_ack_expiry f' = cka_expiry_eff v eg expiry /\
  f_comments f' = f_comments f ++ [{| cm_id := f_next_cm f; cm_persistent := pers; cm_entry := now;
                                      cm_expire := cka_expiry_eff v eg expiry |}] /\
  cka_count cka_is_set outs = 1 /\
  cka_count cka_is_nack outs = (if notify && negb (f_paused f) then 1 else 0) /\
  cka_count cka_is_clr outs = (if cka_expired now f then 1 else 0) /\
  cka_ref_code outs = 0.
Proof.
  intros H1 H2 H3. cbv zeta. cbn [cka_step full_step]. unfold do_ack, cka_expiry_bad, cka_expiry_eff in *.
  rewrite H1.
  assert (forall X, X = (if false then (f, [ORefused 2]) else
            (let '(a, f1, o1) := get_ack now f in
             if negb (ackt_eqb a AckNone) then (f1, o1 ++ [ORefused 3])
             else
               let cm := {| cm_id := f_next_cm f1; cm_persistent := pers; cm_entry := now;
                            cm_expire := match v with ViaApi => if eg then expiry else 0 | ViaExt => 0 | ViaExtExpire => expiry end |} in
               let f2 := set_comments f1 (f_comments f1 ++ [cm]) (f_next_cm f1 + 1) in
               let f3 := set_ack f2 (if sticky then AckSticky else AckNormal)
                           match v with ViaApi => if eg then expiry else 0 | ViaExt => 0 | ViaExtExpire => expiry end in
               (f3, o1 ++ (if notify && negb (f_paused f3) then [ONotify NAck] else [])
                       ++ [OAckSet (if sticky then AckSticky else AckNormal)]))) ->
          f_ack (fst X) = (if sticky then AckSticky else AckNormal) /\
          f_ack_expiry (fst X) = match v with ViaApi => if eg then expiry else 0 | ViaExt => 0 | ViaExtExpire => expiry end /\
          f_comments (fst X) = f_comments f ++ [{| cm_id := f_next_cm f; cm_persistent := pers; cm_entry := now;
               cm_expire := match v with ViaApi => if eg then expiry else 0 | ViaExt => 0 | ViaExtExpire => expiry end |}] /\
          cka_count cka_is_set (snd X) = 1 /\
          cka_count cka_is_nack (snd X) = (if notify && negb (f_paused f) then 1 else 0) /\
          cka_count cka_is_clr (snd X) = (if cka_expired now f then 1 else 0) /\
          cka_ref_code (snd X) = 0) as Hp.
  { intros X ->. rewrite get_ack_spec. unfold cka_eff_ack in H2.
    destruct (cka_expired now f) eqn:Ex.
    - cbn. destruct notify, (f_paused f), sticky; cbn; repeat split; reflexivity.
    - rewrite H2. cbn. destruct notify, (f_paused f), sticky; cbn; repeat split; reflexivity. }
  destruct v; cbn [negb] in *; rewrite ?H3; apply Hp; reflexivity.
Qed.

Theorem cka_cluster_refused c now sticky notify expiry f :
  cka_eff_ack now f <> AckNone -> cka_step c now f (CkaClusterSet sticky notify expiry) = (f, []).
Proof.
  intros Ha. cbn [cka_step]. unfold cka_cluster_set. rewrite get_ack_spec. unfold cka_eff_ack in Ha.
  destruct (cka_expired now f); [congruence|].
  destruct (f_ack f); [congruence|reflexivity|reflexivity].
Qed.

(* the cluster entry point has NO state test: whenever the object is not (or no longer) acknowledged the
   message is applied *)
Theorem cka_cluster_accepted c now sticky notify expiry f :
  cka_eff_ack now f = AckNone ->
  let f' := fst (cka_step c now f (CkaClusterSet sticky notify expiry)) in
  let outs := snd (cka_step c now f (CkaClusterSet sticky notify expiry)) in
  f_ack f' = (if sticky then AckSticky else AckNormal) /\ f_ack_expiry f' = expiry /\
  f_comments f' = f_comments f /\
  cka_count cka_is_set outs = 1 /\
  cka_count cka_is_nack outs = (if notify && negb (f_paused f) then 1 else 0) /\
  cka_count cka_is_clr outs = (if cka_expired now f then 1 else 0).
Proof.
  intros H2. cbv zeta. cbn [cka_step]. unfold cka_cluster_set. rewrite get_ack_spec. unfold cka_eff_ack in H2.
  destruct (cka_expired now f) eqn:Ex.
  - cbn. destruct notify, (f_paused f), sticky; cbn; repeat split; reflexivity.
  - rewrite H2. cbn. destruct notify, (f_paused f), sticky; cbn; repeat split; reflexivity.
Qed.

(* F-C06-a: on a reachable state, a service that is OK is acknowledged (sticky) through the cluster entry
   point; the next CRITICAL result finds the new problem acknowledged: reported handled, no Problem
   notification even when it becomes hard. *)
Definition cka_witness_cfg : fcfg :=
  {| fc_base := {| c_kind := KService; c_max := 1; c_volatile := false |};
     fc_flap_enabled := false; fc_flap_high := 3005; fc_flap_low := 2505;
     fc_active_checks := false; fc_check_interval := 300 |}.

Definition cka_witness_history : list (Z * cka_op) :=
  [ (10, CkaBase (OpResult {| r_state := SOK; r_start := 10; r_end := 10 |}));
    (20, CkaClusterSet true true 0);
    (30, CkaBase (OpResult {| r_state := SCritical; r_start := 30; r_end := 30 |})) ].

Theorem cka_cluster_ok_refuted :
  let c := cka_witness_cfg in
  let f1 := cka_run c init_full (firstn 1 cka_witness_history) in
  let f3 := cka_run c init_full cka_witness_history in
  entry_state_ok c f1 = true /\ f_ack f1 = AckNone /\
  cka_count cka_is_set (snd (cka_step c 20 f1 (CkaClusterSet true true 0))) = 1 /\
  f_ack f3 = AckSticky /\ s_type (f_st f3) = Hard /\ get_handled c 30 f3 = true /\
  cka_count cka_is_nprob (cka_outs c init_full cka_witness_history) = 0.
Proof. vm_compute. repeat split; reflexivity. Qed.

(* ---------------------------------------------------------------- removal *)

Theorem cka_unack_rule c now f :
  let f' := fst (cka_step c now f (CkaBase OpUnack)) in
  let outs := snd (cka_step c now f (CkaBase OpUnack)) in
  f_ack f' = AckNone /\ f_ack_expiry f' = 0 /\
  f_comments f' = filter cm_persistent (f_comments f) /\
  cka_count cka_is_clr outs = (if cka_acked f then 1 else 0) /\
  cka_count cka_is_set outs = 0 /\ cka_count cka_is_nack outs = 0.
Proof.
  cbv zeta. cbn [cka_step full_step]. unfold do_unack, clear_ack, remove_ack_comments, cka_acked. cbn.
  rewrite (filter_ext (fun c => cm_persistent c || false) cm_persistent) by (intros; apply orb_false_r).
  destruct (f_ack f); cbn; repeat split; reflexivity.
Qed.

Theorem cka_cluster_clear_rule c now f :
  let f' := fst (cka_step c now f CkaClusterClear) in
  let outs := snd (cka_step c now f CkaClusterClear) in
  f_ack f' = AckNone /\ f_ack_expiry f' = 0 /\ f_comments f' = f_comments f /\
  cka_count cka_is_clr outs = (if cka_acked f then 1 else 0) /\
  cka_count cka_is_set outs = 0 /\ cka_count cka_is_nack outs = 0.
Proof.
  cbv zeta. cbn [cka_step]. unfold cka_cluster_clear, clear_ack, cka_acked. cbn.
  destruct (f_ack f); cbn; repeat split; reflexivity.
Qed.

(* ---------------------------------------------------------------- what can clear an acknowledgement *)

(* an acknowledgement that is set and not expired survives every operation except: a result that
   changes the state (normal: any change, sticky: a change to OK/Up) and the two removal entry points *)
Theorem cka_clearing_causes c now f o :
  cka_acked f = true -> cka_expired now f = false ->
  f_ack (fst (cka_step c now f o)) = AckNone ->
  match o with
  | CkaBase (OpResult r) =>
      rejected now (f_st f) r = false /\
      let k := c_kind (fc_base c) in
      cka_api_state k (s_raw (f_st f)) <> cka_api_state k (r_state r) /\
      (f_ack f = AckSticky -> cka_api_state k (r_state r) = 0)
  | CkaBase OpUnack | CkaClusterClear => True
  | _ => False
  end.
Proof.
  intros Hack Hexp Hnone.
  destruct (cka_step_sim c now f o) as (i & Habs & A & _).
  assert (ak_ack (fst (ak_step now i (ak_of f))) = AckNone) as Hn by (rewrite <- A; exact Hnone).
  assert (ak_expired now (ak_of f) = false) as He by exact Hexp.
  assert (ak_ack (ak_of f) <> AckNone) as Ha.
  { unfold cka_acked in Hack. intros E. change (ak_ack (ak_of f)) with (f_ack f) in E. rewrite E in Hack. discriminate. }
  assert (forall j, j = AkNop \/ j = AkRead \/ j = AkCmTimer \/ (exists p, j = AkPause p) ->
                    ak_ack (fst (ak_step now j (ak_of f))) = AckNone -> False) as Hidle.
  { intros j Hj Hjn. destruct Hj as [->|[->|[->|[p ->]]]]; cbn [ak_step] in Hjn;
      try (unfold ak_read in Hjn; rewrite He in Hjn); cbn in Hjn; auto. }
  destruct o as [b|s n e|]; [destruct b|..]; cbn [cka_abs] in Habs; try exact I;
    try (subst i; exfalso; eapply Hidle; [|exact Hn]; eauto 6; fail);
    try (subst i; exfalso; eapply Hidle; [|exact Hn]; right; right; right; eexists; reflexivity).
  - (* result *)
    destruct (rejected now (f_st f) r) eqn:Hrej; [subst i; exfalso; eapply Hidle; eauto|].
    split; [reflexivity|]. subst i. rewrite state_change_api, is_ok_api in Hn.
    pose proof (ak_result_rule now
      (negb (cka_api_state (c_kind (fc_base c)) (s_raw (f_st f)) =? cka_api_state (c_kind (fc_base c)) (r_state r)))
      (cka_api_state (c_kind (fc_base c)) (r_state r) =? 0) (r_end r) (ak_of f)) as R.
    cbv zeta in R. destruct R as (R & _). rewrite Hn, He in R. cbv zeta.
    change (ak_ack (ak_of f)) with (f_ack f) in *.
    destruct (f_ack f) eqn:Ef; [congruence| |].
    + destruct (cka_api_state (c_kind (fc_base c)) (s_raw (f_st f)) =? cka_api_state (c_kind (fc_base c)) (r_state r)) eqn:Eq;
        cbn in R; [discriminate|]. split; [lia|discriminate].
    + destruct (cka_api_state (c_kind (fc_base c)) (s_raw (f_st f)) =? cka_api_state (c_kind (fc_base c)) (r_state r)) eqn:Eq;
        cbn in R; [discriminate|].
      destruct (cka_api_state (c_kind (fc_base c)) (r_state r) =? 0) eqn:Eo; [|discriminate]. split; [lia|]. intros _. lia.
  - (* acknowledge: never clears *)
    subst i. exfalso. revert Hn. cbn [ak_step]. unfold ak_read. rewrite He.
    destruct (entry_state_ok c f || _); cbn [fst]; [exact Ha|].
    destruct (ak_ack (ak_of f)) eqn:E; cbn; try congruence; intros H; change (f_ack f) with (ak_ack (ak_of f)) in H; congruence.
  - destruct Habs as [Hi | Hi]; subst i; [apply (Hidle AkRead); auto|apply (Hidle AkNop); auto].
  - (* cluster set *)
    subst i. revert Hn. cbn [ak_step]. unfold ak_read. rewrite He.
    destruct (ak_ack (ak_of f)) eqn:E; cbn; try congruence; intros H; change (f_ack f) with (ak_ack (ak_of f)) in H; congruence.
Qed.

(* ---------------------------------------------------------------- handled *)

Lemma existsb_depth now f : in_downtime now f = (0 <? downtime_depth now f).
Proof.
  unfold in_downtime, downtime_depth.
  induction (f_dts f) as [|d l IH]; [reflexivity|].
  cbn [existsb filter]. destruct (dt_in_effect now d); cbn [orb length]; [|exact IH].
  symmetry. apply Z.ltb_lt. lia.
Qed.

Theorem cka_handled_rule c now f :
  get_handled c now f =
  (s_has_cr (f_st f) && negb (cka_api_state (c_kind (fc_base c)) (s_raw (f_st f)) =? 0))
  && ((0 <? downtime_depth now f) || negb (ackt_eqb (cka_eff_ack now f) AckNone)).
Proof.
  unfold get_handled. rewrite eff_ack_get, is_ok_api.
  change (existsb (dt_in_effect now) (f_dts f)) with (in_downtime now f). rewrite existsb_depth. reflexivity.
Qed.

Theorem cka_acknowledged_is_handled c now f :
  s_has_cr (f_st f) = true -> is_ok (c_kind (fc_base c)) (s_raw (f_st f)) = false ->
  cka_eff_ack now f <> AckNone -> get_handled c now f = true.
Proof.
  intros H1 H2 H3. unfold get_handled. rewrite eff_ack_get, H1, H2.
  destruct (cka_eff_ack now f); [congruence|..]; cbn; apply orb_true_r.
Qed.

(* ---------------------------------------------------------------- the three entry points side by side *)

Inductive cka_entry := CkeBase (v : via) | CkeCluster.

Definition cka_entry_op (e : cka_entry) (sticky notify pers eg : bool) (expiry : Z) : cka_op :=
  match e with
  | CkeBase v => CkaBase (OpAck v sticky notify pers eg expiry)
  | CkeCluster => CkaClusterSet sticky notify expiry
  end.

(* What each entry point refuses.  (1) all three refuse an already acknowledged object and leave the whole
   state untouched, with no event of the layer; (2) the API action and the external commands also refuse an
   OK/Up object and an expiry that is not in the future; (3) the cluster event does NOT: whatever the state of
   the object, an unacknowledged object is acknowledged (for an OK/Up object this is finding F-C06-a). *)
Theorem cka_refuse_entry_points c now e sticky notify pers eg expiry f :
  let st := cka_step c now f (cka_entry_op e sticky notify pers eg expiry) in
  (cka_eff_ack now f <> AckNone ->
     fst st = f /\ cka_count cka_is_set (snd st) = 0 /\ cka_count cka_is_nack (snd st) = 0 /\
     cka_count cka_is_clr (snd st) = 0) /\
  (forall v, e = CkeBase v ->
     entry_state_ok c f = true \/ cka_expiry_bad now v eg expiry = true ->
     fst st = f /\ cka_count cka_is_set (snd st) = 0 /\ cka_count cka_is_nack (snd st) = 0 /\
     cka_count cka_is_clr (snd st) = 0) /\
  (e = CkeCluster -> cka_eff_ack now f = AckNone ->
     f_ack (fst st) = (if sticky then AckSticky else AckNormal) /\ cka_count cka_is_set (snd st) = 1).
Proof.
  cbv zeta. split; [|split].
  - intros Ha. destruct e as [v|]; cbn [cka_entry_op].
    + destruct (cka_ack_refused c now v sticky notify pers eg expiry f (or_intror (or_introl Ha))) as (n & _ & ->).
      cbn. auto.
    + rewrite (cka_cluster_refused c now sticky notify expiry f Ha). cbn. auto.
  - intros v -> H. cbn [cka_entry_op].
    assert (entry_state_ok c f = true \/ cka_eff_ack now f <> AckNone \/ cka_expiry_bad now v eg expiry = true) as H'
      by (destruct H; auto).
    destruct (cka_ack_refused c now v sticky notify pers eg expiry f H') as (n & _ & ->). cbn. auto.
  - intros -> Ha. cbn [cka_entry_op].
    destruct (cka_cluster_accepted c now sticky notify expiry f Ha) as (A & _ & _ & B & _). cbv zeta in A, B. auto.
Qed.

(* ---------------------------------------------------------------- Acknowledgement notifications, by cases *)

Theorem cka_step_set_count c now f o : 0 <= cka_count cka_is_set (snd (cka_step c now f o)) <= 1.
Proof.
  destruct (cka_step_sim c now f o) as (i & _ & _ & B).
  rewrite (count_through_ev cka_is_set _ set_is_ev), B. apply ak_step_set_count.
Qed.

(* every case of "exactly one": accepted (= one set event) with notify on an active object -> exactly one;
   paused (HA-passive) object -> none; no notify requested -> none; not accepted -> none; never two *)
Theorem cka_step_notify_cases c now f o :
  let n := cka_count cka_is_nack (snd (cka_step c now f o)) in
  let sets := cka_count cka_is_set (snd (cka_step c now f o)) in
  (cka_op_notify o = true -> sets = 1 -> f_paused f = false -> n = 1) /\
  (f_paused f = true -> n = 0) /\
  (cka_op_notify o = false -> n = 0) /\
  (sets = 0 -> n = 0) /\
  0 <= n <= 1.
Proof.
  cbv zeta. rewrite cka_step_notify_once.
  pose proof (cka_step_set_count c now f o) as Hs.
  repeat split.
  - intros -> -> ->. reflexivity.
  - intros ->. rewrite andb_false_r. reflexivity.
  - intros ->. reflexivity.
  - intros ->. rewrite andb_false_r. reflexivity.
  - destruct (cka_op_notify o && negb (f_paused f) && _); lia.
  - destruct (cka_op_notify o && negb (f_paused f) && _); lia.
Qed.
