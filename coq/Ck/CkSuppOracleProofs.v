(* C02 - the oracle that is run over implementation traces accepts every step the model can take, from every state. *)
From Icv Require Import Base.Tac Ck.CkState Ck.CkStateProofs Ck.CkObs Ck.CkFull Ck.CkSuppProofs Ck.CkSuppStep
  Ck.CkSuppFire Ck.CkSuppThms Ck.CkSuppObs.
Local Open Scope Z_scope.

Lemma c02_zs_eqb_refl l : c02_zs_eqb l l = true.
Proof. induction l as [|x l IH]; [reflexivity|]. cbn. rewrite Z.eqb_refl. exact IH. Qed.

Lemma sstate_eqb_refl s : sstate_eqb s s = true.
Proof. destruct s; reflexivity. Qed.

Lemma eqb_refl' b : Bool.eqb b b = true.
Proof. destruct b; reflexivity. Qed.

Lemma c02_nums_if (b : bool) t : c02_nums (if b then [ONotify t] else []) = if b then [ntype_num t] else [].
Proof. destruct b; reflexivity. Qed.

Lemma stype_back t : (if stype_eqb t Hard then Hard else Soft) = t.
Proof. destruct t; reflexivity. Qed.

Lemma c02_check_other c now f o kind new :
  kind <> 1 -> kind <> 2 ->
  c02_quiet (snd (full_step c now f o)) -> c02_bits_same f (fst (full_step c now f o)) ->
  c02_check (fc_base c)
    (c02_mk_obs c now kind new f (fst (full_step c now f o))
       (c02_nums (c02_state_outs (snd (full_step c now f o)))) (c02_nums (c02_flap_outs (snd (full_step c now f o))))) = 0.
Proof.
  intros K1 K2 Hq (B1 & B2 & B3 & B4 & B5 & B6 & B7).
  rewrite (c02_quiet_state _ Hq), (c02_quiet_flap _ Hq).
  unfold c02_check, c02_check_state, c02_check_flap, c02_mk_obs.
  cbn [c2_kind c2_sn c2_fn c2_p0 c2_p1 c2_r0 c2_r1 c2_sbs0 c2_sbs1 c2_fs0 c2_fs1 c2_fe0 c2_fe1 c02_nums flat_map
       length c02_zs_eqb negb andb Z.of_nat].
  rewrite B1, B2, B3, B4, B5, sstate_eqb_refl, !eqb_refl'. cbn [negb andb].
  rewrite andb_false_r.
  destruct (kind =? 1) eqn:E1; [apply Z.eqb_eq in E1; contradiction|].
  destruct (kind =? 2) eqn:E2; [apply Z.eqb_eq in E2; contradiction|].
  reflexivity.
Qed.

Lemma c02_spec_pre b o new ty s :
  s_raw s = c2_raw0 o -> stype_eqb (s_type s) Hard = c2_hard0 o ->
  c02_spec_problem b (c02_pre_st o) new ty = c02_spec_problem b s new ty /\
  c02_spec_recovery b (c02_pre_st o) new = c02_spec_recovery b s new /\
  c02_vol_soft b (c02_pre_st o) new = c02_vol_soft b s new.
Proof.
  intros H1 H2. unfold c02_spec_problem, c02_spec_recovery, c02_vol_soft, c02_pre_st. cbn [s_raw s_type].
  rewrite <- H1, <- H2, stype_back. repeat split.
Qed.

Theorem c02_check_model c now f o :
  c02_check (fc_base c) (c02_model_obs c now f o) = 0.
Proof.
  unfold c02_model_obs.
  destruct (c02_is_core_op o) eqn:Hcore.
  2:{ destruct (c02_other_ops c now f o Hcore) as [Hq Hb].
      apply c02_check_other; try assumption; destruct o; cbn; try discriminate. }
  destruct o; try discriminate.
  - (* check result *)
    cbn [c02_kind_of c02_op_new].
    destruct (rejected now (f_st f) r) eqn:Hrej.
    { apply c02_check_other; try discriminate; cbn [full_step]; unfold do_result; rewrite Hrej; cbn [fst snd].
      - c02_q.
      - repeat split. }
    cbn [full_step].
    destruct (do_result_spec c now r f Hrej) as [Hst Hpa _ _ _ Hso Hfo].
    set (f' := fst (do_result c now r f)) in *. set (outs := snd (do_result c now r f)) in *.
    cbv zeta in Hso, Hfo.
    pose proof (c02_send_char (fc_base c) (f_st f) r) as (Hsend & Hrec & _). cbv zeta in Hsend.
    rewrite <- Hst in Hsend.
    set (i := snd (step_accept (fc_base c) (f_st f) r)) in *.
    set (send := c02_send (fc_base c) i (f_st f') (r_state r)) in *.
    destruct Hso as (O1 & O2 & O3 & O4). destruct Hfo as (G1 & G2).
    set (o := c02_mk_obs c now 1 (r_state r) f f' (c02_nums (c02_state_outs outs)) (c02_nums (c02_flap_outs outs))).
    assert (c02_res_ok send (i_recovery i) o = true) as Hmodel.
    { unfold c02_res_ok, o, c02_mk_obs.
      cbn [c2_sn c2_p0 c2_p1 c2_r0 c2_r1 c2_sbs0 c2_sbs1 c2_fl1 c2_paused c2_reason c2_hard0 c2_raw0].
      rewrite O1, O2, O3, O4, c02_nums_if. unfold c02_pending, c02_hard_state.
      replace (ntype_num (if i_recovery i then NRecovery else NProblem)) with (if i_recovery i then 64 else 32)
        by (destruct (i_recovery i); reflexivity).
      rewrite c02_zs_eqb_refl, !eqb_refl'. cbn [andb].
      destruct (_ && _ && negb (f_sp_problem f || f_sp_recovery f)); [apply sstate_eqb_refl|reflexivity]. }
    assert (c02_check_flap o = 0) as Hflap.
    { unfold c02_check_flap, o, c02_mk_obs.
      cbn [c2_kind c2_fn c2_fl0 c2_fl1 c2_paused c2_indt c2_fs0 c2_fs1 c2_fe0 c2_fe1]. cbn [Z.eqb Pos.eqb].
      rewrite G1.
      match goal with |- context [c02_nums ?X] =>
        replace (c02_nums X) with
          (if negb (is_flapping c (f_flap f)) && is_flapping c (f_flap f') && negb (f_paused f) && negb (in_downtime now f')
           then [128] else if is_flapping c (f_flap f) && negb (is_flapping c (f_flap f')) && negb (f_paused f) && negb (in_downtime now f')
           then [256] else [])
          by (repeat match goal with |- context [if ?b then _ else _] => destruct b end; reflexivity) end.
      rewrite c02_zs_eqb_refl. cbn [negb].
      destruct (f_sp_fstart f && f_sp_fend f) eqn:E; [reflexivity|].
      specialize (G2 eq_refl). destruct (c02_cancel _ _) as [a b]. inversion G2; subst. rewrite !eqb_refl'. reflexivity. }
    unfold c02_check. fold o.
    assert (c02_check_state (fc_base c) o = 0) as Hs.
    { unfold c02_check_state.
      assert (c2_sn o = (if send && negb (is_flapping c (f_flap f')) && negb (f_paused f) &&
                            negb (c02_reason now f' || c02_pending f)
                         then [if i_recovery i then 64 else 32] else [])) as Esn.
      { unfold o, c02_mk_obs. cbn [c2_sn]. rewrite O1, c02_nums_if. destruct (i_recovery i); reflexivity. }
      rewrite Esn.
      replace (c2_paused o) with (f_paused f) by reflexivity.
      replace (c2_reason o) with (c02_reason now f') by reflexivity.
      replace (c2_kind o) with 1 by reflexivity.
      replace (c2_p0 o || c2_r0 o) with (c02_pending f) by reflexivity.
      replace (c2_sbs1 o) with (f_sbs f') by reflexivity. replace (c2_sbs0 o) with (f_sbs f) by reflexivity.
      assert ((c02_pending f && negb (sstate_eqb (f_sbs f') (f_sbs f))) = false) as E3.
      { destruct (c02_pending f) eqn:Ep; [|reflexivity]. rewrite O4, andb_false_r, sstate_eqb_refl. reflexivity. }
      rewrite E3.
      assert ((negb (Z.of_nat (length (if send && negb (is_flapping c (f_flap f')) && negb (f_paused f) &&
                            negb (c02_reason now f' || c02_pending f)
                         then [if i_recovery i then 64 else 32] else [])) <=? 1)) = false) as E1
        by (destruct (_ && _ && _ && negb _); reflexivity).
      rewrite E1.
      assert ((negb (c02_zs_eqb (if send && negb (is_flapping c (f_flap f')) && negb (f_paused f) &&
                            negb (c02_reason now f' || c02_pending f)
                         then [if i_recovery i then 64 else 32] else []) []) &&
               (f_paused f || c02_reason now f' || (1 =? 3))) = false) as E2.
      { destruct send, (is_flapping c (f_flap f')), (f_paused f), (c02_reason now f'), (c02_pending f); reflexivity. }
      rewrite E2. cbn [Z.eqb Pos.eqb].
      replace (c2_raw0 o) with (s_raw (f_st f)) by reflexivity.
      replace (c2_hard0 o) with (stype_eqb (s_type (f_st f)) Hard) by reflexivity.
      destruct (is_ok (c_kind (fc_base c)) (s_raw (f_st f)) && negb (stype_eqb (s_type (f_st f)) Hard)) eqn:Eshape;
        [reflexivity|].
      assert (negb (is_ok (c_kind (fc_base c)) (s_raw (f_st f)) && stype_eqb (s_type (f_st f)) Soft) = true) as Hg.
      { destruct (is_ok _ _), (s_type (f_st f)); cbn in *; congruence. }
      rewrite Hg, andb_true_r in Hsend.
      destruct (c02_spec_pre (fc_base c) o (r_state r) (if c2_hard1 o then Hard else Soft) (f_st f) eq_refl eq_refl)
        as (P1 & P2 & P3).
      replace (c2_new o) with (r_state r) by reflexivity.
      rewrite P1, P2, P3.
      replace (if c2_hard1 o then Hard else Soft) with (s_type (f_st f')) by (unfold o, c02_mk_obs; cbn [c2_hard1]; rewrite stype_back; reflexivity).
      set (ep := c02_spec_problem (fc_base c) (f_st f) (r_state r) (s_type (f_st f'))) in *.
      set (er := c02_spec_recovery (fc_base c) (f_st f) (r_state r)) in *.
      assert (c02_res_ok (ep || er) er o = true) as ->; [|reflexivity].
      rewrite <- Hmodel, Hsend.
      destruct (ep || er) eqn:Ee.
      + f_equal. rewrite Hrec. unfold ep, er, c02_spec_problem, c02_spec_recovery in *.
        destruct (is_ok (c_kind (fc_base c)) (r_state r)); cbn [negb andb orb] in *; [|reflexivity].
        destruct (is_ok (c_kind (fc_base c)) (s_raw (f_st f))); cbn [negb andb] in *; [discriminate|].
        rewrite Ee. reflexivity.
      + unfold c02_res_ok. cbn [andb]. reflexivity. }
    rewrite Hs. cbn [Z.eqb]. exact Hflap.
  - (* timer *)
    cbn [c02_kind_of c02_op_new full_step].
    destruct (do_fire_spec c now f) as [Hsame _ Hs Hfl].
    set (f' := fst (do_fire c now f)) in *. set (outs := snd (do_fire c now f)) in *.
    cbv zeta in Hs, Hfl. destruct Hsame as (S1 & S2 & S3 & S4 & S5 & S6).
    destruct Hs as (O1 & O2 & O3). destruct Hfl as (G1 & G2 & G3).
    set (o := c02_mk_obs c now 2 SOK f f' (c02_nums (c02_state_outs outs)) (c02_nums (c02_flap_outs outs))).
    set (k := c_kind (fc_base c)).
    set (rel := negb (f_paused f) && c02_pending f && c02_release_cond c now f) in *.
    assert (c2_sn o = (if rel && negb (release_same_state k (s_raw (f_st f)) (f_sbs f))
                       then [if s_has_cr (f_st f) && is_ok k (s_raw (f_st f)) then 64 else 32] else [])) as Esn.
    { unfold o, c02_mk_obs. cbn [c2_sn]. rewrite O1, c02_nums_if. unfold c02_fire_type. fold k.
      destruct (s_has_cr (f_st f) && is_ok k (s_raw (f_st f))); reflexivity. }
    assert (c02_fire_ok k (negb (release_same_state k (s_raw (f_st f)) (f_sbs f))) o = true) as Hmodel.
    { unfold c02_fire_ok. rewrite Esn. unfold o, c02_mk_obs. cbn [c2_p0 c2_p1 c2_r0 c2_r1 c2_paused c2_relcond c2_hascr0 c2_raw0].
      fold (c02_pending f). fold rel. rewrite O2, O3, c02_zs_eqb_refl, !eqb_refl'. reflexivity. }
    assert (c02_check_flap o = 0) as Hflap.
    { unfold c02_check_flap, o, c02_mk_obs.
      cbn [c2_kind c2_fn c2_fl0 c2_fl1 c2_paused c2_flapgo c2_fs0 c2_fs1 c2_fe0 c2_fe1]. cbn [Z.eqb Pos.eqb].
      rewrite G1, G2, G3.
      match goal with |- context [c02_nums (?A ++ ?B)] =>
        replace (c02_nums (A ++ B)) with
          ((if f_sp_fstart f && is_flapping c (f_flap f) && (negb (f_paused f) && c02_flap_go c now f) then [128] else []) ++
           (if f_sp_fend f && negb (is_flapping c (f_flap f)) && (negb (f_paused f) && c02_flap_go c now f) then [256] else []))
          by (repeat match goal with |- context [if ?b then _ else _] => destruct b end; reflexivity) end.
      rewrite c02_zs_eqb_refl, !eqb_refl'. reflexivity. }
    unfold c02_check. fold o.
    assert (c02_check_state (fc_base c) o = 0) as Hst.
    { unfold c02_check_state. fold k. rewrite Esn.
      replace (c2_paused o) with (f_paused f) by reflexivity.
      replace (c2_reason o) with (c02_reason now f') by reflexivity.
      replace (c2_kind o) with 2 by reflexivity.
      replace (c2_p0 o || c2_r0 o) with (c02_pending f) by reflexivity.
      replace (c2_sbs1 o) with (f_sbs f') by reflexivity. replace (c2_sbs0 o) with (f_sbs f) by reflexivity.
      replace (c2_raw0 o) with (s_raw (f_st f)) by reflexivity.
      rewrite S2, sstate_eqb_refl, S6. cbn [negb]. rewrite andb_false_r.
      assert ((negb (Z.of_nat (length (if rel && negb (release_same_state k (s_raw (f_st f)) (f_sbs f))
                       then [if s_has_cr (f_st f) && is_ok k (s_raw (f_st f)) then 64 else 32] else [])) <=? 1)) = false) as E1
        by (destruct (rel && _); reflexivity).
      rewrite E1.
      assert ((negb (c02_zs_eqb (if rel && negb (release_same_state k (s_raw (f_st f)) (f_sbs f))
                       then [if s_has_cr (f_st f) && is_ok k (s_raw (f_st f)) then 64 else 32] else []) []) &&
               (f_paused f || c02_reason now f || (2 =? 3))) = false) as E2.
      { unfold rel, c02_release_cond.
        destruct (f_paused f), (c02_pending f), (c02_reason now f); cbn [negb andb orb Z.eqb Pos.eqb];
          rewrite ?andb_false_r; reflexivity. }
      rewrite E2. cbn [Z.eqb Pos.eqb].
      rewrite <- c02_release_same_api, Hmodel. reflexivity. }
    rewrite Hst. cbn [Z.eqb]. exact Hflap.
Qed.

(* ---- traces ---- *)

Fixpoint c02_model_trace (c : fcfg) (f : full) (l : list (Z * op)) : list c02_obs :=
  match l with
  | [] => []
  | no :: t => c02_model_obs c (fst no) f (snd no) :: c02_model_trace c (fst (full_step c (fst no) f (snd no))) t
  end.

Lemma c02_codes_zero c l : forall f, Forall (fun o => c02_check (fc_base c) o = 0) (c02_model_trace c f l).
Proof.
  induction l as [|no l IH]; intros f; [constructor|].
  cbn [c02_model_trace]. constructor; [apply c02_check_model|apply IH].
Qed.

Lemma c02_first_none p b l : p 0 = false ->
  Forall (fun o => c02_check b o = 0) l -> forall idx, c02_first p b idx l = None.
Proof.
  intros Hp. induction 1 as [|o l Ho _ IH]; intros idx; [reflexivity|].
  cbn [c02_first]. rewrite Ho, Hp. apply IH.
Qed.

(* any start state, any operations, hosts and services, any raw results *)
Theorem oracle_c02_accepts_model c l f :
  oracle_c02 (fc_base c) (c02_model_trace c f l) = None.
Proof.
  unfold oracle_c02. apply c02_first_none; [reflexivity|apply c02_codes_zero].
Qed.
