(* C02 - the oracle that is run over implementation traces accepts every step the model can take, except
   exactly the two recorded findings (codes 11 and 21), whose signatures it then certifies. *)
From Icv Require Import Base.Tac Ck.CkState Ck.CkStateProofs Ck.CkObs Ck.CkFull Ck.CkSuppProofs Ck.CkSuppStep
  Ck.CkSuppFire Ck.CkSuppThms Ck.CkSuppObs.
Local Open Scope Z_scope.

Lemma c02_zs_eqb_refl l : c02_zs_eqb l l = true.
Proof. induction l as [|x l IH]; [reflexivity|]. cbn. rewrite Z.eqb_refl. exact IH. Qed.

Lemma sstate_eqb_refl s : sstate_eqb s s = true.
Proof. destruct s; reflexivity. Qed.

Lemma eqb_refl' b : Bool.eqb b b = true.
Proof. destruct b; reflexivity. Qed.

Lemma c02_nums_if (b : bool) t : c02_nums (if b then [ONotify t] else []) = if b then [ntype_num t] else [].
Proof. destruct b; reflexivity. Qed.

Lemma stype_back t : (if stype_eqb t Hard then Hard else Soft) = t.
Proof. destruct t; reflexivity. Qed.

Definition c02_code_ok (c : fcfg) (now : Z) (f : full) (o : op) (code : Z) : Prop :=
  code = 0 \/
  (code = 11 /\ exists r, o = OpResult r /\ c02_vol_soft (fc_base c) (f_st f) (r_state r) = true) \/
  (code = 21 /\ o = OpFire /\ c02_release_cond c now f = true /\
   ~ (c02_faithful (c_kind (fc_base c)) (s_raw (f_st f)) /\ c02_faithful (c_kind (fc_base c)) (f_sbs f))).

Lemma c02_check_other c now f o kind new :
  kind <> 1 -> kind <> 2 ->
  c02_quiet (snd (full_step c now f o)) -> c02_bits_same f (fst (full_step c now f o)) ->
  c02_check (fc_base c)
    (c02_mk_obs c now kind new f (fst (full_step c now f o))
       (c02_nums (c02_state_outs (snd (full_step c now f o)))) (c02_nums (c02_flap_outs (snd (full_step c now f o))))) = 0.
Proof.
  intros K1 K2 Hq (B1 & B2 & B3 & B4 & B5 & B6 & B7).
  rewrite (c02_quiet_state _ Hq), (c02_quiet_flap _ Hq).
  unfold c02_check, c02_check_state, c02_check_flap, c02_mk_obs.
  cbn [c2_kind c2_sn c2_fn c2_p0 c2_p1 c2_r0 c2_r1 c2_sbs0 c2_sbs1 c2_fs0 c2_fs1 c2_fe0 c2_fe1 c02_nums flat_map
       length c02_zs_eqb negb andb Z.of_nat].
  rewrite B1, B2, B3, B4, B5, sstate_eqb_refl, !eqb_refl'. cbn [negb andb].
  rewrite andb_false_r.
  destruct (kind =? 1) eqn:E1; [apply Z.eqb_eq in E1; contradiction|].
  destruct (kind =? 2) eqn:E2; [apply Z.eqb_eq in E2; contradiction|].
  reflexivity.
Qed.

Lemma c02_spec_pre b o new ty s :
  s_raw s = c2_raw0 o -> stype_eqb (s_type s) Hard = c2_hard0 o ->
  c02_spec_problem b (c02_pre_st o) new ty = c02_spec_problem b s new ty /\
  c02_spec_recovery b (c02_pre_st o) new = c02_spec_recovery b s new /\
  c02_vol_soft b (c02_pre_st o) new = c02_vol_soft b s new.
Proof.
  intros H1 H2. unfold c02_spec_problem, c02_spec_recovery, c02_vol_soft, c02_pre_st. cbn [s_raw s_type].
  rewrite <- H1, <- H2, stype_back. repeat split.
Qed.

Theorem c02_check_model c now f o :
  c02_code_ok c now f o (c02_check (fc_base c) (c02_model_obs c now f o)).
Proof.
  unfold c02_model_obs.
  destruct (c02_is_core_op o) eqn:Hcore.
  2:{ left. destruct (c02_other_ops c now f o Hcore) as [Hq Hb].
      apply c02_check_other; try assumption; destruct o; cbn; try discriminate. }
  destruct o; try discriminate.
  - (* check result *)
    cbn [c02_kind_of c02_op_new].
    destruct (rejected now (f_st f) r) eqn:Hrej.
    { left. apply c02_check_other; try discriminate; cbn [full_step]; unfold do_result; rewrite Hrej; cbn [fst snd].
      - c02_q.
      - repeat split. }
    cbn [full_step].
    destruct (do_result_spec c now r f Hrej) as [Hst Hpa _ _ _ Hso Hfo].
    set (f' := fst (do_result c now r f)) in *. set (outs := snd (do_result c now r f)) in *.
    cbv zeta in Hso, Hfo.
    pose proof (c02_send_char (fc_base c) (f_st f) r) as (Hsend & Hrec & _). cbv zeta in Hsend.
    rewrite <- Hst in Hsend.
    set (i := snd (step_accept (fc_base c) (f_st f) r)) in *.
    set (send := c02_send (fc_base c) i (f_st f') (r_state r)) in *.
    destruct Hso as (O1 & O2 & O3 & O4). destruct Hfo as (G1 & G2).
    set (o := c02_mk_obs c now 1 (r_state r) f f' (c02_nums (c02_state_outs outs)) (c02_nums (c02_flap_outs outs))).
    assert (c02_res_ok send (i_recovery i) o = true) as Hmodel.
    { unfold c02_res_ok, o, c02_mk_obs.
      cbn [c2_sn c2_p0 c2_p1 c2_r0 c2_r1 c2_sbs0 c2_sbs1 c2_fl1 c2_paused c2_reason c2_hard0 c2_raw0].
      rewrite O1, O2, O3, O4, c02_nums_if. unfold c02_pending, c02_hard_state.
      replace (ntype_num (if i_recovery i then NRecovery else NProblem)) with (if i_recovery i then 64 else 32)
        by (destruct (i_recovery i); reflexivity).
      rewrite c02_zs_eqb_refl, !eqb_refl'. cbn [andb].
      destruct (_ && _ && negb (f_sp_problem f || f_sp_recovery f)); [apply sstate_eqb_refl|reflexivity]. }
    assert (c02_check_flap o = 0) as Hflap.
    { unfold c02_check_flap, o, c02_mk_obs.
      cbn [c2_kind c2_fn c2_fl0 c2_fl1 c2_paused c2_indt c2_fs0 c2_fs1 c2_fe0 c2_fe1]. cbn [Z.eqb Pos.eqb].
      rewrite G1.
      match goal with |- context [c02_nums ?X] =>
        replace (c02_nums X) with
          (if negb (is_flapping c (f_flap f)) && is_flapping c (f_flap f') && negb (f_paused f) && negb (in_downtime now f')
           then [128] else if is_flapping c (f_flap f) && negb (is_flapping c (f_flap f')) && negb (f_paused f) && negb (in_downtime now f')
           then [256] else [])
          by (repeat match goal with |- context [if ?b then _ else _] => destruct b end; reflexivity) end.
      rewrite c02_zs_eqb_refl. cbn [negb].
      destruct (f_sp_fstart f && f_sp_fend f) eqn:E; [reflexivity|].
      specialize (G2 eq_refl). destruct (c02_cancel _ _) as [a b]. inversion G2; subst. rewrite !eqb_refl'. reflexivity. }
    unfold c02_check. fold o.
    assert (c02_check_state (fc_base c) o = 0 \/
            (c02_check_state (fc_base c) o = 11 /\ c02_vol_soft (fc_base c) (f_st f) (r_state r) = true)) as Hs.
    { unfold c02_check_state.
      assert (c2_sn o = (if send && negb (is_flapping c (f_flap f')) && negb (f_paused f) &&
                            negb (c02_reason now f' || c02_pending f)
                         then [if i_recovery i then 64 else 32] else [])) as Esn.
      { unfold o, c02_mk_obs. cbn [c2_sn]. rewrite O1, c02_nums_if. destruct (i_recovery i); reflexivity. }
      rewrite Esn.
      replace (c2_paused o) with (f_paused f) by reflexivity.
      replace (c2_reason o) with (c02_reason now f') by reflexivity.
      replace (c2_kind o) with 1 by reflexivity.
      replace (c2_p0 o || c2_r0 o) with (c02_pending f) by reflexivity.
      replace (c2_sbs1 o) with (f_sbs f') by reflexivity. replace (c2_sbs0 o) with (f_sbs f) by reflexivity.
      assert ((c02_pending f && negb (sstate_eqb (f_sbs f') (f_sbs f))) = false) as E3.
      { destruct (c02_pending f) eqn:Ep; [|reflexivity]. rewrite O4, andb_false_r, sstate_eqb_refl. reflexivity. }
      rewrite E3.
      assert ((negb (Z.of_nat (length (if send && negb (is_flapping c (f_flap f')) && negb (f_paused f) &&
                            negb (c02_reason now f' || c02_pending f)
                         then [if i_recovery i then 64 else 32] else [])) <=? 1)) = false) as E1
        by (destruct (_ && _ && _ && negb _); reflexivity).
      rewrite E1.
      assert ((negb (c02_zs_eqb (if send && negb (is_flapping c (f_flap f')) && negb (f_paused f) &&
                            negb (c02_reason now f' || c02_pending f)
                         then [if i_recovery i then 64 else 32] else []) []) &&
               (f_paused f || c02_reason now f' || (1 =? 3))) = false) as E2.
      { destruct send, (is_flapping c (f_flap f')), (f_paused f), (c02_reason now f'), (c02_pending f); reflexivity. }
      rewrite E2. cbn [Z.eqb Pos.eqb].
      replace (c2_raw0 o) with (s_raw (f_st f)) by reflexivity.
      replace (c2_hard0 o) with (stype_eqb (s_type (f_st f)) Hard) by reflexivity.
      destruct (is_ok (c_kind (fc_base c)) (s_raw (f_st f)) && negb (stype_eqb (s_type (f_st f)) Hard)) eqn:Eshape;
        [left; reflexivity|].
      assert (negb (is_ok (c_kind (fc_base c)) (s_raw (f_st f)) && stype_eqb (s_type (f_st f)) Soft) = true) as Hg.
      { destruct (is_ok _ _), (s_type (f_st f)); cbn in *; congruence. }
      rewrite Hg, andb_true_r in Hsend.
      destruct (c02_spec_pre (fc_base c) o (r_state r) (if c2_hard1 o then Hard else Soft) (f_st f) eq_refl eq_refl)
        as (P1 & P2 & P3).
      replace (c2_new o) with (r_state r) by reflexivity.
      rewrite P1, P2, P3.
      replace (if c2_hard1 o then Hard else Soft) with (s_type (f_st f')) by (unfold o, c02_mk_obs; cbn [c2_hard1]; rewrite stype_back; reflexivity).
      set (ep := c02_spec_problem (fc_base c) (f_st f) (r_state r) (s_type (f_st f'))) in *.
      set (er := c02_spec_recovery (fc_base c) (f_st f) (r_state r)) in *.
      set (vs := c02_vol_soft (fc_base c) (f_st f) (r_state r)) in *.
      destruct vs eqn:Evs.
      - (* the finding: send = true, recovery = true *)
        assert (send = true) as Es by (rewrite Hsend, orb_true_r; reflexivity).
        assert (i_recovery i = true) as Er.
        { rewrite Hrec. unfold vs, c02_vol_soft in Evs. apply andb_prop in Evs. destruct Evs as [Evs _].
          apply andb_prop in Evs. destruct Evs as [Evs E2']. apply andb_prop in Evs. destruct Evs as [_ E1'].
          rewrite E1', E2'. reflexivity. }
        rewrite Es, Er in Hmodel. rewrite Hmodel. cbn [andb].
        destruct (c02_res_ok (ep || er) er o); [left|right; split]; reflexivity.
      - left. rewrite orb_false_r in Hsend.
        assert (c02_res_ok (ep || er) er o = true) as ->; [|reflexivity].
        rewrite <- Hmodel, Hsend.
        destruct (ep || er) eqn:Ee.
        + f_equal. rewrite Hrec. unfold ep, er, c02_spec_problem, c02_spec_recovery in *.
          destruct (is_ok (c_kind (fc_base c)) (r_state r)); cbn [negb andb orb] in *; [|reflexivity].
          destruct (is_ok (c_kind (fc_base c)) (s_raw (f_st f))); cbn [negb andb] in *; [discriminate|].
          rewrite Ee. reflexivity.
        + unfold c02_res_ok. cbn [andb]. reflexivity. }
    destruct Hs as [Hs|[Hs Hv]]; rewrite Hs; cbn [Z.eqb].
    + left. exact Hflap.
    + right. left. split; [reflexivity|]. exists r. split; [reflexivity|assumption].
  - (* timer *)
    cbn [c02_kind_of c02_op_new full_step].
    destruct (do_fire_spec c now f) as [Hsame _ Hs Hfl].
    set (f' := fst (do_fire c now f)) in *. set (outs := snd (do_fire c now f)) in *.
    cbv zeta in Hs, Hfl. destruct Hsame as (S1 & S2 & S3 & S4 & S5 & S6).
    destruct Hs as (O1 & O2 & O3). destruct Hfl as (G1 & G2 & G3).
    set (o := c02_mk_obs c now 2 SOK f f' (c02_nums (c02_state_outs outs)) (c02_nums (c02_flap_outs outs))).
    set (k := c_kind (fc_base c)).
    set (rel := negb (f_paused f) && c02_pending f && c02_release_cond c now f) in *.
    assert (c2_sn o = (if rel && negb (sstate_eqb (s_raw (f_st f)) (f_sbs f))
                       then [if s_has_cr (f_st f) && is_ok k (s_raw (f_st f)) then 64 else 32] else [])) as Esn.
    { unfold o, c02_mk_obs. cbn [c2_sn]. rewrite O1, c02_nums_if. unfold c02_fire_type. fold k.
      destruct (s_has_cr (f_st f) && is_ok k (s_raw (f_st f))); reflexivity. }
    assert (c02_fire_ok k (negb (sstate_eqb (s_raw (f_st f)) (f_sbs f))) o = true) as Hmodel.
    { unfold c02_fire_ok. rewrite Esn. unfold o, c02_mk_obs. cbn [c2_p0 c2_p1 c2_r0 c2_r1 c2_paused c2_relcond c2_hascr0 c2_raw0].
      fold (c02_pending f). fold rel. rewrite O2, O3, c02_zs_eqb_refl, !eqb_refl'. reflexivity. }
    assert (c02_check_flap o = 0) as Hflap.
    { unfold c02_check_flap, o, c02_mk_obs.
      cbn [c2_kind c2_fn c2_fl0 c2_fl1 c2_paused c2_flapgo c2_fs0 c2_fs1 c2_fe0 c2_fe1]. cbn [Z.eqb Pos.eqb].
      rewrite G1, G2, G3.
      match goal with |- context [c02_nums (?A ++ ?B)] =>
        replace (c02_nums (A ++ B)) with
          ((if f_sp_fstart f && is_flapping c (f_flap f) && (negb (f_paused f) && c02_flap_go c now f) then [128] else []) ++
           (if f_sp_fend f && negb (is_flapping c (f_flap f)) && (negb (f_paused f) && c02_flap_go c now f) then [256] else []))
          by (repeat match goal with |- context [if ?b then _ else _] => destruct b end; reflexivity) end.
      rewrite c02_zs_eqb_refl, !eqb_refl'. reflexivity. }
    unfold c02_check. fold o.
    assert (c02_check_state (fc_base c) o = 0 \/
            (c02_check_state (fc_base c) o = 21 /\ c02_release_cond c now f = true /\
             ~ (c02_faithful k (s_raw (f_st f)) /\ c02_faithful k (f_sbs f)))) as Hst.
    { unfold c02_check_state. fold k. rewrite Esn.
      replace (c2_paused o) with (f_paused f) by reflexivity.
      replace (c2_reason o) with (c02_reason now f') by reflexivity.
      replace (c2_kind o) with 2 by reflexivity.
      replace (c2_p0 o || c2_r0 o) with (c02_pending f) by reflexivity.
      replace (c2_sbs1 o) with (f_sbs f') by reflexivity. replace (c2_sbs0 o) with (f_sbs f) by reflexivity.
      replace (c2_raw0 o) with (s_raw (f_st f)) by reflexivity.
      rewrite S2, sstate_eqb_refl, S6. cbn [negb]. rewrite andb_false_r.
      assert ((negb (Z.of_nat (length (if rel && negb (sstate_eqb (s_raw (f_st f)) (f_sbs f))
                       then [if s_has_cr (f_st f) && is_ok k (s_raw (f_st f)) then 64 else 32] else [])) <=? 1)) = false) as E1
        by (destruct (rel && _); reflexivity).
      rewrite E1.
      assert ((negb (c02_zs_eqb (if rel && negb (sstate_eqb (s_raw (f_st f)) (f_sbs f))
                       then [if s_has_cr (f_st f) && is_ok k (s_raw (f_st f)) then 64 else 32] else []) []) &&
               (f_paused f || c02_reason now f || (2 =? 3))) = false) as E2.
      { unfold rel, c02_release_cond.
        destruct (f_paused f), (c02_pending f), (c02_reason now f); cbn [negb andb orb Z.eqb Pos.eqb];
          rewrite ?andb_false_r; reflexivity. }
      rewrite E2. cbn [Z.eqb Pos.eqb]. rewrite Hmodel.
      destruct (c02_fire_ok k (negb (api_state k (s_raw (f_st f)) =? api_state k (f_sbs f))) o) eqn:Eapi; [left; reflexivity|].
      right. split; [reflexivity|]. split.
      - destruct (c02_release_cond c now f) eqn:Erc; [reflexivity|]. exfalso.
        assert (forall d1 d2, c02_fire_ok k d1 o = c02_fire_ok k d2 o) as Hind.
        { intros. unfold c02_fire_ok, o, c02_mk_obs. cbn [c2_relcond c2_paused c2_p0 c2_r0 c2_sn c2_p1 c2_r1].
          rewrite Erc, !andb_false_r. reflexivity. }
        rewrite (Hind _ (negb (sstate_eqb (s_raw (f_st f)) (f_sbs f)))) in Eapi. congruence.
      - intros [F1 F2]. rewrite <- (c02_faithful_api k _ _ F1 F2) in Eapi. congruence. }
    destruct Hst as [Hst|[Hst Hv]]; rewrite Hst; cbn [Z.eqb].
    + left. exact Hflap.
    + right. right. split; [reflexivity|]. split; [reflexivity|assumption].
Qed.

(* ---- traces ---- *)

Fixpoint c02_model_trace (c : fcfg) (f : full) (l : list (Z * op)) : list c02_obs :=
  match l with
  | [] => []
  | no :: t => c02_model_obs c (fst no) f (snd no) :: c02_model_trace c (fst (full_step c (fst no) f (snd no))) t
  end.

(* negated finding signatures along a run *)
Fixpoint c02_no_vol_soft (c : fcfg) (f : full) (l : list (Z * op)) : Prop :=
  match l with
  | [] => True
  | no :: t =>
      match snd no with OpResult r => c02_vol_soft (fc_base c) (f_st f) (r_state r) = false | _ => True end /\
      c02_no_vol_soft c (fst (full_step c (fst no) f (snd no))) t
  end.

Lemma c02_codes_zero c l : forall f,
  c02_faithful (c_kind (fc_base c)) (f_sbs f) -> c02_faithful (c_kind (fc_base c)) (c02_hard_state (f_st f)) ->
  c02_results_faithful c l -> c02_no_vol_soft c f l ->
  Forall (fun o => c02_check (fc_base c) o = 0) (c02_model_trace c f l).
Proof.
  induction l as [|no l IH]; intros f I1 I2 Hf Hv; [constructor|].
  cbn [c02_model_trace]. cbn [c02_no_vol_soft] in Hv. destruct Hv as [Hv1 Hv2].
  inversion Hf as [|? ? Hr Hf']; subst.
  assert (c02_check (fc_base c) (c02_model_obs c (fst no) f (snd no)) = 0) as E.
  { destruct (c02_check_model c (fst no) f (snd no)) as [E|[[E (r & Hop & Hvs)]|[E (Hop & Hn)]]]; [exact E| |].
    - rewrite Hop in Hv1. congruence.
    - exfalso. destruct Hn as [Hrc Hn]. apply Hn. split; [|assumption].
      unfold c02_hard_state in I2. unfold c02_release_cond in Hrc.
      destruct (stype_eqb (s_type (f_st f)) Hard); [assumption|].
      rewrite andb_false_r in Hrc. discriminate. }
  constructor; [exact E|].
  apply IH; try assumption.
  - destruct (c02_step_sbs c (fst no) f (snd no)) as [-> | ->]; assumption.
  - destruct (c02_step_st c (fst no) f (snd no)) as [-> | (r & Hop & _ & ->)]; [assumption|].
    rewrite Hop in Hr. unfold c02_hard_state. rewrite step_accept_raw.
    destruct (stype_eqb _ Hard); [assumption|apply c02_faithful_ok].
Qed.

Lemma c02_first_none p b l : p 0 = false ->
  Forall (fun o => c02_check b o = 0) l -> forall idx, c02_first p b idx l = None.
Proof.
  intros Hp. induction 1 as [|o l Ho _ IH]; intros idx; [reflexivity|].
  cbn [c02_first]. rewrite Ho, Hp. apply IH.
Qed.

(* every reported failure of a model trace carries one of the two finding codes *)
Lemma c02_first_model c p l : forall f idx i code,
  c02_first p (fc_base c) idx (c02_model_trace c f l) = Some (i, code) -> p code = true /\ (code = 0 \/ code = 11 \/ code = 21).
Proof.
  induction l as [|no l IH]; intros f idx i code H; [discriminate|].
  cbn [c02_model_trace c02_first] in H.
  destruct (p (c02_check (fc_base c) (c02_model_obs c (fst no) f (snd no)))) eqn:E.
  - inversion H; subst. split; [assumption|].
    destruct (c02_check_model c (fst no) f (snd no)) as [E'|[[E' _]|[E' _]]]; auto.
  - eapply IH; eassumption.
Qed.

Theorem oracle_c02_model_only_findings c l f :
  match oracle_c02 (fc_base c) (c02_model_trace c f l) with
  | None => True
  | Some (_, code) => code = 11 \/ code = 21
  end.
Proof.
  unfold oracle_c02.
  destruct (c02_first (fun code => negb (code =? 0) && negb (c02_finding_code code)) (fc_base c) 0 (c02_model_trace c f l))
    as [[i code]|] eqn:E1.
  - apply c02_first_model in E1. destruct E1 as [Hp [->|[->| ->]]]; cbn in Hp; try discriminate; auto.
  - destruct (c02_first (fun code => negb (code =? 0)) (fc_base c) 0 (c02_model_trace c f l)) as [[i code]|] eqn:E2; [|exact I].
    apply c02_first_model in E2. destruct E2 as [Hp [->|[->| ->]]]; cbn in Hp; try discriminate; auto.
Qed.

Theorem oracle_c02_accepts_model c l :
  c02_results_faithful c l -> c02_no_vol_soft c init_full l ->
  oracle_c02 (fc_base c) (c02_model_trace c init_full l) = None.
Proof.
  intros Hf Hv. unfold oracle_c02.
  pose proof (c02_codes_zero c l init_full (c02_faithful_ok _) (c02_faithful_ok _) Hf Hv) as Hz.
  rewrite !(c02_first_none _ _ _ eq_refl Hz). reflexivity.
Qed.
