(* C03: what is observable of a notification run, the observer's bookkeeping ("ghost") computed from the
   observable events only, and the statement of C03 as an executable check over observed traces.
   The same functions are (a) what the theorems in NfProofs.v talk about and (b) the oracle that the check
   runs over the IMPLEMENTATION's traces (extracted). *)
From Icv Require Import Base.Tac Notif.NfModel.
Local Open Scope Z_scope.

(* Observable through Boost signals:
     NfoClr       Notification::OnLastNotifiedStatePerUserCleared  = BeginExecuteNotification entered with type Recovery
     NfoDone t us Checkable::OnNotificationSentToAllUsers          = the per-user loop was reached; us = users notified *)
Inductive nf_oev := NfoClr | NfoDone (ty : nf_type) (sent : list Z).

Definition nf_obs_ev (e : nf_ev) : list nf_oev :=
  match e with
  | NfEvDrop _ => []
  | NfEvExec x =>
      (if nf_type_eqb (ne_type x) NfRecovery then [NfoClr] else [])
      ++ (if ne_reached x then [NfoDone (ne_type x) (ne_sent x)] else [])
  end.
Definition nf_obs_evs (evs : list nf_ev) : list nf_oev := flat_map nf_obs_ev evs.

(* what the observer knows about the operation an event belongs to *)
Record nf_opinfo := {
  oi_now : Z;
  oi_ctx : nf_ctx;
  oi_tick : bool;              (* timer tick (else: a request) *)
  oi_forced : list nf_type;    (* types that may be forced: the forced request's type; for a tick the types of
                                  the forced entries of stashed_notifications *)
  oi_kp : Z;                   (* tick: how many Problem notifications the stash and the withheld types can account
                                  for at most (Problem entries of stashed_notifications, plus one if a Problem is withheld
                                  and the last check result still is a problem); a further Problem sent by the same tick
                                  IS the reminder *)
  oi_pdefer : bool;            (* an unforced Problem may be processed: tick, or unforced Problem request *)
  oi_recdrop : bool            (* a Recovery was requested (Checkable::OnNotificationsRequested) while notifications are
                                  disabled globally or for the checkable, not forced, and this object is not paused:
                                  Checkable::SendNotifications drops the request before the Notification object sees
                                  it - the incident is over all the same *)
}.

Definition nf_mayforce (oi : nf_opinfo) (ty : nf_type) : bool := existsb (nf_type_eqb ty) (oi_forced oi).

Fixpoint nf_count_problem (l : list nf_stashed) : Z :=
  match l with
  | [] => 0
  | h :: r => (if nf_type_eqb (sh_type h) NfProblem then 1 else 0) + nf_count_problem r
  end.

Definition nf_opinfo_of (stash : list nf_stashed) (sup_problem : bool) (o : nf_op) : nf_opinfo :=
  match o with
  | NfRequest now x ty force =>
      {| oi_now := now; oi_ctx := x; oi_tick := false; oi_forced := if force then [ty] else []; oi_kp := 0;
         oi_pdefer := nf_type_eqb ty NfProblem && negb force;
         oi_recdrop := nf_type_eqb ty NfRecovery && negb force && (negb (cx_glob_en x) || negb (cx_ck_en x)) && negb (cx_paused x) |}
  | NfTick now x =>
      {| oi_now := now; oi_ctx := x; oi_tick := true; oi_forced := map sh_type (filter sh_force stash);
         oi_kp := nf_count_problem stash + (if sup_problem && nf_reason_applies x NfProblem then 1 else 0);
         oi_pdefer := true; oi_recdrop := false |}
  end.

Definition nf_opinfo_st (s : nf_state) (o : nf_op) : nf_opinfo :=
  nf_opinfo_of (nf_stash s) (sp_problem (nf_sup s)) o.

(* ---- the observer's bookkeeping, from observable events only ---- *)
Record nf_ghost := {
  g_inc : list Z;          (* users sent a Problem since the last Recovery notification that was processed (NfoClr)
                              and not merely withheld by the notification's closed period *)
  g_pre : list Z;          (* g_inc as it was just before the NfoClr that immediately precedes (the Recovery's own incident) *)
  g_last : list (Z * Z);   (* state of the last Problem each user was sent since the last NfoClr *)
  g_ps : bool;             (* a Problem passed the notification's filters since the last NfoClr / times.begin deferral *)
  g_bad : bool;            (* ... and after it a non-Custom, non-Problem, non-Recovery notification passed them *)
  g_rem : option Z;        (* instant of the last Problem that passed the filters (no deferral, clock not set back since) *)
  g_tm : Z;                (* instant of the current operation *)
  g_cnt : Z                (* Problem notifications that reached the per-user loop so far in the current operation *)
}.
Definition nf_mkg inc pre last ps bad rem tm cnt : nf_ghost :=
  {| g_inc := inc; g_pre := pre; g_last := last; g_ps := ps; g_bad := bad; g_rem := rem; g_tm := tm; g_cnt := cnt |}.
Definition nf_ghost0 : nf_ghost := nf_mkg [] [] [] false false None 0 0.

Definition nf_add_all (sent l : list Z) : list Z := fold_left (fun l u => nf_npu_add u l) sent l.
Definition nf_upd_all (st : Z) (sent : list Z) (l : list (Z * Z)) : list (Z * Z) :=
  fold_left (fun l u => nf_lns_upd u st l) sent l.

(* a non-forced Problem processed now would be deferred by times.begin (next_notification is re-armed,
   no_more_notifications cleared): the observer then forgets reminder bookkeeping *)
Definition nf_may_defer (c : nf_cfg) (oi : nf_opinfo) : bool :=
  oi_pdefer oi && nf_opt_active (nfc_begin c) && (oi_now oi <? cx_lhsc (oi_ctx oi) + nf_opt_val (nfc_begin c)).

Definition nf_g_mask (c : nf_cfg) (oi : nf_opinfo) (g : nf_ghost) : nf_ghost :=
  if nf_may_defer c oi
  then nf_mkg (g_inc g) (g_pre g) (g_last g) false (g_bad g) None (g_tm g) (g_cnt g) else g.

Definition nf_g_start (c : nf_cfg) (oi : nf_opinfo) (g : nf_ghost) : nf_ghost :=
  nf_g_mask c oi (nf_mkg (if oi_recdrop oi then [] else g_inc g) (g_pre g) (g_last g)
                         (if oi_recdrop oi then false else g_ps g) (g_bad g)
                         (if oi_now oi <? g_tm g then None else g_rem g) (oi_now oi) 0).

Definition nf_rec_deferred (oi : nf_opinfo) : bool :=
  cx_per_closed (oi_ctx oi) && (oi_tick oi || negb (nf_mayforce oi NfRecovery)).

Definition nf_g_ev (c : nf_cfg) (oi : nf_opinfo) (g : nf_ghost) (e : nf_oev) : nf_ghost :=
  nf_g_mask c oi
    match e with
    | NfoClr =>
        (* a Recovery withheld only by the closed period is kept for re-sending (suppressed_notifications):
           the incident is not over for the recipients *)
        nf_mkg (if nf_rec_deferred oi then g_inc g else []) (g_inc g) [] false false (g_rem g) (g_tm g) (g_cnt g)
    | NfoDone ty sent =>
        if nf_type_eqb ty NfProblem then
          nf_mkg (nf_add_all sent (g_inc g)) []
                 (nf_upd_all (nf_api_state (nfc_svc c) (cx_raw (oi_ctx oi))) sent (g_last g))
                 true false (Some (oi_now oi)) (g_tm g) (g_cnt g + 1)
        else if nf_type_eqb ty NfRecovery then nf_mkg [] [] [] false false (g_rem g) (g_tm g) (g_cnt g)
        else if nf_type_eqb ty NfCustom then nf_mkg (g_inc g) [] (g_last g) (g_ps g) (g_bad g) (g_rem g) (g_tm g) (g_cnt g)
        else nf_mkg (g_inc g) [] (g_last g) (g_ps g) true (g_rem g) (g_tm g) (g_cnt g)
    end.

Definition nf_g_evs (c : nf_cfg) (oi : nf_opinfo) (g : nf_ghost) (es : list nf_oev) : nf_ghost :=
  fold_left (nf_g_ev c oi) es g.

(* ---- the statement of C03 on one observed event ---- *)
Definition nf_times_open (c : nf_cfg) (now : Z) (x : nf_ctx) : bool :=
  negb (nf_opt_active (nfc_begin c) && (now <? cx_lhsc x + nf_opt_val (nfc_begin c)))
  && negb (nf_opt_active (nfc_end c) && (cx_lhsc x + nf_opt_val (nfc_end c) <? now)).

(* every condition of the statement for a non-forced notification of type ty to user u *)
Definition nf_full_ok (c : nf_cfg) (now : Z) (x : nf_ctx) (ty : nf_type) (u : nf_user) : bool :=
  let sb := nf_state_bit (nfc_svc c) (cx_raw x) in
  cx_glob_en x && cx_ck_en x && negb (cx_per_closed x) && negb (nfu_per_closed u)
  && nf_passes (nfc_types c) (nf_type_bit ty) && nf_passes (nfu_types u) (nf_type_bit ty)
  && (if nf_type_eqb ty NfProblem then nf_passes (nfc_states c) sb && nf_times_open c now x else true)
  && (if nf_type_eqb ty NfRecovery then true else nf_passes (nfu_states u) sb).

(* what must hold of the checkable when a reminder is sent *)
Definition nf_rem_ctx_ok (c : nf_cfg) (x : nf_ctx) : bool :=
  cx_hard x && negb (nf_api_state (nfc_svc c) (cx_raw x) =? 0) && negb (cx_ck_supp_problem x)
  && cx_reachable x && negb (cx_downtime x) && negb (cx_acked x) && negb (cx_flapping x).

Definition nf_okA (c : nf_cfg) (oi : nf_opinfo) (ty : nf_type) (u : Z) : bool :=
  existsb (fun ur => (nfu_id ur =? u) && nfu_enable ur
                     && (nf_mayforce oi ty || nf_full_ok c (oi_now oi) (oi_ctx oi) ty ur)) (cx_users (oi_ctx oi)).
Definition nf_okB (c : nf_cfg) (oi : nf_opinfo) (g : nf_ghost) (ty : nf_type) (u : Z) : bool :=
  existsb (fun ur => (nfu_id ur =? u) && nfu_enable ur
                     && (nf_mayforce oi ty || nf_full_ok c (oi_now oi) (oi_ctx oi) ty ur)
                     && (nf_mem u (if nf_type_eqb ty NfRecovery then g_pre g else g_inc g)
                         || negb (nf_passes (nfu_types ur) 32))) (cx_users (oi_ctx oi)).

Inductive nf_verdict := NfVOk | NfVNoMore | NfVBad (code : Z).

Definition nf_check (c : nf_cfg) (oi : nf_opinfo) (g : nf_ghost) (e : nf_oev) : nf_verdict :=
  match e with
  | NfoClr => NfVOk
  | NfoDone ty sent =>
      let x := oi_ctx oi in
      let now := oi_now oi in
      let st := nf_api_state (nfc_svc c) (cx_raw x) in
      let isp := nf_type_eqb ty NfProblem in
      let isra := nf_type_eqb ty NfRecovery || nf_type_eqb ty NfAck in
      let isrem := isp && oi_tick oi && (oi_kp oi <=? g_cnt g) in
      (* 7: a tick for a paused object under HA (local endpoint && enable_ha) sends nothing *)
      if oi_tick oi && (cx_paused x && cx_ha x) then NfVBad 7
      (* 1: filters / forced *)
      else if negb (forallb (nf_okA c oi ty) sent) then NfVBad 1
      (* 3: no duplicate Problem for the same state (requests are never reminders) *)
      else if isp && negb (oi_tick oi) && negb (cx_volatile x)
              && negb (forallb (fun u => negb (st =? nf_lns_get u (g_last g))) sent) then NfVBad 3
      (* 4, 5: reminders *)
      else if isrem && negb (nf_rem_ctx_ok c x) then NfVBad 4
      else if isrem && negb (match g_rem g with Some t => t + nfc_interval c <=? now | None => true end) then NfVBad 5
      (* 2: Recovery / Acknowledgement recipients *)
      else if isra && negb (forallb (nf_okB c oi g ty) sent) then NfVBad 2
      (* 6: interval 0 *)
      else if isrem && (nfc_interval c <=? 0) && g_ps g then (if g_bad g then NfVNoMore else NfVBad 6)
      else NfVOk
  end.

(* ---- observed traces and the oracle ---- *)
Record nf_ostep := {
  os_op : nf_op;
  os_evs : list nf_oev;
  os_stash : list nf_stashed; (* stashed_notifications after the op *)
  os_sup_problem : bool      (* suppressed_notifications & Problem after the op *)
}.

Fixpoint nf_check_evs (c : nf_cfg) (oi : nf_opinfo) (g : nf_ghost) (es : list nf_oev) : list nf_verdict :=
  match es with
  | [] => []
  | e :: r => nf_check c oi g e :: nf_check_evs c oi (nf_g_ev c oi g e) r
  end.

Fixpoint nf_verdicts (c : nf_cfg) (g : nf_ghost) (se : list nf_stashed) (sp : bool) (t : list nf_ostep) : list (list nf_verdict) :=
  match t with
  | [] => []
  | o :: r =>
      let oi := nf_opinfo_of se sp (os_op o) in
      let g0 := nf_g_start c oi g in
      nf_check_evs c oi g0 (os_evs o)
      :: nf_verdicts c (nf_g_evs c oi g0 (os_evs o)) (os_stash o) (os_sup_problem o) r
  end.

Definition nf_is_bad (v : nf_verdict) : bool := match v with NfVBad _ => true | _ => false end.
Definition nf_is_known (v : nf_verdict) : bool := match v with NfVNoMore => true | _ => false end.
Definition nf_verdict_code (v : nf_verdict) : Z :=
  match v with NfVOk => 0 | NfVNoMore => 101 | NfVBad k => k end.

Fixpoint nf_first (p : nf_verdict -> bool) (idx : Z) (l : list (list nf_verdict)) : option (Z * Z) :=
  match l with
  | [] => None
  | vs :: r =>
      match find p vs with
      | Some v => Some (idx, nf_verdict_code v)
      | None => nf_first p (idx + 1) r
      end
  end.

(* (first step violating C03 outright, first step falling under a recorded finding); (step index, code) *)
Definition nf_oracle (c : nf_cfg) (t : list nf_ostep) : option (Z * Z) * option (Z * Z) :=
  let vs := nf_verdicts c nf_ghost0 [] false t in
  (nf_first nf_is_bad 0 vs, nf_first nf_is_known 0 vs).

(* the observed trace of the model *)
Fixpoint nf_model_trace (c : nf_cfg) (s : nf_state) (h : list nf_op) : list nf_ostep :=
  match h with
  | [] => []
  | o :: r =>
      let '(s', evs) := nf_step c s o in
      {| os_op := o; os_evs := nf_obs_evs evs; os_stash := nf_stash s';
         os_sup_problem := sp_problem (nf_sup s') |} :: nf_model_trace c s' r
  end.
