(* C03: proofs about the notification model (NfModel.v) and the observer (NfObs.v). *)
From Icv Require Import Base.Tac Notif.NfModel Notif.NfObs.
Local Open Scope Z_scope.

Lemma nf_type_eqb_eq a b : nf_type_eqb a b = true <-> a = b.
Proof. destruct a, b; cbv; split; intro H; try reflexivity; discriminate. Qed.

Lemma nf_type_eqb_refl a : nf_type_eqb a a = true.
Proof. apply nf_type_eqb_eq. reflexivity. Qed.

Lemma nf_type_eqb_neq a b : a <> b -> nf_type_eqb a b = false.
Proof. intro H. destruct (nf_type_eqb a b) eqn:E; [apply nf_type_eqb_eq in E; contradiction|reflexivity]. Qed.

(* ---------------- association lists ---------------- *)
Lemma nf_lns_get_set_other k k' v l : k' <> k -> nf_lns_get k (nf_lns_set k' v l) = nf_lns_get k l.
Proof.
  intro H. induction l as [|[a b] r IH]; cbn [nf_lns_set nf_lns_get].
  - destruct (k' =? k) eqn:E; [lia|reflexivity].
  - destruct (a =? k') eqn:E1; cbn [nf_lns_get].
    + destruct (k' =? k) eqn:E2; [lia|]. destruct (a =? k) eqn:E3; [lia|reflexivity].
    + destruct (a =? k); [reflexivity|assumption].
Qed.

Lemma nf_lns_get_set_same k v l : nf_lns_get k (nf_lns_set k v l) = v.
Proof.
  induction l as [|[a b] r IH]; cbn [nf_lns_set nf_lns_get].
  - rewrite Z.eqb_refl. reflexivity.
  - destruct (a =? k) eqn:E1; cbn [nf_lns_get]; [rewrite Z.eqb_refl; reflexivity|rewrite E1; assumption].
Qed.

Lemma nf_lns_get_upd_other k k' v l : k' <> k -> nf_lns_get k (nf_lns_upd k' v l) = nf_lns_get k l.
Proof. intro H. unfold nf_lns_upd. destruct (negb _); [apply nf_lns_get_set_other; assumption|reflexivity]. Qed.

Lemma nf_lns_get_upd_same k v l : nf_lns_get k (nf_lns_upd k v l) = v.
Proof.
  unfold nf_lns_upd. destruct (v =? nf_lns_get k l) eqn:E; cbn [negb].
  - lia.
  - apply nf_lns_get_set_same.
Qed.

Lemma nf_mem_app k l1 l2 : nf_mem k (l1 ++ l2) = nf_mem k l1 || nf_mem k l2.
Proof. induction l1; cbn [nf_mem app]; [reflexivity|rewrite IHl1, orb_assoc; reflexivity]. Qed.

Lemma nf_mem_add k u l : nf_mem k (nf_npu_add u l) = nf_mem k l || (u =? k).
Proof.
  unfold nf_npu_add. destruct (nf_mem u l) eqn:E; cbn [negb].
  - destruct (u =? k) eqn:E2; [|rewrite orb_false_r; reflexivity].
    assert (u = k) by lia. subst. rewrite E. reflexivity.
  - rewrite nf_mem_app. cbn [nf_mem]. rewrite orb_false_r. reflexivity.
Qed.

(* ---------------- the per-user loop ---------------- *)
Section Loop.
Variables (c : nf_cfg) (x : nf_ctx) (ty : nf_type) (force reminder : bool).
Let st := nf_api_state (nfc_svc c) (cx_raw x).

Lemma nf_loop_cons u r npu lns :
  nf_loop c x ty force reminder (u :: r) npu lns =
  if nf_user_sends c x ty force reminder npu lns u then
    let lns1 := if nf_type_eqb ty NfProblem then nf_lns_upd (nfu_id u) st lns else lns in
    let npu1 := if nf_type_eqb ty NfProblem then nf_npu_add (nfu_id u) npu else npu in
    (nfu_id u :: fst (nf_loop c x ty force reminder r npu1 lns1), snd (nf_loop c x ty force reminder r npu1 lns1))
  else nf_loop c x ty force reminder r npu lns.
Proof.
  cbn [nf_loop]. destruct (nf_user_sends c x ty force reminder npu lns u); [|reflexivity].
  fold st. cbv zeta. destruct (nf_loop c x ty force reminder r _ _). reflexivity.
Qed.

Lemma nf_user_sends_spec npu lns u :
  nf_user_sends c x ty force reminder npu lns u = true ->
  nfu_enable u = true /\ nf_user_filters c x ty force u = true /\
  ((ty = NfRecovery \/ ty = NfAck) -> nf_mem (nfu_id u) npu = true \/ nf_passes (nfu_types u) 32 = false) /\
  (ty = NfProblem -> reminder = false -> cx_volatile x = false -> (st =? nf_lns_get (nfu_id u) lns) = false).
Proof.
  unfold nf_user_sends. fold st.
  destruct (nfu_enable u); cbn [negb]; [|discriminate].
  destruct (nf_user_filters c x ty force u); cbn [negb]; [|discriminate].
  intros H. split; [reflexivity|split; [reflexivity|]]. split.
  - intros [E|E]; subst ty; cbn [nf_type_eqb nf_type_bit Z.eqb Pos.eqb andb] in H;
    destruct (nf_mem (nfu_id u) npu); [left; reflexivity| |left; reflexivity|];
    destruct (nf_passes (nfu_types u) 32); cbn in H; try discriminate; right; reflexivity.
  - intros E Hr Hv. subst ty reminder. rewrite Hv in H.
    cbn [nf_type_eqb nf_type_bit Z.eqb Pos.eqb andb negb] in H.
    destruct (st =? nf_lns_get (nfu_id u) lns); [discriminate|reflexivity].
Qed.

Lemma nf_loop_sent us : forall npu lns u,
  In u (fst (nf_loop c x ty force reminder us npu lns)) ->
  exists ur, In ur us /\ nfu_id ur = u /\ nfu_enable ur = true /\ nf_user_filters c x ty force ur = true /\
             ((ty = NfRecovery \/ ty = NfAck) -> nf_mem u npu = true \/ nf_passes (nfu_types ur) 32 = false).
Proof.
  induction us as [|a r IH]; intros npu lns u H; [contradiction|].
  rewrite nf_loop_cons in H. destruct (nf_user_sends c x ty force reminder npu lns a) eqn:E.
  - cbv zeta in H. cbn [fst] in H. destruct H as [H|H].
    + apply nf_user_sends_spec in E. destruct E as (E1 & E2 & E3 & _).
      exists a. subst u. repeat split; auto. left; reflexivity.
    + apply IH in H. destruct H as (ur & I1 & I2 & I3 & I4 & I5).
      exists ur. repeat split; auto; [right; assumption|].
      intros Hra. destruct (I5 Hra) as [M|M]; [|right; assumption].
      left. assert (nf_type_eqb ty NfProblem = false) as Ep by (destruct Hra; subst ty; reflexivity).
      rewrite Ep in M. assumption.
  - apply IH in H. destruct H as (ur & I1 & I2 & I3 & I4 & I5).
    exists ur. repeat split; auto. right; assumption.
Qed.

Lemma nf_loop_nodup us : forall npu lns u,
  ty = NfProblem -> reminder = false -> cx_volatile x = false ->
  In u (fst (nf_loop c x ty force reminder us npu lns)) -> (st =? nf_lns_get u lns) = false.
Proof.
  induction us as [|a r IH]; intros npu lns u Hp Hr Hv H; [contradiction|].
  rewrite nf_loop_cons in H. destruct (nf_user_sends c x ty force reminder npu lns a) eqn:E.
  - cbv zeta in H. cbn [fst] in H.
    apply nf_user_sends_spec in E. destruct E as (_ & _ & _ & E4).
    destruct (Z.eq_dec (nfu_id a) u) as [Eq|Ne].
    + subst u. apply E4; assumption.
    + destruct H as [H|H]; [contradiction|].
      apply (IH _ _ _ Hp Hr Hv) in H. subst ty. rewrite nf_type_eqb_refl in H.
      rewrite nf_lns_get_upd_other in H; assumption.
  - apply (IH _ _ _ Hp Hr Hv) in H. assumption.
Qed.

Lemma nf_loop_snd us : forall npu lns,
  snd (nf_loop c x ty force reminder us npu lns) =
  if nf_type_eqb ty NfProblem
  then (nf_add_all (fst (nf_loop c x ty force reminder us npu lns)) npu,
        nf_upd_all st (fst (nf_loop c x ty force reminder us npu lns)) lns)
  else (npu, lns).
Proof.
  induction us as [|a r IH]; intros npu lns.
  - cbn. destruct (nf_type_eqb ty NfProblem); reflexivity.
  - rewrite nf_loop_cons. destruct (nf_user_sends c x ty force reminder npu lns a).
    + cbv zeta. cbn [fst snd]. rewrite IH. destruct (nf_type_eqb ty NfProblem); reflexivity.
    + apply IH.
Qed.
End Loop.
