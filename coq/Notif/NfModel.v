(* C03 - notification delivery.  Gallina transcription (no proofs here) of
     Checkable::SendNotifications              lib/icinga/checkable-notification.cpp:33-112
     Notification::BeginExecuteNotification    lib/icinga/notification.cpp:226-501
     Notification::CheckNotificationUserFilters lib/icinga/notification.cpp:503-576
     FireSuppressedNotifications(notification) lib/notification/notificationcomponent.cpp:76-124
     NotificationComponent::NotificationTimerHandler  ...:131-262
   Branch order, comparisons and quirks follow the C++ text.  Everything the code reads from the
   checkable, the users and the time periods is an INPUT ([nf_ctx]); C08 decides periods, C02/C05/C06/C07
   decide downtime/acknowledgement/reachability.  Times are whole seconds (Z). *)
From Icv Require Import Base.Tac.
Local Open Scope Z_scope.

Inductive nf_type :=
  NfDowntimeStart | NfDowntimeEnd | NfDowntimeRemoved | NfCustom | NfAck | NfProblem | NfRecovery | NfFlapStart | NfFlapEnd.

(* enum NotificationType (Facts_enums) *)
Definition nf_type_bit (t : nf_type) : Z :=
  match t with
  | NfDowntimeStart => 1 | NfDowntimeEnd => 2 | NfDowntimeRemoved => 4 | NfCustom => 8 | NfAck => 16
  | NfProblem => 32 | NfRecovery => 64 | NfFlapStart => 128 | NfFlapEnd => 256
  end.

Definition nf_type_eqb (a b : nf_type) : bool := nf_type_bit a =? nf_type_bit b.

(* "ftype & filter" *)
Definition nf_passes (filter bit : Z) : bool := negb (Z.land bit filter =? 0).

(* host->GetState() / service->GetState() from state_raw: Host::CalculateState maps OK,Warning to Up *)
Definition nf_api_state (svc : bool) (raw : Z) : Z :=
  if svc then raw else if raw <=? 1 then 0 else 1.

(* ServiceStateToFilter / HostStateToFilter *)
Definition nf_state_bit (svc : bool) (raw : Z) : Z :=
  if svc then (if raw =? 0 then 1 else if raw =? 1 then 2 else if raw =? 2 then 4 else 8)
  else (if raw <=? 1 then 16 else 32).

Record nf_user := {
  nfu_id : Z;
  nfu_enable : bool;        (* enable_notifications *)
  nfu_types : Z;            (* type_filter_real *)
  nfu_states : Z;           (* state_filter_real *)
  nfu_per_closed : bool     (* user has a period and it is not inside now *)
}.

(* what the code reads at the instant of an operation *)
Record nf_ctx := {
  cx_users : list nf_user;  (* users + members of user_groups, as a set *)
  cx_raw : Z;               (* checkable state_raw 0..3 *)
  cx_hard : bool;           (* state_type = Hard *)
  cx_lhsc : Z;              (* last_hard_state_change *)
  cx_volatile : bool;
  cx_glob_en : bool;        (* IcingaApplication enable_notifications *)
  cx_ck_en : bool;          (* checkable enable_notifications *)
  cx_downtime : bool;       (* IsInDowntime *)
  cx_acked : bool;          (* IsAcknowledged *)
  cx_reachable : bool;      (* IsReachable(DependencyNotification) *)
  cx_flapping : bool;       (* IsFlapping *)
  cx_ck_supp_problem : bool;(* checkable suppressed_notifications & Problem *)
  cx_paused : bool;         (* notification->IsPaused() *)
  cx_ha : bool;             (* local endpoint exists && component enable_ha *)
  cx_auth : bool;           (* ApiListener::UpdatedObjectAuthority() *)
  cx_per_closed : bool;     (* notification has a period and it is not inside now *)
  cx_has_cr : bool;         (* last_check_result != null *)
  cx_cr_ok : bool;          (* IsStateOK(last_check_result.state) *)
  cx_soon : bool            (* IsLikelyToBeCheckedSoon *)
}.

Record nf_cfg := {
  nfc_svc : bool;
  nfc_interval : Z;
  nfc_types : Z;            (* type_filter_real *)
  nfc_states : Z;           (* state_filter_real *)
  nfc_begin : option Z;     (* times.begin, None = key absent *)
  nfc_end : option Z        (* times.end *)
}.

(* Notification.suppressed_notifications only ever holds these four bits *)
Record nf_supp := { sp_problem : bool; sp_recovery : bool; sp_fstart : bool; sp_fend : bool }.
Definition nf_supp_none : nf_supp := {| sp_problem := false; sp_recovery := false; sp_fstart := false; sp_fend := false |}.
Definition nf_supp_empty (s : nf_supp) : bool :=
  negb (sp_problem s || sp_recovery s || sp_fstart s || sp_fend s).
Definition nf_supp_has (s : nf_supp) (t : nf_type) : bool :=
  match t with
  | NfProblem => sp_problem s | NfRecovery => sp_recovery s | NfFlapStart => sp_fstart s | NfFlapEnd => sp_fend s
  | _ => false
  end.
Definition nf_supp_ins (s : nf_supp) (t : nf_type) : nf_supp :=
  match t with
  | NfProblem => {| sp_problem := true; sp_recovery := sp_recovery s; sp_fstart := sp_fstart s; sp_fend := sp_fend s |}
  | NfRecovery => {| sp_problem := sp_problem s; sp_recovery := true; sp_fstart := sp_fstart s; sp_fend := sp_fend s |}
  | NfFlapStart => {| sp_problem := sp_problem s; sp_recovery := sp_recovery s; sp_fstart := true; sp_fend := sp_fend s |}
  | NfFlapEnd => {| sp_problem := sp_problem s; sp_recovery := sp_recovery s; sp_fstart := sp_fstart s; sp_fend := true |}
  | _ => s
  end.
(* a & ~b *)
Definition nf_supp_minus (a b : nf_supp) : nf_supp :=
  {| sp_problem := sp_problem a && negb (sp_problem b); sp_recovery := sp_recovery a && negb (sp_recovery b);
     sp_fstart := sp_fstart a && negb (sp_fstart b); sp_fend := sp_fend a && negb (sp_fend b) |}.
Definition nf_supp_mask (s : nf_supp) : Z :=
  (if sp_problem s then 32 else 0) + (if sp_recovery s then 64 else 0)
  + (if sp_fstart s then 128 else 0) + (if sp_fend s then 256 else 0).

(* notification.cpp:264-278: stash the type, conflicting pairs neutralise each other *)
Definition nf_supp_add (s : nf_supp) (t : nf_type) : nf_supp :=
  let a := nf_supp_ins s t in
  let a1 := if sp_problem a && sp_recovery a
            then {| sp_problem := false; sp_recovery := false; sp_fstart := sp_fstart a; sp_fend := sp_fend a |} else a in
  if sp_fstart a1 && sp_fend a1
  then {| sp_problem := sp_problem a1; sp_recovery := sp_recovery a1; sp_fstart := false; sp_fend := false |} else a1.

Record nf_stashed := { sh_type : nf_type; sh_force : bool; sh_reminder : bool }.

Record nf_state := {
  nf_npu : list Z;            (* notified_problem_users *)
  nf_lns : list (Z * Z);      (* last_notified_state_per_user *)
  nf_next : Z;                (* next_notification *)
  nf_nomore : bool;           (* no_more_notifications *)
  nf_number : Z;              (* notification_number *)
  nf_last : Z;                (* last_notification *)
  nf_last_problem : Z;        (* last_problem_notification *)
  nf_sup : nf_supp;           (* suppressed_notifications *)
  nf_stash : list nf_stashed  (* stashed_notifications *)
}.

Definition nf_init : nf_state :=
  {| nf_npu := []; nf_lns := []; nf_next := 0; nf_nomore := false; nf_number := 0; nf_last := 0;
     nf_last_problem := 0; nf_sup := nf_supp_none; nf_stash := [] |}.

Definition nf_set_lns (s : nf_state) (v : list (Z * Z)) : nf_state :=
  {| nf_npu := nf_npu s; nf_lns := v; nf_next := nf_next s; nf_nomore := nf_nomore s; nf_number := nf_number s;
     nf_last := nf_last s; nf_last_problem := nf_last_problem s; nf_sup := nf_sup s; nf_stash := nf_stash s |}.
Definition nf_set_npu (s : nf_state) (v : list Z) : nf_state :=
  {| nf_npu := v; nf_lns := nf_lns s; nf_next := nf_next s; nf_nomore := nf_nomore s; nf_number := nf_number s;
     nf_last := nf_last s; nf_last_problem := nf_last_problem s; nf_sup := nf_sup s; nf_stash := nf_stash s |}.
Definition nf_set_sup (s : nf_state) (v : nf_supp) : nf_state :=
  {| nf_npu := nf_npu s; nf_lns := nf_lns s; nf_next := nf_next s; nf_nomore := nf_nomore s; nf_number := nf_number s;
     nf_last := nf_last s; nf_last_problem := nf_last_problem s; nf_sup := v; nf_stash := nf_stash s |}.
Definition nf_set_stash (s : nf_state) (v : list nf_stashed) : nf_state :=
  {| nf_npu := nf_npu s; nf_lns := nf_lns s; nf_next := nf_next s; nf_nomore := nf_nomore s; nf_number := nf_number s;
     nf_last := nf_last s; nf_last_problem := nf_last_problem s; nf_sup := nf_sup s; nf_stash := v |}.
Definition nf_set_next (s : nf_state) (v : Z) : nf_state :=
  {| nf_npu := nf_npu s; nf_lns := nf_lns s; nf_next := v; nf_nomore := nf_nomore s; nf_number := nf_number s;
     nf_last := nf_last s; nf_last_problem := nf_last_problem s; nf_sup := nf_sup s; nf_stash := nf_stash s |}.
Definition nf_set_nomore (s : nf_state) (v : bool) : nf_state :=
  {| nf_npu := nf_npu s; nf_lns := nf_lns s; nf_next := nf_next s; nf_nomore := v; nf_number := nf_number s;
     nf_last := nf_last s; nf_last_problem := nf_last_problem s; nf_sup := nf_sup s; nf_stash := nf_stash s |}.

(* Array::Contains / Dictionary::Get (missing key -> Empty -> 0) / Dictionary::Set *)
Fixpoint nf_mem (k : Z) (l : list Z) : bool :=
  match l with [] => false | x :: r => (x =? k) || nf_mem k r end.
Fixpoint nf_lns_get (k : Z) (l : list (Z * Z)) : Z :=
  match l with [] => 0 | (k', v) :: r => if k' =? k then v else nf_lns_get k r end.
Fixpoint nf_lns_set (k v : Z) (l : list (Z * Z)) : list (Z * Z) :=
  match l with
  | [] => [(k, v)]
  | (k', v') :: r => if k' =? k then (k, v) :: r else (k', v') :: nf_lns_set k v r
  end.

(* lines 484-487 and 491-492 *)
Definition nf_lns_upd (id st : Z) (lns : list (Z * Z)) : list (Z * Z) :=
  if negb (st =? nf_lns_get id lns) then nf_lns_set id st lns else lns.
Definition nf_npu_add (id : Z) (npu : list Z) : list Z :=
  if negb (nf_mem id npu) then npu ++ [id] else npu.

(* one BeginExecuteNotification call *)
Record nf_exec := {
  ne_type : nf_type; ne_force : bool; ne_reminder : bool;
  ne_reached : bool;        (* reached the per-user loop (and OnNotificationSentToAllUsers) *)
  ne_deferred : bool;       (* returned at the times.begin test (next_notification re-armed) *)
  ne_sent : list Z          (* users the command was queued for *)
}.

(* the notification-level filters, lines 245-376, in code order *)
Inductive nf_gate := NfGo | NfGPeriod | NfGBegin | NfGEnd | NfGType | NfGState.

Definition nf_opt_active (o : option Z) : bool := match o with Some b => 0 <=? b | None => false end.
Definition nf_opt_val (o : option Z) : Z := match o with Some b => b | None => 0 end.

Definition nf_pre (c : nf_cfg) (now : Z) (x : nf_ctx) (ty : nf_type) (force : bool) : nf_gate :=
  if force then NfGo
  else if cx_per_closed x then NfGPeriod
  else if nf_type_eqb ty NfProblem && nf_opt_active (nfc_begin c) && (now <? cx_lhsc x + nf_opt_val (nfc_begin c)) then NfGBegin
  else if nf_type_eqb ty NfProblem && nf_opt_active (nfc_end c) && (cx_lhsc x + nf_opt_val (nfc_end c) <? now) then NfGEnd
  else if negb (nf_passes (nfc_types c) (nf_type_bit ty)) then NfGType
  else if nf_type_eqb ty NfProblem && negb (nf_passes (nfc_states c) (nf_state_bit (nfc_svc c) (cx_raw x))) then NfGState
  else NfGo.

(* CheckNotificationUserFilters *)
Definition nf_user_filters (c : nf_cfg) (x : nf_ctx) (ty : nf_type) (force : bool) (u : nf_user) : bool :=
  if force then true
  else if nfu_per_closed u then false
  else if negb (nf_passes (nfu_types u) (nf_type_bit ty)) then false
  else if negb (nf_type_eqb ty NfRecovery) && negb (nf_passes (nfu_states u) (nf_state_bit (nfc_svc c) (cx_raw x))) then false
  else true.

(* one iteration of the per-user loop, lines 415-465: is the command queued for u? *)
Definition nf_user_sends (c : nf_cfg) (x : nf_ctx) (ty : nf_type) (force reminder : bool)
           (npu : list Z) (lns : list (Z * Z)) (u : nf_user) : bool :=
  if negb (nfu_enable u) then false
  else if negb (nf_user_filters c x ty force u) then false
  else if nf_type_eqb ty NfRecovery && negb (nf_mem (nfu_id u) npu) && nf_passes (nfu_types u) 32 then false
  else if nf_type_eqb ty NfAck && negb (nf_mem (nfu_id u) npu) && nf_passes (nfu_types u) 32 then false
  else if nf_type_eqb ty NfProblem && negb reminder && negb (cx_volatile x)
          && (nf_api_state (nfc_svc c) (cx_raw x) =? nf_lns_get (nfu_id u) lns) then false
  else true.

Fixpoint nf_loop (c : nf_cfg) (x : nf_ctx) (ty : nf_type) (force reminder : bool)
         (us : list nf_user) (npu : list Z) (lns : list (Z * Z)) : list Z * (list Z * list (Z * Z)) :=
  match us with
  | [] => ([], (npu, lns))
  | u :: r =>
      if nf_user_sends c x ty force reminder npu lns u then
        let id := nfu_id u in
        let st := nf_api_state (nfc_svc c) (cx_raw x) in
        let lns1 := if nf_type_eqb ty NfProblem then nf_lns_upd id st lns else lns in
        let npu1 := if nf_type_eqb ty NfProblem then nf_npu_add id npu else npu in
        let '(s, nl) := nf_loop c x ty force reminder r npu1 lns1 in (id :: s, nl)
      else nf_loop c x ty force reminder r npu lns
  end.

Definition nf_supp_type (ty : nf_type) : bool :=
  match ty with NfProblem | NfRecovery | NfFlapStart | NfFlapEnd => true | _ => false end.

Definition nf_mk_exec ty force reminder reached deferred sent : nf_exec :=
  {| ne_type := ty; ne_force := force; ne_reminder := reminder; ne_reached := reached; ne_deferred := deferred; ne_sent := sent |}.

Definition nf_begin (c : nf_cfg) (now : Z) (x : nf_ctx) (ty : nf_type) (force reminder : bool) (s : nf_state)
  : nf_state * nf_exec :=
  (* 236-241 *)
  let s0 := if nf_type_eqb ty NfRecovery then nf_set_lns s [] else s in
  match nf_pre c now x ty force with
  | NfGPeriod =>
      (if negb reminder && nf_supp_type ty then nf_set_sup s0 (nf_supp_add (nf_sup s0) ty) else s0,
       nf_mk_exec ty force reminder false false [])
  | NfGBegin =>
      (nf_set_nomore (nf_set_next s0 (cx_lhsc x + nf_opt_val (nfc_begin c) + 1)) false,
       nf_mk_exec ty force reminder false true [])
  | NfGEnd => (s0, nf_mk_exec ty force reminder false false [])
  | NfGType =>
      (* 329-353; the Clear() of notified_problem_users is the fix c30b63e *)
      (let s1 := if nf_type_eqb ty NfRecovery && (nfc_interval c <=? 0) then nf_set_nomore s0 false else s0 in
       if nf_type_eqb ty NfRecovery then nf_set_npu s1 [] else s1,
       nf_mk_exec ty force reminder false false [])
  | NfGState => (s0, nf_mk_exec ty force reminder false false [])
  | NfGo =>
      (* 383-400 *)
      let isp := nf_type_eqb ty NfProblem in
      let nomore := if isp && (nfc_interval c <=? 0) then true
                    else if negb (nf_type_eqb ty NfCustom) then false else nf_nomore s0 in
      let next := if isp && (0 <? nfc_interval c) then now + nfc_interval c else nf_next s0 in
      let lastp := if isp then now else nf_last_problem s0 in
      (* 402-493 *)
      let '(sent, nl) := nf_loop c x ty force reminder (cx_users x) (nf_npu s0) (nf_lns s0) in
      (* 496-497 *)
      let npu' := if nf_type_eqb ty NfRecovery then [] else fst nl in
      ({| nf_npu := npu'; nf_lns := snd nl; nf_next := next; nf_nomore := nomore; nf_number := nf_number s0 + 1;
          nf_last := now; nf_last_problem := lastp; nf_sup := nf_sup s0; nf_stash := nf_stash s0 |},
       nf_mk_exec ty force reminder true false sent)
  end.

(* events of one operation, in program order *)
Inductive nf_ev :=
| NfEvDrop (ty : nf_type)      (* request dropped by Checkable::SendNotifications (disabled / paused) *)
| NfEvExec (e : nf_exec).

Definition nf_mk_stashed ty force : nf_stashed := {| sh_type := ty; sh_force := force; sh_reminder := false |}.

(* Checkable::SendNotifications for this notification object; [force] = force_next_notification *)
Definition nf_request (c : nf_cfg) (now : Z) (x : nf_ctx) (ty : nf_type) (force : bool) (s : nf_state)
  : nf_state * list nf_ev :=
  if (negb (cx_glob_en x) || negb (cx_ck_en x)) && negb force then
    (* 43-62; clearing notified_problem_users of the non-paused objects for a Recovery is the fix b86ebcb *)
    (if nf_type_eqb ty NfRecovery && negb (cx_paused x) then nf_set_npu s [] else s, [NfEvDrop ty])
  else if cx_auth x then
    if negb (cx_paused x) then
      match nf_stash s with
      | _ :: _ => (nf_set_stash s (nf_stash s ++ [nf_mk_stashed ty force]), [])
      | [] => let '(s', e) := nf_begin c now x ty force false s in (s', [NfEvExec e])
      end
    else (s, [NfEvDrop ty])
  else (nf_set_stash s (nf_stash s ++ [nf_mk_stashed ty force]), []).

(* Checkable::NotificationReasonApplies / NotificationReasonSuppressed *)
Definition nf_reason_applies (x : nf_ctx) (ty : nf_type) : bool :=
  match ty with
  | NfProblem => cx_has_cr x && negb (cx_cr_ok x)
  | NfRecovery => cx_has_cr x && cx_cr_ok x
  | NfFlapStart => cx_flapping x
  | NfFlapEnd => negb (cx_flapping x)
  | _ => false
  end.
Definition nf_reason_suppressed (x : nf_ctx) (ty : nf_type) : bool :=
  match ty with
  | NfProblem | NfRecovery => negb (cx_reachable x) || cx_downtime x || cx_acked x
  | NfFlapStart | NfFlapEnd => cx_downtime x
  | _ => false
  end.

Definition nf_fire_types : list nf_type := [NfProblem; NfRecovery; NfFlapStart; NfFlapEnd].

(* notificationcomponent.cpp:86-91 *)
Fixpoint nf_fire_drop (x : nf_ctx) (tys : list nf_type) (st sub : nf_supp) : nf_supp * nf_supp :=
  match tys with
  | [] => (st, sub)
  | ty :: r =>
      if nf_supp_has st ty && negb (nf_reason_applies x ty)
      then nf_fire_drop x r (nf_supp_minus st (nf_supp_ins nf_supp_none ty)) (nf_supp_ins sub ty)
      else nf_fire_drop x r st sub
  end.

(* 97-117; [st] is the local copy suppressedTypes *)
Fixpoint nf_fire_loop (c : nf_cfg) (now : Z) (x : nf_ctx) (st : nf_supp) (tys : list nf_type)
         (s : nf_state) (sub : nf_supp) : nf_state * nf_supp * list nf_ev :=
  match tys with
  | [] => (s, sub, [])
  | ty :: r =>
      if negb (nf_supp_has st ty) || nf_reason_suppressed x ty then nf_fire_loop c now x st r s sub
      else
        let sub' := nf_supp_ins sub ty in
        let s1 := nf_set_sup s (nf_supp_minus (nf_sup s) sub') in
        let '(s2, e) := nf_begin c now x ty false false s1 in
        let '(s3, sub3, evs) := nf_fire_loop c now x st r s2 nf_supp_none in
        (s3, sub3, NfEvExec e :: evs)
  end.

Definition nf_fire (c : nf_cfg) (now : Z) (x : nf_ctx) (s : nf_state) : nf_state * list nf_ev :=
  if nf_supp_empty (nf_sup s) then (s, [])
  else
    let '(st, sub) := nf_fire_drop x nf_fire_types (nf_sup s) nf_supp_none in
    let '(s1, sub1, evs) :=
      if negb (nf_supp_empty st) && negb (cx_per_closed x) && negb (cx_soon x)
      then nf_fire_loop c now x st nf_fire_types s sub
      else (s, sub, []) in
    (if nf_supp_empty sub1 then s1 else nf_set_sup s1 (nf_supp_minus (nf_sup s1) sub1), evs).

(* 187-208 *)
Fixpoint nf_unstash (c : nf_cfg) (now : Z) (x : nf_ctx) (l : list nf_stashed) (s : nf_state) : nf_state * list nf_ev :=
  match l with
  | [] => (s, [])
  | h :: r =>
      let '(s1, e) := nf_begin c now x (sh_type h) (sh_force h) (sh_reminder h) s in
      let '(s2, evs) := nf_unstash c now x r s1 in
      (s2, NfEvExec e :: evs)
  end.

(* 214-260: the reminder part of the timer handler *)
Definition nf_tick_rem (c : nf_cfg) (now : Z) (x : nf_ctx) (s : nf_state) : nf_state * list nf_ev :=
  if (nfc_interval c <=? 0) && nf_nomore s then (s, [])
  else if now <? nf_next s then (s, [])
  else
    let s1 := nf_set_next s (now + nfc_interval c) in
    if negb (cx_hard x) then (s1, [])
    else if nf_api_state (nfc_svc c) (cx_raw x) =? 0 then (s1, [])
    else if cx_ck_supp_problem x || sp_problem (nf_sup s1) then (s1, [])
    else if negb (cx_reachable x) || cx_downtime x || cx_acked x || cx_flapping x then (s1, [])
    else let '(s2, e) := nf_begin c now x NfProblem false true s1 in (s2, [NfEvExec e]).

(* 138-211: everything before the reminder part; the boolean is false where the code says "continue" *)
Definition nf_tick_pre (c : nf_cfg) (now : Z) (x : nf_ctx) (s : nf_state) : nf_state * list nf_ev * bool :=
  let s1 := if cx_paused x && cx_auth x then
              match nf_stash s with _ :: _ => nf_set_stash s [] | [] => s end
            else s in
  if cx_paused x && cx_ha x then (s1, [], false)
  else if negb (cx_glob_en x) || negb (cx_ck_en x) then (s1, [], false)
  else if cx_reachable x then
    let '(sa, ea) := nf_unstash c now x (nf_stash s1) (nf_set_stash s1 []) in
    let '(sb, eb) := nf_fire c now x sa in
    (sb, ea ++ eb, true)
  else (s1, [], true).

Definition nf_tick (c : nf_cfg) (now : Z) (x : nf_ctx) (s : nf_state) : nf_state * list nf_ev :=
  let '(s2, evs2, go) := nf_tick_pre c now x s in
  if go then let '(s3, evs3) := nf_tick_rem c now x s2 in (s3, evs2 ++ evs3)
  else (s2, evs2).

Inductive nf_op :=
| NfRequest (now : Z) (x : nf_ctx) (ty : nf_type) (force : bool)
| NfTick (now : Z) (x : nf_ctx).

Definition nf_op_now (o : nf_op) : Z := match o with NfRequest n _ _ _ => n | NfTick n _ => n end.
Definition nf_op_ctx (o : nf_op) : nf_ctx := match o with NfRequest _ x _ _ => x | NfTick _ x => x end.

Definition nf_step (c : nf_cfg) (s : nf_state) (o : nf_op) : nf_state * list nf_ev :=
  match o with
  | NfRequest now x ty force => nf_request c now x ty force s
  | NfTick now x => nf_tick c now x s
  end.

(* groups flattened: users ++ members, as a set keyed by id *)
Fixpoint nf_dedup (seen : list Z) (l : list nf_user) : list nf_user :=
  match l with
  | [] => []
  | u :: r => if nf_mem (nfu_id u) seen then nf_dedup seen r else u :: nf_dedup (nfu_id u :: seen) r
  end.
Definition nf_all_users (direct : list nf_user) (groups : list (list nf_user)) : list nf_user :=
  nf_dedup [] (direct ++ concat groups).
