(* C03: the statements of the property, derived from the invariant (NfStepProofs.v), and the witnesses of the
   two recorded findings. *)
From Icv Require Import Base.Tac Notif.NfModel Notif.NfObs Notif.NfProofs Notif.NfBeginProofs Notif.NfStepProofs.
Local Open Scope Z_scope.

(* ---------- every observable event of a run, with the observer's bookkeeping just before it ---------- *)
Fixpoint nf_ev_points (c : nf_cfg) (oi : nf_opinfo) (g : nf_ghost) (es : list nf_oev) : list (nf_ghost * nf_opinfo * nf_oev) :=
  match es with
  | [] => []
  | e :: r => (g, oi, e) :: nf_ev_points c oi (nf_g_ev c oi g e) r
  end.

Fixpoint nf_points (c : nf_cfg) (s : nf_state) (g : nf_ghost) (h : list nf_op) : list (nf_ghost * nf_opinfo * nf_oev) :=
  match h with
  | [] => []
  | o :: r =>
      let '(s', evs) := nf_step c s o in
      let oi := nf_opinfo_st s o in
      let g0 := nf_g_start c oi g in
      nf_ev_points c oi g0 (nf_obs_evs evs) ++ nf_points c s' (nf_g_evs c oi g0 (nf_obs_evs evs)) r
  end.

Definition nf_run_points (c : nf_cfg) (h : list nf_op) := nf_points c nf_init nf_ghost0 h.

Lemma nf_check_evs_points c oi es : forall g,
  nf_check_evs c oi g es = map (fun p => nf_check c (snd (fst p)) (fst (fst p)) (snd p)) (nf_ev_points c oi g es).
Proof. induction es as [|e r IH]; intro g; [reflexivity|]. cbn. rewrite IH. reflexivity. Qed.

Lemma nf_points_ok c h : forall s g p,
  NfInv c s g -> In p (nf_points c s g h) -> nf_is_bad (nf_check c (snd (fst p)) (fst (fst p)) (snd p)) = false.
Proof.
  induction h as [|o r IH]; intros s g p HI HP; [contradiction|].
  cbn [nf_points] in HP. destruct (nf_step c s o) as [s' evs] eqn:HS.
  destruct (nf_step_ok c s g o s' evs HI HS) as [A B].
  apply in_app_or in HP. destruct HP as [HP|HP].
  - apply A. rewrite nf_check_evs_points. apply in_map_iff. exists p. split; [reflexivity|assumption].
  - apply (IH _ _ _ B HP).
Qed.

(* what "not an outright violation" means, clause by clause *)
Definition nf_inc_set (ty : nf_type) (g : nf_ghost) : list Z := if nf_type_eqb ty NfRecovery then g_pre g else g_inc g.

Lemma nf_check_inv c oi g ty sent :
  nf_is_bad (nf_check c oi g (NfoDone ty sent)) = false ->
  forallb (nf_okA c oi ty) sent = true /\
  (nf_type_eqb ty NfProblem = true -> oi_tick oi = false -> cx_volatile (oi_ctx oi) = false ->
     forallb (fun u => negb (nf_api_state (nfc_svc c) (cx_raw (oi_ctx oi)) =? nf_lns_get u (g_last g))) sent = true) /\
  (nf_type_eqb ty NfProblem = true -> oi_tick oi = true -> oi_kp oi <= g_cnt g ->
     nf_rem_ctx_ok c (oi_ctx oi) = true /\
     (forall t, g_rem g = Some t -> t + nfc_interval c <= oi_now oi) /\
     (nfc_interval c <= 0 -> g_ps g = true -> g_bad g = true)) /\
  (nf_type_eqb ty NfRecovery || nf_type_eqb ty NfAck = true -> forallb (nf_okB c oi g ty) sent = true).
Proof.
  unfold nf_check.
  destruct (oi_tick oi && (cx_paused (oi_ctx oi) && cx_ha (oi_ctx oi))); [discriminate|].
  destruct (forallb (nf_okA c oi ty) sent) eqn:K1; cbn [negb]; [|discriminate].
  destruct (nf_type_eqb ty NfProblem) eqn:Ep.
  - assert (nf_type_eqb ty NfRecovery || nf_type_eqb ty NfAck = false) as Era
      by (apply nf_type_eqb_eq in Ep; subst ty; reflexivity).
    rewrite Era. cbn [andb].
    destruct (oi_tick oi) eqn:Ht; cbn [negb andb].
    + destruct (oi_kp oi <=? g_cnt g) eqn:Hr; cbn [andb].
      * destruct (nf_rem_ctx_ok c (oi_ctx oi)) eqn:R1; cbn [negb]; [|discriminate].
        destruct (match g_rem g with Some t => t + nfc_interval c <=? oi_now oi | None => true end) eqn:R2; cbn [negb]; [|discriminate].
        intros H. split; [reflexivity|]. split; [discriminate|]. split; [|discriminate].
        intros _ _ _. split; [reflexivity|]. split.
        -- intros t Hg. rewrite Hg in R2. lia.
        -- intros Hi Hps. assert (nfc_interval c <=? 0 = true) as Ei by lia. rewrite Ei, Hps in H. cbn in H.
           destruct (g_bad g); [reflexivity|discriminate].
      * intros _. split; [reflexivity|]. split; [discriminate|]. split; [intros _ _ Hk; lia|discriminate].
    + destruct (cx_volatile (oi_ctx oi)) eqn:Hv; cbn [negb andb].
      * intros _. split; [reflexivity|]. split; [discriminate|]. split; discriminate.
      * destruct (forallb (fun u : Z => negb (nf_api_state (nfc_svc c) (cx_raw (oi_ctx oi)) =? nf_lns_get u (g_last g))) sent) eqn:K3;
          cbn [negb]; [|discriminate].
        intros _. split; [reflexivity|]. split; [auto|]. split; discriminate.
  - cbn [andb]. intros H. split; [reflexivity|]. split; [discriminate|]. split; [discriminate|].
    intros Era. rewrite Era in H. cbn [andb] in H.
    destruct (forallb (nf_okB c oi g ty) sent); [reflexivity|discriminate].
Qed.

(* the recorded finding "nomore-reset": after the incident's Problem a non-Custom, non-Problem, non-Recovery
   notification passed the notification's filters *)
Definition nf_nomore_reset (g : nf_ghost) : bool := g_bad g.

Section History.
Variables (c : nf_cfg) (h : list nf_op).

Theorem nf_incident g oi ty sent u :
  In (g, oi, NfoDone ty sent) (nf_run_points c h) ->
  ty = NfRecovery \/ ty = NfAck -> In u sent ->
  exists ur, In ur (cx_users (oi_ctx oi)) /\ nfu_id ur = u /\ nfu_enable ur = true /\
             (nf_mem u (nf_inc_set ty g) = true \/ nf_passes (nfu_types ur) 32 = false).
Proof.
  intros HP Hty Hu.
  pose proof (nf_points_ok c h nf_init nf_ghost0 _ (nf_init_inv c) HP) as HB. cbn [fst snd] in HB.
  apply nf_check_inv in HB. destruct HB as (_ & _ & _ & K2).
  assert (nf_type_eqb ty NfRecovery || nf_type_eqb ty NfAck = true) as Era by (destruct Hty; subst ty; reflexivity).
  specialize (K2 Era). rewrite forallb_forall in K2. specialize (K2 u Hu).
  unfold nf_okB in K2. apply existsb_exists in K2. destruct K2 as (ur & I & Q).
  fold (nf_inc_set ty g) in Q.
  apply andb_true_iff in Q. destruct Q as [Q Q4]. apply andb_true_iff in Q. destruct Q as [Q _].
  apply andb_true_iff in Q. destruct Q as [Q1 Q2].
  exists ur. repeat split; auto; [lia|].
  apply orb_true_iff in Q4. destruct Q4 as [Q4|Q4]; [left; assumption|right; apply negb_true_iff; assumption].
Qed.

Theorem nf_no_duplicate g oi sent u :
  In (g, oi, NfoDone NfProblem sent) (nf_run_points c h) ->
  oi_tick oi = false -> cx_volatile (oi_ctx oi) = false -> In u sent ->
  nf_lns_get u (g_last g) <> nf_api_state (nfc_svc c) (cx_raw (oi_ctx oi)).
Proof.
  intros HP Ht Hv Hu.
  pose proof (nf_points_ok c h nf_init nf_ghost0 _ (nf_init_inv c) HP) as HB. cbn [fst snd] in HB.
  apply nf_check_inv in HB. destruct HB as (_ & K3 & _ & _).
  specialize (K3 eq_refl Ht Hv). rewrite forallb_forall in K3. specialize (K3 u Hu). lia.
Qed.

Theorem nf_reminders g oi sent :
  In (g, oi, NfoDone NfProblem sent) (nf_run_points c h) ->
  oi_tick oi = true -> oi_kp oi <= g_cnt g ->
  nf_rem_ctx_ok c (oi_ctx oi) = true /\
  (forall t, g_rem g = Some t -> t + nfc_interval c <= oi_now oi) /\
  (nfc_interval c <= 0 -> nf_nomore_reset g = false -> g_ps g = false).
Proof.
  intros HP Ht Hr.
  pose proof (nf_points_ok c h nf_init nf_ghost0 _ (nf_init_inv c) HP) as HB. cbn [fst snd] in HB.
  apply nf_check_inv in HB. destruct HB as (_ & _ & K & _).
  destruct (K eq_refl Ht Hr) as (K1 & K2 & K3). split; [assumption|split; [assumption|]].
  intros Hi Hb. unfold nf_nomore_reset in Hb. destruct (g_ps g) eqn:P; [|reflexivity].
  rewrite (K3 Hi eq_refl) in Hb. discriminate.
Qed.

Theorem nf_sent_filters g oi ty sent u :
  In (g, oi, NfoDone ty sent) (nf_run_points c h) -> In u sent ->
  exists ur, In ur (cx_users (oi_ctx oi)) /\ nfu_id ur = u /\ nfu_enable ur = true /\
             (nf_mayforce oi ty = false -> nf_full_ok c (oi_now oi) (oi_ctx oi) ty ur = true).
Proof.
  intros HP Hu.
  pose proof (nf_points_ok c h nf_init nf_ghost0 _ (nf_init_inv c) HP) as HB. cbn [fst snd] in HB.
  apply nf_check_inv in HB. destruct HB as (K1 & _). rewrite forallb_forall in K1. specialize (K1 u Hu).
  unfold nf_okA in K1. apply existsb_exists in K1. destruct K1 as (ur & I & Q).
  apply andb_true_iff in Q. destruct Q as [Q Q3]. apply andb_true_iff in Q. destruct Q as [Q1 Q2].
  exists ur. repeat split; auto; [lia|]. intro F. rewrite F in Q3. exact Q3.
Qed.
End History.

(* ---------- one BeginExecuteNotification call, from any state ---------- *)
Theorem nf_begin_filters c now x ty rem s u :
  In u (ne_sent (snd (nf_begin c now x ty false rem s))) ->
  exists ur, In ur (cx_users x) /\ nfu_id ur = u /\ nfu_enable ur = true /\
             (cx_glob_en x = true -> cx_ck_en x = true -> nf_full_ok c now x ty ur = true).
Proof.
  unfold nf_begin. destruct (nf_pre c now x ty false) eqn:G; cbn [snd ne_sent nf_mk_exec]; try contradiction.
  set (s0 := if nf_type_eqb ty NfRecovery then nf_set_lns s [] else s).
  destruct (nf_loop c x ty false rem (cx_users x) (nf_npu s0) (nf_lns s0)) as [sent nl] eqn:L. cbn [snd ne_sent nf_mk_exec].
  intro Hu. pose proof (nf_loop_sent c x ty false rem (cx_users x) (nf_npu s0) (nf_lns s0) u) as Hl. rewrite L in Hl.
  destruct (Hl Hu) as (ur & I1 & I2 & I3 & I4 & _). exists ur. repeat split; auto.
  intros E1 E2. apply nf_full_ok_intro; assumption.
Qed.

(* what decides a forced notification for one user: the enable flag, the incident rule, the duplicate rule *)
Definition nf_forced_ok (c : nf_cfg) (x : nf_ctx) (ty : nf_type) (rem : bool) (s : nf_state) (u : nf_user) : bool :=
  nfu_enable u
  && (if nf_type_eqb ty NfRecovery || nf_type_eqb ty NfAck
      then nf_mem (nfu_id u) (nf_npu s) || negb (nf_passes (nfu_types u) 32) else true)
  && (if nf_type_eqb ty NfProblem && negb rem && negb (cx_volatile x)
      then negb (nf_api_state (nfc_svc c) (cx_raw x) =? nf_lns_get (nfu_id u) (nf_lns s)) else true).

Lemma nf_user_sends_forced c x ty rem s u :
  nf_user_sends c x ty true rem (nf_npu s) (nf_lns (if nf_type_eqb ty NfRecovery then nf_set_lns s [] else s)) u
  = nf_forced_ok c x ty rem s u.
Proof.
  unfold nf_user_sends, nf_forced_ok, nf_user_filters.
  destruct (nfu_enable u); cbn [negb andb]; [|reflexivity].
  destruct ty; cbn [nf_type_eqb nf_type_bit Z.eqb Pos.eqb andb orb negb];
    try reflexivity;
    try (destruct (nf_mem (nfu_id u) (nf_npu s)); cbn [negb andb orb]; [reflexivity|];
         destruct (nf_passes (nfu_types u) 32); reflexivity).
  destruct rem; cbn [negb andb]; [reflexivity|]. destruct (cx_volatile x); cbn [negb andb]; [reflexivity|].
  destruct (_ =? _); reflexivity.
Qed.

Lemma nf_user_sends_ext c x ty f r npu lns npu' lns' u :
  nf_mem (nfu_id u) npu' = nf_mem (nfu_id u) npu -> nf_lns_get (nfu_id u) lns' = nf_lns_get (nfu_id u) lns ->
  nf_user_sends c x ty f r npu' lns' u = nf_user_sends c x ty f r npu lns u.
Proof. intros A B. unfold nf_user_sends. rewrite A, B. reflexivity. Qed.

Lemma nf_loop_complete c x ty f r us : forall npu lns ur,
  In ur us -> nf_user_sends c x ty f r npu lns ur = true ->
  In (nfu_id ur) (fst (nf_loop c x ty f r us npu lns)).
Proof.
  induction us as [|a t IH]; intros npu lns ur HI HS; [contradiction|].
  rewrite nf_loop_cons. destruct (nf_user_sends c x ty f r npu lns a) eqn:E.
  - cbv zeta. cbn [fst]. destruct (Z.eq_dec (nfu_id a) (nfu_id ur)) as [Q|Q]; [left; assumption|right].
    destruct HI as [HI|HI]; [subst a; contradiction|].
    apply IH; [assumption|]. rewrite <- HS at 1. apply nf_user_sends_ext.
    + destruct (nf_type_eqb ty NfProblem); [|reflexivity]. rewrite nf_mem_add.
      assert (nfu_id a =? nfu_id ur = false) as N by lia. rewrite N. apply orb_false_r.
    + destruct (nf_type_eqb ty NfProblem); [|reflexivity]. apply nf_lns_get_upd_other. assumption.
  - destruct HI as [HI|HI]; [subst a; rewrite HS in E; discriminate|]. apply IH; assumption.
Qed.

Theorem nf_begin_forced c now x ty rem s :
  let e := snd (nf_begin c now x ty true rem s) in
  ne_reached e = true /\
  forall u, In u (ne_sent e) <-> exists ur, In ur (cx_users x) /\ nfu_id ur = u /\ nf_forced_ok c x ty rem s ur = true.
Proof.
  unfold nf_begin. cbn [nf_pre].
  set (s0 := if nf_type_eqb ty NfRecovery then nf_set_lns s [] else s).
  assert (nf_npu s0 = nf_npu s) as Hn by (unfold s0; destruct (nf_type_eqb ty NfRecovery); reflexivity).
  destruct (nf_loop c x ty true rem (cx_users x) (nf_npu s0) (nf_lns s0)) as [sent nl] eqn:L.
  cbn [snd ne_reached ne_sent nf_mk_exec]. split; [reflexivity|].
  intro u. split.
  - intro Hu. pose proof (nf_loop_sent c x ty true rem (cx_users x) (nf_npu s0) (nf_lns s0) u) as Hl.
    rewrite L in Hl. destruct (Hl Hu) as (ur & I1 & I2 & I3 & _ & I5).
    (* the user record that actually triggered the send satisfies the forced rule: re-derive through completeness *)
    clear Hl I5.
    revert Hu. pose proof (nf_loop_cons c x ty true rem) as _.
    intro Hu.
    assert (exists ur', In ur' (cx_users x) /\ nfu_id ur' = u /\
              nf_user_sends c x ty true rem (nf_npu s0) (nf_lns s0) ur' = true) as (ur' & J1 & J2 & J3).
    { clear I1 I2 I3 ur.
      assert (forall us npu lns, In u (fst (nf_loop c x ty true rem us npu lns)) ->
                exists ur', In ur' us /\ nfu_id ur' = u /\
                  nf_user_sends c x ty true rem (nf_npu s0) (nf_lns s0) ur' = true \/
                  (nf_mem u npu <> nf_mem u (nf_npu s0) \/ nf_lns_get u lns <> nf_lns_get u (nf_lns s0))) as Gen.
      { induction us as [|a t IH]; intros npu lns H; [contradiction|].
        rewrite nf_loop_cons in H. destruct (nf_user_sends c x ty true rem npu lns a) eqn:E.
        - cbv zeta in H. cbn [fst] in H.
          destruct (Z.eq_dec (nfu_id a) u) as [Q|Q].
          + destruct (Bool.bool_dec (nf_mem u npu) (nf_mem u (nf_npu s0))) as [M|M];
              [|exists a; right; left; assumption].
            destruct (Z.eq_dec (nf_lns_get u lns) (nf_lns_get u (nf_lns s0))) as [N|N];
              [|exists a; right; right; assumption].
            exists a. left. split; [left; reflexivity|split; [assumption|]].
            subst u. rewrite (nf_user_sends_ext c x ty true rem npu lns (nf_npu s0) (nf_lns s0) a); [exact E| |]; symmetry; assumption.
          + destruct H as [H|H]; [contradiction|].
            destruct (IH _ _ H) as (ur' & [(K1 & K2 & K3)|K]).
            * exists ur'. left. split; [right; assumption|split; assumption].
            * exists ur'. right.
              destruct (nf_type_eqb ty NfProblem); [|assumption].
              rewrite nf_mem_add in K. assert (nfu_id a =? u = false) as Nq by lia. rewrite Nq, orb_false_r in K.
              rewrite nf_lns_get_upd_other in K; assumption.
        - destruct (IH _ _ H) as (ur' & [(K1 & K2 & K3)|K]).
          + exists ur'. left. split; [right; assumption|split; assumption].
          + exists ur'. right. assumption. }
      pose proof (Gen (cx_users x) (nf_npu s0) (nf_lns s0)) as G0. rewrite L in G0.
      destruct (G0 Hu) as (ur' & [K|[K|K]]); [exists ur'; exact K|contradiction|contradiction]. }
    exists ur'. split; [assumption|split; [assumption|]].
    rewrite <- nf_user_sends_forced. fold s0. rewrite <- Hn. exact J3.
  - intros (ur & I1 & I2 & I3). subst u.
    pose proof (nf_loop_complete c x ty true rem (cx_users x) (nf_npu s0) (nf_lns s0) ur I1) as Hc.
    rewrite L in Hc. apply Hc. rewrite Hn. unfold s0. rewrite nf_user_sends_forced. exact I3.
Qed.

(* times.begin: exactly what a deferral does, from any state *)
Theorem nf_begin_deferred c now x ty force rem s :
  let r := nf_begin c now x ty force rem s in
  ne_deferred (snd r) = true ->
  ty = NfProblem /\ force = false /\ ne_sent (snd r) = [] /\ ne_reached (snd r) = false /\
  (exists b, nfc_begin c = Some b /\ 0 <= b /\ now < cx_lhsc x + b /\ nf_next (fst r) = cx_lhsc x + b + 1) /\
  nf_nomore (fst r) = false /\ nf_npu (fst r) = nf_npu s /\ nf_lns (fst r) = nf_lns s.
Proof.
  cbv zeta. unfold nf_begin. destruct (nf_pre c now x ty force) eqn:G; cbn [snd fst ne_deferred nf_mk_exec]; try discriminate.
  - destruct (nf_loop _ _ _ _ _ _ _ _). cbn. discriminate.
  - intros _. destruct (nf_pre_begin_defer _ _ _ _ _ G) as (Bc & Tp & Ff). subst ty.
    cbn [nf_type_eqb nf_type_bit Z.eqb Pos.eqb ne_sent ne_reached].
    repeat split; auto.
    apply andb_true_iff in Bc. destruct Bc as [B1 B2]. unfold nf_opt_active, nf_opt_val in *.
    destruct (nfc_begin c) as [b|]; [|discriminate]. exists b. repeat split; auto; lia.
Qed.

(* the reminder part of the timer handler, from any state *)
Theorem nf_tick_rem_conditions c now x s s' e :
  nf_tick_rem c now x s = (s', [NfEvExec e]) ->
  ne_type e = NfProblem /\ ne_reminder e = true /\ ne_force e = false /\
  nf_rem_ctx_ok c x = true /\ sp_problem (nf_sup s) = false /\ nf_next s <= now /\
  (nfc_interval c <= 0 -> nf_nomore s = false).
Proof.
  unfold nf_tick_rem.
  destruct ((nfc_interval c <=? 0) && nf_nomore s) eqn:Nm; [discriminate|].
  destruct (now <? nf_next s) eqn:Nx; [discriminate|].
  destruct (negb (cx_hard x)) eqn:Hh; [discriminate|].
  destruct (nf_api_state (nfc_svc c) (cx_raw x) =? 0) eqn:Hs; [discriminate|].
  destruct (cx_ck_supp_problem x || sp_problem (nf_sup (nf_set_next s (now + nfc_interval c)))) eqn:Hp; [discriminate|].
  destruct (negb (cx_reachable x) || cx_downtime x || cx_acked x || cx_flapping x) eqn:Hr; [discriminate|].
  destruct (nf_begin c now x NfProblem false true _) as [s2 e2] eqn:HB.
  intro H. inversion H; subst s' e2; clear H.
  assert (ne_type e = NfProblem /\ ne_reminder e = true /\ ne_force e = false) as (T1 & T2 & T3).
  { unfold nf_begin in HB. destruct (nf_pre _ _ _ _ _); try (inversion HB; subst; repeat split; reflexivity).
    destruct (nf_loop _ _ _ _ _ _ _ _). inversion HB; subst; repeat split; reflexivity. }
  repeat split; auto.
  - unfold nf_rem_ctx_ok. rewrite Hs. apply negb_false_iff in Hh. rewrite Hh.
    apply orb_false_iff in Hp. destruct Hp as [Hp _]. rewrite Hp.
    apply orb_false_iff in Hr. destruct Hr as [Hr Hr4]. apply orb_false_iff in Hr. destruct Hr as [Hr Hr3].
    apply orb_false_iff in Hr. destruct Hr as [Hr1 Hr2]. apply negb_false_iff in Hr1.
    rewrite Hr1, Hr2, Hr3, Hr4. reflexivity.
  - apply orb_false_iff in Hp. destruct Hp as [_ Hp]. exact Hp.
  - lia.
  - intro Hi. assert (nfc_interval c <=? 0 = true) as Ei by lia. rewrite Ei in Nm. exact Nm.
Qed.

(* ---------- witnesses of the recorded findings (the model follows the code) ---------- *)
Definition nf_w_user : nf_user := {| nfu_id := 1; nfu_enable := true; nfu_types := -1; nfu_states := -1; nfu_per_closed := false |}.
Definition nf_w_ok_cfg0 : nf_cfg :=
  {| nfc_svc := true; nfc_interval := 30; nfc_types := -1; nfc_states := -1; nfc_begin := None; nfc_end := None |}.
Definition nf_w_ctx (raw : Z) (acked : bool) : nf_ctx :=
  {| cx_users := [nf_w_user]; cx_raw := raw; cx_hard := true; cx_lhsc := 2000000000; cx_volatile := false;
     cx_glob_en := true; cx_ck_en := true; cx_downtime := false; cx_acked := acked; cx_reachable := true;
     cx_flapping := false; cx_ck_supp_problem := false; cx_paused := false; cx_ha := false; cx_auth := true;
     cx_per_closed := false; cx_has_cr := true; cx_cr_ok := raw =? 0; cx_soon := false |}.

(* F-C03-a (fixed): Notification.types without Recovery; Problem -> user 1; the Recovery is dropped by the type
   filter; the Acknowledgement of a later problem that user 1 was not notified about (acknowledged object,
   Problem never requested) *)
Definition nf_w_stale_cfg : nf_cfg :=
  {| nfc_svc := true; nfc_interval := 30; nfc_types := 511 - 64; nfc_states := -1; nfc_begin := None; nfc_end := None |}.
Definition nf_w_stale_hist : list nf_op :=
  [NfRequest 2000000000 (nf_w_ctx 2 false) NfProblem false;
   NfRequest 2000000010 (nf_w_ctx 0 false) NfRecovery false;
   NfRequest 2000000020 (nf_w_ctx 2 true) NfAck false].

(* with the fix c30b63e the Recovery dropped by the type filter clears notified_problem_users: the
   Acknowledgement of the next, unnotified problem reaches nobody and the oracle reports nothing *)
Lemma nf_stale_fixed :
  nf_oracle nf_w_stale_cfg (nf_model_trace nf_w_stale_cfg nf_init nf_w_stale_hist) = (None, None) /\
  map (fun p => snd p) (nf_run_points nf_w_stale_cfg nf_w_stale_hist) = [NfoDone NfProblem [1]; NfoClr; NfoDone NfAck []].
Proof. split; vm_compute; reflexivity. Qed.

(* the Recovery of user 1's incident is requested while notifications are disabled for the checkable: the request is
   dropped by Checkable::SendNotifications; the next problem's notification does not reach user 1 (user period
   closed); its Acknowledgement does *)
Definition nf_w_ctx_en (raw : Z) (acked cken uclosed : bool) : nf_ctx :=
  {| cx_users := [{| nfu_id := 1; nfu_enable := true; nfu_types := -1; nfu_states := -1; nfu_per_closed := uclosed |}];
     cx_raw := raw; cx_hard := true; cx_lhsc := 2000000000; cx_volatile := false;
     cx_glob_en := true; cx_ck_en := cken; cx_downtime := false; cx_acked := acked; cx_reachable := true;
     cx_flapping := false; cx_ck_supp_problem := false; cx_paused := false; cx_ha := false; cx_auth := true;
     cx_per_closed := false; cx_has_cr := true; cx_cr_ok := raw =? 0; cx_soon := false |}.
Definition nf_w_drop_hist : list nf_op :=
  [NfRequest 2000000000 (nf_w_ctx_en 2 false true false) NfProblem false;
   NfRequest 2000000010 (nf_w_ctx_en 0 false false false) NfRecovery false;
   NfRequest 2000000020 (nf_w_ctx_en 1 false true true) NfProblem false;
   NfRequest 2000000030 (nf_w_ctx_en 1 true true false) NfAck false].

(* with the fix b86ebcb the dropped Recovery request clears notified_problem_users: the Acknowledgement of the next,
   unnotified problem reaches nobody and the oracle reports nothing *)
Lemma nf_drop_fixed :
  nf_oracle nf_w_ok_cfg0 (nf_model_trace nf_w_ok_cfg0 nf_init nf_w_drop_hist) = (None, None) /\
  map (fun p => snd p) (nf_run_points nf_w_ok_cfg0 nf_w_drop_hist) =
    [NfoDone NfProblem [1]; NfoDone NfProblem []; NfoDone NfAck []].
Proof. split; vm_compute; reflexivity. Qed.

(* the gates of Checkable::SendNotifications and of the timer over the full operation, from any state *)
Theorem nf_request_gates c now x ty force s :
  (cx_glob_en x = false \/ cx_ck_en x = false) -> force = false ->
  nf_request c now x ty force s =
  (if nf_type_eqb ty NfRecovery && negb (cx_paused x) then nf_set_npu s [] else s, [NfEvDrop ty]).
Proof.
  intros [H|H] F; subst force; unfold nf_request; rewrite H; cbn [negb orb andb]; [reflexivity|].
  rewrite orb_true_r. reflexivity.
Qed.

Theorem nf_request_paused c now x ty force s :
  (cx_glob_en x = true /\ cx_ck_en x = true \/ force = true) -> cx_auth x = true -> cx_paused x = true ->
  nf_request c now x ty force s = (s, [NfEvDrop ty]).
Proof.
  intros G A P. unfold nf_request. rewrite A, P.
  assert ((negb (cx_glob_en x) || negb (cx_ck_en x)) && negb force = false) as E.
  { destruct G as [[G1 G2]|G]; [rewrite G1, G2; reflexivity|rewrite G; apply andb_false_r]. }
  rewrite E. reflexivity.
Qed.

Theorem nf_tick_gates c now x s :
  (cx_glob_en x = false \/ cx_ck_en x = false) \/ (cx_paused x = true /\ cx_ha x = true) ->
  snd (nf_tick c now x s) = [] /\
  nf_npu (fst (nf_tick c now x s)) = nf_npu s /\ nf_lns (fst (nf_tick c now x s)) = nf_lns s /\
  nf_next (fst (nf_tick c now x s)) = nf_next s /\ nf_nomore (fst (nf_tick c now x s)) = nf_nomore s /\
  nf_sup (fst (nf_tick c now x s)) = nf_sup s.
Proof.
  intro H. unfold nf_tick, nf_tick_pre.
  set (s1 := if cx_paused x && cx_auth x then match nf_stash s with _ :: _ => nf_set_stash s [] | [] => s end else s).
  assert (nf_npu s1 = nf_npu s /\ nf_lns s1 = nf_lns s /\ nf_next s1 = nf_next s /\ nf_nomore s1 = nf_nomore s /\ nf_sup s1 = nf_sup s) as Q.
  { unfold s1. destruct (cx_paused x && cx_auth x); [|repeat split]. destruct (nf_stash s); repeat split. }
  destruct (cx_paused x && cx_ha x) eqn:PH; [cbn [fst snd]; split; [reflexivity|exact Q]|].
  destruct (negb (cx_glob_en x) || negb (cx_ck_en x)) eqn:En; [cbn [fst snd]; split; [reflexivity|exact Q]|].
  exfalso. destruct H as [[H|H]|[H1 H2]].
  - rewrite H in En. discriminate.
  - rewrite H in En. rewrite orb_true_r in En. discriminate.
  - rewrite H1, H2 in PH. discriminate.
Qed.

(* F-C03-b: interval = 0; Problem sent (no_more_notifications = true); a DowntimeStart notification passes the
   filters and clears the flag; the next timer tick sends a reminder *)
Definition nf_w_nomore_cfg : nf_cfg :=
  {| nfc_svc := true; nfc_interval := 0; nfc_types := -1; nfc_states := -1; nfc_begin := None; nfc_end := None |}.
Definition nf_w_nomore_hist : list nf_op :=
  [NfRequest 2000000000 (nf_w_ctx 2 false) NfProblem false;
   NfRequest 2000000005 (nf_w_ctx 2 false) NfDowntimeStart false;
   NfTick 2000000010 (nf_w_ctx 2 false)].

Theorem nf_nomore_refuted :
  exists g oi sent,
    In (g, oi, NfoDone NfProblem sent) (nf_run_points nf_w_nomore_cfg nf_w_nomore_hist) /\
    oi_tick oi = true /\ oi_kp oi <= g_cnt g /\ sent = [1] /\
    nfc_interval nf_w_nomore_cfg <= 0 /\ g_ps g = true /\ nf_nomore_reset g = true /\
    snd (nf_oracle nf_w_nomore_cfg (nf_model_trace nf_w_nomore_cfg nf_init nf_w_nomore_hist)) = Some (2, 101).
Proof.
  eexists. eexists. exists [1]. split.
  - vm_compute. right. right. left. reflexivity.
  - repeat split; vm_compute; try reflexivity; discriminate.
Qed.

(* the tick in which the timer itself delivers the first Problem (withheld by the closed period, interval 0):
   exactly one Problem goes out, it is accounted for by the withheld type (oi_kp = 1), and a second Problem in
   the same tick would be classified as a reminder and rejected by the interval-0 clause *)
Definition nf_w_ctx_per (raw : Z) (closed : bool) : nf_ctx :=
  {| cx_users := [nf_w_user]; cx_raw := raw; cx_hard := true; cx_lhsc := 2000000000; cx_volatile := false;
     cx_glob_en := true; cx_ck_en := true; cx_downtime := false; cx_acked := false; cx_reachable := true;
     cx_flapping := false; cx_ck_supp_problem := false; cx_paused := false; cx_ha := false; cx_auth := true;
     cx_per_closed := closed; cx_has_cr := true; cx_cr_ok := raw =? 0; cx_soon := false |}.
Definition nf_w_timer_hist : list nf_op :=
  [NfRequest 2000000000 (nf_w_ctx_per 2 true) NfProblem false;
   NfTick 2000000010 (nf_w_ctx_per 2 false);
   NfTick 2000000020 (nf_w_ctx_per 2 false)].

Lemma nf_timer_first_problem :
  nf_oracle nf_w_nomore_cfg (nf_model_trace nf_w_nomore_cfg nf_init nf_w_timer_hist) = (None, None) /\
  map (fun p => (oi_kp (snd (fst p)), g_cnt (fst (fst p)), snd p)) (nf_run_points nf_w_nomore_cfg nf_w_timer_hist)
    = [(1, 0, NfoDone NfProblem [1])] /\
  (* what the observer says about an implementation that sends a second Problem in that tick *)
  fst (nf_oracle nf_w_nomore_cfg
        [{| os_op := NfRequest 2000000000 (nf_w_ctx_per 2 true) NfProblem false; os_evs := []; os_stash := [];
            os_sup_problem := true |};
         {| os_op := NfTick 2000000010 (nf_w_ctx_per 2 false); os_evs := [NfoDone NfProblem [1]; NfoDone NfProblem [1]];
            os_stash := []; os_sup_problem := false |}]) = Some (1, 6).
Proof. repeat split; vm_compute; reflexivity. Qed.

(* non-vacuity: a run in which every clause is exercised without touching a finding *)
Definition nf_w_ok_cfg : nf_cfg :=
  {| nfc_svc := true; nfc_interval := 30; nfc_types := -1; nfc_states := -1; nfc_begin := None; nfc_end := None |}.
Definition nf_w_ok_hist : list nf_op :=
  [NfRequest 2000000000 (nf_w_ctx 2 false) NfProblem false;
   NfTick 2000000030 (nf_w_ctx 2 false);
   NfRequest 2000000040 (nf_w_ctx 2 true) NfAck false;
   NfRequest 2000000050 (nf_w_ctx 0 false) NfRecovery false].

Lemma nf_nonvacuous :
  nf_oracle nf_w_ok_cfg (nf_model_trace nf_w_ok_cfg nf_init nf_w_ok_hist) = (None, None) /\
  map (fun p => snd p) (nf_run_points nf_w_ok_cfg nf_w_ok_hist) =
    [NfoDone NfProblem [1]; NfoDone NfProblem [1]; NfoDone NfAck [1]; NfoClr; NfoDone NfRecovery [1]].
Proof. split; vm_compute; reflexivity. Qed.

(* the constants of the model against the regenerated enum facts *)
From Icv Require Facts.Facts_enums.
Lemma nf_source_facts :
  nf_type_bit NfDowntimeStart = Facts_enums.f_NotificationDowntimeStart /\
  nf_type_bit NfDowntimeEnd = Facts_enums.f_NotificationDowntimeEnd /\
  nf_type_bit NfDowntimeRemoved = Facts_enums.f_NotificationDowntimeRemoved /\
  nf_type_bit NfCustom = Facts_enums.f_NotificationCustom /\
  nf_type_bit NfAck = Facts_enums.f_NotificationAcknowledgement /\
  nf_type_bit NfProblem = Facts_enums.f_NotificationProblem /\
  nf_type_bit NfRecovery = Facts_enums.f_NotificationRecovery /\
  nf_type_bit NfFlapStart = Facts_enums.f_NotificationFlappingStart /\
  nf_type_bit NfFlapEnd = Facts_enums.f_NotificationFlappingEnd /\
  map (nf_state_bit true) [0; 1; 2; 3] =
    [Facts_enums.f_StateFilterOK; Facts_enums.f_StateFilterWarning; Facts_enums.f_StateFilterCritical; Facts_enums.f_StateFilterUnknown] /\
  map (nf_state_bit false) [0; 1; 2; 3] =
    [Facts_enums.f_StateFilterUp; Facts_enums.f_StateFilterUp; Facts_enums.f_StateFilterDown; Facts_enums.f_StateFilterDown].
Proof. repeat split; reflexivity. Qed.
