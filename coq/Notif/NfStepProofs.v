(* C03: every operation (request, timer tick) preserves the observer invariant and passes the observer's
   checks; hence the oracle never reports an outright violation on a trace of the model. *)
From Icv Require Import Base.Tac Notif.NfModel Notif.NfObs Notif.NfProofs Notif.NfBeginProofs.
Local Open Scope Z_scope.

Lemma nf_obs_evs_app a b : nf_obs_evs (a ++ b) = nf_obs_evs a ++ nf_obs_evs b.
Proof. unfold nf_obs_evs. apply flat_map_app. Qed.

Lemma nf_g_evs_app c oi g a b : nf_g_evs c oi g (a ++ b) = nf_g_evs c oi (nf_g_evs c oi g a) b.
Proof. unfold nf_g_evs. apply fold_left_app. Qed.

Lemma nf_check_evs_app c oi a : forall g b,
  nf_check_evs c oi g (a ++ b) = nf_check_evs c oi g a ++ nf_check_evs c oi (nf_g_evs c oi g a) b.
Proof.
  induction a as [|e r IH]; intros g b; [reflexivity|].
  cbn [app nf_check_evs]. rewrite IH. reflexivity.
Qed.

Definition NfOk (c : nf_cfg) (oi : nf_opinfo) (g : nf_ghost) (evs : list nf_ev) : Prop :=
  forall v, In v (nf_check_evs c oi g (nf_obs_evs evs)) -> nf_is_bad v = false.

Definition NfGood (c : nf_cfg) (oi : nf_opinfo) (g : nf_ghost) (s' : nf_state) (evs : list nf_ev) : Prop :=
  NfOk c oi g evs /\ NfInvM c oi s' (nf_g_evs c oi g (nf_obs_evs evs)).

Lemma nf_good_nil c oi g s : NfInvM c oi s g -> NfGood c oi g s [].
Proof. intro H. split; [intros v []|exact H]. Qed.

Lemma nf_good_app c oi g s1 e1 s2 e2 :
  NfGood c oi g s1 e1 -> NfGood c oi (nf_g_evs c oi g (nf_obs_evs e1)) s2 e2 -> NfGood c oi g s2 (e1 ++ e2).
Proof.
  intros [O1 I1] [O2 I2]. split.
  - intros v Hv. rewrite nf_obs_evs_app, nf_check_evs_app in Hv. apply in_app_or in Hv. destruct Hv; auto.
  - rewrite nf_obs_evs_app, nf_g_evs_app. exact I2.
Qed.

Lemma nf_good_one c oi g s e :
  (forall v, In v (nf_check_evs c oi g (nf_obs_ev (NfEvExec e))) -> nf_is_bad v = false) ->
  NfInvM c oi s (nf_g_evs c oi g (nf_obs_ev (NfEvExec e))) -> NfGood c oi g s [NfEvExec e].
Proof.
  intros A B. unfold NfGood, NfOk, nf_obs_evs. cbn [flat_map]. rewrite app_nil_r. split; assumption.
Qed.

Lemma NfInvM_sup c oi s g v : NfInvM c oi s g -> NfInvM c oi (nf_set_sup s v) g.
Proof. intros ((A & B & C & D & E) & M & T). split; [|split; assumption]. repeat split; auto; apply D; assumption. Qed.

Lemma NfInvM_stash c oi s g l :
  NfInvM c oi s g -> Forall (fun h => sh_reminder h = false) l -> NfInvM c oi (nf_set_stash s l) g.
Proof. intros ((A & B & C & D & E) & M & T) F. split; [|split; assumption]. repeat split; auto; apply D; assumption. Qed.

Lemma nf_count_problem_nonneg l : 0 <= nf_count_problem l.
Proof. induction l as [|h r IH]; cbn [nf_count_problem]; [lia|]. destruct (nf_type_eqb (sh_type h) NfProblem); lia. Qed.

Section Ops.
Variables (c : nf_cfg) (oi : nf_opinfo).
Let now := oi_now oi.
Let x := oi_ctx oi.

(* stashed notifications are only re-sent by a tick; the Problem entries account for at most as many Problem sends *)
Lemma nf_unstash_ok l : forall s g s' evs,
  NfInvM c oi s g -> Forall (fun h => sh_reminder h = false) l ->
  (forall h, In h l -> sh_force h = true -> nf_mayforce oi (sh_type h) = true) ->
  g_cnt g + nf_count_problem l <= oi_kp oi ->
  oi_tick oi = true -> oi_pdefer oi = true -> cx_paused x && cx_ha x = false -> cx_glob_en x = true -> cx_ck_en x = true ->
  nf_unstash c now x l s = (s', evs) ->
  NfGood c oi g s' evs /\ nf_stash s' = nf_stash s /\
  g_cnt (nf_g_evs c oi g (nf_obs_evs evs)) <= g_cnt g + nf_count_problem l /\
  (cx_per_closed x = false -> nf_sup s' = nf_sup s).
Proof.
  induction l as [|h r IH]; intros s g s' evs HI HF HL HK Ht Hd Hph E1 E2 HU.
  - inversion HU; subst. split; [apply nf_good_nil; assumption|split; [reflexivity|split; [cbn; lia|auto]]].
  - cbn [nf_unstash] in HU.
    destruct (nf_begin c now x (sh_type h) (sh_force h) (sh_reminder h) s) as [s1 e] eqn:HB.
    destruct (nf_unstash c now x r s1) as [s2 evs2] eqn:HR.
    inversion HU; subst s' evs; clear HU.
    inversion HF as [|? ? Hh HFr]; subst.
    cbn [nf_count_problem] in HK. pose proof (nf_count_problem_nonneg r) as Hnn.
    assert (NfSide c oi (sh_type h) (sh_force h) (sh_reminder h) s g) as HS.
    { split; [intro F; apply HL; [left; reflexivity|exact F]|]. split; [intros _; split; assumption|].
      split; [intro F; rewrite F in Ht; discriminate|]. split; [intros _ _; exact Hd|]. split; [intros _; exact Hph|].
      intros _ Ep Hk. exfalso. rewrite Ep, nf_type_eqb_refl in HK. lia. }
    destruct (nf_begin_ok c oi _ _ _ s g s1 e HI HS HB) as (K1 & K2 & K3 & _ & K5).
    pose proof (nf_g_cnt_exec c oi g e) as (Kc1 & Kc2). cbv zeta in Kc1, Kc2. rewrite K5 in Kc2.
    set (g1 := nf_g_evs c oi g (nf_obs_ev (NfEvExec e))) in *.
    assert (forall h', In h' r -> sh_force h' = true -> nf_mayforce oi (sh_type h') = true) as HL' by (intros; apply HL; [right|]; assumption).
    assert (g_cnt g1 <= g_cnt g + (if nf_type_eqb (sh_type h) NfProblem then 1 else 0)) as Hc1.
    { destruct (nf_type_eqb (sh_type h) NfProblem) eqn:Ep; [lia|].
      rewrite Kc2; [lia|]. intro Q. rewrite Q in Ep. discriminate. }
    assert (g_cnt g1 + nf_count_problem r <= oi_kp oi) as HK' by lia.
    destruct (IH s1 g1 s2 evs2 K2 HFr HL' HK' Ht Hd Hph E1 E2 HR) as (G2 & St2 & Cn2 & Sp2).
    assert (nf_obs_evs (NfEvExec e :: evs2) = nf_obs_ev (NfEvExec e) ++ nf_obs_evs evs2) as Eo by reflexivity.
    split; [|split; [rewrite St2; assumption|split]].
    + apply (nf_good_app c oi g s1 [NfEvExec e] s2 evs2).
      * apply nf_good_one; assumption.
      * unfold nf_obs_evs at 1. cbn [flat_map]. rewrite app_nil_r. exact G2.
    + rewrite Eo, nf_g_evs_app. fold g1. cbn [nf_count_problem]. lia.
    + intro Po. rewrite (Sp2 Po). pose proof (nf_begin_sup c now x (sh_type h) (sh_force h) (sh_reminder h) s Po) as Q.
      rewrite HB in Q. exact Q.
Qed.

Lemma nf_fire_drop_problem tys : forall st sub,
  sp_problem (fst (nf_fire_drop x tys st sub)) = true -> sp_problem st = true.
Proof.
  induction tys as [|ty r IH]; intros st sub H; [assumption|].
  cbn [nf_fire_drop] in H. destruct (nf_supp_has st ty && negb (nf_reason_applies x ty)).
  - apply IH in H. cbn in H. apply andb_true_iff in H. destruct H. assumption.
  - apply IH in H. assumption.
Qed.

Lemma nf_fire_drop_cons ty r st sub :
  nf_fire_drop x (ty :: r) st sub =
  if nf_supp_has st ty && negb (nf_reason_applies x ty)
  then nf_fire_drop x r (nf_supp_minus st (nf_supp_ins nf_supp_none ty)) (nf_supp_ins sub ty)
  else nf_fire_drop x r st sub.
Proof. reflexivity. Qed.

Lemma nf_fire_drop_applies st sub :
  sp_problem (fst (nf_fire_drop x nf_fire_types st sub)) = true -> nf_reason_applies x NfProblem = true.
Proof.
  unfold nf_fire_types. rewrite nf_fire_drop_cons. intro H.
  destruct (nf_supp_has st NfProblem && negb (nf_reason_applies x NfProblem)) eqn:Q.
  - apply nf_fire_drop_problem in H. cbn in H. rewrite andb_false_r in H. discriminate.
  - apply nf_fire_drop_problem in H. cbn [nf_supp_has] in Q. rewrite H in Q. cbn in Q.
    apply negb_false_iff in Q. exact Q.
Qed.

Lemma nf_fire_loop_ok st tys : forall s sub g s' sub' evs,
  NfInvM c oi s g -> NoDup tys ->
  (In NfProblem tys -> sp_problem st = true -> g_cnt g < oi_kp oi) ->
  oi_tick oi = true -> oi_pdefer oi = true -> cx_paused x && cx_ha x = false -> cx_glob_en x = true -> cx_ck_en x = true ->
  nf_fire_loop c now x st tys s sub = (s', sub', evs) ->
  NfGood c oi g s' evs /\ nf_stash s' = nf_stash s.
Proof.
  induction tys as [|ty r IH]; intros s sub g s' sub' evs HI HN HP Ht Hd Hph E1 E2 HF.
  - inversion HF; subst. split; [apply nf_good_nil; assumption|reflexivity].
  - inversion HN as [|? ? Hni HNr]; subst. cbn [nf_fire_loop] in HF.
    destruct (negb (nf_supp_has st ty) || nf_reason_suppressed x ty) eqn:Sk.
    + assert (In NfProblem r -> sp_problem st = true -> g_cnt g < oi_kp oi) as HPr by (intros Hi; apply HP; right; assumption).
      exact (IH _ _ _ _ _ _ HI HNr HPr Ht Hd Hph E1 E2 HF).
    + apply orb_false_iff in Sk. destruct Sk as [Sh _]. apply negb_false_iff in Sh.
      set (s1 := nf_set_sup s (nf_supp_minus (nf_sup s) (nf_supp_ins sub ty))) in *.
      destruct (nf_begin c now x ty false false s1) as [s2 e] eqn:HB.
      destruct (nf_fire_loop c now x st r s2 nf_supp_none) as [[s3 sub3] evs3] eqn:HR.
      inversion HF; subst s' sub' evs; clear HF.
      assert (NfInvM c oi s1 g) as HI1 by (apply NfInvM_sup; assumption).
      assert (NfSide c oi ty false false s1 g) as HS.
      { split; [discriminate|]. split; [intros _; split; assumption|].
        split; [intro F; rewrite F in Ht; discriminate|]. split; [intros _ _; exact Hd|]. split; [intros _; exact Hph|].
        intros _ Ep Hk. exfalso. subst ty. cbn in Sh. pose proof (HP (or_introl eq_refl) Sh). lia. }
      destruct (nf_begin_ok c oi _ _ _ s1 g s2 e HI1 HS HB) as (K1 & K2 & K3 & _ & K5).
      pose proof (nf_g_cnt_exec c oi g e) as (_ & Kc2). cbv zeta in Kc2. rewrite K5 in Kc2.
      assert (In NfProblem r -> sp_problem st = true -> g_cnt (nf_g_evs c oi g (nf_obs_ev (NfEvExec e))) < oi_kp oi) as HP'.
      { intros Hi Hs. assert (ty <> NfProblem) as Nq by (intro Q; apply Hni; rewrite Q; exact Hi).
        rewrite (Kc2 Nq). apply HP; [right; assumption|assumption]. }
      destruct (IH _ _ _ _ _ _ K2 HNr HP' Ht Hd Hph E1 E2 HR) as [G3 St3].
      split; [|rewrite St3, K3; reflexivity].
      apply (nf_good_app c oi g s2 [NfEvExec e] s3 evs3).
      * apply nf_good_one; assumption.
      * unfold nf_obs_evs. cbn [flat_map]. rewrite app_nil_r. exact G3.
Qed.

Lemma nf_fire_ok s g s' evs :
  NfInvM c oi s g ->
  (cx_per_closed x = false -> sp_problem (nf_sup s) = true -> nf_reason_applies x NfProblem = true -> g_cnt g < oi_kp oi) ->
  oi_tick oi = true -> oi_pdefer oi = true -> cx_paused x && cx_ha x = false -> cx_glob_en x = true -> cx_ck_en x = true ->
  nf_fire c now x s = (s', evs) ->
  NfGood c oi g s' evs /\ nf_stash s' = nf_stash s.
Proof.
  intros HI HP Ht Hd Hph E1 E2 HF. unfold nf_fire in HF.
  destruct (nf_supp_empty (nf_sup s)).
  { inversion HF; subst. split; [apply nf_good_nil; assumption|reflexivity]. }
  destruct (nf_fire_drop x nf_fire_types (nf_sup s) nf_supp_none) as [st sub] eqn:HD.
  destruct (negb (nf_supp_empty st) && negb (cx_per_closed x) && negb (cx_soon x)) eqn:Cond.
  - assert (cx_per_closed x = false) as Po.
    { apply andb_true_iff in Cond. destruct Cond as [Cond _]. apply andb_true_iff in Cond. destruct Cond as [_ Cond].
      apply negb_true_iff in Cond. exact Cond. }
    assert (In NfProblem nf_fire_types -> sp_problem st = true -> g_cnt g < oi_kp oi) as HP'.
    { intros _ P. apply HP; [exact Po| |].
      - pose proof (nf_fire_drop_problem nf_fire_types (nf_sup s) nf_supp_none) as Q. rewrite HD in Q. exact (Q P).
      - pose proof (nf_fire_drop_applies (nf_sup s) nf_supp_none) as Q. rewrite HD in Q. exact (Q P). }
    assert (NoDup nf_fire_types) as ND.
    { unfold nf_fire_types. repeat constructor; cbn; intuition discriminate. }
    destruct (nf_fire_loop c now x st nf_fire_types s sub) as [[s1 sub1] evs1] eqn:HL.
    destruct (nf_fire_loop_ok st nf_fire_types _ _ _ _ _ _ HI ND HP' Ht Hd Hph E1 E2 HL) as [[G1 G2] St].
    inversion HF; subst s' evs; clear HF.
    destruct (nf_supp_empty sub1); [split; [split|]; assumption|].
    split; [split; [assumption|apply NfInvM_sup; assumption]|assumption].
  - inversion HF; subst s' evs; clear HF.
    destruct (nf_supp_empty sub); [split; [apply nf_good_nil; assumption|reflexivity]|].
    split; [apply nf_good_nil; apply NfInvM_sup; assumption|reflexivity].
Qed.

Lemma NfInvM_next s g : NfInvM c oi s g -> NfInvM c oi (nf_set_next s (now + nfc_interval c)) g.
Proof.
  intros ((A & B & C & D & E) & M & T). split; [|split; assumption].
  repeat split; auto; destruct (D t H) as [D1 D2]; [assumption|].
  intros _. cbn. rewrite T in D1. fold now in D1. lia.
Qed.

Lemma nf_tick_rem_ok s g s' evs :
  NfInvM c oi s g -> oi_tick oi = true -> oi_pdefer oi = true -> cx_paused x && cx_ha x = false ->
  cx_glob_en x = true -> cx_ck_en x = true ->
  nf_tick_rem c now x s = (s', evs) ->
  NfGood c oi g s' evs /\ nf_stash s' = nf_stash s.
Proof.
  intros HI Ht Hd Hph E1 E2 HR. unfold nf_tick_rem in HR.
  destruct ((nfc_interval c <=? 0) && nf_nomore s) eqn:Nm.
  { inversion HR; subst. split; [apply nf_good_nil; assumption|reflexivity]. }
  destruct (now <? nf_next s) eqn:Nx.
  { inversion HR; subst. split; [apply nf_good_nil; assumption|reflexivity]. }
  pose proof (NfInvM_next s g HI) as HI1.
  set (s1 := nf_set_next s (now + nfc_interval c)) in *.
  destruct (negb (cx_hard x)) eqn:Hh.
  { inversion HR; subst. split; [apply nf_good_nil; assumption|reflexivity]. }
  destruct (nf_api_state (nfc_svc c) (cx_raw x) =? 0) eqn:Hs.
  { inversion HR; subst. split; [apply nf_good_nil; assumption|reflexivity]. }
  destruct (cx_ck_supp_problem x || sp_problem (nf_sup s1)) eqn:Hp.
  { inversion HR; subst. split; [apply nf_good_nil; assumption|reflexivity]. }
  destruct (negb (cx_reachable x) || cx_downtime x || cx_acked x || cx_flapping x) eqn:Hr.
  { inversion HR; subst. split; [apply nf_good_nil; assumption|reflexivity]. }
  destruct (nf_begin c now x NfProblem false true s1) as [s2 e] eqn:HB.
  inversion HR; subst s' evs; clear HR.
  assert (NfSide c oi NfProblem false true s1 g) as HS.
  { split; [discriminate|]. split; [auto|]. split; [intro F; rewrite F in Ht; discriminate|].
    split; [intros _ _; exact Hd|]. split; [intros _; exact Hph|].
    intros _ _ _. split; [|split].
    - unfold nf_rem_ctx_ok. fold x. rewrite Hs.
      apply negb_false_iff in Hh. rewrite Hh.
      apply orb_false_iff in Hp. destruct Hp as [Hp _]. rewrite Hp.
      apply orb_false_iff in Hr. destruct Hr as [Hr Hr4]. apply orb_false_iff in Hr. destruct Hr as [Hr Hr3].
      apply orb_false_iff in Hr. destruct Hr as [Hr1 Hr2]. apply negb_false_iff in Hr1.
      rewrite Hr1, Hr2, Hr3, Hr4. reflexivity.
    - intros t Hg. destruct HI as ((A & B & C & D & E) & M & T).
      destruct (D t Hg) as [D1 D2]. rewrite T in D1. fold now in D1.
      destruct (Z.lt_ge_cases 0 (nfc_interval c)) as [Hi|Hi]; [specialize (D2 Hi)|]; lia.
    - intros Hi. cbn. assert (nfc_interval c <=? 0 = true) as Ei by lia. rewrite Ei in Nm. exact Nm. }
  destruct (nf_begin_ok c oi _ _ _ s1 g s2 e HI1 HS HB) as (K1 & K2 & K3 & _ & _).
  split; [apply nf_good_one; assumption|rewrite K3; reflexivity].
Qed.
End Ops.

Lemma nf_g_start_inv c oi s g :
  NfInv c s g -> NfInvM c oi (if oi_recdrop oi then nf_set_npu s [] else s) (nf_g_start c oi g).
Proof.
  intros (A & B & C & D & E). unfold nf_g_start. apply nf_mask_inv; [|reflexivity].
  destruct (oi_recdrop oi); unfold NfInv; cbn [g_inc g_pre g_last g_ps g_bad g_rem g_tm g_cnt nf_mkg nf_npu nf_lns nf_next nf_nomore nf_stash nf_set_npu].
  - split; [reflexivity|]. split; [exact B|]. split; [intros; discriminate|]. split; [|exact E].
    intros t H. destruct (oi_now oi <? g_tm g) eqn:L; [discriminate|]. destruct (D t H). split; [lia|assumption].
  - split; [exact A|]. split; [exact B|]. split; [exact C|]. split; [|exact E].
    intros t H. destruct (oi_now oi <? g_tm g) eqn:L; [discriminate|]. destruct (D t H). split; [lia|assumption].
Qed.

Lemma nf_mayforce_stash st now x h :
  In h st -> sh_force h = true -> nf_mayforce (nf_opinfo_of st false (NfTick now x)) (sh_type h) = true.
Proof.
  intros Hi Hf. unfold nf_mayforce. cbn [oi_forced nf_opinfo_of]. apply existsb_exists.
  exists (sh_type h). split; [|apply nf_type_eqb_refl].
  apply in_map. apply filter_In. split; assumption.
Qed.

Lemma nf_count_problem_incl l1 l2 : l1 = l2 \/ l1 = [] -> nf_count_problem l1 <= nf_count_problem l2.
Proof.
  intros [H|H]; subst l1.
  - lia.
  - cbn [nf_count_problem]. apply nf_count_problem_nonneg.
Qed.

Lemma nf_tick_ok c s g now x s' evs :
  let oi := nf_opinfo_st s (NfTick now x) in
  NfInvM c oi s g -> g_cnt g = 0 -> nf_tick c now x s = (s', evs) -> NfGood c oi g s' evs.
Proof.
  intros oi HI Hc0 HT. unfold nf_tick, nf_tick_pre in HT.
  assert (oi_tick oi = true) as Ht by reflexivity.
  assert (oi_pdefer oi = true) as Hd by reflexivity.
  assert (oi_kp oi = nf_count_problem (nf_stash s) +
          (if sp_problem (nf_sup s) && nf_reason_applies x NfProblem then 1 else 0)) as Hkp by reflexivity.
  set (s1 := if cx_paused x && cx_auth x then match nf_stash s with _ :: _ => nf_set_stash s [] | [] => s end else s) in *.
  assert (NfInvM c oi s1 g) as HI1.
  { unfold s1. destruct (cx_paused x && cx_auth x); [|assumption].
    destruct (nf_stash s); [assumption|]. apply NfInvM_stash; [assumption|constructor]. }
  assert (nf_stash s1 = nf_stash s \/ nf_stash s1 = []) as Hst.
  { unfold s1. destruct (cx_paused x && cx_auth x); [|left; reflexivity].
    destruct (nf_stash s) eqn:Q; [left; exact Q|right; reflexivity]. }
  assert (nf_sup s1 = nf_sup s) as Hsup.
  { unfold s1. destruct (cx_paused x && cx_auth x); [|reflexivity]. destruct (nf_stash s); reflexivity. }
  destruct (cx_paused x && cx_ha x) eqn:Hph.
  { inversion HT; subst. apply nf_good_nil. assumption. }
  destruct (negb (cx_glob_en x) || negb (cx_ck_en x)) eqn:En.
  { inversion HT; subst. apply nf_good_nil. assumption. }
  apply orb_false_iff in En. destruct En as [E1 E2]. apply negb_false_iff in E1, E2.
  destruct (cx_reachable x).
  - destruct (nf_unstash c now x (nf_stash s1) (nf_set_stash s1 [])) as [sa ea] eqn:HU.
    destruct (nf_fire c now x sa) as [sb eb] eqn:HF.
    destruct (nf_tick_rem c now x sb) as [s3 evs3] eqn:HR.
    inversion HT; subst s' evs; clear HT.
    assert (NfInvM c oi (nf_set_stash s1 []) g) as HI2 by (apply NfInvM_stash; [assumption|constructor]).
    assert (Forall (fun h => sh_reminder h = false) (nf_stash s1)) as HFs by (destruct HI1 as ((_ & _ & _ & _ & E) & _); exact E).
    assert (forall h, In h (nf_stash s1) -> In h (nf_stash s)) as Sub.
    { intros h Hi. destruct Hst as [Q|Q]; rewrite Q in Hi; [assumption|contradiction]. }
    assert (forall h, In h (nf_stash s1) -> sh_force h = true -> nf_mayforce oi (sh_type h) = true) as HL.
    { intros h Hi Hf. apply (nf_mayforce_stash (nf_stash s) now x h); [apply Sub|]; assumption. }
    pose proof (nf_count_problem_incl _ _ Hst) as Hci.
    assert (g_cnt g + nf_count_problem (nf_stash s1) <= oi_kp oi) as HK.
    { rewrite Hkp, Hc0. destruct (sp_problem (nf_sup s) && nf_reason_applies x NfProblem); lia. }
    destruct (nf_unstash_ok c oi (nf_stash s1) _ g sa ea HI2 HFs HL HK Ht Hd Hph E1 E2 HU) as ([Ga1 Ga2] & Sa & Cna & Spa).
    assert (cx_per_closed x = false -> sp_problem (nf_sup sa) = true -> nf_reason_applies x NfProblem = true ->
            g_cnt (nf_g_evs c oi g (nf_obs_evs ea)) < oi_kp oi) as HP.
    { intros Po P Ra. rewrite (Spa Po) in P. cbn [nf_sup nf_set_stash] in P. rewrite Hsup in P.
      rewrite Hkp, P, Ra. cbn [andb]. lia. }
    destruct (nf_fire_ok c oi sa _ sb eb Ga2 HP Ht Hd Hph E1 E2 HF) as [[Gb1 Gb2] Sb].
    destruct (nf_tick_rem_ok c oi sb _ s3 evs3 Gb2 Ht Hd Hph E1 E2 HR) as [Gr Sr].
    apply (nf_good_app c oi g sb (ea ++ eb) s3 evs3).
    + apply (nf_good_app c oi g sa ea sb eb); split; assumption.
    + rewrite nf_obs_evs_app, nf_g_evs_app. exact Gr.
  - destruct (nf_tick_rem c now x s1) as [s3 evs3] eqn:HR.
    inversion HT; subst s' evs; clear HT.
    destruct (nf_tick_rem_ok c oi s1 g s3 evs3 HI1 Ht Hd Hph E1 E2 HR) as [Gr Sr]. exact Gr.
Qed.

Lemma nf_request_ok c s g now x ty force s' evs :
  let oi := nf_opinfo_st s (NfRequest now x ty force) in
  NfInvM c oi s g -> oi_recdrop oi = false -> nf_request c now x ty force s = (s', evs) -> NfGood c oi g s' evs.
Proof.
  intros oi HI Hrd HR. unfold nf_request in HR.
  assert (forall st, NfInvM c oi st g -> NfGood c oi g st [NfEvDrop ty]) as Drop.
  { intros st H. split; [intros v []|exact H]. }
  assert (NfInvM c oi (nf_set_stash s (nf_stash s ++ [nf_mk_stashed ty force])) g) as Stash.
  { apply NfInvM_stash; [assumption|]. destruct HI as ((_ & _ & _ & _ & E) & _).
    apply Forall_app. split; [assumption|]. constructor; [reflexivity|constructor]. }
  destruct ((negb (cx_glob_en x) || negb (cx_ck_en x)) && negb force) eqn:En.
  { assert (nf_type_eqb ty NfRecovery && negb (cx_paused x) = false) as Q.
    { unfold oi, nf_opinfo_st, nf_opinfo_of in Hrd. cbn [oi_recdrop] in Hrd.
      apply andb_true_iff in En. destruct En as [En1 En2]. rewrite En1, En2 in Hrd.
      destruct (nf_type_eqb ty NfRecovery); destruct (negb (cx_paused x)); cbn in Hrd; try reflexivity; discriminate. }
    rewrite Q in HR. inversion HR; subst. apply Drop. assumption. }
  destruct (cx_auth x).
  - destruct (negb (cx_paused x)).
    + destruct (nf_stash s) eqn:St.
      * destruct (nf_begin c now x ty force false s) as [s1 e] eqn:HB.
        inversion HR; subst s' evs; clear HR.
        assert (NfSide c oi ty force false s g) as HS.
        { assert (nf_mayforce oi ty = force) as Mf.
          { unfold nf_mayforce, oi, nf_opinfo_st, nf_opinfo_of. cbn [oi_forced]. destruct force; cbn [existsb]; [|reflexivity].
            rewrite nf_type_eqb_refl. reflexivity. }
          split; [intro F; rewrite Mf; exact F|]. split; [|split; [intros _; split; [reflexivity|exact Mf]|split; [|split]]].
          - intro F. rewrite F in En. cbn in En. rewrite andb_true_r in En.
            apply orb_false_iff in En. destruct En as [A B]. apply negb_false_iff in A, B. split; assumption.
          - intros Ep Ff. unfold oi, nf_opinfo_st, nf_opinfo_of. cbn [oi_pdefer]. rewrite Ep, Ff. reflexivity.
          - intro F; discriminate.
          - intro F; discriminate. }
        destruct (nf_begin_ok c oi _ _ _ s g s1 e HI HS HB) as (K1 & K2 & _).
        apply nf_good_one; assumption.
      * inversion HR; subst. apply nf_good_nil. exact Stash.
    + inversion HR; subst. apply Drop. assumption.
  - inversion HR; subst. apply nf_good_nil. assumption.
Qed.

Lemma nf_step_ok c s g o s' evs :
  let oi := nf_opinfo_st s o in
  NfInv c s g -> nf_step c s o = (s', evs) ->
  NfOk c oi (nf_g_start c oi g) evs /\ NfInv c s' (nf_g_evs c oi (nf_g_start c oi g) (nf_obs_evs evs)).
Proof.
  intros oi HI HS. pose proof (nf_g_start_inv c oi s g HI) as HM.
  destruct o as [now x ty force|now x]; cbn [nf_step] in HS.
  - destruct (oi_recdrop oi) eqn:Hrd.
    + (* a Recovery requested while notifications are disabled: dropped whole, the incident set is cleared *)
      assert (nf_request c now x ty force s = (nf_set_npu s [], [NfEvDrop ty])) as Q.
      { unfold oi, nf_opinfo_st, nf_opinfo_of in Hrd. cbn [oi_recdrop] in Hrd.
        apply andb_true_iff in Hrd. destruct Hrd as [Hrd P]. apply andb_true_iff in Hrd. destruct Hrd as [Hrd Dis].
        apply andb_true_iff in Hrd. destruct Hrd as [Er Nf].
        unfold nf_request. rewrite Dis, Nf, Er, P. reflexivity. }
      rewrite Q in HS. inversion HS; subst s' evs.
      split; [intros v []|]. destruct HM as (HM & _). exact HM.
    + destruct (nf_request_ok c s _ now x ty force s' evs HM Hrd HS) as [A (B & _)]. split; assumption.
  - assert (oi_recdrop oi = false) as Hrd by reflexivity. rewrite Hrd in HM.
    assert (g_cnt (nf_g_start c oi g) = 0) as Hc0 by (unfold nf_g_start; rewrite nf_g_cnt_mask; reflexivity).
    destruct (nf_tick_ok c s _ now x s' evs HM Hc0 HS) as [A (B & _)]. split; assumption.
Qed.

Lemma nf_init_inv c : NfInv c nf_init nf_ghost0.
Proof. repeat split; cbn; auto; discriminate. Qed.

Lemma nf_find_none (p : nf_verdict -> bool) l : (forall v, In v l -> p v = false) -> find p l = None.
Proof.
  induction l as [|a r IH]; intro H; [reflexivity|]. cbn [find].
  rewrite (H a (or_introl eq_refl)). apply IH. intros v Hv. apply H. right. assumption.
Qed.

Lemma nf_model_no_bad c h : forall s g idx,
  NfInv c s g ->
  nf_first nf_is_bad idx (nf_verdicts c g (nf_stash s) (sp_problem (nf_sup s)) (nf_model_trace c s h)) = None.
Proof.
  induction h as [|o r IH]; intros s g idx HI; [reflexivity|].
  cbn [nf_model_trace]. destruct (nf_step c s o) as [s' evs] eqn:HS.
  cbn [nf_verdicts os_op os_evs os_stash os_sup_problem nf_first].
  destruct (nf_step_ok c s g o s' evs HI HS) as [A B].
  fold (nf_opinfo_st s o).
  rewrite (nf_find_none nf_is_bad _ A). apply IH. exact B.
Qed.

(* the oracle never reports an outright violation on a trace the model can produce *)
Theorem nf_oracle_accepts_model c h : fst (nf_oracle c (nf_model_trace c nf_init h)) = None.
Proof. unfold nf_oracle. cbn [fst]. apply (nf_model_no_bad c h nf_init nf_ghost0 0). apply nf_init_inv. Qed.
