(* C03: one BeginExecuteNotification call preserves the observer invariant and passes the observer's checks
   (up to the two recorded findings). *)
From Icv Require Import Base.Tac Notif.NfModel Notif.NfObs Notif.NfProofs.
Local Open Scope Z_scope.

(* the observer's bookkeeping agrees with the notification's state *)
Definition NfInv (c : nf_cfg) (s : nf_state) (g : nf_ghost) : Prop :=
  g_inc g = nf_npu s /\ g_last g = nf_lns s /\
  (g_ps g = true -> g_bad g = false -> nfc_interval c <= 0 -> nf_nomore s = true) /\
  (forall t, g_rem g = Some t -> t <= g_tm g /\ (0 < nfc_interval c -> t + nfc_interval c <= nf_next s)) /\
  Forall (fun h => sh_reminder h = false) (nf_stash s).

Definition NfMasked (c : nf_cfg) (oi : nf_opinfo) (g : nf_ghost) : Prop :=
  nf_may_defer c oi = true -> g_ps g = false /\ g_rem g = None.

Definition NfInvM (c : nf_cfg) (oi : nf_opinfo) (s : nf_state) (g : nf_ghost) : Prop :=
  NfInv c s g /\ NfMasked c oi g /\ g_tm g = oi_now oi.

Lemma nf_mask_inv c oi s g : NfInv c s g -> g_tm g = oi_now oi -> NfInvM c oi s (nf_g_mask c oi g).
Proof.
  intros (A & B & C & D & E) T. unfold NfInvM, NfMasked, nf_g_mask.
  destruct (nf_may_defer c oi) eqn:M.
  - split; [|split; [intros _; split; reflexivity|assumption]].
    repeat split; cbn; auto; try discriminate.
  - split; [repeat split; auto|split; [discriminate|assumption]].
    all: apply D; assumption.
Qed.

Lemma nf_pre_go_unforced c now x ty :
  nf_pre c now x ty false = NfGo ->
  cx_per_closed x = false /\ nf_passes (nfc_types c) (nf_type_bit ty) = true /\
  (nf_type_eqb ty NfProblem = true ->
   nf_passes (nfc_states c) (nf_state_bit (nfc_svc c) (cx_raw x)) = true /\ nf_times_open c now x = true).
Proof.
  unfold nf_pre, nf_times_open.
  destruct (cx_per_closed x); [discriminate|].
  destruct (nf_type_eqb ty NfProblem); cbn [andb].
  - destruct (nf_opt_active (nfc_begin c) && (now <? cx_lhsc x + nf_opt_val (nfc_begin c))); [discriminate|].
    destruct (nf_opt_active (nfc_end c) && (cx_lhsc x + nf_opt_val (nfc_end c) <? now)); [discriminate|].
    destruct (nf_passes (nfc_types c) (nf_type_bit ty)); cbn [negb]; [|discriminate].
    destruct (nf_passes (nfc_states c) (nf_state_bit (nfc_svc c) (cx_raw x))); cbn [negb]; [|discriminate].
    intros _. repeat split.
  - destruct (nf_passes (nfc_types c) (nf_type_bit ty)); cbn [negb]; [|discriminate].
    intros _. repeat split; discriminate.
Qed.

Lemma nf_full_ok_intro c now x ty u :
  nf_pre c now x ty false = NfGo -> nf_user_filters c x ty false u = true ->
  cx_glob_en x = true -> cx_ck_en x = true -> nf_full_ok c now x ty u = true.
Proof.
  intros G F E1 E2. apply nf_pre_go_unforced in G. destruct G as (P & T & S).
  unfold nf_user_filters in F. unfold nf_full_ok. rewrite E1, E2, P, T. cbn [andb negb].
  destruct (nfu_per_closed u); [discriminate|].
  destruct (nf_passes (nfu_types u) (nf_type_bit ty)); cbn [negb] in *; [|discriminate].
  cbn [andb].
  assert ((if nf_type_eqb ty NfRecovery then true else nf_passes (nfu_states u) (nf_state_bit (nfc_svc c) (cx_raw x))) = true) as U.
  { destruct (nf_type_eqb ty NfRecovery); [reflexivity|]. cbn [negb andb] in F.
    destruct (nf_passes (nfu_states u) (nf_state_bit (nfc_svc c) (cx_raw x))); [reflexivity|discriminate]. }
  rewrite U. destruct (nf_type_eqb ty NfProblem); [|reflexivity].
  destruct (S eq_refl) as [S1 S2]. rewrite S1, S2. reflexivity.
Qed.

Lemma nf_pre_begin_defer c now x ty force :
  nf_pre c now x ty force = NfGBegin ->
  (nf_opt_active (nfc_begin c) && (now <? cx_lhsc x + nf_opt_val (nfc_begin c))) = true /\ ty = NfProblem /\ force = false.
Proof.
  unfold nf_pre. destruct force; [discriminate|]. destruct (cx_per_closed x); [discriminate|].
  destruct (nf_type_eqb ty NfProblem) eqn:E; cbn [andb].
  - apply nf_type_eqb_eq in E.
    destruct (nf_opt_active (nfc_begin c) && (now <? cx_lhsc x + nf_opt_val (nfc_begin c))); [auto|].
    destruct (nf_opt_active (nfc_end c) && _); [discriminate|].
    destruct (negb _); [discriminate|]. destruct (negb _); discriminate.
  - destruct (negb _); discriminate.
Qed.

Lemma nf_pre_problem_only c now x ty force :
  nf_type_eqb ty NfProblem = false ->
  nf_pre c now x ty force = NfGo \/ nf_pre c now x ty force = NfGPeriod \/ nf_pre c now x ty force = NfGType.
Proof.
  intro E. unfold nf_pre. rewrite E. cbn [andb]. destruct force; [auto|].
  destruct (cx_per_closed x); [auto|]. destruct (negb _); auto.
Qed.

Lemma nf_pre_problem_gate c now x ty force :
  nf_pre c now x ty force = NfGEnd \/ nf_pre c now x ty force = NfGState -> nf_type_eqb ty NfProblem = true.
Proof.
  intro H. destruct (nf_type_eqb ty NfProblem) eqn:E; [reflexivity|].
  destruct (nf_pre_problem_only c now x ty force E) as [Q|[Q|Q]]; rewrite Q in H; destruct H; discriminate.
Qed.

Lemma nf_pre_type c now x ty force : nf_pre c now x ty force = NfGType -> cx_per_closed x = false /\ force = false.
Proof.
  unfold nf_pre. destruct force; [discriminate|]. destruct (cx_per_closed x); [discriminate|]. auto.
Qed.

Lemma nf_supp_add_problem sp ty : ty <> NfProblem -> sp_problem (nf_supp_add sp ty) = true -> sp_problem sp = true.
Proof.
  intro N. unfold nf_supp_add.
  destruct ty; try contradiction; destruct sp as [a b c' d]; cbn;
    repeat (match goal with |- context [if ?b then _ else _] => destruct b; cbn end); auto; discriminate.
Qed.

Lemma nf_pre_period c now x ty force : nf_pre c now x ty force = NfGPeriod -> cx_per_closed x = true /\ force = false.
Proof.
  unfold nf_pre. destruct force; [discriminate|]. destruct (cx_per_closed x); [auto|].
  destruct (_ && _ && _); [discriminate|]. destruct (_ && _ && _); [discriminate|].
  destruct (negb _); [discriminate|]. destruct (_ && _); discriminate.
Qed.

(* ghost folds over the recipients *)
Lemma nf_add_all_cons u r l : nf_add_all (u :: r) l = nf_add_all r (nf_npu_add u l).
Proof. reflexivity. Qed.

Lemma nf_mem_add_all k sent : forall l, nf_mem k l = true -> nf_mem k (nf_add_all sent l) = true.
Proof.
  induction sent as [|a r IH]; intros l H; [assumption|].
  rewrite nf_add_all_cons. apply IH. rewrite nf_mem_add, H. reflexivity.
Qed.

Section Begin.
Variables (c : nf_cfg) (oi : nf_opinfo).
Let now := oi_now oi.
Let x := oi_ctx oi.

(* the Recovery prologue (lines 236-241) and its observable event *)
Definition nf_s0 (ty : nf_type) (s : nf_state) : nf_state := if nf_type_eqb ty NfRecovery then nf_set_lns s [] else s.
Definition nf_g0 (ty : nf_type) (g : nf_ghost) : nf_ghost := if nf_type_eqb ty NfRecovery then nf_g_ev c oi g NfoClr else g.

(* the invariant without its notified-users clause (which is suspended between NfoClr and the end of the call) *)
Definition NfInvB (s : nf_state) (g : nf_ghost) : Prop :=
  g_last g = nf_lns s /\
  (g_ps g = true -> g_bad g = false -> nfc_interval c <= 0 -> nf_nomore s = true) /\
  (forall t, g_rem g = Some t -> t <= g_tm g /\ (0 < nfc_interval c -> t + nfc_interval c <= nf_next s)) /\
  Forall (fun h => sh_reminder h = false) (nf_stash s) /\
  NfMasked c oi g /\ g_tm g = oi_now oi.

Lemma NfInvB_intro s g : g_inc g = nf_npu s -> NfInvB s g -> NfInvM c oi s g.
Proof. intros A (B & C & D & E & M & T). split; [|split; assumption]. split; [assumption|]. repeat split; auto; apply D; assumption. Qed.

Lemma nf_prologue_inv ty s g : NfInvM c oi s g -> NfInvB (nf_s0 ty s) (nf_g0 ty g).
Proof.
  intros ((A & B & C & D & E) & M & T). unfold NfInvB, nf_s0, nf_g0.
  destruct (nf_type_eqb ty NfRecovery).
  - unfold nf_g_ev, nf_g_mask, NfMasked. destruct (nf_may_defer c oi) eqn:Md;
      cbn [g_inc g_pre g_last g_ps g_bad g_rem g_tm nf_mkg nf_lns nf_nomore nf_next nf_stash nf_set_lns].
    + split; [reflexivity|]. split; [intros; discriminate|]. split; [intros; discriminate|].
      split; [exact E|]. split; [intros _; split; reflexivity|exact T].
    + split; [reflexivity|]. split; [intros; discriminate|]. split; [exact D|].
      split; [exact E|]. split; [intro H; discriminate|exact T].
  - exact (conj B (conj C (conj D (conj E (conj M T))))).
Qed.

Lemma nf_prologue_incset ty g :
  (if nf_type_eqb ty NfRecovery then g_pre (nf_g0 ty g) else g_inc (nf_g0 ty g)) = g_inc g.
Proof.
  unfold nf_g0, nf_g_ev, nf_g_mask. destruct (nf_type_eqb ty NfRecovery); [|reflexivity].
  destruct (nf_may_defer c oi); reflexivity.
Qed.

Lemma nf_prologue_inc ty g :
  g_inc (nf_g0 ty g) = if nf_type_eqb ty NfRecovery then (if nf_rec_deferred oi then g_inc g else []) else g_inc g.
Proof.
  unfold nf_g0, nf_g_ev, nf_g_mask. destruct (nf_type_eqb ty NfRecovery); [|reflexivity].
  destruct (nf_may_defer c oi); reflexivity.
Qed.

Lemma nf_prologue_rem ty g t : g_rem (nf_g0 ty g) = Some t -> g_rem g = Some t.
Proof.
  unfold nf_g0, nf_g_ev, nf_g_mask. destruct (nf_type_eqb ty NfRecovery); [|auto].
  destruct (nf_may_defer c oi); cbn; [discriminate|auto].
Qed.

Lemma nf_obs_exec e :
  nf_obs_ev (NfEvExec e) =
  (if nf_type_eqb (ne_type e) NfRecovery then [NfoClr] else []) ++ (if ne_reached e then [NfoDone (ne_type e) (ne_sent e)] else []).
Proof. reflexivity. Qed.

(* the side conditions under which a BeginExecuteNotification call happens inside an operation *)
Definition NfSide (ty : nf_type) (force rem : bool) (s : nf_state) (g : nf_ghost) : Prop :=
  (force = true -> nf_mayforce oi ty = true) /\
  (force = false -> cx_glob_en x = true /\ cx_ck_en x = true) /\
  (oi_tick oi = false -> rem = false /\ nf_mayforce oi ty = force) /\
  (ty = NfProblem -> force = false -> oi_pdefer oi = true) /\
  (oi_tick oi = true -> cx_paused x && cx_ha x = false) /\
  (oi_tick oi = true -> ty = NfProblem -> oi_kp oi <= g_cnt g ->
     nf_rem_ctx_ok c x = true /\ (forall t, g_rem g = Some t -> t + nfc_interval c <= now) /\
     (nfc_interval c <= 0 -> nf_nomore s = false)).

Lemma nf_begin_ok ty force rem s g s' e :
  NfInvM c oi s g -> NfSide ty force rem s g ->
  nf_begin c now x ty force rem s = (s', e) ->
  (forall v, In v (nf_check_evs c oi g (nf_obs_ev (NfEvExec e))) -> nf_is_bad v = false) /\
  NfInvM c oi s' (nf_g_evs c oi g (nf_obs_ev (NfEvExec e))) /\
  nf_stash s' = nf_stash s /\
  (ty <> NfProblem -> sp_problem (nf_sup s') = true -> sp_problem (nf_sup s) = true) /\
  ne_type e = ty.
Proof.
  intros HI HS HB.
  pose proof (nf_prologue_inv ty s g HI) as HI0.
  pose proof (nf_prologue_incset ty g) as HIS.
  pose proof (nf_prologue_inc ty g) as HInc.
  assert (g_inc g = nf_npu s) as HA by (destruct HI as ((A & _) & _); exact A).
  unfold nf_begin in HB. fold (nf_s0 ty s) in HB.
  assert (nf_stash (nf_s0 ty s) = nf_stash s /\ nf_sup (nf_s0 ty s) = nf_sup s /\ nf_npu (nf_s0 ty s) = nf_npu s
          /\ nf_nomore (nf_s0 ty s) = nf_nomore s /\ nf_next (nf_s0 ty s) = nf_next s) as (S0st & S0sup & S0npu & S0nm & S0nx).
  { unfold nf_s0. destruct (nf_type_eqb ty NfRecovery); repeat split. }
  set (s0 := nf_s0 ty s) in *. set (g0 := nf_g0 ty g) in *.
  (* the events of a call that returns early *)
  assert (forall st1, NfInvM c oi st1 g0 ->
            (forall v, In v (nf_check_evs c oi g (nf_obs_ev (NfEvExec (nf_mk_exec ty force rem false false [])))) -> nf_is_bad v = false) /\
            NfInvM c oi st1 (nf_g_evs c oi g (nf_obs_ev (NfEvExec (nf_mk_exec ty force rem false false []))))) as Early.
  { intros st1 H1. rewrite nf_obs_exec. cbn [ne_type ne_reached nf_mk_exec]. rewrite app_nil_r.
    unfold g0, nf_g0 in H1. destruct (nf_type_eqb ty NfRecovery).
    - cbn [nf_check_evs nf_g_evs fold_left]. split; [|assumption].
      intros v [<-|[]]. reflexivity.
    - cbn. split; [intros v []|assumption]. }
  destruct HS as (HSf & HSe & HSr & HSd & HSph & HSrem).
  destruct (nf_pre c now x ty force) eqn:G.
  - (* the per-user loop is reached *)
    destruct (nf_loop c x ty force rem (cx_users x) (nf_npu s0) (nf_lns s0)) as [sent nl] eqn:L.
    pose proof (nf_loop_snd c x ty force rem (cx_users x) (nf_npu s0) (nf_lns s0)) as Lsnd.
    rewrite L in Lsnd. cbn [fst snd] in Lsnd.
    inversion HB; subst s' e; clear HB.
    rewrite nf_obs_exec. cbn [ne_type ne_reached ne_sent nf_mk_exec].
    assert (nf_check_evs c oi g ((if nf_type_eqb ty NfRecovery then [NfoClr] else []) ++ [NfoDone ty sent]) =
            (if nf_type_eqb ty NfRecovery then [NfVOk] else []) ++ [nf_check c oi g0 (NfoDone ty sent)]) as Ec.
    { unfold g0, nf_g0. destruct (nf_type_eqb ty NfRecovery); reflexivity. }
    assert (nf_g_evs c oi g ((if nf_type_eqb ty NfRecovery then [NfoClr] else []) ++ [NfoDone ty sent]) =
            nf_g_ev c oi g0 (NfoDone ty sent)) as Eg.
    { unfold g0, nf_g0. destruct (nf_type_eqb ty NfRecovery); reflexivity. }
    rewrite Ec, Eg. clear Ec Eg.
    destruct HI0 as (B0 & C0 & D0 & E0 & M0 & T0).
    split; [|split; [|split; [assumption|split; [intros _; rewrite <- S0sup; auto|reflexivity]]]].
    + (* the checks *)
      intros v Hv. apply in_app_or in Hv. destruct Hv as [Hv|[<-|[]]].
      { destruct (nf_type_eqb ty NfRecovery); [destruct Hv as [<-|[]]; reflexivity|destruct Hv]. }
      assert (forall u, In u sent -> exists ur, In ur (cx_users x) /\ nfu_id ur = u /\ nfu_enable ur = true /\
                (nf_mayforce oi ty || nf_full_ok c now x ty ur) = true /\
                ((ty = NfRecovery \/ ty = NfAck) ->
                   nf_mem u (if nf_type_eqb ty NfRecovery then g_pre g0 else g_inc g0) = true \/ nf_passes (nfu_types ur) 32 = false)) as Hsent.
      { intros u Hu. pose proof (nf_loop_sent c x ty force rem (cx_users x) (nf_npu s0) (nf_lns s0) u) as Hl.
        rewrite L in Hl. destruct (Hl Hu) as (ur & I1 & I2 & I3 & I4 & I5).
        exists ur. repeat split; auto.
        - destruct force.
          + rewrite (HSf eq_refl). reflexivity.
          + destruct (HSe eq_refl) as [E1 E2]. rewrite (nf_full_ok_intro c now x ty ur G I4 E1 E2). apply orb_true_r.
        - rewrite HIS, HA, <- S0npu. assumption. }
      assert (forallb (nf_okA c oi ty) sent = true) as K1.
      { apply forallb_forall. intros u Hu. destruct (Hsent u Hu) as (ur & I1 & I2 & I3 & I4 & _).
        unfold nf_okA. apply existsb_exists. exists ur. split; [assumption|].
        fold x now. rewrite I3, I4. subst u. rewrite Z.eqb_refl. reflexivity. }
      assert (nf_type_eqb ty NfProblem = true -> oi_tick oi = false -> cx_volatile x = false ->
              forallb (fun u => negb (nf_api_state (nfc_svc c) (cx_raw x) =? nf_lns_get u (g_last g0))) sent = true) as K3.
      { intros Ep Ht Hv. apply forallb_forall. intros u Hu. apply nf_type_eqb_eq in Ep.
        pose proof (nf_loop_nodup c x ty force rem (cx_users x) (nf_npu s0) (nf_lns s0) u Ep (proj1 (HSr Ht)) Hv) as Hl.
        rewrite L in Hl. rewrite B0, (Hl Hu). reflexivity. }
      assert (forallb (nf_okB c oi g0 ty) sent = true \/
              (nf_type_eqb ty NfRecovery || nf_type_eqb ty NfAck) = false) as K2.
      { destruct (nf_type_eqb ty NfRecovery || nf_type_eqb ty NfAck) eqn:Era; [left|right; reflexivity].
        assert (ty = NfRecovery \/ ty = NfAck) as Hra.
        { apply orb_true_iff in Era. destruct Era as [Er|Er]; apply nf_type_eqb_eq in Er; auto. }
        apply forallb_forall. intros u Hu. destruct (Hsent u Hu) as (ur & I1 & I2 & I3 & I4 & I5).
        unfold nf_okB. apply existsb_exists. exists ur. split; [assumption|].
        fold x now. rewrite I3, I4. subst u. rewrite Z.eqb_refl. cbn [andb].
        destruct (I5 Hra) as [Mm|Ns]; [rewrite Mm; reflexivity|rewrite Ns; apply orb_true_r]. }
      assert (oi_tick oi && (cx_paused x && cx_ha x) = false) as K7.
      { destruct (oi_tick oi); [exact (HSph eq_refl)|reflexivity]. }
      unfold nf_check. fold x now. rewrite K7, K1. cbn [negb].
      destruct (nf_type_eqb ty NfProblem) eqn:Ep.
      * (* Problem *)
        assert (nf_type_eqb ty NfRecovery || nf_type_eqb ty NfAck = false) as Era.
        { apply nf_type_eqb_eq in Ep. subst ty. reflexivity. }
        rewrite Era. cbn [andb].
        assert (g0 = g) as Eg0. { unfold g0, nf_g0. apply nf_type_eqb_eq in Ep. subst ty. reflexivity. }
        destruct (oi_tick oi) eqn:Ht; cbn [negb andb].
        -- destruct (oi_kp oi <=? g_cnt g0) eqn:Hr; cbn [andb]; [|reflexivity].
           apply nf_type_eqb_eq in Ep.
           assert (oi_kp oi <= g_cnt g) as Hk by (rewrite <- Eg0; lia).
           destruct (HSrem eq_refl Ep Hk) as (R1 & R2 & R3).
           rewrite R1. cbn [negb].
           assert ((match g_rem g0 with Some t => t + nfc_interval c <=? now | None => true end) = true) as K5.
           { rewrite Eg0. destruct (g_rem g) as [t|] eqn:Er; [|reflexivity]. apply Z.leb_le. apply R2. reflexivity. }
           rewrite K5. cbn [negb].
           destruct (nfc_interval c <=? 0) eqn:Ei; cbn [andb]; [|reflexivity].
           destruct (g_ps g0) eqn:Eps; [|reflexivity].
           destruct (g_bad g0) eqn:Ebad; [reflexivity|].
           exfalso. assert (nf_nomore s0 = true) as Hn by (apply C0; auto; lia).
           rewrite S0nm, R3 in Hn; [discriminate|lia].
        -- destruct (cx_volatile x) eqn:Hv; cbn [negb andb]; [reflexivity|].
           rewrite (K3 eq_refl eq_refl eq_refl). reflexivity.
      * cbn [andb].
        destruct K2 as [K2|K2].
        -- rewrite K2. rewrite andb_false_r. reflexivity.
        -- rewrite K2. reflexivity.
    + (* the invariant *)
      unfold nf_g_ev. apply nf_mask_inv.
      2:{ destruct (nf_type_eqb ty NfProblem); [assumption|]. destruct (nf_type_eqb ty NfRecovery); [assumption|].
          destruct (nf_type_eqb ty NfCustom); assumption. }
      destruct (nf_type_eqb ty NfProblem) eqn:Ep.
      * assert (nf_type_eqb ty NfRecovery = false) as Er by (apply nf_type_eqb_eq in Ep; subst ty; reflexivity).
        rewrite Er in HInc. rewrite Er. rewrite Lsnd. cbn [fst snd].
        repeat split; cbn [g_inc g_last g_ps g_bad g_rem g_tm nf_mkg nf_npu nf_lns nf_nomore nf_next nf_stash].
        -- rewrite HInc, HA, <- S0npu. reflexivity.
        -- rewrite B0. reflexivity.
        -- intros _ _ Hi. assert (nfc_interval c <=? 0 = true) as Ei by lia. rewrite Ei. reflexivity.
        -- inversion H; subst t. rewrite T0. fold now. lia.
        -- intros Hi. inversion H; subst t. assert (0 <? nfc_interval c = true) as Ei by lia. rewrite Ei. cbn. lia.
        -- assumption.
      * rewrite Lsnd. cbn [fst snd andb].
        destruct (nf_type_eqb ty NfRecovery) eqn:Er.
        -- assert (nf_lns s0 = []) as Hl0 by (unfold s0, nf_s0; rewrite Er; reflexivity).
           repeat split; cbn; try rewrite Hl0; auto; try (intros; discriminate); apply D0; assumption.
        -- assert (g_inc g0 = nf_npu s0) as HA0 by (rewrite HInc, HA, <- S0npu; reflexivity).
           destruct (nf_type_eqb ty NfCustom) eqn:Ecu.
           ++ repeat split; cbn [g_inc g_last g_ps g_bad g_rem g_tm nf_mkg nf_npu nf_lns nf_nomore nf_next nf_stash negb]; auto;
              apply D0; assumption.
           ++ repeat split; cbn [g_inc g_last g_ps g_bad g_rem g_tm nf_mkg nf_npu nf_lns nf_nomore nf_next nf_stash negb]; auto;
              try discriminate; apply D0; assumption.
  - (* period closed *)
    inversion HB; subst s' e; clear HB.
    destruct (nf_pre_period _ _ _ _ _ G) as [Pc Pf].
    assert (g_inc g0 = nf_npu s0) as HA0.
    { rewrite HInc, HA, <- S0npu. destruct (nf_type_eqb ty NfRecovery) eqn:Er; [|reflexivity].
      assert (nf_rec_deferred oi = true) as Dd.
      { unfold nf_rec_deferred. fold x. rewrite Pc. cbn [andb].
        destruct (oi_tick oi) eqn:Ht; [reflexivity|]. cbn [orb].
        apply nf_type_eqb_eq in Er. subst ty. rewrite (proj2 (HSr eq_refl)), Pf. reflexivity. }
      rewrite Dd. reflexivity. }
    assert (NfInvM c oi (if negb rem && nf_supp_type ty then nf_set_sup s0 (nf_supp_add (nf_sup s0) ty) else s0) g0) as H1.
    { destruct (negb rem && nf_supp_type ty); [|apply NfInvB_intro; assumption].
      destruct HI0 as (B0 & C0 & D0 & E0 & M0 & T0). split; [|split; assumption].
      repeat split; auto; apply D0; assumption. }
    destruct (Early _ H1) as [K1 K2]. split; [assumption|split; [assumption|]].
    split; [destruct (negb rem && nf_supp_type ty); assumption|].
    split; [|reflexivity].
    intros Np. destruct (negb rem && nf_supp_type ty); [|rewrite S0sup; auto].
    cbn [nf_sup nf_set_sup]. rewrite S0sup. apply nf_supp_add_problem. assumption.
  - (* before times.begin: next_notification re-armed *)
    inversion HB; subst s' e; clear HB.
    destruct (nf_pre_begin_defer _ _ _ _ _ G) as (Bc & Tp & Ff). subst ty.
    assert (nf_may_defer c oi = true) as Md.
    { unfold nf_may_defer. fold now x. rewrite (HSd eq_refl Ff). exact Bc. }
    rewrite nf_obs_exec. cbn [ne_type ne_reached nf_mk_exec nf_type_eqb nf_type_bit Z.eqb Pos.eqb app].
    cbn [nf_check_evs nf_g_evs fold_left].
    split; [intros v []|]. split; [|split; [reflexivity|split; [intros N; contradiction|reflexivity]]].
    destruct HI as ((A & B & C & D & E) & M & T).
    destruct (M Md) as [Mps Mrem].
    split; [|split; assumption].
    unfold s0, nf_s0. cbn [nf_type_eqb nf_type_bit Z.eqb Pos.eqb].
    repeat split; cbn; auto.
    + rewrite Mps. discriminate.
    + rewrite Mrem in H. discriminate.
    + rewrite Mrem in H. discriminate.
  - (* after times.end *)
    inversion HB; subst s' e; clear HB.
    assert (g_inc g0 = nf_npu s0) as HA0.
    { rewrite HInc, HA, <- S0npu.
      assert (nf_type_eqb ty NfProblem = true) as Ep by (apply (nf_pre_problem_gate c now x ty force); auto).
      apply nf_type_eqb_eq in Ep. subst ty. reflexivity. }
    destruct (Early _ (NfInvB_intro _ _ HA0 HI0)) as [K1 K2].
    split; [exact K1|split; [exact K2|split; [assumption|split; [intros _; rewrite S0sup; auto|reflexivity]]]].
  - (* notification type filter *)
    inversion HB; subst s' e; clear HB.
    destruct (nf_pre_type _ _ _ _ _ G) as [Po Pf].
    set (s1 := if nf_type_eqb ty NfRecovery && (nfc_interval c <=? 0) then nf_set_nomore s0 false else s0).
    assert (NfInvB s1 g0) as HB1.
    { unfold s1. destruct (nf_type_eqb ty NfRecovery) eqn:Er; cbn [andb]; [|assumption].
      destruct (nfc_interval c <=? 0); [|assumption].
      destruct HI0 as (B0 & C0 & D0 & E0 & M0 & T0).
      split; [exact B0|]. split; [|split; [exact D0|split; [exact E0|split; assumption]]].
      intros Hps. exfalso. revert Hps. unfold g0, nf_g0. rewrite Er. unfold nf_g_ev, nf_g_mask.
      destruct (nf_may_defer c oi); cbn; discriminate. }
    assert (nf_stash s1 = nf_stash s0 /\ nf_sup s1 = nf_sup s0 /\ nf_npu s1 = nf_npu s0) as (S1a & S1b & S1c).
    { unfold s1. destruct (nf_type_eqb ty NfRecovery && (nfc_interval c <=? 0)); repeat split. }
    assert (NfInvM c oi (if nf_type_eqb ty NfRecovery then nf_set_npu s1 [] else s1) g0) as H1.
    { destruct (nf_type_eqb ty NfRecovery) eqn:Er.
      - assert (g_inc g0 = []) as Hg.
        { rewrite HInc. unfold nf_rec_deferred. fold x. rewrite Po. reflexivity. }
        destruct HB1 as (B0 & C0 & D0 & E0 & M0 & T0). split; [|split; assumption].
        split; [exact Hg|]. repeat split; auto; apply D0; assumption.
      - apply NfInvB_intro; [|assumption]. rewrite HInc, HA, S1c, <- S0npu. reflexivity. }
    destruct (Early _ H1) as [K1 K2]. split; [assumption|split; [assumption|]].
    split; [destruct (nf_type_eqb ty NfRecovery); cbn [nf_stash nf_set_npu]; rewrite S1a; assumption|].
    split; [|reflexivity].
    intros _. destruct (nf_type_eqb ty NfRecovery); cbn [nf_sup nf_set_npu]; rewrite S1b, S0sup; auto.
  - (* notification state filter *)
    inversion HB; subst s' e; clear HB.
    assert (g_inc g0 = nf_npu s0) as HA0.
    { rewrite HInc, HA, <- S0npu.
      assert (nf_type_eqb ty NfProblem = true) as Ep by (apply (nf_pre_problem_gate c now x ty force); auto).
      apply nf_type_eqb_eq in Ep. subst ty. reflexivity. }
    destruct (Early _ (NfInvB_intro _ _ HA0 HI0)) as [K1 K2].
    split; [exact K1|split; [exact K2|split; [assumption|split; [intros _; rewrite S0sup; auto|reflexivity]]]].
Qed.
End Begin.

(* the per-operation count of Problem notifications moves by at most one per call, and only for Problem *)
Lemma nf_g_cnt_mask c oi g : g_cnt (nf_g_mask c oi g) = g_cnt g.
Proof. unfold nf_g_mask. destruct (nf_may_defer c oi); reflexivity. Qed.

Lemma nf_g_cnt_clr c oi g : g_cnt (nf_g_ev c oi g NfoClr) = g_cnt g.
Proof. unfold nf_g_ev. rewrite nf_g_cnt_mask. reflexivity. Qed.

Lemma nf_g_cnt_done c oi g ty sent :
  g_cnt (nf_g_ev c oi g (NfoDone ty sent)) = g_cnt g + (if nf_type_eqb ty NfProblem then 1 else 0).
Proof.
  unfold nf_g_ev. rewrite nf_g_cnt_mask. destruct (nf_type_eqb ty NfProblem); [reflexivity|].
  destruct (nf_type_eqb ty NfRecovery); [cbn; lia|]. destruct (nf_type_eqb ty NfCustom); cbn; lia.
Qed.

Lemma nf_g_cnt_exec c oi g e :
  let g' := nf_g_evs c oi g (nf_obs_ev (NfEvExec e)) in
  g_cnt g <= g_cnt g' <= g_cnt g + 1 /\ (ne_type e <> NfProblem -> g_cnt g' = g_cnt g).
Proof.
  cbv zeta. rewrite nf_obs_exec. unfold nf_g_evs.
  destruct (nf_type_eqb (ne_type e) NfRecovery) eqn:Er; destruct (ne_reached e); cbn [app fold_left];
    rewrite ?nf_g_cnt_done, ?nf_g_cnt_clr.
  - assert (nf_type_eqb (ne_type e) NfProblem = false) as Ep by (apply nf_type_eqb_eq in Er; rewrite Er; reflexivity).
    rewrite Ep. split; lia.
  - split; lia.
  - destruct (nf_type_eqb (ne_type e) NfProblem) eqn:Ep; [|split; lia].
    split; [lia|]. intro N. apply nf_type_eqb_eq in Ep. contradiction.
  - split; lia.
Qed.

(* with the notification period open a call never touches suppressed_notifications *)
Lemma nf_begin_sup c now x ty force rem s :
  cx_per_closed x = false -> nf_sup (fst (nf_begin c now x ty force rem s)) = nf_sup s.
Proof.
  intro Po. unfold nf_begin.
  assert (nf_sup (if nf_type_eqb ty NfRecovery then nf_set_lns s [] else s) = nf_sup s) as S0
    by (destruct (nf_type_eqb ty NfRecovery); reflexivity).
  destruct (nf_pre c now x ty force) eqn:G; cbn [fst].
  - destruct (nf_loop _ _ _ _ _ _ _ _). cbn [fst nf_sup]. exact S0.
  - destruct (nf_pre_period _ _ _ _ _ G) as [Pc _]. rewrite Pc in Po. discriminate.
  - cbn. exact S0.
  - exact S0.
  - destruct (nf_type_eqb ty NfRecovery && (nfc_interval c <=? 0)); destruct (nf_type_eqb ty NfRecovery) eqn:Er;
      cbn [nf_sup nf_set_npu nf_set_nomore]; try rewrite Er in S0; exact S0.
  - exact S0.
Qed.
