(* C09 - the collect / replay path of macro resolution (command_endpoint checks): theorems only.
   Model: Macro/MxReplay.v, proofs: Macro/MxReplayProofs.v. *)
From Icv Require Import Base.Tac Macro.MxDefs Macro.MxModel Macro.MxOracle Macro.MxReplay Macro.MxReplayProofs.
From Coq Require Import NArith.
Local Open Scope N_scope.

(* a command line given as ONE STRING: when the parent's collect-mode resolution succeeds, (i) its own result is the
   local one and (ii) the agent, resolving the same string from the collected dictionary with ANY resolvers env',
   obtains exactly that /bin/sh string again (hence the same argv) and leaves the dictionary unchanged.  Visible
   hypothesis: no macro that is found has a value referring to a missing macro (see C09_replay_nested_missing_differs). *)
Theorem C09_replay_equals_local : forall env env' s r d,
  mx_no_nested_missing env 2 ->
  mx_resolve_arguments_r (MxRmCollect false) env (MxStr s) None [] = (r, d) ->
  (forall e, r <> MxCmdThrow e) ->
  r = mx_resolve_arguments env (MxStr s) None /\
  mx_resolve_arguments_r MxRmReplay env' (MxStr s) None d = (r, d).
Proof. exact mx_replay_string_command. Qed.
Print Assumptions C09_replay_equals_local.

(* EVERY command shape (string or array command line, with or without an `arguments` dictionary; the whole of
   ResolveArguments with the dictionary threaded through the command line, then per argument set_if before value):
   when the parent's collect-mode run does not throw, its result is the local result, and the agent, resolving the same
   command and arguments from the collected dictionary with ANY resolvers env', obtains exactly that result again and
   leaves the dictionary unchanged.  Same visible hypothesis as above. *)
Theorem C09_replay_equals_local_all_shapes : forall env env' command arguments r d,
  mx_no_nested_missing env 2 ->
  mx_resolve_arguments_r (MxRmCollect false) env command arguments [] = (r, d) ->
  (forall e, r <> MxCmdThrow e) ->
  r = mx_resolve_arguments env command arguments /\
  mx_resolve_arguments_r MxRmReplay env' command arguments d = (r, d).
Proof. exact mx_replay_all_shapes. Qed.
Print Assumptions C09_replay_equals_local_all_shapes.

(* the simulation behind it, from any dictionary of true unescaped values (not only the empty one) *)
Theorem C09_replay_equals_local_all_shapes_sim : forall env env' command arguments,
  mx_sim env 2 mx_cmd_ok (mx_resolve_arguments_r (MxRmCollect false) env command arguments)
    (mx_resolve_arguments_r MxRmReplay env' command arguments) (mx_resolve_arguments env command arguments).
Proof. exact mx_sim_resolve_arguments. Qed.
Print Assumptions C09_replay_equals_local_all_shapes_sim.

(* the same for every top-level InternalResolveMacros call (command-line elements, argument values, set_if), from any
   dictionary that holds only true unescaped values, replayed on any later dictionary of that kind *)
Theorem C09_replay_equals_local_call : forall env env' lv esc str,
  mx_sim env lv mx_res_ok (mx_irm_r (MxRmCollect false) lv env esc str) (mx_irm_r MxRmReplay lv env' esc str)
    (mx_irm mx_fuel lv env esc str).
Proof. exact mx_sim_irm. Qed.
Print Assumptions C09_replay_equals_local_call.

(* "record after escaping" (the order of the two statements swapped) is refuted: the value is escaped twice *)
Theorem C09_replay_record_escaped_refuted :
  exists env cmd r, mx_remote true env [] cmd None = Some r /\
    mx_plugin_argv (mx_resolve_arguments env cmd None) = MxArgv [[99]; [118]] /\
    mx_plugin_argv r = MxArgv [[99]; [39; 118; 39]].
Proof. exact mx_replay_record_escaped_refuted. Qed.
Print Assumptions C09_replay_record_escaped_refuted.

(* the hypothesis of C09_replay_equals_local is needed (model of the code as it is) *)
Theorem C09_replay_nested_missing_differs :
  mx_resolve_arguments (mx_w_env [120; 36; 110; 36]) (MxArr [MxStr [99]]) (Some [mx_w_arg]) = MxCmdArr [[99]] /\
  mx_remote false (mx_w_env [120; 36; 110; 36]) [] (MxArr [MxStr [99]]) (Some [mx_w_arg]) = Some (MxCmdArr [[99]; [45; 107]; [120]]).
Proof. exact mx_replay_nested_missing_differs. Qed.
Print Assumptions C09_replay_nested_missing_differs.

Theorem C09_oracle_accepts_replay : forall env env' cmd args,
  mx_oracle_replay env env' cmd args (mx_remote false env env' cmd args) = None.
Proof. exact mx_oracle_replay_accepts. Qed.
Print Assumptions C09_oracle_accepts_replay.

Example C09_replay_nonvacuous :
  mx_remote false (mx_w_env [118; 32; 39]) [] mx_w_cmd None = Some (mx_resolve_arguments (mx_w_env [118; 32; 39]) mx_w_cmd None) /\
  mx_plugin_argv (mx_resolve_arguments (mx_w_env [118; 32; 39]) mx_w_cmd None) = MxArgv [[99]; [118; 32; 39]].
Proof. exact mx_replay_witness_ok. Qed.

(* all shapes: array command line [c, $a$], arguments -k = { value = $a$ } and -l = $b$ with vars.b an ARRAY
   (repeated key); the parent's run succeeds and records three entries, the agent's result is the local argv *)
Example C09_replay_all_shapes_nonvacuous :
  (exists r d, mx_resolve_arguments_r (MxRmCollect false) mx_w_env2 mx_w_cmd2 (Some mx_w_args2) [] = (r, d) /\
     (forall e, r <> MxCmdThrow e) /\ List.length d = 3%nat) /\
  mx_remote false mx_w_env2 [] mx_w_cmd2 (Some mx_w_args2) = Some (mx_resolve_arguments mx_w_env2 mx_w_cmd2 (Some mx_w_args2)) /\
  mx_resolve_arguments mx_w_env2 mx_w_cmd2 (Some mx_w_args2) =
    MxCmdArr [[99]; [118; 32; 39]; [45; 107]; [118; 32; 39]; [45; 108]; [120]; [45; 108]; [121; 32; 122]].
Proof. exact mx_replay_witness_all_shapes. Qed.

(* ... and the environment of that example satisfies the hypothesis mx_no_nested_missing (for ALL macro names), so the
   theorem C09_replay_equals_local_all_shapes applies to it with every premise discharged *)
Example C09_replay_all_shapes_nonvacuous_hyp : mx_no_nested_missing mx_w_env2 2.
Proof. exact mx_w_env2_no_nested_missing. Qed.
