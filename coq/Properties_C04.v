(* C04 - the property theorems, nothing else.  Model: Sched/SchModel.v (scheduler at lock
   granularity), Sched/SchNext.v (UpdateNextCheck over Q).  "For all interleavings" = for every list
   of actions [l] that the model can execute from the initial state ([sch_run ... l = Some s]):
   any number of checkables, any number of pool tasks, any order. *)
From Icv Require Import Base.Tac Sched.SchModel Sched.SchProofs Sched.SchNext Sched.SchNextProofs Sched.SchOracleProofs.
From Coq Require Import QArith.
Local Open Scope Z_scope.

(* never twice (both containers are sets, and disjoint), never dropped (outside the scheduler's
   critical section a checkable whose flag changes have all been handled is in idle or pending
   exactly if it is active, unpaused and in the local zone); while the scheduler holds it inside
   its critical section it is in neither set but still schedulable *)
Theorem C04_inv : forall zone next max l s,
  0 <= max -> sch_run (sch_init zone next max) l = Some s ->
  NoDup (map fst (sch_idle s)) /\ NoDup (map fst (sch_pend s)) /\
  (forall c, ~ (sch_mem c (sch_idle s) = true /\ sch_mem c (sch_pend s) = true)) /\
  (forall c, sch_unlocked s = true -> sch_owed (sch_cks s c) = 0%nat ->
     sch_mem c (sch_idle s) || sch_mem c (sch_pend s) = sch_sched (sch_cks s c)) /\
  (forall c f, sch_pc s = SchSHold c f ->
     sch_mem c (sch_idle s) = false /\ sch_mem c (sch_pend s) = false /\
     (sch_owed (sch_cks s c) = 0%nat -> sch_sched (sch_cks s c) = true)).
Proof. exact sch_thm_inv. Qed.
Print Assumptions C04_inv.

(* the ObjectHandler step by itself, from ANY state (also while a check of c is pending or running):
   deactivated/paused -> in neither set; schedulable -> in one of them *)
Theorem C04_handler : forall s c s',
  sch_exec s (SchAObjectHandler c) = Some s' ->
  (sch_sched (sch_cks s c) = false -> sch_mem c (sch_idle s') = false /\ sch_mem c (sch_pend s') = false) /\
  (sch_sched (sch_cks s c) = true -> sch_mem c (sch_idle s') || sch_mem c (sch_pend s') = true) /\
  sch_sched (sch_cks s' c) = sch_sched (sch_cks s c).
Proof. exact sch_thm_handler. Qed.
Print Assumptions C04_handler.

(* at most one task per checkable between test-and-set and result processing, and then the flag is set *)
Theorem C04_single_flight : forall zone next max l s c,
  0 <= max -> sch_run (sch_init zone next max) l = Some s ->
  (sch_cnt (c, SchTRunning) (sch_tasks s) <= 1)%nat /\
  (sch_cnt (c, SchTRunning) (sch_tasks s) = 1%nat -> sch_running (sch_cks s c) = true).
Proof. exact sch_thm_single_flight. Qed.
Print Assumptions C04_single_flight.

(* the single-flight guard can never wedge: m_CheckRunning is set exactly while one execution is between
   test-and-set and its ProcessCheckResult entry; that entry (accepted OR rejected result - the clear is the first
   statement of ProcessCheckResult) is always enabled and clears the flag; with the flag clear the next ExecuteCheck
   starts the command *)
Theorem C04_no_wedge : forall zone next max l s c,
  0 <= max -> sch_run (sch_init zone next max) l = Some s ->
  (sch_running (sch_cks s c) = true ->
     sch_cnt (c, SchTRunning) (sch_tasks s) = 1%nat /\
     forall v, exists s', sch_exec s (SchATaskResult c v) = Some s' /\ sch_running (sch_cks s' c) = false) /\
  (sch_running (sch_cks s c) = false -> sch_has (c, SchTUpdated) (sch_tasks s) = true ->
     exists s', sch_exec s (SchATaskTas c) = Some s' /\ sch_observe s (SchATaskTas c) = [SchEvStart (sch_zid c)]).
Proof. exact sch_thm_no_wedge. Qed.
Print Assumptions C04_no_wedge.

Theorem C04_result_clears_flag : forall s c v s',
  sch_exec s (SchATaskResult c v) = Some s' -> sch_running (sch_cks s' c) = false.
Proof. exact sch_thm_result_clears. Qed.
Print Assumptions C04_result_clears_flag.

(* running <= dispatched-and-not-counted-down <= pending-check counter <= max_concurrent_checks *)
Theorem C04_concurrency : forall zone next max l s,
  0 <= max -> sch_run (sch_init zone next max) l = Some s ->
  Z.of_nat (length (sch_runlist (sch_tasks s))) <= Z.of_nat (sch_live (sch_tasks s)) /\
  Z.of_nat (sch_live (sch_tasks s)) <= sch_pcount s /\ sch_pcount s <= max.
Proof. exact sch_thm_concurrency. Qed.
Print Assumptions C04_concurrency.

(* now < next <= now + I, I = retry_interval in a soft state with a result, else check_interval;
   every offset >= 0 (Utility::Random()), exact rational arithmetic.  binary64 caveat: see notes/C04.md *)
Theorem C04_next_check : forall (now ci ri : Q) soft has_cr offset,
  let I := sch_interval soft has_cr ci ri in
  (0 < I)%Q -> (0 <= now)%Q -> 0 <= offset ->
  (now < sch_update_next_check now I offset)%Q /\ (sch_update_next_check now I offset <= now + I)%Q.
Proof. exact sch_next_check_bounds. Qed.
Print Assumptions C04_next_check.

Theorem C04_next_check_interval : forall ci ri soft has_cr,
  sch_interval true true ci ri = ri /\ (soft && has_cr = false -> sch_interval soft has_cr ci ri = ci).
Proof. intros. split; [apply sch_interval_soft|apply sch_interval_other]. Qed.
Print Assumptions C04_next_check_interval.

(* after each execution (ProcessCheckResult of an active local result): the interval is the one of the
   state AFTER the result, in which a result always exists - retry_interval iff the post-state is soft,
   also for the first result of a never-checked checkable *)
Theorem C04_next_check_after_result : forall (now ci ri : Q) (soft_after : bool) (offset : Z),
  let I := (if soft_after then ri else ci) : Q in
  (0 < I)%Q -> (0 <= now)%Q -> 0 <= offset ->
  (now < sch_update_next_check now (sch_interval_after soft_after ci ri) offset)%Q /\
  (sch_update_next_check now (sch_interval_after soft_after ci ri) offset <= now + I)%Q.
Proof. exact sch_next_check_after_result. Qed.
Print Assumptions C04_next_check_after_result.

(* the scheduler reads force_next_check when it picks; a picked forced checkable cannot be skipped
   and is moved to pending whatever enable_active_checks / period / reachability say *)
Theorem C04_forced : forall s c,
  (forall s', sch_exec s (SchAPick c) = Some s' -> sch_pc s' = SchSHold c (sch_force (sch_cks s c))) /\
  (sch_pc s = SchSHold c true ->
   sch_exec s SchASkip = None /\
   exists s', sch_exec s SchADispatch = Some s' /\ sch_mem c (sch_pend s') = true /\ sch_pc s' = SchSPostA c true).
Proof. intros. split; [intros; apply sch_thm_pick_reads_force; assumption|apply sch_thm_forced]. Qed.
Print Assumptions C04_forced.

(* partial liveness = enabledness: a due head of the idle index and a free slot enable the pick; after it
   no scheduler step other than the decision is enabled, and exactly one decision is *)
Theorem C04_progress_partial : forall s c k,
  sch_pc s = SchSIdle -> sch_lookup c (sch_idle s) = Some k -> sch_is_min k (sch_idle s) = true ->
  k <= sch_clock s -> sch_pcount s < sch_max s ->
  exists s1, sch_exec s (SchAPick c) = Some s1 /\
    (forall a, a <> SchASkip -> a <> SchADispatch ->
       match a with SchAPick _ | SchAClearForce | SchAIncrease | SchAEnqueue => sch_exec s1 a = None | _ => True end) /\
    (if sch_wants (sch_force (sch_cks s c)) (sch_cks s c)
     then sch_exec s1 SchASkip = None /\
          exists s2, sch_exec s1 SchADispatch = Some s2 /\ sch_mem c (sch_pend s2) = true
     else sch_exec s1 SchADispatch = None /\
          exists s2, sch_exec s1 SchASkip = Some s2 /\ sch_mem c (sch_idle s2) = true).
Proof. exact sch_thm_progress. Qed.
Print Assumptions C04_progress_partial.

(* the executable oracle run over the implementation's start/end/snapshot events never fires on a
   trace the model produces, whatever the interleaving *)
Theorem C04_oracle_accepts_model : forall zone next max l,
  0 <= max -> sch_oracle max (sch_trace (sch_init zone next max) l) = None.
Proof. exact sch_oracle_accepts_model. Qed.
Print Assumptions C04_oracle_accepts_model.

(* non-vacuity: a concrete interleaving - activate and resume checkable 7, it becomes due, is picked,
   dispatched, its task starts; meanwhile it is paused and resumed (the "resume while pending" window),
   picked and dispatched a second time; the second task hits the single-flight guard *)
Example C04_nonvacuous :
  let l := [SchASetActive 7 true; SchAObjectHandler 7; SchASetPaused 7 false; SchAObjectHandler 7;
            SchATick 5; SchAPick 7; SchADispatch; SchAClearForce; SchAIncrease; SchAEnqueue;
            SchATaskUpdate 7 100; SchATaskTas 7;
            SchASetPaused 7 true; SchAObjectHandler 7; SchASetPaused 7 false; SchAObjectHandler 7;
            SchASetForce 7 true; SchASetNext 7 0; SchANextCheckChanged 7;
            SchAPick 7; SchADispatch; SchAClearForce; SchAIncrease; SchAEnqueue;
            SchATaskUpdate 7 200; SchATaskTas 7; SchASnap [7%nat]] in
  match sch_run (sch_init (fun _ => true) (fun _ => 3) 2) l with
  | Some s => sch_mem 7 (sch_pend s) = true /\ sch_cnt (7%nat, SchTRunning) (sch_tasks s) = 1%nat /\
              sch_cnt (7%nat, SchTReturned) (sch_tasks s) = 1%nat /\ sch_pcount s = 2 /\ sch_force (sch_cks s 7) = false
  | None => False
  end.
Proof. vm_compute. repeat split. Qed.
