(* C04 - the property theorems, nothing else.  Model: Sched/SchModel.v (scheduler at lock
   granularity), Sched/SchNext.v (UpdateNextCheck over Q).  "For all interleavings" = for every list
   of actions [l] that the model can execute from the initial state ([sch_run ... l = Some s]):
   any number of checkables, any number of pool tasks, any order. *)
From Icv Require Import Base.Tac Sched.SchModel Sched.SchProofs Sched.SchForce Sched.SchNext Sched.SchNextProofs Sched.SchOracleProofs Facts.Facts_c04.
From Coq Require Import QArith.
Local Open Scope Z_scope.

(* never twice (both containers are sets, and disjoint), never dropped (outside the scheduler's
   critical section a checkable whose flag changes have all been handled is in idle or pending
   exactly if it is active, unpaused and in the local zone); while the scheduler holds it inside
   its critical section it is in neither set but still schedulable *)
Theorem C04_inv : forall zone next max l s,
  0 <= max -> sch_run (sch_init zone next max) l = Some s ->
  NoDup (map fst (sch_idle s)) /\ NoDup (map fst (sch_pend s)) /\
  (forall c, ~ (sch_mem c (sch_idle s) = true /\ sch_mem c (sch_pend s) = true)) /\
  (forall c, sch_unlocked s = true -> sch_owed (sch_cks s c) = 0%nat ->
     sch_mem c (sch_idle s) || sch_mem c (sch_pend s) = sch_sched (sch_cks s c)) /\
  (forall c f, sch_pc s = SchSHold c f ->
     sch_mem c (sch_idle s) = false /\ sch_mem c (sch_pend s) = false /\
     (sch_owed (sch_cks s c) = 0%nat -> sch_sched (sch_cks s c) = true)).
Proof. exact sch_thm_inv. Qed.
Print Assumptions C04_inv.

(* the ObjectHandler step by itself, from ANY state (also while a check of c is pending or running):
   deactivated/paused -> in neither set; schedulable -> in one of them *)
Theorem C04_handler : forall s c s',
  sch_exec s (SchAObjectHandler c) = Some s' ->
  (sch_sched (sch_cks s c) = false -> sch_mem c (sch_idle s') = false /\ sch_mem c (sch_pend s') = false) /\
  (sch_sched (sch_cks s c) = true -> sch_mem c (sch_idle s') || sch_mem c (sch_pend s') = true) /\
  sch_sched (sch_cks s' c) = sch_sched (sch_cks s c).
Proof. exact sch_thm_handler. Qed.
Print Assumptions C04_handler.

(* at most one execution per checkable in flight - synchronous commands inside Execute(), ASYNCHRONOUS commands whose
   process is alive (Execute and ExecuteCheck have long returned, the checkable is back in the idle set and gets
   dispatched again every interval) and asynchronous results on their way into ProcessCheckResult all count - and
   then the flag is set *)
Theorem C04_single_flight : forall zone next max l s c,
  0 <= max -> sch_run (sch_init zone next max) l = Some s ->
  (sch_inflight s c <= 1)%nat /\ (sch_inflight s c = 1%nat -> sch_running (sch_cks s c) = true).
Proof. exact sch_thm_single_flight. Qed.
Print Assumptions C04_single_flight.

(* asynchronous check commands: "Execute() returned, result outstanding" and "process ended, slot counted down" do not
   touch m_CheckRunning; while an asynchronous execution of c is in flight the flag is set, every further ExecuteCheck
   of c returns at the guard without a start, and no second execution comes into being *)
Theorem C04_flag_until_result : forall zone next max l s c,
  0 <= max -> sch_run (sch_init zone next max) l = Some s ->
  (forall a s' c', sch_exec s a = Some s' -> (exists x, a = SchATaskLaunch x \/ a = SchAFlightDone x) ->
     sch_running (sch_cks s' c') = sch_running (sch_cks s c')) /\
  (sch_fmem c (sch_flights s) || sch_fmem c (sch_fdone s) = true ->
     sch_running (sch_cks s c) = true /\
     sch_observe s (SchATaskTas c) = [] /\
     (forall s', sch_exec s (SchATaskTas c) = Some s' ->
        sch_inflight s' c = 1%nat /\ sch_flights s' = sch_flights s /\ sch_fdone s' = sch_fdone s /\
        sch_cnt (c, SchTRunning) (sch_tasks s') = 0%nat)).
Proof.
  intros zone next max l s c Hm H. split.
  - intros a s' c' E X. eapply sch_thm_flag_until_result_step; eassumption.
  - apply (sch_thm_flag_until_result zone next max l s c Hm H).
Qed.
Print Assumptions C04_flag_until_result.

(* command_endpoint branch, as the code has it: the flag is released before ExecuteCheck returns (the remote side and
   next_check = now + timeout + 30 are what keeps a second remote execution away, not this flag) *)
Theorem C04_remote_releases_on_return : forall s c ov s',
  sch_exec s (SchATaskRemote c ov) = Some s' ->
  sch_running (sch_cks s' c) = false /\ sch_has (c, SchTReturned) (sch_tasks s') = true /\
  sch_flights s' = sch_flights s /\ sch_fdone s' = sch_fdone s.
Proof. exact sch_thm_remote_releases. Qed.
Print Assumptions C04_remote_releases_on_return.

(* the single-flight guard can never wedge: m_CheckRunning is set exactly while one execution is in flight; the steps
   through which that execution delivers its result (synchronous: ProcessCheckResult inside Execute; asynchronous: the
   process callback, then ProcessCheckResult) are enabled whatever the outcome - the clear is the first statement of
   ProcessCheckResult - and leave the flag clear; with the flag clear the next ExecuteCheck starts the command *)
Theorem C04_no_wedge : forall zone next max l s c,
  0 <= max -> sch_run (sch_init zone next max) l = Some s ->
  (sch_running (sch_cks s c) = true -> sch_inflight s c = 1%nat /\ sch_can_finish s c) /\
  (sch_running (sch_cks s c) = false -> sch_has (c, SchTUpdated) (sch_tasks s) = true ->
     exists s', sch_exec s (SchATaskTas c) = Some s' /\ sch_observe s (SchATaskTas c) = [SchEvStart (sch_zid c)]).
Proof. exact sch_thm_no_wedge. Qed.
Print Assumptions C04_no_wedge.

Theorem C04_result_clears_flag : forall s c v s',
  sch_exec s (SchATaskResult c v) = Some s' \/ sch_exec s (SchAFlightResult c v) = Some s' -> sch_running (sch_cks s' c) = false.
Proof. exact sch_thm_result_clears. Qed.
Print Assumptions C04_result_clears_flag.

(* executions at work (synchronous commands inside Execute + asynchronous processes alive) <= occupied slots <=
   max_concurrent_checks; the pending-check counter covers every occupied slot *)
Theorem C04_concurrency : forall zone next max l s,
  0 <= max -> sch_run (sch_init zone next max) l = Some s ->
  (length (sch_runlist (sch_tasks s)) + length (sch_flights s) <= sch_slots (sch_tasks s) (sch_flights s))%nat /\
  Z.of_nat (sch_slots (sch_tasks s) (sch_flights s)) <= max /\
  Z.of_nat (sch_slots (sch_tasks s) (sch_flights s)) <= sch_pcount s.
Proof. exact sch_thm_concurrency. Qed.
Print Assumptions C04_concurrency.

(* now < next <= now + I, I = retry_interval in a soft state with a result, else check_interval;
   every offset >= 0 (Utility::Random()), exact rational arithmetic.  binary64 caveat: see notes/C04.md *)
Theorem C04_next_check : forall (now ci ri : Q) soft has_cr offset,
  let I := sch_interval soft has_cr ci ri in
  (0 < I)%Q -> (0 <= now)%Q -> 0 <= offset ->
  (now < sch_update_next_check now I offset)%Q /\ (sch_update_next_check now I offset <= now + I)%Q.
Proof. exact sch_next_check_bounds. Qed.
Print Assumptions C04_next_check.

Theorem C04_next_check_interval : forall ci ri soft has_cr,
  sch_interval true true ci ri = ri /\ (soft && has_cr = false -> sch_interval soft has_cr ci ri = ci).
Proof. intros. split; [apply sch_interval_soft|apply sch_interval_other]. Qed.
Print Assumptions C04_next_check_interval.

(* after each execution (ProcessCheckResult of an active local result): the interval is the one of the
   state AFTER the result, in which a result always exists - retry_interval iff the post-state is soft,
   also for the first result of a never-checked checkable *)
Theorem C04_next_check_after_result : forall (now ci ri : Q) (soft_after : bool) (offset : Z),
  let I := (if soft_after then ri else ci) : Q in
  (0 < I)%Q -> (0 <= now)%Q -> 0 <= offset ->
  (now < sch_update_next_check now (sch_interval_after soft_after ci ri) offset)%Q /\
  (sch_update_next_check now (sch_interval_after soft_after ci ri) offset <= now + I)%Q.
Proof. exact sch_next_check_after_result. Qed.
Print Assumptions C04_next_check_after_result.

(* the scheduler reads force_next_check when it picks; a picked forced checkable cannot be skipped
   and is moved to pending whatever enable_active_checks / period / reachability say *)
Theorem C04_forced_pick : forall s c,
  (forall s', sch_exec s (SchAPick c) = Some s' -> sch_pc s' = SchSHold c (sch_force (sch_cks s c))) /\
  (sch_pc s = SchSHold c true ->
   sch_exec s SchASkip = None /\
   exists s', sch_exec s SchADispatch = Some s' /\ sch_mem c (sch_pend s') = true /\ sch_pc s' = SchSPostA c true).
Proof. intros. split; [intros; apply sch_thm_pick_reads_force; assumption|apply sch_thm_forced]. Qed.
Print Assumptions C04_forced_pick.

(* a force request made at ANY moment - in any reachable state, also while a (forced) check of the same checkable is
   running, queued or held by the scheduler - leads to one more execution that starts after the request:
   (1) as long as no callback of c has reached the test-and-set of m_CheckRunning after the request (and nobody has
       withdrawn the flag) the request stays registered: force_next_check is set (then C04_forced_pick: the next pop
       cannot skip c), or the scheduler has consumed it and is between the clear and QueueAsyncCallback, or the
       callback is in the pool in front of its test-and-set;
   (2) that test-and-set starts the command, UNLESS - the exact exception - exactly one execution of c is in flight at
       that very moment (flag set): the request is then absorbed by the execution found running AFTER the request
       (synchronous commands: only after a pause/resume put c back into idle while pending; asynchronous commands:
       whenever the previous check has not delivered its result yet). *)
Theorem C04_forced : forall zone next max l0 c l2 s,
  0 <= max -> sch_run (sch_init zone next max) (l0 ++ SchASetForce c true :: l2) = Some s ->
  (forallb (fun a => negb (sch_consumes c a)) l2 = true -> sch_force_pending s c) /\
  (forall s', sch_exec s (SchATaskTas c) = Some s' ->
     (sch_running (sch_cks s c) = false /\ sch_observe s (SchATaskTas c) = [SchEvStart (sch_zid c)] /\
        sch_has (c, SchTRunning) (sch_tasks s') = true) \/
     (sch_running (sch_cks s c) = true /\ sch_observe s (SchATaskTas c) = [] /\
        sch_inflight s c = 1%nat /\ sch_inflight s' c = 1%nat)).
Proof.
  intros zone next max l0 c l2 s Hm H. split.
  - intros NC. destruct (sch_run_app _ _ _ _ H) as (s0 & _ & H2). eapply sch_thm_forced_request; eassumption.
  - intros s' E. eapply sch_thm_forced_tas; eassumption.
Qed.
Print Assumptions C04_forced.

(* with force_next_check cleared AFTER the execution (by the pool thread, once ExecuteCheck has returned) statement (1)
   is false: a second request made while the forced check executes is wiped out - nothing is registered any more
   although no callback of the checkable has reached a test-and-set since; the next pop is not forced, cannot be
   dispatched and is skipped.  The same schedule in the model of the code as it is keeps the request (second lemma). *)
Theorem C04_forced_late_clear_refuted :
  forallb (fun a => negb (sch_consumes 7 a)) sch_late_suffix = true /\
  match sch_run_late (sch_init (fun _ => true) (fun _ => 3) 2, []) (sch_late_prefix ++ SchASetForce 7 true :: sch_late_suffix) with
  | Some (s, _) =>
      sch_force_pendingb s 7 = false /\ sch_running (sch_cks s 7) = false /\ sch_tasks s = [] /\ sch_mem 7 (sch_idle s) = true /\
      match sch_run_late (s, []) [SchATick 200; SchAPick 7] with
      | Some (s2, _) => sch_pc s2 = SchSHold 7 false /\ sch_exec s2 SchADispatch = None /\
                        (exists s3, sch_exec s2 SchASkip = Some s3 /\ sch_mem 7 (sch_idle s3) = true /\ sch_tasks s3 = [])
      | None => False
      end
  | None => False
  end.
Proof. exact sch_thm_forced_late_clear_refuted. Qed.
Print Assumptions C04_forced_late_clear_refuted.

(* the source as it is now has neither refuted shape: SetForceNextCheck(false) is not in ExecuteCheckHelper behind
   ExecuteCheck(), and no `m_CheckRunning = false' of ExecuteCheck is reachable by local executions
   (regenerated coq/Facts/Facts_c04.v; None = shape not recognised, then only the runs decide) *)
Theorem C04_source_sites : f_sch_force_clear_site <> Some 1 /\ f_sch_flag_release_site <> Some 1.
Proof. split; discriminate. Qed.
Print Assumptions C04_source_sites.

(* observable form of "the clear precedes the execution it belongs to": on complete runs every clear of
   force_next_check is followed by an entry of ExecuteCheck of the same checkable (one entry per clear) *)
Theorem C04_force_oracle_accepts_model : forall zone next max l s cs,
  sch_run (sch_init zone next max) l = Some s -> sch_quiescent s ->
  sch_force_oracle (map sch_zid cs) (sch_ftrace (sch_init zone next max) l) = None.
Proof. exact sch_force_oracle_accepts_model. Qed.
Print Assumptions C04_force_oracle_accepts_model.

(* partial liveness = enabledness: a due head of the idle index and a free slot enable the pick; after it
   no scheduler step other than the decision is enabled, and exactly one decision is *)
Theorem C04_progress_partial : forall s c k,
  sch_pc s = SchSIdle -> sch_lookup c (sch_idle s) = Some k -> sch_is_min k (sch_idle s) = true ->
  k <= sch_clock s -> sch_pcount s < sch_max s ->
  exists s1, sch_exec s (SchAPick c) = Some s1 /\
    (forall a, a <> SchASkip -> a <> SchADispatch ->
       match a with SchAPick _ | SchAClearForce | SchAIncrease | SchAEnqueue => sch_exec s1 a = None | _ => True end) /\
    (if sch_wants (sch_force (sch_cks s c)) (sch_cks s c)
     then sch_exec s1 SchASkip = None /\
          exists s2, sch_exec s1 SchADispatch = Some s2 /\ sch_mem c (sch_pend s2) = true
     else sch_exec s1 SchADispatch = None /\
          exists s2, sch_exec s1 SchASkip = Some s2 /\ sch_mem c (sch_idle s2) = true).
Proof. exact sch_thm_progress. Qed.
Print Assumptions C04_progress_partial.

(* the executable oracle run over the implementation's start/end/snapshot events never fires on a
   trace the model produces, whatever the interleaving *)
Theorem C04_oracle_accepts_model : forall zone next max l,
  0 <= max -> sch_oracle max (sch_trace (sch_init zone next max) l) = None.
Proof. exact sch_oracle_accepts_model. Qed.
Print Assumptions C04_oracle_accepts_model.

(* non-vacuity: a concrete interleaving - activate and resume checkable 7, it becomes due, is picked,
   dispatched, its task starts; meanwhile it is paused and resumed (the "resume while pending" window),
   picked and dispatched a second time; the second task hits the single-flight guard *)
Example C04_nonvacuous :
  let l := [SchASetActive 7 true; SchAObjectHandler 7; SchASetPaused 7 false; SchAObjectHandler 7;
            SchATick 5; SchAPick 7; SchADispatch; SchAClearForce; SchAIncrease; SchAEnqueue;
            SchATaskUpdate 7 100; SchATaskTas 7;
            SchASetPaused 7 true; SchAObjectHandler 7; SchASetPaused 7 false; SchAObjectHandler 7;
            SchASetForce 7 true; SchASetNext 7 0; SchANextCheckChanged 7;
            SchAPick 7; SchADispatch; SchAClearForce; SchAIncrease; SchAEnqueue;
            SchATaskUpdate 7 200; SchATaskTas 7; SchASnap [7%nat]] in
  match sch_run (sch_init (fun _ => true) (fun _ => 3) 2) l with
  | Some s => sch_mem 7 (sch_pend s) = true /\ sch_cnt (7%nat, SchTRunning) (sch_tasks s) = 1%nat /\
              sch_cnt (7%nat, SchTReturned) (sch_tasks s) = 1%nat /\ sch_pcount s = 2 /\ sch_force (sch_cks s 7) = false
  | None => False
  end.
Proof. vm_compute. repeat split. Qed.

(* non-vacuity, asynchronous command slower than its interval: the task launches the command and finishes, the
   checkable is back in idle, becomes due again, is dispatched again; the second ExecuteCheck returns at the guard
   (no second start); the result arrives later and clears the flag *)
Example C04_nonvacuous_async :
  let l := [SchASetActive 7 true; SchAObjectHandler 7; SchASetPaused 7 false; SchAObjectHandler 7;
            SchATick 5; SchAPick 7; SchADispatch; SchAClearForce; SchAIncrease; SchAEnqueue;
            SchATaskUpdate 7 15; SchATaskTas 7; SchATaskLaunch 7; SchATaskDecrease 7; SchATaskFinish 7;
            SchATick 20; SchAPick 7; SchADispatch; SchAClearForce; SchAIncrease; SchAEnqueue;
            SchATaskUpdate 7 35; SchATaskTas 7; SchATaskDecrease 7; SchATaskFinish 7] in
  sch_trace (sch_init (fun _ => true) (fun _ => 3) 2) l = [SchEvStart 7] /\
  match sch_run (sch_init (fun _ => true) (fun _ => 3) 2) (l ++ [SchAFlightDone 7; SchAFlightResult 7 60]) with
  | Some s => sch_running (sch_cks s 7) = false /\ sch_pcount s = 0 /\ sch_flights s = [] /\ sch_mem 7 (sch_idle s) = true
  | None => False
  end.
Proof. vm_compute. repeat split. Qed.
