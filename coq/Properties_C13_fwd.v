(* C13, companion file - event::ExecuteCommand with an "endpoint" argument: who may make the receiver pass a command on,
   to whom, and where the relayed copies go.  Each theorem is closed by [exact] of a lemma proved in Msg/MzFwd*.v.
   Model: Msg/MzFwd.v (ExecuteCommandAPIHandler's forwarding branch, SyncRelayMessage / RelayMessageOne at zone granularity). *)
From Icv Require Import Base.Tac Msg.MzModel Msg.MzFacts Msg.MzProofs Msg.MzObs Msg.MzFwd Msg.MzFwdProofs Msg.MzFwdObs Msg.MzFwdOracleProofs.
From Coq Require Import String.
Local Open Scope nat_scope.
Local Open Scope string_scope.

(* whatever an ExecuteCommand message causes on the receiver - local execution, a forwarded copy, an error reply sent in
   place of a child - its sender is an authenticated, configured endpoint of the receiver's OWN zone or of its IMMEDIATE
   PARENT zone (stage 1 of the handler; stronger than "own zone or a zone above") *)
Theorem C13_exec_sender_entitled : forall t c s m x e ts row,
  let o := mz_exec_handle t c s m x e ts row in
  (mz_xapp o = true \/ mz_xc o <> [] \/ mz_xd o <> []) ->
  exists ez, mz_cauth s = true /\ mz_cident s = Some (Some ez) /\ (ez = mz_local c \/ mz_par t (mz_local c) = Some ez).
Proof. exact mz_exec_handle_entitled. Qed.
Print Assumptions C13_exec_sender_entitled.

(* ... hence in the receiver's zone or above it, as the statement demands for command execution *)
Theorem C13_exec_sender_above : forall t l s,
  mz_fwd_entitled t l s -> exists ez, mz_cauth s = true /\ mz_cident s = Some (Some ez) /\ mz_anc t l ez.
Proof. exact mz_fwd_entitled_above. Qed.
Print Assumptions C13_exec_sender_above.

(* a command is passed on only towards an endpoint of the receiver's own zone or of a zone below it *)
Theorem C13_forward_target_below : forall t c s x tz, mz_wf t ->
  mz_exec_route t c s x = MzXForward tz -> mz_xtgt x = MzXZone tz /\ mz_anc t tz (mz_local c).
Proof. exact mz_exec_forward_target. Qed.
Print Assumptions C13_forward_target_below.

(* the zones the forwarded copies are handed to: each lies on the path from the target endpoint's zone upwards AND is
   adjacent to the receiver (own zone, parent zone, direct child zone) - never a sibling or unrelated zone - and never the
   zone the message is attributed to (origin->FromZone).  Note the parent zone: SyncRelayMessage also hands the copy
   upwards; C13_exec_from_below_discarded shows it dies there. *)
Theorem C13_forward_relay_zones : forall t c s m x e ts row z, mz_wf t ->
  In z (mz_xc (mz_exec_handle t c s m x e ts row)) ->
  exists tz, mz_xtgt x = MzXZone tz /\ mz_anc t tz (mz_local c) /\
    (mz_path_plain t tz ->
       (mz_anc t tz z /\ (z = mz_local c \/ mz_par t (mz_local c) = Some z \/ mz_par t z = Some (mz_local c))) /\
       mz_from_zone (mz_local c) s <> Some z).
Proof. exact mz_exec_handle_xc. Qed.
Print Assumptions C13_forward_relay_zones.

(* the side condition of the two relay theorems: Zone::OnAllConfigLoaded refuses a zone whose parent is global, so only the
   target endpoint's own zone has to be a non-global one *)
Theorem C13_path_plain_from_parents : forall t tz,
  (forall z p, mz_par t z = Some p -> mz_glob t p = false) -> mz_glob t tz = false -> mz_path_plain t tz.
Proof. exact mz_path_plain_of_parents. Qed.
Print Assumptions C13_path_plain_from_parents.

(* error replies (exit 126: a child endpoint lacks the capability, or the child zone cannot see the checkable) go to the
   receiver's own zone and its parent only, and only for a target inside the receiver's subtree *)
Theorem C13_reply_relay_zones : forall t c s m x e ts row z, mz_wf t ->
  In z (mz_xd (mz_exec_handle t c s m x e ts row)) ->
  (exists tz, mz_xtgt x = MzXZone tz /\ mz_is_child_of t tz (mz_local c) = true) /\
  (mz_path_plain t (mz_local c) -> z = mz_local c \/ mz_par t (mz_local c) = Some z).
Proof. exact mz_exec_handle_xd. Qed.
Print Assumptions C13_reply_relay_zones.

(* a command arriving from a zone strictly below the receiver is discarded whatever it asks for ... *)
Theorem C13_exec_from_below_discarded : forall t c s x ez, mz_wf t ->
  mz_ep s = Some (Some ez) -> mz_anc t ez (mz_local c) -> ez <> mz_local c ->
  mz_exec_route t c s x = MzXDiscard.
Proof. exact mz_exec_from_below_discarded. Qed.
Print Assumptions C13_exec_from_below_discarded.

(* ... as is one from any zone that is neither the receiver's nor its immediate parent (grandparent, sibling, unrelated) ... *)
Theorem C13_exec_not_adjacent_discarded : forall t c s x ez,
  mz_ep s = Some (Some ez) -> ez <> mz_local c -> mz_par t (mz_local c) <> Some ez ->
  mz_exec_route t c s x = MzXDiscard.
Proof. exact mz_exec_not_adjacent_discarded. Qed.
Print Assumptions C13_exec_not_adjacent_discarded.

(* ... and one from a connection without Endpoint object *)
Theorem C13_exec_anonymous_discarded : forall t c s x, mz_ep s = None -> mz_exec_route t c s x = MzXDiscard.
Proof. exact mz_exec_anonymous. Qed.
Print Assumptions C13_exec_anonymous_discarded.

(* a discarded ExecuteCommand leaves nothing behind: nothing applied, no copy and no reply handed to any zone *)
Theorem C13_exec_discard_nothing : forall t c s m x e ts row,
  mz_exec_route t c s x = MzXDiscard ->
  let o := mz_exec_handle t c s m x e ts row in
  mz_xapp o = false /\ mz_xc o = [] /\ mz_xd o = [].
Proof. exact mz_exec_discard_nothing. Qed.
Print Assumptions C13_exec_discard_nothing.

(* what the code allows beyond a literal reading of the statement: routing does not look at accept_commands - a node that
   does not accept commands itself still passes them down to its children.  The flag is consulted where the command is
   executed: *)
Theorem C13_forward_ignores_accept_flags : forall t l ac ak ac' ak' s x,
  mz_exec_route t {| mz_local := l; mz_accept_config := ac; mz_accept_commands := ak |} s x =
  mz_exec_route t {| mz_local := l; mz_accept_config := ac'; mz_accept_commands := ak' |} s x.
Proof. exact mz_exec_route_flags. Qed.
Print Assumptions C13_forward_ignores_accept_flags.

(* the next hop: the copy handed to a direct child zone z comes from an endpoint of z's immediate parent l, so there it
   passes stage 1, is attributed to l, and - if meant for that node - is executed iff THAT node accepts commands *)
Theorem C13_forward_next_hop : forall t l z ac ak claim x, mz_wf t ->
  mz_par t z = Some l ->
  let c' := {| mz_local := z; mz_accept_config := ac; mz_accept_commands := ak |} in
  let s' := {| mz_cauth := true; mz_cident := Some (Some l); mz_cclaim := claim |} in
  mz_exec_stage1 t z s' = true /\
  mz_from_zone z s' = Some l /\
  (mz_xtgt x = MzXNone \/ mz_xtgt x = MzXLocalEp -> mz_exec_route t c' s' x = MzXEnqueue) /\
  forall m, mz_authorise_core t c' s' m true MzPLocalOrParentThenOrigin MzFCommands = ak.
Proof. exact mz_exec_next_hop. Qed.
Print Assumptions C13_forward_next_hop.

(* on the local-execution path the extended model is the row of the method in the generated table (C13_sound, C13_flags) *)
Theorem C13_exec_local_is_table_row : forall t c s m ts,
  mz_applied (mz_run t c s m ts "event::ExecuteCommand") =
  (if mz_is_some (mz_ep s) && mz_ts_is ts MzTsOld then false
   else match mz_exec_row with Some (e', p, f) => mz_authorise_core t c s m e' p f | None => false end).
Proof. exact mz_exec_enqueue_is_run. Qed.
Print Assumptions C13_exec_local_is_table_row.

(* the executable oracle run over implementation traces of the forwarding family never fires on an answer of the model *)
Theorem C13_forward_oracle_accepts_model : forall t c s m x e ts, mz_wf t ->
  mz_xoracle t c s m x (mz_exec_run t c s m x e ts) = 0.
Proof. exact mz_xoracle_accepts_model. Qed.
Print Assumptions C13_forward_oracle_accepts_model.

(* non-vacuity: master 0 - satellite 1 - agent 2 - sub-agent 3, plus a sibling satellite 4.  Seen from the satellite:
   a command from the master for the sub-agent's endpoint is handed to the agent zone and to the own zone's peer; the same
   command from the agent zone, from the sibling or from an unauthenticated connection is discarded; a command for an
   endpoint of the sibling zone is discarded; accept_commands = false changes nothing in the routing *)
Example C13_fwd_nonvacuous :
  let t := [ {| mz_zparent := None; mz_zglobal := false |};
             {| mz_zparent := Some 0; mz_zglobal := false |};
             {| mz_zparent := Some 1; mz_zglobal := false |};
             {| mz_zparent := Some 2; mz_zglobal := false |};
             {| mz_zparent := Some 0; mz_zglobal := false |} ] in
  let c := {| mz_local := 1; mz_accept_config := false; mz_accept_commands := false |} in
  let from a z := {| mz_cauth := a; mz_cident := Some (Some z); mz_cclaim := None |} in
  let x tz := {| mz_xtgt := MzXZone tz; mz_xcap := true; mz_xhost := Some (Some 3) |} in
  let e := {| mz_rnep := fun _ => 2; mz_rself := false; mz_rmaster := true; mz_rsndmaster := false |} in
  let m := {| mz_objzone := Some 3; mz_is_cmdep := false |} in
  mz_exec_route t c (from true 0) (x 3) = MzXForward 3 /\
  mz_xc (mz_exec_handle t c (from true 0) m (x 3) e MzTsNone None) = [2; 1] /\
  mz_exec_route t c (from true 2) (x 3) = MzXDiscard /\
  mz_exec_route t c (from true 4) (x 3) = MzXDiscard /\
  mz_exec_route t c (from false 0) (x 3) = MzXDiscard /\
  mz_exec_route t c (from true 0) (x 4) = MzXDiscard /\
  mz_path_plain t 3.
Proof.
  vm_compute. repeat split; try reflexivity.
  intros a H. repeat (inversion H as [|? p ? P H']; subst; clear H; try reflexivity;
                      vm_compute in P; try discriminate P; inversion P; subst; clear P; rename H' into H).
Qed.
