(* C05 - the property theorems, nothing else.  Each is closed by [exact] of a lemma proved in
   Ck/CkDtProofs.v / Ck/CkDtObs.v and followed by Print Assumptions.
   Model: Ck/CkFull.v (dt_in_effect, dt_is_triggered, dt_is_expired, dt_can_be_triggered, trigger_dt,
   trigger_all, do_dt_add, remove_dt, do_dt_start_timer, do_dt_cleanup, do_result). *)
From Icv Require Import Base.Tac Ck.CkState Ck.CkFull Ck.CkDtDefs Ck.CkDtProofs Ck.CkDtChain Ck.CkDtObs Ck.CkDtTimer Ck.CkDtTimerProofs.
Local Open Scope Z_scope.

(* ---- in effect: fixed throughout [start,end); flexible for duration seconds from the trigger time ---- *)
Theorem C05_in_effect : forall now d,
  dt_in_effect now d = true <->
  (d_fixed d = true /\ d_start d <= now < d_end d) \/
  (d_fixed d = false /\ d_trigger d <> 0 /\ now < d_trigger d + d_duration d).
Proof. exact in_effect_char. Qed.
Print Assumptions C05_in_effect.

(* in downtime exactly when some attached downtime is in effect; depth = number of downtimes in effect *)
Theorem C05_in_downtime : forall now f,
  in_downtime now f = true <-> exists d, In d (f_dts f) /\ dt_in_effect now d = true.
Proof. exact in_downtime_char. Qed.
Print Assumptions C05_in_downtime.

Theorem C05_depth : forall now f,
  downtime_depth now f = Z.of_nat (length (filter (dt_in_effect now) (f_dts f))) /\
  (0 < downtime_depth now f <-> in_downtime now f = true).
Proof. exact depth_char. Qed.
Print Assumptions C05_depth.

(* ---- one TriggerDowntime call, any fuel, any chain: every downtime is either untouched, or it was
   untriggered (trigger_time = 0) and inside [start,end] and now carries the trigger time passed in.
   Hence: a trigger time once set never changes, and nothing triggers outside its window. ---- *)
Theorem C05_trigger_monotone : forall fuel now p id t ds,
  NoDup (ids ds) ->
  Forall2 (fun d d' => d' = d \/ (d_trigger d = 0 /\ c5_inwin now d = true /\ d' = set_trig d t))
          ds (fst (trigger_dt fuel now p id t ds)).
Proof. exact trigger_dt_Rl. Qed.
Print Assumptions C05_trigger_monotone.

(* the same for every operation of C05's quantifier, as the two executable checks (1: attributes and a set
   trigger time never change, nothing appears except what dt_add creates; 2: whatever became triggered in
   the step is inside its window at the step's instant - a downtime that expired untriggered has
   end_time < now, so it can never trigger later) *)
Theorem C05_no_late_trigger : forall c now prev f o,
  DtInv now f -> c5_wf_step prev (c5_mk c now f o) = true ->
  c5_chk_mono (c5_mk c now f o) = true /\ c5_chk_nolate (c5_mk c now f o) = true.
Proof. exact step_checks_mono_nolate. Qed.
Print Assumptions C05_no_late_trigger.

(* ---- flexible trigger: Checkable::TriggerDowntimes(t) gives every untriggered downtime that is inside its
   window the trigger time t (the result's execution_end) ---- *)
Theorem C05_flexible_trigger : forall now p t ds d,
  NoDup (ids ds) -> In d ds -> d_trigger d = 0 -> c5_inwin now d = true ->
  find_dt (d_id d) (fst (trigger_all now p t ds)) = Some (set_trig d t).
Proof. exact trigger_all_complete. Qed.
Print Assumptions C05_flexible_trigger.

(* ... as a check on whole ProcessCheckResult steps: non-OK accepted result => every untriggered downtime
   in its window gets execution_end; OK or dropped result => nothing becomes triggered *)
Theorem C05_trigger_on_result : forall c now prev f o,
  DtInv now f -> c5_wf_step prev (c5_mk c now f o) = true ->
  c5_chk_result (c_kind (fc_base c)) (c5_mk c now f o) = true.
Proof. exact step_check_result. Qed.
Print Assumptions C05_trigger_on_result.

(* ---- chained triggers, EVERY level.  Ord: in creation order no downtime lists itself or anything created before it in
   `triggers` (an invariant: Downtime::AddDowntime takes the trigger downtime as an existing object and appends the new
   name to its `triggers` after creating the new object; C05_chain_order).  Under Ord the recursion only moves
   forward in the list, so any fuel above the number of downtimes behind the root (chain_fuel = all of them + 1) is
   never exhausted, and one TriggerDowntime(t) call on an untriggered downtime inside its window gives every downtime
   reachable from it through `triggers` along untriggered downtimes inside their own windows the same trigger time t. ---- *)
Theorem C05_chain : forall fuel now p id t ds cid,
  NoDup (ids ds) -> Ord ds -> t <> 0 -> (sfx id ds < fuel)%nat ->
  chain_path now ds id cid -> c5_trig_of cid (fst (trigger_dt fuel now p id t ds)) = t.
Proof. exact chain_all_levels. Qed.
Print Assumptions C05_chain.

(* the same as a closure property of every call (also for roots that are not triggered themselves): whatever the call
   changes has handed t to each untriggered, in-window downtime it lists *)
Theorem C05_chain_closed : forall fuel now p id t ds,
  NoDup (ids ds) -> Ord ds -> (forall d, find_dt id ds = Some d -> (sfx id ds < fuel)%nat) ->
  Closed now t ds (fst (trigger_dt fuel now p id t ds)).
Proof. exact trigger_dt_closed. Qed.
Print Assumptions C05_chain_closed.

(* creation order is preserved by every operation of the quantifier (names may even be reused after a removal: the new
   object is last and nothing is chained to ... by it yet; a downtime that still lists the reused name then has the new
   object as an additional chained downtime - it is resolved by name at trigger time, exactly as in the code) *)
Theorem C05_chain_order : forall c now prev f o,
  DtInv now f -> Ord (f_dts f) -> c5_wf_step prev (c5_mk c now f o) = true -> Ord (f_dts (fst (full_step c now f o))).
Proof. exact step_Ord. Qed.
Print Assumptions C05_chain_order.

(* ---- removal: the survivors of RemoveDowntime are a sub-list of what was there (nothing else changes) ---- *)
Theorem C05_remove_survivors : forall fuel now p id ch r ds,
  exists g, fst (fst (remove_dt fuel now p id ch r ds)) = filter g ds.
Proof. exact remove_dt_filter. Qed.
Print Assumptions C05_remove_survivors.

(* ---- start / end once.  For every operation of C05's quantifier, from every state whose trigger and entry
   times lie in (0, now] (DtInv2, an invariant of all runs, see C05_oracle_accepts_model):
   - exactly one DowntimeStart request per downtime that becomes triggered in the step (none while paused),
     PROVIDED the step does not show the lost-start signature (a recorded finding, refuted below);
   - OnDowntimeRemoved exactly for the downtimes that disappear, which only dt_remove / the clean-up timer
     cause; exactly one DowntimeEnd request per removed downtime that had been triggered, none for one that
     never triggered. ---- *)
Theorem C05_start_end_once : forall c now prev f o,
  DtInv2 now f -> c5_wf_step prev (c5_mk c now f o) = true ->
  let s := c5_mk c now f o in
  (c5_sig_loststart (c_kind (fc_base c)) s = false -> c5_chk_start s = true) /\
  c5_chk_removed s = true /\ c5_chk_end s = true.
Proof. exact start_end_once_step. Qed.
Print Assumptions C05_start_end_once.

(* ---- clean-up and ownership: the clean-up timer removes the downtime iff it is expired; a removal "by user"
   never removes a downtime owned by a schedule (the call on an owned downtime is refused and changes nothing) ---- *)
Theorem C05_cleanup : forall c now prev f o,
  DtInv now f -> c5_wf_step prev (c5_mk c now f o) = true ->
  c5_chk_owned (c5_mk c now f o) = true /\ c5_chk_cleanup (c5_mk c now f o) = true.
Proof. exact cleanup_owned_step. Qed.
Print Assumptions C05_cleanup.

(* adding a downtime: a fixed one is triggered at once iff its window is open; a flexible one iff its window is
   open and the object already has a problem (has a check result and it is not OK/Up) - in particular NOT on a
   never-checked object (the former finding pending-flexible, fixed in /repo 7c445bb) *)
Theorem C05_trigger_on_add : forall c now prev f o,
  DtInv now f -> c5_wf_step prev (c5_mk c now f o) = true ->
  c5_chk_add (c5_mk c now f o) = true.
Proof. exact step_check_add. Qed.
Print Assumptions C05_trigger_on_add.

(* ---- the oracle run over implementation traces: for all operation sequences of C05's quantifier (monotone
   positive clock, results not from the future, fresh names: c5_wf_run) that show none of the recorded findings'
   signatures (c5_clean_run), every step of the model's trace passes EVERY check (1-12) of the base oracle ---- *)
Theorem C05_oracle_accepts_model : forall c h prev f,
  DtInv3 prev f -> c5_wf_run c prev f h = true -> c5_clean_run c f h = true ->
  Forall (fun s => c5_step_all (c_kind (fc_base c)) s = true) (c5_model_trace c f h).
Proof. exact model_trace_all_checks. Qed.
Print Assumptions C05_oracle_accepts_model.

(* without the hypothesis on the findings: checks 1, 2, 7, 11 hold on every run *)
Theorem C05_oracle_accepts_model_unconditional : forall c h prev f,
  DtInv prev f -> c5_wf_run c prev f h = true ->
  Forall (fun s => c5_step_proved (c_kind (fc_base c)) s = true) (c5_model_trace c f h).
Proof. exact model_trace_proved_checks. Qed.
Print Assumptions C05_oracle_accepts_model_unconditional.

(* ---- the clean-up timer (Ck/CkDtTimer.v: SetupCleanupTimer / Pause / Resume / the timer pump).
   TInv = DtInv2 + every downtime has a timer entry, an armed timer is due at the downtime's expiry instant
   (fixed or untriggered: end_time, else trigger_time + duration), the timer of an unpaused Downtime object is armed.
   TInv holds initially and is preserved by every operation (incl. pause/resume of the Downtime object);
   every step of every run passes the proved base checks (when the step runs; a clean-up whose timer is not armed
   and due changes nothing) and the timer check 14 ---- *)
Theorem C05_timer_oracle_accepts_model : forall c h prev ts,
  TInv prev ts -> c5_twf_run c prev ts h = true -> c5_tclean_run c ts h = true ->
  Forall (fun s => c5_tstep_all (c_kind (fc_base c)) s = true) (c5_tmodel_trace c ts h).
Proof. exact tmodel_trace_all_checks. Qed.
Print Assumptions C05_timer_oracle_accepts_model.

(* expired downtimes are removed automatically: for a downtime whose object is not paused, the first timer pump
   strictly after its expiry instant runs the clean-up handler, removes the downtime, and requests exactly one
   DowntimeEnd if it had been triggered (none otherwise) *)
Theorem C05_timer_pump : forall c now ts d,
  TInv now ts -> In d (f_dts (ts_f ts)) ->
  (forall t, c5_tm_find (d_id d) (ts_tms ts) = Some t -> tm_paused t = false) ->
  c5_expiry d < now ->
  c5_runs now (ts_tms ts) (XOp (OpDtCleanup (d_id d))) = true /\
  c5_has (d_id d) (f_dts (ts_f (fst (c5_tstep c now ts (XOp (OpDtCleanup (d_id d))))))) = false /\
  c5_chk_end (c5_mk c now (ts_f ts) (OpDtCleanup (d_id d))) = true.
Proof. exact pump_removes. Qed.
Print Assumptions C05_timer_pump.

(* non-vacuity of the timer theorems: fail-over and fail-back before expiry; pumps at 1020 (paused), 1100 (= end_time,
   not yet due) do nothing, the pump at 1101 removes the downtime with one DowntimeEnd; without the fail-back the
   downtime stays (Pause() stops the timer by design) *)
Theorem C05_timer_failover :
  TInv 0 c5_tinit /\ c5_twf_run wit_cfg 0 c5_tinit wit_failover = true /\ c5_tclean_run wit_cfg c5_tinit wit_failover = true /\
  c5_toracle KService (c5_tmodel_trace wit_cfg c5_tinit wit_failover) = [] /\
  f_dts (ts_f (c5_trun wit_cfg c5_tinit wit_failover)) = [] /\
  fold_left (fun a s => a + c5_cnt c5_is_end (c5_outs (ct_base s))) (c5_tmodel_trace wit_cfg c5_tinit wit_failover) 0 = 1 /\
  map (fun s => c5_runs (c5_now (ct_base s)) (ct_tm_pre s) (ct_xop s)) (c5_tmodel_trace wit_cfg c5_tinit wit_failover)
    = [true; true; false; false; false; false; true] /\
  length (f_dts (ts_f (c5_trun wit_cfg c5_tinit wit_paused))) = 1%nat.
Proof. exact failover_accepted. Qed.
Print Assumptions C05_timer_failover.

(* ---- recorded findings: the faithful model violates the statement; concrete witnesses ---- *)
(* formerly C05_pending_flexible_refuted: since /repo 7c445bb the same run is accepted by the whole oracle *)
Theorem C05_pending_flexible_fixed :
  c5_wf_run wit_cfg 0 init_full wit_pending = true /\
  c5_oracle KService (c5_model_trace wit_cfg init_full wit_pending) = [] /\
  total_cnt c5_is_start (c5_model_trace wit_cfg init_full wit_pending) = 0 /\
  exists s, In s (c5_model_trace wit_cfg init_full wit_pending) /\
            c5_checked s = false /\ c5_problem s = false /\ c5_trig_of 1 (c5_post s) = 0 /\
            length (filter (dt_in_effect (c5_now s)) (c5_post s)) = 0%nat.
Proof. exact pending_flexible_fixed. Qed.
Print Assumptions C05_pending_flexible_fixed.

Theorem C05_lost_start_refuted :
  c5_wf_run wit_cfg 0 init_full wit_loststart = true /\
  total_cnt c5_is_start (c5_model_trace wit_cfg init_full wit_loststart) = 0 /\
  total_cnt c5_is_end (c5_model_trace wit_cfg init_full wit_loststart) = 1 /\
  exists s, In s (c5_model_trace wit_cfg init_full wit_loststart) /\
            c5_chk_start s = false /\ c5_sig_loststart KService s = true.
Proof. exact lost_start_refuted. Qed.
Print Assumptions C05_lost_start_refuted.

(* formerly C05_start_at_end_instant_refuted: since /repo 51cd8e9 the start timer at exactly end_time no longer
   announces the downtime again (1 DowntimeStart instead of 3) and the whole oracle accepts the run *)
Theorem C05_start_at_end_instant_fixed :
  c5_wf_run wit_cfg 0 init_full wit_endinstant = true /\
  total_cnt c5_is_start (c5_model_trace wit_cfg init_full wit_endinstant) = 1 /\
  c5_oracle KService (c5_model_trace wit_cfg init_full wit_endinstant) = [].
Proof. exact start_at_end_instant_fixed. Qed.
Print Assumptions C05_start_at_end_instant_fixed.

(* non-vacuity: a reachable run with a fixed downtime started by the timer, a flexible one chained to it,
   a non-OK result, a depth read, a clean-up and a removal meets every premise, shows none of the findings'
   signatures, and the complete oracle accepts it with two DowntimeStart and two DowntimeEnd requests *)
Example C05_nonvacuous_premises :
  DtInv3 0 init_full /\ c5_wf_run wit_cfg 0 init_full wit_clean = true /\ c5_clean_run wit_cfg init_full wit_clean = true.
Proof. exact clean_run_premises. Qed.

Example C05_nonvacuous :
  c5_wf_run wit_cfg 0 init_full wit_clean = true /\
  c5_oracle KService (c5_model_trace wit_cfg init_full wit_clean) = [] /\
  total_cnt c5_is_start (c5_model_trace wit_cfg init_full wit_clean) = 2 /\
  total_cnt c5_is_end (c5_model_trace wit_cfg init_full wit_clean) = 2 /\
  forallb (fun s => negb (c5_sig_any KService s)) (c5_model_trace wit_cfg init_full wit_clean) = true.
Proof. exact clean_run_accepted. Qed.
