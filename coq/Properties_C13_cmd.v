(* C13, companion file - local execution of event::ExecuteCommand (ClusterEvents::ExecuteCheckFromQueue) for every kind of
   command: check_command, event_command, notification_command, with and without "source" (the execute-command API
   action), command present / missing, deadline expired / not.  A command is EXECUTED only with accept_commands on. *)
From Icv Require Import Base.Tac Facts.Facts_c13 Msg.MzModel Msg.MzFacts Msg.MzProofs Msg.MzObs Msg.MzOracleProofs
                        Msg.MzFwd Msg.MzFwdObs Msg.MzFwdOracleProofs Msg.MzExec Msg.MzExecProofs.
From Coq Require Import String.
Local Open Scope nat_scope.
Local Open Scope string_scope.

(* every row of the generated table whose method the specification classifies as command execution, every command type,
   every combination of source / deadline / existence: executed => accept_commands is on, the sender is an authenticated,
   configured endpoint of the receiver's zone or a zone above, the command exists, its deadline has not passed, and the
   type is one the code executes (a notification command only with "source") *)
Theorem C13_executed_needs_accept : forall r, In r mz_table -> mz_class_of (mz_rmethod r) = Some MzKCommand ->
  forall t c s m ts q, mz_wf t -> mz_zoned s ->
  mz_qexec (mz_exq_handle t c s m ts (Some (mz_row_core r)) q) = true ->
  mz_accept_commands c = true /\
  (exists ez, mz_cauth s = true /\ mz_cident s = Some (Some ez) /\ mz_anc t (mz_local c) ez) /\
  mz_qexists q = true /\ (mz_qsource q = true -> mz_qexpired q = false) /\
  match mz_qtype q with MzCCheck | MzCEvent => True | MzCNotification => mz_qsource q = true | MzCOther => False end.
Proof. exact mz_exq_sound. Qed.
Print Assumptions C13_executed_needs_accept.

(* the flag half needs no hypothesis at all: with accept_commands off nothing is executed, whoever sends whatever *)
Theorem C13_accept_off_nothing_executed : forall r, In r mz_table -> mz_class_of (mz_rmethod r) = Some MzKCommand ->
  forall t c s m ts q, mz_accept_commands c = false ->
  mz_qexec (mz_exq_handle t c s m ts (Some (mz_row_core r)) q) = false.
Proof. exact mz_exq_handle_refused_flag. Qed.
Print Assumptions C13_accept_off_nothing_executed.

(* ExecuteCheckFromQueue itself: what a refusal by the flag answers (an ExecutedCommand with exit code 126 when an
   execution record waits for it, else an UNKNOWN check result) - and that it executes nothing, for EVERY command type;
   a failed origin check answers nothing *)
Theorem C13_command_refusal : forall o a q,
  fst (mz_exq o false q) = false /\
  (o = true -> (mz_qsource q && mz_qexpired q) = false ->
     snd (mz_exq o false q) = if mz_qsource q then MzQExecuted 126 else MzQCheckUnknown) /\
  mz_exq false a q = (false, MzQNoReply).
Proof.
  intros o a q. destruct (mz_exq_refused o q) as [A B]. exact (conj A (conj B (mz_exq_origin_refused a q))).
Qed.
Print Assumptions C13_command_refusal.

(* the shapes the model transcribes are what the translator finds in ExecuteCheckFromQueue now: the accept_commands branch
   is a top-level statement that answers and ENDS in an unconditional return before any call that executes a command;
   three command types, the notification command only with "source" (None = not recognised: the run decides, logged) *)
Theorem C13_command_rules_source :
  match f_mz_exq_refusal_rule with Some r => r = "reply_and_return_before_any_execution" | None => True end /\
  match f_mz_exq_types_rule with Some r => r = "check_event_notification_with_source" | None => True end.
Proof. exact mz_exq_rules_now. Qed.
Print Assumptions C13_command_rules_source.

(* the executable oracle of this family ("executed => accept_commands on and sender entitled") accepts every answer of
   the extracted model *)
Theorem C13_command_oracle_accepts_model : forall t c s m ts q,
  mz_wf t -> mz_qoracle t c s m (mz_exq_run t c s m ts q) = 0.
Proof. exact mz_qoracle_accepts_model. Qed.
Print Assumptions C13_command_oracle_accepts_model.

(* non-vacuity: parent (0) - receiver (1).  From the parent zone, with accept_commands on, an existing event command
   without "source" is executed and a notification command without "source" is not; with the flag off neither a check nor an
   event command runs and the sender gets the UNKNOWN check result / the exit-126 answer; a sender from below runs nothing *)
Example C13_cmd_nonvacuous :
  let t := [ {| mz_zparent := None; mz_zglobal := false |}; {| mz_zparent := Some 0; mz_zglobal := false |};
             {| mz_zparent := Some 1; mz_zglobal := false |} ] in
  let c ak := {| mz_local := 1; mz_accept_config := false; mz_accept_commands := ak |} in
  let from z := {| mz_cauth := true; mz_cident := Some (Some z); mz_cclaim := None |} in
  let m := {| mz_objzone := None; mz_is_cmdep := false |} in
  let q ty src := {| mz_qtype := ty; mz_qsource := src; mz_qexpired := false; mz_qexists := true |} in
  let run ak z ty src := let o := mz_exq_run t (c ak) (from z) m MzTsNone (q ty src) in (mz_qexec o, mz_qrep o) in
  run true 0 MzCEvent false = (true, MzQNoReply) /\ run true 0 MzCNotification false = (false, MzQNoReply) /\
  run true 0 MzCNotification true = (true, MzQNoReply) /\
  run false 0 MzCEvent false = (false, MzQCheckUnknown) /\ run false 0 MzCCheck true = (false, MzQExecuted 126) /\
  run true 2 MzCEvent false = (false, MzQNoReply).
Proof. vm_compute. repeat split; reflexivity. Qed.
