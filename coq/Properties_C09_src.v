(* C09 - theorems over the functions TRANSLATED from /repo on every run (tools/cxx2coq.py -> coq/Facts/Facts_fn_*.v).
   Each theorem is guarded by `src_<fn>_recognised = true`: a C++ shape outside the translator's subset leaves it
   trivially true (logged as "xlate: ... not recognised", tie by the correspondence run only); a recognised shape that no
   longer equals the model breaks the proof in coq/Src and with it this file.  Only `exact` + Print Assumptions here. *)
From Icv Require Import Base.Tac Src.XlPrelude Macro.MxModel Facts.Facts_fn_macro Src.SrcMacro Src.SrcProps.
Local Open Scope Z_scope.

Theorem C09_src_exit_status_to_state : src_exit_status_to_state_recognised = true ->
  forall st, src_exit_status_to_state st = mx_exit_to_state st.
Proof. exact src_exit_status_to_state_eq. Qed.
Print Assumptions C09_src_exit_status_to_state.

Theorem C09_src_exit_map : src_exit_status_to_state_recognised = true -> forall st,
  (st = 0 -> src_exit_status_to_state st = 0) /\ (st = 1 -> src_exit_status_to_state st = 1) /\
  (st = 2 -> src_exit_status_to_state st = 2) /\ (st = 3 -> src_exit_status_to_state st = 3) /\
  (st <> 0 -> st <> 1 -> st <> 2 -> src_exit_status_to_state st = 3).
Proof. exact src_exit_map. Qed.
Print Assumptions C09_src_exit_map.

Example C09_src_nonvacuous : src_exit_status_to_state_recognised = true -> src_exit_status_to_state 2 = 2 /\ src_exit_status_to_state 137 = 3 /\ src_exit_status_to_state (-1) = 3.
Proof. intro H; xl_rec H. all: repeat split; vm_compute; reflexivity. Qed.

