(* C09 - theorems over the functions TRANSLATED from /repo on every run (tools/cxx2coq.py -> coq/Facts/Facts_fn_*.v).
   Each theorem is guarded by `src_<fn>_recognised = true`: a C++ shape outside the translator's subset leaves it
   trivially true (logged as "xlate: ... not recognised", tie by the correspondence run only); a recognised shape that no
   longer equals the model breaks the proof in coq/Src and with it this file.  Only `exact` + Print Assumptions here. *)
From Icv Require Import Base.Tac Src.XlPrelude Macro.MxModel Facts.Facts_fn_macro Src.SrcMacro Src.SrcProps.
Local Open Scope Z_scope.

Theorem C09_src_exit_status_to_state : src_exit_status_to_state_recognised = true ->
  forall st, src_exit_status_to_state st = mx_exit_to_state st.
Proof. exact src_exit_status_to_state_eq. Qed.
Print Assumptions C09_src_exit_status_to_state.

Theorem C09_src_exit_map : src_exit_status_to_state_recognised = true -> forall st,
  (st = 0 -> src_exit_status_to_state st = 0) /\ (st = 1 -> src_exit_status_to_state st = 1) /\
  (st = 2 -> src_exit_status_to_state st = 2) /\ (st = 3 -> src_exit_status_to_state st = 3) /\
  (st <> 0 -> st <> 1 -> st <> 2 -> src_exit_status_to_state st = 3).
Proof. exact src_exit_map. Qed.
Print Assumptions C09_src_exit_map.

Example C09_src_nonvacuous : src_exit_status_to_state_recognised = true -> src_exit_status_to_state 2 = 2 /\ src_exit_status_to_state 137 = 3 /\ src_exit_status_to_state (-1) = 3.
Proof. intro H; xl_rec H. all: repeat split; vm_compute; reflexivity. Qed.


(* ---------------------------------------------------------------------------------------------------------------------
   Round 2 (notes/XLATE.md section 8): the argument assembly and the shell escaping as translated from /repo on this run
   (coq/Facts/Facts_fn_macro2.v); byte strings are lists of N, `+` is concatenation, literals are their bytes;
   EscapeShellArg is read with _WIN32 not defined. *)
From Icv Require Import Macro.MxDefs Facts.Facts_fn_macro2 Src.SrcMacro2.
From Coq Require Import NArith.

Theorem C09_src_add_argument_helper : src_macroprocessor_add_argument_helper_recognised = true ->
  forall key value add_key add_value sep_set sep,
    src_macroprocessor_add_argument_helper key value add_key add_value sep_set sep
    = mx_add_arg key value add_key add_value (xm_sep sep_set sep).
Proof. exact src_macroprocessor_add_argument_helper_eq. Qed.
Print Assumptions C09_src_add_argument_helper.

(* an array-valued argument: key (per skip_key / repeat_key) and value for every element = mx_emit_arr *)
Theorem C09_src_emit_array : src_resolve_arguments_emit_array_recognised = true ->
  src_macroprocessor_add_argument_helper_recognised = true ->
  forall c sep_set sep l, mx_ca_sep c = xm_sep sep_set sep ->
    src_resolve_arguments_emit_array (mx_ca_key c) (mx_ca_skip_key c) (mx_ca_repeat_key c) (mx_ca_skip_value c) sep_set sep (map mx_to_string l)
    = mx_emit_arr c true l.
Proof. exact src_resolve_arguments_emit_array_eq. Qed.
Print Assumptions C09_src_emit_array.

(* the shell quoting every macro value goes through *)
Theorem C09_src_escape_shell_arg : src_utility_escape_shell_arg_recognised = true ->
  forall s, src_utility_escape_shell_arg s = mx_escape_shell_arg s.
Proof. exact src_utility_escape_shell_arg_eq. Qed.
Print Assumptions C09_src_escape_shell_arg.

Example C09_src_round2_nonvacuous : src_utility_escape_shell_arg_recognised = true -> src_macroprocessor_add_argument_helper_recognised = true ->
  (* a'b  ->  'a'\''b' ;  -k=v with a separator *)
  src_utility_escape_shell_arg [97; 39; 98]%N = [39; 97; 39; 92; 39; 39; 98; 39]%N /\
  src_macroprocessor_add_argument_helper [45; 107]%N [118]%N true true true [61]%N = [[45; 107; 61; 118]%N] /\
  src_macroprocessor_add_argument_helper [45; 107]%N [118]%N true true false [61]%N = [[45; 107]%N; [118]%N].
Proof. intros H1 H2; xl_rec H1; xl_rec H2. all: repeat split; vm_compute; reflexivity. Qed.
