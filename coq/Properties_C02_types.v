(* C02 - field widths (companion file; facts regenerated from the .ti declarations on every run, tools/facts_types.py):
   the suppressed-notification bit set holds all nine NotificationType bits.  The declared C++ type of Checkable.suppressed_notifications must store every value up to 511; a narrowing of the
   declaration makes this theorem stop compiling, an unrecognised declaration degrades to "compared only". *)
From Icv Require Import Base.Tac Ck.CkFacts Facts.Facts_types.
Local Open Scope Z_scope.

Theorem C02_field_widths : opt_is f_ti_Checkable_suppressed_notifications_max (fun m => 511 <= m).
Proof.
  unfold opt_is. destruct f_ti_Checkable_suppressed_notifications_max as [m|] eqn:E; [|exact I].
  vm_compute in E. first [discriminate E | injection E as <-; vm_compute; discriminate].
Qed.
Print Assumptions C02_field_widths.
