(* C16 - frame independence: with one frame per EvaluateApplyRule call, what a rule creates at a target
   is a function of (skipFilter, globals, rule, target) - whatever ran before, in whatever order. *)
From Icv Require Import Base.Tac Apply.ArModel Apply.ArObs Apply.ArProofs Apply.ArOrder Apply.ArFrame.
From Coq Require Import Permutation.
Local Open Scope Z_scope.

(* ------------------------------------------------------------------ Dictionary::Set vs binding lists *)
Lemma ar_assoc_set : forall x k (v : ar_value) fr,
  ar_assoc x (ar_fr_set k v fr) = if ar_str_eqb x k then Some v else ar_assoc x fr.
Proof.
  intros x k v fr. induction fr as [|[k' v'] r IH]; simpl.
  - reflexivity.
  - destruct (ar_str_eqb k k') eqn:E; simpl.
    + apply ar_str_eqb_eq in E. subst k'. destruct (ar_str_eqb x k); reflexivity.
    + rewrite IH. destruct (ar_str_eqb x k') eqn:E1; auto.
      destruct (ar_str_eqb x k) eqn:E2; auto.
      apply ar_str_eqb_eq in E1. apply ar_str_eqb_eq in E2. subst. rewrite ar_str_eqb_refl in E. discriminate.
Qed.

(* two binding structures that answer every lookup alike *)
Definition ar_fr_eqv (a b : list (ar_str * ar_value)) : Prop := forall x, ar_assoc x a = ar_assoc x b.

Lemma ar_assoc_app : forall {A} x (a b : list (ar_str * A)),
  ar_assoc x (a ++ b) = match ar_assoc x a with Some v => Some v | None => ar_assoc x b end.
Proof.
  induction a as [|[k v] a IH]; simpl; intros; auto. destruct (ar_str_eqb x k); auto.
Qed.

Lemma ar_fr_sets_assoc : forall s fr x, ar_assoc x (ar_fr_sets s fr) = ar_assoc x (s ++ fr).
Proof.
  induction s as [|[k v] s IH]; simpl; intros; auto.
  rewrite ar_assoc_set, IH. reflexivity.
Qed.

Lemma ar_fr_eqv_app : forall s a b, ar_fr_eqv a b -> ar_fr_eqv (s ++ a) (s ++ b).
Proof. intros s a b H x. rewrite !ar_assoc_app. rewrite H. reflexivity. Qed.

Lemma ar_fr_eqv_app_tail : forall a b s, ar_fr_eqv a b -> ar_fr_eqv (a ++ s) (b ++ s).
Proof. intros a b s H x. rewrite !ar_assoc_app. rewrite H. reflexivity. Qed.

Lemma ar_fr_sets_eqv : forall s fr l, ar_fr_eqv fr l -> ar_fr_eqv (ar_fr_sets s fr) (s ++ l).
Proof. intros s fr l H x. rewrite ar_fr_sets_assoc. apply ar_fr_eqv_app. exact H. Qed.

(* ------------------------------------------------------------------ evaluation only looks names up *)
Definition ar_env_eqv (e1 e2 : ar_env) : Prop :=
  ar_fr_eqv (ar_locals e1) (ar_locals e2) /\ ar_globals e1 = ar_globals e2 /\ ar_this e1 = ar_this e2 /\ ar_fn e1 = ar_fn e2.

Lemma ar_eval_env_eqv : forall e1 e2 e, ar_env_eqv e1 e2 -> ar_eval e1 e = ar_eval e2 e.
Proof.
  intros e1 e2 e [L [G [T F]]]. induction e; simpl; auto.
  - unfold ar_lookup. rewrite L, G. reflexivity.
  - rewrite IHe1, IHe2. reflexivity.
  - rewrite IHe1, IHe2. reflexivity.
  - rewrite IHe1, IHe2. reflexivity.
  - rewrite IHe1, IHe2. reflexivity.
  - rewrite IHe1, IHe2. reflexivity.
  - rewrite IHe. reflexivity.
  - rewrite IHe1, IHe2. reflexivity.
  - rewrite IHe1, IHe2, F. reflexivity.
Qed.

Lemma ar_mk_env_eqv : forall genv a b, ar_fr_eqv a b -> ar_env_eqv (ar_mk_env genv a) (ar_mk_env genv b).
Proof. intros. unfold ar_env_eqv. simpl. auto. Qed.

Lemma ar_body_env_eqv : forall genv r t suffix a b vs,
  ar_fr_eqv a b -> ar_env_eqv (ar_body_env genv r t suffix a vs) (ar_body_env genv r t suffix b vs).
Proof. intros. unfold ar_env_eqv, ar_body_env. simpl. repeat split; auto. apply ar_fr_eqv_app_tail. auto. Qed.

Lemma ar_eval_body_eqv : forall mk1 mk2 b acc,
  (forall vs, ar_env_eqv (mk1 vs) (mk2 vs)) -> ar_eval_body mk1 acc b = ar_eval_body mk2 acc b.
Proof.
  intros mk1 mk2 b. induction b; simpl; intros; auto.
  rewrite (ar_eval_env_eqv (mk1 acc) (mk2 acc)) by auto.
  destruct (ar_is_err (ar_eval (mk2 acc) a)); auto.
Qed.

Lemma ar_inst_at_eqv : forall skip genv r t a b suffix,
  ar_fr_eqv a b -> ar_inst_at skip genv r t a suffix = ar_inst_at skip genv r t b suffix.
Proof.
  intros. unfold ar_inst_at.
  rewrite (ar_eval_env_eqv (ar_mk_env genv a) (ar_mk_env genv b)) by (apply ar_mk_env_eqv; auto).
  rewrite (ar_eval_body_eqv (ar_body_env genv r t suffix a) (ar_body_env genv r t suffix b))
    by (intros; apply ar_body_env_eqv; auto).
  reflexivity.
Qed.

Lemma ar_instances_eqv : forall r e1 e2, ar_env_eqv e1 e2 -> ar_instances r e1 = ar_instances r e2.
Proof.
  intros. unfold ar_instances. destruct (ar_r_for r) as [[[fk fv] ft]|]; auto.
  rewrite (ar_eval_env_eqv e1 e2) by auto. reflexivity.
Qed.

(* ------------------------------------------------------------------ the loop over the `for` set *)
(* every element of one `for` set binds the same variables *)
Lemma ar_instances_keys : forall r env0 insts,
  ar_instances r env0 = Some insts -> exists ks, forall inst, In inst insts -> map fst (snd inst) = ks.
Proof.
  intros r env0 insts H. unfold ar_instances in H.
  destruct (ar_r_for r) as [[[fk fv] ft]|].
  - destruct (ar_eval env0 ft); try (inversion H; subst; exists []; intros ? []).
    + destruct fv; try discriminate. inversion H; subst. destruct fk.
      * exists []. intros inst I. apply in_map_iff in I. destruct I as [i [E _]]. subst. reflexivity.
      * exists [z :: fk]. intros inst I. apply in_map_iff in I. destruct I as [i [E _]]. subst. reflexivity.
    + destruct fv; try discriminate. inversion H; subst. exists [z :: fv; fk].
      intros inst I. apply in_map_iff in I. destruct I as [kv [E _]]. subst. reflexivity.
  - inversion H; subst. exists []. intros inst [I|[]]. subst. reflexivity.
Qed.

Lemma ar_assoc_keys_none : forall x (s : list (ar_str * ar_value)),
  ar_mem x (map fst s) = false -> ar_assoc x s = None.
Proof.
  induction s as [|[k v] s IH]; simpl; intros; auto.
  apply orb_false_iff in H. destruct H as [H1 H2]. rewrite H1. auto.
Qed.

Lemma ar_assoc_keys_some : forall x (s : list (ar_str * ar_value)),
  ar_mem x (map fst s) = true -> ar_assoc x s <> None.
Proof.
  induction s as [|[k v] s IH]; simpl; intros; try discriminate.
  destruct (ar_str_eqb x k); try discriminate. auto.
Qed.

(* the frame agrees with [base] outside the loop variables [ks] *)
Definition ar_fr_inv (ks : list ar_str) (base fr : list (ar_str * ar_value)) : Prop :=
  forall x, ar_mem x ks = false -> ar_assoc x fr = ar_assoc x base.

Lemma ar_fr_inv_step : forall ks base fr s,
  ar_fr_inv ks base fr -> map fst s = ks ->
  ar_fr_eqv (ar_fr_sets s fr) (s ++ base) /\ ar_fr_inv ks base (ar_fr_sets s fr).
Proof.
  intros ks base fr s I K. split.
  - intros x. rewrite ar_fr_sets_assoc, !ar_assoc_app.
    destruct (ar_mem x ks) eqn:M.
    + destruct (ar_assoc x s) eqn:E; auto. exfalso. eapply ar_assoc_keys_some; eauto. rewrite K. exact M.
    + rewrite ar_assoc_keys_none by (rewrite K; exact M). apply I. exact M.
  - intros x M. rewrite ar_fr_sets_assoc, ar_assoc_app.
    rewrite ar_assoc_keys_none by (rewrite K; exact M). apply I. exact M.
Qed.

Lemma ar_fr_loop_spec : forall skip genv r t base ks insts fr,
  (forall inst, In inst insts -> map fst (snd inst) = ks) ->
  ar_fr_inv ks base fr ->
  fst (ar_fr_loop skip genv r t fr insts) = ar_collect (map (ar_eval_instance skip genv r t base) insts).
Proof.
  intros skip genv r t base ks insts. induction insts as [|inst rest IH]; intros fr K I; simpl.
  - reflexivity.
  - destruct (ar_fr_inv_step ks base fr (snd inst) I (K inst (or_introl eq_refl))) as [Q I'].
    unfold ar_eval_instance at 1.
    rewrite (ar_inst_at_eqv skip genv r t _ _ (fst inst) Q).
    destruct (ar_inst_at skip genv r t (snd inst ++ base) (fst inst)) as [os|]; simpl; auto.
    specialize (IH (ar_fr_sets (snd inst) fr) (fun i H => K i (or_intror H)) I').
    destruct (ar_fr_loop skip genv r t (ar_fr_sets (snd inst) fr) rest) as [res fr2]. simpl in *.
    rewrite IH. reflexivity.
Qed.

(* ------------------------------------------------------------------ one rule, on a frame that already holds [fr] *)
(* started on ANY frame the transcription computes what the binding-list definition computes with the
   left-over bindings behind the rule's own ... *)
Definition ar_eval_rule_on (skip : bool) (genv : ar_env) (r : ar_rule) (t : ar_target) (left : list (ar_str * ar_value))
  : option (list ar_obj) :=
  let base := ar_t_bindings t ++ ar_r_use r ++ left in
  match ar_instances r (ar_mk_env genv base) with
  | None => None
  | Some insts => ar_collect (map (ar_eval_instance skip genv r t base) insts)
  end.

Lemma ar_fr_eval_rule_on : forall skip genv r t fr,
  fst (ar_fr_eval_rule skip genv r t fr) = ar_eval_rule_on skip genv r t fr.
Proof.
  intros. unfold ar_fr_eval_rule, ar_eval_rule_on.
  assert (Q : ar_fr_eqv (ar_fr_enter r t fr) (ar_t_bindings t ++ ar_r_use r ++ fr)).
  { unfold ar_fr_enter. apply ar_fr_sets_eqv. apply ar_fr_sets_eqv. intros x. reflexivity. }
  rewrite (ar_instances_eqv r _ _ (ar_mk_env_eqv genv _ _ Q)).
  destruct (ar_instances r (ar_mk_env genv (ar_t_bindings t ++ ar_r_use r ++ fr))) as [insts|] eqn:HI; auto.
  destruct (ar_instances_keys _ _ _ HI) as [ks K].
  apply (ar_fr_loop_spec skip genv r t _ ks); auto.
  intros x _. apply Q.
Qed.

(* ... and on a NEW frame nothing is left over: exactly ArModel.ar_eval_rule *)
Theorem ar_fr_eval_rule_fresh : forall skip genv r t,
  fst (ar_fr_eval_rule skip genv r t []) = ar_eval_rule skip genv r t.
Proof.
  intros. rewrite ar_fr_eval_rule_on. unfold ar_eval_rule_on, ar_eval_rule. rewrite !app_nil_r. reflexivity.
Qed.

(* ------------------------------------------------------------------ frame independence *)
Lemma ar_fr_visit_per_rule : forall genv t rs fr,
  fst (ar_fr_visit AFPerRule genv t fr rs) = map (fun sr => ar_eval_rule (fst sr) genv (snd sr) t) rs.
Proof.
  intros genv t rs. induction rs as [|sr rest IH]; intros fr; simpl; auto.
  pose proof (ar_fr_eval_rule_fresh (fst sr) genv (snd sr) t) as E.
  destruct (ar_fr_eval_rule (fst sr) genv (snd sr) t []) as [res fr1]. simpl in E. subst res.
  specialize (IH fr1). destruct (ar_fr_visit AFPerRule genv t fr1 rest) as [more fr2]. simpl in *.
  rewrite IH. reflexivity.
Qed.

Theorem ar_fr_visits_per_rule : forall genv vs fr,
  fst (ar_fr_visits AFPerRule genv fr vs)
  = map (fun v => map (fun sr => ar_eval_rule (fst sr) genv (snd sr) (fst v)) (snd v)) vs.
Proof.
  intros genv vs. induction vs as [|v rest IH]; intros fr; simpl; auto.
  pose proof (ar_fr_visit_per_rule genv (fst v) (snd v) []) as E.
  destruct (ar_fr_visit AFPerRule genv (fst v) [] (snd v)) as [res fr1]. simpl in E. subst res.
  specialize (IH fr1). destruct (ar_fr_visits AFPerRule genv fr1 rest) as [more fr2]. simpl in *.
  rewrite IH. reflexivity.
Qed.

(* ------------------------------------------------------------------ whole loads at the frame level *)
Lemma ar_fast_at_sel : forall genv r t,
  ar_rule_fast_at genv r t = match ar_fr_sel r t with Some skip => ar_eval_rule skip genv r t | None => Some [] end.
Proof.
  intros. unfold ar_rule_fast_at, ar_fr_sel. destruct (ar_rule_index r); auto.
  - destruct (ar_mem (ar_t_host t) ns); auto.
  - destruct (ar_mem2 (ar_t_host t) (ar_t_svc t) ps); auto.
Qed.

Lemma ar_res_perm_refl : forall a, ar_res_perm a a.
Proof. intros [a|]; simpl; auto. Qed.

Lemma ar_res_perm_sym : forall a b, ar_res_perm a b -> ar_res_perm b a.
Proof. intros [a|] [b|]; simpl; auto. apply Permutation_sym. Qed.

Lemma ar_collect_app : forall (a b : list (option (list ar_obj))),
  ar_collect (a ++ b) = match ar_collect a, ar_collect b with Some x, Some y => Some (x ++ y) | _, _ => None end.
Proof.
  induction a as [|[x|] a IH]; simpl; intros.
  - destruct (ar_collect b); reflexivity.
  - rewrite IH. destruct (ar_collect a), (ar_collect b); auto. rewrite app_assoc. reflexivity.
  - reflexivity.
Qed.

Lemma ar_collect_app_perm : forall (a a' b b' : list (option (list ar_obj))),
  ar_res_perm (ar_collect a) (ar_collect a') -> ar_res_perm (ar_collect b) (ar_collect b') ->
  ar_res_perm (ar_collect (a ++ b)) (ar_collect (a' ++ b')).
Proof.
  intros. rewrite !ar_collect_app.
  destruct (ar_collect a), (ar_collect a'), (ar_collect b), (ar_collect b'); simpl in *; auto; try contradiction.
  apply Permutation_app; auto.
Qed.

Lemma ar_collect_concat_perm : forall {A} (f g : A -> list (option (list ar_obj))) l,
  (forall x, In x l -> ar_res_perm (ar_collect (f x)) (ar_collect (g x))) ->
  ar_res_perm (ar_collect (concat (map f l))) (ar_collect (concat (map g l))).
Proof.
  induction l; simpl; intros.
  - apply perm_nil.
  - apply ar_collect_app_perm; auto.
Qed.

Lemma ar_collect_cons_perm : forall x (a b : list (option (list ar_obj))),
  ar_res_perm (ar_collect a) (ar_collect b) -> ar_res_perm (ar_collect (x :: a)) (ar_collect (x :: b)).
Proof. intros. apply (ar_collect_app_perm [x] [x] a b); auto. apply ar_res_perm_refl. Qed.

Lemma ar_collect_skip_perm : forall (a b : list (option (list ar_obj))),
  ar_res_perm (ar_collect a) (ar_collect b) -> ar_res_perm (ar_collect a) (ar_collect (Some [] :: b)).
Proof. intros. apply (ar_collect_app_perm [] [Some []] a b); auto. simpl. apply perm_nil. Qed.

(* one target: the rules selected for it (Regular first, then the indexed ones) against all rules *)
Lemma ar_fr_rules_for_perm : forall genv t rules,
  ar_res_perm (ar_collect (map (fun sr => ar_eval_rule (fst sr) genv (snd sr) t) (ar_fr_rules_for t rules)))
              (ar_collect (map (fun r => ar_rule_fast_at genv r t) rules)).
Proof.
  intros genv t rules. unfold ar_fr_rules_for. induction rules as [|r rs IH].
  - apply perm_nil.
  - cbn [filter map]. rewrite (ar_fast_at_sel genv r t).
    assert (Ef : ar_fr_is false r t = match ar_fr_sel r t with Some false => true | _ => false end)
      by (unfold ar_fr_is; destruct (ar_fr_sel r t) as [[|]|]; reflexivity).
    assert (Et : ar_fr_is true r t = match ar_fr_sel r t with Some true => true | _ => false end)
      by (unfold ar_fr_is; destruct (ar_fr_sel r t) as [[|]|]; reflexivity).
    rewrite Ef, Et. destruct (ar_fr_sel r t) as [[|]|]; cbn [map app].
    + (* indexed under t: evaluated after the Regular ones *)
      eapply ar_res_perm_trans.
      * apply ar_collect_perm. apply Permutation_map. apply Permutation_sym. apply Permutation_middle.
      * cbn [map fst snd]. apply ar_collect_cons_perm. exact IH.
    + cbn [fst snd]. apply ar_collect_cons_perm. exact IH.
    + apply ar_collect_skip_perm. exact IH.
Qed.

Lemma ar_flat_map_cons_perm : forall {A B} (g : A -> B) (h : A -> list B) l,
  Permutation (flat_map (fun t => g t :: h t) l) (map g l ++ flat_map h l).
Proof.
  induction l; simpl; auto.
  apply perm_skip. eapply Permutation_trans.
  - apply Permutation_app_head. exact IHl.
  - rewrite !app_assoc. apply Permutation_app_tail. apply Permutation_app_comm.
Qed.

Lemma ar_flat_map_swap : forall {A B C} (f : A -> B -> C) (rs : list A) (ts : list B),
  Permutation (flat_map (fun t => map (fun r => f r t) rs) ts) (flat_map (fun r => map (f r) ts) rs).
Proof.
  induction rs as [|r rs IH]; intros ts; simpl.
  - induction ts; simpl; auto.
  - eapply Permutation_trans.
    + apply (ar_flat_map_cons_perm (f r) (fun t => map (fun r0 => f r0 t) rs)).
    + apply Permutation_app_head. apply IH.
Qed.

(* rules to hosts and rules to services, separately *)
Lemma ar_run_split : forall at_ inv rules,
  ar_res_perm (ar_run at_ inv rules)
    (ar_collect (flat_map (fun r => map (at_ r) (ar_targets inv false)) (filter (fun r => negb (ar_r_to_svc r)) rules)
                 ++ flat_map (fun r => map (at_ r) (ar_targets inv true)) (filter ar_r_to_svc rules))).
Proof.
  intros. unfold ar_run. apply ar_collect_perm.
  induction rules as [|r rs IH]; simpl; auto.
  destruct (ar_r_to_svc r) eqn:E; simpl.
  - eapply Permutation_trans; [apply Permutation_app_head; exact IH|].
    rewrite !app_assoc. apply Permutation_app_tail. apply Permutation_app_comm.
  - rewrite <- app_assoc. apply Permutation_app_head. exact IH.
Qed.

Lemma ar_fr_half : forall genv (ts : list ar_target) rules,
  ar_res_perm
    (ar_collect (concat (map (fun v : ar_target * list (bool * ar_rule) =>
                                map (fun sr => ar_eval_rule (fst sr) genv (snd sr) (fst v)) (snd v))
                             (map (fun t => (t, ar_fr_rules_for t rules)) ts))))
    (ar_collect (flat_map (fun r => map (ar_rule_fast_at genv r) ts) rules)).
Proof.
  intros. rewrite map_map. simpl.
  eapply ar_res_perm_trans.
  - apply (ar_collect_concat_perm _ (fun t => map (fun r => ar_rule_fast_at genv r t) rules)).
    intros t _. apply ar_fr_rules_for_perm.
  - rewrite <- flat_map_concat_map. apply ar_collect_perm. apply ar_flat_map_swap.
Qed.

Theorem ar_fr_run_fast : forall genv inv rules,
  ar_res_perm (ar_fr_run AFPerRule genv inv rules) (ar_run (ar_rule_fast_at genv) inv rules).
Proof.
  intros. unfold ar_fr_run. rewrite ar_fr_visits_per_rule. unfold ar_fr_plan.
  eapply ar_res_perm_trans; [|apply ar_res_perm_sym; apply ar_run_split].
  rewrite map_app, concat_app. apply ar_collect_app_perm; apply ar_fr_half.
Qed.

Theorem ar_fr_load_fast : forall genv inv rules,
  ar_res_perm (ar_fr_load AFPerRule genv inv rules) (ar_apply_fast genv inv rules).
Proof.
  intros. unfold ar_fr_load, ar_apply_fast, ar_load.
  pose proof (ar_fr_run_fast genv inv (filter ar_is_svc_rule rules)) as R1.
  destruct (ar_fr_run AFPerRule genv inv (filter ar_is_svc_rule rules)) as [s1|],
           (ar_run (ar_rule_fast_at genv) inv (filter ar_is_svc_rule rules)) as [s2|]; simpl in R1; try contradiction; [|exact Logic.I].
  pose proof (ar_fr_run_fast genv (ar_add_services inv s1) (filter (fun r => negb (ar_is_svc_rule r)) rules)) as R2.
  pose proof (ar_run_perm (ar_rule_fast_at genv) _ _ _ _ (Permutation_refl (filter (fun r => negb (ar_is_svc_rule r)) rules))
                (ar_add_services_equiv inv inv s1 s2 (Permutation_refl inv) R1)) as R3.
  pose proof (ar_res_perm_trans _ _ _ R2 R3) as R.
  destruct (ar_fr_run AFPerRule genv (ar_add_services inv s1) (filter (fun r => negb (ar_is_svc_rule r)) rules)) as [o1|],
           (ar_run (ar_rule_fast_at genv) (ar_add_services inv s2) (filter (fun r => negb (ar_is_svc_rule r)) rules)) as [o2|];
    simpl in R; try contradiction; [|exact Logic.I].
  apply ar_validate_perm; auto. simpl. apply Permutation_app; auto.
Qed.

(* hence the frame-level load is invariant under permutation of rules, hosts and services too *)
Theorem ar_fr_load_order_independent : forall genv inv mid inv' rules rules',
  Permutation rules rules' -> Permutation inv mid -> ar_inv_sperm mid inv' ->
  ar_res_perm (ar_fr_load AFPerRule genv inv rules) (ar_fr_load AFPerRule genv inv' rules').
Proof.
  intros. eapply ar_res_perm_trans; [apply ar_fr_load_fast|].
  eapply ar_res_perm_trans; [|apply ar_res_perm_sym; apply ar_fr_load_fast].
  apply (ar_load_fully_order_independent (ar_rule_fast_at genv) inv mid inv' rules rules'); auto.
Qed.

(* ------------------------------------------------------------------ the order oracle accepts the model *)
Lemma ar_perm_subset : forall a b, Permutation a b -> ar_subset a b = true.
Proof.
  intros a b P. unfold ar_subset. apply forallb_forall. intros x I.
  apply existsb_exists. exists x. split; [eapply Permutation_in; eauto | apply ar_obj_eqb_refl].
Qed.

Lemma ar_res_perm_same : forall a b, ar_res_perm a b -> ar_same_res a b = true.
Proof.
  intros [a|] [b|]; simpl; auto; try contradiction. intros P. unfold ar_same_set.
  rewrite (ar_perm_subset a b P), (ar_perm_subset b a (Permutation_sym P)). reflexivity.
Qed.

(* whatever file order the rules, the hosts and the services of each host are given in, with or without the
   index, and also when the load is run with threaded frames: the order oracle returns 0 *)
Theorem ar_order_oracle_accepts_model : forall genv inv mid inv' rules rules',
  Permutation rules rules' -> Permutation inv mid -> ar_inv_sperm mid inv' ->
  ar_order_oracle (ar_apply_fast genv inv rules) (ar_apply_fast genv inv' rules') = 0 /\
  ar_order_oracle (ar_apply genv inv rules) (ar_apply genv inv' rules') = 0 /\
  ar_order_oracle (ar_apply_fast genv inv rules) (ar_fr_load AFPerRule genv inv' rules') = 0.
Proof.
  intros genv inv mid inv' rules rules' Pr Pi S. unfold ar_order_oracle.
  pose proof (ar_load_fully_order_independent (ar_rule_fast_at genv) inv mid inv' rules rules' Pr Pi S) as F.
  pose proof (ar_load_fully_order_independent (ar_eval_rule false genv) inv mid inv' rules rules' Pr Pi S) as A.
  fold (ar_apply_fast genv inv rules) (ar_apply_fast genv inv' rules') in F.
  fold (ar_apply genv inv rules) (ar_apply genv inv' rules') in A.
  rewrite (ar_res_perm_same _ _ F), (ar_res_perm_same _ _ A).
  rewrite (ar_res_perm_same (ar_apply_fast genv inv rules) (ar_fr_load AFPerRule genv inv' rules')).
  - auto.
  - eapply ar_res_perm_trans; [exact F|]. apply ar_res_perm_sym. apply ar_fr_load_fast.
Qed.
