(* C16 - proofs about the model in ArModel.v: the recogniser is sound and complete w.r.t. plain
   evaluation, hence the indexed load creates what the plain load creates. *)
From Icv Require Import Base.Tac Apply.ArModel Apply.ArObs.
Local Open Scope Z_scope.

(* ------------------------------------------------------------------ strings *)
Lemma ar_str_eqb_refl : forall a, ar_str_eqb a a = true.
Proof. induction a; simpl; auto. rewrite Z.eqb_refl. auto. Qed.

Lemma ar_str_eqb_eq : forall a b, ar_str_eqb a b = true <-> a = b.
Proof.
  induction a; destruct b; simpl; split; intro H; try discriminate; auto.
  - apply andb_true_iff in H. destruct H as [H1 H2]. apply Z.eqb_eq in H1. apply IHa in H2. subst. auto.
  - inversion H; subst. rewrite Z.eqb_refl. simpl. apply ar_str_eqb_refl.
Qed.

Lemma ar_str_eqb_sym : forall a b, ar_str_eqb a b = ar_str_eqb b a.
Proof.
  induction a; destruct b; simpl; auto. rewrite Z.eqb_sym. rewrite IHa. auto.
Qed.

(* ------------------------------------------------------------------ constants resolve to what evaluation sees *)
Definition ar_agree (cs : ar_consts) (env : ar_env) : Prop :=
  match cs with
  | None => True
  | Some c => forall x v, ar_assoc x c = Some v -> ar_lookup env x = v
  end.

Lemma ar_get_const_eval : forall cs env e v,
  ar_agree cs env -> ar_get_const cs e = Some v -> ar_eval env e = v.
Proof.
  intros cs env e v A H. destruct e; simpl in H; try discriminate.
  - inversion H; auto.
  - destruct cs; try discriminate. simpl. apply A. auto.
Qed.

Lemma ar_const_string_eval : forall cs env e s,
  ar_agree cs env -> ar_const_string cs e = Some s -> ar_eval env e = AVStr s.
Proof.
  intros cs env e s A H. unfold ar_const_string in H.
  destruct (ar_get_const cs e) eqn:E; try discriminate.
  destruct a; try discriminate. inversion H; subst. eapply ar_get_const_eval; eauto.
Qed.

(* the target object bound to variable [lc] has a string "name" *)
Definition ar_named (env : ar_env) (lc n : ar_str) : Prop :=
  exists fields, ar_lookup env lc = AVObj fields /\ ar_assoc ar_s_name fields = Some (AVStr n).

Lemma ar_name_indexer_eval : forall lc cs env e n,
  ar_agree cs env -> ar_named env lc n -> ar_is_name_indexer lc cs e = true -> ar_eval env e = AVStr n.
Proof.
  intros lc cs env e n A [fields [L N]] H.
  destruct e; simpl in H; try discriminate.
  destruct e1; try discriminate.
  destruct (ar_str_eqb x lc) eqn:Ex; try discriminate.
  apply ar_str_eqb_eq in Ex. subst x.
  destruct (ar_const_string cs e2) eqn:Ec; try discriminate.
  apply ar_str_eqb_eq in H. subst a.
  simpl. rewrite L. rewrite (ar_const_string_eval _ _ _ _ A Ec). simpl. rewrite N. auto.
Qed.

Lemma ar_compared_name_eval : forall lc cs env e n m,
  ar_agree cs env -> ar_named env lc n -> ar_compared_name lc cs e = Some m ->
  ar_eval env e = AVBool (ar_str_eqb n m).
Proof.
  intros lc cs env e n m A N H.
  destruct e; simpl in H; try discriminate.
  destruct (ar_is_name_indexer lc cs e1) eqn:E1.
  - simpl. rewrite (ar_name_indexer_eval _ _ _ _ _ A N E1). rewrite (ar_const_string_eval _ _ _ _ A H). reflexivity.
  - destruct (ar_is_name_indexer lc cs e2) eqn:E2; try discriminate.
    simpl. rewrite (ar_name_indexer_eval _ _ _ _ _ A N E2). rewrite (ar_const_string_eval _ _ _ _ A H).
    unfold ar_lift2. simpl. rewrite ar_str_eqb_sym. reflexivity.
Qed.

Lemma ar_mem_app : forall n a b, ar_mem n (a ++ b) = ar_mem n a || ar_mem n b.
Proof. intros. unfold ar_mem. apply existsb_app. Qed.

Lemma ar_mem2_app : forall h s a b, ar_mem2 h s (a ++ b) = ar_mem2 h s a || ar_mem2 h s b.
Proof. intros. unfold ar_mem2. apply existsb_app. Qed.

(* ---- soundness + completeness of GetTargetHosts ---- *)
Lemma ar_target_hosts_sound_complete : forall cs env f ns hn,
  ar_agree cs env -> ar_named env ar_s_host hn ->
  ar_target_hosts cs f = Some ns ->
  ar_eval env f = AVBool (ar_mem hn ns).
Proof.
  intros cs env f. induction f; intros ns hn A N H;
    try (simpl in H; discriminate).
  - (* Eq *)
    change (ar_target_hosts cs (AEEq f1 f2)) with
      (match ar_compared_name ar_s_host cs (AEEq f1 f2) with Some n => Some [n] | None => None end) in H.
    destruct (ar_compared_name ar_s_host cs (AEEq f1 f2)) eqn:E; try discriminate.
    inversion H; subst. rewrite (ar_compared_name_eval _ _ _ _ _ _ A N E).
    unfold ar_mem. simpl. rewrite orb_false_r. reflexivity.
  - (* Or *)
    simpl in H.
    destruct (ar_target_hosts cs f1) eqn:E1; try discriminate.
    destruct (ar_target_hosts cs f2) eqn:E2; try discriminate.
    inversion H; subst.
    simpl. rewrite (IHf1 _ _ A N eq_refl). simpl.
    rewrite ar_mem_app.
    destruct (ar_mem hn l) eqn:M; simpl; auto.
Qed.

(* ---- GetTargetService / GetTargetServices ---- *)
Lemma ar_target_service_sound_complete : forall cs env f h s hn sn,
  ar_agree cs env -> ar_named env ar_s_host hn -> ar_named env ar_s_service sn ->
  ar_target_service cs f = Some (h, s) ->
  ar_eval env f = AVBool (ar_str_eqb hn h && ar_str_eqb sn s).
Proof.
  intros cs env f h s hn sn A NH NS H.
  destruct f; simpl in H; try discriminate.
  destruct (ar_compared_name ar_s_host cs f1) eqn:E1.
  - destruct (ar_compared_name ar_s_service cs f2) eqn:E2; try discriminate.
    inversion H; subst.
    simpl. rewrite (ar_compared_name_eval _ _ _ _ _ _ A NH E1). simpl.
    destruct (ar_str_eqb hn h); simpl; auto.
    apply (ar_compared_name_eval _ _ _ _ _ _ A NS E2).
  - destruct (ar_compared_name ar_s_host cs f2) eqn:E2; try discriminate.
    destruct (ar_compared_name ar_s_service cs f1) eqn:E3; try discriminate.
    inversion H; subst.
    simpl. rewrite (ar_compared_name_eval _ _ _ _ _ _ A NS E3). simpl.
    destruct (ar_str_eqb sn s); simpl.
    + rewrite andb_true_r. apply (ar_compared_name_eval _ _ _ _ _ _ A NH E2).
    + rewrite andb_false_r. reflexivity.
Qed.

Lemma ar_target_services_sound_complete : forall cs env f ps hn sn,
  ar_agree cs env -> ar_named env ar_s_host hn -> ar_named env ar_s_service sn ->
  ar_target_services cs f = Some ps ->
  ar_eval env f = AVBool (ar_mem2 hn sn ps).
Proof.
  intros cs env f. induction f; intros ps hn sn A NH NS H;
    try (simpl in H; discriminate).
  - (* And *)
    change (ar_target_services cs (AEAnd f1 f2)) with
      (match ar_target_service cs (AEAnd f1 f2) with Some p => Some [p] | None => None end) in H.
    destruct (ar_target_service cs (AEAnd f1 f2)) eqn:E; try discriminate.
    destruct p as [h s]. inversion H; subst.
    rewrite (ar_target_service_sound_complete _ _ _ _ _ _ _ A NH NS E).
    unfold ar_mem2. simpl. rewrite orb_false_r. reflexivity.
  - (* Or *)
    simpl in H.
    destruct (ar_target_services cs f1) eqn:E1; try discriminate.
    destruct (ar_target_services cs f2) eqn:E2; try discriminate.
    inversion H; subst.
    simpl. rewrite (IHf1 _ _ _ A NH NS eq_refl). simpl.
    rewrite ar_mem2_app.
    destruct (ar_mem2 hn sn l) eqn:M; simpl; auto.
Qed.

(* ------------------------------------------------------------------ one rule at one target *)
Lemma ar_collect_all_nil : forall {A B} (f : B -> option (list A)) l,
  (forall x, In x l -> f x = Some []) -> ar_collect (map f l) = Some [].
Proof.
  induction l; simpl; intros; auto.
  rewrite H by auto. rewrite IHl by auto. reflexivity.
Qed.

(* the extra locals of an instance bind only the `for` variables *)
Definition ar_extra_ok (extra : list (ar_str * ar_value)) : Prop :=
  ar_assoc ar_s_host extra = None /\ ar_assoc ar_s_service extra = None.

Definition ar_for_vars_ok (r : ar_rule) : bool :=
  match ar_r_for r with
  | None => true
  | Some (fk, fv, _) => negb (ar_is_target_var fk) && negb (ar_is_target_var fv)
  end.

Lemma ar_assoc_not_target : forall x k (v : ar_value) rest,
  ar_is_target_var k = false -> (x = ar_s_host \/ x = ar_s_service) ->
  ar_assoc x ((k, v) :: rest) = ar_assoc x rest.
Proof.
  intros x k v rest H Hx. simpl.
  unfold ar_is_target_var in H. apply orb_false_iff in H. destruct H as [H1 H2].
  destruct Hx; subst; rewrite ar_str_eqb_sym; [rewrite H1 | rewrite H2]; reflexivity.
Qed.

Lemma ar_instances_extra_ok : forall r env0 insts inst,
  ar_for_vars_ok r = true -> ar_instances r env0 = Some insts -> In inst insts -> ar_extra_ok (snd inst).
Proof.
  intros r env0 insts inst V H I. unfold ar_instances, ar_for_vars_ok in *.
  destruct (ar_r_for r) as [[[fk fv] ft]|].
  - apply andb_true_iff in V. destruct V as [V1 V2].
    apply negb_true_iff in V1. apply negb_true_iff in V2.
    destruct (ar_eval env0 ft); try (inversion H; subst; contradiction).
    + destruct fv; try discriminate. inversion H; subst. apply in_map_iff in I. destruct I as [i [Hi _]].
      subst inst. destruct fk; simpl; [split; reflexivity|].
      split; (rewrite ar_assoc_not_target; auto).
    + destruct fv; try discriminate. inversion H; subst. apply in_map_iff in I. destruct I as [kv [Hi _]].
      subst inst. simpl snd.
      split; (rewrite ar_assoc_not_target; auto; rewrite ar_assoc_not_target; auto).
  - inversion H; subst. destruct I as [I|[]]. subst. split; reflexivity.
Qed.

Lemma ar_assoc_app_none : forall {A} x (a b : list (ar_str * A)), ar_assoc x a = None -> ar_assoc x (a ++ b) = ar_assoc x b.
Proof.
  induction a; simpl; intros; auto. destruct a. destruct (ar_str_eqb x a); try discriminate. auto.
Qed.

Lemma ar_named_host : forall genv extra t use_,
  ar_extra_ok extra ->
  ar_named (ar_mk_env genv (extra ++ ar_t_bindings t ++ use_)) ar_s_host (ar_t_host t).
Proof.
  intros genv extra t use_ [E1 E2]. unfold ar_named, ar_lookup. simpl ar_locals.
  rewrite ar_assoc_app_none by auto.
  destruct t; simpl; eexists; split; reflexivity.
Qed.

Lemma ar_named_service : forall genv extra h s use_,
  ar_extra_ok extra ->
  ar_named (ar_mk_env genv (extra ++ ar_t_bindings (ATSvc h s) ++ use_)) ar_s_service (ar_sv_name s).
Proof.
  intros genv extra h s use_ [E1 E2]. unfold ar_named, ar_lookup. simpl ar_locals.
  rewrite ar_assoc_app_none by auto.
  simpl; eexists; split; reflexivity.
Qed.

Definition ar_shape_ok (r : ar_rule) (t : ar_target) : Prop :=
  ar_r_to_svc r = true -> exists h s, t = ATSvc h s.

Lemma ar_targets_shape : forall inv r t, In t (ar_targets inv (ar_r_to_svc r)) -> ar_shape_ok r t.
Proof.
  intros inv r t I E. rewrite E in I. unfold ar_targets in I.
  apply in_flat_map in I. destruct I as [h [_ I]]. apply in_map_iff in I. destruct I as [s [I _]]. eauto.
Qed.

Lemma ar_indexed_vars_ok : forall r, ar_rule_index r <> AIRegular -> ar_for_vars_ok r = true.
Proof.
  intros r N. unfold ar_rule_index in N. unfold ar_for_vars_ok.
  destruct (ar_shadows_target r) eqn:E; [contradiction|].
  unfold ar_shadows_target in E. destruct (ar_r_for r) as [[[fk fv] ft]|]; auto.
  apply orb_false_iff in E. destruct E as [E1 E2]. rewrite E1, E2. reflexivity.
Qed.

(* the filter of an indexed rule, evaluated at any instance of any target, says "is this target in the index" *)
Lemma ar_indexed_filter : forall genv r t insts inst,
  ar_shape_ok r t ->
  ar_instances r (ar_mk_env genv (ar_t_bindings t ++ ar_r_use r)) = Some insts -> In inst insts ->
  match ar_rule_index r with
  | AIRegular => True
  | AIHosts ns => ar_eval (ar_mk_env genv (snd inst ++ ar_t_bindings t ++ ar_r_use r)) (ar_r_filter r) = AVBool (ar_mem (ar_t_host t) ns)
  | AIServices ps => ar_eval (ar_mk_env genv (snd inst ++ ar_t_bindings t ++ ar_r_use r)) (ar_r_filter r) = AVBool (ar_mem2 (ar_t_host t) (ar_t_svc t) ps)
  end.
Proof.
  intros genv r t insts inst Sh HI I.
  destruct (ar_rule_index r) eqn:Ei; auto.
  - assert (V : ar_for_vars_ok r = true) by (apply ar_indexed_vars_ok; congruence).
    pose proof (ar_instances_extra_ok _ _ _ _ V HI I) as X.
    unfold ar_rule_index in Ei. destruct (ar_shadows_target r); [discriminate|]. destruct (ar_r_to_svc r).
    + destruct (ar_target_services None (ar_r_filter r)); discriminate.
    + destruct (ar_target_hosts None (ar_r_filter r)) eqn:E; try discriminate. inversion Ei; subst.
      eapply ar_target_hosts_sound_complete; eauto. exact Logic.I. apply ar_named_host; auto.
  - assert (V : ar_for_vars_ok r = true) by (apply ar_indexed_vars_ok; congruence).
    pose proof (ar_instances_extra_ok _ _ _ _ V HI I) as X.
    unfold ar_rule_index in Ei. destruct (ar_shadows_target r); [discriminate|]. destruct (ar_r_to_svc r) eqn:Et.
    + destruct (ar_target_services None (ar_r_filter r)) eqn:E; try discriminate. inversion Ei; subst.
      destruct (Sh Et) as [h [s Ht]]. subst t.
      eapply ar_target_services_sound_complete; eauto. exact Logic.I.
      apply ar_named_host; auto. apply ar_named_service; auto.
    + destruct (ar_target_hosts None (ar_r_filter r)); discriminate.
Qed.

Lemma ar_fast_at_eq : forall genv r t,
  ar_shape_ok r t ->
  (ar_rule_index r <> AIRegular -> ar_instances r (ar_mk_env genv (ar_t_bindings t ++ ar_r_use r)) <> None) ->
  ar_rule_fast_at genv r t = ar_eval_rule false genv r t.
Proof.
  intros genv r t Sh F. unfold ar_rule_fast_at.
  destruct (ar_rule_index r) eqn:Ei; auto.
  - unfold ar_eval_rule.
    destruct (ar_instances r (ar_mk_env genv (ar_t_bindings t ++ ar_r_use r))) eqn:HI.
    2:{ exfalso. apply F; congruence. }
    assert (Q : forall inst, In inst l ->
              ar_eval (ar_mk_env genv (snd inst ++ ar_t_bindings t ++ ar_r_use r)) (ar_r_filter r) = AVBool (ar_mem (ar_t_host t) ns)).
    { intros inst I. pose proof (ar_indexed_filter genv r t l inst Sh HI I) as P. rewrite Ei in P. exact P. }
    destruct (ar_mem (ar_t_host t) ns) eqn:M.
    + f_equal. apply map_ext_in. intros inst I. unfold ar_eval_instance, ar_inst_at. rewrite (Q inst I). reflexivity.
    + symmetry. apply ar_collect_all_nil. intros inst I. unfold ar_eval_instance, ar_inst_at. rewrite (Q inst I). reflexivity.
  - unfold ar_eval_rule.
    destruct (ar_instances r (ar_mk_env genv (ar_t_bindings t ++ ar_r_use r))) eqn:HI.
    2:{ exfalso. apply F; congruence. }
    assert (Q : forall inst, In inst l ->
              ar_eval (ar_mk_env genv (snd inst ++ ar_t_bindings t ++ ar_r_use r)) (ar_r_filter r) = AVBool (ar_mem2 (ar_t_host t) (ar_t_svc t) ps)).
    { intros inst I. pose proof (ar_indexed_filter genv r t l inst Sh HI I) as P. rewrite Ei in P. exact P. }
    destruct (ar_mem2 (ar_t_host t) (ar_t_svc t) ps) eqn:M.
    + f_equal. apply map_ext_in. intros inst I. unfold ar_eval_instance, ar_inst_at. rewrite (Q inst I). reflexivity.
    + symmetry. apply ar_collect_all_nil. intros inst I. unfold ar_eval_instance, ar_inst_at. rewrite (Q inst I). reflexivity.
Qed.

(* ------------------------------------------------------------------ whole loads *)
Lemma ar_run_ext : forall at1 at2 inv rules,
  (forall r t, In r rules -> In t (ar_targets inv (ar_r_to_svc r)) -> at1 r t = at2 r t) ->
  ar_run at1 inv rules = ar_run at2 inv rules.
Proof.
  intros. unfold ar_run. f_equal.
  induction rules; simpl; auto.
  f_equal.
  - apply map_ext_in. intros t I. apply H; simpl; auto.
  - apply IHrules. intros. apply H; simpl; auto.
Qed.

Lemma ar_for_ok_at : forall genv inv r t,
  ar_for_ok genv inv r = true -> In t (ar_targets inv (ar_r_to_svc r)) ->
  ar_rule_index r <> AIRegular -> ar_instances r (ar_mk_env genv (ar_t_bindings t ++ ar_r_use r)) <> None.
Proof.
  intros genv inv r t H I N. unfold ar_for_ok in H.
  destruct (ar_rule_index r); try contradiction;
    (rewrite forallb_forall in H; specialize (H t I);
     destruct (ar_instances r (ar_mk_env genv (ar_t_bindings t ++ ar_r_use r))); [discriminate | discriminate]).
Qed.

Lemma ar_run_fast_eq : forall genv inv rules,
  forallb (ar_for_ok genv inv) rules = true ->
  ar_run (ar_rule_fast_at genv) inv rules = ar_run (ar_eval_rule false genv) inv rules.
Proof.
  intros genv inv rules F. apply ar_run_ext. intros r t Ir It.
  rewrite forallb_forall in F.
  apply ar_fast_at_eq; auto.
  - eapply ar_targets_shape; eauto.
  - apply ar_for_ok_at with (inv := inv); auto.
Qed.

Lemma ar_forallb_filter : forall {A} (p q : A -> bool) l, forallb p l = true -> forallb p (filter q l) = true.
Proof.
  induction l; simpl; intros; auto. apply andb_true_iff in H. destruct H.
  destruct (q a); simpl; auto. rewrite H. auto.
Qed.

Theorem ar_apply_fast_eq : forall genv inv rules,
  ar_premises genv inv rules = true -> ar_apply_fast genv inv rules = ar_apply genv inv rules.
Proof.
  intros genv inv rules P. unfold ar_premises in P.
  apply andb_true_iff in P. destruct P as [P2 P3].
  unfold ar_apply_fast, ar_apply, ar_load.
  rewrite (ar_run_fast_eq genv inv (filter ar_is_svc_rule rules)); auto using ar_forallb_filter.
  destruct (ar_run (ar_eval_rule false genv) inv (filter ar_is_svc_rule rules)) eqn:E1; auto.
  rewrite (ar_run_fast_eq genv (ar_add_services inv l)); auto using ar_forallb_filter.
Qed.

(* ------------------------------------------------------------------ wrapping a filter as (F) && true *)
Lemma ar_wrap_truthy : forall env f, ar_truthy (ar_eval env (ar_wrap f)) = ar_truthy (ar_eval env f).
Proof.
  intros. unfold ar_wrap. simpl.
  destruct (ar_truthy (ar_eval env f)) as [[|]|] eqn:E; simpl; auto.
Qed.

Lemma ar_wrap_not_indexed : forall r, ar_rule_index (ar_wrap_rule r) = AIRegular.
Proof.
  intros. unfold ar_rule_index, ar_wrap_rule, ar_wrap. simpl.
  destruct (ar_shadows_target _); [reflexivity|].
  destruct (ar_r_to_svc r); [|reflexivity].
  destruct (ar_compared_name ar_s_host None (ar_r_filter r)); reflexivity.
Qed.

Lemma ar_wrap_eval_rule : forall genv r t, ar_eval_rule false genv (ar_wrap_rule r) t = ar_eval_rule false genv r t.
Proof.
  intros. unfold ar_eval_rule. simpl ar_r_use.
  change (ar_instances (ar_wrap_rule r)) with (ar_instances r).
  destruct (ar_instances r (ar_mk_env genv (ar_t_bindings t ++ ar_r_use r))); auto.
  f_equal. apply map_ext. intros inst. unfold ar_eval_instance, ar_inst_at.
  change (ar_r_filter (ar_wrap_rule r)) with (ar_wrap (ar_r_filter r)).
  rewrite ar_wrap_truthy. reflexivity.
Qed.

(* ------------------------------------------------------------------ API queries *)
Lemma ar_nobang_split : forall a b c d,
  ar_nobang a = true -> ar_nobang b = true -> a ++ ar_bang :: b = c ++ ar_bang :: d -> a = c /\ b = d.
Proof.
  induction a; intros b c d Ha Hb H.
  - destruct c; simpl in H.
    + inversion H; auto.
    + inversion H; subst. exfalso. unfold ar_nobang in Hb. apply negb_true_iff in Hb.
      rewrite existsb_app in Hb. simpl in Hb. rewrite orb_true_r in Hb. discriminate.
  - unfold ar_nobang in Ha. simpl in Ha. apply negb_true_iff in Ha. apply orb_false_iff in Ha. destruct Ha as [Ha1 Ha2].
    destruct c; simpl in H.
    + inversion H; subst. unfold ar_bang in Ha1. discriminate.
    + inversion H; subst. destruct (IHa b c d) as [X Y]; auto.
      * unfold ar_nobang. rewrite Ha2. reflexivity.
      * subst; auto.
Qed.

(* ------------------------------------------------------------------ the oracle accepts what the model produces *)
Fixpoint ar_vsame_refl (v : ar_value) : ar_vsame v v = true.
Proof.
  destruct v; simpl; auto.
  - apply eqb_reflx.
  - apply Z.eqb_refl.
  - apply ar_str_eqb_refl.
  - induction l as [|x r IH]; auto. rewrite (ar_vsame_refl x), IH. reflexivity.
  - induction d as [|[k x] r IH]; auto. rewrite ar_str_eqb_refl, (ar_vsame_refl x), IH. reflexivity.
  - induction d as [|[k x] r IH]; auto. rewrite ar_str_eqb_refl, (ar_vsame_refl x), IH. reflexivity.
Qed.

Lemma ar_vlist_same_refl : forall l, ar_vlist_same l l = true.
Proof. induction l; simpl; auto. rewrite ar_vsame_refl, IHl. reflexivity. Qed.

Lemma ar_obj_eqb_refl : forall o, ar_obj_eqb o o = true.
Proof.
  intros. unfold ar_obj_eqb. rewrite Z.eqb_refl, !ar_str_eqb_refl, ar_vlist_same_refl. reflexivity.
Qed.

Lemma ar_subset_refl : forall l, ar_subset l l = true.
Proof.
  intros. unfold ar_subset. apply forallb_forall. intros x I. apply existsb_exists. exists x. split; auto using ar_obj_eqb_refl.
Qed.

Lemma ar_same_res_refl : forall r, ar_same_res r r = true.
Proof. destruct r; simpl; auto. unfold ar_same_set. rewrite ar_subset_refl. reflexivity. Qed.

Lemma ar_filter_map_comm : forall {A B} (f : A -> B) (p : B -> bool) l, filter p (map f l) = map f (filter (fun x => p (f x)) l).
Proof. induction l; simpl; auto. destruct (p (f a)); simpl; rewrite IHl; auto. Qed.

Lemma ar_run_wrap : forall genv inv rules,
  ar_run (ar_eval_rule false genv) inv (map ar_wrap_rule rules) = ar_run (ar_eval_rule false genv) inv rules.
Proof.
  intros. unfold ar_run. f_equal. induction rules; simpl; auto.
  rewrite IHrules. f_equal. apply map_ext. intros. apply ar_wrap_eval_rule.
Qed.

Lemma ar_apply_wrap : forall genv inv rules, ar_apply genv inv (map ar_wrap_rule rules) = ar_apply genv inv rules.
Proof.
  intros. unfold ar_apply, ar_load.
  rewrite !ar_filter_map_comm.
  change (fun x => ar_is_svc_rule (ar_wrap_rule x)) with ar_is_svc_rule.
  change (fun x => negb (ar_is_svc_rule (ar_wrap_rule x))) with (fun x => negb (ar_is_svc_rule x)).
  rewrite ar_run_wrap.
  destruct (ar_run (ar_eval_rule false genv) inv (filter ar_is_svc_rule rules)); auto.
  rewrite ar_run_wrap. reflexivity.
Qed.

Theorem ar_oracle_accepts_model : forall genv inv rules wrules,
  ar_premises genv inv rules = true ->
  ar_oracle genv inv rules wrules (ar_apply_fast genv inv rules) (ar_apply genv inv (map ar_wrap_rule rules)) = 0.
Proof.
  intros genv inv rules wrules P. unfold ar_oracle. rewrite P.
  rewrite ar_apply_wrap, (ar_apply_fast_eq _ _ _ P), ar_same_res_refl. reflexivity.
Qed.

(* outside the premises each path is compared with its own model: also accepted (code 0 or the recorded class 5) *)
Theorem ar_oracle_model_codes : forall genv inv rules,
  let c := ar_oracle genv inv rules (map ar_wrap_rule rules) (ar_apply_fast genv inv rules) (ar_apply genv inv (map ar_wrap_rule rules)) in
  c = 0 \/ c = 5.
Proof.
  intros. subst c. unfold ar_oracle.
  destruct (ar_premises genv inv rules) eqn:P.
  - left. rewrite ar_apply_wrap, (ar_apply_fast_eq _ _ _ P), ar_same_res_refl. reflexivity.
  - rewrite !ar_same_res_refl. simpl.
    destruct (ar_same_res (ar_apply_fast genv inv rules) (ar_apply genv inv (map ar_wrap_rule rules))); auto.
Qed.

(* ------------------------------------------------------------------ API fast path, as sets *)
Lemma ar_key_eqb_eq : forall a b, ar_key_eqb a b = true <-> a = b.
Proof.
  intros [a1 a2] [b1 b2]. unfold ar_key_eqb. simpl. rewrite andb_true_iff, !ar_str_eqb_eq.
  split; [intros [? ?]; subst; auto | intros H; inversion H; auto].
Qed.

Lemma ar_ksubset_spec : forall a b, ar_ksubset a b = true <-> (forall x, In x a -> In x b).
Proof.
  intros. unfold ar_ksubset. rewrite forallb_forall. split; intros H x I.
  - specialize (H x I). apply existsb_exists in H. destruct H as [y [Iy E]]. apply ar_key_eqb_eq in E. subst. auto.
  - apply existsb_exists. exists x. split; auto. apply ar_key_eqb_eq. auto.
Qed.

Lemma ar_collect_filter : forall {A B} (p : B -> bool) (k : B -> A) l,
  ar_collect (map (fun t => if p t then Some [k t] else Some []) l) = Some (map k (filter p l)).
Proof.
  induction l; simpl; auto. destruct (p a); rewrite IHl; reflexivity.
Qed.

Lemma ar_nav_bindings_none : forall navv to_svc t x,
  ar_mem x (ar_nav_names to_svc) = false -> ar_assoc x (ar_nav_bindings navv to_svc t) = None.
Proof.
  intros navv to_svc t x. unfold ar_nav_bindings, ar_mem.
  induction (ar_nav_names to_svc) as [|n r IH]; simpl; intros H; auto.
  apply orb_false_iff in H. destruct H as [H1 H2]. rewrite H1. auto.
Qed.

Lemma ar_api_agree : forall genv navv to_svc t fvars,
  ar_api_vars_ok to_svc fvars = true -> ar_agree (Some fvars) (ar_mk_env genv (ar_api_locals navv to_svc t fvars)).
Proof.
  intros genv navv to_svc t fvars V x v H. unfold ar_lookup, ar_api_locals. simpl ar_locals.
  assert (N : ar_api_var_ok to_svc x = true).
  { unfold ar_api_vars_ok in V. rewrite forallb_forall in V.
    induction fvars as [|[k w] r IH]; simpl in H; try discriminate.
    destruct (ar_str_eqb x k) eqn:E.
    - apply ar_str_eqb_eq in E. subst k. apply (V (x, w) (or_introl eq_refl)).
    - apply IH; auto. intros y Iy. apply V. right. auto. }
  unfold ar_api_var_ok in N. apply negb_true_iff in N.
  apply orb_false_iff in N. destruct N as [N N3]. apply orb_false_iff in N. destruct N as [N1 N2].
  unfold ar_is_target_var in N1. apply orb_false_iff in N1. destruct N1 as [N0 N1].
  rewrite ar_assoc_app_none.
  - rewrite ar_assoc_app_none by (apply ar_nav_bindings_none; auto). rewrite H. reflexivity.
  - destruct t; simpl; rewrite ?N0, ?N1, ?N2; reflexivity.
Qed.

Lemma ar_api_named_host : forall genv navv to_svc t fvars,
  ar_named (ar_mk_env genv (ar_api_locals navv to_svc t fvars)) ar_s_host (ar_t_host t).
Proof. intros. unfold ar_named, ar_lookup, ar_api_locals. destruct t; simpl; eexists; split; reflexivity. Qed.
Lemma ar_api_named_service : forall genv navv to_svc h s fvars,
  ar_named (ar_mk_env genv (ar_api_locals navv to_svc (ATSvc h s) fvars)) ar_s_service (ar_sv_name s).
Proof. intros. unfold ar_named, ar_lookup, ar_api_locals. simpl; eexists; split; reflexivity. Qed.

Lemma ar_find_full_in : forall inv b full k, In k (ar_find_full inv b full) ->
  exists t, In t (ar_targets inv b) /\ ar_t_fullname t = full /\ k = ar_t_key t.
Proof.
  intros inv b full k I. unfold ar_find_full in I.
  destruct (find (fun t => ar_str_eqb (ar_t_fullname t) full) (ar_targets inv b)) eqn:F; [|contradiction].
  apply find_some in F. destruct F as [F1 F2]. apply ar_str_eqb_eq in F2. destruct I as [I|[]]. eauto.
Qed.

Lemma ar_find_full_some : forall inv b t, In t (ar_targets inv b) ->
  exists t', In t' (ar_targets inv b) /\ ar_t_fullname t' = ar_t_fullname t /\ ar_find_full inv b (ar_t_fullname t) = [ar_t_key t'].
Proof.
  intros inv b t I. unfold ar_find_full.
  destruct (find (fun t0 => ar_str_eqb (ar_t_fullname t0) (ar_t_fullname t)) (ar_targets inv b)) eqn:F.
  - apply find_some in F. destruct F as [F1 F2]. apply ar_str_eqb_eq in F2. eauto.
  - exfalso. eapply find_none in F; eauto. simpl in F. rewrite ar_str_eqb_refl in F. discriminate.
Qed.

Lemma ar_host_targets : forall inv t, In t (ar_targets inv false) -> exists h, t = ATHost h.
Proof. intros inv t I. simpl in I. apply in_map_iff in I. destruct I as [h [E _]]. eauto. Qed.

Lemma ar_svc_targets_nobang : forall inv t, ar_inv_nobang inv = true -> In t (ar_targets inv true) ->
  exists h s, t = ATSvc h s /\ ar_nobang (ar_h_name h) = true /\ ar_nobang (ar_sv_name s) = true.
Proof.
  intros inv t N I. simpl in I. apply in_flat_map in I. destruct I as [h [Ih I]].
  apply in_map_iff in I. destruct I as [s [E Is]]. exists (ar_strip h), s. simpl ar_h_name.
  unfold ar_inv_nobang in N. rewrite forallb_forall in N. specialize (N h Ih).
  apply andb_true_iff in N. destruct N as [N1 N2]. rewrite forallb_forall in N2. auto.
Qed.

Theorem ar_api_fast_eq : forall genv navv inv to_svc fvars f,
  ar_api_premises inv = true ->
  ar_same_keys (ar_api_fast genv navv inv to_svc fvars f) (ar_api_plain genv navv inv to_svc fvars f) = true.
Proof.
  intros genv navv inv to_svc fvars f NB. unfold ar_api_premises in NB.
  assert (R : forall r, ar_same_keys r r = true).
  { destruct r; simpl; auto. rewrite andb_diag. apply ar_ksubset_spec. auto. }
  unfold ar_api_fast. destruct (ar_api_vars_ok to_svc fvars) eqn:V; [simpl|apply R]. destruct to_svc.
  - destruct (ar_target_services (Some fvars) f) eqn:E; [|apply R].
    unfold ar_api_plain.
    erewrite map_ext_in.
    2:{ intros t It. destruct (ar_svc_targets_nobang inv t NB It) as [h [s [Et _]]]. subst t.
        rewrite (ar_target_services_sound_complete (Some fvars) _ f l (ar_h_name h) (ar_sv_name s)
                   (ar_api_agree genv navv true (ATSvc h s) fvars V) (ar_api_named_host genv navv true (ATSvc h s) fvars)
                   (ar_api_named_service genv navv true h s fvars) E).
        simpl ar_truthy.
        instantiate (1 := fun t => if ar_mem2 (ar_t_host t) (ar_t_svc t) l then Some [ar_t_key t] else Some []).
        simpl. reflexivity. }
    rewrite ar_collect_filter. simpl. apply andb_true_iff. split; apply ar_ksubset_spec; intros k I.
    + apply in_flat_map in I. destruct I as [[qh qs] [Ip I]]. simpl in I.
      apply ar_find_full_in in I. destruct I as [t [It [Ef Ek]]]. subst k.
      apply in_map. apply filter_In. split; auto.
      destruct (ar_svc_targets_nobang inv t NB It) as [h [s [Et [N1 N2]]]]. subst t. simpl in Ef.
      apply ar_nobang_split in Ef; auto. destruct Ef; subst. simpl.
      unfold ar_mem2. apply existsb_exists. exists (ar_h_name h, ar_sv_name s). split; auto. simpl. rewrite !ar_str_eqb_refl. reflexivity.
    + apply in_map_iff in I. destruct I as [t [Ek I]]. apply filter_In in I. destruct I as [It M]. subst k.
      unfold ar_mem2 in M. apply existsb_exists in M. destruct M as [[qh qs] [Ip M]]. simpl in M.
      apply andb_true_iff in M. destruct M as [M1 M2]. apply ar_str_eqb_eq in M1, M2.
      apply in_flat_map. exists (qh, qs). split; auto. simpl.
      destruct (ar_find_full_some inv true t It) as [t' [It' [Ef Eq]]].
      destruct (ar_svc_targets_nobang inv t NB It) as [h [s [Et [N1 N2]]]]. subst t.
      destruct (ar_svc_targets_nobang inv t' NB It') as [h' [s' [Et' [N1' N2']]]]. subst t'.
      simpl in *. subst qh qs. rewrite Eq. left.
      apply ar_nobang_split in Ef; auto. destruct Ef as [X Y]. unfold ar_t_key. simpl. rewrite X, Y. reflexivity.
  - destruct (ar_target_hosts (Some fvars) f) eqn:E; [|apply R].
    unfold ar_api_plain.
    erewrite map_ext_in.
    2:{ intros t It.
        rewrite (ar_target_hosts_sound_complete (Some fvars) _ f l (ar_t_host t)
                   (ar_api_agree genv navv false t fvars V) (ar_api_named_host genv navv false t fvars) E).
        simpl ar_truthy.
        instantiate (1 := fun t => if ar_mem (ar_t_host t) l then Some [ar_t_key t] else Some []).
        simpl. reflexivity. }
    rewrite ar_collect_filter. simpl. apply andb_true_iff. split; apply ar_ksubset_spec; intros k I.
    + apply in_flat_map in I. destruct I as [q [Ip I]].
      apply ar_find_full_in in I. destruct I as [t [It [Ef Ek]]]. subst k.
      apply in_map. apply filter_In. split; auto.
      destruct (ar_host_targets inv t It) as [h Et]. subst t. simpl in *. subst q.
      unfold ar_mem. apply existsb_exists. exists (ar_h_name h). split; auto. apply ar_str_eqb_refl.
    + apply in_map_iff in I. destruct I as [t [Ek I]]. apply filter_In in I. destruct I as [It M]. subst k.
      unfold ar_mem in M. apply existsb_exists in M. destruct M as [q [Ip M]]. apply ar_str_eqb_eq in M.
      apply in_flat_map. exists q. split; auto.
      destruct (ar_find_full_some inv false t It) as [t' [It' [Ef Eq]]].
      destruct (ar_host_targets inv t It) as [h Et]. subst t.
      destruct (ar_host_targets inv t' It') as [h' Et']. subst t'.
      simpl in *. subst q. rewrite Eq. left. unfold ar_t_key. simpl. rewrite Ef. reflexivity.
Qed.
