(* C16 - the created set does not depend on the order of rules or of hosts (set semantics of the
   registry: an error or duplicate anywhere fails the load in every order). *)
From Icv Require Import Base.Tac Apply.ArModel Apply.ArObs Apply.ArProofs.
From Coq Require Import Permutation.
Local Open Scope Z_scope.

Definition ar_res_perm (a b : option (list ar_obj)) : Prop :=
  match a, b with
  | None, None => True
  | Some x, Some y => Permutation x y
  | _, _ => False
  end.

Lemma ar_collect_perm : forall (l l' : list (option (list ar_obj))),
  Permutation l l' -> ar_res_perm (ar_collect l) (ar_collect l').
Proof.
  intros l l' P. induction P; simpl.
  - apply perm_nil.
  - destruct x; simpl; auto.
    destruct (ar_collect l), (ar_collect l'); simpl in *; auto. apply Permutation_app_head. auto.
  - destruct x, y; simpl; auto.
    destruct (ar_collect l); simpl; auto.
    rewrite !app_assoc. apply Permutation_app_tail. apply Permutation_app_comm.
  - destruct (ar_collect l), (ar_collect l'), (ar_collect l''); simpl in *; auto; try contradiction.
    eapply Permutation_trans; eauto.
Qed.

Lemma ar_flat_map_pointwise : forall {A B} (f g : A -> list B) l,
  (forall x, In x l -> Permutation (f x) (g x)) -> Permutation (flat_map f l) (flat_map g l).
Proof.
  induction l; simpl; intros; auto. apply Permutation_app; auto.
Qed.

Lemma ar_filter_perm : forall {A} (p : A -> bool) l l', Permutation l l' -> Permutation (filter p l) (filter p l').
Proof.
  intros A p l l' P. induction P; simpl; auto.
  - destruct (p x); auto.
  - destruct (p x), (p y); auto. apply perm_swap.
  - eapply Permutation_trans; eauto.
Qed.

Definition ar_targets_equiv (inv inv' : list ar_host) : Prop :=
  forall b, Permutation (ar_targets inv b) (ar_targets inv' b).

Lemma ar_run_perm : forall at_ inv inv' rules rules',
  Permutation rules rules' -> ar_targets_equiv inv inv' ->
  ar_res_perm (ar_run at_ inv rules) (ar_run at_ inv' rules').
Proof.
  intros at_ inv inv' rules rules' P T. unfold ar_run. apply ar_collect_perm.
  eapply Permutation_trans.
  - apply Permutation_flat_map. exact P.
  - apply ar_flat_map_pointwise. intros r _. apply Permutation_map. apply T.
Qed.

Lemma ar_targets_perm : forall inv inv', Permutation inv inv' -> ar_targets_equiv inv inv'.
Proof.
  intros inv inv' P b. destruct b; simpl.
  - apply Permutation_flat_map. auto.
  - apply Permutation_map. auto.
Qed.

Lemma ar_add_services_equiv : forall inv inv' svcs svcs',
  Permutation inv inv' -> Permutation svcs svcs' ->
  ar_targets_equiv (ar_add_services inv svcs) (ar_add_services inv' svcs').
Proof.
  intros inv inv' svcs svcs' Pi Ps b.
  eapply Permutation_trans.
  - apply (ar_targets_perm (ar_add_services inv svcs) (ar_add_services inv' svcs)).
    unfold ar_add_services. apply Permutation_map. auto.
  - unfold ar_add_services. destruct b; simpl.
    + rewrite !flat_map_concat_map, !map_map. rewrite <- !flat_map_concat_map.
      apply ar_flat_map_pointwise. intros h _. simpl. apply Permutation_map.
      apply Permutation_app_head. apply Permutation_map. apply ar_filter_perm. auto.
    + rewrite !map_map. simpl. apply Permutation_refl.
Qed.

(* ---- validation is a property of the multiset ---- *)
Definition ar_nkey_eqb (x y : Z * ar_str) : bool := (fst x =? fst y) && ar_str_eqb (snd x) (snd y).
Lemma ar_nkey_eqb_eq : forall x y, ar_nkey_eqb x y = true <-> x = y.
Proof.
  intros [a b] [c d]. unfold ar_nkey_eqb. simpl. rewrite andb_true_iff, Z.eqb_eq, ar_str_eqb_eq.
  split; [intros [? ?]; subst; auto | intros H; inversion H; auto].
Qed.

Lemma ar_nodupb_NoDup : forall l, ar_nodupb l = true <-> NoDup l.
Proof.
  induction l; simpl.
  - split; auto. constructor.
  - rewrite andb_true_iff, negb_true_iff, IHl. split.
    + intros [H1 H2]. constructor; auto. intro I.
      assert (existsb (fun y => (fst a =? fst y) && ar_str_eqb (snd a) (snd y)) l = true).
      { apply existsb_exists. exists a. split; auto. apply (proj2 (ar_nkey_eqb_eq a a)). auto. }
      congruence.
    + intros H. inversion H; subst. split; auto.
      destruct (existsb (fun y => (fst a =? fst y) && ar_str_eqb (snd a) (snd y)) l) eqn:E; auto.
      apply existsb_exists in E. destruct E as [y [Iy E]]. apply (proj1 (ar_nkey_eqb_eq a y)) in E. subst. contradiction.
Qed.

Lemma ar_nodupb_perm : forall l l', Permutation l l' -> ar_nodupb l = ar_nodupb l'.
Proof.
  intros l l' P.
  destruct (ar_nodupb l) eqn:E1, (ar_nodupb l') eqn:E2; auto.
  - apply ar_nodupb_NoDup in E1. eapply Permutation_NoDup in E1; eauto. apply ar_nodupb_NoDup in E1. congruence.
  - apply ar_nodupb_NoDup in E2. apply Permutation_sym in P. eapply Permutation_NoDup in E2; eauto. apply ar_nodupb_NoDup in E2. congruence.
Qed.

Lemma ar_forallb_perm : forall {A} (p : A -> bool) l l', Permutation l l' -> forallb p l = forallb p l'.
Proof.
  intros A p l l' P. induction P; simpl; auto.
  - rewrite IHP. auto.
  - destruct (p x), (p y); auto.
  - congruence.
Qed.

Lemma ar_inv_names_perm : forall inv inv', Permutation inv inv' -> Permutation (ar_inv_names inv) (ar_inv_names inv').
Proof.
  intros. unfold ar_inv_names. apply Permutation_app.
  - apply Permutation_map. auto.
  - apply Permutation_flat_map. auto.
Qed.

Lemma ar_validate_perm : forall inv inv' a b,
  Permutation (ar_inv_names inv) (ar_inv_names inv') -> ar_res_perm a b -> ar_res_perm (ar_validate inv a) (ar_validate inv' b).
Proof.
  intros inv inv' a b Pi R. destruct a, b; simpl in *; auto; try contradiction.
  rewrite (ar_forallb_perm ar_obj_ok l l0 R).
  rewrite (ar_nodupb_perm (map ar_key l ++ ar_inv_names inv) (map ar_key l0 ++ ar_inv_names inv')).
  2:{ apply Permutation_app. apply Permutation_map; auto. auto. }
  destruct (forallb ar_obj_ok l0 && ar_nodupb (map ar_key l0 ++ ar_inv_names inv')); simpl; auto.
Qed.

Theorem ar_load_order_independent : forall at_ inv inv' rules rules',
  Permutation rules rules' -> Permutation inv inv' ->
  ar_res_perm (ar_load at_ inv rules) (ar_load at_ inv' rules').
Proof.
  intros at_ inv inv' rules rules' Pr Pi. unfold ar_load.
  pose proof (ar_run_perm at_ inv inv' _ _ (ar_filter_perm ar_is_svc_rule _ _ Pr) (ar_targets_perm _ _ Pi)) as R1.
  destruct (ar_run at_ inv (filter ar_is_svc_rule rules)) as [s1|], (ar_run at_ inv' (filter ar_is_svc_rule rules')) as [s2|];
    simpl in R1; try contradiction; [|exact Logic.I].
  pose proof (ar_run_perm at_ _ _ _ _ (ar_filter_perm (fun r => negb (ar_is_svc_rule r)) _ _ Pr)
                (ar_add_services_equiv inv inv' s1 s2 Pi R1)) as R2.
  destruct (ar_run at_ (ar_add_services inv s1) (filter (fun r => negb (ar_is_svc_rule r)) rules)) as [o1|],
           (ar_run at_ (ar_add_services inv' s2) (filter (fun r => negb (ar_is_svc_rule r)) rules')) as [o2|];
    simpl in R2; try contradiction; [|exact Logic.I].
  apply ar_validate_perm; auto using ar_inv_names_perm. simpl. apply Permutation_app; auto.
Qed.

(* services of one host in another order *)
Lemma ar_svc_order_equiv : forall pre h svcs' post,
  Permutation (ar_h_svcs h) svcs' ->
  ar_targets_equiv (pre ++ h :: post)
                   (pre ++ {| ar_h_name := ar_h_name h; ar_h_fields := ar_h_fields h; ar_h_svcs := svcs' |} :: post).
Proof.
  intros pre h svcs' post P b. destruct b; simpl.
  - rewrite !flat_map_app. simpl. apply Permutation_app_head. apply Permutation_app_tail.
    apply Permutation_map. auto.
  - rewrite !map_app. simpl. apply Permutation_refl.
Qed.

(* ------------------------------------------------------------------ services of any hosts in another order,
   through the whole two-phase load *)
Definition ar_host_sperm (h h' : ar_host) : Prop :=
  ar_h_name h = ar_h_name h' /\ ar_h_fields h = ar_h_fields h' /\ Permutation (ar_h_svcs h) (ar_h_svcs h').
Definition ar_inv_sperm (inv inv' : list ar_host) : Prop := Forall2 ar_host_sperm inv inv'.

Lemma ar_strip_sperm : forall h h', ar_host_sperm h h' -> ar_strip h = ar_strip h'.
Proof. intros h h' [N [F _]]. unfold ar_strip. rewrite N, F. reflexivity. Qed.

Lemma ar_sperm_targets : forall inv inv', ar_inv_sperm inv inv' -> ar_targets_equiv inv inv'.
Proof.
  intros inv inv' S b. induction S; destruct b; simpl in *; auto.
  - apply Permutation_app; auto. rewrite (ar_strip_sperm _ _ H). apply Permutation_map. apply H.
  - rewrite (ar_strip_sperm _ _ H). apply perm_skip. auto.
Qed.

Lemma ar_sperm_add_services : forall inv inv' s1 s2,
  ar_inv_sperm inv inv' -> Permutation s1 s2 -> ar_inv_sperm (ar_add_services inv s1) (ar_add_services inv' s2).
Proof.
  intros inv inv' s1 s2 S P. induction S; simpl; constructor; auto.
  destruct H as [N [F Ps]]. unfold ar_host_sperm. simpl. repeat split; auto.
  apply Permutation_app; auto. apply Permutation_map. rewrite N. apply ar_filter_perm. auto.
Qed.

Lemma ar_sperm_inv_names : forall inv inv', ar_inv_sperm inv inv' -> Permutation (ar_inv_names inv) (ar_inv_names inv').
Proof.
  intros inv inv' S. unfold ar_inv_names. apply Permutation_app.
  - induction S; simpl; auto. destruct H as [N _]. rewrite N. apply perm_skip. auto.
  - induction S; simpl; auto. apply Permutation_app; auto.
    destruct H as [N [_ Ps]]. rewrite N. apply Permutation_map. auto.
Qed.

Lemma ar_load_service_order_independent : forall at_ inv inv' rules,
  ar_inv_sperm inv inv' -> ar_res_perm (ar_load at_ inv rules) (ar_load at_ inv' rules).
Proof.
  intros at_ inv inv' rules S. unfold ar_load.
  pose proof (ar_run_perm at_ inv inv' _ _ (Permutation_refl (filter ar_is_svc_rule rules)) (ar_sperm_targets _ _ S)) as R1.
  destruct (ar_run at_ inv (filter ar_is_svc_rule rules)) as [s1|], (ar_run at_ inv' (filter ar_is_svc_rule rules)) as [s2|];
    simpl in R1; try contradiction; [|exact Logic.I].
  pose proof (ar_run_perm at_ _ _ _ _ (Permutation_refl (filter (fun r => negb (ar_is_svc_rule r)) rules))
                (ar_sperm_targets _ _ (ar_sperm_add_services inv inv' s1 s2 S R1))) as R2.
  destruct (ar_run at_ (ar_add_services inv s1) (filter (fun r => negb (ar_is_svc_rule r)) rules)) as [o1|],
           (ar_run at_ (ar_add_services inv' s2) (filter (fun r => negb (ar_is_svc_rule r)) rules)) as [o2|];
    simpl in R2; try contradiction; [|exact Logic.I].
  apply ar_validate_perm; auto using ar_sperm_inv_names. simpl. apply Permutation_app; auto.
Qed.

Lemma ar_res_perm_trans : forall a b c, ar_res_perm a b -> ar_res_perm b c -> ar_res_perm a c.
Proof.
  intros [a|] [b|] [c|]; simpl; auto; try contradiction. apply Permutation_trans.
Qed.

(* rules permuted, hosts permuted, and the services of every host permuted *)
Theorem ar_load_fully_order_independent : forall at_ inv mid inv' rules rules',
  Permutation rules rules' -> Permutation inv mid -> ar_inv_sperm mid inv' ->
  ar_res_perm (ar_load at_ inv rules) (ar_load at_ inv' rules').
Proof.
  intros. eapply ar_res_perm_trans.
  - apply ar_load_order_independent; eauto.
  - apply ar_load_service_order_independent; auto.
Qed.
