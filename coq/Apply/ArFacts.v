(* C16 - the navigation field names the model of GetFilterTargets' guard uses are the ones the source
   declares now (regenerated fact coq/Facts/Facts_c18.v: f_pm_nav_host / f_pm_nav_service, extracted from
   checkable.ti / host.ti / service.ti by tools/facts_c18.py).  An unrecognised fact (None) degrades to
   correspondence only. *)
From Icv Require Import Base.Tac Apply.ArModel.
From Icv Require Facts.Facts_c18.
From Coq Require Import String Ascii NArith.
Local Open Scope Z_scope.

Definition ar_of_coq_string (s : string) : ar_str := map (fun a => Z.of_N (N_of_ascii a)) (list_ascii_of_string s).

Definition ar_nav_fact_ok (f : option (list string)) (names : list ar_str) : Prop :=
  match f with Some l => map ar_of_coq_string l = names | None => True end.

Lemma ar_nav_facts :
  ar_nav_fact_ok Facts_c18.f_pm_nav_host (ar_nav_names false) /\
  ar_nav_fact_ok Facts_c18.f_pm_nav_service (ar_nav_names true).
Proof. split; vm_compute; reflexivity. Qed.
