(* C16 - the evaluation frame of an apply rule, explicitly.  MODEL ONLY (no proofs).

   Transcribed from lib/icinga/{service,notification,dependency,scheduleddowntime}-apply.cpp:

     EvaluateApplyRule(target, rule, skipFilter):
        ScriptFrame frame(true);                                   a NEW, empty Locals dictionary
        if (rule.GetScope()) rule.GetScope()->CopyTo(frame.Locals);   the use() closure
        frame.Locals->Set("host", host); [Set("service", service)]
        vinstances = rule.GetFTerm()->Evaluate(frame)              the `for` set sees exactly these locals
        for each element:  frame.Locals->Set(fkvar, ..); [Set(fvvar, ..)]   into the SAME dictionary
                           EvaluateApplyRuleInstance(.., frame, ..)          filter in this frame;
                           builder.SetScope(frame.Locals->ShallowClone())    the body sees a snapshot
     EvaluateApplyRules(target):  every Regular rule, then every rule indexed under the target's name

   ArModel.ar_eval_rule describes the same with immutable binding lists (later bindings consed in
   front).  Here the Locals dictionary is a mutable map threaded through the loops - nothing is ever
   removed from it - and WHERE a new frame is made is a parameter: [AFPerRule] is the code; the other
   two policies are counter-models (a frame made once per EvaluateApplyRules call, or once for the
   whole evaluator) on which the independence theorem fails (ArFrameProofs.v). *)
From Icv Require Import Base.Tac Apply.ArModel.
Local Open Scope Z_scope.

(* Dictionary::Set: replaces the value of an existing key, or adds the key *)
Definition ar_frame := list (ar_str * ar_value).
Fixpoint ar_fr_set (k : ar_str) (v : ar_value) (fr : ar_frame) : ar_frame :=
  match fr with
  | [] => [(k, v)]
  | (k', v') :: r => if ar_str_eqb k k' then (k, v) :: r else (k', v') :: ar_fr_set k v r
  end.

(* a run of Set calls, written like the binding lists of ArModel: the LAST Set comes first.  For
   CopyTo of a Dictionary (unique keys) the order is irrelevant *)
Definition ar_fr_sets (l : list (ar_str * ar_value)) (fr : ar_frame) : ar_frame :=
  fold_right (fun kv f => ar_fr_set (fst kv) (snd kv) f) fr l.

(* head of EvaluateApplyRule: scope copied in, then host, then service *)
Definition ar_fr_enter (r : ar_rule) (t : ar_target) (fr : ar_frame) : ar_frame :=
  ar_fr_sets (ar_t_bindings t) (ar_fr_sets (ar_r_use r) fr).

(* the loop over the `for` set: every element Sets its variables into the one frame, then the instance is
   evaluated in it.  Result: created objects (None = a ScriptError escaped) and the frame as it is left *)
Fixpoint ar_fr_loop (skip : bool) (genv : ar_env) (r : ar_rule) (t : ar_target) (fr : ar_frame)
         (insts : list (ar_str * list (ar_str * ar_value))) : option (list ar_obj) * ar_frame :=
  match insts with
  | [] => (Some [], fr)
  | inst :: rest =>
      let fr1 := ar_fr_sets (snd inst) fr in
      match ar_inst_at skip genv r t fr1 (fst inst) with
      | None => (None, fr1)
      | Some os =>
          let (res, fr2) := ar_fr_loop skip genv r t fr1 rest in
          (match res with Some os' => Some (os ++ os') | None => None end, fr2)
      end
  end.

(* EvaluateApplyRule, started on the frame [fr] *)
Definition ar_fr_eval_rule (skip : bool) (genv : ar_env) (r : ar_rule) (t : ar_target) (fr : ar_frame)
  : option (list ar_obj) * ar_frame :=
  let fr0 := ar_fr_enter r t fr in
  match ar_instances r (ar_mk_env genv fr0) with
  | None => (None, fr0)
  | Some insts => ar_fr_loop skip genv r t fr0 insts
  end.

(* where a new frame is made *)
Inductive ar_fr_policy :=
| AFPerRule        (* inside EvaluateApplyRule: the code *)
| AFPerTarget      (* once per EvaluateApplyRules(target) call, shared by its rules *)
| AFGlobal.        (* once, shared by everything *)

(* EvaluateApplyRules(target): [rs] = the rules in evaluation order with their skipFilter flag.  After a
   ScriptError the code stops; the model goes on, which makes no difference to a load that fails anyway *)
Fixpoint ar_fr_visit (pol : ar_fr_policy) (genv : ar_env) (t : ar_target) (fr : ar_frame) (rs : list (bool * ar_rule))
  : list (option (list ar_obj)) * ar_frame :=
  match rs with
  | [] => ([], fr)
  | sr :: rest =>
      let (res, fr1) := ar_fr_eval_rule (fst sr) genv (snd sr) t (match pol with AFPerRule => [] | _ => fr end) in
      let (more, fr2) := ar_fr_visit pol genv t fr1 rest in
      (res :: more, fr2)
  end.

(* any sequence of EvaluateApplyRules calls; [fr] = whatever the evaluator holds when it starts *)
Fixpoint ar_fr_visits (pol : ar_fr_policy) (genv : ar_env) (fr : ar_frame) (vs : list (ar_target * list (bool * ar_rule)))
  : list (list (option (list ar_obj))) * ar_frame :=
  match vs with
  | [] => ([], fr)
  | v :: rest =>
      let (res, fr1) := ar_fr_visit pol genv (fst v) (match pol with AFGlobal => fr | _ => [] end) (snd v) in
      let (more, fr2) := ar_fr_visits pol genv fr1 rest in
      (res :: more, fr2)
  end.

(* ---- a whole load at this level: targets in inventory order, per target the Regular rules in rule order
   and then the rules indexed under it (the real code additionally makes one such call per source type;
   by the independence theorem, which holds for every plan, the grouping is immaterial) *)
Definition ar_fr_sel (r : ar_rule) (t : ar_target) : option bool :=
  match ar_rule_index r with
  | AIRegular => Some false
  | AIHosts ns => if ar_mem (ar_t_host t) ns then Some true else None
  | AIServices ps => if ar_mem2 (ar_t_host t) (ar_t_svc t) ps then Some true else None
  end.
Definition ar_fr_is (want : bool) (r : ar_rule) (t : ar_target) : bool :=
  match ar_fr_sel r t with Some b => Bool.eqb b want | None => false end.
Definition ar_fr_rules_for (t : ar_target) (rules : list ar_rule) : list (bool * ar_rule) :=
  map (pair false) (filter (fun r => ar_fr_is false r t) rules) ++
  map (pair true) (filter (fun r => ar_fr_is true r t) rules).

Definition ar_fr_plan (inv : list ar_host) (rules : list ar_rule) : list (ar_target * list (bool * ar_rule)) :=
  map (fun t => (t, ar_fr_rules_for t (filter (fun r => negb (ar_r_to_svc r)) rules))) (ar_targets inv false) ++
  map (fun t => (t, ar_fr_rules_for t (filter ar_r_to_svc rules))) (ar_targets inv true).

Definition ar_fr_run (pol : ar_fr_policy) (genv : ar_env) (inv : list ar_host) (rules : list ar_rule) : option (list ar_obj) :=
  ar_collect (concat (fst (ar_fr_visits pol genv [] (ar_fr_plan inv rules)))).

Definition ar_fr_load (pol : ar_fr_policy) (genv : ar_env) (inv : list ar_host) (rules : list ar_rule) : option (list ar_obj) :=
  match ar_fr_run pol genv inv (filter ar_is_svc_rule rules) with
  | None => None
  | Some svcs =>
      match ar_fr_run pol genv (ar_add_services inv svcs) (filter (fun r => negb (ar_is_svc_rule r)) rules) with
      | None => None
      | Some os => ar_validate inv (Some (svcs ++ os))
      end
  end.
