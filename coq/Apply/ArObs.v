(* C16 - the premises of the fast-path theorems as executable predicates, and the property oracle
   that is run over the IMPLEMENTATION's traces (definitions only; proofs in ArProofs.v). *)
From Icv Require Import Base.Tac Apply.ArModel.
Local Open Scope Z_scope.

(* ---- premise (the negated signature of the one remaining recorded finding) ---- *)

(* evaluating the `for` set throws on no target (array given to a key=>value iterator or dictionary
   given to a plain one): the indexed path never evaluates it on targets it is not indexed under *)
Definition ar_for_ok (genv : ar_env) (inv : list ar_host) (r : ar_rule) : bool :=
  match ar_rule_index r with
  | AIRegular => true
  | _ => forallb (fun t => match ar_instances r (ar_mk_env genv (ar_t_bindings t ++ ar_r_use r)) with
                           | None => false | Some _ => true end)
                 (ar_targets inv (ar_r_to_svc r))
  end.

Definition ar_premises (genv : ar_env) (inv : list ar_host) (rules : list ar_rule) : bool :=
  forallb (ar_for_ok genv inv) (filter ar_is_svc_rule rules)
  && match ar_run (ar_eval_rule false genv) inv (filter ar_is_svc_rule rules) with
     | None => true
     | Some svcs => forallb (ar_for_ok genv (ar_add_services inv svcs)) (filter (fun r => negb (ar_is_svc_rule r)) rules)
     end.

(* API: names are '!'-free (ConfigItemBuilder enforces it), so "<host>!<service>" lookups are unambiguous *)
Definition ar_nobang (s : ar_str) : bool := negb (existsb (Z.eqb ar_bang) s).
Definition ar_inv_nobang (inv : list ar_host) : bool :=
  forallb (fun h => ar_nobang (ar_h_name h) && forallb (fun s => ar_nobang (ar_sv_name s)) (ar_h_svcs h)) inv.
Definition ar_api_premises (inv : list ar_host) : bool := ar_inv_nobang inv.

(* ---- comparison of observed object sets ---- *)
Fixpoint ar_vsame (a b : ar_value) {struct a} : bool :=
  match a, b with
  | AVEmpty, AVEmpty => true
  | AVErr, AVErr => true
  | AVBool x, AVBool y => Bool.eqb x y
  | AVNum x, AVNum y => x =? y
  | AVStr x, AVStr y => ar_str_eqb x y
  | AVArr l1, AVArr l2 =>
      (fix go (l1 l2 : list ar_value) {struct l1} : bool :=
         match l1, l2 with
         | [], [] => true
         | x :: r1, y :: r2 => ar_vsame x y && go r1 r2
         | _, _ => false
         end) l1 l2
  | AVDict d1, AVDict d2 =>
      (fix go (l1 l2 : list (ar_str * ar_value)) {struct l1} : bool :=
         match l1, l2 with
         | [], [] => true
         | (k1, x) :: r1, (k2, y) :: r2 => ar_str_eqb k1 k2 && ar_vsame x y && go r1 r2
         | _, _ => false
         end) d1 d2
  | AVObj d1, AVObj d2 =>
      (fix go (l1 l2 : list (ar_str * ar_value)) {struct l1} : bool :=
         match l1, l2 with
         | [], [] => true
         | (k1, x) :: r1, (k2, y) :: r2 => ar_str_eqb k1 k2 && ar_vsame x y && go r1 r2
         | _, _ => false
         end) d1 d2
  | _, _ => false
  end.

Fixpoint ar_vlist_same (a b : list ar_value) : bool :=
  match a, b with
  | [], [] => true
  | x :: r1, y :: r2 => ar_vsame x y && ar_vlist_same r1 r2
  | _, _ => false
  end.

(* what is observed of a created object: type, full name, target host/service, parent, body attributes *)
Definition ar_obj_eqb (a b : ar_obj) : bool :=
  (ar_o_kind a =? ar_o_kind b) && ar_str_eqb (ar_o_name a) (ar_o_name b)
  && ar_str_eqb (ar_o_host a) (ar_o_host b) && ar_str_eqb (ar_o_svc a) (ar_o_svc b)
  && ar_str_eqb (ar_o_parent a) (ar_o_parent b) && ar_vlist_same (ar_o_body a) (ar_o_body b).

Definition ar_subset (a b : list ar_obj) : bool := forallb (fun x => existsb (ar_obj_eqb x) b) a.
Definition ar_same_set (a b : list ar_obj) : bool := ar_subset a b && ar_subset b a.
Definition ar_same_res (a b : option (list ar_obj)) : bool :=
  match a, b with
  | None, None => true
  | Some x, Some y => ar_same_set x y
  | _, _ => false
  end.

(* ---- the oracle for one load: [plain] / [wrapped] are what EXISTED after loading the rules as
   written / wrapped as "(F) && true" (None = the load failed).
   0 ok
   1 the created set depends on the fast path                          (C16 violated)
   2 the created set is not exactly the matching targets               (C16 violated)
   3,4 outside the premises and not even what the respective path's model says
   5 outside the premises: recorded divergence (script error masked by the index) reproduced *)
Definition ar_oracle (genv : ar_env) (inv : list ar_host) (rules wrules : list ar_rule)
           (plain wrapped : option (list ar_obj)) : Z :=
  if ar_premises genv inv rules then
    if negb (ar_same_res plain wrapped) then 1
    else if negb (ar_same_res plain (ar_apply genv inv rules)) then 2
    else 0
  else
    if negb (ar_same_res plain (ar_apply_fast genv inv rules)) then 3
    else if negb (ar_same_res wrapped (ar_apply genv inv wrules)) then 4
    else if ar_same_res plain wrapped then 0 else 5.

(* ---- the order oracle: [base] = what existed after the load in script order, [other] = after loading the same
   configuration with the rules (and inventory objects) in another file order / with another number of worker
   threads.  6 = the created set depends on the order                                              (C16 violated) *)
Definition ar_order_oracle (base other : option (list ar_obj)) : Z :=
  if ar_same_res base other then 0 else 6.

(* which premise fails (for classification): 2 `for` error on an unindexed target *)
Definition ar_premise_class (genv : ar_env) (inv : list ar_host) (rules : list ar_rule) : Z :=
  if ar_premises genv inv rules then 0 else 2.

(* ---- API oracle: results as lists of (host, service short name) keys, None = the query threw *)
Definition ar_key_eqb (a b : ar_str * ar_str) : bool := ar_str_eqb (fst a) (fst b) && ar_str_eqb (snd a) (snd b).
Definition ar_ksubset (a b : list (ar_str * ar_str)) : bool := forallb (fun x => existsb (ar_key_eqb x) b) a.
Definition ar_same_keys (a b : option (list (ar_str * ar_str))) : bool :=
  match a, b with
  | None, None => true
  | Some x, Some y => ar_ksubset x y && ar_ksubset y x
  | _, _ => false
  end.

Definition ar_api_oracle (genv : ar_env) (navv : ar_target -> ar_str -> ar_value) (inv : list ar_host) (to_svc : bool) (fvars : list (ar_str * ar_value))
           (f : ar_expr) (plain wrapped : option (list (ar_str * ar_str))) : Z :=
  if ar_api_premises inv then
    if negb (ar_same_keys plain wrapped) then 1
    else if negb (ar_same_keys plain (ar_api_plain genv navv inv to_svc fvars f)) then 2
    else 0
  else
    if negb (ar_same_keys plain (ar_api_fast genv navv inv to_svc fvars f)) then 3
    else if negb (ar_same_keys wrapped (ar_api_plain genv navv inv to_svc fvars (ar_wrap f))) then 4
    else if ar_same_keys plain wrapped then 0 else 5.
