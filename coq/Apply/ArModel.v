(* C16 - apply rules and the name fast path.  MODEL ONLY (no proofs).

   Transcribed from
     lib/config/applyrule-targeted.cpp   GetTargetHosts / GetTargetServices / GetTargetService /
                                         GetComparedName / IsNameIndexer / GetConstString / GetConst
     lib/config/applyrule.cpp            AddRule (targeted index vs Regular list)
     lib/icinga/{service,notification,dependency,scheduleddowntime}-apply.cpp
                                         EvaluateApplyRules / EvaluateApplyRule / EvaluateApplyRuleInstance
     lib/config/config_parser.yy         filter := assign1 || assign2 ... [&& !(ignore1 || ...)]
     lib/config/expression.cpp           Variable, Indexer, Equal, NotEqual, LogicalAnd/Or/Negate, In, FunctionCall
     lib/base/value-operators.cpp        Value::operator==      lib/base/value.cpp  Value::ToBool
     lib/remote/filterutility.cpp        GetFilterTargets (fast path 272-336, EvaluateFilter 68-110)

   Strings are lists of byte codes.  Script errors (C++ exceptions) are the value [AVErr]; an
   error anywhere during a config load makes the whole load fail ([None]). *)
From Icv Require Import Base.Tac.
Local Open Scope Z_scope.

Definition ar_str := list Z.

Fixpoint ar_str_eqb (a b : ar_str) : bool :=
  match a, b with
  | [], [] => true
  | x :: a', y :: b' => (x =? y) && ar_str_eqb a' b'
  | _, _ => false
  end.

(* "host" "service" "name" "obj" "true" "false" "!" *)
Definition ar_s_host : ar_str := [104; 111; 115; 116].
Definition ar_s_service : ar_str := [115; 101; 114; 118; 105; 99; 101].
Definition ar_s_name : ar_str := [110; 97; 109; 101].
Definition ar_s_obj : ar_str := [111; 98; 106].
Definition ar_s_true : ar_str := [116; 114; 117; 101].
Definition ar_s_false : ar_str := [102; 97; 108; 115; 101].
Definition ar_bang : Z := 33.

(* ------------------------------------------------------------------ values *)
Inductive ar_value :=
| AVEmpty
| AVBool (b : bool)
| AVNum (z : Z)
| AVStr (s : ar_str)
| AVArr (l : list ar_value)
| AVDict (d : list (ar_str * ar_value))     (* Dictionary: missing key reads as Empty *)
| AVObj (d : list (ar_str * ar_value))      (* ConfigObject seen through reflection: unknown field throws *)
| AVErr.                                     (* a ScriptError was thrown *)

Definition ar_is_err (v : ar_value) : bool := match v with AVErr => true | _ => false end.

Fixpoint ar_assoc {A} (k : ar_str) (l : list (ar_str * A)) : option A :=
  match l with
  | [] => None
  | (k', v) :: r => if ar_str_eqb k k' then Some v else ar_assoc k r
  end.

(* Value::ToBool; None = error *)
Definition ar_truthy (v : ar_value) : option bool :=
  match v with
  | AVEmpty => Some false
  | AVBool b => Some b
  | AVNum z => Some (negb (z =? 0))
  | AVStr s => Some (match s with [] => false | _ => true end)
  | AVArr l => Some (match l with [] => false | _ => true end)
  | AVDict d => Some (match d with [] => false | _ => true end)
  | AVObj _ => Some true
  | AVErr => None
  end.

(* Value::operator== (value-operators.cpp:130-180).  Dictionaries and other objects compare by
   pointer identity in the code; two separately obtained ones are modelled as different. *)
Fixpoint ar_veq (a b : ar_value) {struct a} : bool :=
  match a, b with
  | AVNum x, AVNum y => x =? y
  | AVBool x, AVBool y => Bool.eqb x y
  | AVBool x, AVNum y => (if x then 1 else 0) =? y
  | AVNum x, AVBool y => x =? (if y then 1 else 0)
  | AVStr x, AVStr y => ar_str_eqb x y
  | AVStr x, AVEmpty => match x with [] => true | _ => false end
  | AVEmpty, AVStr y => match y with [] => true | _ => false end
  | AVEmpty, AVEmpty => true
  | AVArr l1, AVArr l2 =>
      (fix go (l1 l2 : list ar_value) {struct l1} : bool :=
         match l1, l2 with
         | [], [] => true
         | x :: r1, y :: r2 => ar_veq x y && go r1 r2
         | _, _ => false
         end) l1 l2
  | _, _ => false
  end.

(* static_cast<String>(Value) for the value kinds the generators use in `for` sets *)
Fixpoint ar_digits (fuel : nat) (z : Z) (acc : ar_str) : ar_str :=
  match fuel with
  | O => acc
  | S f => let acc' := (48 + z mod 10) :: acc in
           if z <? 10 then acc' else ar_digits f (z / 10) acc'
  end.
Definition ar_z_to_str (z : Z) : ar_str :=
  if z <? 0 then 45 :: ar_digits 40%nat (- z) [] else ar_digits 40%nat z [].
Definition ar_to_str (v : ar_value) : ar_str :=
  match v with
  | AVStr s => s
  | AVNum z => ar_z_to_str z
  | AVBool b => if b then ar_s_true else ar_s_false
  | _ => []
  end.

(* ------------------------------------------------------------------ expressions *)
Inductive ar_expr :=
| AELit (v : ar_value)                 (* LiteralExpression *)
| AEVar (x : ar_str)                   (* VariableExpression *)
| AEThis                               (* GetScopeExpression(ScopeThis) *)
| AEIndex (a b : ar_expr)              (* IndexerExpression: a.b is a["b"] *)
| AEEq (a b : ar_expr)
| AENe (a b : ar_expr)
| AEAnd (a b : ar_expr)
| AEOr (a b : ar_expr)
| AENot (a : ar_expr)
| AEIn (a b : ar_expr)
| AECall (f : ar_str) (a b : ar_expr). (* FunctionCallExpression, opaque: meaning supplied by the environment *)

Record ar_env := {
  ar_locals : list (ar_str * ar_value);    (* frame.Locals / the API frame namespace; the FIRST binding of a name wins *)
  ar_globals : list (ar_str * ar_value);   (* ScriptGlobal *)
  ar_this : ar_value;
  ar_fn : ar_str -> ar_value -> ar_value -> ar_value
}.

(* VariableExpression::DoEvaluate: Locals, then globals; undefined -> ScriptError *)
Definition ar_lookup (env : ar_env) (x : ar_str) : ar_value :=
  match ar_assoc x (ar_locals env) with
  | Some v => v
  | None => match ar_assoc x (ar_globals env) with Some v => v | None => AVErr end
  end.

(* VMOps::GetField *)
Definition ar_get_field (ctx idx : ar_value) : ar_value :=
  match ctx, idx with
  | AVErr, _ => AVErr
  | _, AVErr => AVErr
  | AVEmpty, _ => AVEmpty
  | AVDict d, AVStr k => match ar_assoc k d with Some v => v | None => AVEmpty end
  | AVObj d, AVStr k => match ar_assoc k d with Some v => v | None => AVErr end
  | _, _ => AVErr
  end.

Definition ar_lift2 (f : ar_value -> ar_value -> ar_value) (x y : ar_value) : ar_value :=
  if ar_is_err x || ar_is_err y then AVErr else f x y.

Definition ar_is_empty (v : ar_value) : bool :=
  match v with AVEmpty => true | AVStr [] => true | _ => false end.

Fixpoint ar_eval (env : ar_env) (e : ar_expr) : ar_value :=
  match e with
  | AELit v => v
  | AEVar x => ar_lookup env x
  | AEThis => ar_this env
  | AEIndex a b => ar_get_field (ar_eval env a) (ar_eval env b)
  | AEEq a b => ar_lift2 (fun x y => AVBool (ar_veq x y)) (ar_eval env a) (ar_eval env b)
  | AENe a b => ar_lift2 (fun x y => AVBool (negb (ar_veq x y))) (ar_eval env a) (ar_eval env b)
  | AEAnd a b =>
      let x := ar_eval env a in
      match ar_truthy x with
      | None => AVErr
      | Some false => x
      | Some true => ar_eval env b
      end
  | AEOr a b =>
      let x := ar_eval env a in
      match ar_truthy x with
      | None => AVErr
      | Some true => x
      | Some false => ar_eval env b
      end
  | AENot a => match ar_truthy (ar_eval env a) with None => AVErr | Some t => AVBool (negb t) end
  | AEIn a b =>
      (* operand 2 first; an empty right side short-cuts before operand 1 is evaluated *)
      let y := ar_eval env b in
      if ar_is_err y then AVErr
      else if ar_is_empty y then AVBool false
      else match y with
           | AVArr l => let x := ar_eval env a in
                        if ar_is_err x then AVErr else AVBool (existsb (fun z => ar_veq z x) l)
           | _ => AVErr
           end
  | AECall f a b => ar_lift2 (ar_fn env f) (ar_eval env a) (ar_eval env b)
  end.

(* ------------------------------------------------------------------ the recogniser (applyrule-targeted.cpp) *)
Definition ar_consts := option (list (ar_str * ar_value)).

(* GetConst: literal, or - only when a constants dictionary is given - a variable found in it *)
Definition ar_get_const (cs : ar_consts) (e : ar_expr) : option ar_value :=
  match e with
  | AELit v => Some v
  | AEVar x => match cs with Some c => ar_assoc x c | None => None end
  | _ => None
  end.

Definition ar_const_string (cs : ar_consts) (e : ar_expr) : option ar_str :=
  match ar_get_const cs e with Some (AVStr s) => Some s | _ => None end.

Definition ar_is_name_indexer (lc : ar_str) (cs : ar_consts) (e : ar_expr) : bool :=
  match e with
  | AEIndex (AEVar v) i =>
      if ar_str_eqb v lc then
        match ar_const_string cs i with Some s => ar_str_eqb s ar_s_name | None => false end
      else false
  | _ => false
  end.

Definition ar_compared_name (lc : ar_str) (cs : ar_consts) (e : ar_expr) : option ar_str :=
  match e with
  | AEEq a b =>
      if ar_is_name_indexer lc cs a then ar_const_string cs b
      else if ar_is_name_indexer lc cs b then ar_const_string cs a
      else None
  | _ => None
  end.

Fixpoint ar_target_hosts (cs : ar_consts) (e : ar_expr) : option (list ar_str) :=
  match e with
  | AEOr a b =>
      match ar_target_hosts cs a, ar_target_hosts cs b with
      | Some x, Some y => Some (x ++ y)
      | _, _ => None
      end
  | _ => match ar_compared_name ar_s_host cs e with Some n => Some [n] | None => None end
  end.

Definition ar_target_service (cs : ar_consts) (e : ar_expr) : option (ar_str * ar_str) :=
  match e with
  | AEAnd a b =>
      match ar_compared_name ar_s_host cs a with
      | Some h => match ar_compared_name ar_s_service cs b with Some s => Some (h, s) | None => None end
      | None =>
          match ar_compared_name ar_s_host cs b with
          | Some h => match ar_compared_name ar_s_service cs a with Some s => Some (h, s) | None => None end
          | None => None
          end
      end
  | _ => None
  end.

Fixpoint ar_target_services (cs : ar_consts) (e : ar_expr) : option (list (ar_str * ar_str)) :=
  match e with
  | AEOr a b =>
      match ar_target_services cs a, ar_target_services cs b with
      | Some x, Some y => Some (x ++ y)
      | _, _ => None
      end
  | _ => match ar_target_service cs e with Some p => Some [p] | None => None end
  end.

(* ------------------------------------------------------------------ inventory, rules, created objects *)
Record ar_svc := { ar_sv_name : ar_str; ar_sv_fields : list (ar_str * ar_value) }.
Record ar_host := { ar_h_name : ar_str; ar_h_fields : list (ar_str * ar_value); ar_h_svcs : list ar_svc }.

(* what the script sees of a host / service: field "name" is the object name (hosts) / short name (services) *)
Definition ar_host_val (h : ar_host) : ar_value := AVObj ((ar_s_name, AVStr (ar_h_name h)) :: ar_h_fields h).
Definition ar_svc_val (s : ar_svc) : ar_value := AVObj ((ar_s_name, AVStr (ar_sv_name s)) :: ar_sv_fields s).

Inductive ar_target := ATHost (h : ar_host) | ATSvc (h : ar_host) (s : ar_svc).

(* a target refers to its host by name and fields only *)
Definition ar_strip (h : ar_host) : ar_host := {| ar_h_name := ar_h_name h; ar_h_fields := ar_h_fields h; ar_h_svcs := [] |}.
Definition ar_targets (inv : list ar_host) (to_svc : bool) : list ar_target :=
  if to_svc then flat_map (fun h => map (ATSvc (ar_strip h)) (ar_h_svcs h)) inv
  else map (fun h => ATHost (ar_strip h)) inv.

Definition ar_t_host (t : ar_target) : ar_str := match t with ATHost h => ar_h_name h | ATSvc h _ => ar_h_name h end.
Definition ar_t_svc (t : ar_target) : ar_str := match t with ATHost _ => [] | ATSvc _ s => ar_sv_name s end.

(* frame.Locals->Set("host", host); Set("service", service)  (later Set wins = consed in front) *)
Definition ar_t_bindings (t : ar_target) : list (ar_str * ar_value) :=
  match t with
  | ATHost h => [(ar_s_host, ar_host_val h)]
  | ATSvc h s => [(ar_s_service, ar_svc_val s); (ar_s_host, ar_host_val h)]
  end.

Record ar_rule := {
  ar_r_kind : Z;                 (* 0 Service  1 Notification  2 Dependency  3 ScheduledDowntime *)
  ar_r_to_svc : bool;
  ar_r_name : ar_str;
  ar_r_filter : ar_expr;         (* the combined filter the parser builds, see ar_combine *)
  ar_r_for : option (ar_str * ar_str * ar_expr);   (* fkvar, fvvar ([] = none), fterm *)
  ar_r_use : list (ar_str * ar_value);             (* use (...) closure, evaluated at definition *)
  ar_r_body : list ar_expr;      (* observed attribute expressions of the rule body, evaluated in the instance scope *)
  ar_r_parent : ar_str           (* Dependency: parent_host_name set by the body *)
}.

(* config_parser.yy 1188-1212: assign := a1 || a2 ... (true if none); filter := assign && !ignore *)
Fixpoint ar_ors (first : ar_expr) (rest : list ar_expr) : ar_expr :=
  match rest with [] => first | e :: r => ar_ors (AEOr first e) r end.
Definition ar_combine (assigns ignores : list ar_expr) : ar_expr :=
  let a := match assigns with [] => AELit (AVBool true) | a1 :: r => ar_ors a1 r end in
  match ignores with
  | [] => a
  | i1 :: r => AEAnd a (AENot (ar_ors i1 r))
  end.

Record ar_obj := {
  ar_o_kind : Z; ar_o_name : ar_str;   (* full object name *)
  ar_o_short : ar_str;                 (* rule name ++ for-key *)
  ar_o_host : ar_str; ar_o_svc : ar_str;
  ar_o_parent : ar_str;                (* Dependency: parent host; [] otherwise *)
  ar_o_body : list ar_value
}.

Fixpoint ar_collect {A} (l : list (option (list A))) : option (list A) :=
  match l with
  | [] => Some []
  | None :: _ => None
  | Some x :: r => match ar_collect r with Some y => Some (x ++ y) | None => None end
  end.

(* the instances of the `for` set: (name suffix, extra locals); None = ScriptError *)
Definition ar_instances (r : ar_rule) (env0 : ar_env) : option (list (ar_str * list (ar_str * ar_value))) :=
  match ar_r_for r with
  | None => Some [([], [])]
  | Some (fk, fv, ft) =>
      match ar_eval env0 ft with
      | AVArr l =>
          match fv with
          | _ :: _ => None      (* "Dictionary iterator requires value to be a dictionary." *)
          | [] => Some (map (fun i => match fk with [] => ([], []) | _ => (ar_to_str i, [(fk, i)]) end) l)
          end
      | AVDict d =>
          match fv with
          | [] => None          (* "Array iterator requires value to be an array." *)
          | _ => Some (map (fun kv => (fst kv, [(fv, snd kv); (fk, AVStr (fst kv))])) d)
          end
      | _ => Some []            (* errors of the fterm are swallowed; other values give no instance *)
      end
  end.

Definition ar_mk_env (genv : ar_env) (locals : list (ar_str * ar_value)) : ar_env :=
  {| ar_locals := locals; ar_globals := ar_globals genv; ar_this := ar_this genv; ar_fn := ar_fn genv |}.

Definition ar_full_name (r : ar_rule) (t : ar_target) (suffix : ar_str) : ar_str :=
  match t with
  | ATHost h => ar_h_name h ++ ar_bang :: ar_r_name r ++ suffix
  | ATSvc h s => ar_h_name h ++ ar_bang :: ar_sv_name s ++ ar_bang :: ar_r_name r ++ suffix
  end.

(* ---- the object under construction, as the rule body sees it.  ConfigItem::Commit evaluates the item's
   expressions in ScriptFrame(true, dobj) after copying the item's scope (a ShallowClone of the rule's
   frame locals) into its locals; VariableExpression looks a name up in the locals, then among the OWN
   FIELDS of `this`, then in the globals.  Modelled fields: what EvaluateApplyRuleInstance's expressions
   set before the body (host_name/name, host_name/service_name, parent/child names), and vars.b0.. as far
   as the body has assigned them (the observed body lines are `vars.b<i> = <expr>`, in order) *)
Definition ar_s_vars : ar_str := [118; 97; 114; 115].
Definition ar_s_host_name : ar_str := [104; 111; 115; 116; 95; 110; 97; 109; 101].
Definition ar_s_service_name : ar_str := [115; 101; 114; 118; 105; 99; 101; 95; 110; 97; 109; 101].
Definition ar_s_parent_host_name : ar_str := [112; 97; 114; 101; 110; 116; 95; 104; 111; 115; 116; 95; 110; 97; 109; 101].
Definition ar_s_child_host_name : ar_str := [99; 104; 105; 108; 100; 95; 104; 111; 115; 116; 95; 110; 97; 109; 101].
Definition ar_s_child_service_name : ar_str :=
  [99; 104; 105; 108; 100; 95; 115; 101; 114; 118; 105; 99; 101; 95; 110; 97; 109; 101].
Fixpoint ar_body_vars (i : Z) (vs : list ar_value) : list (ar_str * ar_value) :=
  match vs with [] => [] | v :: r => ([98; 48 + i], v) :: ar_body_vars (i + 1) r end.

Definition ar_self_fields (r : ar_rule) (t : ar_target) (suffix : ar_str) (vs : list ar_value) : list (ar_str * ar_value) :=
  (if ar_r_kind r =? 0 then [(ar_s_host_name, AVStr (ar_t_host t)); (ar_s_name, AVStr (ar_r_name r ++ suffix))]
   else if ar_r_kind r =? 2 then [(ar_s_parent_host_name, AVStr (ar_r_parent r)); (ar_s_child_host_name, AVStr (ar_t_host t));
                                  (ar_s_child_service_name, AVStr (ar_t_svc t))]
   else [(ar_s_host_name, AVStr (ar_t_host t)); (ar_s_service_name, AVStr (ar_t_svc t))])
  ++ [(ar_s_vars, match vs with [] => AVEmpty | _ => AVDict (ar_body_vars 0 vs) end)].

(* locals first, then the own fields of `this`, then globals: the fields are appended to the locals *)
Definition ar_body_env (genv : ar_env) (r : ar_rule) (t : ar_target) (suffix : ar_str)
           (locals : list (ar_str * ar_value)) (vs : list ar_value) : ar_env :=
  let self := ar_self_fields r t suffix vs in
  {| ar_locals := locals ++ self; ar_globals := ar_globals genv; ar_this := AVObj self; ar_fn := ar_fn genv |}.

(* the body lines in order; [acc] = the values assigned so far *)
Fixpoint ar_eval_body (mk : list ar_value -> ar_env) (acc : list ar_value) (b : list ar_expr) : option (list ar_value) :=
  match b with
  | [] => Some acc
  | e :: r => let v := ar_eval (mk acc) e in
              if ar_is_err v then None else ar_eval_body mk (acc ++ [v]) r
  end.

(* EvaluateApplyRuleInstance with the frame locals as they are at the call and the instance's name suffix *)
Definition ar_inst_at (skip : bool) (genv : ar_env) (r : ar_rule) (t : ar_target)
           (locals : list (ar_str * ar_value)) (suffix : ar_str) : option (list ar_obj) :=
  let env := ar_mk_env genv locals in
  match (if skip then Some true else ar_truthy (ar_eval env (ar_r_filter r))) with
  | None => None
  | Some false => Some []
  | Some true =>
      (* ConfigItemBuilder::Compile: "Object names may not contain '!'" *)
      if existsb (Z.eqb ar_bang) (ar_r_name r ++ suffix) then None else
      (* builder.SetScope(frame.Locals->ShallowClone()): the body sees the locals of THIS moment *)
      match ar_eval_body (ar_body_env genv r t suffix locals) [] (ar_r_body r) with
      | None => None
      | Some vs => Some [{| ar_o_kind := ar_r_kind r; ar_o_name := ar_full_name r t suffix;
                            ar_o_short := ar_r_name r ++ suffix;
                            ar_o_host := ar_t_host t; ar_o_svc := ar_t_svc t;
                            ar_o_parent := (if ar_r_kind r =? 2 then ar_r_parent r else []); ar_o_body := vs |}]
      end
  end.

(* one element of the `for` set: its extra locals are in front of (= Set later than) the rule's base locals *)
Definition ar_eval_instance (skip : bool) (genv : ar_env) (r : ar_rule) (t : ar_target)
           (base : list (ar_str * ar_value)) (inst : ar_str * list (ar_str * ar_value)) : option (list ar_obj) :=
  ar_inst_at skip genv r t (snd inst ++ base) (fst inst).

(* EvaluateApplyRule *)
Definition ar_eval_rule (skip : bool) (genv : ar_env) (r : ar_rule) (t : ar_target) : option (list ar_obj) :=
  let base := ar_t_bindings t ++ ar_r_use r in
  match ar_instances r (ar_mk_env genv base) with
  | None => None
  | Some insts => ar_collect (map (ar_eval_instance skip genv r t base) insts)
  end.

(* registry validity after the load: names unique per type (also against the inventory's own
   services), no dependency of a host on itself *)
Fixpoint ar_nodupb (l : list (Z * ar_str)) : bool :=
  match l with
  | [] => true
  | x :: r => negb (existsb (fun y => (fst x =? fst y) && ar_str_eqb (snd x) (snd y)) r) && ar_nodupb r
  end.
Definition ar_obj_ok (o : ar_obj) : bool :=
  negb ((ar_o_kind o =? 2) && match ar_o_svc o with [] => ar_str_eqb (ar_o_host o) (ar_o_parent o) | _ => false end).

(* names the inventory itself occupies: hosts (tagged 4) and services (0) *)
Definition ar_inv_names (inv : list ar_host) : list (Z * ar_str) :=
  map (fun h => (4, ar_h_name h)) inv ++
  flat_map (fun h => map (fun s => (0, ar_h_name h ++ ar_bang :: ar_sv_name s)) (ar_h_svcs h)) inv.

Definition ar_key (o : ar_obj) : Z * ar_str := (ar_o_kind o, ar_o_name o).

Definition ar_validate (inv : list ar_host) (res : option (list ar_obj)) : option (list ar_obj) :=
  match res with
  | None => None
  | Some l =>
      if forallb ar_obj_ok l && ar_nodupb (map ar_key l ++ ar_inv_names inv)
      then Some l else None
  end.

(* services created by `apply Service` are targets of the `to Service` rules of the other types
   (Service is a load dependency of Notification/Dependency/ScheduledDowntime) *)
Definition ar_s_display_name : ar_str := [100; 105; 115; 112; 108; 97; 121; 95; 110; 97; 109; 101].
Definition ar_svc_of_obj (o : ar_obj) : ar_svc :=
  {| ar_sv_name := ar_o_short o;
     ar_sv_fields := [(ar_s_vars, match ar_o_body o with [] => AVEmpty | vs => AVDict (ar_body_vars 0 vs) end);
                      (ar_s_display_name, AVStr (ar_o_short o))] |}.
Definition ar_add_services (inv : list ar_host) (objs : list ar_obj) : list ar_host :=
  map (fun h => {| ar_h_name := ar_h_name h; ar_h_fields := ar_h_fields h;
                   ar_h_svcs := ar_h_svcs h ++ map ar_svc_of_obj
                                  (filter (fun o => ar_str_eqb (ar_o_host o) (ar_h_name h)) objs) |}) inv.

Definition ar_is_svc_rule (r : ar_rule) : bool := ar_r_kind r =? 0.

(* generic two-phase load, parameterised by how one rule is evaluated at one target *)
Definition ar_run (at_ : ar_rule -> ar_target -> option (list ar_obj)) (inv : list ar_host) (rules : list ar_rule)
  : option (list ar_obj) :=
  ar_collect (flat_map (fun r => map (at_ r) (ar_targets inv (ar_r_to_svc r))) rules).

Definition ar_load (at_ : ar_rule -> ar_target -> option (list ar_obj)) (inv : list ar_host) (rules : list ar_rule)
  : option (list ar_obj) :=
  match ar_run at_ inv (filter ar_is_svc_rule rules) with
  | None => None
  | Some svcs =>
      match ar_run at_ (ar_add_services inv svcs) (filter (fun r => negb (ar_is_svc_rule r)) rules) with
      | None => None
      | Some os => ar_validate inv (Some (svcs ++ os))
      end
  end.

(* THE SPECIFICATION: every rule on every target, filter evaluated *)
Definition ar_apply (genv : ar_env) (inv : list ar_host) (rules : list ar_rule) : option (list ar_obj) :=
  ar_load (ar_eval_rule false genv) inv rules.

(* AddRule: which name list the rule is indexed under (no constants at config load).  A rule whose
   for-loop variable is named host/service is never indexed (applyrule.cpp: shadowsTarget) *)
Definition ar_is_target_var (x : ar_str) : bool := ar_str_eqb x ar_s_host || ar_str_eqb x ar_s_service.
Definition ar_shadows_target (r : ar_rule) : bool :=
  match ar_r_for r with
  | None => false        (* fkvar = fvvar = "" *)
  | Some (fk, fv, _) => ar_is_target_var fk || ar_is_target_var fv
  end.
Inductive ar_index := AIRegular | AIHosts (ns : list ar_str) | AIServices (ps : list (ar_str * ar_str)).
Definition ar_rule_index (r : ar_rule) : ar_index :=
  if ar_shadows_target r then AIRegular
  else if ar_r_to_svc r then
    match ar_target_services None (ar_r_filter r) with Some ps => AIServices ps | None => AIRegular end
  else
    match ar_target_hosts None (ar_r_filter r) with Some ns => AIHosts ns | None => AIRegular end.

Definition ar_mem (n : ar_str) (ns : list ar_str) : bool := existsb (ar_str_eqb n) ns.
Definition ar_mem2 (h s : ar_str) (ps : list (ar_str * ar_str)) : bool :=
  existsb (fun p => ar_str_eqb h (fst p) && ar_str_eqb s (snd p)) ps.

(* EvaluateApplyRules with the index: Regular rules evaluate the filter; a targeted rule is only
   looked at for the targets it is indexed under, and there WITHOUT evaluating the filter *)
Definition ar_rule_fast_at (genv : ar_env) (r : ar_rule) (t : ar_target) : option (list ar_obj) :=
  match ar_rule_index r with
  | AIRegular => ar_eval_rule false genv r t
  | AIHosts ns => if ar_mem (ar_t_host t) ns then ar_eval_rule true genv r t else Some []
  | AIServices ps => if ar_mem2 (ar_t_host t) (ar_t_svc t) ps then ar_eval_rule true genv r t else Some []
  end.
Definition ar_apply_fast (genv : ar_env) (inv : list ar_host) (rules : list ar_rule) : option (list ar_obj) :=
  ar_load (ar_rule_fast_at genv) inv rules.

(* "(F) && true": same meaning, never recognised *)
Definition ar_wrap (e : ar_expr) : ar_expr := AEAnd e (AELit (AVBool true)).
Definition ar_wrap_rule (r : ar_rule) : ar_rule :=
  {| ar_r_kind := ar_r_kind r; ar_r_to_svc := ar_r_to_svc r; ar_r_name := ar_r_name r;
     ar_r_filter := ar_wrap (ar_r_filter r); ar_r_for := ar_r_for r; ar_r_use := ar_r_use r;
     ar_r_body := ar_r_body r; ar_r_parent := ar_r_parent r |}.

(* ------------------------------------------------------------------ API queries (FilterUtility::GetFilterTargets) *)
(* EvaluateFilter: namespace holds filter_vars, then obj / <type> and every FANavigation field of the target's
   type (value or null) are set over them.  The navigation field names in field-id order (checkable.ti,
   service.ti; cross-checked against the regenerated source fact in Properties_C16.v); their values are an
   input of the model ([navv], from the run) *)
Definition ar_s_check_command : ar_str := [99; 104; 101; 99; 107; 95; 99; 111; 109; 109; 97; 110; 100].
Definition ar_s_check_period : ar_str := [99; 104; 101; 99; 107; 95; 112; 101; 114; 105; 111; 100].
Definition ar_s_event_command : ar_str := [101; 118; 101; 110; 116; 95; 99; 111; 109; 109; 97; 110; 100].
Definition ar_s_command_endpoint : ar_str := [99; 111; 109; 109; 97; 110; 100; 95; 101; 110; 100; 112; 111; 105; 110; 116].
Definition ar_nav_host : list ar_str := [ar_s_check_command; ar_s_check_period; ar_s_event_command; ar_s_command_endpoint].
Definition ar_nav_service : list ar_str := ar_nav_host ++ [ar_s_host].
Definition ar_nav_names (to_svc : bool) : list ar_str := if to_svc then ar_nav_service else ar_nav_host.

Definition ar_api_bindings (t : ar_target) : list (ar_str * ar_value) :=
  match t with
  | ATHost h => [(ar_s_host, ar_host_val h); (ar_s_obj, ar_host_val h)]
  | ATSvc h s => [(ar_s_host, ar_host_val h); (ar_s_service, ar_svc_val s); (ar_s_obj, ar_svc_val s)]
  end.
Definition ar_nav_bindings (navv : ar_target -> ar_str -> ar_value) (to_svc : bool) (t : ar_target) : list (ar_str * ar_value) :=
  map (fun n => (n, navv t n)) (ar_nav_names to_svc).
Definition ar_api_locals (navv : ar_target -> ar_str -> ar_value) (to_svc : bool) (t : ar_target)
           (fvars : list (ar_str * ar_value)) : list (ar_str * ar_value) :=
  ar_api_bindings t ++ ar_nav_bindings navv to_svc t ++ fvars.

Definition ar_t_key (t : ar_target) : ar_str * ar_str := (ar_t_host t, ar_t_svc t).

Definition ar_api_plain (genv : ar_env) (navv : ar_target -> ar_str -> ar_value) (inv : list ar_host) (to_svc : bool)
           (fvars : list (ar_str * ar_value)) (f : ar_expr) : option (list (ar_str * ar_str)) :=
  ar_collect (map (fun t =>
                     match ar_truthy (ar_eval (ar_mk_env genv (ar_api_locals navv to_svc t fvars)) f) with
                     | None => None
                     | Some true => Some [ar_t_key t]
                     | Some false => Some []
                     end) (ar_targets inv to_svc)).

(* ctype->GetObject(name): hosts by name, services by "<host>!<service>" *)
Definition ar_t_fullname (t : ar_target) : ar_str :=
  match t with ATHost h => ar_h_name h | ATSvc h s => ar_h_name h ++ ar_bang :: ar_sv_name s end.
Definition ar_find_full (inv : list ar_host) (to_svc : bool) (full : ar_str) : list (ar_str * ar_str) :=
  match find (fun t => ar_str_eqb (ar_t_fullname t) full) (ar_targets inv to_svc) with
  | Some t => [ar_t_key t]
  | None => []
  end.

(* filter_vars named obj/host/service or like a navigation field of the target type are overwritten by
   EvaluateFilter: then no fast path (filterutility.cpp: shadowedVars; variableName is empty for
   GetFilterTargets' default argument) *)
Definition ar_api_var_ok (to_svc : bool) (x : ar_str) : bool :=
  negb (ar_is_target_var x || ar_str_eqb x ar_s_obj || ar_mem x (ar_nav_names to_svc)).
Definition ar_api_vars_ok (to_svc : bool) (fvars : list (ar_str * ar_value)) : bool :=
  forallb (fun kv => ar_api_var_ok to_svc (fst kv)) fvars.

Definition ar_api_fast (genv : ar_env) (navv : ar_target -> ar_str -> ar_value) (inv : list ar_host) (to_svc : bool)
           (fvars : list (ar_str * ar_value)) (f : ar_expr) : option (list (ar_str * ar_str)) :=
  if negb (ar_api_vars_ok to_svc fvars) then ar_api_plain genv navv inv to_svc fvars f
  else if to_svc then
    match ar_target_services (Some fvars) f with
    | Some ps => Some (flat_map (fun p => ar_find_full inv true (fst p ++ ar_bang :: snd p)) ps)
    | None => ar_api_plain genv navv inv to_svc fvars f
    end
  else
    match ar_target_hosts (Some fvars) f with
    | Some ns => Some (flat_map (ar_find_full inv false) ns)
    | None => ar_api_plain genv navv inv to_svc fvars f
    end.
