(* C16 - the counter-models: with a frame shared between the rules of one EvaluateApplyRules call (or by the
   whole evaluator) the loop variable of an earlier rule hides the global a later rule reads; the created
   set then depends on the rule order and is not what the filter says. *)
From Icv Require Import Base.Tac Apply.ArModel Apply.ArObs Apply.ArProofs Apply.ArFrame Apply.ArFrameProofs Apply.ArWitness.
Local Open Scope Z_scope.

(* const x = 80
   object Host "H" { vars.l = [ 8080 ]; vars.p = 80 }
   apply Service "a" for (x in host.vars.l) { }                 (rule A: for-only, the parser supplies `true`)
   apply Service "b" { assign where host.vars.p == x }          (rule B: reads the GLOBAL x) *)
Definition ar_fw_x : ar_str := [120].
Definition ar_fw_p : ar_str := [112].
Definition ar_fw_genv : ar_env :=
  {| ar_locals := []; ar_globals := [(ar_fw_x, AVNum 80)]; ar_this := AVEmpty; ar_fn := fun _ _ _ => AVErr |}.
Definition ar_fw_host : ar_host :=
  {| ar_h_name := ar_w_H; ar_h_fields := [(ar_s_vars, AVDict [(ar_w_l, AVArr [AVNum 8080]); (ar_fw_p, AVNum 80)])]; ar_h_svcs := [] |}.
Definition ar_fw_t : ar_target := ATHost ar_fw_host.
Definition ar_fw_A : ar_rule :=
  {| ar_r_kind := 0; ar_r_to_svc := false; ar_r_name := [97]; ar_r_filter := ar_combine [] [];
     ar_r_for := Some (ar_fw_x, [], ar_w_vars_l); ar_r_use := []; ar_r_body := []; ar_r_parent := [] |}.
Definition ar_fw_B : ar_rule :=
  {| ar_r_kind := 0; ar_r_to_svc := false; ar_r_name := [98];
     ar_r_filter := AEEq (AEIndex (AEIndex (AEVar ar_s_host) (AELit (AVStr ar_s_vars))) (AELit (AVStr ar_fw_p))) (AEVar ar_fw_x);
     ar_r_for := None; ar_r_use := []; ar_r_body := []; ar_r_parent := [] |}.

Definition ar_fw_names (res : list (list (option (list ar_obj)))) : list (list (option (list ar_str))) :=
  map (map (option_map (map ar_o_name))) res.

(* one frame per rule (the code): H!a8080 and H!b in both orders.
   one frame per EvaluateApplyRules call: in the order A, B rule B creates nothing *)
Lemma ar_fr_shared_refuted :
  ar_fw_names (fst (ar_fr_visits AFPerRule ar_fw_genv [] [(ar_fw_t, [(false, ar_fw_A); (false, ar_fw_B)])]))
    = [[Some [[72; 33; 97; 56; 48; 56; 48]]; Some [[72; 33; 98]]]] /\
  ar_fw_names (fst (ar_fr_visits AFPerRule ar_fw_genv [] [(ar_fw_t, [(false, ar_fw_B); (false, ar_fw_A)])]))
    = [[Some [[72; 33; 98]]; Some [[72; 33; 97; 56; 48; 56; 48]]]] /\
  ar_fw_names (fst (ar_fr_visits AFPerTarget ar_fw_genv [] [(ar_fw_t, [(false, ar_fw_A); (false, ar_fw_B)])]))
    = [[Some [[72; 33; 97; 56; 48; 56; 48]]; Some []]] /\
  ar_fw_names (fst (ar_fr_visits AFPerTarget ar_fw_genv [] [(ar_fw_t, [(false, ar_fw_B); (false, ar_fw_A)])]))
    = [[Some [[72; 33; 98]]; Some [[72; 33; 97; 56; 48; 56; 48]]]] /\
  (* a frame shared by the whole evaluator: a rule's variables even reach the next target *)
  ar_fw_names (fst (ar_fr_visits AFGlobal ar_fw_genv [] [(ar_fw_t, [(false, ar_fw_A)]); (ar_fw_t, [(false, ar_fw_B)])]))
    = [[Some [[72; 33; 97; 56; 48; 56; 48]]]; [Some []]] /\
  option_map (map ar_o_name) (ar_fr_load AFPerRule ar_fw_genv [ar_fw_host] [ar_fw_A; ar_fw_B]) = Some [[72; 33; 97; 56; 48; 56; 48]; [72; 33; 98]] /\
  option_map (map ar_o_name) (ar_fr_load AFPerTarget ar_fw_genv [ar_fw_host] [ar_fw_A; ar_fw_B]) = Some [[72; 33; 97; 56; 48; 56; 48]] /\
  option_map (map ar_o_name) (ar_fr_load AFPerTarget ar_fw_genv [ar_fw_host] [ar_fw_B; ar_fw_A]) = Some [[72; 33; 98]; [72; 33; 97; 56; 48; 56; 48]].
Proof. vm_compute. repeat split. Qed.

(* the rule body: locals hide the own fields of the new object, which hide globals.
   apply Service "a" for (host_name in host.vars.l) { vars.b0 = host_name; vars.b1 = this.host_name; vars.b2 = vars.b0 }
   apply Service "b" { vars.b0 = host_name; vars.b1 = name; vars.b2 = x } *)
Definition ar_fw_C (loop : bool) : ar_rule :=
  {| ar_r_kind := 0; ar_r_to_svc := false; ar_r_name := [97]; ar_r_filter := ar_combine [] [];
     ar_r_for := (if loop then Some (ar_s_host_name, [], ar_w_vars_l) else None); ar_r_use := [];
     ar_r_body := [AEVar ar_s_host_name; AEIndex AEThis (AELit (AVStr ar_s_host_name));
                   AEIndex (AEVar ar_s_vars) (AELit (AVStr [98; 48])); AEVar ar_s_name; AEVar ar_fw_x];
     ar_r_parent := [] |}.
Lemma ar_fr_body_scope :
  option_map (map ar_o_body) (ar_eval_rule false ar_fw_genv (ar_fw_C true) ar_fw_t)
    = Some [[AVNum 8080; AVStr ar_w_H; AVNum 8080; AVStr [97; 56; 48; 56; 48]; AVNum 80]] /\
  option_map (map ar_o_body) (ar_eval_rule false ar_fw_genv (ar_fw_C false) ar_fw_t)
    = Some [[AVStr ar_w_H; AVStr ar_w_H; AVStr ar_w_H; AVStr [97]; AVNum 80]].
Proof. vm_compute. repeat split. Qed.
