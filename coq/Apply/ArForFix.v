(* C16 - the remaining recorded finding (for-error-on-unindexed-target) is confined to rules that are indexed
   AND have a `for` term: where no indexed rule has one, the premise of the fast-path theorems holds by
   construction.  This is what the proposed one-line change of ApplyRule::AddRule (do not index a rule that has
   a `for` term, repo_patches/C16-for-rules-not-indexed.diff) would establish for every configuration. *)
From Icv Require Import Base.Tac Apply.ArModel Apply.ArObs Apply.ArProofs.
Local Open Scope Z_scope.

Definition ar_no_indexed_for (rules : list ar_rule) : Prop :=
  forall r, In r rules -> ar_rule_index r <> AIRegular -> ar_r_for r = None.

Lemma ar_for_ok_no_for : forall genv inv r,
  (ar_rule_index r <> AIRegular -> ar_r_for r = None) -> ar_for_ok genv inv r = true.
Proof.
  intros genv inv r H. unfold ar_for_ok.
  destruct (ar_rule_index r) eqn:E; auto;
    (rewrite forallb_forall; intros t _; unfold ar_instances; rewrite H by congruence; reflexivity).
Qed.

Lemma ar_forallb_for_ok : forall genv inv rules,
  ar_no_indexed_for rules -> forallb (ar_for_ok genv inv) rules = true.
Proof.
  intros genv inv rules H. apply forallb_forall. intros r I. apply ar_for_ok_no_for. intros N. apply H; auto.
Qed.

Lemma ar_no_indexed_for_filter : forall p rules, ar_no_indexed_for rules -> ar_no_indexed_for (filter p rules).
Proof. intros p rules H r I. apply filter_In in I. destruct I. apply H; auto. Qed.

Theorem ar_premises_no_indexed_for : forall genv inv rules,
  ar_no_indexed_for rules -> ar_premises genv inv rules = true.
Proof.
  intros genv inv rules H. unfold ar_premises. apply andb_true_iff. split.
  - apply ar_forallb_for_ok. apply ar_no_indexed_for_filter. exact H.
  - destruct (ar_run (ar_eval_rule false genv) inv (filter ar_is_svc_rule rules)); auto.
    apply ar_forallb_for_ok. apply ar_no_indexed_for_filter. exact H.
Qed.

Theorem ar_apply_fast_eq_no_indexed_for : forall genv inv rules,
  ar_no_indexed_for rules -> ar_apply_fast genv inv rules = ar_apply genv inv rules.
Proof. intros. apply ar_apply_fast_eq. apply ar_premises_no_indexed_for. assumption. Qed.
