(* C16 - concrete witnesses: non-vacuity of the premises, and the recorded divergences on the model. *)
From Icv Require Import Base.Tac Apply.ArModel Apply.ArObs Apply.ArProofs.
Local Open Scope Z_scope.

Definition ar_w_genv : ar_env := {| ar_locals := []; ar_globals := []; ar_this := AVEmpty; ar_fn := fun _ _ _ => AVErr |}.
Definition ar_w_H : ar_str := [72].   Definition ar_w_h : ar_str := [104].
Definition ar_w_S : ar_str := [83].   Definition ar_w_k : ar_str := [107].
Definition ar_w_l : ar_str := [108].  Definition ar_w_r0 : ar_str := [114; 48].

Definition ar_w_hostname : ar_expr := AEIndex (AEVar ar_s_host) (AELit (AVStr ar_s_name)).
Definition ar_w_svcname : ar_expr := AEIndex (AEVar ar_s_service) (AELit (AVStr ar_s_name)).
Definition ar_w_vars_l : ar_expr := AEIndex (AEIndex (AEVar ar_s_host) (AELit (AVStr ar_s_vars))) (AELit (AVStr ar_w_l)).

(* hosts H (vars.l = ["a"]) with service S, and h (vars.l = {a = 1}, a dictionary) *)
Definition ar_w_inv : list ar_host :=
  [ {| ar_h_name := ar_w_H; ar_h_fields := [(ar_s_vars, AVDict [(ar_w_l, AVArr [AVStr [97]])])];
       ar_h_svcs := [ {| ar_sv_name := ar_w_S; ar_sv_fields := [] |} ] |};
    {| ar_h_name := ar_w_h; ar_h_fields := [(ar_s_vars, AVDict [(ar_w_l, AVDict [([97], AVNum 1)])])]; ar_h_svcs := [] |} ].

Definition ar_w_rule (kind : Z) (to_svc : bool) (f : ar_expr) (for_ : option (ar_str * ar_str * ar_expr)) : ar_rule :=
  {| ar_r_kind := kind; ar_r_to_svc := to_svc; ar_r_name := ar_w_r0; ar_r_filter := f; ar_r_for := for_;
     ar_r_use := []; ar_r_body := [ar_w_hostname]; ar_r_parent := [] |}.

(* apply Notification "r0" to Service { assign where "S" == service.name && host.name == "H" } *)
Definition ar_w_good : ar_rule :=
  ar_w_rule 1 true (AEAnd (AEEq (AELit (AVStr ar_w_S)) ar_w_svcname) (AEEq ar_w_hostname (AELit (AVStr ar_w_H)))) None.

Lemma ar_w_nonvacuous :
  ar_premises ar_w_genv ar_w_inv [ar_w_good] = true /\
  ar_rule_index ar_w_good = AIServices [(ar_w_H, ar_w_S)] /\
  option_map (map ar_o_name) (ar_apply ar_w_genv ar_w_inv [ar_w_good]) = Some [[72; 33; 83; 33; 114; 48]].
Proof. vm_compute. repeat split. Qed.

(* apply Service "r0" for (host in host.vars.l) { assign where host.name == "H" }: the loop variable hides
   the target ("a".name throws).  Since the fix (AddRule: shadowsTarget) the rule is not indexed, so both
   loads fail alike; before it the indexed load created H!r0a. *)
Definition ar_w_shadow : ar_rule :=
  {| ar_r_kind := 0; ar_r_to_svc := false; ar_r_name := ar_w_r0; ar_r_filter := AEEq ar_w_hostname (AELit (AVStr ar_w_H));
     ar_r_for := Some (ar_s_host, [], ar_w_vars_l); ar_r_use := []; ar_r_body := []; ar_r_parent := [] |}.

Definition ar_w_invH : list ar_host := firstn 1 ar_w_inv.

Lemma ar_shadow_fixed :
  ar_shadows_target ar_w_shadow = true /\ ar_rule_index ar_w_shadow = AIRegular /\
  ar_target_hosts None (ar_r_filter ar_w_shadow) = Some [ar_w_H] /\
  ar_apply_fast ar_w_genv ar_w_invH [ar_w_shadow] = None /\
  ar_apply ar_w_genv ar_w_invH [ar_w_shadow] = None.
Proof. vm_compute. repeat split. Qed.

(* apply Service "r0" for (k in host.vars.l) { assign where host.name == "H" }: on host h the set is a
   dictionary ("Array iterator requires value to be an array"): the plain load fails, the indexed load never looks at h *)
Definition ar_w_forerr : ar_rule :=
  ar_w_rule 0 false (AEEq ar_w_hostname (AELit (AVStr ar_w_H))) (Some (ar_w_k, [], ar_w_vars_l)).

Lemma ar_for_error_refuted :
  ar_shadows_target ar_w_forerr = false /\ ar_for_ok ar_w_genv ar_w_inv ar_w_forerr = false /\
  option_map (map ar_o_name) (ar_apply_fast ar_w_genv ar_w_inv [ar_w_forerr]) = Some [[72; 33; 114; 48; 97]] /\
  ar_apply ar_w_genv ar_w_inv [ar_w_forerr] = None.
Proof. vm_compute. repeat split. Qed.

(* API: filter  host.name == host  with filter_vars {host = "h"}: the recogniser would resolve the variable
   to "h" (and return host h) although evaluation sees the host object there and matches nothing.  Since the
   fix (GetFilterTargets: shadowedVars) such a query is evaluated. *)
Definition ar_w_navv (t : ar_target) (n : ar_str) : ar_value :=
  if ar_str_eqb n ar_s_check_command then AVObj [] else AVEmpty.

Lemma ar_api_filter_var_fixed :
  let f := AEEq ar_w_hostname (AEVar ar_s_host) in
  let fv := [(ar_s_host, AVStr ar_w_h)] in
  ar_api_vars_ok false fv = false /\
  ar_target_hosts (Some fv) f = Some [ar_w_h] /\
  ar_api_fast ar_w_genv ar_w_navv ar_w_inv false fv f = Some [] /\
  ar_api_plain ar_w_genv ar_w_navv ar_w_inv false fv f = Some [].
Proof. vm_compute. repeat split. Qed.

(* the same with a filter variable named like a navigation field:  host.name == check_command  (an object
   at evaluation) and  host.name == check_period  (null at evaluation) with the variable set to "h" *)
Lemma ar_api_nav_var_fixed :
  forall nv, In nv [ar_s_check_command; ar_s_check_period] ->
  let f := AEEq ar_w_hostname (AEVar nv) in
  let fv := [(nv, AVStr ar_w_h)] in
  ar_api_vars_ok false fv = false /\
  ar_target_hosts (Some fv) f = Some [ar_w_h] /\
  ar_api_fast ar_w_genv ar_w_navv ar_w_inv false fv f = Some [] /\
  ar_api_plain ar_w_genv ar_w_navv ar_w_inv false fv f = Some [].
Proof. intros nv [E|[E|[]]]; subst nv; vm_compute; repeat split. Qed.
