(* C06 - theorems over the functions TRANSLATED from /repo on every run (tools/cxx2coq.py -> coq/Facts/Facts_fn_*.v).
   Each theorem is guarded by `src_<fn>_recognised = true`: a C++ shape outside the translator's subset leaves it
   trivially true (logged as "xlate: ... not recognised", tie by the correspondence run only); a recognised shape that no
   longer equals the model breaks the proof in coq/Src and with it this file.  Only `exact` + Print Assumptions here. *)
From Icv Require Import Base.Tac Src.XlPrelude Ck.CkState Ck.CkFull Ck.CkAck Facts.Facts_fn_ck Src.SrcCk Src.SrcProps.
Local Open Scope Z_scope.

Theorem C06_src_get_acknowledgement : src_checkable_get_acknowledgement_recognised = true ->
  forall now f,
    src_checkable_get_acknowledgement now (ackt_num (f_ack f)) (f_ack_expiry f)
    = (ackt_num (fst (fst (get_ack now f))), if xack_expired now f then [tt] else []) /\
    get_ack now f = if xack_expired now f then (AckNone, fst (clear_ack f), snd (clear_ack f)) else (f_ack f, f, []).
Proof. exact src_checkable_get_acknowledgement_eq. Qed.
Print Assumptions C06_src_get_acknowledgement.

(* the expiry rule of C06_expiry for the translated function: the value every reader sees, one ClearAcknowledgement iff expired *)
Theorem C06_src_expiry : src_checkable_get_acknowledgement_recognised = true -> forall now f,
  src_checkable_get_acknowledgement now (ackt_num (f_ack f)) (f_ack_expiry f)
  = (ackt_num (cka_eff_ack now f), if cka_expired now f then [tt] else []).
Proof. exact src_ack_expiry. Qed.
Print Assumptions C06_src_expiry.

Example C06_src_nonvacuous : src_checkable_get_acknowledgement_recognised = true -> src_checkable_get_acknowledgement 100 1 99 = (0, [tt]) /\ src_checkable_get_acknowledgement 100 1 100 = (1, []) /\ src_checkable_get_acknowledgement 100 2 0 = (2, []).
Proof. intro H; xl_rec H. all: repeat split; vm_compute; reflexivity. Qed.

