(* C06 - theorems over the functions TRANSLATED from /repo on every run (tools/cxx2coq.py -> coq/Facts/Facts_fn_*.v).
   Each theorem is guarded by `src_<fn>_recognised = true`: a C++ shape outside the translator's subset leaves it
   trivially true (logged as "xlate: ... not recognised", tie by the correspondence run only); a recognised shape that no
   longer equals the model breaks the proof in coq/Src and with it this file.  Only `exact` + Print Assumptions here. *)
From Icv Require Import Base.Tac Src.XlPrelude Ck.CkState Ck.CkFull Ck.CkAck Facts.Facts_fn_ck Src.SrcCk Src.SrcProps.
Local Open Scope Z_scope.

Theorem C06_src_get_acknowledgement : src_checkable_get_acknowledgement_recognised = true ->
  forall now f,
    src_checkable_get_acknowledgement now (ackt_num (f_ack f)) (f_ack_expiry f)
    = (ackt_num (fst (fst (get_ack now f))), if xack_expired now f then [tt] else []) /\
    get_ack now f = if xack_expired now f then (AckNone, fst (clear_ack f), snd (clear_ack f)) else (f_ack f, f, []).
Proof. exact src_checkable_get_acknowledgement_eq. Qed.
Print Assumptions C06_src_get_acknowledgement.

(* the expiry rule of C06_expiry for the translated function: the value every reader sees, one ClearAcknowledgement iff expired *)
Theorem C06_src_expiry : src_checkable_get_acknowledgement_recognised = true -> forall now f,
  src_checkable_get_acknowledgement now (ackt_num (f_ack f)) (f_ack_expiry f)
  = (ackt_num (cka_eff_ack now f), if cka_expired now f then [tt] else []).
Proof. exact src_ack_expiry. Qed.
Print Assumptions C06_src_expiry.

Example C06_src_nonvacuous : src_checkable_get_acknowledgement_recognised = true -> src_checkable_get_acknowledgement 100 1 99 = (0, [tt]) /\ src_checkable_get_acknowledgement 100 1 100 = (1, []) /\ src_checkable_get_acknowledgement 100 2 0 = (2, []).
Proof. intro H; xl_rec H. all: repeat split; vm_compute; reflexivity. Qed.


(* ---------------------------------------------------------------------------------------------------------------------
   Round 2 (notes/XLATE.md section 8): the acknowledgement functions as translated from /repo on this run
   (coq/Facts/Facts_fn_ack.v).  xa_of_out maps a model output to the effect the C++ performs; xm_get / xm_clear /
   xm_ack_block are the model's get_ack / clear_ack / ack_on_change on the two attributes they touch (xm_*_ok). *)
From Icv Require Import Facts.Facts_fn_ack Src.SrcAck.

Theorem C06_src_is_acknowledged : src_checkable_is_acknowledged_recognised = true -> src_checkable_get_acknowledgement_recognised = true ->
  forall now f, src_checkable_is_acknowledged now (ackt_num (f_ack f)) (f_ack_expiry f) = negb (ackt_eqb (cka_eff_ack now f) AckNone).
Proof. exact src_checkable_is_acknowledged_eq. Qed.
Print Assumptions C06_src_is_acknowledged.

Theorem C06_src_clear_acknowledgement : src_checkable_clear_acknowledgement_recognised = true ->
  forall a e ct lc,
    src_checkable_clear_acknowledgement (ackt_num a) e ct lc
    = let '(a', e', o) := xm_clear a e in (ackt_num a', e', if negb (ackt_eqb a AckNone) then ct else lc, map xa_of_out o).
Proof. exact src_checkable_clear_acknowledgement_eq. Qed.
Print Assumptions C06_src_clear_acknowledgement.

Theorem C06_src_clear_model : forall f, let '(f', o) := clear_ack f in (f_ack f', f_ack_expiry f', o) = xm_clear (f_ack f) (f_ack_expiry f).
Proof. exact xm_clear_ok. Qed.
Print Assumptions C06_src_clear_model.

Theorem C06_src_acknowledge_problem : src_checkable_acknowledge_problem_recognised = true ->
  forall f a expiry notify ct lc,
    src_checkable_acknowledge_problem (ackt_num a) notify expiry ct (f_paused f) (ackt_num (f_ack f)) (f_ack_expiry f) lc
    = (ackt_num (f_ack (set_ack f a expiry)), f_ack_expiry (set_ack f a expiry), ct,
       map xa_of_out ((if notify && negb (f_paused (set_ack f a expiry)) then [ONotify NAck] else []) ++ [OAckSet a])).
Proof. exact src_checkable_acknowledge_problem_eq. Qed.
Print Assumptions C06_src_acknowledge_problem.

(* the "remove acknowledgements" block of ProcessCheckResult with explicit state passing = ack_on_change followed by the read
   that decides remove_acknowledgement_comments: flag, last_state_change, the two attributes, the events *)
Theorem C06_src_result_ack_clear : src_pcr_ack_clear_recognised = true -> src_checkable_clear_acknowledgement_recognised = true ->
  src_checkable_get_acknowledgement_recognised = true ->
  forall k now sc ns cr_end lsc f0,
    let '(f1, o1) := ack_on_change k now sc ns f0 in
    let '(a3, f2, o2) := get_ack now f1 in
    src_pcr_ack_clear now (xk_is_host k) sc (sstate_num ns) cr_end lsc (ackt_num (f_ack f0)) (f_ack_expiry f0)
    = (ackt_eqb a3 AckNone, if sc then cr_end else lsc, ackt_num (f_ack f2), f_ack_expiry f2, map xa_of_out (o1 ++ o2)).
Proof. exact src_pcr_ack_clear_model. Qed.
Print Assumptions C06_src_result_ack_clear.

(* the obligation of the state-passing translation: a repeated GetAcknowledgement() returns the same value and changes nothing *)
Theorem C06_src_get_ack_idempotent : src_checkable_clear_acknowledgement_recognised = true -> src_checkable_get_acknowledgement_recognised = true ->
  forall now a e evs,
    let '(v, r1, e1, ev1) := xa_get_ack now (ackt_num a) e evs in xa_get_ack now r1 e1 ev1 = (v, r1, e1, ev1).
Proof. exact xa_get_ack_idem. Qed.
Print Assumptions C06_src_get_ack_idempotent.

(* the API action refuses (HTTP 409) exactly when the model's do_ack ViaApi refuses; otherwise it passes the expiry on *)
Theorem C06_src_api_refusal : src_apiactions_acknowledge_problem_refusal_recognised = true ->
  src_checkable_is_acknowledged_recognised = true -> src_checkable_get_acknowledgement_recognised = true ->
  forall c now f sticky notify persistent eg expiry ts0,
    src_apiactions_acknowledge_problem_refusal now eg expiry ts0 (negb (xk_is_host (c_kind (fc_base c))))
      (cka_api_state (c_kind (fc_base c)) (s_raw (f_st f))) (ackt_num (f_ack f)) (f_ack_expiry f)
    = (if xa_refused (snd (do_ack c now ViaApi sticky notify persistent eg expiry f)) then 409 else 0,
       if eg then expiry else 0).
Proof. exact src_apiactions_acknowledge_problem_refusal_eq. Qed.
Print Assumptions C06_src_api_refusal.

(* the cluster handler applies AcknowledgeProblem iff the origin checks pass and the object is not acknowledged - which is
   when the model's cka_cluster_set sets it (C06_src_cluster_model) *)
Theorem C06_src_cluster_handler : src_clusterevents_acknowledgement_set_handler_recognised = true ->
  src_checkable_is_acknowledged_recognised = true -> src_checkable_get_acknowledgement_recognised = true ->
  forall now f ep ho sp ck fz ca,
    src_clusterevents_acknowledgement_set_handler now ep ho sp ck fz ca (ackt_num (f_ack f)) (f_ack_expiry f)
    = (0, if ep && ho && ck && (negb fz || ca) && ackt_eqb (cka_eff_ack now f) AckNone then [XaApply] else []).
Proof. exact src_clusterevents_acknowledgement_set_handler_eq. Qed.
Print Assumptions C06_src_cluster_handler.

Theorem C06_src_cluster_model : forall now sticky notify expiry f,
  existsb cka_is_set (snd (cka_cluster_set now sticky notify expiry f)) = ackt_eqb (cka_eff_ack now f) AckNone.
Proof. exact xa_cluster_set_applies. Qed.
Print Assumptions C06_src_cluster_model.

Example C06_src_round2_nonvacuous : src_pcr_ack_clear_recognised = true -> src_apiactions_acknowledge_problem_refusal_recognised = true ->
  (* a state change clears a normal acknowledgement (one event) and asks for the comments to be removed; a sticky one survives a non-OK change *)
  src_pcr_ack_clear 100 false true 2 90 50 1 0 = (true, 90, 0, 0, [XaCleared]) /\
  src_pcr_ack_clear 100 false true 2 90 50 2 0 = (false, 90, 2, 0, []) /\
  src_apiactions_acknowledge_problem_refusal 100 true 100 0 true 2 0 0 = (409, 100) /\
  src_apiactions_acknowledge_problem_refusal 100 true 101 0 true 2 0 0 = (0, 101).
Proof. intros H1 H2; xl_rec H1; xl_rec H2. all: repeat split; vm_compute; reflexivity. Qed.
