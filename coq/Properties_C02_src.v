(* C02 - theorems over the functions TRANSLATED from /repo on every run (tools/cxx2coq.py -> coq/Facts/Facts_fn_*.v).
   Each theorem is guarded by `src_<fn>_recognised = true`: a C++ shape outside the translator's subset leaves it
   trivially true (logged as "xlate: ... not recognised", tie by the correspondence run only); a recognised shape that no
   longer equals the model breaks the proof in coq/Src and with it this file.  Only `exact` + Print Assumptions here. *)
From Icv Require Import Base.Tac Src.XlPrelude Ck.CkState Ck.CkFull Facts.Facts_enums Facts.Facts_fn_ck Src.SrcCk.
Local Open Scope Z_scope.

(* the predicates FireSuppressedNotifications (do_fire) consults *)
Theorem C02_src_likely_checked_soon : src_checkable_is_likely_to_be_checked_soon_recognised = true ->
  forall c now f,
    src_checkable_is_likely_to_be_checked_soon now (fc_active_checks c) (fc_check_interval c) (f_next_check f)
    = likely_checked_soon c now f.
Proof. exact src_checkable_is_likely_to_be_checked_soon_eq. Qed.
Print Assumptions C02_src_likely_checked_soon.

Theorem C02_src_is_flapping : src_checkable_is_flapping_recognised = true ->
  forall c fl e g, fc_flap_enabled c = e && g ->
    src_checkable_is_flapping e g (fl_flapping fl) = is_flapping c fl.
Proof. exact src_checkable_is_flapping_eq. Qed.
Print Assumptions C02_src_is_flapping.

Theorem C02_src_reason_applies : src_checkable_notification_reason_applies_recognised = true ->
  forall k has_cr s fl,
    src_checkable_notification_reason_applies (ntype_num NProblem) (xk_is_host k) has_cr (sstate_num s) fl = has_cr && negb (is_ok k s) /\
    src_checkable_notification_reason_applies (ntype_num NRecovery) (xk_is_host k) has_cr (sstate_num s) fl = has_cr && is_ok k s /\
    src_checkable_notification_reason_applies (ntype_num NFlapStart) (xk_is_host k) has_cr (sstate_num s) fl = fl /\
    src_checkable_notification_reason_applies (ntype_num NFlapEnd) (xk_is_host k) has_cr (sstate_num s) fl = negb fl.
Proof. exact src_checkable_notification_reason_applies_ck. Qed.
Print Assumptions C02_src_reason_applies.

Theorem C02_src_reason_suppressed : src_checkable_notification_reason_suppressed_recognised = true ->
  forall reach indt ack,
    src_checkable_notification_reason_suppressed (ntype_num NProblem) reach indt ack = negb reach || indt || ack /\
    src_checkable_notification_reason_suppressed (ntype_num NRecovery) reach indt ack = negb reach || indt || ack /\
    src_checkable_notification_reason_suppressed (ntype_num NFlapStart) reach indt ack = indt /\
    src_checkable_notification_reason_suppressed (ntype_num NFlapEnd) reach indt ack = indt.
Proof. exact src_checkable_notification_reason_suppressed_ck. Qed.
Print Assumptions C02_src_reason_suppressed.

Theorem C02_src_in_downtime : src_checkable_is_in_downtime_recognised = true ->
  forall now f, src_checkable_is_in_downtime now (f_dts f) = in_downtime now f.
Proof. exact src_checkable_is_in_downtime_eq. Qed.
Print Assumptions C02_src_in_downtime.

Example C02_src_nonvacuous : src_checkable_is_likely_to_be_checked_soon_recognised = true -> src_checkable_is_likely_to_be_checked_soon 100 true 300 160 = true /\ src_checkable_is_likely_to_be_checked_soon 100 true 300 161 = false.
Proof. intro H; xl_rec H. all: repeat split; vm_compute; reflexivity. Qed.

