(* C02 - theorems over the functions TRANSLATED from /repo on every run (tools/cxx2coq.py -> coq/Facts/Facts_fn_*.v).
   Each theorem is guarded by `src_<fn>_recognised = true`: a C++ shape outside the translator's subset leaves it
   trivially true (logged as "xlate: ... not recognised", tie by the correspondence run only); a recognised shape that no
   longer equals the model breaks the proof in coq/Src and with it this file.  Only `exact` + Print Assumptions here. *)
From Icv Require Import Base.Tac Src.XlPrelude Ck.CkState Ck.CkFull Facts.Facts_enums Facts.Facts_fn_ck Src.SrcCk.
Local Open Scope Z_scope.

(* the predicates FireSuppressedNotifications (do_fire) consults *)
Theorem C02_src_likely_checked_soon : src_checkable_is_likely_to_be_checked_soon_recognised = true ->
  forall c now f,
    src_checkable_is_likely_to_be_checked_soon now (fc_active_checks c) (fc_check_interval c) (f_next_check f)
    = likely_checked_soon c now f.
Proof. exact src_checkable_is_likely_to_be_checked_soon_eq. Qed.
Print Assumptions C02_src_likely_checked_soon.

Theorem C02_src_is_flapping : src_checkable_is_flapping_recognised = true ->
  forall c fl e g, fc_flap_enabled c = e && g ->
    src_checkable_is_flapping e g (fl_flapping fl) = is_flapping c fl.
Proof. exact src_checkable_is_flapping_eq. Qed.
Print Assumptions C02_src_is_flapping.

Theorem C02_src_reason_applies : src_checkable_notification_reason_applies_recognised = true ->
  forall k has_cr s fl,
    src_checkable_notification_reason_applies (ntype_num NProblem) (xk_is_host k) has_cr (sstate_num s) fl = has_cr && negb (is_ok k s) /\
    src_checkable_notification_reason_applies (ntype_num NRecovery) (xk_is_host k) has_cr (sstate_num s) fl = has_cr && is_ok k s /\
    src_checkable_notification_reason_applies (ntype_num NFlapStart) (xk_is_host k) has_cr (sstate_num s) fl = fl /\
    src_checkable_notification_reason_applies (ntype_num NFlapEnd) (xk_is_host k) has_cr (sstate_num s) fl = negb fl.
Proof. exact src_checkable_notification_reason_applies_ck. Qed.
Print Assumptions C02_src_reason_applies.

Theorem C02_src_reason_suppressed : src_checkable_notification_reason_suppressed_recognised = true ->
  forall reach indt ack,
    src_checkable_notification_reason_suppressed (ntype_num NProblem) reach indt ack = negb reach || indt || ack /\
    src_checkable_notification_reason_suppressed (ntype_num NRecovery) reach indt ack = negb reach || indt || ack /\
    src_checkable_notification_reason_suppressed (ntype_num NFlapStart) reach indt ack = indt /\
    src_checkable_notification_reason_suppressed (ntype_num NFlapEnd) reach indt ack = indt.
Proof. exact src_checkable_notification_reason_suppressed_ck. Qed.
Print Assumptions C02_src_reason_suppressed.

Theorem C02_src_in_downtime : src_checkable_is_in_downtime_recognised = true ->
  forall now f, src_checkable_is_in_downtime now (f_dts f) = in_downtime now f.
Proof. exact src_checkable_is_in_downtime_eq. Qed.
Print Assumptions C02_src_in_downtime.

Example C02_src_nonvacuous : src_checkable_is_likely_to_be_checked_soon_recognised = true -> src_checkable_is_likely_to_be_checked_soon 100 true 300 160 = true /\ src_checkable_is_likely_to_be_checked_soon 100 true 300 161 = false.
Proof. intro H; xl_rec H. all: repeat split; vm_compute; reflexivity. Qed.


(* ---------------------------------------------------------------------------------------------------------------------
   Round 2 (notes/XLATE.md section 8): the send / suppress / stash part of Checkable::ProcessCheckResult and
   Checkable::FireSuppressedNotifications as translated from /repo on this run (coq/Facts/Facts_fn_supp.v), against
   the model's result and fire steps.  Encodings: the int bit mask suppressed_notifications = supp_mask (32 Problem,
   64 Recovery, 128 FlappingStart, 256 FlappingEnd), ServiceState = sstate_num, notification type = ntype_num. *)
From Icv Require Import Ck.CkStateProofs Ck.CkSuppProofs Ck.CkSuppStep Ck.CkSuppFire Facts.Facts_fn_supp Src.SrcSupp.

(* send_notification / suppress_notification are the model's c02_send and its suppress disjunction *)
Theorem C02_src_send_suppress : src_pcr_send_suppress_recognised = true ->
  forall b i s' new_state nreach in_dt acked,
    src_pcr_send_suppress (xk_is_host (c_kind b)) nreach in_dt acked (i_hard_change i) (c_volatile b)
      (xst_num (i_old_type i)) (xst_num (s_type s')) (sstate_num (i_old_raw i)) (sstate_num new_state)
    = (in_dt, c02_send b i s' new_state, negb nreach || in_dt || acked).
Proof. exact src_pcr_send_suppress_eq. Qed.
Print Assumptions C02_src_send_suppress.

(* the result step of the model (do_result, for a result that is not rejected as stale): the suppression mask and the
   state before suppression it leaves, and the notifications it requests after the state-change event, are what the two
   translated regions compute from the values the model has at that point (c02_res_view: state machine step,
   reachability before the update, downtime and acknowledgement after triggering/clearing) *)
Theorem C02_src_result_stash : src_pcr_notify_stash_recognised = true -> src_pcr_send_suppress_recognised = true ->
  forall c now r f, rejected now (f_st f) r = false ->
    let v := c02_res_view c now r f in
    let f5 := rv_f5 v in
    let i := rv_i v in
    let '(_, send, suppress) :=
      src_pcr_send_suppress (xk_is_host (c_kind (fc_base c))) (rv_nreach v) (rv_indt v) (rv_acked v) (i_hard_change i)
        (c_volatile (fc_base c)) (xst_num (i_old_type i)) (xst_num (s_type (rv_s v))) (sstate_num (i_old_raw i)) (sstate_num (r_state r)) in
    exists evs,
      snd (do_result c now r f) = rv_o1 v ++ rv_o2 v ++ rv_o3 v ++ rv_o4 v ++ [ONewResult] ++ [OStateChange (i_event i)] ++ evs /\
      src_pcr_notify_stash (is_flapping c (f_flap f5)) (is_flapping c (update_flap c (r_state r) (f_flap f5))) (f_paused f5)
        (rv_indt v) send suppress (i_recovery i) (xst_num (i_old_type i)) (sstate_num (i_old_raw i)) (supp_mask f5) (sstate_num (f_sbs f5))
      = (supp_mask (fst (do_result c now r f)), sstate_num (f_sbs (fst (do_result c now r f))), map xn_of_out evs).
Proof. exact src_pcr_result_stash. Qed.
Print Assumptions C02_src_result_stash.

(* the same region on its atoms (every combination of the 11 booleans, 2 state types, 4 x 4 states) *)
Theorem C02_src_notify_stash : src_pcr_notify_stash_recognised = true ->
  forall was_fl is_fl paused in_dt send suppress recovery p r fs fe old_type old_state sbs,
    src_pcr_notify_stash was_fl is_fl paused in_dt send suppress recovery (xst_num old_type) (sstate_num old_state)
                         (xmask p r fs fe) (sstate_num sbs)
    = xc02_core_enc (xc02_core was_fl is_fl paused in_dt send suppress recovery p r fs fe old_type old_state sbs).
Proof. exact src_pcr_notify_stash_eq. Qed.
Print Assumptions C02_src_notify_stash.

(* the fire step of the model (do_fire): the mask it leaves and the state / flapping notifications it requests are what
   the translated FireSuppressedNotifications computes from the attributes of the model state *)
Theorem C02_src_fire : src_checkable_fire_suppressed_notifications_recognised = true ->
  src_checkable_is_likely_to_be_checked_soon_recognised = true ->
  forall c now f,
    src_checkable_fire_suppressed_notifications true (f_paused f) true (supp_mask f) (xk_is_host (c_kind (fc_base c)))
      (s_has_cr (f_st f)) (sstate_num (s_raw (f_st f))) (xst_num (s_type (f_st f))) (sstate_num (f_sbs f))
      (notif_reachable f) (in_downtime now f) (c02_ack_live now f) (is_flapping c (f_flap f))
      (src_checkable_is_likely_to_be_checked_soon now (fc_active_checks c) (fc_check_interval c) (f_next_check f))
      (parent_recovered_recently f)
    = (supp_mask (fst (do_fire c now f)),
       map xn_of_out (c02_state_outs (snd (do_fire c now f)) ++ c02_flap_outs (snd (do_fire c now f)))).
Proof. exact src_fire_do_fire. Qed.
Print Assumptions C02_src_fire.

(* non-vacuity: a hard problem during a downtime is stashed with the previous hard state; once the downtime is over and
   the state differs from the stashed one the timer sends it and clears the bits *)
Example C02_src_round2_nonvacuous : src_pcr_notify_stash_recognised = true -> src_checkable_fire_suppressed_notifications_recognised = true ->
  src_pcr_notify_stash false false false true true true false 1 0 0 0 = (32, 0, []) /\
  src_checkable_fire_suppressed_notifications true false true 32 false true 2 1 0 true false false false false false = (0, [XnRequest 32]) /\
  src_checkable_fire_suppressed_notifications true false true 32 false true 2 1 2 true false false false false false = (0, []).
Proof. intros H1 H2; xl_rec H1; xl_rec H2. all: repeat split; vm_compute; reflexivity. Qed.
