(* C09 - collect / replay: executing from the collected macros gives what local resolution gives. *)
From Icv Require Import Base.Tac Macro.MxDefs Macro.MxModel Macro.MxProofs Macro.MxOracle Macro.MxReplay.
From Coq Require Import NArith.
Local Open Scope N_scope.

(* the nested resolver every top-level call at recursion level [lv] uses *)
Definition mx_rec0 (env : list mx_level) (lv : nat) : mx_bytes -> mx_res := mx_irm (pred mx_fuel) (S lv) env false.

(* value of a macro before escaping (lines 254-304), and whether it was found *)
Definition mx_pre (env : list mx_level) (lv : nat) (name : mx_bytes) : mx_res :=
  mx_resolve1_with (mx_rec0 env lv) false (mx_rlookup env name).
Definition mx_found (env : list mx_level) (name : mx_bytes) : bool := fst (fst (mx_rlookup env name)).

(* every recorded entry is the true unescaped value of a macro that was found *)
Definition mx_rd_inv (env : list mx_level) (lv : nat) (d : mx_rdict) : Prop :=
  forall n v, mx_assoc n d = Some v -> mx_found env n = true /\ exists m, mx_pre env lv n = MxOk v m.
Definition mx_rd_le (d d' : mx_rdict) : Prop := forall n, mx_assoc n d <> None -> mx_assoc n d' <> None.

(* the one behavioural difference of the replay branch that is NOT about values: `found` comes from the dictionary,
   so a macro that was found but whose VALUE referred to a missing macro no longer counts as missing on the agent.
   The theorem carries the absence of that situation as a visible hypothesis; the witness below shows it is needed. *)
Definition mx_no_nested_missing (env : list mx_level) (lv : nat) : Prop :=
  forall n v m, mx_found env n = true -> mx_pre env lv n = MxOk v m -> m = false.

Lemma mx_rd_le_refl d : mx_rd_le d d.
Proof. intros n H; exact H. Qed.
Lemma mx_rd_le_trans a b c : mx_rd_le a b -> mx_rd_le b c -> mx_rd_le a c.
Proof. intros H1 H2 n H; apply H2, H1, H. Qed.

Lemma mx_resolve1_with_esc rec esc lk :
  mx_resolve1_with rec esc lk =
  match mx_resolve1_with rec false lk with MxThrow e => MxThrow e | MxOk v m => MxOk (mx_esc_if esc v) m end.
Proof.
  destruct lk as [[f v1] rc]. unfold mx_resolve1_with, mx_esc_if.
  destruct rc; [|reflexivity].
  destruct v1; try reflexivity.
  - destruct (rec _); reflexivity.
  - destruct (mx_resolve_elems rec _) as [[l' m]|e]; reflexivity.
Qed.

(* collect from d0 / replay on any later dictionary dF / local result *)
Definition mx_sim {R : Type} (env : list mx_level) (lv : nat) (ok : R -> Prop)
    (c p : mx_rdict -> R * mx_rdict) (loc : R) : Prop :=
  forall d0, mx_rd_inv env lv d0 ->
    fst (c d0) = loc /\ mx_rd_inv env lv (snd (c d0)) /\ mx_rd_le d0 (snd (c d0)) /\
    (mx_no_nested_missing env lv -> ok (fst (c d0)) ->
     forall dF, mx_rd_inv env lv dF -> mx_rd_le (snd (c d0)) dF -> p dF = (fst (c d0), dF)).

Definition mx_res_ok (r : mx_res) : Prop := forall e, r <> MxThrow e.

Ltac mx_sim_throw Hinv :=
  cbn [fst snd]; split; [reflexivity|]; split; [exact Hinv|]; split; [apply mx_rd_le_refl|];
  intros _ Hok; exfalso; eapply Hok; reflexivity.

Lemma mx_sim_resolve1 env env' lv rec' esc name :
  mx_sim env lv mx_res_ok
    (fun d => mx_resolve1_r (MxRmCollect false) (mx_rec0 env lv) env esc d name)
    (fun d => mx_resolve1_r MxRmReplay rec' env' esc d name)
    (mx_resolve1 (mx_rec0 env lv) env esc name).
Proof.
  intros d0 Hinv. unfold mx_resolve1_r.
  change (mx_resolve1 (mx_rec0 env lv) env esc name) with (mx_resolve1_with (mx_rec0 env lv) esc (mx_rlookup env name)).
  rewrite (mx_resolve1_with_esc _ esc).
  destruct (mx_resolve1_with (mx_rec0 env lv) false (mx_rlookup env name)) as [v m|e] eqn:Hpre.
  2:{ mx_sim_throw Hinv. }
  destruct (fst (fst (mx_rlookup env name))) eqn:Hf; cbn [fst snd].
  - split; [reflexivity|]. split.
    { intros n v' H. cbn [mx_assoc] in H. destruct (mx_beq n name) eqn:E.
      - apply mx_beq_eq in E. subst n. injection H as <-. split; [exact Hf|]. exists m. exact Hpre.
      - apply Hinv. exact H. }
    split.
    { intros n H. cbn [mx_assoc]. destruct (mx_beq n name); [discriminate|exact H]. }
    intros Hn _ dF HinvF Hle. destruct (mx_beq name []) eqn:En.
    + unfold mx_rlookup in Hpre. rewrite En in Hpre. cbn in Hpre. injection Hpre as <- <-. reflexivity.
    + destruct (mx_assoc name dF) as [v'|] eqn:Ea.
      * destruct (HinvF name v' Ea) as [_ [m' Hp']]. unfold mx_pre in Hp'. rewrite Hpre in Hp'. injection Hp' as <- <-.
        rewrite (Hn name v m Hf Hpre). reflexivity.
      * exfalso. apply (Hle name); [|exact Ea]. cbn [mx_assoc]. rewrite mx_beq_refl. discriminate.
  - split; [reflexivity|]. split; [exact Hinv|]. split; [apply mx_rd_le_refl|].
    intros _ _ dF HinvF _. destruct (mx_beq name []) eqn:En.
    + unfold mx_rlookup in Hf. rewrite En in Hf. discriminate.
    + destruct (mx_assoc name dF) as [v'|] eqn:Ea.
      * destruct (HinvF name v' Ea) as [Hf' _]. unfold mx_found in Hf'. congruence.
      * unfold mx_rlookup in Hpre, Hf. rewrite En in Hpre, Hf.
        rewrite (mx_resolve_macro_notfound env name Hf) in Hpre. cbn in Hpre. injection Hpre as <- <-. reflexivity.
Qed.

Lemma mx_sim_fold env lv c1 p1 l1 :
  (forall name, mx_sim env lv mx_res_ok (fun d => c1 d name) (fun d => p1 d name) (l1 name)) ->
  forall strlen toks acc miss,
  mx_sim env lv mx_res_ok (mx_fold_r c1 strlen toks acc miss) (mx_fold_r p1 strlen toks acc miss)
    (mx_fold l1 strlen toks acc miss).
Proof.
  intros H1 strlen toks. induction toks as [|t r IH]; intros acc miss d0 Hinv.
  - cbn. split; [reflexivity|]. split; [exact Hinv|]. split; [apply mx_rd_le_refl|]. intros; reflexivity.
  - destruct t as [l|name|].
    + cbn [mx_fold_r mx_fold]. apply IH. exact Hinv.
    + cbn [mx_fold_r mx_fold].
      destruct (H1 name d0 Hinv) as (HA & HI & HL & HR).
      destruct (c1 d0 name) as [r1 d1] eqn:Ec. cbn [fst snd] in HA, HI, HL, HR. rewrite <- HA.
      destruct r1 as [v m|e].
      2:{ cbn [fst snd]. split; [reflexivity|]. split; [exact HI|]. split; [exact HL|].
          intros _ Hok; exfalso; eapply Hok; reflexivity. }
      assert (Hrok : mx_res_ok (MxOk v m)) by (intros e; discriminate).
      destruct (Nat.eqb (length acc) 0 && Nat.eqb (length acc + length name + 2) strlen) eqn:Esole.
      * cbn [fst snd]. split; [reflexivity|]. split; [exact HI|]. split; [exact HL|].
        intros Hn _ dF HinvF Hle. rewrite (HR Hn Hrok dF HinvF Hle). reflexivity.
      * assert (Hcont : forall s,
            let k := mx_fold_r c1 strlen r (acc ++ s) (miss || m) d1 in
            fst k = mx_fold l1 strlen r (acc ++ s) (miss || m) /\ mx_rd_inv env lv (snd k) /\ mx_rd_le d0 (snd k) /\
            (mx_no_nested_missing env lv -> mx_res_ok (fst k) -> forall dF, mx_rd_inv env lv dF -> mx_rd_le (snd k) dF ->
             mx_fold_r p1 strlen r (acc ++ s) (miss || m) dF = (fst k, dF) /\ p1 dF name = (MxOk v m, dF))).
        { intros s k. destruct (IH (acc ++ s) (miss || m) d1 HI) as (A2 & I2 & L2 & R2). fold k in A2, I2, L2, R2.
          split; [exact A2|]. split; [exact I2|]. split; [eapply mx_rd_le_trans; eassumption|].
          intros Hn Hok dF HinvF Hle. split; [apply R2; assumption|].
          exact (HR Hn Hrok dF HinvF (mx_rd_le_trans _ _ _ L2 Hle)). }
        destruct v as [ | | | | | ] eqn:Ev.
        all: try (match goal with |- context[mx_to_string ?x] =>
               destruct (Hcont (mx_to_string x)) as (A2 & I2 & L2 & R2); cbn zeta in A2, I2, L2, R2;
               split; [exact A2|]; split; [exact I2|]; split; [exact L2|];
               intros Hn Hok dF HinvF Hle; destruct (R2 Hn Hok dF HinvF Hle) as [Hk Hp]; rewrite Hp; exact Hk end).
        all: cbn [fst snd]; split; [reflexivity|]; split; [exact HI|]; split; [exact HL|];
          intros _ Hok; exfalso; eapply Hok; reflexivity.
    + cbn [mx_fold_r mx_fold]. mx_sim_throw Hinv.
Qed.

Lemma mx_sim_irm env env' lv esc str :
  mx_sim env lv mx_res_ok (mx_irm_r (MxRmCollect false) lv env esc str) (mx_irm_r MxRmReplay lv env' esc str)
    (mx_irm mx_fuel lv env esc str).
Proof.
  intros d0 Hinv. unfold mx_irm_r.
  change (mx_irm mx_fuel lv env esc str) with
    (if Nat.ltb 15 lv then MxThrow MxErrRecursion
     else mx_fold (mx_resolve1 (mx_rec0 env lv) env esc) (length str) (mx_tok_out str []) [] false).
  destruct (Nat.ltb 15 lv).
  - mx_sim_throw Hinv.
  - apply (mx_sim_fold env lv
             (mx_resolve1_r (MxRmCollect false) (mx_rec0 env lv) env esc)
             (mx_resolve1_r MxRmReplay (mx_irm (pred mx_fuel) (S lv) env' false) env' esc)
             (mx_resolve1 (mx_rec0 env lv) env esc)
             (fun name => mx_sim_resolve1 env env' lv _ esc name)).
    exact Hinv.
Qed.

Lemma mx_rd_inv_nil env lv : mx_rd_inv env lv [].
Proof. intros n v H. discriminate. Qed.

(* a command line given as ONE STRING (no argument dictionary): what the agent's /bin/sh gets from the collected
   macros is byte for byte what local resolution hands to /bin/sh *)
Lemma mx_replay_string_command env env' s r d :
  mx_no_nested_missing env 2 ->
  mx_resolve_arguments_r (MxRmCollect false) env (MxStr s) None [] = (r, d) ->
  (forall e, r <> MxCmdThrow e) ->
  r = mx_resolve_arguments env (MxStr s) None /\
  mx_resolve_arguments_r MxRmReplay env' (MxStr s) None d = (r, d).
Proof.
  intros Hn Hc Hok. unfold mx_resolve_arguments_r, mx_resolve_arguments, mx_resolve_macros_r, mx_resolve_macros in *.
  destruct (mx_is_empty (MxStr s)).
  - injection Hc as <- <-. split; reflexivity.
  - cbn [mx_to_string] in *.
    destruct (mx_sim_irm env env' 2 true s [] (mx_rd_inv_nil env 2)) as (HA & HI & HL & HR).
    destruct (mx_irm_r (MxRmCollect false) 2 env true s []) as [r1 d1] eqn:Ec. cbn [fst snd] in HA, HI, HL, HR.
    rewrite <- HA. destruct r1 as [v m|e].
    + injection Hc as <- <-. split; [reflexivity|].
      rewrite (HR Hn ltac:(intros e; discriminate) d1 HI (mx_rd_le_refl d1)). reflexivity.
    + injection Hc as <- <-. exfalso. eapply Hok. reflexivity.
Qed.

(* ---- witnesses ---- *)
Definition mx_w_env (v : mx_bytes) : list mx_level :=
  [ {| mx_lv_name := [104; 111; 115; 116]; mx_lv_short := true; mx_lv_vars := Some [([97], MxStr v)];
       mx_lv_macros := []; mx_lv_fields := [] |} ].
Definition mx_w_cmd : mxv := MxStr [99; 32; 36; 97; 36].        (* "c $a$" *)

(* the code (record, then escape): the agent's argv is the local argv *)
Lemma mx_replay_witness_ok :
  mx_remote false (mx_w_env [118; 32; 39]) [] mx_w_cmd None = Some (mx_resolve_arguments (mx_w_env [118; 32; 39]) mx_w_cmd None) /\
  mx_plugin_argv (mx_resolve_arguments (mx_w_env [118; 32; 39]) mx_w_cmd None) = MxArgv [[99]; [118; 32; 39]].
Proof. vm_compute. split; reflexivity. Qed.

(* the swapped order (escape, then record): the value is escaped twice and the plugin sees literal quote characters *)
Lemma mx_replay_record_escaped_refuted :
  exists env cmd r, mx_remote true env [] cmd None = Some r /\
    mx_plugin_argv (mx_resolve_arguments env cmd None) = MxArgv [[99]; [118]] /\
    mx_plugin_argv r = MxArgv [[99]; [39; 118; 39]].
Proof. exists (mx_w_env [118]), mx_w_cmd. eexists. vm_compute. repeat split; reflexivity. Qed.

(* why the hypothesis mx_no_nested_missing is there: vars.a = "x$n$" with no macro n; locally the optional argument
   is dropped (its value misses a macro), on the agent `a` is found in the dictionary and the argument appears *)
Definition mx_w_arg : mx_argspec :=
  {| mx_as_name := [45; 107]; mx_as_isdict := true; mx_as_key := None; mx_as_value := MxStr [36; 97; 36];
     mx_as_required := false; mx_as_skip_key := false; mx_as_repeat_key := true; mx_as_order := 0%Z;
     mx_as_sep := None; mx_as_set_if := MxEmpty |}.
Lemma mx_replay_nested_missing_differs :
  mx_resolve_arguments (mx_w_env [120; 36; 110; 36]) (MxArr [MxStr [99]]) (Some [mx_w_arg]) = MxCmdArr [[99]] /\
  mx_remote false (mx_w_env [120; 36; 110; 36]) [] (MxArr [MxStr [99]]) (Some [mx_w_arg]) = Some (MxCmdArr [[99]; [45; 107]; [120]]).
Proof. vm_compute. split; reflexivity. Qed.

Lemma mx_oracle_replay_accepts env env' cmd args :
  mx_oracle_replay env env' cmd args (mx_remote false env env' cmd args) = None.
Proof.
  unfold mx_oracle_replay. destruct (mx_remote false env env' cmd args) as [r|]; [|reflexivity].
  assert (H : mx_cmdres_beq r r = true).
  { destruct r; cbn; try reflexivity; [|apply mx_beq_refl].
    induction argv as [|x l IH]; cbn; [reflexivity|]. rewrite mx_beq_refl. exact IH. }
  rewrite H. reflexivity.
Qed.

(* ---- lifting mx_sim through the callers of InternalResolveMacros ---- *)

Lemma mx_sim_ret {R : Type} env lv (ok : R -> Prop) (x : R) :
  mx_sim env lv ok (fun d => (x, d)) (fun d => (x, d)) x.
Proof.
  intros d0 Hinv. cbn [fst snd]. split; [reflexivity|]. split; [exact Hinv|]. split; [apply mx_rd_le_refl|].
  intros; reflexivity.
Qed.

(* sequencing: [C] runs [c] and hands result and dictionary to [kc]; a result of [c] that is not ok ends the
   computation with a result that is not ok either and leaves the dictionary alone *)
Lemma mx_sim_bind {R S : Type} env lv (okR : R -> Prop) (okS : S -> Prop)
    (c p : mx_rdict -> R * mx_rdict) (loc : R) (kc kp : R -> mx_rdict -> S * mx_rdict) (kl : R -> S)
    (C P : mx_rdict -> S * mx_rdict) :
  mx_sim env lv okR c p loc ->
  (forall d, C d = let (r, d') := c d in kc r d') ->
  (forall d, P d = let (r, d') := p d in kp r d') ->
  (forall r, okR r -> mx_sim env lv okS (kc r) (kp r) (kl r)) ->
  (forall r, okR r \/ forall d, kc r d = (kl r, d) /\ ~ okS (kl r)) ->
  mx_sim env lv okS C P (kl loc).
Proof.
  intros Hc HC HP Hk Hdec d0 Hinv. rewrite HC.
  destruct (Hc d0 Hinv) as (HA & HI & HL & HR).
  destruct (c d0) as [r d1]. cbn [fst snd] in HA, HI, HL, HR. rewrite <- HA.
  destruct (Hdec r) as [Hok|Hthrow].
  - destruct (Hk r Hok d1 HI) as (A2 & I2 & L2 & R2).
    split; [exact A2|]. split; [exact I2|]. split; [eapply mx_rd_le_trans; eassumption|].
    intros Hn HokS dF HinvF Hle. rewrite HP.
    rewrite (HR Hn Hok dF HinvF (mx_rd_le_trans _ _ _ L2 Hle)). apply R2; assumption.
  - destruct (Hthrow d1) as [E Hno]. rewrite E. cbn [fst snd].
    split; [reflexivity|]. split; [exact HI|]. split; [exact HL|].
    intros _ HokS. exfalso. apply Hno, HokS.
Qed.

Definition mx_sum_ok {A : Type} (x : A + mx_err) : Prop := forall e, x <> inr e.
Definition mx_step_ok (s : mx_argstep) : Prop := forall e, s <> MxArgThrow e.
Definition mx_cmd_ok (r : mx_cmdres) : Prop := forall e, r <> MxCmdThrow e.


(* 1. ResolveMacros over an array value *)
Lemma mx_sim_rm_array env lv ic ip il :
  (forall s, mx_sim env lv mx_res_ok (ic s) (ip s) (il s)) ->
  forall l, mx_sim env lv mx_sum_ok (mx_rm_array_r ic l) (mx_rm_array_r ip l) (mx_rm_array il l).
Proof.
  intros Hi l. induction l as [|a r IH].
  - apply mx_sim_ret.
  - pose (fin := fun (v : mxv) (m : bool) (x : list mxv * bool + mx_err) =>
        match x with inr e => inr e | inl (r', m') => inl (mx_rm_elem v :: r', m || m') end).
    pose (kk := fun (irm : mx_bytes -> mx_rdict -> mx_res * mx_rdict) (x : mx_res) (d : mx_rdict) =>
        match x with
        | MxThrow e => (@inr (list mxv * bool) mx_err e, d)
        | MxOk v m => let (y, d'') := mx_rm_array_r irm r d in (fin v m y, d'')
        end).
    apply (mx_sim_bind env lv mx_res_ok mx_sum_ok (ic (mx_to_string a)) (ip (mx_to_string a)) (il (mx_to_string a))
             (kk ic) (kk ip)
             (fun x => match x with MxThrow e => inr e | MxOk v m => fin v m (mx_rm_array il r) end)).
    + apply Hi.
    + intros d. cbn [mx_rm_array_r]. destruct (ic (mx_to_string a) d) as [[v m|e] d']; [|reflexivity].
      unfold kk. destruct (mx_rm_array_r ic r d') as [[[r' m']|e] d'']; reflexivity.
    + intros d. cbn [mx_rm_array_r]. destruct (ip (mx_to_string a) d) as [[v m|e] d']; [|reflexivity].
      unfold kk. destruct (mx_rm_array_r ip r d') as [[[r' m']|e] d'']; reflexivity.
    + intros [v m|e] Hok; [|exfalso; eapply Hok; reflexivity].
      apply (mx_sim_bind env lv mx_sum_ok mx_sum_ok (mx_rm_array_r ic r) (mx_rm_array_r ip r) (mx_rm_array il r)
               (fun y d => (fin v m y, d)) (fun y d => (fin v m y, d)) (fin v m)).
      * exact IH.
      * intros d. reflexivity.
      * intros d. reflexivity.
      * intros y _. apply mx_sim_ret.
      * intros [[r' m']|e]; [left; intros e; discriminate|right]. intros d. split; [reflexivity|].
        intros H. eapply H. reflexivity.
    + intros [v m|e]; [left; intros e; discriminate|right]. intros d. split; [reflexivity|].
      intros H. eapply H. reflexivity.
Qed.

(* 2. ResolveMacros *)
Lemma mx_sim_resolve_macros env env' level esc v :
  mx_sim env (S level) mx_res_ok (mx_resolve_macros_r (MxRmCollect false) level env esc v)
    (mx_resolve_macros_r MxRmReplay level env' esc v) (mx_resolve_macros level env esc v).
Proof.
  unfold mx_resolve_macros_r, mx_resolve_macros. destruct (mx_is_empty v); [apply mx_sim_ret|].
  destruct v as [ |b|z|s|l|dd]; try apply mx_sim_irm; [|apply mx_sim_ret].
  apply (mx_sim_bind env (S level) mx_sum_ok mx_res_ok
           (mx_rm_array_r (mx_irm_r (MxRmCollect false) (S level) env false) l)
           (mx_rm_array_r (mx_irm_r MxRmReplay (S level) env' false) l)
           (mx_rm_array (mx_irm mx_fuel (S level) env false) l)
           (fun x d => (match x with inr e => MxThrow e | inl (l', m) => MxOk (MxArr l') m end, d))
           (fun x d => (match x with inr e => MxThrow e | inl (l', m) => MxOk (MxArr l') m end, d))
           (fun x => match x with inr e => MxThrow e | inl (l', m) => MxOk (MxArr l') m end)).
  - apply mx_sim_rm_array. intros s. apply mx_sim_irm.
  - intros d. destruct (mx_rm_array_r _ l d) as [[[l' m]|e] d']; reflexivity.
  - intros d. destruct (mx_rm_array_r _ l d) as [[[l' m]|e] d']; reflexivity.
  - intros x _. apply mx_sim_ret.
  - intros [[l' m]|e]; [left; intros e; discriminate|right]. intros d. split; [reflexivity|].
    intros H. eapply H. reflexivity.
Qed.

(* 3. one entry of the arguments dictionary: set_if, then value *)
Lemma mx_arg_step_split level env a :
  mx_arg_step level env a =
  if mx_as_isdict a && negb (mx_is_empty (mx_as_set_if a)) then
    match mx_sif_decide (mx_resolve_macros (S level) env false (mx_as_set_if a)) with
    | inr st => st
    | inl _ => mx_val_decide a (mx_resolve_macros (S level) env false (mx_as_value a))
    end
  else mx_val_decide a (mx_resolve_macros (S level) env false (mx_as_value a)).
Proof.
  unfold mx_arg_step, mx_sif_decide, mx_val_decide.
  destruct (mx_as_isdict a && negb (mx_is_empty (mx_as_set_if a))); [|reflexivity].
  destruct (mx_resolve_macros (S level) env false (mx_as_set_if a)) as [v m|e]; [|reflexivity].
  destruct m; [reflexivity|]. destruct (mx_set_if_truth v) as [[|]|]; reflexivity.
Qed.

Lemma mx_sim_value env env' level a :
  mx_sim env (S (S level)) mx_step_ok
    (fun d => let (rv, d'') := mx_resolve_macros_r (MxRmCollect false) (S level) env false (mx_as_value a) d in
              (mx_val_decide a rv, d''))
    (fun d => let (rv, d'') := mx_resolve_macros_r MxRmReplay (S level) env' false (mx_as_value a) d in
              (mx_val_decide a rv, d''))
    (mx_val_decide a (mx_resolve_macros (S level) env false (mx_as_value a))).
Proof.
  apply (mx_sim_bind env (S (S level)) mx_res_ok mx_step_ok
           (mx_resolve_macros_r (MxRmCollect false) (S level) env false (mx_as_value a))
           (mx_resolve_macros_r MxRmReplay (S level) env' false (mx_as_value a))
           (mx_resolve_macros (S level) env false (mx_as_value a))
           (fun rv d => (mx_val_decide a rv, d)) (fun rv d => (mx_val_decide a rv, d)) (mx_val_decide a)).
  - apply mx_sim_resolve_macros.
  - intros d. reflexivity.
  - intros d. reflexivity.
  - intros rv _. apply mx_sim_ret.
  - intros [v m|e]; [left; intros e; discriminate|right]. intros d. split; [reflexivity|].
    intros H. eapply H. reflexivity.
Qed.

Lemma mx_sim_arg_step env env' level a :
  mx_sim env (S (S level)) mx_step_ok (mx_arg_step_r (MxRmCollect false) level env a)
    (mx_arg_step_r MxRmReplay level env' a) (mx_arg_step level env a).
Proof.
  rewrite mx_arg_step_split. unfold mx_arg_step_r.
  destruct (mx_as_isdict a && negb (mx_is_empty (mx_as_set_if a))); [|apply mx_sim_value].
  pose (kk := fun (md : mx_rmode) (en : list mx_level) (rs : mx_res) (d' : mx_rdict) =>
      match mx_sif_decide rs with
      | inr st => (st, d')
      | inl _ => let (rv, d'') := mx_resolve_macros_r md (S level) en false (mx_as_value a) d' in
                 (mx_val_decide a rv, d'')
      end).
  apply (mx_sim_bind env (S (S level)) mx_res_ok mx_step_ok
           (mx_resolve_macros_r (MxRmCollect false) (S level) env false (mx_as_set_if a))
           (mx_resolve_macros_r MxRmReplay (S level) env' false (mx_as_set_if a))
           (mx_resolve_macros (S level) env false (mx_as_set_if a))
           (kk (MxRmCollect false) env) (kk MxRmReplay env')
           (fun rs => match mx_sif_decide rs with
                      | inr st => st
                      | inl _ => mx_val_decide a (mx_resolve_macros (S level) env false (mx_as_value a))
                      end)).
  - apply mx_sim_resolve_macros.
  - intros d. destruct (mx_resolve_macros_r _ _ _ _ (mx_as_set_if a) d) as [rs d']. reflexivity.
  - intros d. destruct (mx_resolve_macros_r _ _ _ _ (mx_as_set_if a) d) as [rs d']. reflexivity.
  - intros rs _. unfold kk. destruct (mx_sif_decide rs) as [u|st]; [apply mx_sim_value|apply mx_sim_ret].
  - intros [v m|e]; [left; intros e; discriminate|right]. intros d. split; [reflexivity|].
    intros H. eapply H. reflexivity.
Qed.

(* 4. the loop over the arguments dictionary *)
Lemma mx_sim_collect env env' level args :
  mx_sim env (S (S level)) mx_sum_ok (mx_collect_r (MxRmCollect false) level env args)
    (mx_collect_r MxRmReplay level env' args) (mx_collect level env args).
Proof.
  induction args as [|a r IH].
  - apply mx_sim_ret.
  - pose (fin := fun (c : mx_carg) (x : list mx_carg + mx_err) =>
        match x with inr e => inr e | inl cs => inl (c :: cs) end).
    pose (kk := fun (md : mx_rmode) (en : list mx_level) (st : mx_argstep) (d' : mx_rdict) =>
        match st with
        | MxArgThrow e => (@inr (list mx_carg) mx_err e, d')
        | MxArgSkip => mx_collect_r md level en r d'
        | MxArgPush c => let (y, d'') := mx_collect_r md level en r d' in (fin c y, d'')
        end).
    apply (mx_sim_bind env (S (S level)) mx_step_ok mx_sum_ok
             (mx_arg_step_r (MxRmCollect false) level env a) (mx_arg_step_r MxRmReplay level env' a)
             (mx_arg_step level env a)
             (kk (MxRmCollect false) env) (kk MxRmReplay env')
             (fun st => match st with
                        | MxArgThrow e => inr e
                        | MxArgSkip => mx_collect level env r
                        | MxArgPush c => fin c (mx_collect level env r)
                        end)).
    + apply mx_sim_arg_step.
    + intros d. cbn [mx_collect_r]. destruct (mx_arg_step_r _ level env a d) as [[c| |e] d']; try reflexivity.
      unfold kk. destruct (mx_collect_r _ level env r d') as [[cs|e] d'']; reflexivity.
    + intros d. cbn [mx_collect_r]. destruct (mx_arg_step_r _ level env' a d) as [[c| |e] d']; try reflexivity.
      unfold kk. destruct (mx_collect_r _ level env' r d') as [[cs|e] d'']; reflexivity.
    + intros [c| |e] Hok; [|exact IH|exfalso; eapply Hok; reflexivity].
      apply (mx_sim_bind env (S (S level)) mx_sum_ok mx_sum_ok
               (mx_collect_r (MxRmCollect false) level env r) (mx_collect_r MxRmReplay level env' r)
               (mx_collect level env r)
               (fun y d => (fin c y, d)) (fun y d => (fin c y, d)) (fin c)).
      * exact IH.
      * intros d. reflexivity.
      * intros d. reflexivity.
      * intros y _. apply mx_sim_ret.
      * intros [cs|e]; [left; intros e; discriminate|right]. intros d. split; [reflexivity|].
        intros H. eapply H. reflexivity.
    + intros [c| |e]; [left; intros e; discriminate|left; intros e; discriminate|right].
      intros d. split; [reflexivity|]. intros H. eapply H. reflexivity.
Qed.

(* 5. ResolveArguments: the command line, then the arguments *)
Definition mx_cmdline_r (md : mx_rmode) (env : list mx_level) (command : mxv) (arguments : option (list mx_argspec))
    (d : mx_rdict) : mx_res * mx_rdict :=
  match arguments, command with
  | Some _, MxArr _ | None, _ => mx_resolve_macros_r md 1 env true command d
  | Some _, _ => (MxOk (MxArr [command]) false, d)
  end.
Definition mx_cmdline (env : list mx_level) (command : mxv) (arguments : option (list mx_argspec)) : mx_res :=
  match arguments, command with
  | Some _, MxArr _ | None, _ => mx_resolve_macros 1 env true command
  | Some _, _ => MxOk (MxArr [command]) false
  end.

Lemma mx_sim_cmdline env env' command arguments :
  mx_sim env 2 mx_res_ok (mx_cmdline_r (MxRmCollect false) env command arguments)
    (mx_cmdline_r MxRmReplay env' command arguments) (mx_cmdline env command arguments).
Proof.
  unfold mx_cmdline_r, mx_cmdline.
  destruct arguments as [args|]; destruct command; first [apply mx_sim_resolve_macros | apply mx_sim_ret].
Qed.

Lemma mx_sim_resolve_arguments env env' command arguments :
  mx_sim env 2 mx_cmd_ok (mx_resolve_arguments_r (MxRmCollect false) env command arguments)
    (mx_resolve_arguments_r MxRmReplay env' command arguments) (mx_resolve_arguments env command arguments).
Proof.
  pose (fin := fun (rc : mxv) (x : list mx_carg + mx_err) =>
      match x with inr e => MxCmdThrow e | inl cs => mx_assemble rc (Some cs) end).
  pose (kk := fun (md : mx_rmode) (en : list mx_level) (resolved : mx_res) (d1 : mx_rdict) =>
      match resolved with
      | MxThrow e => (MxCmdThrow e, d1)
      | MxOk rc _ =>
          match arguments with
          | None => (mx_assemble rc None, d1)
          | Some args => let (y, d2) := mx_collect_r md 0 en args d1 in (fin rc y, d2)
          end
      end).
  apply (mx_sim_bind env 2 mx_res_ok mx_cmd_ok
           (mx_cmdline_r (MxRmCollect false) env command arguments) (mx_cmdline_r MxRmReplay env' command arguments)
           (mx_cmdline env command arguments)
           (kk (MxRmCollect false) env) (kk MxRmReplay env')
           (fun resolved => match resolved with
                            | MxThrow e => MxCmdThrow e
                            | MxOk rc _ =>
                                match arguments with
                                | None => mx_assemble rc None
                                | Some args => fin rc (mx_collect 0 env args)
                                end
                            end)).
  - apply mx_sim_cmdline.
  - intros d. unfold mx_resolve_arguments_r.
    change (match arguments, command with
            | Some _, MxArr _ | None, _ => mx_resolve_macros_r (MxRmCollect false) 1 env true command d
            | Some _, _ => (MxOk (MxArr [command]) false, d)
            end) with (mx_cmdline_r (MxRmCollect false) env command arguments d).
    destruct (mx_cmdline_r (MxRmCollect false) env command arguments d) as [[rc m|e] d1]; [|reflexivity].
    unfold kk. destruct arguments as [args|]; [|reflexivity].
    destruct (mx_collect_r _ 0 env args d1) as [[cs|e] d2]; reflexivity.
  - intros d. unfold mx_resolve_arguments_r.
    change (match arguments, command with
            | Some _, MxArr _ | None, _ => mx_resolve_macros_r MxRmReplay 1 env' true command d
            | Some _, _ => (MxOk (MxArr [command]) false, d)
            end) with (mx_cmdline_r MxRmReplay env' command arguments d).
    destruct (mx_cmdline_r MxRmReplay env' command arguments d) as [[rc m|e] d1]; [|reflexivity].
    unfold kk. destruct arguments as [args|]; [|reflexivity].
    destruct (mx_collect_r _ 0 env' args d1) as [[cs|e] d2]; reflexivity.
  - intros [rc m|e] Hok; [|exfalso; eapply Hok; reflexivity]. unfold kk.
    destruct arguments as [args|]; [|apply mx_sim_ret].
    apply (mx_sim_bind env 2 mx_sum_ok mx_cmd_ok
             (mx_collect_r (MxRmCollect false) 0 env args) (mx_collect_r MxRmReplay 0 env' args) (mx_collect 0 env args)
             (fun y d => (fin rc y, d)) (fun y d => (fin rc y, d)) (fin rc)).
    + apply mx_sim_collect.
    + intros d. reflexivity.
    + intros d. reflexivity.
    + intros y _. apply mx_sim_ret.
    + intros [cs|e]; [left; intros e; discriminate|right]. intros d. split; [reflexivity|].
      intros H. eapply H. reflexivity.
  - intros [rc m|e]; [left; intros e; discriminate|right]. intros d. split; [reflexivity|].
    intros H. eapply H. reflexivity.
Qed.

(* every command shape: string or array command line, with or without an arguments dictionary *)
Lemma mx_replay_all_shapes env env' command arguments r d :
  mx_no_nested_missing env 2 ->
  mx_resolve_arguments_r (MxRmCollect false) env command arguments [] = (r, d) ->
  (forall e, r <> MxCmdThrow e) ->
  r = mx_resolve_arguments env command arguments /\
  mx_resolve_arguments_r MxRmReplay env' command arguments d = (r, d).
Proof.
  intros Hn Hc Hok.
  destruct (mx_sim_resolve_arguments env env' command arguments [] (mx_rd_inv_nil env 2)) as (HA & HI & HL & HR).
  rewrite Hc in HA, HI, HL, HR. cbn [fst snd] in HA, HI, HL, HR.
  split; [exact HA|]. exact (HR Hn Hok d HI (mx_rd_le_refl d)).
Qed.

(* witness for all shapes: vars.a = "v '" (needs quoting only under sh, not in an argv), vars.b = ["x"; "y z"];
   command [ "c", "$a$" ], arguments { "-k" = { value = "$a$" }, "-l" = "$b$" } *)
Definition mx_w_env2 : list mx_level :=
  [ {| mx_lv_name := [104; 111; 115; 116]; mx_lv_short := true;
       mx_lv_vars := Some [([97], MxStr [118; 32; 39]); ([98], MxArr [MxStr [120]; MxStr [121; 32; 122]])];
       mx_lv_macros := []; mx_lv_fields := [] |} ].
Definition mx_w_cmd2 : mxv := MxArr [MxStr [99]; MxStr [36; 97; 36]].
Definition mx_w_args2 : list mx_argspec :=
  [ mx_w_arg;
    {| mx_as_name := [45; 108]; mx_as_isdict := false; mx_as_key := None; mx_as_value := MxStr [36; 98; 36];
       mx_as_required := false; mx_as_skip_key := false; mx_as_repeat_key := true; mx_as_order := 0%Z;
       mx_as_sep := None; mx_as_set_if := MxEmpty |} ].

Lemma mx_replay_witness_all_shapes :
  (exists r d, mx_resolve_arguments_r (MxRmCollect false) mx_w_env2 mx_w_cmd2 (Some mx_w_args2) [] = (r, d) /\
     (forall e, r <> MxCmdThrow e) /\ List.length d = 3%nat) /\
  mx_remote false mx_w_env2 [] mx_w_cmd2 (Some mx_w_args2) = Some (mx_resolve_arguments mx_w_env2 mx_w_cmd2 (Some mx_w_args2)) /\
  mx_resolve_arguments mx_w_env2 mx_w_cmd2 (Some mx_w_args2) =
    MxCmdArr [[99]; [118; 32; 39]; [45; 107]; [118; 32; 39]; [45; 108]; [120]; [45; 108]; [121; 32; 122]].
Proof.
  split; [|vm_compute; split; reflexivity].
  eexists. eexists. split; [vm_compute; reflexivity|]. split; [intros e; discriminate|reflexivity].
Qed.

(* the witness environment satisfies the hypothesis of the theorem: every name that is found has a value without missing macros *)
Lemma mx_w_env2_lookup n :
  fst (fst (mx_resolve_macro mx_w_env2 n)) = true ->
  mx_resolve_macro mx_w_env2 n = (true, MxStr [118; 32; 39], true) \/
  mx_resolve_macro mx_w_env2 n = (true, MxArr [MxStr [120]; MxStr [121; 32; 122]], true) \/
  mx_resolve_macro mx_w_env2 n = (true, MxDict [], false).
Proof.
  unfold mx_resolve_macro.
  destruct (mx_split_any [mx_ch_dot] n []) as [|t0 [|t1 r]].
  - cbn. destruct (mx_beq n [97]); [intros _; left; reflexivity|].
    destruct (mx_beq n [98]); [intros _; right; left; reflexivity|].
    intros _. right. right. reflexivity.
  - cbn. destruct (mx_beq n [97]); [intros _; left; reflexivity|].
    destruct (mx_beq n [98]); [intros _; right; left; reflexivity|].
    cbn. discriminate.
  - cbn [mx_lookup_levels mx_w_env2 mx_lv_name mx_lv_short mx_lv_vars mx_lv_macros mx_lv_fields].
    destruct (negb (mx_beq t0 []) && negb (mx_beq t0 [104; 111; 115; 116])); [cbn; discriminate|].
    destruct (mx_beq t0 []); cbn.
    + destruct (mx_beq n [97]); [intros _; left; reflexivity|].
      destruct (mx_beq n [98]); [intros _; right; left; reflexivity|].
      cbn. discriminate.
    + discriminate.
Qed.

Lemma mx_w_env2_no_nested_missing : mx_no_nested_missing mx_w_env2 2.
Proof.
  intros n v m Hf Hp. unfold mx_pre, mx_found, mx_rlookup in *.
  destruct (mx_beq n []).
  { vm_compute in Hp. injection Hp as _ <-. reflexivity. }
  destruct (mx_w_env2_lookup n Hf) as [E|[E|E]]; rewrite E in Hp; vm_compute in Hp; injection Hp as _ <-; reflexivity.
Qed.
