(* C09 - check execution.  Executable model, transcribed from
     lib/icinga/macroprocessor.cpp  ResolveMacro (88-192), InternalResolveMacros (232-339),
                                    ResolveMacros (22-76), AddArgumentHelper, EscapeMacroShellArg,
                                    ResolveArguments (457-585)
     lib/base/utility.cpp           EscapeShellArg (POSIX branch)
     lib/base/process.cpp           PrepareCommand (POSIX branch)
     lib/icinga/pluginutility.cpp   ExecuteCommand (error path), ExitStatusToState, ParseCheckOutput, SplitPerfdata
     lib/methods/pluginchecktask.cpp ProcessFinishedHandler
   No proofs in this file. *)
From Icv Require Import Base.Tac Macro.MxDefs.
From Coq Require Import NArith.
Local Open Scope N_scope.

(* ------------------------------------------------------------------ resolvers *)

(* One entry of the ResolverList as the macro processor sees it:
   - the name ("service", "host", "command", "icinga", "env"),
   - ResolveShortMacros,
   - GetVars() of the object (null for objects without custom variables),
   - what the object's MacroResolver::ResolveMacro answers (state, num_services, getenv, ...),
   - the object's reflection fields, among them "vars" (for a real object the same dictionary
     GetVars() returns; kept separate so that the two look-ups of the code stay distinguishable). *)
Record mx_level := {
  mx_lv_name : mx_bytes;
  mx_lv_short : bool;
  mx_lv_vars : option (list (mx_bytes * mxv));
  mx_lv_macros : list (mx_bytes * mxv);
  mx_lv_fields : list (mx_bytes * mxv)
}.

(* the token walk of ResolveMacro (lines 139-176): dictionaries and objects descend, an array has no
   such field, any other value silently ignores the token *)
Fixpoint mx_walk (ref : mxv) (tokens : list mx_bytes) : option mxv :=
  match tokens with
  | [] => Some ref
  | t :: r =>
      match ref with
      | MxDict d => match mx_assoc t d with Some v => mx_walk v r | None => None end
      | MxArr _ => None
      | _ => mx_walk ref r
      end
  end.

Definition mx_recursive_token (t : mx_bytes) : bool :=
  mx_beq t mx_s_vars || mx_beq t mx_s_action_url || mx_beq t mx_s_notes_url || mx_beq t mx_s_notes.

(* result of ResolveMacro: found?, value, recursive_macro *)
Definition mx_lookup_res := (bool * mxv * bool)%type.

Fixpoint mx_lookup_levels (macro objname : mx_bytes) (tokens : list mx_bytes) (env : list mx_level) : mx_lookup_res :=
  match env with
  | [] => (false, MxEmpty, false)
  | l :: rest =>
      let next := mx_lookup_levels macro objname tokens rest in
      if negb (mx_beq objname []) && negb (mx_beq objname (mx_lv_name l)) then next
      else
        let is_short := mx_beq objname [] in
        if is_short && negb (mx_lv_short l) then next
        else
          match (if is_short then match mx_lv_vars l with Some d => mx_assoc macro d | None => None end else None) with
          | Some v => (true, v, true)
          | None =>
              match mx_assoc (mx_join [mx_ch_dot] tokens) (mx_lv_macros l) with
              | Some v => (true, v, false)
              | None =>
                  match mx_walk (MxDict (mx_lv_fields l)) tokens with
                  | Some v => (true, v, match tokens with t0 :: _ => mx_recursive_token t0 | [] => false end)
                  | None => next
                  end
              end
          end
  end.

Definition mx_resolve_macro (env : list mx_level) (macro : mx_bytes) : mx_lookup_res :=
  let toks := mx_split_any [mx_ch_dot] macro [] in
  match toks with
  | t0 :: (_ :: _) as r => mx_lookup_levels macro t0 r env
  | _ => mx_lookup_levels macro [] toks env
  end.

(* ------------------------------------------------------------------ shell escaping *)

(* Utility::EscapeShellArg, POSIX branch *)
Fixpoint mx_esc_body (s : mx_bytes) : mx_bytes :=
  match s with
  | [] => []
  | c :: t =>
      if c =? mx_ch_squote then mx_ch_squote :: mx_ch_bslash :: mx_ch_squote :: mx_ch_squote :: mx_esc_body t
      else c :: mx_esc_body t
  end.
Definition mx_escape_shell_arg (s : mx_bytes) : mx_bytes := mx_ch_squote :: mx_esc_body s ++ [mx_ch_squote].

(* MacroProcessor::EscapeMacroShellArg *)
Definition mx_escape_macro_shell_arg (v : mxv) : mxv :=
  match v with
  | MxArr l => MxStr (mx_join [mx_ch_space] (List.map (fun a => mx_escape_shell_arg (mx_to_string a)) l))
  | _ => MxStr (mx_escape_shell_arg (mx_to_string v))
  end.

(* ------------------------------------------------------------------ InternalResolveMacros *)

Inductive mx_err := MxErrRecursion | MxErrUnclosed | MxErrMixing | MxErrRequired | MxErrFuel.

(* value + "a macro was missing" (the code stores the name of the last missing macro; only its
   emptiness is ever tested and names are never empty), or an exception *)
Inductive mx_res :=
| MxOk (v : mxv) (missing : bool)
| MxThrow (e : mx_err).

Inductive mx_tok := MxLit (s : mx_bytes) | MxMac (name : mx_bytes) | MxBad.

(* the two FindFirstOf("$") of the loop: text up to the next '$', then the name up to the closing one;
   [MxBad] = "Closing $ not found" *)
Fixpoint mx_tok_out (s : mx_bytes) (lit : mx_bytes) : list mx_tok :=
  match s with
  | [] => [MxLit (rev lit)]
  | c :: t => if c =? mx_ch_dollar then MxLit (rev lit) :: mx_tok_in t [] else mx_tok_out t (c :: lit)
  end
with mx_tok_in (s : mx_bytes) (name : mx_bytes) : list mx_tok :=
  match s with
  | [] => [MxBad]
  | c :: t => if c =? mx_ch_dollar then MxMac (rev name) :: mx_tok_out t [] else mx_tok_in t (c :: name)
  end.

(* recursive resolution of the elements of an array-valued custom variable (lines 290-304) *)
Fixpoint mx_resolve_elems (rec : mx_bytes -> mx_res) (l : list mxv) : list mxv * bool + mx_err :=
  match l with
  | [] => inl ([], false)
  | v :: r =>
      let head := if mx_is_scalar v then rec (mx_to_string v) else MxOk v false in
      match head with
      | MxThrow e => inr e
      | MxOk v' m =>
          match mx_resolve_elems rec r with
          | inr e => inr e
          | inl (r', m') => inl (v' :: r', m || m')
          end
      end
  end.

(* lines 275-316, given what the look-up of lines 254-273 produced *)
Definition mx_resolve1_with (rec : mx_bytes -> mx_res) (esc : bool) (lk : mx_lookup_res) : mx_res :=
  let '(found, v1, recur) := lk in
  let miss := negb found in
  let r :=
    if recur then
      match v1 with
      | MxArr l =>
          match mx_resolve_elems rec l with
          | inr e => MxThrow e
          | inl (l', m) => MxOk (MxArr l') (miss || m)
          end
      | MxStr s =>
          match rec s with
          | MxThrow e => MxThrow e
          | MxOk v m => MxOk v (miss || m)
          end
      | _ => MxOk v1 miss
      end
    else MxOk v1 miss in
  match r with
  | MxThrow e => MxThrow e
  | MxOk v m => MxOk (if esc then mx_escape_macro_shell_arg v else v) m
  end.

(* one macro: lines 254-316.  `$$` (empty name) is the literal dollar sign, decided BEFORE any look-up
   (code as of the fix 4feca083: a custom variable named "" no longer interferes) *)
Definition mx_resolve1 (rec : mx_bytes -> mx_res) (env : list mx_level) (esc : bool) (name : mx_bytes) : mx_res :=
  mx_resolve1_with rec esc
    (if mx_beq name [] then (true, MxStr [mx_ch_dollar], false) else mx_resolve_macro env name).

(* the code BEFORE that fix, kept only for the record of the finding (C09_dollar_old_code_refuted):
   the empty name was looked up first and recursive_macro of that look-up survived the `$$` rule *)
Definition mx_resolve1_pre_fix (rec : mx_bytes -> mx_res) (env : list mx_level) (esc : bool) (name : mx_bytes) : mx_res :=
  let '(found0, v0, recur) := mx_resolve_macro env name in
  mx_resolve1_with rec esc
    (if mx_beq name [] then true else found0, if mx_beq name [] then MxStr [mx_ch_dollar] else v0, recur).

(* the while loop over the tokens; [acc] = result[0..offset), [strlen] = str.GetLength() of the ORIGINAL
   string (line 319 compares against it, not against the current result) *)
Fixpoint mx_fold (res1 : mx_bytes -> mx_res) (strlen : nat) (toks : list mx_tok) (acc : mx_bytes) (miss : bool) : mx_res :=
  match toks with
  | [] => MxOk (MxStr acc) miss
  | MxLit l :: r => mx_fold res1 strlen r (acc ++ l) miss
  | MxBad :: _ => MxThrow MxErrUnclosed
  | MxMac name :: r =>
      match res1 name with
      | MxThrow e => MxThrow e
      | MxOk v m =>
          let miss' := miss || m in
          (* pos_first == 0 && pos_second == str.GetLength() - 1 *)
          if Nat.eqb (length acc) 0 && Nat.eqb (length acc + length name + 2) strlen then MxOk v miss'
          else match v with
               | MxArr _ => MxThrow MxErrMixing
               | _ => mx_fold res1 strlen r (acc ++ mx_to_string v) miss'
               end
      end
  end.

(* InternalResolveMacros.  [level] is the code's recursionLevel; [fuel] only makes the definition
   structurally recursive - C09_terminates shows that 17 - level is always enough. *)
Fixpoint mx_irm (fuel : nat) (level : nat) (env : list mx_level) (esc : bool) (str : mx_bytes) : mx_res :=
  match fuel with
  | O => MxThrow MxErrFuel
  | S f =>
      if Nat.ltb 15 level then MxThrow MxErrRecursion
      else mx_fold (mx_resolve1 (mx_irm f (S level) env false) env esc) (length str) (mx_tok_out str []) [] false
  end.

Definition mx_fuel : nat := 20.

(* ------------------------------------------------------------------ ResolveMacros *)

(* Utility::Join(tokens, ';') with escapeSeparator = true: backslash and the separator get a backslash *)
Fixpoint mx_join_escape (s : mx_bytes) : mx_bytes :=
  match s with
  | [] => []
  | c :: t => if (c =? mx_ch_bslash) || (c =? mx_ch_semi) then mx_ch_bslash :: c :: mx_join_escape t else c :: mx_join_escape t
  end.

Fixpoint mx_rm_array (irm : mx_bytes -> mx_res) (l : list mxv) : list mxv * bool + mx_err :=
  match l with
  | [] => inl ([], false)
  | a :: r =>
      match irm (mx_to_string a) with
      | MxThrow e => inr e
      | MxOk v m =>
          let v' := match v with
                    | MxArr el => MxStr (mx_join [mx_ch_semi] (List.map (fun e => mx_join_escape (mx_to_string e)) el))   (* Utility::Join(value, ';') *)
                    | _ => v
                    end in
          match mx_rm_array irm r with
          | inr e => inr e
          | inl (r', m') => inl (v' :: r', m || m')
          end
      end
  end.

(* MacroProcessor::ResolveMacros(str, ..., recursionLevel = level); dictionaries (only reachable through
   hand-made calls, never through a validated CheckCommand) are not modelled *)
Definition mx_resolve_macros (level : nat) (env : list mx_level) (esc : bool) (v : mxv) : mx_res :=
  if mx_is_empty v then MxOk MxEmpty false
  else match v with
       | MxArr l =>
           match mx_rm_array (mx_irm mx_fuel (S level) env false) l with
           | inr e => MxThrow e
           | inl (l', m) => MxOk (MxArr l') m
           end
       | MxDict _ => MxOk (MxStr mx_unmodelled) false
       | _ => mx_irm mx_fuel (S level) env esc (mx_to_string v)
       end.

(* ------------------------------------------------------------------ ResolveArguments *)

(* one entry of the "arguments" dictionary.  [mx_as_isdict = false]: `"-x" = "$value$"`. *)
Record mx_argspec := {
  mx_as_name : mx_bytes;            (* the dictionary key *)
  mx_as_isdict : bool;
  mx_as_key : option mx_bytes;      (* "key" *)
  mx_as_value : mxv;                (* "value", or the plain string *)
  mx_as_required : bool;
  mx_as_skip_key : bool;
  mx_as_repeat_key : bool;          (* default true *)
  mx_as_order : Z;
  mx_as_sep : option mx_bytes;      (* "separator" *)
  mx_as_set_if : mxv
}.

(* struct CommandArgument *)
Record mx_carg := {
  mx_ca_order : Z;
  mx_ca_skip_key : bool;
  mx_ca_repeat_key : bool;
  mx_ca_skip_value : bool;
  mx_ca_key : mx_bytes;
  mx_ca_sep : option mx_bytes;
  mx_ca_value : mxv
}.

(* lines 509-528: Some true = set, Some false = not set, None = conversion failed (argument skipped) *)
Definition mx_set_if_truth (v : mxv) : option bool :=
  let s := mx_to_string v in
  if mx_beq s mx_s_true then Some true
  else if mx_beq s mx_s_false then Some false
  else match v with
       | MxEmpty => Some false
       | MxBool b => Some b
       | MxNum z => Some (negb (Z.eqb z 0))
       | MxStr [] => Some false
       | MxStr s' => mx_parse_truth s'
       | _ => None
       end.

Inductive mx_argstep := MxArgPush (c : mx_carg) | MxArgSkip | MxArgThrow (e : mx_err).

(* body of the loop at lines 476-552; [level] = recursionLevel of ResolveArguments *)
Definition mx_arg_step (level : nat) (env : list mx_level) (a : mx_argspec) : mx_argstep :=
  let key := if mx_as_isdict a then match mx_as_key a with Some k => k | None => mx_as_name a end else mx_as_name a in
  let check_set_if :=
    if mx_as_isdict a && negb (mx_is_empty (mx_as_set_if a)) then
      match mx_resolve_macros (S level) env false (mx_as_set_if a) with
      | MxThrow e => inr (MxArgThrow e)
      | MxOk v m =>
          if m then inr MxArgSkip
          else match mx_set_if_truth v with
               | Some true => inl tt
               | _ => inr MxArgSkip
               end
      end
    else inl tt in
  match check_set_if with
  | inr r => r
  | inl _ =>
      match mx_resolve_macros (S level) env false (mx_as_value a) with
      | MxThrow e => MxArgThrow e
      | MxOk v m =>
          if m then (if mx_as_isdict a && mx_as_required a then MxArgThrow MxErrRequired else MxArgSkip)
          else MxArgPush {| mx_ca_order := if mx_as_isdict a then mx_as_order a else 0%Z;
                            mx_ca_skip_key := mx_as_isdict a && mx_as_skip_key a;
                            mx_ca_repeat_key := if mx_as_isdict a then mx_as_repeat_key a else true;
                            mx_ca_skip_value := mx_is_empty (mx_as_value a);
                            mx_ca_key := key;
                            mx_ca_sep := if mx_as_isdict a then mx_as_sep a else None;
                            mx_ca_value := v |}
      end
  end.

Fixpoint mx_collect (level : nat) (env : list mx_level) (args : list mx_argspec) : list mx_carg + mx_err :=
  match args with
  | [] => inl []
  | a :: r =>
      match mx_arg_step level env a with
      | MxArgThrow e => inr e
      | MxArgSkip => mx_collect level env r
      | MxArgPush c =>
          match mx_collect level env r with
          | inr e => inr e
          | inl cs => inl (c :: cs)
          end
      end
  end.

(* std::sort with operator< on Order, modelled as a stable insertion sort (exact for libstdc++ up to
   16 elements; beyond that the relative order of equal-order arguments is implementation defined) *)
Fixpoint mx_insert (c : mx_carg) (l : list mx_carg) : list mx_carg :=
  match l with
  | [] => [c]
  | d :: r => if Z.ltb (mx_ca_order d) (mx_ca_order c) then d :: mx_insert c r else c :: l
  end.
Fixpoint mx_sort (l : list mx_carg) : list mx_carg :=
  match l with
  | [] => []
  | c :: r => mx_insert c (mx_sort r)
  end.

(* AddArgumentHelper *)
Definition mx_add_arg (key value : mx_bytes) (add_key add_value : bool) (sep : option mx_bytes) : list mx_bytes :=
  match sep with
  | Some s => if add_key && add_value then [key ++ s ++ value]
              else (if add_key then [key] else []) ++ (if add_value then [value] else [])
  | None => (if add_key then [key] else []) ++ (if add_value then [value] else [])
  end.

Fixpoint mx_emit_arr (c : mx_carg) (first : bool) (l : list mxv) : list mx_bytes :=
  match l with
  | [] => []
  | v :: r =>
      let add_key := if first then negb (mx_ca_skip_key c) else negb (mx_ca_skip_key c) && mx_ca_repeat_key c in
      mx_add_arg (mx_ca_key c) (mx_to_string v) add_key (negb (mx_ca_skip_value c)) (mx_ca_sep c) ++ mx_emit_arr c false r
  end.

(* lines 557-581 *)
Definition mx_emit (c : mx_carg) : list mx_bytes :=
  match mx_ca_value c with
  | MxDict _ => []
  | MxArr l => mx_emit_arr c true l
  | v => mx_add_arg (mx_ca_key c) (mx_to_string v) (negb (mx_ca_skip_key c)) (negb (mx_ca_skip_value c)) (mx_ca_sep c)
  end.

(* what ResolveArguments returns: an array (argv), a string (for sh -c), Empty, or an exception *)
Inductive mx_cmdres :=
| MxCmdArr (argv : list mx_bytes)
| MxCmdStr (s : mx_bytes)
| MxCmdThrow (e : mx_err).

(* ResolveArguments(command, arguments, resolvers, cr, nullptr, false, 0) followed by the String
   conversion PrepareCommand applies to every array element *)
Definition mx_resolve_arguments (env : list mx_level) (command : mxv) (arguments : option (list mx_argspec)) : mx_cmdres :=
  let level := 0%nat in
  let resolved :=
    match arguments, command with
    | Some _, MxArr _ | None, _ => mx_resolve_macros (S level) env true command
    | Some _, _ => MxOk (MxArr [command]) false
    end in
  match resolved with
  | MxThrow e => MxCmdThrow e
  | MxOk rc _ =>
      match arguments with
      | None =>
          match rc with
          | MxArr l => MxCmdArr (List.map mx_to_string l)
          | _ => MxCmdStr (mx_to_string rc)
          end
      | Some args =>
          match mx_collect level env args with
          | inr e => MxCmdThrow e
          | inl cs =>
              match rc with
              | MxArr l => MxCmdArr (List.map mx_to_string l ++ flat_map mx_emit (mx_sort cs))
              | _ => MxCmdThrow MxErrMixing     (* static_cast<Array::Ptr> of a non-array: unreachable, see MxProofs *)
              end
          end
      end
  end.

(* dictionary iteration order (std::map<String,...>): ascending by key bytes *)
Fixpoint mx_dict_insert (a : mx_argspec) (l : list mx_argspec) : list mx_argspec :=
  match l with
  | [] => [a]
  | b :: r => if mx_blt (mx_as_name b) (mx_as_name a) then b :: mx_dict_insert a r else a :: l
  end.
Fixpoint mx_dict_sort (l : list mx_argspec) : list mx_argspec :=
  match l with [] => [] | a :: r => mx_dict_insert a (mx_dict_sort r) end.

(* ------------------------------------------------------------------ POSIX sh, restricted *)

(* Word splitting and quote removal of `sh -c <string>` for strings made of: blanks, characters that
   have no special meaning unquoted, single-quoted text and backslash escapes - which is what the
   escaper emits plus plain template text.  Anything else (operators, expansions, double quotes,
   globbing characters, NUL) is outside the model: None. *)
Inductive mx_shmode := MxShU | MxShQ | MxShE.

Record mx_shst := { mx_sh_words : list mx_bytes;       (* completed words, newest first *)
                    mx_sh_cur : option mx_bytes;       (* the word in progress *)
                    mx_sh_mode : mx_shmode }.

Definition mx_sh_blank (c : N) : bool := (c =? 32) || (c =? 9) || (c =? 10).

Definition mx_sh_plain (c : N) : bool :=
  ((48 <=? c) && (c <=? 57)) || ((65 <=? c) && (c <=? 90)) || ((97 <=? c) && (c <=? 122)) ||
  (c =? 45) || (c =? 95) || (c =? 46) || (c =? 47) || (c =? 58) || (c =? 44) || (c =? 43) ||
  (c =? 64) || (c =? 37) || (c =? 61) || (128 <=? c).

Definition mx_sh_app (cur : option mx_bytes) (c : N) : option mx_bytes :=
  Some (match cur with Some w => w ++ [c] | None => [c] end).
Definition mx_sh_open (cur : option mx_bytes) : option mx_bytes :=
  Some (match cur with Some w => w | None => [] end).

Definition mx_sh_step (st : mx_shst) (c : N) : option mx_shst :=
  match mx_sh_mode st with
  | MxShU =>
      if mx_sh_blank c then
        Some {| mx_sh_words := match mx_sh_cur st with Some w => w :: mx_sh_words st | None => mx_sh_words st end;
                mx_sh_cur := None; mx_sh_mode := MxShU |}
      else if c =? mx_ch_squote then Some {| mx_sh_words := mx_sh_words st; mx_sh_cur := mx_sh_open (mx_sh_cur st); mx_sh_mode := MxShQ |}
      else if c =? mx_ch_bslash then Some {| mx_sh_words := mx_sh_words st; mx_sh_cur := mx_sh_open (mx_sh_cur st); mx_sh_mode := MxShE |}
      else if mx_sh_plain c then Some {| mx_sh_words := mx_sh_words st; mx_sh_cur := mx_sh_app (mx_sh_cur st) c; mx_sh_mode := MxShU |}
      else None
  | MxShQ =>
      if c =? mx_ch_squote then Some {| mx_sh_words := mx_sh_words st; mx_sh_cur := mx_sh_cur st; mx_sh_mode := MxShU |}
      else if c =? 0 then None
      else Some {| mx_sh_words := mx_sh_words st; mx_sh_cur := mx_sh_app (mx_sh_cur st) c; mx_sh_mode := MxShQ |}
  | MxShE =>
      if (c =? 10) || (c =? 0) then None
      else Some {| mx_sh_words := mx_sh_words st; mx_sh_cur := mx_sh_app (mx_sh_cur st) c; mx_sh_mode := MxShU |}
  end.

Fixpoint mx_sh_run (st : mx_shst) (s : mx_bytes) : option mx_shst :=
  match s with
  | [] => Some st
  | c :: t => match mx_sh_step st c with Some st' => mx_sh_run st' t | None => None end
  end.

Definition mx_sh_init : mx_shst := {| mx_sh_words := []; mx_sh_cur := None; mx_sh_mode := MxShU |}.

Definition mx_sh_finish (st : mx_shst) : option (list mx_bytes) :=
  match mx_sh_mode st with
  | MxShU => Some (rev (match mx_sh_cur st with Some w => w :: mx_sh_words st | None => mx_sh_words st end))
  | _ => None
  end.

Definition mx_sh_split_from (st : mx_shst) (s : mx_bytes) : option (list mx_bytes) :=
  match mx_sh_run st s with Some st' => mx_sh_finish st' | None => None end.

Definition mx_sh_split (s : mx_bytes) : option (list mx_bytes) := mx_sh_split_from mx_sh_init s.

(* argv the plugin process sees: Process::PrepareCommand + execvp, resp. sh -c *)
Inductive mx_argv := MxArgv (l : list mx_bytes) | MxArgvUnknown | MxArgvNone.

Definition mx_plugin_argv (r : mx_cmdres) : mx_argv :=
  match r with
  | MxCmdArr l => MxArgv l
  | MxCmdStr s => match mx_sh_split s with Some l => MxArgv l | None => MxArgvUnknown end
  | MxCmdThrow _ => MxArgvNone
  end.

(* ------------------------------------------------------------------ exit status, output *)

(* PluginUtility::ExitStatusToState *)
Definition mx_exit_to_state (st : Z) : Z :=
  if Z.eqb st 0 then 0%Z else if Z.eqb st 1 then 1%Z else if Z.eqb st 2 then 2%Z else 3%Z.

(* PluginUtility::ParseCheckOutput: the loop body for one line *)
Definition mx_parse_line (tp : mx_bytes * mx_bytes) (line : mx_bytes) : mx_bytes * mx_bytes :=
  let '(text, perf) := tp in
  let text1 := match text with [] => text | _ => text ++ [10] end in
  match mx_split_at mx_ch_pipe line with
  | Some (before, after) =>
      if mx_mem mx_ch_eq after then
        (text1 ++ before, (match perf with [] => perf | _ => perf ++ [mx_ch_space] end) ++ after)
      else (text1 ++ line, perf)
  | None => (text1 ++ line, perf)
  end.

Definition mx_parse_check_output (output : mx_bytes) : mx_bytes * mx_bytes :=
  let '(text, perf) := fold_left mx_parse_line (mx_split_any [13; 10] output []) ([], []) in
  (text, mx_trim perf).

(* PluginUtility::SplitPerfdata.  First the two searches of every round (next '=', then next ' '),
   then the label handling with the multi-prefix carried from round to round. *)
Fixpoint mx_pd_scan (s : mx_bytes) (inval : bool) (lab val : mx_bytes) : list (mx_bytes * mx_bytes) :=
  match s with
  | [] => if inval then [(rev lab, rev val)] else []
  | c :: t =>
      if inval then
        (if c =? mx_ch_space then (rev lab, rev val) :: mx_pd_scan t false [] [] else mx_pd_scan t true lab (c :: val))
      else
        (if c =? mx_ch_eq then mx_pd_scan t true lab [] else mx_pd_scan t false (c :: lab) val)
  end.

Definition mx_pd_unquote (label : mx_bytes) : mx_bytes :=
  if Nat.ltb 2 (length label) && (hd 0 label =? mx_ch_squote) && (last label 0 =? mx_ch_squote)
  then removelast (tl label) else label.

Fixpoint mx_pd_labels (l : list (mx_bytes * mx_bytes)) (multi_prefix : mx_bytes) : list mx_bytes :=
  match l with
  | [] => []
  | (raw, value) :: r =>
      let label0 := mx_pd_unquote (mx_trim_left raw) in
      let multi_index := mx_rfind_cc label0 0 None in
      let mp := match multi_index with Some _ => [] | None => multi_prefix end in
      let label := match mp with [] => label0 | _ => mp ++ [mx_ch_colon; mx_ch_colon] ++ label0 end in
      let pdv := if mx_mem mx_ch_space label
                 then [mx_ch_squote] ++ label ++ [mx_ch_squote; mx_ch_eq] ++ value
                 else label ++ [mx_ch_eq] ++ value in
      let mp' := match multi_index with Some i => firstn i label | None => mp end in
      pdv :: mx_pd_labels r mp'
  end.

Definition mx_split_perfdata (perfdata : mx_bytes) : list mx_bytes :=
  mx_pd_labels (mx_pd_scan perfdata false [] []) [].

(* PluginCheckTask::ProcessFinishedHandler: what ends up in the check result *)
Record mx_checkres := { mx_cr_state : Z; mx_cr_exit : Z; mx_cr_output : mx_bytes; mx_cr_perfdata : list mx_bytes }.

Definition mx_finish (exit_status : Z) (raw_output : mx_bytes) : mx_checkres :=
  let out0 := mx_trim raw_output in
  let out1 := if Z.ltb 3 exit_status then
                out0 ++ mx_s_term1 ++ mx_dec exit_status ++ mx_s_term2 ++ mx_hex (Z.to_N exit_status) ++ mx_s_term3
              else out0 in
  let '(text, perf) := mx_parse_check_output out1 in
  {| mx_cr_state := mx_exit_to_state exit_status; mx_cr_exit := exit_status;
     mx_cr_output := text; mx_cr_perfdata := mx_split_perfdata perf |}.

(* PluginUtility::ExecuteCommand, exception path: pr.ExitStatus = 3 *)
Definition mx_exec_state (r : mx_cmdres) (plugin_exit : Z) : Z :=
  match r with
  | MxCmdThrow _ => mx_exit_to_state 3
  | _ => mx_exit_to_state plugin_exit
  end.

(* ------------------------------------------------------------------ the timeout state machine *)

(* Process::DoEvents (process.cpp 1039-1190, POSIX branch) as a step function.  Real time enters only through
   two facts about the instant of the call: "the soft deadline start + timeout has passed" and "the hard
   deadline start + 1.1 * timeout has passed"; what read() on the pipe returned and, when the call ends the
   process, the wait status are inputs as well. *)
Inductive mx_wait :=
| MxWaitExit (code : Z)                       (* WIFEXITED *)
| MxWaitSignal (signame : mx_bytes)           (* WIFSIGNALED; "<number> (<strsignal>)" *)
| MxWaitFail.                                 (* waitpid failed / could not kill *)

Inductive mx_read :=
| MxReadAgain (d : mx_bytes)                  (* data, then EAGAIN: DoEvents returns true *)
| MxReadEof (d : mx_bytes).                   (* data, then end of file *)

Record mx_proc := { mx_pr_sent_term : bool;   (* m_SentSigterm *)
                    mx_pr_out : mx_bytes }.   (* m_OutputStream *)

Record mx_pev := { mx_ev_past_soft : bool; mx_ev_past_hard : bool; mx_ev_read : mx_read; mx_ev_wait : mx_wait }.

Definition mx_proc_init : mx_proc := {| mx_pr_sent_term := false; mx_pr_out := [] |}.

(* ProcessResult: ExitStatus, Output *)
Definition mx_proc_finish (sent : bool) (out : mx_bytes) (w : mx_wait) : Z * mx_bytes :=
  match w with
  | MxWaitFail => (128%Z, out)
  | MxWaitExit c => (if sent then 128%Z else c, out)
  | MxWaitSignal n => (128%Z, out ++ mx_s_sig1 ++ n ++ mx_s_sig2)
  end.

Definition mx_do_events (p : mx_proc) (e : mx_pev) : mx_proc + Z * mx_bytes :=
  (* deadline < now && !m_SentSigterm: marker, SIGTERM to the process *)
  let fire := mx_ev_past_soft e && negb (mx_pr_sent_term p) in
  let sent := mx_pr_sent_term p || fire in
  let out := if fire then mx_pr_out p ++ mx_s_timeout else mx_pr_out p in
  (* GetNextTimeout() now answers 1.1 * timeout iff SIGTERM has been sent: SIGKILL to the process group *)
  let is_timeout := if sent then mx_ev_past_hard e else mx_ev_past_soft e in
  if is_timeout then inr (mx_proc_finish sent out (mx_ev_wait e))
  else match mx_ev_read e with
       | MxReadAgain d => inl {| mx_pr_sent_term := sent; mx_pr_out := out ++ d |}
       | MxReadEof d => inr (mx_proc_finish sent (out ++ d) (mx_ev_wait e))
       end.

Fixpoint mx_proc_run (p : mx_proc) (evs : list mx_pev) : option (Z * mx_bytes) :=
  match evs with
  | [] => None
  | e :: r => match mx_do_events p e with
              | inl p' => mx_proc_run p' r
              | inr res => Some res
              end
  end.

(* what the check result shows of an execution whose process went through [evs] *)
Definition mx_timeout_observe (evs : list mx_pev) : option (Z * Z * bool) :=
  match mx_proc_run mx_proc_init evs with
  | Some (ex, out) =>
      let c := mx_finish ex out in
      Some (mx_cr_state c, mx_cr_exit c, mx_contains mx_s_timeout (mx_cr_output c))
  | None => None
  end.
