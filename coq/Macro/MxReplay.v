(* C09 - the collect / replay path of macro resolution (command_endpoint checks).  Model, no proofs.
     lib/icinga/macroprocessor.cpp  InternalResolveMacros: the `useResolvedMacros` branch (look-up in the dictionary
                                    instead of the resolvers, never recursive) and
                                    `if (!useResolvedMacros && found && resolvedMacros) resolvedMacros->Set(name, resolved_macro)`
                                    which sits BEFORE `if (escapeFn) resolved_macro = escapeFn(resolved_macro)`;
                                    ResolveMacros / ResolveArguments hand the same dictionary to every top-level call,
                                    nested calls (custom variable values) get nullptr.
   The parent resolves with an empty dictionary and useResolvedMacros = false (collect), ships the dictionary, the agent
   resolves the SAME command definition with useResolvedMacros = true (replay): Checkable::ExecuteCheck ->
   ClusterEvents::ExecuteCheckFromQueue -> Checkable::ExecuteRemoteCheck -> CheckCommand::Execute(.., macros, true). *)
From Icv Require Import Base.Tac Macro.MxDefs Macro.MxModel Macro.MxOracle.
From Coq Require Import NArith.
Local Open Scope N_scope.

(* Dictionary resolvedMacros: Set = cons, Get = first match (the latest Set wins) *)
Definition mx_rdict := list (mx_bytes * mxv).

(* collect mode carries the FORM of the source: false = the value is recorded before escapeFn is applied (the code),
   true = recorded after (the swapped order, kept for the refutation) *)
Inductive mx_rmode := MxRmCollect (record_escaped : bool) | MxRmReplay.

(* lines 254-273, local / collect branch *)
Definition mx_rlookup (env : list mx_level) (name : mx_bytes) : mx_lookup_res :=
  if mx_beq name [] then (true, MxStr [mx_ch_dollar], false) else mx_resolve_macro env name.

Definition mx_esc_if (esc : bool) (v : mxv) : mxv := if esc then mx_escape_macro_shell_arg v else v.

(* one macro with the dictionary threaded through *)
Definition mx_resolve1_r (md : mx_rmode) (rec : mx_bytes -> mx_res) (env : list mx_level) (esc : bool)
    (d : mx_rdict) (name : mx_bytes) : mx_res * mx_rdict :=
  match md with
  | MxRmReplay =>
      (* `$$` first; otherwise Contains/Get; recursive_macro = false; a missing name leaves Empty *)
      if mx_beq name [] then (MxOk (mx_esc_if esc (MxStr [mx_ch_dollar])) false, d)
      else match mx_assoc name d with
           | Some v => (MxOk (mx_esc_if esc v) false, d)
           | None => (MxOk (mx_esc_if esc MxEmpty) true, d)
           end
  | MxRmCollect recesc =>
      let lk := mx_rlookup env name in
      match mx_resolve1_with rec false lk with
      | MxThrow e => (MxThrow e, d)
      | MxOk v m =>
          let out := mx_esc_if esc v in
          (MxOk out m, if fst (fst lk) then (name, if recesc then out else v) :: d else d)
      end
  end.

Fixpoint mx_fold_r (res1 : mx_rdict -> mx_bytes -> mx_res * mx_rdict) (strlen : nat) (toks : list mx_tok)
    (acc : mx_bytes) (miss : bool) (d : mx_rdict) : mx_res * mx_rdict :=
  match toks with
  | [] => (MxOk (MxStr acc) miss, d)
  | MxLit l :: r => mx_fold_r res1 strlen r (acc ++ l) miss d
  | MxBad :: _ => (MxThrow MxErrUnclosed, d)
  | MxMac name :: r =>
      match res1 d name with
      | (MxThrow e, d') => (MxThrow e, d')
      | (MxOk v m, d') =>
          let miss' := miss || m in
          if Nat.eqb (length acc) 0 && Nat.eqb (length acc + length name + 2) strlen then (MxOk v miss', d')
          else match v with
               | MxArr _ => (MxThrow MxErrMixing, d')
               | _ => mx_fold_r res1 strlen r (acc ++ mx_to_string v) miss' d'
               end
      end
  end.

(* a TOP-LEVEL InternalResolveMacros call (the only ones that see the dictionary) *)
Definition mx_irm_r (md : mx_rmode) (level : nat) (env : list mx_level) (esc : bool) (str : mx_bytes) (d : mx_rdict)
    : mx_res * mx_rdict :=
  if Nat.ltb 15 level then (MxThrow MxErrRecursion, d)
  else mx_fold_r (mx_resolve1_r md (mx_irm (pred mx_fuel) (S level) env false) env esc)
                 (length str) (mx_tok_out str []) [] false d.

Definition mx_rm_elem (v : mxv) : mxv :=
  match v with
  | MxArr el => MxStr (mx_join [mx_ch_semi] (List.map (fun e => mx_join_escape (mx_to_string e)) el))
  | _ => v
  end.

Fixpoint mx_rm_array_r (irm : mx_bytes -> mx_rdict -> mx_res * mx_rdict) (l : list mxv) (d : mx_rdict)
    : (list mxv * bool + mx_err) * mx_rdict :=
  match l with
  | [] => (inl ([], false), d)
  | a :: r =>
      match irm (mx_to_string a) d with
      | (MxThrow e, d') => (inr e, d')
      | (MxOk v m, d') =>
          match mx_rm_array_r irm r d' with
          | (inr e, d'') => (inr e, d'')
          | (inl (r', m'), d'') => (inl (mx_rm_elem v :: r', m || m'), d'')
          end
      end
  end.

Definition mx_resolve_macros_r (md : mx_rmode) (level : nat) (env : list mx_level) (esc : bool) (v : mxv) (d : mx_rdict)
    : mx_res * mx_rdict :=
  if mx_is_empty v then (MxOk MxEmpty false, d)
  else match v with
       | MxArr l =>
           match mx_rm_array_r (mx_irm_r md (S level) env false) l d with
           | (inr e, d') => (MxThrow e, d')
           | (inl (l', m), d') => (MxOk (MxArr l') m, d')
           end
       | MxDict _ => (MxOk (MxStr mx_unmodelled) false, d)
       | _ => mx_irm_r md (S level) env esc (mx_to_string v) d
       end.

(* the two decisions of the argument loop, as in mx_arg_step *)
Definition mx_sif_decide (r : mx_res) : unit + mx_argstep :=
  match r with
  | MxThrow e => inr (MxArgThrow e)
  | MxOk v m =>
      if m then inr MxArgSkip
      else match mx_set_if_truth v with
           | Some true => inl tt
           | _ => inr MxArgSkip
           end
  end.

Definition mx_val_decide (a : mx_argspec) (r : mx_res) : mx_argstep :=
  let key := if mx_as_isdict a then match mx_as_key a with Some k => k | None => mx_as_name a end else mx_as_name a in
  match r with
  | MxThrow e => MxArgThrow e
  | MxOk v m =>
      if m then (if mx_as_isdict a && mx_as_required a then MxArgThrow MxErrRequired else MxArgSkip)
      else MxArgPush {| mx_ca_order := if mx_as_isdict a then mx_as_order a else 0%Z;
                        mx_ca_skip_key := mx_as_isdict a && mx_as_skip_key a;
                        mx_ca_repeat_key := if mx_as_isdict a then mx_as_repeat_key a else true;
                        mx_ca_skip_value := mx_is_empty (mx_as_value a);
                        mx_ca_key := key;
                        mx_ca_sep := if mx_as_isdict a then mx_as_sep a else None;
                        mx_ca_value := v |}
  end.

Definition mx_arg_step_r (md : mx_rmode) (level : nat) (env : list mx_level) (a : mx_argspec) (d : mx_rdict)
    : mx_argstep * mx_rdict :=
  if mx_as_isdict a && negb (mx_is_empty (mx_as_set_if a)) then
    match mx_resolve_macros_r md (S level) env false (mx_as_set_if a) d with
    | (rs, d') =>
        match mx_sif_decide rs with
        | inr st => (st, d')
        | inl _ =>
            match mx_resolve_macros_r md (S level) env false (mx_as_value a) d' with
            | (rv, d'') => (mx_val_decide a rv, d'')
            end
        end
    end
  else
    match mx_resolve_macros_r md (S level) env false (mx_as_value a) d with
    | (rv, d'') => (mx_val_decide a rv, d'')
    end.

Fixpoint mx_collect_r (md : mx_rmode) (level : nat) (env : list mx_level) (args : list mx_argspec) (d : mx_rdict)
    : (list mx_carg + mx_err) * mx_rdict :=
  match args with
  | [] => (inl [], d)
  | a :: r =>
      match mx_arg_step_r md level env a d with
      | (MxArgThrow e, d') => (inr e, d')
      | (MxArgSkip, d') => mx_collect_r md level env r d'
      | (MxArgPush c, d') =>
          match mx_collect_r md level env r d' with
          | (inr e, d'') => (inr e, d'')
          | (inl cs, d'') => (inl (c :: cs), d'')
          end
      end
  end.

(* what mx_resolve_arguments does with the resolved command line and the collected arguments *)
Definition mx_assemble (rc : mxv) (cs : option (list mx_carg)) : mx_cmdres :=
  match cs with
  | None =>
      match rc with
      | MxArr l => MxCmdArr (List.map mx_to_string l)
      | _ => MxCmdStr (mx_to_string rc)
      end
  | Some cs =>
      match rc with
      | MxArr l => MxCmdArr (List.map mx_to_string l ++ flat_map mx_emit (mx_sort cs))
      | _ => MxCmdThrow MxErrMixing
      end
  end.

(* ResolveArguments(command, arguments, resolvers, cr, resolvedMacros, useResolvedMacros, 0) *)
Definition mx_resolve_arguments_r (md : mx_rmode) (env : list mx_level) (command : mxv)
    (arguments : option (list mx_argspec)) (d : mx_rdict) : mx_cmdres * mx_rdict :=
  let level := 0%nat in
  let '(resolved, d1) :=
    match arguments, command with
    | Some _, MxArr _ | None, _ => mx_resolve_macros_r md (S level) env true command d
    | Some _, _ => (MxOk (MxArr [command]) false, d)
    end in
  match resolved with
  | MxThrow e => (MxCmdThrow e, d1)
  | MxOk rc _ =>
      match arguments with
      | None => (mx_assemble rc None, d1)
      | Some args =>
          match mx_collect_r md level env args d1 with
          | (inr e, d2) => (MxCmdThrow e, d2)
          | (inl cs, d2) => (mx_assemble rc (Some cs), d2)
          end
      end
  end.

(* the whole remote execution: the parent collects into an empty dictionary; when that succeeds the agent (whose
   resolvers [env'] are a bare virtual host and its own copy of the command) executes from the dictionary *)
Definition mx_remote (recesc : bool) (env env' : list mx_level) (command : mxv) (arguments : option (list mx_argspec))
    : option mx_cmdres :=
  match mx_resolve_arguments_r (MxRmCollect recesc) env command arguments [] with
  | (MxCmdThrow _, _) => None
  | (_, d) => Some (fst (mx_resolve_arguments_r MxRmReplay env' command arguments d))
  end.

(* oracle for the observations of the op mx_replay: 0 = the parent must fail, 1 = replay result differs *)
Definition mx_oracle_replay (env env' : list mx_level) (command : mxv) (arguments : option (list mx_argspec))
    (observed : option mx_cmdres) : option Z :=
  match mx_remote false env env' command arguments, observed with
  | None, None => None
  | Some a, Some b => if mx_cmdres_beq a b then None else Some 61%Z
  | _, _ => Some 60%Z
  end.
