(* C09 - check execution.  Basic definitions: byte strings, the Icinga value type as far as the
   macro processor looks at it, and the string helpers the transcriptions below use.
   No proofs in this file. *)
From Icv Require Import Base.Tac.
From Coq Require Import NArith Ascii String DecimalString.
Local Open Scope N_scope.

(* a byte string: std::string / icinga::String seen as a sequence of bytes *)
Definition mx_bytes := list N.

Definition mx_ch_dollar : N := 36.
Definition mx_ch_squote : N := 39.
Definition mx_ch_bslash : N := 92.
Definition mx_ch_space : N := 32.
Definition mx_ch_dot : N := 46.
Definition mx_ch_pipe : N := 124.
Definition mx_ch_eq : N := 61.
Definition mx_ch_colon : N := 58.
Definition mx_ch_semi : N := 59.

Fixpoint mx_beq (a b : mx_bytes) : bool :=
  match a, b with
  | [], [] => true
  | x :: a', y :: b' => (x =? y) && mx_beq a' b'
  | _, _ => false
  end.

(* std::string::compare: lexicographic on unsigned bytes, shorter prefix first *)
Fixpoint mx_blt (a b : mx_bytes) : bool :=
  match a, b with
  | [], [] => false
  | [], _ :: _ => true
  | _ :: _, [] => false
  | x :: a', y :: b' => if x <? y then true else if y <? x then false else mx_blt a' b'
  end.

Definition mx_of_string (s : string) : mx_bytes := List.map N_of_ascii (list_ascii_of_string s).

(* icinga::Value, restricted to what the macro processor distinguishes.  Numbers are integers
   (that is all the generators and the theorems use); Function values are not modelled. *)
Inductive mxv :=
| MxEmpty
| MxBool (b : bool)
| MxNum (z : Z)
| MxStr (s : mx_bytes)
| MxArr (l : list mxv)
| MxDict (d : list (mx_bytes * mxv)).

Fixpoint mx_assoc {A} (k : mx_bytes) (d : list (mx_bytes * A)) : option A :=
  match d with
  | [] => None
  | (k', v) :: r => if mx_beq k k' then Some v else mx_assoc k r
  end.

(* Value::IsEmpty: the Empty value or the empty string *)
Definition mx_is_empty (v : mxv) : bool :=
  match v with MxEmpty => true | MxStr [] => true | _ => false end.

Definition mx_is_object (v : mxv) : bool :=
  match v with MxArr _ | MxDict _ => true | _ => false end.

(* Value::IsScalar *)
Definition mx_is_scalar (v : mxv) : bool := negb (mx_is_empty v) && negb (mx_is_object v).

(* string constants are evaluated to byte lists here so that Coq's [string] type never reaches extraction *)
Definition mx_s_true : mx_bytes := Eval compute in mx_of_string "true".
Definition mx_s_false : mx_bytes := Eval compute in mx_of_string "false".
Definition mx_s_vars : mx_bytes := Eval compute in mx_of_string "vars".
Definition mx_s_action_url : mx_bytes := Eval compute in mx_of_string "action_url".
Definition mx_s_notes_url : mx_bytes := Eval compute in mx_of_string "notes_url".
Definition mx_s_notes : mx_bytes := Eval compute in mx_of_string "notes".
Definition mx_s_term1 : mx_bytes := Eval compute in mx_of_string "<Terminated with exit code ".
Definition mx_s_term2 : mx_bytes := Eval compute in mx_of_string " (0x".
Definition mx_s_term3 : mx_bytes := Eval compute in mx_of_string ").>".

Definition mx_s_timeout : mx_bytes := Eval compute in mx_of_string "<Timeout exceeded.>".
Definition mx_s_sig1 : mx_bytes := Eval compute in mx_of_string "<Terminated by signal ".
Definition mx_s_sig2 : mx_bytes := Eval compute in mx_of_string ".>".

(* decimal digits of an integer (Convert::ToString(double) of an integral value, operator<< of an int) *)
Fixpoint mx_dec_aux (fuel : nat) (n : N) (acc : mx_bytes) : mx_bytes :=
  match fuel with
  | O => acc
  | S f => let acc' := (48 + n mod 10) :: acc in
           if n / 10 =? 0 then acc' else mx_dec_aux f (n / 10) acc'
  end.
Definition mx_dec_N (n : N) : mx_bytes := mx_dec_aux (S (N.size_nat n)) n [].
Definition mx_dec (z : Z) : mx_bytes :=
  match z with
  | Z0 => [48]
  | Zpos p => mx_dec_N (Npos p)
  | Zneg p => 45 :: mx_dec_N (Npos p)
  end.

(* Array::ToString / Dictionary::ToString print config-writer text; that text is outside the model.
   The sentinel below makes any use of it visible as a correspondence mismatch. *)
Definition mx_unmodelled : mx_bytes := Eval compute in 0 :: mx_of_string "unmodelled".

(* Value::operator String *)
Definition mx_to_string (v : mxv) : mx_bytes :=
  match v with
  | MxEmpty => []
  | MxBool true => mx_s_true
  | MxBool false => mx_s_false
  | MxNum z => mx_dec z
  | MxStr s => s
  | MxArr _ | MxDict _ => mx_unmodelled
  end.

(* ---------- string helpers ---------- *)

(* [Some (before, after)] around the first occurrence of [c] *)
Fixpoint mx_split_at (c : N) (s : mx_bytes) : option (mx_bytes * mx_bytes) :=
  match s with
  | [] => None
  | x :: t =>
      if x =? c then Some ([], t)
      else match mx_split_at c t with
           | Some (a, b) => Some (x :: a, b)
           | None => None
           end
  end.

Fixpoint mx_mem (c : N) (s : mx_bytes) : bool :=
  match s with [] => false | x :: t => (x =? c) || mx_mem c t end.

(* boost::split(.., is_any_of(seps)) without token compression: always at least one token *)
Fixpoint mx_split_any (seps : mx_bytes) (s : mx_bytes) (cur : mx_bytes) : list mx_bytes :=
  match s with
  | [] => [rev cur]
  | x :: t => if mx_mem x seps then rev cur :: mx_split_any seps t [] else mx_split_any seps t (x :: cur)
  end.

Fixpoint mx_join (sep : mx_bytes) (l : list mx_bytes) : mx_bytes :=
  match l with
  | [] => []
  | [a] => a
  | a :: r => a ++ sep ++ mx_join sep r
  end.

(* std::isspace in the classic locale (boost::algorithm::trim) *)
Definition mx_is_space (c : N) : bool := (c =? 32) || ((9 <=? c) && (c <=? 13)).

Fixpoint mx_trim_left (s : mx_bytes) : mx_bytes :=
  match s with
  | x :: t => if mx_is_space x then mx_trim_left t else s
  | [] => []
  end.
Definition mx_trim_right (s : mx_bytes) : mx_bytes := rev (mx_trim_left (rev s)).
Definition mx_trim (s : mx_bytes) : mx_bytes := mx_trim_right (mx_trim_left s).

(* index of the last occurrence of "::" (String::RFind) *)
Fixpoint mx_rfind_cc (s : mx_bytes) (i : nat) (last : option nat) : option nat :=
  match s with
  | c1 :: t =>
      let last' := match t with
                   | c2 :: _ => if (c1 =? mx_ch_colon) && (c2 =? mx_ch_colon) then Some i else last
                   | [] => last
                   end in
      mx_rfind_cc t (S i) last'
  | [] => last
  end.

(* lexical_cast of a string to a number, integers only: optional sign, at least one digit *)
Fixpoint mx_digits (s : mx_bytes) (acc : Z) : option Z :=
  match s with
  | [] => Some acc
  | c :: t => if (48 <=? c) && (c <=? 57) then mx_digits t (10 * acc + Z.of_N (c - 48))%Z else None
  end.
Definition mx_parse_int (s : mx_bytes) : option Z :=
  match s with
  | [] => None
  | c :: t =>
      if c =? 45 then match t with [] => None | _ => option_map Z.opp (mx_digits t 0%Z) end
      else if c =? 43 then match t with [] => None | _ => mx_digits t 0%Z end
      else mx_digits s 0%Z
  end.

(* Value -> long as Convert::ToLong does it for a string (lexical_cast<double>, then truncation), reduced to
   what set_if needs - "is the result non-zero" - and to plain decimal notation: optional sign, digits with
   an optional '.', at least one digit.  Exponents, "inf" and "nan" are not modelled. *)
Fixpoint mx_all_digits (s : mx_bytes) : bool :=
  match s with [] => true | c :: t => (48 <=? c) && (c <=? 57) && mx_all_digits t end.
Fixpoint mx_some_nonzero (s : mx_bytes) : bool :=
  match s with [] => false | c :: t => negb (c =? 48) || mx_some_nonzero t end.
Definition mx_parse_truth (s : mx_bytes) : option bool :=
  let body := match s with c :: t => if (c =? 45) || (c =? 43) then t else s | [] => s end in
  let '(ip, fp) := match mx_split_at mx_ch_dot body with Some (a, b) => (a, b) | None => (body, []) end in
  if mx_all_digits ip && mx_all_digits fp && negb (Nat.eqb (List.length ip + List.length fp) 0)
  then Some (mx_some_nonzero ip) else None.

(* upper-case hexadecimal without prefix (std::hex << std::uppercase) *)
Definition mx_hexdigit (d : N) : N := if d <? 10 then 48 + d else 55 + d.
Fixpoint mx_hex_aux (fuel : nat) (n : N) (acc : mx_bytes) : mx_bytes :=
  match fuel with
  | O => acc
  | S f => let acc' := mx_hexdigit (n mod 16) :: acc in
           if n / 16 =? 0 then acc' else mx_hex_aux f (n / 16) acc'
  end.
Definition mx_hex (n : N) : mx_bytes := mx_hex_aux (S (N.size_nat n)) n [].

(* does [m] occur in [s] (String::Contains) *)
Fixpoint mx_is_prefix (m s : mx_bytes) : bool :=
  match m, s with
  | [], _ => true
  | x :: m', y :: s' => (x =? y) && mx_is_prefix m' s'
  | _ :: _, [] => false
  end.
Fixpoint mx_contains (m s : mx_bytes) : bool :=
  mx_is_prefix m s || match s with [] => false | _ :: t => mx_contains m t end.
