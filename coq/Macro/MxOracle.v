(* C09 - the executable property oracle that is run over the IMPLEMENTATION's observations.
   It judges an observation against what the theorems of MxProofs establish: the argv / shell string
   / failure ResolveArguments must produce, the argv the plugin must receive, and the state / exit
   status / output / perfdata that must end up in the check result. *)
From Icv Require Import Base.Tac Macro.MxDefs Macro.MxModel.
From Coq Require Import NArith.
Local Open Scope N_scope.

Fixpoint mx_list_beq (a b : list mx_bytes) : bool :=
  match a, b with
  | [], [] => true
  | x :: a', y :: b' => mx_beq x y && mx_list_beq a' b'
  | _, _ => false
  end.

(* equality of ResolveArguments outcomes up to the kind of exception *)
Definition mx_cmdres_beq (a b : mx_cmdres) : bool :=
  match a, b with
  | MxCmdArr x, MxCmdArr y => mx_list_beq x y
  | MxCmdStr x, MxCmdStr y => mx_beq x y
  | MxCmdThrow _, MxCmdThrow _ => true
  | _, _ => false
  end.

(* codes: 1 failure expected but a command line was produced, 2 unexpected failure,
          3 array/string kind differs, 4 number of argv elements differs, 5 argv content differs,
          6 shell string differs *)
Definition mx_cmdres_code (expected observed : mx_cmdres) : Z :=
  match expected, observed with
  | MxCmdThrow _, _ => 1%Z
  | _, MxCmdThrow _ => 2%Z
  | MxCmdArr x, MxCmdArr y => if Nat.eqb (length x) (length y) then 5%Z else 4%Z
  | MxCmdStr _, MxCmdStr _ => 6%Z
  | _, _ => 3%Z
  end.

Definition mx_oracle_resolve (env : list mx_level) (command : mxv) (arguments : option (list mx_argspec))
           (observed : mx_cmdres) : option Z :=
  let expected := mx_resolve_arguments env command arguments in
  if mx_cmdres_beq expected observed then None else Some (mx_cmdres_code expected observed).

(* what one real execution shows *)
Record mx_obs_exec := {
  mx_oe_argv : option (list mx_bytes);          (* None: the plugin was not started *)
  mx_oe_state : Z;
  mx_oe_exit : Z;
  mx_oe_out : option (mx_bytes * list mx_bytes)  (* output, perfdata; None: not compared *)
}.

Definition mx_argv_beq (expected : mx_argv) (observed : option (list mx_bytes)) : bool :=
  match expected, observed with
  | MxArgv x, Some y => mx_list_beq x y
  | MxArgvNone, None => true
  | _, _ => false
  end.

Definition mx_exec_check (env : list mx_level) (command : mxv) (arguments : option (list mx_argspec))
           (plugin_exit : Z) (plugin_out : mx_bytes) (o : mx_obs_exec) : option Z :=
  let r := mx_resolve_arguments env command arguments in
  if negb (mx_argv_beq (mx_plugin_argv r) (mx_oe_argv o)) then
    Some (match mx_plugin_argv r with
          | MxArgvNone => 11      (* a failed resolution must not start the plugin *)
          | MxArgvUnknown => 12   (* shell string outside the modelled fragment: generator error *)
          | MxArgv _ => match r with MxCmdStr _ => 13 | _ => 14 end   (* 13: through sh, 14: execvp *)
          end)%Z
  else
    match r with
    | MxCmdThrow _ =>
        if Z.eqb (mx_oe_state o) 3 && Z.eqb (mx_oe_exit o) 3 then None else Some 15%Z  (* failure => UNKNOWN *)
    | _ =>
        let c := mx_finish plugin_exit plugin_out in
        if negb (Z.eqb (mx_oe_exit o) plugin_exit) then Some 16%Z
        else if negb (Z.eqb (mx_oe_state o) (mx_cr_state c)) then Some 17%Z
        else match mx_oe_out o with
             | None => None
             | Some (text, pd) =>
                 if negb (mx_beq text (mx_cr_output c)) then Some 18%Z
                 else if negb (mx_list_beq pd (mx_cr_perfdata c)) then Some 19%Z
                 else None
             end
    end.

Definition mx_oracle_exec := mx_exec_check.

(* the model's own observation of an execution *)
Definition mx_observe_exec (env : list mx_level) (command : mxv) (arguments : option (list mx_argspec))
           (plugin_exit : Z) (plugin_out : mx_bytes) : mx_obs_exec :=
  let r := mx_resolve_arguments env command arguments in
  match r with
  | MxCmdThrow _ => {| mx_oe_argv := None; mx_oe_state := 3; mx_oe_exit := 3; mx_oe_out := None |}
  | _ =>
      let c := mx_finish plugin_exit plugin_out in
      {| mx_oe_argv := match mx_plugin_argv r with MxArgv l => Some l | _ => None end;
         mx_oe_state := mx_cr_state c; mx_oe_exit := mx_cr_exit c;
         mx_oe_out := Some (mx_cr_output c, mx_cr_perfdata c) |}
  end.

(* pure functions *)
Definition mx_oracle_escape (v observed : mx_bytes) : option Z :=
  if mx_beq observed (mx_escape_shell_arg v) then
    (* and the shell reads it back as exactly one word equal to v *)
    match mx_sh_split observed with
    | Some [w] => if mx_beq w v then None else Some 21%Z
    | _ => if mx_mem 0 v then None else Some 21%Z
    end
  else Some 20%Z.

Definition mx_oracle_exit (st observed : Z) : option Z :=
  if Z.eqb observed (mx_exit_to_state st) then None else Some 30%Z.

Definition mx_oracle_output (output text perf : mx_bytes) (pd : list mx_bytes) : option Z :=
  let '(t, p) := mx_parse_check_output output in
  if negb (mx_beq t text) then Some 40%Z
  else if negb (mx_beq p perf) then Some 41%Z
  else if negb (mx_list_beq pd (mx_split_perfdata p)) then Some 42%Z
  else None.

(* timeout scenarios: [evs] is the course of DoEvents calls the scenario forces; observed are state, exit status
   and whether the stored output carries the marker.  Codes: 50 not UNKNOWN/128, 51 marker missing or spurious *)
Definition mx_oracle_timeout (evs : list mx_pev) (state exit_status : Z) (marker : bool) : option Z :=
  match mx_timeout_observe evs with
  | Some (s, e, m) =>
      if negb (Z.eqb s state && Z.eqb e exit_status) then Some 50%Z
      else if negb (Bool.eqb m marker) then Some 51%Z else None
  | None => Some 52%Z
  end.
