(* C09 - proofs about the model of MxModel.v. *)
From Icv Require Import Base.Tac Macro.MxDefs Macro.MxModel.
From Coq Require Import NArith Permutation Sorted.
Local Open Scope N_scope.

(* ------------------------------------------------------------------ basics *)

Lemma mx_beq_refl a : mx_beq a a = true.
Proof. induction a; cbn; [reflexivity|]. rewrite N.eqb_refl. exact IHa. Qed.

Lemma mx_beq_eq a b : mx_beq a b = true <-> a = b.
Proof.
  split.
  - revert b. induction a as [|x a IH]; destruct b as [|y b]; cbn; try discriminate; [reflexivity|].
    intros H. apply andb_true_iff in H as [H1 H2]. apply N.eqb_eq in H1. f_equal; auto.
  - intros ->. apply mx_beq_refl.
Qed.

Lemma mx_mem_In c s : mx_mem c s = true <-> In c s.
Proof.
  induction s as [|x s IH]; cbn; [split; [discriminate|tauto]|].
  rewrite orb_true_iff, IH, N.eqb_eq. tauto.
Qed.

Lemma mx_mem_false c s : mx_mem c s = false <-> ~ In c s.
Proof. rewrite <- mx_mem_In. destruct (mx_mem c s); split; intros; try discriminate; try reflexivity; exfalso; auto. Qed.

(* ------------------------------------------------------------------ exit status *)

Lemma mx_exit_map st :
  (st = 0 -> mx_exit_to_state st = 0)%Z /\ (st = 1 -> mx_exit_to_state st = 1)%Z /\
  (st = 2 -> mx_exit_to_state st = 2)%Z /\ (st = 3 -> mx_exit_to_state st = 3)%Z /\
  (st <> 0 -> st <> 1 -> st <> 2 -> mx_exit_to_state st = 3)%Z.
Proof.
  unfold mx_exit_to_state. repeat split; intros; subst; try reflexivity.
  destruct (Z.eqb_spec st 0); [contradiction|]. destruct (Z.eqb_spec st 1); [contradiction|].
  destruct (Z.eqb_spec st 2); [contradiction|]. reflexivity.
Qed.

(* a failed resolution is reported as UNKNOWN and never starts the plugin *)
Lemma mx_throw_unknown e plugin_exit :
  mx_exec_state (MxCmdThrow e) plugin_exit = 3%Z /\ mx_plugin_argv (MxCmdThrow e) = MxArgvNone.
Proof. split; reflexivity. Qed.

(* ------------------------------------------------------------------ shell quoting *)

Definition mx_sh_glue (st : mx_shst) (v : mx_bytes) : mx_shst :=
  {| mx_sh_words := mx_sh_words st;
     mx_sh_cur := Some (match mx_sh_cur st with Some w => w ++ v | None => v end);
     mx_sh_mode := MxShU |}.

Lemma mx_sh_run_app st a b :
  mx_sh_run st (a ++ b) = match mx_sh_run st a with Some st' => mx_sh_run st' b | None => None end.
Proof.
  revert st. induction a as [|c a IH]; intros st; cbn; [reflexivity|].
  destruct (mx_sh_step st c); [apply IH|reflexivity].
Qed.

Lemma mx_sh_stepQ_other ws w c :
  c <> 39 -> c <> 0 ->
  mx_sh_step {| mx_sh_words := ws; mx_sh_cur := Some w; mx_sh_mode := MxShQ |} c =
  Some {| mx_sh_words := ws; mx_sh_cur := Some (w ++ [c]); mx_sh_mode := MxShQ |}.
Proof.
  intros H1 H2. unfold mx_sh_step. cbn [mx_sh_mode mx_sh_words mx_sh_cur]. unfold mx_ch_squote.
  apply N.eqb_neq in H1, H2. rewrite H1, H2. reflexivity.
Qed.

Lemma mx_sh_stepQ_quote4 ws w :
  mx_sh_run {| mx_sh_words := ws; mx_sh_cur := Some w; mx_sh_mode := MxShQ |} [39; 92; 39; 39] =
  Some {| mx_sh_words := ws; mx_sh_cur := Some (w ++ [39]); mx_sh_mode := MxShQ |}.
Proof. reflexivity. Qed.

(* inside single quotes the escaped body appends exactly v *)
Lemma mx_sh_body ws w v :
  ~ In 0 v ->
  mx_sh_run {| mx_sh_words := ws; mx_sh_cur := Some w; mx_sh_mode := MxShQ |} (mx_esc_body v) =
  Some {| mx_sh_words := ws; mx_sh_cur := Some (w ++ v); mx_sh_mode := MxShQ |}.
Proof.
  revert w. induction v as [|c v IH]; intros w Hn.
  - cbn. rewrite app_nil_r. reflexivity.
  - assert (c <> 0) as Hc by (intros ->; apply Hn; left; reflexivity).
    assert (~ In 0 v) as Hv by (intros H; apply Hn; right; exact H).
    cbn [mx_esc_body]. unfold mx_ch_squote, mx_ch_bslash. destruct (N.eqb_spec c 39) as [->|Hq].
    + change (39 :: 92 :: 39 :: 39 :: mx_esc_body v) with ([39; 92; 39; 39] ++ mx_esc_body v).
      rewrite mx_sh_run_app, mx_sh_stepQ_quote4. cbv beta iota. rewrite IH by exact Hv. rewrite <- app_assoc. reflexivity.
    + cbn [mx_sh_run]. rewrite (mx_sh_stepQ_other ws w c Hq Hc). cbv beta iota. rewrite IH by exact Hv. rewrite <- app_assoc. reflexivity.
Qed.

Lemma mx_sh_escape st v :
  mx_sh_mode st = MxShU -> ~ In 0 v ->
  mx_sh_run st (mx_escape_shell_arg v) = Some (mx_sh_glue st v).
Proof.
  intros Hm Hn. unfold mx_escape_shell_arg, mx_ch_squote.
  change (39 :: mx_esc_body v ++ [39]) with ([39] ++ (mx_esc_body v ++ [39])).
  rewrite mx_sh_run_app.
  assert (mx_sh_run st [39] = Some {| mx_sh_words := mx_sh_words st;
            mx_sh_cur := Some (match mx_sh_cur st with Some w => w | None => [] end); mx_sh_mode := MxShQ |}) as ->.
  { cbn [mx_sh_run]. unfold mx_sh_step. rewrite Hm. reflexivity. }
  cbv beta iota. rewrite mx_sh_run_app, mx_sh_body by exact Hn. cbv beta iota.
  unfold mx_sh_glue. destruct (mx_sh_cur st); reflexivity.
Qed.

Lemma mx_string_quoting pre v post st :
  ~ In 0 v -> mx_sh_run mx_sh_init pre = Some st -> mx_sh_mode st = MxShU ->
  mx_sh_split (pre ++ mx_escape_shell_arg v ++ post) = mx_sh_split_from (mx_sh_glue st v) post.
Proof.
  intros Hn Hp Hm. unfold mx_sh_split, mx_sh_split_from.
  rewrite mx_sh_run_app, Hp, mx_sh_run_app, (mx_sh_escape st v Hm Hn). reflexivity.
Qed.

Lemma mx_sh_run_words st s st' :
  mx_sh_run st s = Some st' -> forall ws0,
  mx_sh_run {| mx_sh_words := mx_sh_words st ++ ws0; mx_sh_cur := mx_sh_cur st; mx_sh_mode := mx_sh_mode st |} s =
  Some {| mx_sh_words := mx_sh_words st' ++ ws0; mx_sh_cur := mx_sh_cur st'; mx_sh_mode := mx_sh_mode st' |}.
Proof.
  revert st. induction s as [|c s IH]; intros st H ws0; cbn in *.
  - inv H. reflexivity.
  - destruct (mx_sh_step st c) as [st1|] eqn:Hs; [|discriminate].
    assert (mx_sh_step {| mx_sh_words := mx_sh_words st ++ ws0; mx_sh_cur := mx_sh_cur st; mx_sh_mode := mx_sh_mode st |} c =
            Some {| mx_sh_words := mx_sh_words st1 ++ ws0; mx_sh_cur := mx_sh_cur st1; mx_sh_mode := mx_sh_mode st1 |}) as ->.
    { unfold mx_sh_step in *. cbn [mx_sh_mode mx_sh_cur mx_sh_words].
      destruct (mx_sh_mode st); repeat (match type of Hs with context [if ?b then _ else _] => destruct b end);
        inv Hs; cbn; try reflexivity; destruct (mx_sh_cur st); reflexivity. }
    apply IH. exact H.
Qed.

(* the value is exactly one word: template words before, the value, template words after.
   "unquoted position": the template text before the macro leaves the shell outside quotes, here
   additionally between two words *)
Lemma mx_string_quoting_words pre v post st wq :
  ~ In 0 v ->
  mx_sh_run mx_sh_init pre = Some st -> mx_sh_mode st = MxShU -> mx_sh_cur st = None ->
  mx_sh_split (mx_ch_space :: post) = Some wq ->
  mx_sh_split pre = Some (rev (mx_sh_words st)) /\
  mx_sh_split (pre ++ mx_escape_shell_arg v ++ mx_ch_space :: post) = Some (rev (mx_sh_words st) ++ [v] ++ wq).
Proof.
  intros Hn Hr Hm Hc Hq. unfold mx_sh_split, mx_sh_split_from in *. split.
  { rewrite Hr. unfold mx_sh_finish. rewrite Hm, Hc. reflexivity. }
  rewrite mx_sh_run_app, Hr, mx_sh_run_app, (mx_sh_escape st v Hm Hn).
  unfold mx_sh_glue. rewrite Hc.
  assert (forall s, mx_sh_mode s = MxShU -> mx_sh_run s (mx_ch_space :: post) =
            mx_sh_run {| mx_sh_words := match mx_sh_cur s with Some w => w :: mx_sh_words s | None => mx_sh_words s end;
                         mx_sh_cur := None; mx_sh_mode := MxShU |} post) as Hsp.
  { intros s Hs. cbn [mx_sh_run]. unfold mx_sh_step. rewrite Hs. reflexivity. }
  rewrite Hsp by reflexivity. rewrite Hsp in Hq by reflexivity.
  cbn [mx_sh_cur mx_sh_words mx_sh_init] in *.
  destruct (mx_sh_run {| mx_sh_words := []; mx_sh_cur := None; mx_sh_mode := MxShU |} post) as [sq|] eqn:Hrq; [|discriminate].
  pose proof (mx_sh_run_words _ _ _ Hrq (v :: mx_sh_words st)) as Hw. cbn [mx_sh_words mx_sh_cur mx_sh_mode app] in Hw.
  match goal with |- context [mx_sh_run ?s0 post] =>
    replace (mx_sh_run s0 post) with (Some {| mx_sh_words := mx_sh_words sq ++ v :: mx_sh_words st;
                                              mx_sh_cur := mx_sh_cur sq; mx_sh_mode := mx_sh_mode sq |})
      by (symmetry; exact Hw) end.
  unfold mx_sh_finish in *. cbn [mx_sh_mode mx_sh_cur mx_sh_words].
  destruct (mx_sh_mode sq); try discriminate. inv Hq.
  f_equal. destruct (mx_sh_cur sq).
  - rewrite app_comm_cons, rev_app_distr. cbn [rev]. rewrite <- !app_assoc. reflexivity.
  - rewrite rev_app_distr. cbn [rev]. rewrite <- !app_assoc. reflexivity.
Qed.

(* ------------------------------------------------------------------ tokens of a macro string *)

Lemma mx_tok_out_nodollar s lit : ~ In mx_ch_dollar s -> mx_tok_out s lit = [MxLit (rev lit ++ s)].
Proof.
  revert lit. induction s as [|c s IH]; intros lit H; cbn.
  - rewrite app_nil_r. reflexivity.
  - destruct (N.eqb_spec c mx_ch_dollar) as [->|_]; [exfalso; apply H; left; reflexivity|].
    rewrite IH by (intros X; apply H; right; exact X). cbn. rewrite <- app_assoc. reflexivity.
Qed.

Lemma mx_tok_out_app pre rest lit :
  ~ In mx_ch_dollar pre -> mx_tok_out (pre ++ mx_ch_dollar :: rest) lit = MxLit (rev lit ++ pre) :: mx_tok_in rest [].
Proof.
  revert lit. induction pre as [|c s IH]; intros lit H; cbn.
  - rewrite app_nil_r. reflexivity.
  - destruct (N.eqb_spec c mx_ch_dollar) as [->|_]; [exfalso; apply H; left; reflexivity|].
    rewrite IH by (intros X; apply H; right; exact X). cbn. rewrite <- app_assoc. reflexivity.
Qed.

Lemma mx_tok_in_app name rest acc :
  ~ In mx_ch_dollar name -> mx_tok_in (name ++ mx_ch_dollar :: rest) acc = MxMac (rev acc ++ name) :: mx_tok_out rest [].
Proof.
  revert acc. induction name as [|c s IH]; intros acc H; cbn.
  - rewrite app_nil_r. reflexivity.
  - destruct (N.eqb_spec c mx_ch_dollar) as [->|_]; [exfalso; apply H; left; reflexivity|].
    rewrite IH by (intros X; apply H; right; exact X). cbn. rewrite <- app_assoc. reflexivity.
Qed.

(* a string without '$' is returned unchanged *)
Lemma mx_irm_nodollar f level env esc s :
  (level <= 15)%nat -> ~ In mx_ch_dollar s -> mx_irm (S f) level env esc s = MxOk (MxStr s) false.
Proof.
  intros Hl Hs. cbn [mx_irm]. destruct (Nat.ltb_spec 15 level); [lia|].
  rewrite mx_tok_out_nodollar by exact Hs. reflexivity.
Qed.

(* a string that is exactly one macro yields that macro's value, untouched *)
Lemma mx_irm_sole f level env esc name :
  (level <= 15)%nat -> ~ In mx_ch_dollar name ->
  mx_irm (S f) level env esc (mx_ch_dollar :: name ++ [mx_ch_dollar]) =
  mx_resolve1 (mx_irm f (S level) env false) env esc name.
Proof.
  intros Hl Hn. cbn [mx_irm]. destruct (Nat.ltb_spec 15 level); [lia|].
  cbn [mx_tok_out]. rewrite N.eqb_refl. rewrite mx_tok_in_app by exact Hn. cbn [rev app mx_tok_out mx_fold].
  destruct (mx_resolve1 _ env esc name) as [v m|e]; [|reflexivity].
  cbn [length]. rewrite app_length. cbn [length Nat.eqb andb].
  replace (Nat.eqb (0 + length name + 2) (S (length name + 1))) with true by (symmetry; apply Nat.eqb_eq; lia).
  reflexivity.
Qed.

(* text, one macro, text: the macro's string lands between the two literal parts *)
Lemma mx_irm_template f level env esc pre name post :
  (level <= 15)%nat -> ~ In mx_ch_dollar pre -> ~ In mx_ch_dollar name -> ~ In mx_ch_dollar post ->
  pre ++ post <> [] ->
  forall v m, mx_resolve1 (mx_irm f (S level) env false) env esc name = MxOk (MxStr v) m ->
  mx_irm (S f) level env esc (pre ++ mx_ch_dollar :: name ++ mx_ch_dollar :: post) = MxOk (MxStr (pre ++ v ++ post)) m.
Proof.
  intros Hl Hp Hn Hq Hne v m Hr. cbn [mx_irm]. destruct (Nat.ltb_spec 15 level); [lia|].
  rewrite mx_tok_out_app by exact Hp. rewrite mx_tok_in_app by exact Hn.
  rewrite mx_tok_out_nodollar by exact Hq. cbn [rev app mx_fold]. rewrite Hr.
  replace (Nat.eqb (length pre) 0 && Nat.eqb (length pre + length name + 2) (length (pre ++ mx_ch_dollar :: name ++ mx_ch_dollar :: post))) with false.
  - cbn [mx_to_string orb]. rewrite <- app_assoc. reflexivity.
  - symmetry. apply andb_false_iff. rewrite !Nat.eqb_neq. rewrite !app_length. cbn [length]. rewrite app_length. cbn [length].
    destruct pre; [destruct post; [contradiction|right; cbn [length]; lia]|left; cbn [length]; lia].
Qed.

(* ------------------------------------------------------------------ look-up facts *)

Lemma mx_lookup_notfound macro objname tokens env r :
  mx_lookup_levels macro objname tokens env = r -> fst (fst r) = false -> r = (false, MxEmpty, false).
Proof.
  revert r. induction env as [|l env IH]; intros r H Hf; cbn in H.
  - subst. reflexivity.
  - repeat (match type of H with context [if ?b then _ else _] => destruct b
                            | context [match ?x with _ => _ end] => destruct x end);
      subst; try (apply IH; [reflexivity|exact Hf]); cbn in Hf; discriminate.
Qed.

(* `$$` is a literal dollar sign, in every environment *)
Lemma mx_dollar rec env esc :
  mx_resolve1 rec env esc [] = MxOk (if esc then MxStr (mx_escape_shell_arg [mx_ch_dollar]) else MxStr [mx_ch_dollar]) false.
Proof. unfold mx_resolve1. cbn. destruct esc; reflexivity. Qed.

(* the code before the fix 4feca083: with a custom variable named "" the replacement "$" was handed to the
   recursive resolver (which throws "Closing $ not found") *)
Definition mx_dollar_witness_env : list mx_level :=
  [ {| mx_lv_name := [104]; mx_lv_short := true; mx_lv_vars := Some [([], MxStr [120])]; mx_lv_macros := []; mx_lv_fields := [] |} ].

Lemma mx_dollar_pre_fix_refuted rec :
  mx_resolve1_pre_fix rec mx_dollar_witness_env false [] =
  match rec [mx_ch_dollar] with MxThrow e => MxThrow e | MxOk v m => MxOk v m end /\
  mx_irm 1 3 mx_dollar_witness_env false [mx_ch_dollar] = MxThrow MxErrUnclosed.
Proof. split; [|reflexivity]. unfold mx_resolve1_pre_fix. cbn. destruct (rec [mx_ch_dollar]); reflexivity. Qed.

Lemma mx_dollar_string f level env pre post :
  (level <= 15)%nat -> ~ In mx_ch_dollar pre -> ~ In mx_ch_dollar post ->
  mx_irm (S f) level env false (pre ++ mx_ch_dollar :: mx_ch_dollar :: post) = MxOk (MxStr (pre ++ mx_ch_dollar :: post)) false.
Proof.
  intros Hl Hp Hq. destruct (list_eq_dec N.eq_dec (pre ++ post) []) as [E|E].
  - apply app_eq_nil in E as [-> ->]. change ([] ++ [mx_ch_dollar; mx_ch_dollar]) with (mx_ch_dollar :: [] ++ [mx_ch_dollar]).
    rewrite mx_irm_sole by (auto; intros []). apply mx_dollar.
  - change (mx_ch_dollar :: mx_ch_dollar :: post) with (mx_ch_dollar :: [] ++ mx_ch_dollar :: post).
    rewrite (mx_irm_template f level env false pre [] post Hl Hp (fun x => x) Hq E [mx_ch_dollar] false).
    + reflexivity.
    + apply (mx_dollar _ env false).
Qed.

(* ------------------------------------------------------------------ termination *)

Definition mx_is_fuel_err (r : mx_res) : Prop := r = MxThrow MxErrFuel.

Lemma mx_resolve_elems_ext rec1 rec2 l :
  (forall s, rec1 s = rec2 s) -> mx_resolve_elems rec1 l = mx_resolve_elems rec2 l.
Proof. intros H. induction l as [|v l IH]; cbn; [reflexivity|]. rewrite H, IH. reflexivity. Qed.

Lemma mx_resolve1_ext rec1 rec2 env esc name :
  (forall s, rec1 s = rec2 s) -> mx_resolve1 rec1 env esc name = mx_resolve1 rec2 env esc name.
Proof.
  intros H. unfold mx_resolve1, mx_resolve1_with.
  destruct (if mx_beq name [] then _ else _) as [[f0 v0] rc].
  destruct rc; [|reflexivity]. destruct v0; try reflexivity.
  - rewrite H. reflexivity.
  - rewrite (mx_resolve_elems_ext rec1 rec2) by exact H. reflexivity.
Qed.

Lemma mx_fold_ext r1 r2 strlen toks acc miss :
  (forall n, r1 n = r2 n) -> mx_fold r1 strlen toks acc miss = mx_fold r2 strlen toks acc miss.
Proof.
  intros H. revert acc miss. induction toks as [|t toks IH]; intros acc miss; cbn; [reflexivity|].
  destruct t; [apply IH| |reflexivity]. rewrite H. destruct (r2 name); [|reflexivity].
  destruct (_ && _); [reflexivity|]. destruct v; try apply IH. reflexivity.
Qed.

Lemma mx_resolve_elems_nofuel rec l e :
  (forall s, rec s <> MxThrow MxErrFuel) -> mx_resolve_elems rec l = inr e -> e <> MxErrFuel.
Proof.
  intros H. revert e. induction l as [|v l IH]; intros e; cbn; [discriminate|].
  destruct (mx_is_scalar v).
  - destruct (rec (mx_to_string v)) eqn:Hr.
    + destruct (mx_resolve_elems rec l) as [[? ?]|e']; [discriminate|]. intros X; inv X. apply IH; reflexivity.
    + intros X; inv X. intros ->. apply (H _ Hr).
  - destruct (mx_resolve_elems rec l) as [[? ?]|e']; [discriminate|]. intros X; inv X. apply IH; reflexivity.
Qed.

Lemma mx_resolve1_nofuel rec env esc name :
  (forall s, rec s <> MxThrow MxErrFuel) -> mx_resolve1 rec env esc name <> MxThrow MxErrFuel.
Proof.
  intros H. unfold mx_resolve1, mx_resolve1_with.
  destruct (if mx_beq name [] then _ else _) as [[f0 v0] rc].
  destruct rc; [|destruct esc; discriminate].
  destruct v0; try (destruct esc; discriminate).
  - destruct (rec s) eqn:Hr; [discriminate|]. intros X; inv X. apply (H _ Hr).
  - destruct (mx_resolve_elems rec l) as [[? ?]|e] eqn:He; [discriminate|].
    intros X; inv X. apply (mx_resolve_elems_nofuel rec l _ H He). reflexivity.
Qed.

Lemma mx_fold_nofuel r1 strlen toks acc miss :
  (forall n, r1 n <> MxThrow MxErrFuel) -> mx_fold r1 strlen toks acc miss <> MxThrow MxErrFuel.
Proof.
  intros H. revert acc miss. induction toks as [|t toks IH]; intros acc miss; cbn; [discriminate|].
  destruct t; [apply IH| |discriminate]. destruct (r1 name) eqn:Hr; [|intros X; inv X; apply (H _ Hr)].
  destruct (_ && _); [discriminate|]. destruct v; try apply IH. discriminate.
Qed.

(* the recursion counter bounds the nesting: any fuel above 16 - level gives the same result, and the
   artificial out-of-fuel outcome never occurs *)
Lemma mx_terminates env :
  forall f1 f2 level esc s, (16 - level < f1)%nat -> (16 - level < f2)%nat ->
  mx_irm f1 level env esc s = mx_irm f2 level env esc s /\ mx_irm f1 level env esc s <> MxThrow MxErrFuel.
Proof.
  induction f1 as [|f1 IH]; intros f2 level esc s H1 H2; [lia|].
  destruct f2 as [|f2]; [lia|]. cbn [mx_irm].
  destruct (Nat.ltb_spec 15 level) as [Hl|Hl]; [split; [reflexivity|discriminate]|].
  assert (forall x, mx_irm f1 (S level) env false x = mx_irm f2 (S level) env false x /\
                    mx_irm f1 (S level) env false x <> MxThrow MxErrFuel) as Hrec.
  { intros x. apply IH; lia. }
  split.
  - apply mx_fold_ext. intros n. apply mx_resolve1_ext. intros x. apply Hrec.
  - apply mx_fold_nofuel. intros n. apply mx_resolve1_nofuel. intros x. apply Hrec.
Qed.

Lemma mx_fuel_enough level : (2 <= level)%nat -> (16 - level < mx_fuel)%nat.
Proof. unfold mx_fuel. lia. Qed.

(* ------------------------------------------------------------------ argument values *)

Definition mx_macro_str (name : mx_bytes) : mxv := MxStr (mx_ch_dollar :: name ++ [mx_ch_dollar]).

Lemma mx_rm_sole env name :
  ~ In mx_ch_dollar name ->
  mx_resolve_macros 1 env false (mx_macro_str name) = mx_resolve1 (mx_irm 19 3 env false) env false name.
Proof.
  intros H. unfold mx_resolve_macros, mx_macro_str. cbn [mx_is_empty mx_to_string].
  change mx_fuel with (S 19). apply mx_irm_sole; [lia|exact H].
Qed.

Lemma mx_resolve_macro_notfound env name :
  fst (fst (mx_resolve_macro env name)) = false -> mx_resolve_macro env name = (false, MxEmpty, false).
Proof.
  unfold mx_resolve_macro. intros H.
  destruct (mx_split_any [mx_ch_dot] name []) as [|t0 [|t1 r]]; eapply mx_lookup_notfound; try reflexivity; exact H.
Qed.

Lemma mx_resolve1_missing rec env name :
  name <> [] -> fst (fst (mx_resolve_macro env name)) = false -> mx_resolve1 rec env false name = MxOk MxEmpty true.
Proof.
  intros Hn H. unfold mx_resolve1. destruct name; [contradiction|]. cbn [mx_beq].
  rewrite (mx_resolve_macro_notfound env _ H). reflexivity.
Qed.

Lemma mx_resolve1_found_str env name v recur :
  name <> [] -> mx_resolve_macro env name = (true, MxStr v, recur) -> (recur = true -> ~ In mx_ch_dollar v) ->
  mx_resolve1 (mx_irm 19 3 env false) env false name = MxOk (MxStr v) false.
Proof.
  intros Hn H Hd. unfold mx_resolve1. destruct name; [contradiction|]. cbn [mx_beq]. rewrite H.
  unfold mx_resolve1_with. cbn [negb].
  destruct recur; [|reflexivity]. change 19%nat with (S 18). rewrite mx_irm_nodollar by (auto; lia). reflexivity.
Qed.

Definition mx_set_if_absent (a : mx_argspec) : Prop := mx_is_empty (mx_as_set_if a) = true.

(* a missing optional macro: the argument is skipped ... *)
Lemma mx_arg_step_missing env a name :
  ~ In mx_ch_dollar name -> name <> [] -> fst (fst (mx_resolve_macro env name)) = false ->
  mx_as_value a = mx_macro_str name -> mx_set_if_absent a ->
  mx_arg_step 0 env a = if mx_as_isdict a && mx_as_required a then MxArgThrow MxErrRequired else MxArgSkip.
Proof.
  intros Hd Hn Hm Hv Hs. unfold mx_arg_step. rewrite Hs, Hv. rewrite andb_false_r.
  rewrite mx_rm_sole by exact Hd. rewrite mx_resolve1_missing by assumption. reflexivity.
Qed.

Lemma mx_collect_skip env pre a post :
  mx_arg_step 0 env a = MxArgSkip -> mx_collect 0 env (pre ++ a :: post) = mx_collect 0 env (pre ++ post).
Proof.
  intros H. induction pre as [|b pre IH]; cbn; [rewrite H; reflexivity|]. rewrite IH. reflexivity.
Qed.

Lemma mx_collect_throw env pre a post e :
  mx_arg_step 0 env a = MxArgThrow e -> exists e', mx_collect 0 env (pre ++ a :: post) = inr e'.
Proof.
  intros H. induction pre as [|b pre [e' IH]]; cbn; [rewrite H; eauto|].
  rewrite IH. destruct (mx_arg_step 0 env b); eauto.
Qed.

Lemma mx_resolve_arguments_skip env cmd pre a post :
  mx_arg_step 0 env a = MxArgSkip ->
  mx_resolve_arguments env cmd (Some (pre ++ a :: post)) = mx_resolve_arguments env cmd (Some (pre ++ post)).
Proof. intros H. unfold mx_resolve_arguments. rewrite (mx_collect_skip env pre a post H). reflexivity. Qed.

Lemma mx_resolve_arguments_throw env cmd args e :
  mx_collect 0 env args = inr e -> exists e', mx_resolve_arguments env cmd (Some args) = MxCmdThrow e'.
Proof.
  intros H. unfold mx_resolve_arguments. rewrite H.
  destruct cmd; cbn; try (eexists; reflexivity);
    match goal with |- context [match ?x with MxOk _ _ => _ | MxThrow _ => _ end] => destruct x end; eexists; reflexivity.
Qed.

(* ------------------------------------------------------------------ the argv of array command lines *)

Lemma mx_arg_step_simple env a name v recur :
  ~ In mx_ch_dollar name -> name <> [] ->
  mx_resolve_macro env name = (true, MxStr v, recur) -> (recur = true -> ~ In mx_ch_dollar v) ->
  mx_as_isdict a = true -> mx_as_value a = mx_macro_str name -> mx_set_if_absent a ->
  mx_arg_step 0 env a =
  MxArgPush {| mx_ca_order := mx_as_order a; mx_ca_skip_key := mx_as_skip_key a; mx_ca_repeat_key := mx_as_repeat_key a;
               mx_ca_skip_value := false;
               mx_ca_key := match mx_as_key a with Some k => k | None => mx_as_name a end;
               mx_ca_sep := mx_as_sep a; mx_ca_value := MxStr v |}.
Proof.
  intros Hd Hn Hl Hr Hi Hv Hs. unfold mx_arg_step. rewrite Hs, Hv, Hi. cbn [andb negb].
  rewrite mx_rm_sole by exact Hd. rewrite (mx_resolve1_found_str env name v recur Hn Hl Hr). reflexivity.
Qed.

(* the elements one string value contributes *)
Definition mx_spec_words (key : mx_bytes) (sep : option mx_bytes) (skip_key : bool) (v : mx_bytes) : list mx_bytes :=
  if skip_key then [v] else match sep with Some s => [key ++ s ++ v] | None => [key; v] end.

Lemma mx_emit_string c v :
  mx_ca_value c = MxStr v -> mx_ca_skip_value c = false ->
  mx_emit c = mx_spec_words (mx_ca_key c) (mx_ca_sep c) (mx_ca_skip_key c) v.
Proof.
  intros Hv Hs. unfold mx_emit, mx_add_arg, mx_spec_words. rewrite Hv, Hs. cbn [mx_to_string negb].
  destruct (mx_ca_skip_key c), (mx_ca_sep c); reflexivity.
Qed.

Lemma mx_emit_flag c :
  mx_ca_value c = MxEmpty -> mx_ca_skip_value c = true ->
  mx_emit c = if mx_ca_skip_key c then [] else [mx_ca_key c].
Proof.
  intros Hv Hs. unfold mx_emit, mx_add_arg. rewrite Hv, Hs. cbn [negb andb].
  destruct (mx_ca_skip_key c), (mx_ca_sep c); reflexivity.
Qed.

Lemma mx_emit_arr_strings c first vs :
  mx_ca_skip_value c = false ->
  mx_emit_arr c first (List.map MxStr vs) =
  match vs with
  | [] => []
  | v0 :: r =>
      mx_spec_words (mx_ca_key c) (mx_ca_sep c) (if first then mx_ca_skip_key c else mx_ca_skip_key c || negb (mx_ca_repeat_key c)) v0 ++
      flat_map (mx_spec_words (mx_ca_key c) (mx_ca_sep c) (mx_ca_skip_key c || negb (mx_ca_repeat_key c))) r
  end.
Proof.
  intros Hs. revert first. induction vs as [|v vs IH]; intros first; [reflexivity|].
  cbn [List.map mx_emit_arr]. rewrite IH. rewrite Hs. cbn [negb mx_to_string].
  f_equal.
  - unfold mx_add_arg, mx_spec_words. destruct first, (mx_ca_skip_key c), (mx_ca_repeat_key c), (mx_ca_sep c); reflexivity.
  - destruct vs; reflexivity.
Qed.

Lemma mx_emit_array c vs :
  mx_ca_value c = MxArr (List.map MxStr vs) -> mx_ca_skip_value c = false ->
  mx_emit c =
  match vs with
  | [] => []
  | v0 :: r => mx_spec_words (mx_ca_key c) (mx_ca_sep c) (mx_ca_skip_key c) v0 ++
               flat_map (mx_spec_words (mx_ca_key c) (mx_ca_sep c) (mx_ca_skip_key c || negb (mx_ca_repeat_key c))) r
  end.
Proof. intros Hv Hs. unfold mx_emit. rewrite Hv. apply (mx_emit_arr_strings c true vs Hs). Qed.

(* the sort: a stable permutation into ascending order *)
Definition mx_ord_le (a b : mx_carg) : Prop := (mx_ca_order a <= mx_ca_order b)%Z.

Lemma mx_insert_perm c l : Permutation (mx_insert c l) (c :: l).
Proof.
  induction l as [|d l IH]; cbn; [reflexivity|].
  destruct (Z.ltb _ _); [|reflexivity]. rewrite IH. apply perm_swap.
Qed.

Lemma mx_sort_perm l : Permutation (mx_sort l) l.
Proof. induction l as [|c l IH]; cbn; [reflexivity|]. rewrite mx_insert_perm. constructor. exact IH. Qed.

Lemma mx_insert_sorted c l : StronglySorted mx_ord_le l -> StronglySorted mx_ord_le (mx_insert c l).
Proof.
  induction 1 as [|d l Hs IH Hd]; cbn; [repeat constructor|].
  destruct (Z.ltb_spec (mx_ca_order d) (mx_ca_order c)) as [Hlt|Hge].
  - constructor; [exact IH|]. rewrite Forall_forall in *. intros x Hx.
    apply (Permutation_in _ (mx_insert_perm c l)) in Hx. destruct Hx as [<-|Hx]; [unfold mx_ord_le; lia|auto].
  - constructor; [constructor; assumption|]. constructor; [exact Hge|].
    rewrite Forall_forall in *. intros x Hx. specialize (Hd x Hx). unfold mx_ord_le in *. lia.
Qed.

Lemma mx_sort_sorted l : StronglySorted mx_ord_le (mx_sort l).
Proof. induction l; cbn; [constructor|]. apply mx_insert_sorted. assumption. Qed.

Lemma mx_insert_stable o c l :
  StronglySorted mx_ord_le l ->
  filter (fun x => Z.eqb (mx_ca_order x) o) (mx_insert c l) = filter (fun x => Z.eqb (mx_ca_order x) o) (c :: l).
Proof.
  induction 1 as [|d l Hs IH Hd]; [reflexivity|]. cbn [mx_insert].
  destruct (Z.ltb_spec (mx_ca_order d) (mx_ca_order c)) as [Hlt|Hge]; [|reflexivity].
  cbn [filter] in *. rewrite IH.
  destruct (Z.eqb_spec (mx_ca_order d) o), (Z.eqb_spec (mx_ca_order c) o); try reflexivity. lia.
Qed.

Lemma mx_sort_stable o l :
  filter (fun x => Z.eqb (mx_ca_order x) o) (mx_sort l) = filter (fun x => Z.eqb (mx_ca_order x) o) l.
Proof.
  induction l as [|c l IH]; [reflexivity|]. cbn [mx_sort]. rewrite mx_insert_stable by apply mx_sort_sorted.
  cbn [filter]. rewrite IH. reflexivity.
Qed.

Lemma mx_rm_array_literals irm lits :
  (forall l, In l lits -> irm l = MxOk (MxStr l) false) ->
  mx_rm_array irm (List.map MxStr lits) = inl (List.map MxStr lits, false).
Proof.
  induction lits as [|l lits IH]; intros H; [reflexivity|]. cbn [List.map mx_rm_array mx_to_string].
  rewrite (H l) by (left; reflexivity). rewrite IH by (intros x Hx; apply H; right; exact Hx). reflexivity.
Qed.

Lemma mx_map_to_string lits : List.map mx_to_string (List.map MxStr lits) = lits.
Proof. induction lits; cbn; [reflexivity|]. f_equal. assumption. Qed.

(* array command line of literal words + argument definitions: the argv is the literal words followed
   by the groups of the collected arguments in stable ascending `order` *)
Lemma mx_array_argv env lits args cargs :
  Forall (fun l => ~ In mx_ch_dollar l) lits ->
  mx_collect 0 env args = inl cargs ->
  mx_resolve_arguments env (MxArr (List.map MxStr lits)) (Some args) = MxCmdArr (lits ++ flat_map mx_emit (mx_sort cargs)).
Proof.
  intros Hl Hc. unfold mx_resolve_arguments, mx_resolve_macros. cbn [mx_is_empty].
  rewrite mx_rm_array_literals.
  - rewrite Hc, mx_map_to_string. reflexivity.
  - intros l Hin. rewrite Forall_forall in Hl. change mx_fuel with (S 19). apply mx_irm_nodollar; [lia|auto].
Qed.

(* an element of an array command line that is exactly one macro with a string value is that value *)
Lemma mx_array_element env name v recur pre post :
  ~ In mx_ch_dollar name -> name <> [] ->
  mx_resolve_macro env name = (true, MxStr v, recur) -> (recur = true -> ~ In mx_ch_dollar v) ->
  Forall (fun l => ~ In mx_ch_dollar l) pre -> Forall (fun l => ~ In mx_ch_dollar l) post ->
  mx_resolve_arguments env (MxArr (List.map MxStr pre ++ mx_macro_str name :: List.map MxStr post)) None =
  MxCmdArr (pre ++ v :: post).
Proof.
  intros Hd Hn Hl Hr Hp Hq. unfold mx_resolve_arguments, mx_resolve_macros. cbn [mx_is_empty].
  assert (forall a b, mx_rm_array (mx_irm mx_fuel 2 env false) b = inl (List.map MxStr post, false) ->
          mx_rm_array (mx_irm mx_fuel 2 env false) (List.map MxStr pre ++ a :: b) =
          match mx_irm mx_fuel 2 env false (mx_to_string a) with
          | MxOk v0 m => inl (List.map MxStr pre ++ (match v0 with MxArr el => MxStr (mx_join [mx_ch_semi] (List.map (fun e => mx_join_escape (mx_to_string e)) el)) | _ => v0 end) :: List.map MxStr post, m)
          | MxThrow e => inr e end) as Happ.
  { intros a b Hb. induction pre as [|p pre IH]; cbn [List.map app mx_rm_array].
    - rewrite Hb. destruct (mx_irm mx_fuel 2 env false (mx_to_string a)); [|reflexivity]. rewrite orb_false_r. reflexivity.
    - inv Hp. cbn [mx_to_string]. change mx_fuel with (S 19). rewrite mx_irm_nodollar by (auto; lia).
      change (S 19) with mx_fuel. rewrite IH by assumption.
      destruct (mx_irm mx_fuel 2 env false (mx_to_string a)); reflexivity. }
  rewrite Happ.
  - unfold mx_macro_str. cbn [mx_to_string]. change mx_fuel with (S 19). rewrite mx_irm_sole by (auto; lia).
    rewrite (mx_resolve1_found_str env name v recur Hn Hl Hr). rewrite map_app. cbn [List.map mx_to_string].
    rewrite !mx_map_to_string. reflexivity.
  - apply mx_rm_array_literals. intros l Hin. rewrite Forall_forall in Hq. change mx_fuel with (S 19). apply mx_irm_nodollar; [lia|auto].
Qed.

(* ------------------------------------------------------------------ output *)

Lemma mx_split_at_none c s : ~ In c s -> mx_split_at c s = None.
Proof.
  induction s as [|x s IH]; intros H; cbn; [reflexivity|].
  destruct (N.eqb_spec x c) as [->|_]; [exfalso; apply H; left; reflexivity|].
  rewrite IH by (intros X; apply H; right; exact X). reflexivity.
Qed.

Lemma mx_split_at_app c a b : ~ In c a -> mx_split_at c (a ++ c :: b) = Some (a, b).
Proof.
  induction a as [|x a IH]; intros H; cbn; [rewrite N.eqb_refl; reflexivity|].
  destruct (N.eqb_spec x c) as [->|_]; [exfalso; apply H; left; reflexivity|].
  rewrite IH by (intros X; apply H; right; exact X). reflexivity.
Qed.

Definition mx_nl (text : mx_bytes) : mx_bytes := match text with [] => [] | _ => text ++ [10] end.
Definition mx_sp (perf : mx_bytes) : mx_bytes := match perf with [] => [] | _ => perf ++ [mx_ch_space] end.

Lemma mx_output_line text perf :
  (forall line, ~ In mx_ch_pipe line -> mx_parse_line (text, perf) line = (mx_nl text ++ line, perf)) /\
  (forall before after, ~ In mx_ch_pipe before ->
     mx_parse_line (text, perf) (before ++ mx_ch_pipe :: after) =
     if mx_mem mx_ch_eq after then (mx_nl text ++ before, mx_sp perf ++ after)
     else (mx_nl text ++ before ++ mx_ch_pipe :: after, perf)).
Proof.
  split.
  - intros line H. unfold mx_parse_line. rewrite mx_split_at_none by exact H. destruct text; reflexivity.
  - intros before after H. unfold mx_parse_line. rewrite mx_split_at_app by exact H.
    destruct (mx_mem mx_ch_eq after); destruct text, perf; reflexivity.
Qed.

Lemma mx_output_fold output :
  mx_parse_check_output output =
  (fst (fold_left mx_parse_line (mx_split_any [13; 10] output []) ([], [])),
   mx_trim (snd (fold_left mx_parse_line (mx_split_any [13; 10] output []) ([], [])))).
Proof. unfold mx_parse_check_output. destruct (fold_left _ _ _). reflexivity. Qed.

(* ------------------------------------------------------------------ more than 16 arguments *)

(* With pairwise distinct `order` values the outcome of sorting is determined: EVERY sorted permutation of
   the collected arguments - whatever algorithm std::sort uses, stable or not - is mx_sort's result. *)
Lemma mx_nodup_order_inj (l : list mx_carg) a b :
  NoDup (List.map mx_ca_order l) -> In a l -> In b l -> mx_ca_order a = mx_ca_order b -> a = b.
Proof.
  induction l as [|c l IH]; intros Hn Ha Hb He; [contradiction|]. cbn in Hn. apply NoDup_cons_iff in Hn as [Hc Hn].
  destruct Ha as [->|Ha], Hb as [->|Hb]; auto.
  - exfalso. apply Hc. rewrite He. apply in_map. exact Hb.
  - exfalso. apply Hc. rewrite <- He. apply in_map. exact Ha.
Qed.

Lemma mx_sorted_perm_unique (l1 l2 : list mx_carg) :
  NoDup (List.map mx_ca_order l1) -> Permutation l1 l2 ->
  StronglySorted mx_ord_le l1 -> StronglySorted mx_ord_le l2 -> l1 = l2.
Proof.
  revert l2. induction l1 as [|a t1 IH]; intros l2 Hn Hp H1 H2.
  - apply Permutation_nil in Hp. subst. reflexivity.
  - destruct l2 as [|b t2]; [apply Permutation_sym, Permutation_nil in Hp; discriminate|].
    apply StronglySorted_inv in H1 as [Hs1 Hf1]. apply StronglySorted_inv in H2 as [Hs2 Hf2].
    assert (a = b) as ->.
    { rewrite Forall_forall in Hf1, Hf2.
      assert (In a (b :: t2)) as Ha by (apply (Permutation_in _ Hp); left; reflexivity).
      assert (In b (a :: t1)) as Hb by (apply (Permutation_in _ (Permutation_sym Hp)); left; reflexivity).
      destruct Ha as [Ha|Ha]; [auto|]. destruct Hb as [Hb|Hb]; [auto|].
      apply (mx_nodup_order_inj (a :: t1)); [exact Hn|left; reflexivity|right; exact Hb|].
      specialize (Hf1 _ Hb). specialize (Hf2 _ Ha). unfold mx_ord_le in *. lia. }
    f_equal. apply IH.
    + cbn in Hn. apply NoDup_cons_iff in Hn as [_ Hn]. exact Hn.
    + apply Permutation_cons_inv in Hp. exact Hp.
    + exact Hs1.
    + exact Hs2.
Qed.

Lemma mx_sort_unique (l l' : list mx_carg) :
  NoDup (List.map mx_ca_order l) -> Permutation l' l -> StronglySorted mx_ord_le l' -> l' = mx_sort l.
Proof.
  intros Hn Hp Hs. apply mx_sorted_perm_unique; [| |exact Hs|apply mx_sort_sorted].
  - apply (Permutation_NoDup (l := List.map mx_ca_order l)); [|exact Hn]. apply Permutation_map, Permutation_sym, Hp.
  - rewrite Hp. apply Permutation_sym, mx_sort_perm.
Qed.

(* ------------------------------------------------------------------ SplitPerfdata *)

Lemma mx_pd_scan_label l rest lab val :
  ~ In mx_ch_eq l ->
  mx_pd_scan (l ++ mx_ch_eq :: rest) false lab val = mx_pd_scan rest true (rev l ++ lab) [].
Proof.
  revert lab. induction l as [|c l IH]; intros lab H; cbn [app mx_pd_scan rev].
  - rewrite N.eqb_refl. reflexivity.
  - destruct (N.eqb_spec c mx_ch_eq) as [->|_]; [exfalso; apply H; left; reflexivity|].
    rewrite IH by (intros X; apply H; right; exact X). rewrite <- app_assoc. reflexivity.
Qed.

Lemma mx_pd_scan_value_end v lab val :
  ~ In mx_ch_space v -> mx_pd_scan v true lab val = [(rev lab, rev val ++ v)].
Proof.
  revert val. induction v as [|c v IH]; intros val H; cbn [mx_pd_scan].
  - rewrite app_nil_r. reflexivity.
  - destruct (N.eqb_spec c mx_ch_space) as [->|_]; [exfalso; apply H; left; reflexivity|].
    rewrite IH by (intros X; apply H; right; exact X). cbn [rev]. rewrite <- app_assoc. reflexivity.
Qed.

Lemma mx_pd_scan_value v rest lab val :
  ~ In mx_ch_space v ->
  mx_pd_scan (v ++ mx_ch_space :: rest) true lab val = (rev lab, rev val ++ v) :: mx_pd_scan rest false [] [].
Proof.
  revert val. induction v as [|c v IH]; intros val H; cbn [app mx_pd_scan].
  - rewrite N.eqb_refl, app_nil_r. reflexivity.
  - destruct (N.eqb_spec c mx_ch_space) as [->|_]; [exfalso; apply H; left; reflexivity|].
    rewrite IH by (intros X; apply H; right; exact X). cbn [rev]. rewrite <- app_assoc. reflexivity.
Qed.

(* a label that needs no special treatment: no '=', blank, quote or ':' in it, not starting with white space *)
Definition mx_pd_plain_label (l : mx_bytes) : Prop :=
  ~ In mx_ch_eq l /\ ~ In mx_ch_space l /\ ~ In mx_ch_squote l /\ ~ In mx_ch_colon l /\
  match l with c :: _ => mx_is_space c = false | [] => True end.

Definition mx_pd_item (p : mx_bytes * mx_bytes) : mx_bytes := fst p ++ [mx_ch_eq] ++ snd p.

Lemma mx_rfind_cc_none l i : ~ In mx_ch_colon l -> mx_rfind_cc l i None = None.
Proof.
  revert i. induction l as [|c l IH]; intros i H; [reflexivity|]. cbn [mx_rfind_cc].
  assert ((c =? mx_ch_colon) = false) as Hc by (apply N.eqb_neq; intros ->; apply H; left; reflexivity).
  rewrite Hc. cbn [andb]. replace (match l with [] => None | _ :: _ => None end) with (@None nat) by (destruct l; reflexivity).
  apply IH. intros X; apply H; right; exact X.
Qed.

Lemma mx_pd_unquote_plain l : ~ In mx_ch_squote l -> mx_pd_unquote l = l.
Proof.
  intros H. unfold mx_pd_unquote. destruct l as [|c l]; [reflexivity|]. cbn [hd].
  assert ((c =? mx_ch_squote) = false) as Hc by (apply N.eqb_neq; intros ->; apply H; left; reflexivity).
  rewrite Hc, andb_false_r. reflexivity.
Qed.

Lemma mx_pd_labels_plain pairs :
  Forall (fun p => mx_pd_plain_label (fst p)) pairs ->
  mx_pd_labels pairs [] = List.map mx_pd_item pairs.
Proof.
  induction 1 as [|[l v] pairs (He & Hs & Hq & Hc & Hh) _ IH]; [reflexivity|]. cbn [mx_pd_labels fst snd] in *.
  assert (mx_trim_left l = l) as -> by (destruct l; [reflexivity|cbn; rewrite Hh; reflexivity]).
  rewrite mx_pd_unquote_plain by exact Hq. rewrite mx_rfind_cc_none by exact Hc.
  apply mx_mem_false in Hs. rewrite Hs. rewrite IH. reflexivity.
Qed.

Lemma mx_pd_scan_items pairs :
  Forall (fun p => ~ In mx_ch_eq (fst p) /\ ~ In mx_ch_space (snd p)) pairs ->
  mx_pd_scan (mx_join [mx_ch_space] (List.map mx_pd_item pairs)) false [] [] = pairs.
Proof.
  induction 1 as [|[l v] pairs [Hl Hv] _ IH]; [reflexivity|].
  cbn [List.map mx_join]. destruct pairs as [|q pairs].
  - cbn [List.map]. unfold mx_pd_item. cbn [fst snd app]. rewrite mx_pd_scan_label by exact Hl.
    rewrite mx_pd_scan_value_end by exact Hv. rewrite app_nil_r, rev_involutive. reflexivity.
  - cbn [List.map] in *. unfold mx_pd_item at 1. cbn [fst snd]. rewrite <- !app_assoc. cbn [app].
    rewrite mx_pd_scan_label by exact Hl. rewrite mx_pd_scan_value by exact Hv.
    rewrite app_nil_r, rev_involutive. cbn [rev app]. f_equal. exact IH.
Qed.

(* "l1=v1 l2=v2 ..." with plain labels and blank-free values is split into exactly its items, unchanged *)
Lemma mx_split_perfdata_items pairs :
  Forall (fun p => mx_pd_plain_label (fst p) /\ ~ In mx_ch_space (snd p)) pairs ->
  mx_split_perfdata (mx_join [mx_ch_space] (List.map mx_pd_item pairs)) = List.map mx_pd_item pairs.
Proof.
  intros H. unfold mx_split_perfdata. rewrite mx_pd_scan_items.
  - apply mx_pd_labels_plain. eapply Forall_impl; [|exact H]. intros p [Hp _]. exact Hp.
  - eapply Forall_impl; [|exact H]. intros p [(He & _) Hv]. split; assumption.
Qed.

(* ------------------------------------------------------------------ timeout *)

Definition mx_infix (m s : mx_bytes) : Prop := exists a b, s = a ++ m ++ b.

Lemma mx_infix_app_r m s t : mx_infix m s -> mx_infix m (s ++ t).
Proof. intros (a & b & ->). exists a, (b ++ t). rewrite <- !app_assoc. reflexivity. Qed.

Lemma mx_infix_self_end s m : mx_infix m (s ++ m).
Proof. exists s, []. rewrite app_nil_r. reflexivity. Qed.

(* once SIGTERM has been sent the marker is in the output *)
Definition mx_proc_inv (p : mx_proc) : Prop := mx_pr_sent_term p = true -> mx_infix mx_s_timeout (mx_pr_out p).
Definition mx_proc_fired (p : mx_proc) : Prop := mx_pr_sent_term p = true /\ mx_infix mx_s_timeout (mx_pr_out p).

Lemma mx_proc_finish_sent out w :
  mx_infix mx_s_timeout out ->
  fst (mx_proc_finish true out w) = 128%Z /\ mx_infix mx_s_timeout (snd (mx_proc_finish true out w)).
Proof. intros H. destruct w; cbn; split; try reflexivity; try exact H. apply mx_infix_app_r. exact H. Qed.

Lemma mx_do_events_fired p e :
  mx_proc_fired p ->
  match mx_do_events p e with
  | inl p' => mx_proc_fired p'
  | inr r => fst r = 128%Z /\ mx_infix mx_s_timeout (snd r)
  end.
Proof.
  intros [Hs Hi]. unfold mx_do_events. rewrite Hs. cbn [negb andb orb]. rewrite andb_false_r.
  destruct (mx_ev_past_hard e).
  - apply mx_proc_finish_sent. exact Hi.
  - destruct (mx_ev_read e).
    + split; [reflexivity|]. cbn. apply mx_infix_app_r. exact Hi.
    + apply mx_proc_finish_sent. apply mx_infix_app_r. exact Hi.
Qed.

Lemma mx_do_events_soft p e :
  mx_proc_inv p -> mx_ev_past_soft e = true ->
  match mx_do_events p e with
  | inl p' => mx_proc_fired p'
  | inr r => fst r = 128%Z /\ mx_infix mx_s_timeout (snd r)
  end.
Proof.
  intros Hinv Hsoft. destruct (mx_pr_sent_term p) eqn:Hs.
  - apply mx_do_events_fired. split; [exact Hs|apply Hinv; exact Hs].
  - unfold mx_do_events. rewrite Hs, Hsoft. cbn [negb andb orb].
    destruct (mx_ev_past_hard e).
    + apply mx_proc_finish_sent. apply mx_infix_self_end.
    + destruct (mx_ev_read e).
      * split; [reflexivity|]. cbn. apply mx_infix_app_r, mx_infix_self_end.
      * apply mx_proc_finish_sent. apply mx_infix_app_r, mx_infix_self_end.
Qed.

Lemma mx_do_events_inv p e p' : mx_proc_inv p -> mx_do_events p e = inl p' -> mx_proc_inv p'.
Proof.
  intros Hinv H. destruct (mx_ev_past_soft e) eqn:Hsoft.
  - pose proof (mx_do_events_soft p e Hinv Hsoft) as X. rewrite H in X. intros _. apply X.
  - destruct (mx_pr_sent_term p) eqn:Hs.
    + pose proof (mx_do_events_fired p e (conj Hs (Hinv Hs))) as X. rewrite H in X. intros _. apply X.
    + unfold mx_do_events in H. rewrite Hs, Hsoft in H. cbn in H. destruct (mx_ev_read e); inv H.
      intros X. cbn in X. discriminate.
Qed.

Lemma mx_proc_run_fired p evs ex out :
  mx_proc_fired p -> mx_proc_run p evs = Some (ex, out) -> ex = 128%Z /\ mx_infix mx_s_timeout out.
Proof.
  revert p. induction evs as [|e evs IH]; intros p Hf H; cbn in H; [discriminate|].
  pose proof (mx_do_events_fired p e Hf) as X. destruct (mx_do_events p e) as [p'|r].
  - apply (IH p' X H).
  - inv H. exact X.
Qed.

(* the calls of DoEvents that did not end the process *)
Fixpoint mx_proc_steps (p : mx_proc) (evs : list mx_pev) : option mx_proc :=
  match evs with
  | [] => Some p
  | e :: r => match mx_do_events p e with inl p' => mx_proc_steps p' r | inr _ => None end
  end.

Lemma mx_proc_steps_inv p evs p' : mx_proc_inv p -> mx_proc_steps p evs = Some p' -> mx_proc_inv p'.
Proof.
  revert p. induction evs as [|e evs IH]; intros p Hinv H; cbn in H; [inv H; exact Hinv|].
  destruct (mx_do_events p e) as [p1|] eqn:Hd; [|discriminate]. apply (IH p1); [|exact H].
  apply (mx_do_events_inv p e p1 Hinv Hd).
Qed.

Lemma mx_finish_state ex out : mx_cr_state (mx_finish ex out) = mx_exit_to_state ex /\ mx_cr_exit (mx_finish ex out) = ex.
Proof. unfold mx_finish. destruct (mx_parse_check_output _). split; reflexivity. Qed.

(* whenever a call of DoEvents saw the soft deadline passed - whatever the plugin did afterwards (died from
   SIGTERM, ignored it, trapped it and exited with any code inside or outside the grace period, left a
   grandchild holding the pipe) - the result is exit status 128 = UNKNOWN and carries the marker *)
Lemma mx_timeout_unknown pre e rest p' ex out :
  mx_proc_steps mx_proc_init pre = Some p' -> mx_ev_past_soft e = true ->
  mx_proc_run p' (e :: rest) = Some (ex, out) ->
  ex = 128%Z /\ mx_infix mx_s_timeout out /\ mx_cr_state (mx_finish ex out) = 3%Z.
Proof.
  intros Hpre Hsoft Hrun.
  assert (mx_proc_inv p') as Hinv by (apply (mx_proc_steps_inv mx_proc_init pre); [intros X; discriminate X|exact Hpre]).
  cbn [mx_proc_run] in Hrun. pose proof (mx_do_events_soft p' e Hinv Hsoft) as X.
  assert (ex = 128%Z /\ mx_infix mx_s_timeout out) as [-> Hi].
  { destruct (mx_do_events p' e) as [p1|r]; [apply (mx_proc_run_fired p1 rest); assumption|inv Hrun; exact X]. }
  split; [reflexivity|]. split; [exact Hi|]. rewrite (proj1 (mx_finish_state _ _)). reflexivity.
Qed.

(* and without the soft deadline ever passed the plugin's own exit status goes through *)
Lemma mx_no_timeout_exit d c :
  mx_proc_run mx_proc_init [{| mx_ev_past_soft := false; mx_ev_past_hard := false; mx_ev_read := MxReadEof d; mx_ev_wait := MxWaitExit c |}] = Some (c, d).
Proof. reflexivity. Qed.
