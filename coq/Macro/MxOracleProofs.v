(* The oracle of MxOracle.v accepts every observation the model itself produces: it can only
   fire where the implementation leaves what the theorems establish. *)
From Icv Require Import Base.Tac Macro.MxDefs Macro.MxModel Macro.MxProofs Macro.MxOracle.
From Coq Require Import NArith.
Local Open Scope N_scope.

Lemma mx_list_beq_refl l : mx_list_beq l l = true.
Proof. induction l; cbn; [reflexivity|]. rewrite mx_beq_refl. assumption. Qed.

Lemma mx_cmdres_beq_refl r : mx_cmdres_beq r r = true.
Proof. destruct r; cbn; [apply mx_list_beq_refl|apply mx_beq_refl|reflexivity]. Qed.

Lemma mx_oracle_resolve_accepts env command arguments :
  mx_oracle_resolve env command arguments (mx_resolve_arguments env command arguments) = None.
Proof. unfold mx_oracle_resolve. rewrite mx_cmdres_beq_refl. reflexivity. Qed.

Lemma mx_finish_exit e o : mx_cr_exit (mx_finish e o) = e /\ mx_cr_state (mx_finish e o) = mx_exit_to_state e.
Proof. unfold mx_finish. destruct (mx_parse_check_output _). split; reflexivity. Qed.

Lemma mx_exec_check_accepts env command arguments plugin_exit plugin_out :
  mx_plugin_argv (mx_resolve_arguments env command arguments) <> MxArgvUnknown ->
  mx_exec_check env command arguments plugin_exit plugin_out (mx_observe_exec env command arguments plugin_exit plugin_out) = None.
Proof.
  intros Hu. unfold mx_exec_check, mx_observe_exec.
  destruct (mx_resolve_arguments env command arguments) as [l|s|e] eqn:Hr; cbn [mx_plugin_argv] in *.
  - cbn. rewrite mx_list_beq_refl. cbn. rewrite (proj1 (mx_finish_exit plugin_exit plugin_out)).
    rewrite !Z.eqb_refl. cbn. rewrite mx_beq_refl, mx_list_beq_refl. reflexivity.
  - destruct (mx_sh_split s) as [w|]; [|contradiction]. cbn. rewrite mx_list_beq_refl. cbn.
    rewrite (proj1 (mx_finish_exit plugin_exit plugin_out)).
    rewrite !Z.eqb_refl. cbn. rewrite mx_beq_refl, mx_list_beq_refl. reflexivity.
  - reflexivity.
Qed.

Lemma mx_oracle_exec_accepts env command arguments plugin_exit plugin_out :
  mx_plugin_argv (mx_resolve_arguments env command arguments) <> MxArgvUnknown ->
  mx_oracle_exec env command arguments plugin_exit plugin_out (mx_observe_exec env command arguments plugin_exit plugin_out) = None.
Proof.
  intros Hu. unfold mx_oracle_exec. apply mx_exec_check_accepts. exact Hu.
Qed.

Lemma mx_oracle_escape_accepts v : ~ In 0 v -> mx_oracle_escape v (mx_escape_shell_arg v) = None.
Proof.
  intros H. unfold mx_oracle_escape. rewrite mx_beq_refl.
  unfold mx_sh_split, mx_sh_split_from. rewrite (mx_sh_escape mx_sh_init v eq_refl H). cbn. rewrite mx_beq_refl. reflexivity.
Qed.

Lemma mx_oracle_exit_accepts st : mx_oracle_exit st (mx_exit_to_state st) = None.
Proof. unfold mx_oracle_exit. rewrite Z.eqb_refl. reflexivity. Qed.

Lemma mx_oracle_output_accepts output :
  mx_oracle_output output (fst (mx_parse_check_output output)) (snd (mx_parse_check_output output))
                   (mx_split_perfdata (snd (mx_parse_check_output output))) = None.
Proof.
  unfold mx_oracle_output. destruct (mx_parse_check_output output) as [t p]. cbn.
  rewrite !mx_beq_refl, mx_list_beq_refl. reflexivity.
Qed.

Lemma mx_oracle_timeout_accepts evs s e m :
  mx_timeout_observe evs = Some (s, e, m) -> mx_oracle_timeout evs s e m = None.
Proof. intros H. unfold mx_oracle_timeout. rewrite H, !Z.eqb_refl, Bool.eqb_reflx. reflexivity. Qed.
