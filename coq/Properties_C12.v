(* C12 - the property theorems, nothing else.  Each is closed by [exact] of a lemma proved in Replay/*.v
   and followed by Print Assumptions. *)
From Icv Require Import Base.Tac Replay.RlBytes Replay.RlModel Replay.RlBytesProofs Replay.RlProofs Replay.RlHistory Replay.RlHistoryProofs Replay.RlObs Replay.RlOracleProofs
  Replay.RlSize Replay.RlSizeProofs Replay.RlFixed Replay.RlFixedProofs Replay.RlCompact Replay.RlCompactProofs Replay.RlBoundary Facts.Facts_c12.
From Coq Require Import Sorting.Sorted.
Local Open Scope Z_scope.

(* Over ALL histories of Relay / Rotate / Restart (clean or crash) / Disconnect / Reconnect / AckPosition / incoming
   message / CleanupTimer from the start of the sender, under a monotone clock that advances before each relay:
   the invariant (well-formed encodings, file name > every timestamp inside, increasing names, strictly increasing
   timestamps across files and current, nothing newer than the clock) holds, hence the facts C12_replayed_general needs. *)
Theorem C12_history_invariant : forall t now0 eps h,
  0 < now0 -> rl_hvalid now0 h ->
  let st := rl_hrun t h (rl_init_st now0 eps) in
  rl_hinv (rl_hclock now0 h) st /\ rl_name_bound (rl_files st) /\ StronglySorted rl_ts_lt (rl_log_entries st) /\ StronglySorted Z.lt (map fst (rl_files st)).
Proof. exact rl_history_invariant_init. Qed.
Print Assumptions C12_history_invariant.

(* the invariant is inductive: from any state satisfying it, along any valid continuation *)
Theorem C12_history_invariant_step : forall t h c st,
  rl_hinv c st -> rl_hvalid c h -> rl_hinv (rl_hclock c h) (rl_hrun t h st).
Proof. exact rl_history_invariant. Qed.
Print Assumptions C12_history_invariant_step.

(* After Reconnect e (ReplayLog), in ANY state reachable by such a history, the messages sent to e are exactly the
   persisted entries - of all files present and of current - with timestamp > e's confirmed position whose object e's
   zone may see, in log (= timestamp) order, and the replay loop reaches its final pass.  No premise about timestamps or
   file names.  (log_duration = 0 disables replay; ReplayLog applies no other log_duration cut-off: everything present
   is sent, and C12_cleanup_keeps says what is present.) *)
Theorem C12_replayed : forall t now0 eps h now ep,
  0 < now0 -> rl_hvalid now0 h -> rl_ep_dur ep <> 0 ->
  let st := rl_hrun t h (rl_init_st now0 eps) in
  let r := rl_replay t now ep st in
  rl_msgs (rl_rr_out r) = map rl_e_msg (filter (rl_sel t (rl_ep_zone ep) (rl_ep_pos ep)) (rl_log_entries st)) /\ rl_rr_done r = true.
Proof. exact rl_replayed_history. Qed.
Print Assumptions C12_replayed.

(* the general statement for arbitrary (also damaged) logs, with the two facts as explicit premises *)
Theorem C12_replayed_general : forall t now ep st,
  rl_ep_dur ep <> 0 -> rl_name_bound (rl_files st) -> StronglySorted rl_ts_lt (rl_log_entries st) ->
  let r := rl_replay t now ep st in
  rl_msgs (rl_rr_out r) = map rl_e_msg (filter (rl_sel t (rl_ep_zone ep) (rl_ep_pos ep)) (rl_log_entries st)) /\ rl_rr_done r = true.
Proof. exact rl_replayed. Qed.
Print Assumptions C12_replayed_general.

(* An event relayed while a directly related, non-global target zone is undelivered - no member connected; for the local
   zone: the member iterated last is disconnected (with the supported <= 2 endpoints per zone: the other member) - reaches
   PersistMessage and is the last entry of the log afterwards.  (A foreign zone with one connected member gets the event
   through that member and nothing is persisted: zone-level delivery, by design.) *)
Theorem C12_persist_complete : forall t c now sec msg st z,
  rl_hinv c st -> rl_hvalid c [(now, RlHRelay sec msg)] ->
  In z (rl_relay_zones t sec) -> rl_zglobal t z = false -> rl_directly_related t z = true ->
  rl_zone_undelivered t (rl_eps st) z ->
  rl_log_entries (rl_hstep t now (RlHRelay sec msg) st) =
    rl_log_entries st ++ [{| rl_e_ts := now; rl_e_sec := sec; rl_e_msg := msg |}].
Proof. exact rl_persist_complete. Qed.
Print Assumptions C12_persist_complete.

(* Acknowledgements: if the position the peer acknowledges covers only entries it really received, no owed entry is lost *)
Theorem C12_no_loss_honest_ack : forall t now ep c st p delivered,
  rl_hinv c st -> rl_ep_dur ep <> 0 ->
  (forall e, In e (rl_log_entries st) -> rl_can_access t (rl_ep_zone ep) (rl_e_sec e) = true ->
             rl_ep_pos ep < rl_e_ts e <= p -> In (rl_e_msg e) delivered) ->
  let ep' := if rl_ep_pos ep <? p then rl_ep_set_pos p ep else ep in
  forall e, In e (rl_log_entries st) -> rl_ep_pos ep < rl_e_ts e -> rl_can_access t (rl_ep_zone ep) (rl_e_sec e) = true ->
    In (rl_e_msg e) delivered \/ In (rl_e_msg e) (rl_msgs (rl_rr_out (rl_replay t now ep' st))).
Proof. exact rl_no_loss_honest_ack. Qed.
Print Assumptions C12_no_loss_honest_ack.

(* Recorded finding (known_findings: replay-setlogposition-acks-wrong-log): the code itself produces a dishonest
   acknowledgement.  ReplayLog emits log::SetLogPosition with the name of the SENDER's log file; the peer's
   SetLogPositionHandler takes it as confirmation of the PEER's log.  Two nodes in the same state: what A emits, handled by
   B before B's own replay starts, makes B replay nothing although three events are owed. *)
Theorem C12_setpos_refuted :
  let stB := rl_w_st rl_w_file in
  let emitted_by_A := rl_rr_out (rl_replay rl_w_topo 40 rl_w_ep stB) in
  emitted_by_A = [RlOutMsg (rl_mk_msg 1 10); RlOutPos 21; RlOutMsg (rl_mk_msg 2 20); RlOutMsg (rl_mk_msg 3 30); RlOutPos 41] /\
  let stB' := rl_feed_acks 1 emitted_by_A stB in
  option_map rl_ep_pos (rl_get_ep (rl_eps stB') 1) = Some 41 /\
  (forall ep', rl_get_ep (rl_eps stB') 1 = Some ep' -> rl_msgs (rl_rr_out (rl_replay rl_w_topo 40 ep' stB')) = []) /\
  length (filter (rl_sel rl_w_topo 1 0) (rl_log_entries stB)) = 3%nat.
Proof. exact rl_setpos_refuted. Qed.
Print Assumptions C12_setpos_refuted.

(* Nothing at or below the confirmed position is ever replayed (no premise on the log at all) *)
Theorem C12_no_resend : forall t now ep st m,
  In m (rl_msgs (rl_rr_out (rl_replay t now ep st))) ->
  exists e, In e (rl_log_entries st) /\ rl_e_msg e = m /\ rl_ep_pos ep < rl_e_ts e /\
            rl_can_access t (rl_ep_zone ep) (rl_e_sec e) = true.
Proof. exact rl_no_resend. Qed.
Print Assumptions C12_no_resend.

(* The receiver ignores a message older than its recorded position and leaves its state unchanged *)
Theorem C12_receiver_filter : forall id ts st e,
  rl_get_ep (rl_eps st) id = Some e -> ts < rl_ep_rpos e -> rl_recv id ts st = (false, st).
Proof. exact rl_receiver_filter. Qed.
Print Assumptions C12_receiver_filter.

(* A file is deleted by the clean-up timer only if, for EVERY related endpoint, it is older than that endpoint's
   log_duration or entirely at or below its confirmed position; current is never touched *)
Theorem C12_cleanup_safe : forall t now st n b,
  In (n, b) (rl_files st) -> ~ In (n, b) (rl_files (rl_cleanup t now st)) ->
  forall e, In e (rl_eps st) -> rl_related t e = true ->
    (0 <= rl_ep_dur e /\ n < now - rl_ep_dur e) \/ n <= rl_ep_pos e.
Proof. exact rl_cleanup_safe. Qed.
Print Assumptions C12_cleanup_safe.

Theorem C12_cleanup_keeps : forall t now st,
  rl_cur (rl_cleanup t now st) = rl_cur st /\
  (forall f, In f (rl_files (rl_cleanup t now st)) -> In f (rl_files st)) /\
  (forall f, In f (rl_files st) -> rl_needed t now (rl_eps st) (fst f) = true -> In f (rl_files (rl_cleanup t now st))).
Proof. exact rl_cleanup_keeps. Qed.
Print Assumptions C12_cleanup_keeps.

(* The reading loop of ReplayLog yields every entry of a well-formed prefix before anything else, whatever follows *)
Theorem C12_prefix_stable : forall es junk, Forall rl_entry_ok es ->
  rl_parse_log (rl_enc_log es ++ junk) = es ++ rl_parse_log junk.
Proof. exact rl_prefix_stable. Qed.
Print Assumptions C12_prefix_stable.

(* hence: a cut at ANY byte offset at/after the end of an entry keeps all entries up to it ... *)
Theorem C12_truncate_safe : forall es es' k, Forall rl_entry_ok es -> Z.of_nat (length (rl_enc_log es)) <= k ->
  exists tail, rl_parse_log (rl_truncate_bytes k (rl_enc_log (es ++ es'))) = es ++ tail.
Proof. exact rl_truncate_safe. Qed.
Print Assumptions C12_truncate_safe.

(* ... and so does overwriting ANY byte there with ANY value; other files and current are untouched *)
Theorem C12_corrupt_safe : forall es es' k v, Forall rl_entry_ok es -> (length (rl_enc_log es) <= k)%nat ->
  exists tail, rl_parse_log (rl_set_byte k v (rl_enc_log (es ++ es'))) = es ++ tail.
Proof. exact rl_corrupt_safe. Qed.
Print Assumptions C12_corrupt_safe.

Theorem C12_damage_other_files : forall n f st,
  rl_cur (rl_map_file n f st) = rl_cur st /\
  (forall m b, In (m, b) (rl_files st) -> m <> n -> In (m, b) (rl_files (rl_map_file n f st))) /\
  (forall g, rl_files (rl_map_cur g st) = rl_files st).
Proof. exact rl_damage_other_files. Qed.
Print Assumptions C12_damage_other_files.

(* Restart of the sender: a crash restart keeps files and current byte for byte; a clean one (Stop rotates) keeps the
   sequence of log entries; confirmed positions survive either *)
Theorem C12_restart : forall clean now st,
  (clean = false -> rl_files (rl_restart clean now st) = rl_files st /\ rl_cur (rl_restart clean now st) = rl_cur st) /\
  (Forall (fun f => fst f <= (if rl_lmt st =? 0 then now else rl_lmt st) + 1) (rl_files st) ->
   rl_log_entries (rl_restart clean now st) = rl_log_entries st) /\
  (forall id, option_map (fun e => (rl_ep_pos e, rl_ep_rpos e)) (rl_get_ep (rl_eps (rl_restart clean now st)) id) =
              option_map (fun e => (rl_ep_pos e, rl_ep_rpos e)) (rl_get_ep (rl_eps st) id)).
Proof. exact rl_restart_preserves. Qed.
Print Assumptions C12_restart.

(* Recorded finding (known_findings: corrupt-timestamp-hides-later-entries): on the faithful model one overwritten
   timestamp digit that keeps the entry decodable makes ReplayLog skip the intact later entries of the same file AND
   of the other file.  C12_replayed_general excludes it through its visible premise StronglySorted rl_ts_lt (rl_log_entries st);
   C12_replayed speaks about undamaged (reachable) states. *)
Theorem C12_corrupt_ts_refuted :
  rl_msgs (rl_rr_out (rl_replay rl_w_topo 40 rl_w_ep (rl_w_st rl_w_file))) = [rl_mk_msg 1 10; rl_mk_msg 2 20; rl_mk_msg 3 30] /\
  rl_msgs (rl_rr_out (rl_replay rl_w_topo 40 rl_w_ep (rl_w_st (rl_set_byte rl_w_off 57 rl_w_file)))) = [rl_mk_msg 1 10] /\
  nth rl_w_off rl_w_file 0 = 49.
Proof. exact rl_corrupt_ts_refuted. Qed.
Print Assumptions C12_corrupt_ts_refuted.

(* the executable oracle run over implementation traces never fires on what the model produces *)
Theorem C12_oracle_accepts_model_replay : forall t now ep st,
  rl_ep_dur ep <> 0 -> rl_name_bound (rl_files st) ->
  rl_or_replay t (rl_ep_zone ep) (rl_ep_pos ep) (rl_log_entries st) (rl_msgs (rl_rr_out (rl_replay t now ep st))) = true.
Proof. exact rl_oracle_accepts_replay. Qed.
Print Assumptions C12_oracle_accepts_model_replay.

Theorem C12_oracle_accepts_model_damaged : forall t now ep st intact,
  rl_ep_dur ep <> 0 -> rl_name_bound (rl_files st) -> rl_strict_b (rl_log_entries st) = true ->
  incl intact (rl_log_entries st) ->
  rl_or_damaged t (rl_ep_zone ep) (rl_ep_pos ep) intact (rl_msgs (rl_rr_out (rl_replay t now ep st))) = true.
Proof. exact rl_oracle_accepts_damaged. Qed.
Print Assumptions C12_oracle_accepts_model_damaged.

Theorem C12_oracle_accepts_model_cleanup : forall t now st,
  rl_or_cleanup t now (rl_eps st) (map fst (rl_files st)) (map fst (rl_files (rl_cleanup t now st))) = true.
Proof. exact rl_oracle_accepts_cleanup. Qed.
Print Assumptions C12_oracle_accepts_model_cleanup.

Theorem C12_oracle_accepts_model_recv : forall id ts st e,
  rl_get_ep (rl_eps st) id = Some e -> rl_or_recv (rl_ep_rpos e) ts (fst (rl_recv id ts st)) = true.
Proof. exact rl_oracle_accepts_recv. Qed.
Print Assumptions C12_oracle_accepts_model_recv.

(* ---------------------------------------------------------------- sizes ---------------------------------------------------------------- *)
(* The size limits of the CURRENT source, regenerated on every run (tools/facts_c12.py): the netstring Stream reader rejects a
   length prefix of more than 9 digits and needs the colon within the first 17 bytes, ReplayLog passes no maxMessageLength -
   with these the reader with limits IS the reader the other theorems are about.  Stops checking when a fact changes. *)
Theorem C12_reader_limits_of_source :
  rl_src_recognised = true /\ rl_src_ns_digits = 9 /\ rl_src_colon_window = 16 /\ rl_src_replay_maxlen = None /\
  forall buf, rl_parse_log_lim rl_src_ns_digits rl_src_replay_maxlen buf = rl_parse_log buf.
Proof. exact rl_reader_limits_of_source. Qed.
Print Assumptions C12_reader_limits_of_source.

(* Every entry PersistMessage can write, ReplayLog can read: over the two regenerated limits (what PersistMessage is willing
   to write, what ReplayLog lets the reader accept) an entry below the digit bound of the frame format is returned by the
   reading loop, which then goes on with whatever follows.  No longer checks when one side gets a limit the other lacks. *)
Theorem C12_persist_readable : forall e rest,
  0 <= rl_e_ts e < 10 ^ 15 ->
  rl_frame_written rl_src_persist_maxlen (Z.of_nat (length (rl_enc_entry e))) = true ->
  Z.of_nat (length (rl_enc_entry e)) < 10 ^ rl_src_ns_digits ->
  rl_parse_log_lim rl_src_ns_digits rl_src_replay_maxlen (rl_frame (rl_enc_entry e) ++ rest) =
    e :: rl_parse_log_lim rl_src_ns_digits rl_src_replay_maxlen rest.
Proof. exact rl_persist_readable. Qed.
Print Assumptions C12_persist_readable.

(* ... by the general criterion: the limits agree iff the read limit is absent, or at least one more than the write limit,
   or beyond the digit bound *)
Theorem C12_limits_agree : forall digits wmax rmax len,
  rl_limits_agree_b digits wmax rmax = true -> 0 <= len -> rl_frame_written wmax len = true -> len < 10 ^ digits ->
  rl_frame_accepts digits rmax len = true.
Proof. exact rl_limits_agree. Qed.
Print Assumptions C12_limits_agree.

(* For ANY limits of the reader: the reading loop returns the entries of an intact file up to the first one it does not
   accept and nothing after it - an intact entry over a limit hides itself AND every later entry of its file. *)
Theorem C12_read_limit_hides : forall digits maxlen es e es',
  1 <= digits <= 17 -> Forall (rl_entry_fits digits maxlen) es ->
  Z.of_nat (length (rl_enc_entry e)) < 10 ^ 17 ->
  rl_frame_accepts digits maxlen (Z.of_nat (length (rl_enc_entry e))) = false ->
  rl_parse_log_lim digits maxlen (rl_enc_log (es ++ e :: es')) = es.
Proof. exact rl_parse_lim_stop. Qed.
Print Assumptions C12_read_limit_hides.

Theorem C12_read_limit_keeps : forall digits maxlen es junk,
  1 <= digits <= 17 -> Forall (rl_entry_fits digits maxlen) es ->
  rl_parse_log_lim digits maxlen (rl_enc_log es ++ junk) = es ++ rl_parse_log_lim digits maxlen junk.
Proof. exact rl_parse_lim_prefix. Qed.
Print Assumptions C12_read_limit_keeps.

(* C12_replayed with its premises spelled out: the clock premises (monotone, advancing before every relay, below 10^15 s) and
   the ONE size premise - every relayed event has an entry that the reader ReplayLog uses accepts (rl_hsized over the
   regenerated limits; today: shorter than 10^9 bytes).  By C12_read_limit_hides the size premise cannot be dropped. *)
Theorem C12_replayed_sized : forall t now0 eps h now ep,
  0 < now0 -> rl_hclocked now0 h -> rl_hsized rl_src_ns_digits rl_src_replay_maxlen h -> rl_ep_dur ep <> 0 ->
  let st := rl_hrun t h (rl_init_st now0 eps) in
  let r := rl_replay t now ep st in
  rl_msgs (rl_rr_out r) = map rl_e_msg (filter (rl_sel t (rl_ep_zone ep) (rl_ep_pos ep)) (rl_log_entries st)) /\ rl_rr_done r = true.
Proof. exact rl_replayed_sized. Qed.
Print Assumptions C12_replayed_sized.

(* Large payloads in the correspondence run are run-length encoded: the encoded entry expands to the bytes PersistMessage
   writes and its computed length is their number *)
Theorem C12_run_length_entries : forall x,
  rl_x_expand (rl_xe_enc x) = rl_enc_entry (rl_xe_entry x) /\
  rl_xe_len x = Z.of_nat (length (rl_enc_entry (rl_xe_entry x))) /\
  rl_frame_len (rl_xe_len x) = Z.of_nat (length (rl_frame (rl_enc_entry (rl_xe_entry x)))).
Proof. exact rl_run_length_entries. Qed.
Print Assumptions C12_run_length_entries.

(* The record-level model (RlCompact.v: files as lists of entries with run-length encoded messages - what the correspondence
   run executes for scripts with megabyte payloads) refines the byte-level model: every operation commutes with the map to the
   bytes of the directory, for entries of ANY size ... *)
Theorem C12_record_model_ops : forall t now s,
  (forall e, rl_x_conc (rl_x_persist now e s) = rl_persist now (rl_xe_entry e) (rl_x_conc s)) /\
  rl_x_conc (rl_x_rotate_cycle now s) = rl_rotate_cycle now (rl_x_conc s) /\
  (forall clean, rl_x_conc (rl_x_restart clean now s) = rl_restart clean now (rl_x_conc s)) /\
  rl_x_conc (rl_x_cleanup t now s) = rl_cleanup t now (rl_x_conc s) /\
  (forall id p, rl_x_conc (rl_x_ack id p s) = rl_ack id p (rl_x_conc s)) /\
  (forall id ts, fst (rl_x_recv id ts s) = fst (rl_recv id ts (rl_x_conc s)) /\ rl_x_conc (snd (rl_x_recv id ts s)) = snd (rl_recv id ts (rl_x_conc s))) /\
  (forall sec m, let rx := rl_x_relay t now sec m s in
                 let rb := rl_relay t now sec (rl_x_expand m) (rl_x_conc s) in
                 rl_xrl_logged rx = rl_rl_logged rb /\ rl_xrl_live rx = rl_rl_live rb /\ rl_x_conc (rl_xrl_st rx) = rl_rl_st rb).
Proof. exact rl_x_refines_ops. Qed.
Print Assumptions C12_record_model_ops.

(* ... and ReplayLog does under the one size premise: every entry of the directory is one the reader returns
   (timestamp below 10^15, encoding shorter than 10^9 bytes).  Then the byte-level ReplayLog emits the expansion of what the
   record-level one emits, and the decodable entries of the directory are exactly the recorded ones. *)
Theorem C12_record_model_replay : forall t now ep st, rl_x_ok st ->
  let rx := rl_x_replay false t now ep st in
  let rb := rl_replay t now ep (rl_x_conc st) in
  rl_rr_out rb = rl_x_out_bytes (rl_xrr_out rx) /\ rl_rr_done rb = rl_xrr_done rx /\ rl_rr_st rb = rl_x_conc (rl_xrr_st rx).
Proof. exact rl_x_conc_replay. Qed.
Print Assumptions C12_record_model_replay.

(* the same for every form of ReplayLog (with / without the SetLogPosition emission, with / without the timestamp bound),
   in particular for the one the source has now, which is what the run executes (rl_replay_src / rl_x_replay_src) *)
Theorem C12_record_model_replay_forms : forall emit bound t now ep st, rl_x_ok st ->
  let rx := rl_x_replay_fe emit bound t now ep st in
  let rb := rl_replay_fe emit bound t now ep (rl_x_conc st) in
  rl_rr_out rb = rl_x_out_bytes (rl_xrr_out rx) /\ rl_rr_done rb = rl_xrr_done rx /\ rl_rr_st rb = rl_x_conc (rl_xrr_st rx).
Proof. exact rl_x_conc_replay_fe. Qed.
Print Assumptions C12_record_model_replay_forms.

Theorem C12_record_model_entries : forall st, rl_x_ok st -> rl_log_entries (rl_x_conc st) = map rl_xe_entry (rl_x_log_entries st).
Proof. exact rl_x_conc_entries. Qed.
Print Assumptions C12_record_model_entries.

(* ------------------------------------------ the premises about timestamps, at their boundaries ------------------------------------------ *)
(* Without "strictly increasing timestamps": what ReplayLog sends is the dynamic rule of its loop - an accessible entry is sent
   iff its timestamp is above the confirmed position and above the timestamp of every entry sent before it in this replay.
   Only premise on the log: every file is named later than its entries.  (C12_replayed_general is the special case.) *)
Theorem C12_replayed_dyn : forall t now ep st,
  rl_ep_dur ep <> 0 -> rl_name_bound (rl_files st) ->
  let r := rl_replay t now ep st in
  rl_msgs (rl_rr_out r) = map rl_e_msg (rl_dyn t (rl_ep_zone ep) (rl_ep_pos ep) (rl_log_entries st)) /\ rl_rr_done r = true.
Proof. exact rl_replayed_dyn. Qed.
Print Assumptions C12_replayed_dyn.

(* Recorded finding (known_findings: nonincreasing-timestamps-not-replayed) on the model, as histories from the start of the sender:
   two relays within one clock reading, two relays with the clock stepped back in between - both events are persisted and owed,
   the second is not replayed; with a rotation after the step back the file is named earlier than an entry in it and a peer
   positioned in between is not shown that entry.  C12_replayed excludes these through rl_hclocked (the clock advances before
   every relay). *)
Theorem C12_clock_refuted :
  (let st := rl_hrun rl_w_topo rl_w_hist_equal (rl_init_st 5 [rl_w_ep]) in
   map rl_e_msg (rl_log_entries st) = [rl_mk_msg 1 10; rl_mk_msg 2 10] /\
   map rl_e_msg (filter (rl_sel rl_w_topo 1 0) (rl_log_entries st)) = [rl_mk_msg 1 10; rl_mk_msg 2 10] /\
   rl_msgs (rl_rr_out (rl_replay rl_w_topo 40 rl_w_ep st)) = [rl_mk_msg 1 10]) /\
  (let st := rl_hrun rl_w_topo rl_w_hist_back (rl_init_st 5 [rl_w_ep]) in
   map rl_e_msg (rl_log_entries st) = [rl_mk_msg 1 20; rl_mk_msg 2 10] /\
   rl_msgs (rl_rr_out (rl_replay rl_w_topo 40 rl_w_ep st)) = [rl_mk_msg 1 20]) /\
  (let st := rl_hrun rl_w_topo rl_w_hist_back_rot (rl_init_st 5 [rl_w_ep]) in
   map fst (rl_files st) = [11] /\ map rl_e_msg (rl_log_entries st) = [rl_mk_msg 1 20; rl_mk_msg 2 10; rl_mk_msg 3 12] /\
   rl_msgs (rl_rr_out (rl_replay rl_w_topo 40 (rl_ep_set_pos 15 rl_w_ep) st)) = []).
Proof. exact rl_clock_refuted. Qed.
Print Assumptions C12_clock_refuted.

(* "Never overwrite": in every reachable state a rotation - carried out, or silently denied because a file of that name exists
   (second rotation within the same second) - keeps every entry and every file; a denied one changes nothing but the open time.
   The form of RotateLogFile this transcribes is a regenerated fact. *)
Theorem C12_rotate_keeps : forall c now st, rl_hinv c st ->
  rl_log_entries (rl_rotate_cycle now st) = rl_log_entries st /\
  (forall f, In f (rl_files st) -> In f (rl_files (rl_rotate_cycle now st))) /\
  (rl_has_file (rl_files st) ((if rl_lmt st =? 0 then now else rl_lmt st) + 1) = true -> rl_files (rl_rotate_cycle now st) = rl_files st /\ rl_cur (rl_rotate_cycle now st) = rl_cur st).
Proof. exact rl_rotate_keeps. Qed.
Print Assumptions C12_rotate_keeps.

Theorem C12_source_forms : f_rl_rotate_never_overwrites = Some true /\ f_rl_replay_skip_le = Some true.
Proof. exact rl_src_rotate_form. Qed.
Print Assumptions C12_source_forms.

(* ------------------------------------------ the two recorded findings: repaired forms ------------------------------------------ *)
(* ReplayLog as a function of two regenerated facts: emit (log::SetLogPosition sent during the replay: true today; false with
   repo_patches/c12-replaylog-no-setlogposition.diff) and bound (an entry with timestamp >= the name bound of its file is
   treated as corruption: false today; true with repo_patches/c12-replaylog-bound-timestamp.diff).  The forms are recognised,
   and (true, false) is the ReplayLog all other theorems are about. *)
Theorem C12_replay_forms_recognised : rl_src_forms_recognised = true.
Proof. exact rl_replay_forms_recognised. Qed.
Print Assumptions C12_replay_forms_recognised.

Theorem C12_replay_pinned_form : forall t now ep st, rl_replay_fe true false t now ep st = rl_replay t now ep st.
Proof. exact rl_replay_fe_pinned. Qed.
Print Assumptions C12_replay_pinned_form.

(* C12_replayed for EVERY form, in every reachable state (clock not behind the state's): the same messages - exactly the owed
   entries in order -, the last pass reached, the same state afterwards: neither repair changes what an undamaged log replays *)
Theorem C12_replayed_forms : forall emit bound t now ep c st,
  rl_hinv c st -> c <= now -> rl_ep_dur ep <> 0 ->
  let r := rl_replay_fe emit bound t now ep st in
  rl_msgs (rl_rr_out r) = map rl_e_msg (filter (rl_sel t (rl_ep_zone ep) (rl_ep_pos ep)) (rl_log_entries st)) /\
  rl_rr_done r = true /\ rl_rr_st r = rl_rr_st (rl_replay t now ep st).
Proof. exact rl_replayed_forms. Qed.
Print Assumptions C12_replayed_forms.

(* replay-setlogposition-acks-wrong-log, repaired (emit = false): whatever the peer's ReplayLog sends - same code, ANY state
   of the peer - handling it leaves our state as it was, and our replay then sends everything owed *)
Theorem C12_setpos_fixed : forall bound t now ep c st tp nowp epp stp,
  rl_hinv c st -> c <= now -> rl_ep_dur ep <> 0 ->
  let emitted_by_peer := rl_rr_out (rl_replay_fe false bound tp nowp epp stp) in
  let st' := rl_feed_acks (rl_ep_id ep) emitted_by_peer st in
  st' = st /\
  rl_msgs (rl_rr_out (rl_replay_fe false bound t now ep st')) =
    map rl_e_msg (filter (rl_sel t (rl_ep_zone ep) (rl_ep_pos ep)) (rl_log_entries st)).
Proof. exact rl_setpos_fixed. Qed.
Print Assumptions C12_setpos_fixed.

(* corrupt-timestamp-hides-later-entries, repaired (bound = true), on the witness of C12_corrupt_ts_refuted: the file with the
   overwritten digit is abandoned at the damaged entry, the entry of the other file is delivered; and in general replaying a
   file, whatever its bytes, leaves peer_ts below the file's name bound (or where it was) *)
Theorem C12_corrupt_ts_fixed :
  let st := rl_w_st (rl_set_byte rl_w_off 57 rl_w_file) in
  rl_msgs (rl_rr_out (rl_replay_f true rl_w_topo 40 rl_w_ep st)) = [rl_mk_msg 3 30] /\
  rl_msgs (rl_rr_out (rl_replay_f false rl_w_topo 40 rl_w_ep st)) = [rl_mk_msg 1 10] /\
  rl_msgs (rl_rr_out (rl_replay_f true rl_w_topo 40 rl_w_ep (rl_w_st rl_w_file))) = [rl_mk_msg 1 10; rl_mk_msg 2 20; rl_mk_msg 3 30].
Proof. exact rl_corrupt_ts_fixed. Qed.
Print Assumptions C12_corrupt_ts_fixed.

Theorem C12_bound_limits_peer : forall t tz s f,
  rl_r_peer (rl_replay_file_f true t tz s f) <= Z.max (rl_r_peer s) (fst f - 1).
Proof. exact rl_bound_limits_peer. Qed.
Print Assumptions C12_bound_limits_peer.

(* non-vacuity: a concrete two-file log meets the premises of C12_replayed and entries are owed *)
Example C12_nonvacuous :
  let st := rl_w_st rl_w_file in
  rl_ep_dur rl_w_ep <> 0 /\ rl_strict_b (rl_log_entries st) = true /\
  length (rl_log_entries st) = 3%nat /\
  Forall rl_entry_ok [rl_w_e 10 1; rl_w_e 20 2] /\
  forallb (fun f => forallb (fun e => rl_e_ts e <? fst f) (rl_parse_log (snd f))) (rl_files st) = true.
Proof.
  cbv zeta. split; [discriminate|]. split; [vm_compute; reflexivity|]. split; [vm_compute; reflexivity|].
  split; [|vm_compute; reflexivity].
  repeat constructor; cbn [rl_e_ts rl_w_e]; try lia; vm_compute; reflexivity.
Qed.
