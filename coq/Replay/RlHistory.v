(* C12 - histories of the sender model (definitions only): the operations the property quantifies over,
   applied at explicit virtual times. *)
From Icv Require Import Base.Tac Replay.RlBytes Replay.RlModel.
Local Open Scope Z_scope.

Inductive rl_hop :=
| RlHRelay (sec : option (rl_bytes * rl_bytes)) (msg : rl_bytes)   (* a locally generated event is relayed *)
| RlHRotate
| RlHRestart (clean : bool)
| RlHDisc (id : Z)
| RlHConn (id : Z)                                                  (* reconnect + ReplayLog *)
| RlHAck (id p : Z)                                                 (* log::SetLogPosition from the peer *)
| RlHRecv (id ts : Z)                                               (* a message with a timestamp from the peer *)
| RlHTimer.                                                         (* ApiTimerHandler clean-up *)

Definition rl_hstep (t : rl_topo) (now : Z) (op : rl_hop) (st : rl_st) : rl_st :=
  match op with
  | RlHRelay sec msg => rl_rl_st (rl_relay t now sec msg st)
  | RlHRotate => rl_rotate_cycle now st
  | RlHRestart c => rl_restart c now st
  | RlHDisc id => rl_set_eps st (rl_upd_ep (rl_ep_set_conn false false) id (rl_eps st))
  | RlHConn id => match rl_get_ep (rl_eps st) id with Some ep => rl_rr_st (rl_replay t now ep st) | None => st end
  | RlHAck id p => rl_ack id p st
  | RlHRecv id ts => snd (rl_recv id ts st)
  | RlHTimer => rl_cleanup t now st
  end.

Fixpoint rl_hrun (t : rl_topo) (h : list (Z * rl_hop)) (st : rl_st) : rl_st :=
  match h with [] => st | (now, op) :: r => rl_hrun t r (rl_hstep t now op st) end.

Fixpoint rl_hclock (c : Z) (h : list (Z * rl_hop)) : Z :=
  match h with [] => c | (now, _) :: r => rl_hclock now r end.

(* the sender right after Start at time now: empty log directory, current just opened *)
Definition rl_init_st (now : Z) (eps : list rl_ep) : rl_st :=
  {| rl_files := []; rl_cur := []; rl_lmt := now; rl_cnt := 0; rl_eps := eps |}.

(* the property's quantifier: a monotone clock that advances before every relay; relayed events have a
   timestamp below 10^15 s and an encoding below 10^9 bytes (the netstring length limit) *)
Fixpoint rl_hvalid (c : Z) (h : list (Z * rl_hop)) : Prop :=
  match h with
  | [] => True
  | (now, op) :: r =>
      match op with
      | RlHRelay sec msg =>
          c < now /\ now < 10 ^ 15 /\
          Z.of_nat (length (rl_enc_entry {| rl_e_ts := now; rl_e_sec := sec; rl_e_msg := msg |})) < 10 ^ 9
      | _ => c <= now
      end /\ rl_hvalid now r
  end.

(* zones a locally generated event about [sec] is relayed to, one RelayMessageOne each *)
Definition rl_target_zone (t : rl_topo) (sec : option (rl_bytes * rl_bytes)) : Z :=
  match sec with
  | Some (ty, nm) => match rl_find_obj (rl_t_objs t) ty nm with Some z => z | None => rl_t_local t end
  | None => rl_t_local t
  end.
Definition rl_relay_zones (t : rl_topo) (sec : option (rl_bytes * rl_bytes)) : list Z :=
  let tz := rl_target_zone t sec in tz :: rl_parents (length (rl_t_zones t)) t tz.

Definition rl_directly_related (t : rl_topo) (z : Z) : bool :=
  (z =? rl_t_local t) || (z =? rl_zparent t (rl_t_local t)) || (rl_zparent t z =? rl_t_local t).
