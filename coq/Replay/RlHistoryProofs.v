(* C12 - invariants of the sender model over ALL histories (monotone clock advancing before each relay),
   C12_replayed for reachable states without side premises, and completeness of persisting. *)
From Icv Require Import Base.Tac Replay.RlBytes Replay.RlModel Replay.RlBytesProofs Replay.RlProofs Replay.RlHistory.
From Coq Require Import Sorting.Sorted.
Local Open Scope Z_scope.

(* ---------- generic list facts ---------- *)
Lemma rl_SS_app {A} (R : A -> A -> Prop) : forall a b,
  StronglySorted R a -> StronglySorted R b -> (forall x y, In x a -> In y b -> R x y) -> StronglySorted R (a ++ b).
Proof.
  induction a as [|x a IH]; intros b Ha Hb Hc; [assumption|]. inversion Ha; subst. cbn [app]. constructor.
  - apply IH; [assumption|assumption|]. intros; apply Hc; [right|]; assumption.
  - apply Forall_app. split; [assumption|]. apply Forall_forall. intros y Hy. apply Hc; [left; reflexivity|assumption].
Qed.

Lemma rl_SS_filter {A} (R : A -> A -> Prop) g : forall l, StronglySorted R l -> StronglySorted R (filter g l).
Proof.
  induction l as [|x l IH]; intros H; [constructor|]. inversion H; subst. cbn [filter].
  destruct (g x); [|apply IH; assumption]. constructor; [apply IH; assumption|].
  apply Forall_forall. intros y Hy. apply filter_In in Hy. rewrite Forall_forall in H3. apply H3. tauto.
Qed.

Lemma rl_Forall_filter {A} (P : A -> Prop) g l : Forall P l -> Forall P (filter g l).
Proof. rewrite !Forall_forall. intros H x Hx. apply filter_In in Hx. apply H. tauto. Qed.

Lemma rl_Forall_map {A B} (f : A -> B) (P : B -> Prop) l : Forall (fun x => P (f x)) l -> Forall P (map f l).
Proof. induction 1; cbn; constructor; assumption. Qed.

(* ---------- abstract view of a well-formed log directory ---------- *)
Definition rl_fl := list (Z * list rl_entry).
Definition rl_enc_files (fl : rl_fl) : list (Z * rl_bytes) := map (fun f => (fst f, rl_enc_log (snd f))) fl.

(* file f precedes file g: smaller name, and everything in g is at or after f's name *)
Definition rl_fR (f g : Z * list rl_entry) : Prop := fst f < fst g /\ Forall (fun e => fst f <= rl_e_ts e) (snd g).

Definition rl_file_ok (lmt : Z) (f : Z * list rl_entry) : Prop :=
  fst f <= lmt + 1 /\ Forall (fun e => rl_entry_ok e /\ rl_e_ts e < fst f) (snd f) /\ StronglySorted rl_ts_lt (snd f).

Definition rl_cur_ok (lmt : Z) (fl : rl_fl) (ces : list rl_entry) : Prop :=
  Forall (fun e => rl_entry_ok e /\ rl_e_ts e <= lmt) ces /\ StronglySorted rl_ts_lt ces /\
  Forall (fun f => Forall (fun e => fst f <= rl_e_ts e) ces) fl.

Definition rl_hinv_abs (c : Z) (st : rl_st) (fl : rl_fl) (ces : list rl_entry) : Prop :=
  rl_files st = rl_enc_files fl /\ rl_cur st = rl_enc_log ces /\ 0 < rl_lmt st <= c /\
  Forall (rl_file_ok (rl_lmt st)) fl /\ StronglySorted rl_fR fl /\ rl_cur_ok (rl_lmt st) fl ces.

(* THE invariant: the directory holds well-formed encodings of entry lists with: file name > every timestamp
   inside, names increasing, everything in a later file (or current) at or after every earlier file's name,
   strictly increasing timestamps inside each file and current, nothing newer than log_message_timestamp <= clock *)
Definition rl_hinv (c : Z) (st : rl_st) : Prop := exists fl ces, rl_hinv_abs c st fl ces.

Ltac rl_split6 := unfold rl_hinv_abs; split; [|split; [|split; [|split; [|split]]]].
Ltac rl_split3 := unfold rl_cur_ok; split; [|split].

Lemma rl_file_ok_mono l l' f : l <= l' -> rl_file_ok l f -> rl_file_ok l' f.
Proof. intros H (A & B & C). split; [lia|split; assumption]. Qed.

Lemma rl_cur_ok_mono l l' fl ces : l <= l' -> rl_cur_ok l fl ces -> rl_cur_ok l' fl ces.
Proof.
  intros H (A & B & C). rl_split3; try assumption. eapply Forall_impl; [|exact A]. cbn. intros e [? ?]. split; [assumption|lia].
Qed.

Lemma rl_hinv_mono c c' st st' :
  rl_files st' = rl_files st -> rl_cur st' = rl_cur st -> rl_lmt st <= rl_lmt st' <= c' -> rl_hinv c st -> rl_hinv c' st'.
Proof.
  intros Hf Hc Hl (fl & ces & A & B & C & D & E & F). exists fl, ces. rl_split6; rewrite ?Hf, ?Hc; try assumption; try lia.
  - eapply Forall_impl; [|exact D]. intros f. apply rl_file_ok_mono. lia.
  - eapply rl_cur_ok_mono; [|exact F]. lia.
Qed.

Lemma rl_hinv_init now eps : 0 < now -> rl_hinv now (rl_init_st now eps).
Proof.
  intros H. exists [], []. rl_split6; cbn [rl_init_st rl_files rl_cur rl_lmt]; [reflexivity|reflexivity|lia|constructor|constructor|rl_split3; constructor].
Qed.

(* ---------- rotate ---------- *)
Lemma rl_enc_files_fst fl : map fst (rl_enc_files fl) = map fst fl.
Proof. unfold rl_enc_files. rewrite map_map. reflexivity. Qed.

Lemma rl_SS_snoc {A} (R : A -> A -> Prop) l x : StronglySorted R l -> Forall (fun y => R y x) l -> StronglySorted R (l ++ [x]).
Proof.
  intros H1 H2. apply rl_SS_app; [assumption|repeat constructor|].
  intros a b Ha [<-|[]]. rewrite Forall_forall in H2. apply H2. assumption.
Qed.

Lemma rl_hinv_rotate c now st : rl_hinv c st -> rl_hinv c (rl_rotate now st).
Proof.
  intros (fl & ces & A & B & C & D & E & (F1 & F2 & F3)). unfold rl_rotate.
  replace (rl_lmt st =? 0) with false by lia.
  destruct (rl_has_file (rl_files st) (rl_lmt st + 1)) eqn:Eh; [exists fl, ces; rl_split6; try assumption; rl_split3; assumption|].
  set (n := rl_lmt st + 1) in *.
  assert (Forall (fun f => fst f < n) (rl_files st)) as Hlt.
  { apply rl_has_file_false; [assumption|]. rewrite A. unfold rl_enc_files. apply rl_Forall_map. cbn [fst].
    eapply Forall_impl; [|exact D]. intros f (H & _). exact H. }
  assert (Forall (fun f => fst f < n) fl) as Hlt'.
  { rewrite A in Hlt. unfold rl_enc_files in Hlt. rewrite Forall_forall in Hlt |- *. intros f Hf.
    apply (Hlt (fst f, rl_enc_log (snd f))). apply in_map_iff. exists f. split; [reflexivity|assumption]. }
  exists (fl ++ [(n, ces)]), []. rl_split6; cbn [rl_files rl_cur rl_lmt]; rewrite ?rl_insert_last by assumption.
  - rewrite A. unfold rl_enc_files. rewrite map_app. cbn [map fst snd]. rewrite B. reflexivity.
  - reflexivity.
  - lia.
  - apply Forall_app. split; [assumption|]. constructor; [|constructor]. unfold rl_file_ok. cbn [fst snd]. split; [lia|split; [|assumption]].
    eapply Forall_impl; [|exact F1]. cbn. intros e [? ?]. split; [assumption|lia].
  - apply rl_SS_snoc; [assumption|]. rewrite Forall_forall in Hlt', F3 |- *. intros f Hf. split; cbn [fst snd]; [apply Hlt'|apply F3]; assumption.
  - rl_split3; [constructor|constructor|]. apply Forall_forall. intros; constructor.
Qed.

Lemma rl_hinv_open c now st : rl_lmt st <= now -> rl_hinv c st -> rl_hinv now (rl_open now st).
Proof. intros H. apply rl_hinv_mono; cbn; try reflexivity. lia. Qed.

Lemma rl_hinv_rotate_cycle c now st : rl_lmt st <= now -> rl_hinv c st -> rl_hinv now (rl_rotate_cycle now st).
Proof.
  intros H Hi. unfold rl_rotate_cycle. apply (rl_hinv_open c); [|apply rl_hinv_rotate; assumption].
  unfold rl_rotate. destruct (rl_has_file _ _); cbn; assumption.
Qed.

(* ---------- persist ---------- *)
Lemma rl_hinv_persist c now e st : rl_hinv c st -> c < now -> rl_entry_ok e -> rl_e_ts e = now ->
  rl_hinv now (rl_persist now e st) /\
  (forall fl ces, rl_hinv_abs c st fl ces -> exists fl' ces', rl_hinv_abs now (rl_persist now e st) fl' ces' /\
      flat_map snd fl' ++ ces' = flat_map snd fl ++ ces ++ [e]).
Proof.
  intros Hi Hc Hok Hts.
  assert (forall fl ces, rl_hinv_abs c st fl ces ->
          rl_hinv_abs now {| rl_files := rl_files st; rl_cur := rl_cur st ++ rl_frame (rl_enc_entry e);
                             rl_lmt := rl_e_ts e; rl_cnt := rl_cnt st + 1; rl_eps := rl_eps st |} fl (ces ++ [e])) as Hcore.
  { intros fl ces (A & B & C & D & E & (F1 & F2 & F3)). rl_split6; cbn [rl_files rl_cur rl_lmt]; rewrite ?Hts.
    - assumption.
    - rewrite B, rl_enc_log_app. unfold rl_enc_log at 3. cbn [flat_map]. rewrite app_nil_r. reflexivity.
    - lia.
    - eapply Forall_impl; [|exact D]. intros f. apply rl_file_ok_mono. lia.
    - assumption.
    - rl_split3.
      + apply Forall_app. split.
        * eapply Forall_impl; [|exact F1]. cbn. intros x [? ?]. split; [assumption|lia].
        * constructor; [|constructor]. split; [assumption|lia].
      + apply rl_SS_snoc; [assumption|]. eapply Forall_impl; [|exact F1]. cbn. unfold rl_ts_lt. intros x [? ?]. lia.
      + rewrite Forall_forall in F3, D |- *. intros f Hf. apply Forall_app. split; [apply F3; assumption|].
        constructor; [|constructor]. destruct (D f Hf) as (Hn & _). lia. }
  unfold rl_persist. cbv zeta.
  match goal with |- context [if ?b then _ else _] => destruct b eqn:Eb end.
  - assert (forall fl ces, rl_hinv_abs c st fl ces -> exists fl' ces',
              rl_hinv_abs now (rl_rotate_cycle now {| rl_files := rl_files st; rl_cur := rl_cur st ++ rl_frame (rl_enc_entry e);
                 rl_lmt := rl_e_ts e; rl_cnt := rl_cnt st + 1; rl_eps := rl_eps st |}) fl' ces' /\
              flat_map snd fl' ++ ces' = flat_map snd fl ++ ces ++ [e]) as Hrot.
    { intros fl ces Habs. specialize (Hcore fl ces Habs).
      set (s1 := {| rl_files := rl_files st; rl_cur := rl_cur st ++ rl_frame (rl_enc_entry e); rl_lmt := rl_e_ts e; rl_cnt := rl_cnt st + 1; rl_eps := rl_eps st |}) in *.
      destruct Hcore as (A & B & C & D & E & (F1 & F2 & F3)).
      unfold rl_rotate_cycle, rl_rotate. replace (rl_lmt s1 =? 0) with false by (cbn [rl_lmt s1] in *; lia).
      destruct (rl_has_file (rl_files s1) (rl_lmt s1 + 1)) eqn:Eh.
      - exists fl, (ces ++ [e]). split; [|reflexivity]. unfold rl_open.
        cbn [rl_lmt s1] in C, D, F1, F2, F3. rewrite Hts in *.
        rl_split6; cbn [rl_files rl_cur rl_lmt rl_set_lmt s1]; try assumption; try lia. rl_split3; assumption.
      - set (n := rl_lmt s1 + 1) in *.
        assert (Forall (fun f => fst f < n) (rl_files s1)) as Hlt.
        { apply rl_has_file_false; [assumption|]. rewrite A. unfold rl_enc_files. apply rl_Forall_map. cbn [fst].
          eapply Forall_impl; [|exact D]. intros f (H & _). exact H. }
        assert (Forall (fun f => fst f < n) fl) as Hlt'.
        { rewrite A in Hlt. unfold rl_enc_files in Hlt. rewrite Forall_forall in Hlt |- *. intros f Hf.
          apply (Hlt (fst f, rl_enc_log (snd f))). apply in_map_iff. exists f. split; [reflexivity|assumption]. }
        exists (fl ++ [(n, ces ++ [e])]), []. split.
        + unfold rl_open. rl_split6; cbn [rl_files rl_cur rl_lmt rl_set_lmt]; rewrite ?rl_insert_last by assumption.
          * rewrite A. unfold rl_enc_files. rewrite map_app. cbn [map fst snd]. rewrite B. reflexivity.
          * reflexivity.
          * cbn [rl_lmt s1] in C. lia.
          * cbn [rl_lmt s1] in D, F1, n. apply Forall_app. split; [eapply Forall_impl; [|exact D]; intros f; apply rl_file_ok_mono; lia|].
            constructor; [|constructor]. unfold rl_file_ok. cbn [fst snd]. split; [unfold n; lia|split; [|assumption]].
            eapply Forall_impl; [|exact F1]. cbn. intros x [? ?]. split; [assumption|unfold n; lia].
          * apply rl_SS_snoc; [assumption|]. rewrite Forall_forall in Hlt', F3 |- *. intros f Hf. split; cbn [fst snd]; [apply Hlt'|apply F3]; assumption.
          * rl_split3; [constructor|constructor|]. apply Forall_forall. intros; constructor.
        + rewrite flat_map_app. cbn [flat_map snd]. rewrite !app_nil_r. reflexivity. }
    split; [|exact Hrot]. destruct Hi as (fl & ces & Habs). destruct (Hrot fl ces Habs) as (fl' & ces' & H & _). exists fl', ces'. exact H.
  - split.
    + destruct Hi as (fl & ces & Habs). exists fl, (ces ++ [e]). apply Hcore. assumption.
    + intros fl ces Habs. exists fl, (ces ++ [e]). split; [apply Hcore; assumption|reflexivity].
Qed.

(* ---------- clean-up ---------- *)
Lemma rl_filter_enc_files g fl :
  filter (fun f => g (fst f)) (rl_enc_files fl) = rl_enc_files (filter (fun f => g (fst f)) fl).
Proof.
  induction fl as [|f fl IH]; [reflexivity|]. cbn [rl_enc_files map filter fst]. fold (rl_enc_files fl).
  destruct (g (fst f)); cbn [map]; fold (rl_enc_files (filter (fun f0 => g (fst f0)) fl)); rewrite IH; reflexivity.
Qed.

Lemma rl_hinv_cleanup c t now st : rl_hinv c st -> rl_hinv c (rl_cleanup t now st).
Proof.
  intros (fl & ces & A & B & C & D & E & (F1 & F2 & F3)). unfold rl_cleanup.
  exists (filter (fun f => rl_needed t now (rl_eps st) (fst f)) fl), ces. rl_split6; cbn [rl_files rl_cur rl_lmt rl_set_files]; try assumption.
  - rewrite A. apply (rl_filter_enc_files (rl_needed t now (rl_eps st))).
  - apply rl_Forall_filter. assumption.
  - apply rl_SS_filter. assumption.
  - rl_split3; try assumption. apply rl_Forall_filter. assumption.
Qed.

(* ---------- every operation preserves the invariant ---------- *)
Lemma rl_relay_shape t now sec msg st :
  exists eps', let st1 := rl_set_eps st eps' in
    rl_rl_st (rl_relay t now sec msg st) =
      if rl_rl_logged (rl_relay t now sec msg st)
      then rl_persist now {| rl_e_ts := now; rl_e_sec := sec; rl_e_msg := msg |} st1 else st1.
Proof.
  unfold rl_relay. match goal with |- context [fold_left ?f ?l ?a] => destruct (fold_left f l a) as [[need live] eps'] end.
  exists eps'. destruct need; reflexivity.
Qed.

Lemma rl_hinv_step t c now op st :
  rl_hinv c st -> rl_hvalid c [(now, op)] -> rl_hinv now (rl_hstep t now op st).
Proof.
  intros Hi [Hv _]. pose proof Hi as (fl0 & ces0 & _ & _ & Hl & _).
  destruct op as [sec msg| |clean|id|id|id p|id ts|]; cbn [rl_hstep].
  - destruct Hv as (Hc & Hn & Hlen). destruct (rl_relay_shape t now sec msg st) as (eps' & Hs). cbv zeta in Hs. rewrite Hs.
    assert (rl_hinv c (rl_set_eps st eps')) as H1 by (eapply rl_hinv_mono; [| | |exact Hi]; cbn; try reflexivity; lia).
    destruct (rl_rl_logged _).
    + apply (rl_hinv_persist c); [assumption|assumption| |reflexivity]. split; cbn [rl_e_ts]; [lia|assumption].
    + eapply rl_hinv_mono; [| | |exact H1]; cbn; try reflexivity; lia.
  - apply (rl_hinv_rotate_cycle c); [lia|assumption].
  - unfold rl_restart. destruct clean.
    + eapply rl_hinv_mono; [| | |apply (rl_hinv_rotate c now st Hi)]; cbn [rl_files rl_cur rl_lmt]; try reflexivity.
      unfold rl_rotate. destruct (rl_has_file _ _); cbn [rl_lmt]; lia.
    + eapply rl_hinv_mono; [| | |exact Hi]; cbn; try reflexivity; lia.
  - eapply rl_hinv_mono; [| | |exact Hi]; cbn; try reflexivity; lia.
  - destruct (rl_get_ep (rl_eps st) id) as [ep|]; [|eapply rl_hinv_mono; [| | |exact Hi]; try reflexivity; lia].
    unfold rl_replay. destruct (rl_ep_dur ep =? 0).
    + eapply rl_hinv_mono; [| | |exact Hi]; cbn; try reflexivity; lia.
    + destruct (rl_replay_loop _ _ _ _ _ _ _) as [s d]. eapply rl_hinv_mono; [| | |exact Hi]; cbn; try reflexivity; lia.
  - eapply rl_hinv_mono; [| | |exact Hi]; cbn; try reflexivity; lia.
  - unfold rl_recv. destruct (rl_get_ep _ _) as [e|]; [destruct (ts <? rl_ep_rpos e)|];
      (eapply rl_hinv_mono; [| | |exact Hi]; cbn; try reflexivity; lia).
  - eapply rl_hinv_mono; [| | |apply (rl_hinv_cleanup c t now st Hi)]; try reflexivity. cbn. lia.
Qed.

Theorem rl_history_invariant t : forall h c st,
  rl_hinv c st -> rl_hvalid c h -> rl_hinv (rl_hclock c h) (rl_hrun t h st).
Proof.
  induction h as [|[now op] h IH]; intros c st Hi Hv; [exact Hi|]. cbn [rl_hrun rl_hclock].
  destruct Hv as [Hv Hr]. apply IH; [|exact Hr]. apply (rl_hinv_step t c); [assumption|]. split; [exact Hv|exact I].
Qed.

(* ---------- what the invariant gives ---------- *)
Lemma rl_parse_enc_log es : Forall rl_entry_ok es -> rl_parse_log (rl_enc_log es) = es.
Proof.
  intros H. pose proof (rl_prefix_stable es [] H) as P. rewrite app_nil_r in P. rewrite P. rewrite rl_parse_nil, app_nil_r. reflexivity.
Qed.

Lemma rl_fentries_enc lmt fl : Forall (rl_file_ok lmt) fl -> rl_fentries (rl_enc_files fl) = flat_map snd fl.
Proof.
  induction 1 as [|f fl (A & B & C) H IH]; [reflexivity|]. cbn [rl_enc_files map rl_fentries flat_map snd].
  fold (rl_enc_files fl). fold (rl_fentries (rl_enc_files fl)). rewrite IH, rl_parse_enc_log; [reflexivity|].
  eapply Forall_impl; [|exact B]. cbn. tauto.
Qed.

Lemma rl_hinv_entries c st fl ces : rl_hinv_abs c st fl ces -> rl_log_entries st = flat_map snd fl ++ ces.
Proof.
  intros (A & B & C & D & E & (F1 & F2 & F3)). rewrite rl_log_entries_eq, A, B, (rl_fentries_enc _ _ D), rl_parse_enc_log; [reflexivity|].
  eapply Forall_impl; [|exact F1]. cbn. tauto.
Qed.

Lemma rl_SS_concat lmt : forall fl ces, Forall (rl_file_ok lmt) fl -> StronglySorted rl_fR fl ->
  StronglySorted rl_ts_lt ces -> Forall (fun f => Forall (fun e => fst f <= rl_e_ts e) ces) fl ->
  StronglySorted rl_ts_lt (flat_map snd fl ++ ces).
Proof.
  induction fl as [|f fl IH]; intros ces Hok Hs Hc Ha; [exact Hc|].
  inversion Hok as [|? ? (A & B & C) Hok']; subst. inversion Hs as [|? ? Hs' HR]; subst. inversion Ha as [|? ? Ha1 Ha']; subst.
  cbn [flat_map]. rewrite <- app_assoc. apply rl_SS_app; [assumption|apply IH; assumption|].
  intros x y Hx Hy. unfold rl_ts_lt. rewrite Forall_forall in B. destruct (B x Hx) as [_ Hlt].
  apply in_app_iff in Hy. destruct Hy as [Hy|Hy].
  - apply in_flat_map in Hy. destruct Hy as (g & Hg & Hyg). rewrite Forall_forall in HR. destruct (HR g Hg) as [_ Hge].
    rewrite Forall_forall in Hge. specialize (Hge y Hyg). lia.
  - rewrite Forall_forall in Ha1. specialize (Ha1 y Hy). lia.
Qed.

Theorem rl_hinv_facts c st : rl_hinv c st ->
  rl_name_bound (rl_files st) /\ StronglySorted rl_ts_lt (rl_log_entries st) /\
  StronglySorted Z.lt (map fst (rl_files st)).
Proof.
  intros (fl & ces & Habs). pose proof (rl_hinv_entries c st fl ces Habs) as He.
  destruct Habs as (A & B & C & D & E & (F1 & F2 & F3)). repeat split.
  - unfold rl_name_bound. rewrite A. unfold rl_enc_files. apply rl_Forall_map. cbn [fst snd].
    eapply Forall_impl; [|exact D]. intros f (H1 & H2 & H3). rewrite rl_parse_enc_log.
    + eapply Forall_impl; [|exact H2]. cbn. tauto.
    + eapply Forall_impl; [|exact H2]. cbn. tauto.
  - rewrite He. apply (rl_SS_concat (rl_lmt st)); assumption.
  - rewrite A, rl_enc_files_fst. clear - E. induction E as [|f fl Hs IH HR]; cbn [map]; constructor; [assumption|].
    apply rl_Forall_map. eapply Forall_impl; [|exact HR]. intros g [H _]. exact H.
Qed.

(* C12_replayed for reachable states: no premise about timestamps or file names *)
Theorem rl_replayed_reachable t now ep c st :
  rl_hinv c st -> rl_ep_dur ep <> 0 ->
  let r := rl_replay t now ep st in
  rl_msgs (rl_rr_out r) = map rl_e_msg (filter (rl_sel t (rl_ep_zone ep) (rl_ep_pos ep)) (rl_log_entries st)) /\
  rl_rr_done r = true.
Proof.
  intros Hi Hd. destruct (rl_hinv_facts c st Hi) as (A & B & _). apply rl_replayed; assumption.
Qed.

(* ---------- completeness of persisting ---------- *)
Definition rl_view (eps : list rl_ep) := map (fun e => (rl_ep_id e, rl_ep_zone e, rl_ep_conn e, rl_ep_sync e)) eps.

Lemma rl_view_set_pos p id eps : rl_view (rl_upd_ep (rl_ep_set_pos p) id eps) = rl_view eps.
Proof.
  unfold rl_view, rl_upd_ep. rewrite map_map. apply map_ext. intros e. destruct (rl_ep_id e =? id); reflexivity.
Qed.

Lemma rl_view_fold_pos p ids : forall eps, rl_view (fold_left (fun eps id => rl_upd_ep (rl_ep_set_pos p) id eps) ids eps) = rl_view eps.
Proof. induction ids as [|i ids IH]; intros eps; [reflexivity|]. cbn [fold_left]. rewrite IH. apply rl_view_set_pos. Qed.

(* all endpoints of a foreign zone disconnected: log_needed, not log_done *)
Lemma rl_zone_eps_all_disc : forall eps relayed ln ld live sk,
  Forall (fun e => rl_ep_conn e = false) eps ->
  rl_relay_zone_eps false eps relayed ln ld live sk = (match eps with [] => ln | _ => true end, ld, live, sk).
Proof.
  induction eps as [|e eps IH]; intros relayed ln ld live sk H; [reflexivity|]. inversion H; subst.
  cbn [rl_relay_zone_eps]. rewrite H2. cbn [negb]. rewrite IH by assumption. destruct eps; reflexivity.
Qed.

(* local zone: the endpoint iterated last decides *)
Lemma rl_zone_eps_local_last : forall l e relayed ln ld live sk, rl_ep_conn e = false ->
  exists live' sk', rl_relay_zone_eps true (l ++ [e]) relayed ln ld live sk = (true, false, live', sk').
Proof.
  induction l as [|x l IH]; intros e relayed ln ld live sk He.
  - cbn [app rl_relay_zone_eps]. rewrite He. cbn. eexists _, _. reflexivity.
  - cbn [app rl_relay_zone_eps]. destruct (negb (rl_ep_conn x)); [apply IH; assumption|].
    destruct (relayed && negb true); apply IH; assumption.
Qed.

(* when does a zone make RelayMessageOne demand the replay log *)
Definition rl_zone_undelivered (t : rl_topo) (eps : list rl_ep) (z : Z) : Prop :=
  let zeps := rl_zone_eps eps z in
  if z =? rl_t_local t
  then exists l e, zeps = l ++ [e] /\ rl_ep_conn e = false           (* local zone: the member iterated last is disconnected *)
  else zeps <> [] /\ Forall (fun e => rl_ep_conn e = false) zeps.    (* other zones: no member is connected *)

Lemma rl_zone_eps_view eps eps' z : rl_view eps' = rl_view eps ->
  map (fun e => rl_ep_conn e) (rl_zone_eps eps' z) = map (fun e => rl_ep_conn e) (rl_zone_eps eps z).
Proof.
  revert eps'. induction eps as [|e eps IH]; intros [|e' eps'] H; try discriminate; [reflexivity|].
  cbn [rl_view map] in H. inversion H as [[H1 H2 H3 H4 H5]]. unfold rl_zone_eps. cbn [filter]. rewrite H2.
  destruct (rl_ep_zone e =? z); cbn [map]; [rewrite H3; f_equal|]; apply IH; assumption.
Qed.

Lemma rl_undelivered_view t eps eps' z : rl_view eps' = rl_view eps -> rl_zone_undelivered t eps z -> rl_zone_undelivered t eps' z.
Proof.
  intros Hv. pose proof (rl_zone_eps_view eps eps' z Hv) as Hm. unfold rl_zone_undelivered. cbv zeta.
  set (a := rl_zone_eps eps z) in *. set (b := rl_zone_eps eps' z) in *. clearbody a b.
  destruct (z =? rl_t_local t).
  - intros (l & e & -> & He). rewrite map_app in Hm. cbn [map] in Hm.
    destruct (@exists_last _ b) as (l' & e' & ->); [intros ->; destruct l; discriminate|].
    rewrite map_app in Hm. cbn [map] in Hm. apply app_inj_tail in Hm. destruct Hm as [_ Hc]. exists l', e'. split; [reflexivity|congruence].
  - intros [Hne Hall]. split; [intros ->; destruct a; [congruence|discriminate]|].
    assert (Forall (fun c => c = false) (map (fun e => rl_ep_conn e) a)) as H1 by (apply rl_Forall_map; exact Hall).
    rewrite <- Hm in H1. clear - H1. induction b; [constructor|]. cbn [map] in H1. inversion H1; subst. constructor; [assumption|apply IHb; assumption].
Qed.

Lemma rl_relay_one_need t eps z :
  rl_zglobal t z = false -> rl_directly_related t z = true -> rl_zone_undelivered t eps z ->
  rl_zr_need (rl_relay_one t eps z) = true.
Proof.
  intros Hg Hrel Hu. unfold rl_relay_one. rewrite Hg. cbn [negb andb].
  unfold rl_directly_related in Hrel.
  destruct (z =? rl_t_local t) eqn:E1; destruct (z =? rl_zparent t (rl_t_local t)) eqn:E2;
    destruct (rl_zparent t z =? rl_t_local t) eqn:E3; cbn [negb andb orb] in *; try discriminate;
    cbn [fold_left]; unfold rl_zone_undelivered in Hu; cbv zeta in Hu; rewrite E1 in Hu; rewrite ?E1.
  all: try (destruct Hu as (l & e & Hz & He); rewrite Hz;
            destruct (rl_zone_eps_local_last l e false false false [] [] He) as (lv & sk & Hr); rewrite Hr; reflexivity).
  all: destruct Hu as [Hne Hall]; rewrite (rl_zone_eps_all_disc _ false false false [] [] Hall);
       destruct (rl_zone_eps eps z); [congruence|reflexivity].
Qed.

Lemma rl_relay_fold_need t now : forall zs need live eps z,
  In z zs -> rl_zglobal t z = false -> rl_directly_related t z = true -> rl_zone_undelivered t eps z ->
  fst (fst (fold_left (fun '(need, live, eps) z =>
                 let r := rl_relay_one t eps z in
                 (need || rl_zr_need r, live ++ rl_zr_live r,
                  fold_left (fun eps id => rl_upd_ep (rl_ep_set_pos now) id eps) (rl_zr_skipped r) eps))
              zs (need, live, eps))) = true.
Proof.
  induction zs as [|y zs IH]; intros need live eps z Hin Hg Hrel Hu; [contradiction|]. cbn [fold_left].
  destruct Hin as [->|Hin].
  - rewrite (rl_relay_one_need t eps z Hg Hrel Hu), orb_true_r.
    clear. generalize (live ++ rl_zr_live (rl_relay_one t eps z)).
    generalize (fold_left (fun eps0 id => rl_upd_ep (rl_ep_set_pos now) id eps0) (rl_zr_skipped (rl_relay_one t eps z)) eps).
    induction zs as [|y zs IH]; intros e l; [reflexivity|]. cbn [fold_left orb]. apply IH.
  - apply (IH _ _ _ z); try assumption. eapply rl_undelivered_view; [|exact Hu]. apply rl_view_fold_pos.
Qed.

(* C12_persist_complete, part 1: such an event reaches PersistMessage *)
Theorem rl_persist_complete_logged t now sec msg st z :
  In z (rl_relay_zones t sec) -> rl_zglobal t z = false -> rl_directly_related t z = true ->
  rl_zone_undelivered t (rl_eps st) z ->
  rl_rl_logged (rl_relay t now sec msg st) = true.
Proof.
  intros Hin Hg Hrel Hu. unfold rl_relay. fold (rl_target_zone t sec).
  pose proof (rl_relay_fold_need t now (rl_relay_zones t sec) false [] (rl_eps st) z Hin Hg Hrel Hu) as H.
  unfold rl_relay_zones in H. cbv zeta in H.
  match goal with |- context [fold_left ?f ?l ?a] => destruct (fold_left f l a) as [[need live] eps'] end.
  cbn [fst] in H. subst need. reflexivity.
Qed.

(* part 2: and is in the log afterwards, as its last entry *)
Theorem rl_persist_complete t c now sec msg st z :
  rl_hinv c st -> rl_hvalid c [(now, RlHRelay sec msg)] ->
  In z (rl_relay_zones t sec) -> rl_zglobal t z = false -> rl_directly_related t z = true ->
  rl_zone_undelivered t (rl_eps st) z ->
  rl_log_entries (rl_hstep t now (RlHRelay sec msg) st) =
    rl_log_entries st ++ [{| rl_e_ts := now; rl_e_sec := sec; rl_e_msg := msg |}].
Proof.
  intros Hi [(Hc & Hn & Hlen) _] Hin Hg Hrel Hu. cbn [rl_hstep].
  destruct (rl_relay_shape t now sec msg st) as (eps' & Hs). cbv zeta in Hs. rewrite Hs.
  rewrite (rl_persist_complete_logged t now sec msg st z Hin Hg Hrel Hu).
  destruct Hi as (fl & ces & Habs). pose proof Habs as (_ & _ & Hl & _).
  assert (rl_hinv_abs c (rl_set_eps st eps') fl ces) as Habs' by exact Habs.
  set (e := {| rl_e_ts := now; rl_e_sec := sec; rl_e_msg := msg |}).
  destruct (rl_hinv_persist c now e (rl_set_eps st eps')) as (_ & Hp); [exists fl, ces; exact Habs'|lia| |reflexivity|].
  { split; cbn [rl_e_ts e]; [lia|assumption]. }
  destruct (Hp fl ces Habs') as (fl' & ces' & Hnew & Heq).
  rewrite (rl_hinv_entries _ _ _ _ Hnew), Heq, (rl_hinv_entries _ _ _ _ Habs), app_assoc. reflexivity.
Qed.

(* ---------- acknowledgements ---------- *)
(* If the position the peer acknowledges covers only entries it really received ("honest"), nothing owed is lost:
   every owed entry was delivered before or is replayed now.  The recorded finding
   replay-setlogposition-acks-wrong-log is exactly a violation of this hypothesis produced by the code itself. *)
Theorem rl_no_loss_honest_ack t now ep c st p delivered :
  rl_hinv c st -> rl_ep_dur ep <> 0 ->
  (forall e, In e (rl_log_entries st) -> rl_can_access t (rl_ep_zone ep) (rl_e_sec e) = true ->
             rl_ep_pos ep < rl_e_ts e <= p -> In (rl_e_msg e) delivered) ->
  let ep' := if rl_ep_pos ep <? p then rl_ep_set_pos p ep else ep in
  forall e, In e (rl_log_entries st) -> rl_ep_pos ep < rl_e_ts e -> rl_can_access t (rl_ep_zone ep) (rl_e_sec e) = true ->
    In (rl_e_msg e) delivered \/ In (rl_e_msg e) (rl_msgs (rl_rr_out (rl_replay t now ep' st))).
Proof.
  intros Hi Hd Hon ep' e He Hts Hacc.
  assert (rl_ep_dur ep' <> 0 /\ rl_ep_zone ep' = rl_ep_zone ep /\ (rl_ep_pos ep' = p /\ rl_ep_pos ep < p \/ rl_ep_pos ep' = rl_ep_pos ep /\ p <= rl_ep_pos ep)) as (Hd' & Hz & Hp).
  { unfold ep'. destruct (rl_ep_pos ep <? p) eqn:E; cbn; repeat split; try assumption; [left|right]; split; try reflexivity; lia. }
  destruct (rl_replayed_reachable t now ep' c st Hi Hd') as [Hm _]. rewrite Hm, Hz.
  destruct (Z_le_gt_dec (rl_e_ts e) (rl_ep_pos ep')) as [Hle|Hgt].
  - left. apply Hon; try assumption. destruct Hp as [[H1 H2]|[H1 H2]]; lia.
  - right. apply in_map. apply filter_In. split; [assumption|]. unfold rl_sel. rewrite Hacc. replace (rl_ep_pos ep' <? rl_e_ts e) with true by lia. reflexivity.
Qed.

(* ---------- statements over histories from the start of the sender ---------- *)
Theorem rl_history_invariant_init t now0 eps h :
  0 < now0 -> rl_hvalid now0 h ->
  let st := rl_hrun t h (rl_init_st now0 eps) in
  rl_hinv (rl_hclock now0 h) st /\
  rl_name_bound (rl_files st) /\ StronglySorted rl_ts_lt (rl_log_entries st) /\ StronglySorted Z.lt (map fst (rl_files st)).
Proof.
  intros H0 Hv. cbv zeta. pose proof (rl_history_invariant t h now0 _ (rl_hinv_init now0 eps H0) Hv) as Hi.
  split; [exact Hi|]. exact (rl_hinv_facts _ _ Hi).
Qed.

Theorem rl_replayed_history t now0 eps h now ep :
  0 < now0 -> rl_hvalid now0 h -> rl_ep_dur ep <> 0 ->
  let st := rl_hrun t h (rl_init_st now0 eps) in
  let r := rl_replay t now ep st in
  rl_msgs (rl_rr_out r) = map rl_e_msg (filter (rl_sel t (rl_ep_zone ep) (rl_ep_pos ep)) (rl_log_entries st)) /\
  rl_rr_done r = true.
Proof.
  intros H0 Hv Hd. cbv zeta. apply (rl_replayed_reachable t now ep (rl_hclock now0 h)); [|assumption].
  apply rl_history_invariant; [apply rl_hinv_init; assumption|assumption].
Qed.
