(* C12 - sizes: the reader with limits (what it returns, what it rejects), the limits of the current source,
   "what PersistMessage can write ReplayLog can read", the size premise of C12_replayed made explicit and shown
   necessary, and the run-length encoded strings used for large payloads. *)
From Icv Require Import Base.Tac Replay.RlBytes Replay.RlModel Replay.RlBytesProofs Replay.RlProofs Replay.RlHistory
  Replay.RlHistoryProofs Replay.RlSize Facts.Facts_c12.
Local Open Scope Z_scope.

(* ---------- the instance (9, none) is the reader of RlBytes.v ---------- *)
Lemma rl_ns_len_lim_9 : forall hdr i len, rl_ns_len_lim 9 hdr i len = rl_ns_len hdr i len.
Proof. induction hdr as [|c t IH]; intros i len; cbn [rl_ns_len_lim rl_ns_len]; [reflexivity|]. rewrite IH. reflexivity. Qed.

Lemma rl_ns_read_lim_pinned buf : rl_ns_read_lim 9 None buf = rl_ns_read buf.
Proof. unfold rl_ns_read_lim, rl_ns_read. destruct (rl_scan buf 0); try reflexivity. rewrite rl_ns_len_lim_9. reflexivity. Qed.

Lemma rl_parse_log_lim_f_pinned : forall f buf, rl_parse_log_lim_f 9 None f buf = rl_parse_log_f f buf.
Proof.
  induction f as [|f IH]; intros buf; cbn [rl_parse_log_lim_f rl_parse_log_f]; [reflexivity|].
  rewrite rl_ns_read_lim_pinned. destruct (rl_ns_read buf); try reflexivity. destruct (rl_dec_entry payload); [|reflexivity].
  rewrite IH. reflexivity.
Qed.

Theorem rl_parse_log_lim_pinned buf : rl_parse_log_lim 9 None buf = rl_parse_log buf.
Proof. apply rl_parse_log_lim_f_pinned. Qed.

(* ---------- decimal strings, any number of digits up to the 20 the printer is defined for ---------- *)
Lemma rl_pow10_pos k : 0 < 10 ^ Z.of_nat k.
Proof. apply Z.pow_pos_nonneg; lia. Qed.

Lemma rl_pow10_mono (a b : nat) : (a <= b)%nat -> 10 ^ Z.of_nat a <= 10 ^ Z.of_nat b.
Proof. intros H. apply Z.pow_le_mono_r; lia. Qed.

Lemma rl_digits_props_k n (k : nat) : (1 <= k <= 20)%nat -> 0 <= n < 10 ^ Z.of_nat k ->
  let ds := rl_digits n in
  rl_alld ds /\ (1 <= length ds <= k)%nat /\ rl_dval 0 ds = n /\
  (exists d r, ds = d :: r /\ (d = 48 -> n = 0 /\ r = [])).
Proof.
  intros Hk Hn ds. unfold ds, rl_digits.
  assert (n < 10 ^ Z.of_nat 20) as H20 by (pose proof (rl_pow10_mono k 20 ltac:(lia)); lia).
  repeat split.
  - apply rl_digits_aux_all. constructor.
  - pose proof (rl_digits_aux_nonempty 19 n). destruct (rl_digits_aux 20 n []); [congruence|cbn; lia].
  - destruct k as [|k]; [lia|]. apply (rl_digits_aux_len 19 n k). lia.
  - apply rl_digits_aux_val. lia.
  - destruct (Z.eq_dec n 0) as [->|Hnz].
    + exists 48, []. split; [reflexivity|]. intros _. split; reflexivity.
    + destruct (rl_digits_aux_head 19 n) as (d & r & Hd & Hne); [lia|].
      exists d, r. split; [assumption|]. intros; contradiction.
Qed.

Lemma rl_dval_bound : forall ds a, rl_alld ds -> 0 <= a -> rl_dval a ds < (a + 1) * 10 ^ Z.of_nat (length ds).
Proof.
  induction ds as [|c ds IH]; intros a Hd Ha.
  - cbn. lia.
  - inversion Hd as [|? ? Hc Hds]; subst. unfold rl_isdigit in Hc.
    change (rl_dval a (c :: ds)) with (rl_dval (a * 10 + (c - 48)) ds).
    specialize (IH (a * 10 + (c - 48)) Hds ltac:(lia)).
    cbn [length]. rewrite Nat2Z.inj_succ, Z.pow_succ_r by lia.
    pose proof (rl_pow10_pos (length ds)). nia.
Qed.

(* a number with at most k digits is below 10^k *)
Lemma rl_digits_len_lower n (k : nat) : 0 <= n < 10 ^ Z.of_nat 20 -> (length (rl_digits n) <= k)%nat -> n < 10 ^ Z.of_nat k.
Proof.
  intros Hn Hl.
  assert (rl_alld (rl_digits n)) as Hall by (apply rl_digits_aux_all; constructor).
  assert (rl_dval 0 (rl_digits n) = n) as Hv by (apply rl_digits_aux_val; lia).
  pose proof (rl_dval_bound (rl_digits n) 0 Hall ltac:(lia)) as Hb. rewrite Hv in Hb.
  pose proof (rl_pow10_mono _ _ Hl). lia.
Qed.

(* ---------- the length loop ---------- *)
Lemma rl_ns_len_lim_digits digits : forall ds i a, rl_alld ds -> 0 <= i -> i + Z.of_nat (length ds) <= digits ->
  rl_ns_len_lim digits ds i a = Some (rl_dval a ds).
Proof.
  induction ds as [|c ds IH]; intros i a Hd Hi Hle; [reflexivity|].
  inversion Hd as [|? ? Hc Hds]; subst. cbn [rl_ns_len_lim]. rewrite Hc. cbn [length] in Hle.
  destruct (digits <=? i) eqn:E; [lia|]. rewrite IH by (try assumption; lia). reflexivity.
Qed.

Lemma rl_ns_len_lim_over digits : forall ds i a, rl_alld ds -> i <= digits -> digits < i + Z.of_nat (length ds) ->
  rl_ns_len_lim digits ds i a = None.
Proof.
  induction ds as [|c ds IH]; intros i a Hd Hi Hgt; [cbn in Hgt; lia|].
  inversion Hd as [|? ? Hc Hds]; subst. cbn [rl_ns_len_lim]. rewrite Hc. cbn [length] in Hgt.
  destruct (digits <=? i) eqn:E; [reflexivity|]. apply IH; [assumption|lia|lia].
Qed.

(* ---------- what the reader with limits returns for an intact frame ---------- *)
Lemma rl_frame_shape p rest :
  Z.of_nat (length p) < 10 ^ 17 ->
  let ds := rl_digits (Z.of_nat (length p)) in
  rl_alld ds /\ (1 <= length ds <= 17)%nat /\ rl_dval 0 ds = Z.of_nat (length p) /\
  rl_scan (rl_frame p ++ rest) 0 = RlScanAt (Z.of_nat (length ds)) /\
  (nth 0 (rl_frame p ++ rest) 0 =? 48) && rl_isdigit (nth 1 (rl_frame p ++ rest) 0) = false /\
  firstn (length ds) (rl_frame p ++ rest) = ds /\
  skipn (length ds + 1) (rl_frame p ++ rest) = p ++ 44 :: rest.
Proof.
  intros Hlen ds.
  destruct (rl_digits_props_k (Z.of_nat (length p)) 17) as (Hall & Hl & Hval & (d & r & Hds & Hz)); [lia|change (Z.of_nat 17) with 17; lia|].
  fold ds in Hall, Hl, Hval, Hds.
  assert (rl_frame p ++ rest = ds ++ 58 :: p ++ 44 :: rest) as Hf.
  { unfold rl_frame. fold ds. rewrite <- !app_assoc. reflexivity. }
  rewrite Hf. repeat split; try assumption; try lia.
  - rewrite rl_scan_digits by (try assumption; lia). f_equal.
  - rewrite Hds. cbn [app nth]. destruct (d =? 48) eqn:E; [|reflexivity].
    apply Z.eqb_eq in E. destruct (Hz E) as (_ & ->). cbn. reflexivity.
  - apply rl_firstn_app.
  - apply rl_skipn_app1.
Qed.

Theorem rl_ns_read_lim_frame digits maxlen p rest :
  1 <= digits <= 17 -> rl_frame_accepts digits maxlen (Z.of_nat (length p)) = true ->
  rl_ns_read_lim digits maxlen (rl_frame p ++ rest) = RlItem p rest.
Proof.
  intros Hd Hacc. unfold rl_frame_accepts in Hacc. apply andb_true_iff in Hacc. destruct Hacc as [Hlt Hmax].
  apply Z.ltb_lt in Hlt. apply negb_true_iff in Hmax.
  assert (10 ^ digits <= 10 ^ 17) as Hp by (apply Z.pow_le_mono_r; lia).
  destruct (rl_frame_shape p rest) as (Hall & Hl & Hval & Hscan & Hlz & Hfirst & Hskip); [lia|].
  set (ds := rl_digits (Z.of_nat (length p))) in *.
  unfold rl_ns_read_lim. rewrite Hscan, Hlz, Nat2Z.id, Hfirst.
  assert (Z.of_nat (length ds) <= digits) as Hdl.
  { destruct (Z_le_gt_dec (Z.of_nat (length ds)) digits) as [H|H]; [exact H|exfalso].
    assert (length ds <= Z.to_nat digits)%nat as Hc.
    { (* a number below 10^digits has at most [digits] digits *)
      destruct (rl_digits_props_k (Z.of_nat (length p)) (Z.to_nat digits)) as (_ & Hl' & _); [lia|rewrite Z2Nat.id by lia; lia|].
      fold ds in Hl'. lia. }
    lia. }
  rewrite rl_ns_len_lim_digits by (try assumption; lia). rewrite Hval, Hmax, Hskip.
  rewrite app_length. cbn [length].
  destruct (Z.of_nat (length p + S (length rest)) <? Z.of_nat (length p) + 1) eqn:E; [lia|].
  rewrite Nat2Z.id. rewrite nth_middle. cbn [Z.eqb Pos.eqb].
  rewrite rl_firstn_app, rl_skipn_app1. reflexivity.
Qed.

(* ... and what it does with an intact frame that is over one of its limits: the exception *)
Theorem rl_ns_read_lim_reject digits maxlen p rest :
  1 <= digits -> Z.of_nat (length p) < 10 ^ 17 -> rl_frame_accepts digits maxlen (Z.of_nat (length p)) = false ->
  rl_ns_read_lim digits maxlen (rl_frame p ++ rest) = RlErr.
Proof.
  intros Hd Hlen Hrej.
  destruct (rl_frame_shape p rest Hlen) as (Hall & Hl & Hval & Hscan & Hlz & Hfirst & Hskip).
  set (ds := rl_digits (Z.of_nat (length p))) in *.
  unfold rl_ns_read_lim. rewrite Hscan, Hlz, Nat2Z.id, Hfirst.
  destruct (Z_le_gt_dec (Z.of_nat (length ds)) digits) as [Hle|Hgt].
  - rewrite rl_ns_len_lim_digits by (try assumption; lia). rewrite Hval.
    unfold rl_frame_accepts in Hrej. apply andb_false_iff in Hrej. destruct Hrej as [Hrej|Hrej].
    + exfalso. apply Z.ltb_ge in Hrej.
      assert (Z.of_nat (length p) < 10 ^ Z.of_nat (Z.to_nat digits)) as Hc.
      { apply rl_digits_len_lower; [change (Z.of_nat 20) with 20; assert (10 ^ 17 < 10 ^ 20) by (vm_compute; reflexivity); lia|fold ds; lia]. }
      rewrite Z2Nat.id in Hc by lia. lia.
    + apply negb_false_iff in Hrej. rewrite Hrej. reflexivity.
  - rewrite rl_ns_len_lim_over by (try assumption; lia). reflexivity.
Qed.

(* ---------- the reading loop with limits ---------- *)
Lemma rl_ns_read_lim_shorter digits maxlen buf p rest : rl_ns_read_lim digits maxlen buf = RlItem p rest -> (length rest < length buf)%nat.
Proof.
  unfold rl_ns_read_lim. destruct buf as [|b0 buf]; [cbn; discriminate|].
  destruct (rl_scan (b0 :: buf) 0); try discriminate.
  destruct (_ && _); try discriminate.
  destruct (rl_ns_len_lim _ _ 0 0) as [len|]; try discriminate.
  destruct (rl_over_max _ _); try discriminate.
  destruct (_ <? _); try discriminate. destruct (_ =? 44); try discriminate.
  intros H. inversion H; subst. rewrite !skipn_length. cbn [length]. lia.
Qed.

Lemma rl_parse_lim_fuel digits maxlen : forall f1 f2 buf, (length buf < f1)%nat -> (length buf < f2)%nat ->
  rl_parse_log_lim_f digits maxlen f1 buf = rl_parse_log_lim_f digits maxlen f2 buf.
Proof.
  induction f1 as [|f1 IH]; intros f2 buf H1 H2; [lia|].
  destruct f2 as [|f2]; [lia|]. cbn [rl_parse_log_lim_f].
  destruct (rl_ns_read_lim digits maxlen buf) as [p rest| |] eqn:E; try reflexivity.
  destruct (rl_dec_entry p); [|reflexivity]. f_equal.
  apply rl_ns_read_lim_shorter in E. apply IH; lia.
Qed.

(* an entry the reader (digits, maxlen) returns: timestamp in range, length accepted *)
Definition rl_entry_fits (digits : Z) (maxlen : option Z) (e : rl_entry) : Prop :=
  0 <= rl_e_ts e < 10 ^ 15 /\ rl_frame_accepts digits maxlen (Z.of_nat (length (rl_enc_entry e))) = true.

Lemma rl_parse_lim_cons digits maxlen e rest : 1 <= digits <= 17 -> rl_entry_fits digits maxlen e ->
  rl_parse_log_lim digits maxlen (rl_frame (rl_enc_entry e) ++ rest) = e :: rl_parse_log_lim digits maxlen rest.
Proof.
  intros Hd [Hts Hacc]. unfold rl_parse_log_lim at 1. cbn [rl_parse_log_lim_f].
  rewrite rl_ns_read_lim_frame by assumption. rewrite rl_dec_enc_entry by assumption. f_equal.
  unfold rl_parse_log_lim. apply rl_parse_lim_fuel; [|lia].
  rewrite app_length. unfold rl_frame. rewrite !app_length. cbn [length]. lia.
Qed.

Theorem rl_parse_lim_prefix digits maxlen es junk : 1 <= digits <= 17 -> Forall (rl_entry_fits digits maxlen) es ->
  rl_parse_log_lim digits maxlen (rl_enc_log es ++ junk) = es ++ rl_parse_log_lim digits maxlen junk.
Proof.
  intros Hd. induction es as [|e es IH]; intros H; [reflexivity|].
  inversion H; subst. unfold rl_enc_log. cbn [flat_map]. rewrite <- app_assoc.
  rewrite rl_parse_lim_cons by assumption. cbn [app]. f_equal. apply IH. assumption.
Qed.

(* an INTACT entry over a limit of the reader ends the reading of the file: it and everything after it is lost *)
Theorem rl_parse_lim_stop digits maxlen es e es' : 1 <= digits <= 17 -> Forall (rl_entry_fits digits maxlen) es ->
  Z.of_nat (length (rl_enc_entry e)) < 10 ^ 17 ->
  rl_frame_accepts digits maxlen (Z.of_nat (length (rl_enc_entry e))) = false ->
  rl_parse_log_lim digits maxlen (rl_enc_log (es ++ e :: es')) = es.
Proof.
  intros Hd Hes Hlen Hrej. rewrite rl_enc_log_app, rl_parse_lim_prefix by assumption.
  unfold rl_enc_log at 1. cbn [flat_map]. unfold rl_parse_log_lim. cbn [rl_parse_log_lim_f].
  rewrite rl_ns_read_lim_reject by (try assumption; lia). apply app_nil_r.
Qed.

(* ---------- the limits of the current source ---------- *)
(* today: 9 digits, a colon within the first 17 bytes, no maxMessageLength in ReplayLog - the reader of RlBytes.v.
   (stops checking when a fact changes or is no longer recognised) *)
Theorem rl_src_reader_pinned :
  rl_src_recognised = true /\ rl_src_ns_digits = 9 /\ rl_src_colon_window = 16 /\ rl_src_replay_maxlen = None.
Proof. repeat split; reflexivity. Qed.

Theorem rl_src_parse buf : rl_parse_log_lim rl_src_ns_digits rl_src_replay_maxlen buf = rl_parse_log buf.
Proof. destruct rl_src_reader_pinned as (_ & -> & _ & ->). apply rl_parse_log_lim_pinned. Qed.

Theorem rl_limits_agree digits wmax rmax len :
  rl_limits_agree_b digits wmax rmax = true -> 0 <= len -> rl_frame_written wmax len = true -> len < 10 ^ digits ->
  rl_frame_accepts digits rmax len = true.
Proof.
  intros Hag H0 Hw Hlt. unfold rl_frame_accepts. replace (len <? 10 ^ digits) with true by lia. cbn [andb].
  unfold rl_limits_agree_b in Hag. destruct rmax as [r|]; [|reflexivity]. unfold rl_over_max.
  destruct (r <? 0) eqn:Er; [replace (0 <=? r) with false by lia; reflexivity|].
  destruct wmax as [w|]; cbn [rl_frame_written] in Hw.
  - apply orb_true_iff in Hag. destruct Hag as [Hag|Hag]; replace (r <? len + 1) with false by lia; rewrite andb_false_r; reflexivity.
  - replace (r <? len + 1) with false by lia. rewrite andb_false_r. reflexivity.
Qed.

(* the converse for the case the seeded change produced: a read limit without a write limit rejects an entry the writer emits *)
Theorem rl_limits_disagree digits r :
  0 <= r -> r < 10 ^ digits -> rl_frame_written None r = true /\ rl_frame_accepts digits (Some r) r = false.
Proof.
  intros H0 Hlt. split; [reflexivity|]. unfold rl_frame_accepts, rl_over_max.
  replace (0 <=? r) with true by lia. replace (r <? r + 1) with true by lia. cbn. apply andb_false_r.
Qed.

Theorem rl_src_limits_agree :
  rl_src_recognised = true /\ 1 <= rl_src_ns_digits <= 17 /\
  rl_limits_agree_b rl_src_ns_digits rl_src_persist_maxlen rl_src_replay_maxlen = true.
Proof. split; [reflexivity|]. split; [split; discriminate|]. vm_compute. reflexivity. Qed.

(* every entry PersistMessage can write, the reading loop of ReplayLog returns - and goes on with what follows *)
Theorem rl_persist_readable e rest :
  0 <= rl_e_ts e < 10 ^ 15 ->
  rl_frame_written rl_src_persist_maxlen (Z.of_nat (length (rl_enc_entry e))) = true ->
  Z.of_nat (length (rl_enc_entry e)) < 10 ^ rl_src_ns_digits ->
  rl_parse_log_lim rl_src_ns_digits rl_src_replay_maxlen (rl_frame (rl_enc_entry e) ++ rest) =
    e :: rl_parse_log_lim rl_src_ns_digits rl_src_replay_maxlen rest.
Proof.
  intros Hts Hw Hlt. destruct rl_src_limits_agree as (_ & Hd & Hag).
  apply rl_parse_lim_cons; [assumption|]. split; [assumption|].
  apply (rl_limits_agree _ _ _ _ Hag); [lia|assumption|assumption].
Qed.

(* ---------- the size premise of the history theorems, separated from the clock premises ---------- *)
Lemma rl_hvalid_split : forall h c, rl_hvalid c h <-> rl_hclocked c h /\ rl_hsized 9 None h.
Proof.
  induction h as [|[now op] h IH]; intros c; cbn [rl_hvalid rl_hclocked rl_hsized]; [tauto|].
  rewrite IH. destruct op; try tauto.
  unfold rl_frame_accepts, rl_over_max. cbn [negb]. rewrite andb_true_r, Z.ltb_lt. tauto.
Qed.

Lemma rl_hsized_src h : rl_hsized rl_src_ns_digits rl_src_replay_maxlen h <-> rl_hsized 9 None h.
Proof. destruct rl_src_reader_pinned as (_ & -> & _ & ->). tauto. Qed.

(* C12_replayed with its size premise visible: every relayed event has an entry that the reader ReplayLog uses accepts *)
Theorem rl_replayed_sized t now0 eps h now ep :
  0 < now0 -> rl_hclocked now0 h -> rl_hsized rl_src_ns_digits rl_src_replay_maxlen h -> rl_ep_dur ep <> 0 ->
  let st := rl_hrun t h (rl_init_st now0 eps) in
  let r := rl_replay t now ep st in
  rl_msgs (rl_rr_out r) = map rl_e_msg (filter (rl_sel t (rl_ep_zone ep) (rl_ep_pos ep)) (rl_log_entries st)) /\
  rl_rr_done r = true.
Proof.
  intros H0 Hc Hs Hd. apply rl_replayed_history; try assumption.
  apply rl_hvalid_split. split; [assumption|]. apply rl_hsized_src. assumption.
Qed.

(* ---------- run-length encoded strings ---------- *)
Lemma rl_esc_app a b : rl_esc (a ++ b) = rl_esc a ++ rl_esc b.
Proof.
  induction a as [|c a IH]; [reflexivity|]. cbn [app rl_esc]. rewrite IH.
  destruct ((c =? 34) || (c =? 92)); reflexivity.
Qed.

Lemma rl_esc_rep n p : rl_esc (rl_rep n p) = rl_rep n (rl_esc p).
Proof. induction n as [|n IH]; [reflexivity|]. cbn [rl_rep]. rewrite rl_esc_app, IH. reflexivity. Qed.

Lemma rl_x_expand_app a b : rl_x_expand (a ++ b) = rl_x_expand a ++ rl_x_expand b.
Proof. unfold rl_x_expand. apply flat_map_app. Qed.

Theorem rl_x_expand_esc r : rl_x_expand (rl_x_esc r) = rl_esc (rl_x_expand r).
Proof.
  induction r as [|[n p] r IH]; [reflexivity|]. unfold rl_x_esc, rl_x_expand in *. cbn [map flat_map fst snd].
  rewrite IH, rl_esc_app, rl_esc_rep. reflexivity.
Qed.

Lemma rl_rep_length n p : length (rl_rep n p) = (n * length p)%nat.
Proof. induction n as [|n IH]; [reflexivity|]. cbn [rl_rep]. rewrite app_length, IH. lia. Qed.

Theorem rl_x_len_expand r : rl_x_len r = Z.of_nat (length (rl_x_expand r)).
Proof.
  induction r as [|[n p] r IH]; [reflexivity|]. unfold rl_x_len, rl_x_expand in *. cbn [fold_right flat_map fst snd].
  rewrite IH, app_length, rl_rep_length. lia.
Qed.

Lemma rl_bsum_app a b : rl_bsum (a ++ b) = rl_bsum a + rl_bsum b.
Proof. unfold rl_bsum. induction a as [|c a IH]; cbn [app fold_right]; [reflexivity|]. rewrite IH. lia. Qed.

Lemma rl_bsum_rep n p : rl_bsum (rl_rep n p) = Z.of_nat n * rl_bsum p.
Proof. induction n as [|n IH]; [reflexivity|]. cbn [rl_rep]. rewrite rl_bsum_app, IH. lia. Qed.

Theorem rl_x_sum_expand r : rl_x_sum r = rl_bsum (rl_x_expand r).
Proof.
  induction r as [|[n p] r IH]; [reflexivity|]. unfold rl_x_sum, rl_x_expand in *. cbn [fold_right flat_map fst snd].
  rewrite IH, rl_bsum_app, rl_bsum_rep. lia.
Qed.

Lemma rl_x_expand_one p : rl_x_expand [(1, p)] = p.
Proof. unfold rl_x_expand. cbn [flat_map fst snd]. change (Z.to_nat 1) with 1%nat. cbn [rl_rep]. rewrite !app_nil_r. reflexivity. Qed.

(* the run-length encoded encoding of an entry expands to the encoding of the expanded entry; its computed length is that of the bytes *)
Theorem rl_xe_enc_expand x : rl_x_expand (rl_xe_enc x) = rl_enc_entry (rl_xe_entry x).
Proof.
  unfold rl_xe_enc, rl_enc_entry, rl_xe_entry. cbn [rl_e_ts rl_e_sec rl_e_msg].
  rewrite !rl_x_expand_app, rl_x_expand_esc, !rl_x_expand_one. rewrite <- ?app_assoc. reflexivity.
Qed.

Theorem rl_xe_len_correct x : rl_xe_len x = Z.of_nat (length (rl_enc_entry (rl_xe_entry x))).
Proof. unfold rl_xe_len. rewrite rl_x_len_expand, rl_xe_enc_expand. reflexivity. Qed.

Theorem rl_frame_len_correct p : rl_frame_len (Z.of_nat (length p)) = Z.of_nat (length (rl_frame p)).
Proof. unfold rl_frame_len, rl_frame. rewrite !app_length. cbn [length]. lia. Qed.

(* the harness' padded event *)
Theorem rl_mk_xmsg_plain id ts c : rl_x_expand (rl_mk_xmsg id ts (-1) c) = rl_mk_msg id ts.
Proof. unfold rl_mk_xmsg. cbn [Z.ltb Z.compare]. apply rl_x_expand_one. Qed.

Theorem rl_mk_xmsg_pad id ts n c : 0 <= n ->
  rl_x_expand (rl_mk_xmsg id ts n c) =
    rl_lit_m1 ++ rl_digits id ++ rl_lit_pad ++ rl_esc (rl_rep (Z.to_nat n) [c]) ++ [34] ++ rl_lit_m2 ++ rl_digits ts ++ [125].
Proof.
  intros Hn. unfold rl_mk_xmsg. replace (n <? 0) with false by lia.
  unfold rl_x_expand. cbn [flat_map fst snd]. change (Z.to_nat 1) with 1%nat. cbn [rl_rep].
  rewrite !app_nil_r, rl_esc_rep, <- !app_assoc. reflexivity.
Qed.

(* ---------- statements as used in Properties_C12.v ---------- *)
Theorem rl_reader_limits_of_source :
  rl_src_recognised = true /\ rl_src_ns_digits = 9 /\ rl_src_colon_window = 16 /\ rl_src_replay_maxlen = None /\
  forall buf, rl_parse_log_lim rl_src_ns_digits rl_src_replay_maxlen buf = rl_parse_log buf.
Proof.
  destruct rl_src_reader_pinned as (A & B & C & D). repeat split; try assumption. exact rl_src_parse.
Qed.

Theorem rl_run_length_entries x :
  rl_x_expand (rl_xe_enc x) = rl_enc_entry (rl_xe_entry x) /\
  rl_xe_len x = Z.of_nat (length (rl_enc_entry (rl_xe_entry x))) /\
  rl_frame_len (rl_xe_len x) = Z.of_nat (length (rl_frame (rl_enc_entry (rl_xe_entry x)))).
Proof.
  split; [apply rl_xe_enc_expand|]. split; [apply rl_xe_len_correct|].
  rewrite rl_xe_len_correct. apply rl_frame_len_correct.
Qed.
