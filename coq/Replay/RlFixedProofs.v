(* C12 - ReplayLog in its repaired forms: the pinned instance is RlModel.rl_replay; on every reachable state all four forms
   send the same messages (so C12_replayed holds for whichever form the source has); without the emission the peer's
   replay can no longer move our position (finding replay-setlogposition-acks-wrong-log repaired); with the timestamp bound
   the witness of corrupt-timestamp-hides-later-entries delivers the other file. *)
From Icv Require Import Base.Tac Replay.RlBytes Replay.RlModel Replay.RlBytesProofs Replay.RlProofs Replay.RlHistory
  Replay.RlHistoryProofs Replay.RlOracleProofs Replay.RlFixed Facts.Facts_c12.
From Coq Require Import Sorting.Sorted.
Local Open Scope Z_scope.

Lemma rl_fold_left_ext_in {A B} (f g : A -> B -> A) : forall l, (forall a b, In b l -> f a b = g a b) ->
  forall a, fold_left f l a = fold_left g l a.
Proof.
  induction l as [|x l IH]; intros H a; [reflexivity|]. cbn [fold_left]. rewrite (H a x) by (left; reflexivity).
  apply IH. intros a' b Hb. apply H. right. assumption.
Qed.

(* ---------- the pinned instance ---------- *)
Lemma rl_pass_f_false t tz now st s : rl_replay_pass_f false t tz now st s = rl_replay_pass t tz now st s.
Proof. unfold rl_replay_pass_f, rl_replay_pass. apply rl_fold_left_ext_in. intros; reflexivity. Qed.

Lemma rl_loop_f_false t tz now st : forall fuel count s,
  rl_replay_loop_f false fuel t tz now st count s = rl_replay_loop fuel t tz now st count s.
Proof.
  induction fuel as [|f IH]; intros count s; [reflexivity|]. cbn [rl_replay_loop_f rl_replay_loop].
  rewrite rl_pass_f_false. destruct (negb _); [reflexivity|apply IH].
Qed.

Theorem rl_replay_f_pinned t now ep st : rl_replay_f false t now ep st = rl_replay t now ep st.
Proof. unfold rl_replay_f, rl_replay. rewrite rl_loop_f_false. reflexivity. Qed.

Theorem rl_replay_fe_pinned t now ep st : rl_replay_fe true false t now ep st = rl_replay t now ep st.
Proof. unfold rl_replay_fe. rewrite rl_replay_f_pinned. cbn [rl_out_view]. destruct (rl_replay t now ep st); reflexivity. Qed.

(* ---------- the timestamp bound is never hit on a log that meets its bounds ---------- *)
Lemma rl_cut_id fname : forall es, Forall (fun e => rl_e_ts e < fname) es -> rl_cut fname es = es.
Proof.
  induction es as [|e es IH]; intros H; [reflexivity|]. inversion H; subst. cbn [rl_cut].
  replace (fname <=? rl_e_ts e) with false by lia. f_equal. apply IH. assumption.
Qed.

(* nothing in current is newer than the clock *)
Definition rl_cur_bound (now : Z) (st : rl_st) : Prop := Forall (fun e => rl_e_ts e <= now) (rl_parse_log (rl_cur st)).

Lemma rl_pass_f_bound t tz now st s : rl_name_bound (rl_files st) -> rl_cur_bound now st ->
  rl_replay_pass_f true t tz now st s = rl_replay_pass_f false t tz now st s.
Proof.
  intros Hnb Hcb. unfold rl_replay_pass_f. apply rl_fold_left_ext_in. intros a f Hf.
  unfold rl_replay_file_f. rewrite rl_cut_id; [reflexivity|].
  unfold rl_pass_files in Hf. apply in_app_iff in Hf. destruct Hf as [Hf|[<-|[]]].
  - apply filter_In in Hf. destruct Hf as [Hf _]. unfold rl_name_bound in Hnb. rewrite Forall_forall in Hnb. apply Hnb. assumption.
  - cbn [fst snd]. eapply Forall_impl; [|exact Hcb]. cbn. intros; lia.
Qed.

Lemma rl_loop_f_bound t tz now st : rl_name_bound (rl_files st) -> rl_cur_bound now st -> forall fuel count s,
  rl_replay_loop_f true fuel t tz now st count s = rl_replay_loop_f false fuel t tz now st count s.
Proof.
  intros Hnb Hcb. induction fuel as [|f IH]; intros count s; [reflexivity|]. cbn [rl_replay_loop_f].
  rewrite rl_pass_f_bound by assumption. destruct (negb _); [reflexivity|apply IH].
Qed.

Theorem rl_replay_f_bound_irrelevant t now ep st : rl_name_bound (rl_files st) -> rl_cur_bound now st ->
  rl_replay_f true t now ep st = rl_replay_f false t now ep st.
Proof. intros Hnb Hcb. unfold rl_replay_f. rewrite rl_loop_f_bound by assumption. reflexivity. Qed.

Lemma rl_hinv_cur_bound c st now : rl_hinv c st -> c <= now -> rl_cur_bound now st.
Proof.
  intros (fl & ces & A & B & C & D & E & (F1 & F2 & F3)) Hc. unfold rl_cur_bound. rewrite B, rl_parse_enc_log.
  - eapply Forall_impl; [|exact F1]. cbn. intros e [_ H]. lia.
  - eapply Forall_impl; [|exact F1]. cbn. tauto.
Qed.

(* ---------- the view without position items ---------- *)
Lemma rl_msgs_view emit o : rl_msgs (rl_out_view emit o) = rl_msgs o.
Proof.
  destruct emit; [reflexivity|]. cbn [rl_out_view]. induction o as [|x o IH]; [reflexivity|].
  cbn [filter]. destruct x as [m|p]; cbn [rl_is_msg]; unfold rl_msgs in *; cbn [flat_map]; rewrite IH; reflexivity.
Qed.

Lemma rl_feed_acks_view id o : forall st, rl_feed_acks id (rl_out_view false o) st = st.
Proof.
  cbn [rl_out_view]. induction o as [|x o IH]; intros st; [reflexivity|]. cbn [filter].
  destruct x as [m|p]; cbn [rl_is_msg]; [|apply IH]. unfold rl_feed_acks in *. cbn [fold_left]. apply IH.
Qed.

(* ---------- C12_replayed for every form ---------- *)
Theorem rl_replayed_forms emit bound t now ep c st :
  rl_hinv c st -> c <= now -> rl_ep_dur ep <> 0 ->
  let r := rl_replay_fe emit bound t now ep st in
  rl_msgs (rl_rr_out r) = map rl_e_msg (filter (rl_sel t (rl_ep_zone ep) (rl_ep_pos ep)) (rl_log_entries st)) /\
  rl_rr_done r = true /\ rl_rr_st r = rl_rr_st (rl_replay t now ep st).
Proof.
  intros Hi Hc Hd. cbv zeta. unfold rl_replay_fe. cbn [rl_rr_out rl_rr_done rl_rr_st]. rewrite rl_msgs_view.
  assert (rl_replay_f bound t now ep st = rl_replay t now ep st) as ->.
  { destruct bound; [|apply rl_replay_f_pinned]. rewrite rl_replay_f_bound_irrelevant; [apply rl_replay_f_pinned| |].
    - destruct (rl_hinv_facts c st Hi) as (A & _). exact A.
    - eapply rl_hinv_cur_bound; eassumption. }
  destruct (rl_replayed_reachable t now ep c st Hi Hd) as [A B]. repeat split; assumption.
Qed.

(* ---------- finding replay-setlogposition-acks-wrong-log, repaired form ---------- *)
(* without the emission nothing the peer's ReplayLog sends (same code, any state of the peer) changes a position here: the
   state after handling its output is the state before, so the replay that follows is the plain one - everything owed *)
Theorem rl_setpos_fixed bound t now ep c st tp nowp epp stp :
  rl_hinv c st -> c <= now -> rl_ep_dur ep <> 0 ->
  let emitted_by_peer := rl_rr_out (rl_replay_fe false bound tp nowp epp stp) in
  let st' := rl_feed_acks (rl_ep_id ep) emitted_by_peer st in
  st' = st /\
  rl_msgs (rl_rr_out (rl_replay_fe false bound t now ep st')) =
    map rl_e_msg (filter (rl_sel t (rl_ep_zone ep) (rl_ep_pos ep)) (rl_log_entries st)).
Proof.
  intros Hi Hc Hd. cbv zeta.
  assert (rl_feed_acks (rl_ep_id ep) (rl_rr_out (rl_replay_fe false bound tp nowp epp stp)) st = st) as E
    by (unfold rl_replay_fe; cbn [rl_rr_out]; apply rl_feed_acks_view).
  rewrite E. split; [reflexivity|]. destruct (rl_replayed_forms false bound t now ep c st Hi Hc Hd) as [H _]. exact H.
Qed.

(* ---------- finding corrupt-timestamp-hides-later-entries, repaired form, on its witness ---------- *)
(* the overwritten digit makes the first entry of file 21 claim time 90: with the bound that file is abandoned at this entry
   (it is the damage) and the entry of the OTHER file (current) is delivered; without the bound nothing but the damaged entry is *)
Theorem rl_corrupt_ts_fixed :
  let st := rl_w_st (rl_set_byte rl_w_off 57 rl_w_file) in
  rl_msgs (rl_rr_out (rl_replay_f true rl_w_topo 40 rl_w_ep st)) = [rl_mk_msg 3 30] /\
  rl_msgs (rl_rr_out (rl_replay_f false rl_w_topo 40 rl_w_ep st)) = [rl_mk_msg 1 10] /\
  rl_msgs (rl_rr_out (rl_replay_f true rl_w_topo 40 rl_w_ep (rl_w_st rl_w_file))) = [rl_mk_msg 1 10; rl_mk_msg 2 20; rl_mk_msg 3 30].
Proof. vm_compute. repeat split. Qed.

(* with the bound, whatever bytes a file holds, replaying it leaves peer_ts below the file's name bound or where it was *)
Lemma rl_fold_cut_peer t tz fname : forall es s,
  rl_r_peer (fold_left (rl_rstep t tz fname) (rl_cut fname es) s) <= Z.max (rl_r_peer s) (fname - 1).
Proof.
  induction es as [|e es IH]; intros s; cbn [rl_cut fold_left]; [lia|].
  destruct (fname <=? rl_e_ts e) eqn:E; [cbn [fold_left]; lia|]. cbn [fold_left].
  specialize (IH (rl_rstep t tz fname s e)).
  assert (rl_r_peer (rl_rstep t tz fname s e) <= Z.max (rl_r_peer s) (fname - 1)) as H.
  { unfold rl_rstep. destruct (rl_e_ts e <=? rl_r_peer s); [lia|]. destruct (negb _); [lia|].
    destruct (_ <? fname); cbn [rl_r_peer]; lia. }
  lia.
Qed.

Theorem rl_bound_limits_peer t tz s f :
  rl_r_peer (rl_replay_file_f true t tz s f) <= Z.max (rl_r_peer s) (fst f - 1).
Proof. unfold rl_replay_file_f. apply rl_fold_cut_peer. Qed.

(* the forms of the source are among the known ones *)
Theorem rl_replay_forms_recognised : rl_src_forms_recognised = true.
Proof. reflexivity. Qed.
