(* C12 replay log - SIZES (definitions only).
   * the netstring Stream reader with its two size limits as parameters: the number of digits a length prefix may
     have and the maxMessageLength the caller passes (netstring.cpp:62-83); [rl_ns_read] of RlBytes.v is the
     instance (9, none) - what ApiListener::ReplayLog uses today
   * [rl_frame_accepts] / [rl_frame_written]: the limits as predicates on the length of an entry
   * [rl_src_*]: the limits the source has NOW, read from the regenerated facts (Facts_c12, tools/facts_c12.py)
   * run-length encoded byte strings: large payloads (a check result with megabytes of plugin output) as
     (count, pattern) runs with their length / byte sum / JSON escaping computed without expanding them
   * premises of the property theorems about sizes, as predicates on histories. *)
From Icv Require Import Base.Tac Replay.RlBytes Replay.RlModel Replay.RlHistory Facts.Facts_c12.
Local Open Scope Z_scope.

(* ---- the reader, limits as parameters ---- *)
(* for (i = 0; i < header_length && isdigit(Buffer[i]); i++) { if (i >= DIGITS) throw; len = len * 10 + (Buffer[i] - '0'); } *)
Fixpoint rl_ns_len_lim (digits : Z) (hdr : rl_bytes) (i : Z) (len : Z) : option Z :=
  match hdr with
  | [] => Some len
  | c :: t => if rl_isdigit c then (if digits <=? i then None else rl_ns_len_lim digits t (i + 1) (len * 10 + (c - 48)))
              else Some len
  end.

(* if (maxMessageLength >= 0 && data_length > (size_t)maxMessageLength) throw;   data_length = len + 1 *)
Definition rl_over_max (maxlen : option Z) (len : Z) : bool :=
  match maxlen with Some m => (0 <=? m) && (m <? len + 1) | None => false end.

Definition rl_ns_read_lim (digits : Z) (maxlen : option Z) (buf : rl_bytes) : rl_rd :=
  match rl_scan buf 0 with
  | RlScanErr => RlErr
  | RlScanNone => RlNeed
  | RlScanAt hl =>
      if (nth 0 buf 0 =? 48) && rl_isdigit (nth 1 buf 0) then RlErr else
      match rl_ns_len_lim digits (firstn (Z.to_nat hl) buf) 0 0 with
      | None => RlErr
      | Some len =>
          if rl_over_max maxlen len then RlErr else
          let data := skipn (Z.to_nat hl + 1) buf in
          if Z.of_nat (length data) <? len + 1 then RlNeed
          else if nth (Z.to_nat len) data 0 =? 44
               then RlItem (firstn (Z.to_nat len) data) (skipn (Z.to_nat len + 1) data)
               else RlErr
      end
  end.

(* the reading loop of ReplayLog with such a reader *)
Fixpoint rl_parse_log_lim_f (digits : Z) (maxlen : option Z) (fuel : nat) (buf : rl_bytes) : list rl_entry :=
  match fuel with
  | O => []
  | S f =>
      match rl_ns_read_lim digits maxlen buf with
      | RlItem p rest =>
          match rl_dec_entry p with
          | Some e => e :: rl_parse_log_lim_f digits maxlen f rest
          | None => []
          end
      | RlNeed => []
      | RlErr => []    (* the exception: "Unexpected end-of-file for cluster log", break - the rest of THIS file is not read *)
      end
  end.
Definition rl_parse_log_lim (digits : Z) (maxlen : option Z) (buf : rl_bytes) : list rl_entry :=
  rl_parse_log_lim_f digits maxlen (S (length buf)) buf.

(* ---- the limits as predicates on the byte length of an entry ---- *)
(* the reader returns a frame with a payload of [len] bytes *)
Definition rl_frame_accepts (digits : Z) (maxlen : option Z) (len : Z) : bool :=
  (len <? 10 ^ digits) && negb (rl_over_max maxlen len).

(* PersistMessage writes an entry of [len] bytes *)
Definition rl_frame_written (wmax : option Z) (len : Z) : bool :=
  match wmax with None => true | Some m => len <=? m end.

(* do the two sides agree: every length the writer produces (below the digit bound of the frame format) is accepted *)
Definition rl_limits_agree_b (digits : Z) (wmax rmax : option Z) : bool :=
  match rmax with
  | None => true
  | Some r => if r <? 0 then true else
      match wmax with
      | Some w => (w + 1 <=? r) || (10 ^ digits <=? r)
      | None => 10 ^ digits <=? r
      end
  end.

(* ---- the limits the source has now ---- *)
Definition rl_src_ns_digits : Z := match f_rl_ns_len_digits with Some d => d | None => 0 end.
Definition rl_src_colon_window : Z := match f_rl_ns_colon_window with Some d => d | None => 0 end.
Definition rl_src_replay_maxlen : option Z :=
  match f_rl_replay_maxlen with Some (Some m) => Some m | Some None => None | None => Some 0 end.
Definition rl_src_persist_maxlen : option Z :=
  match f_rl_persist_maxlen with Some (Some m) => Some m | Some None => None | None => None end.
(* all size facts were recognised, the limit test has the form len + 1 > max, the writer is the plain one *)
Definition rl_src_recognised : bool :=
  match f_rl_ns_len_digits, f_rl_ns_colon_window, f_rl_ns_limit_len_plus_one, f_rl_ns_writer_plain, f_rl_replay_maxlen, f_rl_persist_maxlen with
  | Some _, Some _, Some true, Some true, Some _, Some _ => true
  | _, _, _, _, _, _ => false
  end.

(* ---- size premises of the property theorems ---- *)
(* every relayed event of the history has an entry the reader (digits, maxlen) accepts *)
Fixpoint rl_hsized (digits : Z) (maxlen : option Z) (h : list (Z * rl_hop)) : Prop :=
  match h with
  | [] => True
  | (now, op) :: r =>
      match op with
      | RlHRelay sec msg =>
          rl_frame_accepts digits maxlen
            (Z.of_nat (length (rl_enc_entry {| rl_e_ts := now; rl_e_sec := sec; rl_e_msg := msg |}))) = true
      | _ => True
      end /\ rl_hsized digits maxlen r
  end.

(* the clock premises alone: monotone, advancing before every relay, below 10^15 s *)
Fixpoint rl_hclocked (c : Z) (h : list (Z * rl_hop)) : Prop :=
  match h with
  | [] => True
  | (now, op) :: r =>
      match op with
      | RlHRelay _ _ => c < now /\ now < 10 ^ 15
      | _ => c <= now
      end /\ rl_hclocked now r
  end.

(* ---- run-length encoded byte strings ---- *)
Definition rl_rle := list (Z * rl_bytes).        (* (count, pattern): the pattern repeated count times *)

Fixpoint rl_rep (n : nat) (p : rl_bytes) : rl_bytes := match n with O => [] | S k => p ++ rl_rep k p end.
Definition rl_x_expand (r : rl_rle) : rl_bytes := flat_map (fun x => rl_rep (Z.to_nat (fst x)) (snd x)) r.
Definition rl_x_len (r : rl_rle) : Z := fold_right (fun x a => Z.max 0 (fst x) * Z.of_nat (length (snd x)) + a) 0 r.
Definition rl_bsum (b : rl_bytes) : Z := fold_right Z.add 0 b.
Definition rl_x_sum (r : rl_rle) : Z := fold_right (fun x a => Z.max 0 (fst x) * rl_bsum (snd x) + a) 0 r.
Definition rl_x_esc (r : rl_rle) : rl_rle := map (fun x => (fst x, rl_esc (snd x))) r.

(* the harness' event with a padding member: {'jsonrpc':'2.0','method':'vf::ev','params':{'id':N,'pad':'ccc...'},'ts':T}
   (n < 0: no padding member, the message of RlBytes.rl_mk_msg) *)
Definition rl_lit_pad : rl_bytes := [44;34;112;97;100;34;58;34].   (* ,'pad':' *)
Definition rl_mk_xmsg (id ts n c : Z) : rl_rle :=
  if n <? 0 then [(1, rl_mk_msg id ts)]
  else [(1, rl_lit_m1 ++ rl_digits id ++ rl_lit_pad); (n, rl_esc [c]); (1, [34] ++ rl_lit_m2 ++ rl_digits ts ++ [125])].

(* a log entry with a run-length encoded message, its encoding (= rl_enc_entry of the expanded entry) and its length *)
Record rl_xentry := { rl_xe_ts : Z; rl_xe_sec : option (rl_bytes * rl_bytes); rl_xe_msg : rl_rle }.
Definition rl_xe_entry (x : rl_xentry) : rl_entry :=
  {| rl_e_ts := rl_xe_ts x; rl_e_sec := rl_xe_sec x; rl_e_msg := rl_x_expand (rl_xe_msg x) |}.
Definition rl_xe_enc (x : rl_xentry) : rl_rle :=
  [(1, rl_lit_open)] ++ rl_x_esc (rl_xe_msg x) ++ [(1, [34] ++ rl_enc_sec (rl_xe_sec x) ++ rl_lit_ts ++ rl_digits (rl_xe_ts x) ++ [125])].
Definition rl_xe_len (x : rl_xentry) : Z := rl_x_len (rl_xe_enc x).
(* bytes the frame of a payload of [len] bytes occupies in the file: <digits>:<payload>, *)
Definition rl_frame_len (len : Z) : Z := Z.of_nat (length (rl_digits len)) + 1 + len + 1.
