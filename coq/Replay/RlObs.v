(* C12 - the executable property oracle that is run over the IMPLEMENTATION's traces.
   The glue (ocaml/ops_rl.ml) feeds it what the implementation reported (delivered messages, confirmed
   positions, file names) together with the log the script persisted. *)
From Icv Require Import Base.Tac Replay.RlBytes Replay.RlModel Replay.RlProofs.
Local Open Scope Z_scope.

Fixpoint rl_strict_b (es : list rl_entry) : bool :=
  match es with
  | e :: r => match r with e' :: _ => (rl_e_ts e <? rl_e_ts e') && rl_strict_b r | [] => true end
  | [] => true
  end.

Fixpoint rl_list_eqb (a b : list rl_bytes) : bool :=
  match a, b with
  | [], [] => true
  | x :: a', y :: b' => rl_bytes_eqb x y && rl_list_eqb a' b'
  | _, _ => false
  end.

Definition rl_expected (t : rl_topo) (tz pos : Z) (log : list rl_entry) : list rl_bytes :=
  map rl_e_msg (filter (rl_sel t tz pos) log).

(* C12_replayed / C12_no_resend on an undamaged log: exactly the owed entries, in order.
   Outside the property's quantifier (timestamps not strictly increasing) nothing is claimed. *)
Definition rl_or_replay (t : rl_topo) (tz pos : Z) (log : list rl_entry) (delivered : list rl_bytes) : bool :=
  if rl_strict_b log then rl_list_eqb delivered (rl_expected t tz pos log) else true.

(* damaged log: every owed intact entry (before the damage, or in another file) is delivered *)
Definition rl_or_damaged (t : rl_topo) (tz pos : Z) (intact : list rl_entry) (delivered : list rl_bytes) : bool :=
  forallb (fun m => existsb (rl_bytes_eqb m) delivered) (rl_expected t tz pos intact).

(* C12_cleanup_safe: a file that disappeared was not needed by any related endpoint *)
Definition rl_or_cleanup (t : rl_topo) (now : Z) (eps : list rl_ep) (before after : list Z) : bool :=
  forallb (fun n => existsb (Z.eqb n) after || negb (rl_needed t now eps n)) before.

(* C12_receiver_filter *)
Definition rl_or_recv (rpos ts : Z) (accepted : bool) : bool := if ts <? rpos then negb accepted else true.

(* C12_restart (crash restart): same names and sizes, same current *)
Fixpoint rl_pairs_eqb (a b : list (Z * Z)) : bool :=
  match a, b with
  | [], [] => true
  | (x1, x2) :: a', (y1, y2) :: b' => (x1 =? y1) && (x2 =? y2) && rl_pairs_eqb a' b'
  | _, _ => false
  end.
Definition rl_or_restart (before after : list (Z * Z)) (cur_before cur_after : Z) : bool :=
  rl_pairs_eqb before after && (cur_before =? cur_after).
