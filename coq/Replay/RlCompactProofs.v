(* C12 - the record-level model refines the byte-level model: every operation commutes with [rl_x_conc].
   Only ReplayLog needs a premise: each entry of the directory is one the reader returns (rl_entry_ok of the expanded
   entry, i.e. timestamp below 10^15 and encoding shorter than 10^9 bytes - the size premise). *)
From Icv Require Import Base.Tac Replay.RlBytes Replay.RlModel Replay.RlBytesProofs Replay.RlProofs Replay.RlHistory
  Replay.RlHistoryProofs Replay.RlSize Replay.RlSizeProofs Replay.RlFixed Replay.RlFixedProofs Replay.RlCompact.
Local Open Scope Z_scope.

Definition rl_x_cfiles (fs : list (Z * list rl_xentry)) : list (Z * rl_bytes) := map (fun f => (fst f, rl_xe_log (snd f))) fs.

Lemma rl_xe_log_nil : rl_xe_log [] = [].
Proof. reflexivity. Qed.

Lemma rl_xe_log_snoc es e : rl_xe_log (es ++ [e]) = rl_xe_log es ++ rl_frame (rl_enc_entry (rl_xe_entry e)).
Proof. unfold rl_xe_log. rewrite map_app, rl_enc_log_app. unfold rl_enc_log at 2. cbn [map flat_map]. rewrite app_nil_r. reflexivity. Qed.

Lemma rl_x_has_file fs n : rl_has_file (rl_x_cfiles fs) n = rl_g_has_file fs n.
Proof. induction fs as [|[m c] fs IH]; [reflexivity|]. cbn [rl_x_cfiles map rl_has_file rl_g_has_file fst]. fold (rl_x_cfiles fs). rewrite IH. reflexivity. Qed.

Lemma rl_x_insert_file n b fs : rl_insert_file n (rl_xe_log b) (rl_x_cfiles fs) = rl_x_cfiles (rl_g_insert_file n b fs).
Proof.
  induction fs as [|[m c] fs IH]; [reflexivity|]. cbn [rl_x_cfiles map rl_insert_file rl_g_insert_file fst snd]. fold (rl_x_cfiles fs).
  destruct (n <? m); [reflexivity|]. rewrite IH. reflexivity.
Qed.

(* ---------- state-changing operations ---------- *)
Theorem rl_x_conc_open now s : rl_x_conc (rl_x_open now s) = rl_open now (rl_x_conc s).
Proof. reflexivity. Qed.

Theorem rl_x_conc_rotate now s : rl_x_conc (rl_x_rotate now s) = rl_rotate now (rl_x_conc s).
Proof.
  unfold rl_x_rotate, rl_rotate. cbn [rl_x_conc rl_lmt rl_files rl_cur rl_eps]. fold (rl_x_cfiles (rl_x_files s)).
  rewrite rl_x_has_file. destruct (rl_g_has_file _ _); [reflexivity|].
  unfold rl_x_conc. cbn [rl_x_files rl_x_cur rl_x_lmt rl_x_cnt rl_x_eps]. fold (rl_x_cfiles (rl_x_files s)).
  rewrite rl_x_insert_file. reflexivity.
Qed.

Theorem rl_x_conc_rotate_cycle now s : rl_x_conc (rl_x_rotate_cycle now s) = rl_rotate_cycle now (rl_x_conc s).
Proof. unfold rl_x_rotate_cycle, rl_rotate_cycle. rewrite rl_x_conc_open, rl_x_conc_rotate. reflexivity. Qed.

Theorem rl_x_conc_persist now e s : rl_x_conc (rl_x_persist now e s) = rl_persist now (rl_xe_entry e) (rl_x_conc s).
Proof.
  unfold rl_x_persist, rl_persist. cbv zeta. cbn [rl_x_cnt rl_cnt rl_x_conc].
  destruct (50000 <? rl_x_cnt s + 1).
  - rewrite rl_x_conc_rotate_cycle. f_equal. unfold rl_x_conc. cbn [rl_x_files rl_x_cur rl_x_lmt rl_x_cnt rl_x_eps rl_xe_entry rl_e_ts].
    rewrite rl_xe_log_snoc. reflexivity.
  - unfold rl_x_conc. cbn [rl_x_files rl_x_cur rl_x_lmt rl_x_cnt rl_x_eps rl_xe_entry rl_e_ts]. rewrite rl_xe_log_snoc. reflexivity.
Qed.

Theorem rl_x_conc_restart clean now s : rl_x_conc (rl_x_restart clean now s) = rl_restart clean now (rl_x_conc s).
Proof.
  unfold rl_x_restart, rl_restart. destruct clean.
  - rewrite <- rl_x_conc_rotate. reflexivity.
  - reflexivity.
Qed.

Lemma rl_x_filter_names g fs :
  filter (fun f => g (fst f)) (rl_x_cfiles fs) = rl_x_cfiles (filter (fun f => g (fst f)) fs).
Proof.
  induction fs as [|f fs IH]; [reflexivity|]. cbn [rl_x_cfiles map filter fst]. fold (rl_x_cfiles fs).
  destruct (g (fst f)); cbn [map]; fold (rl_x_cfiles (filter (fun f0 => g (fst f0)) fs)); rewrite IH; reflexivity.
Qed.

Theorem rl_x_conc_cleanup t now s : rl_x_conc (rl_x_cleanup t now s) = rl_cleanup t now (rl_x_conc s).
Proof.
  unfold rl_x_cleanup, rl_cleanup, rl_set_files, rl_x_conc. cbn [rl_x_files rl_x_cur rl_x_lmt rl_x_cnt rl_x_eps rl_files rl_cur rl_lmt rl_cnt rl_eps].
  fold (rl_x_cfiles (rl_x_files s)). rewrite (rl_x_filter_names (rl_needed t now (rl_x_eps s))). reflexivity.
Qed.

Theorem rl_x_conc_ack id p s : rl_x_conc (rl_x_ack id p s) = rl_ack id p (rl_x_conc s).
Proof. reflexivity. Qed.

Theorem rl_x_conc_recv id ts s :
  fst (rl_x_recv id ts s) = fst (rl_recv id ts (rl_x_conc s)) /\ rl_x_conc (snd (rl_x_recv id ts s)) = snd (rl_recv id ts (rl_x_conc s)).
Proof.
  unfold rl_x_recv, rl_recv. cbn [rl_x_skel rl_x_conc rl_eps].
  destruct (rl_get_ep (rl_x_eps s) id) as [e|]; [destruct (ts <? rl_ep_rpos e)|]; split; reflexivity.
Qed.

(* ---------- SyncRelayMessage: the routing looks at the endpoints only ---------- *)
Theorem rl_x_conc_relay t now sec m s :
  let rx := rl_x_relay t now sec m s in
  let rb := rl_relay t now sec (rl_x_expand m) (rl_x_conc s) in
  rl_xrl_logged rx = rl_rl_logged rb /\ rl_xrl_live rx = rl_rl_live rb /\ rl_x_conc (rl_xrl_st rx) = rl_rl_st rb.
Proof.
  cbv zeta. unfold rl_x_relay, rl_relay. cbn [rl_x_skel rl_x_conc rl_eps].
  match goal with |- context [fold_left ?f ?l ?a] => destruct (fold_left f l a) as [[need live] eps'] end.
  destruct need; cbn [rl_rl_logged rl_rl_live rl_rl_st rl_xrl_logged rl_xrl_live rl_xrl_st]; (split; [reflexivity|split; [reflexivity|]]).
  - unfold rl_persist at 1. cbv zeta. cbn [rl_cnt rl_set_eps].
    match goal with |- context [rl_eps (if ?b then _ else _)] => assert (forall x y : rl_st, rl_eps x = eps' -> rl_eps y = eps' -> rl_eps (if b then x else y) = eps') as Hif by (intros; destruct b; assumption) end.
    rewrite Hif.
    + rewrite rl_x_conc_persist. reflexivity.
    + unfold rl_rotate_cycle, rl_open, rl_rotate. cbn [rl_set_lmt rl_lmt rl_files rl_cur rl_eps]. destruct (rl_has_file _ _); reflexivity.
    + reflexivity.
  - reflexivity.
Qed.

(* ---------- ReplayLog ---------- *)
Definition rl_x_rs_bytes (s : rl_xrs) : rl_rs :=
  {| rl_r_peer := rl_xr_peer s; rl_r_logpos := rl_xr_logpos s; rl_r_cnt := rl_xr_cnt s; rl_r_out := rl_x_out_bytes (rl_xr_out s) |}.

Lemma rl_x_rstep_bytes t tz fname s e :
  rl_rstep t tz fname (rl_x_rs_bytes s) (rl_xe_entry e) = rl_x_rs_bytes (rl_x_rstep t tz fname s e).
Proof.
  unfold rl_rstep, rl_x_rstep. cbn [rl_x_rs_bytes rl_r_peer rl_r_logpos rl_r_cnt rl_r_out rl_xe_entry rl_e_ts rl_e_sec rl_e_msg].
  destruct (rl_xe_ts e <=? rl_xr_peer s); [reflexivity|].
  destruct (negb (rl_can_access t tz (rl_xe_sec e))); [reflexivity|].
  destruct (rl_xr_logpos s + 10 <? fname); reflexivity.
Qed.

Lemma rl_x_fold_rstep t tz fname : forall es s,
  fold_left (rl_rstep t tz fname) (map rl_xe_entry es) (rl_x_rs_bytes s) = rl_x_rs_bytes (fold_left (rl_x_rstep t tz fname) es s).
Proof. induction es as [|e es IH]; intros s; [reflexivity|]. cbn [map fold_left]. rewrite rl_x_rstep_bytes. apply IH. Qed.

(* every entry of a list is one the reader returns *)
Definition rl_xes_ok (es : list rl_xentry) : Prop := Forall (fun e => rl_entry_ok (rl_xe_entry e)) es.
Definition rl_x_ok (s : rl_xst) : Prop := Forall (fun f => rl_xes_ok (snd f)) (rl_x_files s) /\ rl_xes_ok (rl_x_cur s).

Lemma rl_x_parse es : rl_xes_ok es -> rl_parse_log (rl_xe_log es) = map rl_xe_entry es.
Proof. intros H. unfold rl_xe_log. apply rl_parse_enc_log. apply rl_Forall_map. exact H. Qed.

Lemma rl_x_cut_bytes n : forall es, map rl_xe_entry (rl_x_cut n es) = rl_cut n (map rl_xe_entry es).
Proof. induction es as [|e es IH]; [reflexivity|]. cbn [rl_x_cut map rl_cut rl_xe_entry rl_e_ts]. destruct (n <=? rl_xe_ts e); [reflexivity|]. cbn [map]. rewrite IH. reflexivity. Qed.

Lemma rl_x_replay_file_bytes bound t tz s f : rl_xes_ok (snd f) ->
  rl_replay_file_f bound t tz (rl_x_rs_bytes s) (fst f, rl_xe_log (snd f)) = rl_x_rs_bytes (rl_x_replay_file bound t tz s f).
Proof.
  intros H. unfold rl_replay_file_f, rl_x_replay_file. cbn [fst snd]. rewrite rl_x_parse by assumption.
  destruct bound; [rewrite <- rl_x_cut_bytes|]; apply rl_x_fold_rstep.
Qed.

Lemma rl_x_fold_files bound t tz : forall fs s, Forall (fun f => rl_xes_ok (snd f)) fs ->
  fold_left (rl_replay_file_f bound t tz) (rl_x_cfiles fs) (rl_x_rs_bytes s) = rl_x_rs_bytes (fold_left (rl_x_replay_file bound t tz) fs s).
Proof.
  induction fs as [|f fs IH]; intros s H; [reflexivity|]. inversion H; subst.
  cbn [rl_x_cfiles map fold_left]. fold (rl_x_cfiles fs). rewrite rl_x_replay_file_bytes by assumption. apply IH. assumption.
Qed.

Lemma rl_x_pass_files_bytes now st p :
  rl_pass_files now (rl_x_conc st) p = rl_x_cfiles (rl_x_pass_files now st p).
Proof.
  unfold rl_pass_files, rl_x_pass_files. cbn [rl_x_conc rl_files rl_cur]. fold (rl_x_cfiles (rl_x_files st)).
  rewrite (rl_x_filter_names (fun n => p <=? n)). unfold rl_x_cfiles. rewrite map_app. reflexivity.
Qed.

Lemma rl_x_pass_bytes bound t tz now st s : rl_x_ok st ->
  rl_replay_pass_f bound t tz now (rl_x_conc st) (rl_x_rs_bytes s) = rl_x_rs_bytes (rl_x_replay_pass bound t tz now st s).
Proof.
  intros [Hf Hc]. unfold rl_replay_pass_f, rl_x_replay_pass. cbn [rl_x_rs_bytes rl_r_peer rl_r_logpos rl_r_out].
  rewrite rl_x_pass_files_bytes.
  change {| rl_r_peer := rl_xr_peer s; rl_r_logpos := rl_xr_logpos s; rl_r_cnt := 0; rl_r_out := rl_x_out_bytes (rl_xr_out s) |}
    with (rl_x_rs_bytes {| rl_xr_peer := rl_xr_peer s; rl_xr_logpos := rl_xr_logpos s; rl_xr_cnt := 0; rl_xr_out := rl_xr_out s |}).
  apply rl_x_fold_files. unfold rl_x_pass_files. apply Forall_app. split.
  - apply rl_Forall_filter. assumption.
  - constructor; [exact Hc|constructor].
Qed.

Lemma rl_x_loop_bytes bound t tz now st : rl_x_ok st -> forall fuel count s,
  rl_replay_loop_f bound fuel t tz now (rl_x_conc st) count (rl_x_rs_bytes s) =
    (rl_x_rs_bytes (fst (rl_x_replay_loop bound fuel t tz now st count s)), snd (rl_x_replay_loop bound fuel t tz now st count s)).
Proof.
  intros Hok. induction fuel as [|f IH]; intros count s; [reflexivity|]. cbn [rl_replay_loop_f rl_x_replay_loop].
  rewrite rl_x_pass_bytes by assumption.
  destruct (negb ((count =? -1) || (50000 <? count))); [reflexivity|].
  change (rl_r_cnt (rl_x_rs_bytes (rl_x_replay_pass bound t tz now st s))) with (rl_xr_cnt (rl_x_replay_pass bound t tz now st s)). apply IH.
Qed.

Lemma rl_x_out_bytes_rev o : rev (rl_x_out_bytes o) = rl_x_out_bytes (rev o).
Proof. unfold rl_x_out_bytes. symmetry. apply map_rev. Qed.

(* ReplayLog of the byte-level model - in either form of the timestamp bound - on the directory a record-level state stands
   for emits the expansion of what the record-level ReplayLog emits, reaches its last pass in the same cases and leaves the
   corresponding state *)
Theorem rl_x_conc_replay_f bound t now ep st : rl_x_ok st ->
  let rx := rl_x_replay bound t now ep st in
  let rb := rl_replay_f bound t now ep (rl_x_conc st) in
  rl_rr_out rb = rl_x_out_bytes (rl_xrr_out rx) /\ rl_rr_done rb = rl_xrr_done rx /\ rl_rr_st rb = rl_x_conc (rl_xrr_st rx).
Proof.
  intros Hok. cbv zeta. unfold rl_replay_f, rl_x_replay. destruct (rl_ep_dur ep =? 0).
  { repeat split. }
  change {| rl_r_peer := rl_ep_pos ep; rl_r_logpos := rl_ep_pos ep; rl_r_cnt := 0; rl_r_out := [] |}
    with (rl_x_rs_bytes {| rl_xr_peer := rl_ep_pos ep; rl_xr_logpos := rl_ep_pos ep; rl_xr_cnt := 0; rl_xr_out := [] |}).
  rewrite rl_x_loop_bytes by assumption.
  destruct (rl_x_replay_loop bound 3 t (rl_ep_zone ep) now st (-1) _) as [s d]. cbn [fst snd rl_rr_out rl_rr_done rl_rr_st rl_xrr_out rl_xrr_done rl_xrr_st].
  split; [|split; reflexivity]. cbn [rl_x_rs_bytes rl_r_out]. apply rl_x_out_bytes_rev.
Qed.

Lemma rl_x_out_view_bytes emit o : rl_x_out_bytes (rl_x_out_view emit o) = rl_out_view emit (rl_x_out_bytes o).
Proof.
  destruct emit; [reflexivity|]. cbn [rl_x_out_view rl_out_view]. induction o as [|x o IH]; [reflexivity|].
  cbn [filter rl_x_out_bytes map]. destruct x as [m|p]; cbn [rl_x_is_msg rl_is_msg]; [cbn [map]; f_equal|]; exact IH.
Qed.

(* ... hence for the pinned form (RlModel.rl_replay) and for the form the source has now *)
Theorem rl_x_conc_replay t now ep st : rl_x_ok st ->
  let rx := rl_x_replay false t now ep st in
  let rb := rl_replay t now ep (rl_x_conc st) in
  rl_rr_out rb = rl_x_out_bytes (rl_xrr_out rx) /\ rl_rr_done rb = rl_xrr_done rx /\ rl_rr_st rb = rl_x_conc (rl_xrr_st rx).
Proof. intros Hok. cbv zeta. rewrite <- rl_replay_f_pinned. apply rl_x_conc_replay_f. assumption. Qed.

Theorem rl_x_conc_replay_fe emit bound t now ep st : rl_x_ok st ->
  let rx := rl_x_replay_fe emit bound t now ep st in
  let rb := rl_replay_fe emit bound t now ep (rl_x_conc st) in
  rl_rr_out rb = rl_x_out_bytes (rl_xrr_out rx) /\ rl_rr_done rb = rl_xrr_done rx /\ rl_rr_st rb = rl_x_conc (rl_xrr_st rx).
Proof.
  intros Hok. cbv zeta. destruct (rl_x_conc_replay_f bound t now ep st Hok) as (A & B & C).
  unfold rl_replay_fe, rl_x_replay_fe. cbn [rl_rr_out rl_rr_done rl_rr_st rl_xrr_out rl_xrr_done rl_xrr_st].
  rewrite A, rl_x_out_view_bytes. repeat split; assumption.
Qed.

(* the decodable entries of the directory are the recorded entries, whatever their size below the bound *)
Theorem rl_x_conc_entries st : rl_x_ok st -> rl_log_entries (rl_x_conc st) = map rl_xe_entry (rl_x_log_entries st).
Proof.
  intros [Hf Hc]. unfold rl_log_entries, rl_x_log_entries. cbn [rl_x_conc rl_files rl_cur]. rewrite map_app, rl_x_parse by assumption. f_equal.
  induction Hf as [|f fs H Hf IH]; [reflexivity|]. cbn [map flat_map snd]. rewrite map_app, rl_x_parse by assumption. f_equal. exact IH.
Qed.

(* ---------- the premise is kept by every operation that adds an acceptable entry ---------- *)
Lemma rl_x_ok_insert n b : forall fs, Forall (fun f => rl_xes_ok (snd f)) fs -> rl_xes_ok b ->
  Forall (fun f => rl_xes_ok (snd f)) (rl_g_insert_file n b fs).
Proof.
  induction fs as [|[m c] fs IH]; intros H Hb; cbn [rl_g_insert_file]; [repeat constructor; assumption|].
  inversion H; subst. destruct (n <? m).
  - constructor; [assumption|constructor; assumption].
  - constructor; [assumption|apply IH; assumption].
Qed.

Lemma rl_x_ok_rotate now s : rl_x_ok s -> rl_x_ok (rl_x_rotate now s).
Proof.
  intros [Hf Hc]. unfold rl_x_rotate. destruct (rl_g_has_file _ _); [split; assumption|].
  split; cbn [rl_x_files rl_x_cur]; [apply rl_x_ok_insert; assumption|constructor].
Qed.

Theorem rl_x_ok_persist now e s : rl_x_ok s -> rl_entry_ok (rl_xe_entry e) -> rl_x_ok (rl_x_persist now e s).
Proof.
  intros [Hf Hc] He. unfold rl_x_persist. cbv zeta.
  assert (rl_x_ok {| rl_x_files := rl_x_files s; rl_x_cur := rl_x_cur s ++ [e]; rl_x_lmt := rl_xe_ts e; rl_x_cnt := rl_x_cnt s + 1; rl_x_eps := rl_x_eps s |}) as H1.
  { split; cbn [rl_x_files rl_x_cur]; [assumption|]. apply Forall_app. split; [assumption|constructor; [assumption|constructor]]. }
  destruct (50000 <? _); [|exact H1]. unfold rl_x_rotate_cycle. destruct (rl_x_ok_rotate now _ H1) as [A B]. split; assumption.
Qed.

(* ---------- the operations together, as stated in Properties_C12.v ---------- *)
Theorem rl_x_refines_ops t now s :
  (forall e, rl_x_conc (rl_x_persist now e s) = rl_persist now (rl_xe_entry e) (rl_x_conc s)) /\
  rl_x_conc (rl_x_rotate_cycle now s) = rl_rotate_cycle now (rl_x_conc s) /\
  (forall clean, rl_x_conc (rl_x_restart clean now s) = rl_restart clean now (rl_x_conc s)) /\
  rl_x_conc (rl_x_cleanup t now s) = rl_cleanup t now (rl_x_conc s) /\
  (forall id p, rl_x_conc (rl_x_ack id p s) = rl_ack id p (rl_x_conc s)) /\
  (forall id ts, fst (rl_x_recv id ts s) = fst (rl_recv id ts (rl_x_conc s)) /\ rl_x_conc (snd (rl_x_recv id ts s)) = snd (rl_recv id ts (rl_x_conc s))) /\
  (forall sec m, let rx := rl_x_relay t now sec m s in
                 let rb := rl_relay t now sec (rl_x_expand m) (rl_x_conc s) in
                 rl_xrl_logged rx = rl_rl_logged rb /\ rl_xrl_live rx = rl_rl_live rb /\ rl_x_conc (rl_xrl_st rx) = rl_rl_st rb).
Proof.
  split; [intros; apply rl_x_conc_persist|]. split; [apply rl_x_conc_rotate_cycle|]. split; [intros; apply rl_x_conc_restart|].
  split; [apply rl_x_conc_cleanup|]. split; [intros; apply rl_x_conc_ack|]. split; [intros; apply rl_x_conc_recv|].
  intros; apply rl_x_conc_relay.
Qed.
