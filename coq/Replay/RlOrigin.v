(* C12 round 2 (brief C12b) - messages that ARRIVE from an endpoint and are relayed on (definitions only).
   Transcribes the parts of lib/remote/apilistener.cpp RelayMessageOne (1216-1326) / SyncRelayMessage (1328-1363) that
   RlModel.rl_relay leaves out because it fixes origin = null: the two origin tests inside the endpoint loop
   ("don't relay back to the endpoint / the zone we got the message from", 1278-1288) and what they do to the per-ENDPOINT
   state: the endpoint is pushed onto skippedEndpoints and gets SetLocalLogPosition(ts) after the loop (1318-1323).
   Order of the tests in the loop, per endpoint of the target zone (the local endpoint is not in the list):
     log_needed = true;
     not connected            -> (local zone: log_done = false); next          -- never reaches skippedEndpoints
     log_done = true;
     relayed && foreign zone  -> skipped; next
     endpoint == origin's     -> skipped; next
     zone == origin's zone    -> skipped; next
     (routing-master test: the local endpoint is the master in the configuration used, as in RlModel)
     relayed = true; SyncSendMessage.
   and lib/remote/jsonrpcconnection.cpp MessageHandler (304-323): the timestamp filter, then the origin is built:
   FromClient = the connection; FromZone = the endpoint's zone, or - for an endpoint of OUR zone - the zone named by the
   message's "originZone" member (none if absent/unknown). *)
From Icv Require Import Base.Tac Replay.RlBytes Replay.RlModel Replay.RlSize Replay.RlCompact Replay.RlHistory.
Local Open Scope Z_scope.

(* the origin of a message: (id of the endpoint it came from, id of origin->FromZone or -1 if that is null) *)
Definition rl_origin := option (Z * Z).

Definition rl_o_from_ep (org : rl_origin) (e : rl_ep) : bool :=
  match org with Some (oid, _) => rl_ep_id e =? oid | None => false end.
Definition rl_o_from_zone (org : rl_origin) (z : Z) : bool :=
  match org with Some (_, oz) => (0 <=? oz) && (z =? oz) | None => false end.

(* the loop over one target zone's endpoints with an origin; [fz] = this zone is the origin zone *)
Fixpoint rl_relay_zone_eps_o (org : rl_origin) (fz : bool) (is_local : bool) (eps : list rl_ep) (relayed log_needed log_done : bool)
         (live skipped : list Z) : bool * bool * list Z * list Z :=
  match eps with
  | [] => (log_needed, log_done, live, skipped)
  | e :: r =>
      if negb (rl_ep_conn e)
      then rl_relay_zone_eps_o org fz is_local r relayed true (if is_local then false else log_done) live skipped
      else if relayed && negb is_local
      then rl_relay_zone_eps_o org fz is_local r relayed true true live (skipped ++ [rl_ep_id e])
      else if rl_o_from_ep org e
      then rl_relay_zone_eps_o org fz is_local r relayed true true live (skipped ++ [rl_ep_id e])
      else if fz
      then rl_relay_zone_eps_o org fz is_local r relayed true true live (skipped ++ [rl_ep_id e])
      else rl_relay_zone_eps_o org fz is_local r true true true
             (if rl_ep_sync e then live else live ++ [rl_ep_id e]) skipped
  end.

Definition rl_relay_one_o (org : rl_origin) (t : rl_topo) (eps : list rl_ep) (target : Z) : rl_zres :=
  let lz := rl_t_local t in
  if negb (rl_zglobal t target) && negb (target =? lz) && negb (target =? rl_zparent t lz) && negb (rl_zparent t target =? lz)
  then {| rl_zr_need := false; rl_zr_live := []; rl_zr_skipped := [] |}
  else
    let targets := if rl_zglobal t target
                   then filter (fun z => (z =? lz) || (rl_zparent t z =? lz)) (map rl_z_id (rl_t_zones t))
                   else [target] in
    fold_left (fun acc z =>
                 let '(ln, ld, live, sk) :=
                   rl_relay_zone_eps_o org (rl_o_from_zone org z) (z =? lz) (rl_zone_eps eps z) false false false [] [] in
                 {| rl_zr_need := rl_zr_need acc || (ln && negb ld);
                    rl_zr_live := rl_zr_live acc ++ live; rl_zr_skipped := rl_zr_skipped acc ++ sk |})
              targets {| rl_zr_need := false; rl_zr_live := []; rl_zr_skipped := [] |}.

(* the endpoint part of SyncRelayMessage: one RelayMessageOne per zone, each followed by the position updates of its
   skipped endpoints; (need_log, live recipients, endpoints afterwards) *)
Definition rl_relay_route_o (org : rl_origin) (t : rl_topo) (now : Z) (zs : list Z) (eps : list rl_ep) : bool * list Z * list rl_ep :=
  fold_left (fun '(need, live, eps) z =>
               let r := rl_relay_one_o org t eps z in
               (need || rl_zr_need r, live ++ rl_zr_live r,
                fold_left (fun eps id => rl_upd_ep (rl_ep_set_pos now) id eps) (rl_zr_skipped r) eps))
            zs (false, [], eps).

(* SyncRelayMessage(origin, secobj, message, log = true) at time now *)
Definition rl_relay_o (org : rl_origin) (t : rl_topo) (now : Z) (sec : option (rl_bytes * rl_bytes)) (msg : rl_bytes) (st : rl_st) : rl_relres :=
  let '(need, live, eps') := rl_relay_route_o org t now (rl_relay_zones t sec) (rl_eps st) in
  let st1 := rl_set_eps st eps' in
  if need then {| rl_rl_logged := true; rl_rl_live := live;
                  rl_rl_st := rl_persist now {| rl_e_ts := now; rl_e_sec := sec; rl_e_msg := msg |} st1 |}
  else {| rl_rl_logged := false; rl_rl_live := live; rl_rl_st := st1 |}.

(* the same on framed records (RlCompact): routing on the skeleton state, then the record-level persist *)
Definition rl_x_relay_o (org : rl_origin) (t : rl_topo) (now : Z) (sec : option (rl_bytes * rl_bytes)) (msg : rl_rle) (st : rl_xst) : rl_xrelres :=
  let r := rl_relay_o org t now sec [] (rl_x_skel st) in
  let st1 := rl_x_set_eps st (rl_eps (rl_rl_st r)) in
  {| rl_xrl_logged := rl_rl_logged r; rl_xrl_live := rl_rl_live r;
     rl_xrl_st := if rl_rl_logged r then rl_x_persist now {| rl_xe_ts := now; rl_xe_sec := sec; rl_xe_msg := msg |} st1 else st1 |}.

(* MessageHandler 313-320: origin->FromZone for a message from endpoint e whose "originZone" member names zone oz (-1: none) *)
Definition rl_origin_of (t : rl_topo) (e : rl_ep) (oz : Z) : rl_origin :=
  Some (rl_ep_id e, if rl_ep_zone e =? rl_t_local t then oz else rl_ep_zone e).

(* the event the harness' handler relays on: {'jsonrpc':'2.0','method':'vf::ev'[,'originZone':'<name>'],'params':{'id':N},'ts':T}
   (SyncRelayMessage adds originZone when origin->FromZone is set; Dictionary keys are sorted) *)
Definition rl_lit_o1 : rl_bytes := [123;34;106;115;111;110;114;112;99;34;58;34;50;46;48;34;44;34;109;101;116;104;111;100;34;58;34;118;102;58;58;101;118;34;44].
Definition rl_lit_o2 : rl_bytes := [34;111;114;105;103;105;110;90;111;110;101;34;58;34].   (* 'originZone':' *)
Definition rl_lit_o3 : rl_bytes := [34;112;97;114;97;109;115;34;58;123;34;105;100;34;58].   (* 'params':{'id': *)
Definition rl_mk_omsg (zname : option rl_bytes) (id ts : Z) : rl_bytes :=
  rl_lit_o1 ++ match zname with Some n => rl_lit_o2 ++ n ++ [34;44] | None => [] end ++ rl_lit_o3 ++ rl_digits id ++ rl_lit_m2 ++ rl_digits ts ++ [125].

(* ---- the operation of the correspondence run: a message with timestamp ts and originZone oz (-1: none) arrives from
   endpoint id (MessageHandler: timestamp filter, origin), its handler relays an event about sec on (SyncRelayMessage) ---- *)
Record rl_fromres := { rl_fr_acc : bool; rl_fr_logged : bool; rl_fr_live : list Z; rl_fr_st : rl_st }.
Definition rl_from (t : rl_topo) (now id ts oz : Z) (sec : option (rl_bytes * rl_bytes)) (msg : rl_bytes) (st : rl_st) : rl_fromres :=
  match rl_get_ep (rl_eps st) id with
  | None => {| rl_fr_acc := false; rl_fr_logged := false; rl_fr_live := []; rl_fr_st := st |}
  | Some _ =>
      let '(acc, st1) := rl_recv id ts st in
      if acc then match rl_get_ep (rl_eps st1) id with
                  | Some e => let r := rl_relay_o (rl_origin_of t e oz) t now sec msg st1 in
                              {| rl_fr_acc := true; rl_fr_logged := rl_rl_logged r; rl_fr_live := rl_rl_live r; rl_fr_st := rl_rl_st r |}
                  | None => {| rl_fr_acc := true; rl_fr_logged := false; rl_fr_live := []; rl_fr_st := st1 |} end
      else {| rl_fr_acc := false; rl_fr_logged := false; rl_fr_live := []; rl_fr_st := st1 |}
  end.

Record rl_xfromres := { rl_xfr_acc : bool; rl_xfr_logged : bool; rl_xfr_live : list Z; rl_xfr_st : rl_xst }.
Definition rl_x_from (t : rl_topo) (now id ts oz : Z) (sec : option (rl_bytes * rl_bytes)) (msg : rl_rle) (st : rl_xst) : rl_xfromres :=
  match rl_get_ep (rl_x_eps st) id with
  | None => {| rl_xfr_acc := false; rl_xfr_logged := false; rl_xfr_live := []; rl_xfr_st := st |}
  | Some _ =>
      let '(acc, st1) := rl_x_recv id ts st in
      if acc then match rl_get_ep (rl_x_eps st1) id with
                  | Some e => let r := rl_x_relay_o (rl_origin_of t e oz) t now sec msg st1 in
                              {| rl_xfr_acc := true; rl_xfr_logged := rl_xrl_logged r; rl_xfr_live := rl_xrl_live r; rl_xfr_st := rl_xrl_st r |}
                  | None => {| rl_xfr_acc := true; rl_xfr_logged := false; rl_xfr_live := []; rl_xfr_st := st1 |} end
      else {| rl_xfr_acc := false; rl_xfr_logged := false; rl_xfr_live := []; rl_xfr_st := st1 |}
  end.

(* the zone the relayed message names as originZone: origin->FromZone *)
Definition rl_from_origin_zone (t : rl_topo) (eps : list rl_ep) (id oz : Z) : Z :=
  match rl_get_ep eps id with
  | Some e => match rl_origin_of t e oz with Some (_, z) => z | None => -1 end
  | None => -1
  end.

(* ---- histories with arriving messages ---- *)
Inductive rl_ohop :=
| RlOBase (op : rl_hop)                                             (* everything RlHistory has *)
| RlOFrom (id ts oz : Z) (sec : option (rl_bytes * rl_bytes)) (msg : rl_bytes).
  (* a message with timestamp ts (and originZone oz) arrives from endpoint id; its handler relays an event about sec on *)

Definition rl_ohstep (t : rl_topo) (now : Z) (op : rl_ohop) (st : rl_st) : rl_st :=
  match op with
  | RlOBase b => rl_hstep t now b st
  | RlOFrom id ts oz sec msg =>
      match rl_get_ep (rl_eps st) id with
      | None => st
      | Some _ =>
          let '(acc, st1) := rl_recv id ts st in
          if acc then match rl_get_ep (rl_eps st1) id with
                      | Some e => rl_rl_st (rl_relay_o (rl_origin_of t e oz) t now sec msg st1)
                      | None => st1 end
          else st1
      end
  end.

Fixpoint rl_ohrun (t : rl_topo) (h : list (Z * rl_ohop)) (st : rl_st) : rl_st :=
  match h with [] => st | (now, op) :: r => rl_ohrun t r (rl_ohstep t now op st) end.

Fixpoint rl_ohclock (c : Z) (h : list (Z * rl_ohop)) : Z :=
  match h with [] => c | (now, _) :: r => rl_ohclock now r end.

(* the quantifier of RlHistory.rl_hvalid: the clock advances before everything that stamps an event *)
Fixpoint rl_ohvalid (c : Z) (h : list (Z * rl_ohop)) : Prop :=
  match h with
  | [] => True
  | (now, op) :: r =>
      match op with
      | RlOBase b => rl_hvalid c [(now, b)]
      | RlOFrom _ _ _ sec msg =>
          c < now /\ now < 10 ^ 15 /\
          Z.of_nat (length (rl_enc_entry {| rl_e_ts := now; rl_e_sec := sec; rl_e_msg := msg |})) < 10 ^ 9
      end /\ rl_ohvalid now r
  end.

(* what an operation may do to endpoint id's local log position / connection: *)
Definition rl_oh_acks (op : rl_ohop) (id : Z) : bool :=        (* its own acknowledgement *)
  match op with RlOBase (RlHAck i _) => i =? id | _ => false end.
Definition rl_oh_conns (op : rl_ohop) (id : Z) : bool :=       (* its own reconnect *)
  match op with RlOBase (RlHConn i) => i =? id | _ => false end.

(* the records of the endpoint(s) named id *)
Definition rl_ep_view (id : Z) (eps : list rl_ep) : list rl_ep := filter (fun e => rl_ep_id e =? id) eps.
(* endpoint id is away: no record with that id is connected *)
Definition rl_ep_away (id : Z) (eps : list rl_ep) : Prop := forall e, In e eps -> rl_ep_id e = id -> rl_ep_conn e = false.

(* ---- oracle: observed positions / connection flags before and after one operation.  An endpoint that is not connected
   before the operation keeps its local log position (C12_position_only_moves_for_connected); [own] = the operation is
   the endpoint's own acknowledgement ---- *)
Fixpoint rl_or_posmove (obs : list (bool * bool * Z * Z)) : bool :=
  match obs with
  | [] => true
  | (conn, own, before, after) :: r => (conn || own || (before =? after)) && rl_or_posmove r
  end.
