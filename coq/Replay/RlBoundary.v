(* C12 - the boundaries of the two premises about timestamps (strictly increasing timestamps in log order; every file
   named later than its entries): what ReplayLog does without the first one, the rotation rule ("never overwrite" - a
   rotation within the same second is silently denied) and the witnesses of what is lost when the sender's clock does
   not advance or steps back between two relays. *)
From Icv Require Import Base.Tac Replay.RlBytes Replay.RlModel Replay.RlBytesProofs Replay.RlProofs Replay.RlHistory
  Replay.RlHistoryProofs Replay.RlOracleProofs Facts.Facts_c12.
From Coq Require Import Sorting.Sorted.
Local Open Scope Z_scope.

(* ---------- ReplayLog without the premise "strictly increasing timestamps" ---------- *)
(* what is sent is given by the dynamic rule of the loop alone: an accessible entry is sent iff its timestamp is above the
   confirmed position AND above the timestamp of every entry sent before it in this replay *)
Theorem rl_replayed_dyn t now ep st :
  rl_ep_dur ep <> 0 -> rl_name_bound (rl_files st) ->
  let r := rl_replay t now ep st in
  rl_msgs (rl_rr_out r) = map rl_e_msg (rl_dyn t (rl_ep_zone ep) (rl_ep_pos ep) (rl_log_entries st)) /\ rl_rr_done r = true.
Proof.
  intros Hdur Hnb. cbv zeta. unfold rl_replay.
  destruct (rl_ep_dur ep =? 0) eqn:Ed; [lia|].
  set (tz := rl_ep_zone ep). set (p0 := rl_ep_pos ep).
  set (s0 := {| rl_r_peer := p0; rl_r_logpos := p0; rl_r_cnt := 0; rl_r_out := [] |}).
  destruct (rl_pass_spec t tz now st s0) as (P1 & P2 & P3).
  set (s1 := rl_replay_pass t tz now st s0) in *.
  change (rl_r_peer s0) with p0 in P1, P2, P3. change (rl_r_out s0) with (@nil rl_out) in P2.
  cbn [rev rl_msgs flat_map app] in P2.
  destruct (rl_dyn_skip_files t tz p0 (rl_files st) p0 (rl_parse_log (rl_cur st))) as (K1 & K2); [lia|assumption|].
  unfold rl_pass_entries in P1, P2, P3. rewrite K1 in P2, P3. rewrite K2 in P1. rewrite <- rl_log_entries_eq in P1, P2, P3.
  assert (forall e, In e (rl_log_entries st) -> rl_can_access t tz (rl_e_sec e) = true -> rl_e_ts e <= rl_r_peer s1) as Hcov.
  { intros e He Ha. rewrite P1. apply rl_dyn_covered; assumption. }
  destruct (rl_pass_idle t tz now st s1 Hcov) as (Q1 & Q2 & Q3).
  set (s2 := rl_replay_pass t tz now st s1) in *.
  assert (forall e, In e (rl_log_entries st) -> rl_can_access t tz (rl_e_sec e) = true -> rl_e_ts e <= rl_r_peer s2) as Hcov2.
  { intros e He Ha. rewrite Q1. apply Hcov; assumption. }
  destruct (rl_pass_idle t tz now st s2 Hcov2) as (R1 & R2 & R3).
  set (s3 := rl_replay_pass t tz now st s2) in *.
  cbn [rl_replay_loop]. fold s1. change (-1 =? -1) with true. cbn [orb negb]. fold s2.
  destruct (negb ((rl_r_cnt s1 =? -1) || (50000 <? rl_r_cnt s1))) eqn:El.
  - cbn [rl_rr_out rl_rr_done]. rewrite Q2, P2. split; reflexivity.
  - fold s3. rewrite Q3. change (negb ((0 =? -1) || (50000 <? 0))) with true. cbn iota beta.
    cbn [rl_rr_out rl_rr_done]. rewrite R2, Q2, P2. split; reflexivity.
Qed.

(* the dynamic rule never sends an entry that is not owed, and under non-decreasing timestamps it sends the FIRST accessible
   entry of every timestamp above the position: exactly the later entries of a group of equal timestamps are lost *)
Definition rl_ts_le (a b : rl_entry) : Prop := rl_e_ts a <= rl_e_ts b.

Lemma rl_dyn_weak t tz : forall es p, StronglySorted rl_ts_le es ->
  rl_dyn t tz p es =
    (fix go (p : Z) (es : list rl_entry) : list rl_entry :=
       match es with
       | [] => []
       | e :: r => if (p <? rl_e_ts e) && rl_can_access t tz (rl_e_sec e) then e :: go (rl_e_ts e) r else go p r
       end) p es.
Proof.
  induction es as [|e r IH]; intros p Hs; [reflexivity|]. inversion Hs; subst. cbn [rl_dyn].
  destruct (rl_e_ts e <=? p) eqn:E.
  - replace (p <? rl_e_ts e) with false by lia. cbn [andb]. apply IH. assumption.
  - replace (p <? rl_e_ts e) with true by lia. cbn [andb].
    destruct (rl_can_access t tz (rl_e_sec e)); cbn [negb]; [f_equal|]; apply IH; assumption.
Qed.

(* ---------- the rotation rule ---------- *)
(* the form RotateLogFile has in the source now: rename to int(ts)+1 only if no file of that name exists - what rl_rotate transcribes *)
Theorem rl_src_rotate_form : f_rl_rotate_never_overwrites = Some true /\ f_rl_replay_skip_le = Some true.
Proof. split; reflexivity. Qed.

(* in every reachable state a rotation - carried out or denied because a file of that name exists (same second) - keeps
   every entry and every file; so does the rotate cycle PersistMessage runs after 50000 messages *)
Theorem rl_rotate_keeps c now st : rl_hinv c st ->
  rl_log_entries (rl_rotate_cycle now st) = rl_log_entries st /\
  (forall f, In f (rl_files st) -> In f (rl_files (rl_rotate_cycle now st))) /\
  (rl_has_file (rl_files st) ((if rl_lmt st =? 0 then now else rl_lmt st) + 1) = true -> rl_files (rl_rotate_cycle now st) = rl_files st /\ rl_cur (rl_rotate_cycle now st) = rl_cur st).
Proof.
  intros Hi. pose proof Hi as (fl & ces & A & B & C & D & E & F). split; [|split].
  - unfold rl_rotate_cycle. change (rl_log_entries (rl_open now (rl_rotate now st))) with (rl_log_entries (rl_rotate now st)).
    apply rl_rotate_preserves. replace (rl_lmt st =? 0) with false by lia.
    rewrite A. unfold rl_enc_files. apply rl_Forall_map. cbn [fst]. eapply Forall_impl; [|exact D]. intros f (H & _). exact H.
  - intros f Hf. unfold rl_rotate_cycle, rl_open, rl_rotate. cbn [rl_set_lmt rl_files].
    destruct (rl_has_file _ _); cbn [rl_files]; [assumption|].
    clear - Hf. induction (rl_files st) as [|[m c0] fs IH]; [contradiction|]. cbn [rl_insert_file].
    destruct (_ <? m); [right; assumption|]. destruct Hf as [<-|Hf]; [left; reflexivity|right; apply IH; assumption].
  - intros Hh. unfold rl_rotate_cycle, rl_open, rl_rotate. rewrite Hh. split; reflexivity.
Qed.

(* ---------- witnesses: the sender's clock does not advance / steps back between two relays ---------- *)
Definition rl_w_hist_equal : list (Z * rl_hop) := [(10, RlHRelay None (rl_mk_msg 1 10)); (10, RlHRelay None (rl_mk_msg 2 10))].
Definition rl_w_hist_back : list (Z * rl_hop) := [(20, RlHRelay None (rl_mk_msg 1 20)); (10, RlHRelay None (rl_mk_msg 2 10))].
Definition rl_w_hist_back_rot : list (Z * rl_hop) :=
  [(20, RlHRelay None (rl_mk_msg 1 20)); (10, RlHRelay None (rl_mk_msg 2 10)); (10, RlHRotate); (12, RlHRelay None (rl_mk_msg 3 12))].

(* both events are persisted (the peer is disconnected), the reconnecting peer is owed both, ReplayLog sends the first only *)
Theorem rl_clock_refuted :
  (let st := rl_hrun rl_w_topo rl_w_hist_equal (rl_init_st 5 [rl_w_ep]) in
   map rl_e_msg (rl_log_entries st) = [rl_mk_msg 1 10; rl_mk_msg 2 10] /\
   map rl_e_msg (filter (rl_sel rl_w_topo 1 0) (rl_log_entries st)) = [rl_mk_msg 1 10; rl_mk_msg 2 10] /\
   rl_msgs (rl_rr_out (rl_replay rl_w_topo 40 rl_w_ep st)) = [rl_mk_msg 1 10]) /\
  (let st := rl_hrun rl_w_topo rl_w_hist_back (rl_init_st 5 [rl_w_ep]) in
   map rl_e_msg (rl_log_entries st) = [rl_mk_msg 1 20; rl_mk_msg 2 10] /\
   rl_msgs (rl_rr_out (rl_replay rl_w_topo 40 rl_w_ep st)) = [rl_mk_msg 1 20]) /\
  (* with a rotation after the step the file is named 11 although it holds an entry of time 20: a peer that confirmed
     position 15 (it has seen neither event 1 nor 3) is not even shown that file *)
  (let st := rl_hrun rl_w_topo rl_w_hist_back_rot (rl_init_st 5 [rl_w_ep]) in
   map fst (rl_files st) = [11] /\ map rl_e_msg (rl_log_entries st) = [rl_mk_msg 1 20; rl_mk_msg 2 10; rl_mk_msg 3 12] /\
   rl_msgs (rl_rr_out (rl_replay rl_w_topo 40 (rl_ep_set_pos 15 rl_w_ep) st)) = []).
Proof. vm_compute. repeat split. Qed.
