(* C12 replay log - the sender/receiver model (definitions only).
   Transcribes lib/remote/apilistener.cpp: PersistMessage (1144-1174), Open/Close/RotateLogFile (1366-1419),
   ReplayLog (1439-1587), ApiTimerHandler (952-1033), SyncRelayMessage/RelayMessageOne (1216-1363, for
   locally generated messages: origin = null, the local endpoint is the zone master), and
   lib/remote/jsonrpcconnection.cpp: MessageHandler's timestamp filter (304-315), SetLogPositionHandler (376-389).
   The clock is an explicit input of every operation; times are whole seconds.
   The directory api/log is a list (name, content) kept in increasing name order - that is what
   Utility::Glob + LogGlobHandler + std::sort yield - plus the file "current". *)
From Icv Require Import Base.Tac Replay.RlBytes.
Local Open Scope Z_scope.

(* ---- static configuration: zones, objects ---- *)
Record rl_zone := { rl_z_id : Z; rl_z_parent : Z (* -1: none *); rl_z_global : bool }.
Record rl_topo := {
  rl_t_zones : list rl_zone;
  rl_t_local : Z;                                   (* the local zone *)
  rl_t_objs : list (rl_bytes * rl_bytes * Z)        (* (type, name, zone id) of the config objects that exist *)
}.

Fixpoint rl_find_zone (zs : list rl_zone) (z : Z) : option rl_zone :=
  match zs with [] => None | x :: r => if rl_z_id x =? z then Some x else rl_find_zone r z end.
Definition rl_zparent (t : rl_topo) (z : Z) : Z :=
  match rl_find_zone (rl_t_zones t) z with Some x => rl_z_parent x | None => -1 end.
Definition rl_zglobal (t : rl_topo) (z : Z) : bool :=
  match rl_find_zone (rl_t_zones t) z with Some x => rl_z_global x | None => false end.

(* Zone::IsChildOf: walk the parent chain *)
Fixpoint rl_child_of (fuel : nat) (t : rl_topo) (z target : Z) : bool :=
  match fuel with
  | O => false
  | S f => if z <? 0 then false else if z =? target then true else rl_child_of f t (rl_zparent t z) target
  end.

Fixpoint rl_bytes_eqb (a b : rl_bytes) : bool :=
  match a, b with
  | [], [] => true
  | x :: a', y :: b' => (x =? y) && rl_bytes_eqb a' b'
  | _, _ => false
  end.

Fixpoint rl_find_obj (os : list (rl_bytes * rl_bytes * Z)) (ty nm : rl_bytes) : option Z :=
  match os with
  | [] => None
  | (t0, n0, z) :: r => if rl_bytes_eqb t0 ty && rl_bytes_eqb n0 nm then Some z else rl_find_obj r ty nm
  end.

(* ReplayLog 1530-1540: no secobj -> no test; object gone -> skip; else Zone::CanAccessObject *)
Definition rl_can_access (t : rl_topo) (tz : Z) (sec : option (rl_bytes * rl_bytes)) : bool :=
  match sec with
  | None => true
  | Some (ty, nm) =>
      match rl_find_obj (rl_t_objs t) ty nm with
      | None => false
      | Some oz => if rl_zglobal t oz then true else rl_child_of (S (length (rl_t_zones t))) t oz tz
      end
  end.

(* ---- dynamic state ---- *)
Record rl_ep := {
  rl_ep_id : Z; rl_ep_zone : Z; rl_ep_dur : Z;      (* log_duration *)
  rl_ep_pos : Z;                                     (* local_log_position: what the peer confirmed *)
  rl_ep_rpos : Z;                                    (* remote_log_position: what we accepted from the peer *)
  rl_ep_conn : bool; rl_ep_sync : bool
}.

Record rl_st := {
  rl_files : list (Z * rl_bytes);                    (* rotated files, increasing names *)
  rl_cur : rl_bytes;                                 (* api/log/current *)
  rl_lmt : Z;                                        (* log_message_timestamp *)
  rl_cnt : Z;                                        (* m_LogMessageCount *)
  rl_eps : list rl_ep                                (* all endpoints except the local one *)
}.

Definition rl_set_files (s : rl_st) f := {| rl_files := f; rl_cur := rl_cur s; rl_lmt := rl_lmt s; rl_cnt := rl_cnt s; rl_eps := rl_eps s |}.
Definition rl_set_eps (s : rl_st) e := {| rl_files := rl_files s; rl_cur := rl_cur s; rl_lmt := rl_lmt s; rl_cnt := rl_cnt s; rl_eps := e |}.
Definition rl_set_lmt (s : rl_st) l := {| rl_files := rl_files s; rl_cur := rl_cur s; rl_lmt := l; rl_cnt := rl_cnt s; rl_eps := rl_eps s |}.

Definition rl_upd_ep (f : rl_ep -> rl_ep) (id : Z) (eps : list rl_ep) : list rl_ep :=
  map (fun e => if rl_ep_id e =? id then f e else e) eps.
Fixpoint rl_get_ep (eps : list rl_ep) (id : Z) : option rl_ep :=
  match eps with [] => None | e :: r => if rl_ep_id e =? id then Some e else rl_get_ep r id end.

Definition rl_ep_set_pos (p : Z) (e : rl_ep) := {| rl_ep_id := rl_ep_id e; rl_ep_zone := rl_ep_zone e; rl_ep_dur := rl_ep_dur e; rl_ep_pos := p; rl_ep_rpos := rl_ep_rpos e; rl_ep_conn := rl_ep_conn e; rl_ep_sync := rl_ep_sync e |}.
Definition rl_ep_set_rpos (p : Z) (e : rl_ep) := {| rl_ep_id := rl_ep_id e; rl_ep_zone := rl_ep_zone e; rl_ep_dur := rl_ep_dur e; rl_ep_pos := rl_ep_pos e; rl_ep_rpos := p; rl_ep_conn := rl_ep_conn e; rl_ep_sync := rl_ep_sync e |}.
Definition rl_ep_set_conn (c sy : bool) (e : rl_ep) := {| rl_ep_id := rl_ep_id e; rl_ep_zone := rl_ep_zone e; rl_ep_dur := rl_ep_dur e; rl_ep_pos := rl_ep_pos e; rl_ep_rpos := rl_ep_rpos e; rl_ep_conn := c; rl_ep_sync := sy |}.

(* ---- files ---- *)
Fixpoint rl_has_file (fs : list (Z * rl_bytes)) (n : Z) : bool :=
  match fs with [] => false | (m, _) :: r => (m =? n) || rl_has_file r n end.
Fixpoint rl_insert_file (n : Z) (b : rl_bytes) (fs : list (Z * rl_bytes)) : list (Z * rl_bytes) :=
  match fs with
  | [] => [(n, b)]
  | (m, c) :: r => if n <? m then (n, b) :: fs else (m, c) :: rl_insert_file n b r
  end.

(* OpenLogFile: append mode, SetLogMessageTimestamp(now) *)
Definition rl_open (now : Z) (s : rl_st) : rl_st := rl_set_lmt s now.

(* RotateLogFile (the log file is closed): ts = log_message_timestamp, or now if 0; new name int(ts)+1;
   silently denied if that name exists *)
Definition rl_rotate (now : Z) (s : rl_st) : rl_st :=
  let ts := if rl_lmt s =? 0 then now else rl_lmt s in
  let n := ts + 1 in
  if rl_has_file (rl_files s) n then s
  else {| rl_files := rl_insert_file n (rl_cur s) (rl_files s); rl_cur := []; rl_lmt := rl_lmt s; rl_cnt := 0; rl_eps := rl_eps s |}.

(* CloseLogFile; RotateLogFile; OpenLogFile  (PersistMessage 1169-1171; also the harness op "rotate") *)
Definition rl_rotate_cycle (now : Z) (s : rl_st) : rl_st := rl_open now (rl_rotate now s).

(* PersistMessage *)
Definition rl_persist (now : Z) (e : rl_entry) (s : rl_st) : rl_st :=
  let s1 := {| rl_files := rl_files s; rl_cur := rl_cur s ++ rl_frame (rl_enc_entry e);
               rl_lmt := rl_e_ts e; rl_cnt := rl_cnt s + 1; rl_eps := rl_eps s |} in
  if 50000 <? rl_cnt s1 then rl_rotate_cycle now s1 else s1.

(* restart of the sender.  clean = ApiListener::Stop (CloseLogFile; RotateLogFile) before the new process;
   then Start: m_LogMessageCount = 0, OpenLogFile.  All connections are gone; positions are [state] attributes. *)
Definition rl_restart (clean : bool) (now : Z) (s : rl_st) : rl_st :=
  let s1 := if clean then rl_rotate now s else s in
  {| rl_files := rl_files s1; rl_cur := rl_cur s1; rl_lmt := now; rl_cnt := 0;
     rl_eps := map (rl_ep_set_conn false false) (rl_eps s1) |}.

(* ---- ReplayLog ---- *)
Inductive rl_out := RlOutMsg (m : rl_bytes) | RlOutPos (p : Z).

Record rl_rs := { rl_r_peer : Z; rl_r_logpos : Z; rl_r_cnt : Z; rl_r_out : list rl_out (* newest first *) }.

(* body of the while(true) loop for one decoded entry (1527-1568) *)
Definition rl_rstep (t : rl_topo) (tz fname : Z) (s : rl_rs) (e : rl_entry) : rl_rs :=
  if rl_e_ts e <=? rl_r_peer s then s
  else if negb (rl_can_access t tz (rl_e_sec e)) then s
  else
    let out1 := RlOutMsg (rl_e_msg e) :: rl_r_out s in
    if rl_r_logpos s + 10 <? fname
    then {| rl_r_peer := rl_e_ts e; rl_r_logpos := fname; rl_r_cnt := rl_r_cnt s + 1; rl_r_out := RlOutPos fname :: out1 |}
    else {| rl_r_peer := rl_e_ts e; rl_r_logpos := rl_r_logpos s; rl_r_cnt := rl_r_cnt s + 1; rl_r_out := out1 |}.

Definition rl_replay_file (t : rl_topo) (tz : Z) (s : rl_rs) (f : Z * rl_bytes) : rl_rs :=
  fold_left (rl_rstep t tz (fst f)) (rl_parse_log (snd f)) s.

(* one iteration of for(;;): files with name >= peer_ts (as of now), then current under the name now+1 *)
Definition rl_pass_files (now : Z) (st : rl_st) (peer : Z) : list (Z * rl_bytes) :=
  filter (fun f => peer <=? fst f) (rl_files st) ++ [(now + 1, rl_cur st)].

Definition rl_replay_pass (t : rl_topo) (tz now : Z) (st : rl_st) (s : rl_rs) : rl_rs :=
  fold_left (rl_replay_file t tz) (rl_pass_files now st (rl_r_peer s))
            {| rl_r_peer := rl_r_peer s; rl_r_logpos := rl_r_logpos s; rl_r_cnt := 0; rl_r_out := rl_r_out s |}.

(* for(;;): the pass after one that sent <= 50000 messages is the last one *)
Fixpoint rl_replay_loop (fuel : nat) (t : rl_topo) (tz now : Z) (st : rl_st) (count : Z) (s : rl_rs) : rl_rs * bool :=
  match fuel with
  | O => (s, false)
  | S f =>
      let last := negb ((count =? -1) || (50000 <? count)) in
      let s' := rl_replay_pass t tz now st s in
      if last then (s', true) else rl_replay_loop f t tz now st (rl_r_cnt s') s'
  end.

Record rl_rres := { rl_rr_out : list rl_out; rl_rr_done : bool; rl_rr_st : rl_st }.

(* ReplayLog(client) for endpoint ep, preceded by what SyncClient/NewClientHandler do to the flags *)
Definition rl_replay (t : rl_topo) (now : Z) (ep : rl_ep) (st : rl_st) : rl_rres :=
  let st1 := rl_set_eps st (rl_upd_ep (rl_ep_set_conn true false) (rl_ep_id ep) (rl_eps st)) in   (* syncing reset by Defer *)
  if rl_ep_dur ep =? 0 then {| rl_rr_out := []; rl_rr_done := true; rl_rr_st := st1 |}
  else
    let '(s, done) := rl_replay_loop 3 t (rl_ep_zone ep) now st (-1)
                        {| rl_r_peer := rl_ep_pos ep; rl_r_logpos := rl_ep_pos ep; rl_r_cnt := 0; rl_r_out := [] |} in
    {| rl_rr_out := rev (rl_r_out s); rl_rr_done := done; rl_rr_st := rl_open now st1 |}.

Definition rl_msgs (o : list rl_out) : list rl_bytes :=
  flat_map (fun x => match x with RlOutMsg m => [m] | RlOutPos _ => [] end) o.

(* all decodable entries of the log in replay order *)
Definition rl_log_entries (st : rl_st) : list rl_entry :=
  flat_map (fun f => rl_parse_log (snd f)) (rl_files st) ++ rl_parse_log (rl_cur st).

(* ---- ApiTimerHandler: clean-up ---- *)
(* endpoints in a) the same zone b) the parent zone c) immediate child zones *)
Definition rl_related (t : rl_topo) (e : rl_ep) : bool :=
  let z := rl_ep_zone e in
  (z =? rl_t_local t) || (z =? rl_zparent t (rl_t_local t)) || (rl_zparent t z =? rl_t_local t).

Definition rl_ep_needs (now n : Z) (e : rl_ep) : bool :=
  if (0 <=? rl_ep_dur e) && (n <? now - rl_ep_dur e) then false else rl_ep_pos e <? n.

Definition rl_needed (t : rl_topo) (now : Z) (eps : list rl_ep) (n : Z) : bool :=
  existsb (fun e => rl_related t e && rl_ep_needs now n e) eps.

Definition rl_cleanup (t : rl_topo) (now : Z) (st : rl_st) : rl_st :=
  rl_set_files st (filter (fun f => rl_needed t now (rl_eps st) (fst f)) (rl_files st)).

(* second half of the handler: log::SetLogPosition(remote_log_position) to every connected endpoint with a position *)
Definition rl_timer_acks (st : rl_st) : list (Z * Z) :=
  flat_map (fun e => if rl_ep_conn e && negb (rl_ep_rpos e =? 0) then [(rl_ep_id e, rl_ep_rpos e)] else []) (rl_eps st).

(* ---- receiver side ---- *)
(* SetLogPositionHandler: only forward *)
Definition rl_ack (id p : Z) (st : rl_st) : rl_st :=
  rl_set_eps st (rl_upd_ep (fun e => if rl_ep_pos e <? p then rl_ep_set_pos p e else e) id (rl_eps st)).

(* the peer handles the log::SetLogPosition messages of an output stream *)
Definition rl_feed_acks (id : Z) (o : list rl_out) (st : rl_st) : rl_st :=
  fold_left (fun s x => match x with RlOutPos p => rl_ack id p s | RlOutMsg _ => s end) o st.

(* MessageHandler 304-315: returns (accepted, state) *)
Definition rl_recv (id ts : Z) (st : rl_st) : bool * rl_st :=
  match rl_get_ep (rl_eps st) id with
  | None => (true, st)
  | Some e => if ts <? rl_ep_rpos e then (false, st)
              else (true, rl_set_eps st (rl_upd_ep (rl_ep_set_rpos ts) id (rl_eps st)))
  end.

(* ---- SyncRelayMessage / RelayMessageOne for a locally generated message ---- *)
Record rl_zres := { rl_zr_need : bool; rl_zr_live : list Z; rl_zr_skipped : list Z }.

(* the loop over one target zone's endpoints (1253-1311); state: relayed, log_needed, log_done *)
Fixpoint rl_relay_zone_eps (is_local : bool) (eps : list rl_ep) (relayed log_needed log_done : bool)
         (live skipped : list Z) : bool * bool * list Z * list Z :=
  match eps with
  | [] => (log_needed, log_done, live, skipped)
  | e :: r =>
      if negb (rl_ep_conn e)
      then rl_relay_zone_eps is_local r relayed true (if is_local then false else log_done) live skipped
      else if relayed && negb is_local
      then rl_relay_zone_eps is_local r relayed true true live (skipped ++ [rl_ep_id e])
      else rl_relay_zone_eps is_local r true true true
             (if rl_ep_sync e then live else live ++ [rl_ep_id e]) skipped    (* SyncSendMessage: only if not syncing *)
  end.

Definition rl_zone_eps (eps : list rl_ep) (z : Z) : list rl_ep := filter (fun e => rl_ep_zone e =? z) eps.

(* RelayMessageOne: (needsReplay, live recipients, skipped endpoints) *)
Definition rl_relay_one (t : rl_topo) (eps : list rl_ep) (target : Z) : rl_zres :=
  let lz := rl_t_local t in
  if negb (rl_zglobal t target) && negb (target =? lz) && negb (target =? rl_zparent t lz) && negb (rl_zparent t target =? lz)
  then {| rl_zr_need := false; rl_zr_live := []; rl_zr_skipped := [] |}
  else
    let targets := if rl_zglobal t target
                   then filter (fun z => (z =? lz) || (rl_zparent t z =? lz)) (map rl_z_id (rl_t_zones t))
                   else [target] in
    fold_left (fun acc z =>
                 let '(ln, ld, live, sk) := rl_relay_zone_eps (z =? lz) (rl_zone_eps eps z) false false false [] [] in
                 {| rl_zr_need := rl_zr_need acc || (ln && negb ld);
                    rl_zr_live := rl_zr_live acc ++ live; rl_zr_skipped := rl_zr_skipped acc ++ sk |})
              targets {| rl_zr_need := false; rl_zr_live := []; rl_zr_skipped := [] |}.

Fixpoint rl_parents (fuel : nat) (t : rl_topo) (z : Z) : list Z :=
  match fuel with
  | O => []
  | S f => let p := rl_zparent t z in if p <? 0 then [] else p :: rl_parents f t p
  end.

Record rl_relres := { rl_rl_logged : bool; rl_rl_live : list Z; rl_rl_st : rl_st }.

(* SyncRelayMessage(origin = null, secobj, message, log = true) at time now; the message gets ts = now *)
Definition rl_relay (t : rl_topo) (now : Z) (sec : option (rl_bytes * rl_bytes)) (msg : rl_bytes) (st : rl_st) : rl_relres :=
  let tzone := match sec with
               | Some (ty, nm) => match rl_find_obj (rl_t_objs t) ty nm with Some z => z | None => rl_t_local t end
               | None => rl_t_local t end in
  let zs := tzone :: rl_parents (length (rl_t_zones t)) t tzone in
  (* each RelayMessageOne sees the positions written by the previous ones; they do not influence routing *)
  let '(need, live, eps') :=
    fold_left (fun '(need, live, eps) z =>
                 let r := rl_relay_one t eps z in
                 (need || rl_zr_need r, live ++ rl_zr_live r,
                  fold_left (fun eps id => rl_upd_ep (rl_ep_set_pos now) id eps) (rl_zr_skipped r) eps))
              zs (false, [], rl_eps st) in
  let st1 := rl_set_eps st eps' in
  if need then {| rl_rl_logged := true; rl_rl_live := live;
                  rl_rl_st := rl_persist now {| rl_e_ts := now; rl_e_sec := sec; rl_e_msg := msg |} st1 |}
  else {| rl_rl_logged := false; rl_rl_live := live; rl_rl_st := st1 |}.

(* ---- faults ---- *)
Definition rl_map_file (n : Z) (f : rl_bytes -> rl_bytes) (st : rl_st) : rl_st :=
  {| rl_files := map (fun x => if fst x =? n then (fst x, f (snd x)) else x) (rl_files st);
     rl_cur := rl_cur st; rl_lmt := rl_lmt st; rl_cnt := rl_cnt st; rl_eps := rl_eps st |}.
Definition rl_map_cur (f : rl_bytes -> rl_bytes) (st : rl_st) : rl_st :=
  {| rl_files := rl_files st; rl_cur := f (rl_cur st); rl_lmt := rl_lmt st; rl_cnt := rl_cnt st; rl_eps := rl_eps st |}.
