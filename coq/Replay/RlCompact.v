(* C12 replay log - the sender model on FRAMED RECORDS (definitions only).
   The same operations as RlModel.v on a directory whose files are lists of entries with run-length encoded messages
   instead of bytes: an entry of several megabytes is a few numbers.  [rl_x_conc] gives the byte-level state it stands
   for; RlCompactProofs.v shows that every operation commutes with it as long as each entry is one the reader returns
   (rl_entry_fits 9 None: the size premise, explicit).  This is the model the correspondence run executes for scripts
   with large payloads; for small ones the glue runs it next to the byte-level model and compares all observations. *)
From Icv Require Import Base.Tac Replay.RlBytes Replay.RlModel Replay.RlSize Replay.RlFixed.
Local Open Scope Z_scope.

Record rl_xst := {
  rl_x_files : list (Z * list rl_xentry);            (* rotated files, increasing names *)
  rl_x_cur : list rl_xentry;                         (* api/log/current *)
  rl_x_lmt : Z; rl_x_cnt : Z; rl_x_eps : list rl_ep
}.

(* the bytes of a file *)
Definition rl_xe_log (es : list rl_xentry) : rl_bytes := rl_enc_log (map rl_xe_entry es).

(* the byte-level state a record-level state stands for *)
Definition rl_x_conc (s : rl_xst) : rl_st :=
  {| rl_files := map (fun f => (fst f, rl_xe_log (snd f))) (rl_x_files s); rl_cur := rl_xe_log (rl_x_cur s);
     rl_lmt := rl_x_lmt s; rl_cnt := rl_x_cnt s; rl_eps := rl_x_eps s |}.

(* the same directory with empty files: all that routing, acknowledgements and the clean-up look at *)
Definition rl_x_skel (s : rl_xst) : rl_st :=
  {| rl_files := map (fun f => (fst f, [])) (rl_x_files s); rl_cur := [];
     rl_lmt := rl_x_lmt s; rl_cnt := rl_x_cnt s; rl_eps := rl_x_eps s |}.

Definition rl_x_set_eps (s : rl_xst) (e : list rl_ep) : rl_xst :=
  {| rl_x_files := rl_x_files s; rl_x_cur := rl_x_cur s; rl_x_lmt := rl_x_lmt s; rl_x_cnt := rl_x_cnt s; rl_x_eps := e |}.

Fixpoint rl_g_has_file {A} (fs : list (Z * A)) (n : Z) : bool :=
  match fs with [] => false | (m, _) :: r => (m =? n) || rl_g_has_file r n end.
Fixpoint rl_g_insert_file {A} (n : Z) (b : A) (fs : list (Z * A)) : list (Z * A) :=
  match fs with
  | [] => [(n, b)]
  | (m, c) :: r => if n <? m then (n, b) :: fs else (m, c) :: rl_g_insert_file n b r
  end.

Definition rl_x_open (now : Z) (s : rl_xst) : rl_xst :=
  {| rl_x_files := rl_x_files s; rl_x_cur := rl_x_cur s; rl_x_lmt := now; rl_x_cnt := rl_x_cnt s; rl_x_eps := rl_x_eps s |}.

Definition rl_x_rotate (now : Z) (s : rl_xst) : rl_xst :=
  let ts := if rl_x_lmt s =? 0 then now else rl_x_lmt s in
  let n := ts + 1 in
  if rl_g_has_file (rl_x_files s) n then s
  else {| rl_x_files := rl_g_insert_file n (rl_x_cur s) (rl_x_files s); rl_x_cur := []; rl_x_lmt := rl_x_lmt s; rl_x_cnt := 0; rl_x_eps := rl_x_eps s |}.

Definition rl_x_rotate_cycle (now : Z) (s : rl_xst) : rl_xst := rl_x_open now (rl_x_rotate now s).

Definition rl_x_persist (now : Z) (e : rl_xentry) (s : rl_xst) : rl_xst :=
  let s1 := {| rl_x_files := rl_x_files s; rl_x_cur := rl_x_cur s ++ [e];
               rl_x_lmt := rl_xe_ts e; rl_x_cnt := rl_x_cnt s + 1; rl_x_eps := rl_x_eps s |} in
  if 50000 <? rl_x_cnt s1 then rl_x_rotate_cycle now s1 else s1.

Definition rl_x_restart (clean : bool) (now : Z) (s : rl_xst) : rl_xst :=
  let s1 := if clean then rl_x_rotate now s else s in
  {| rl_x_files := rl_x_files s1; rl_x_cur := rl_x_cur s1; rl_x_lmt := now; rl_x_cnt := 0;
     rl_x_eps := map (rl_ep_set_conn false false) (rl_x_eps s1) |}.

(* ---- ReplayLog over lists of entries ---- *)
Inductive rl_xout := RlXMsg (m : rl_rle) | RlXPos (p : Z).
Record rl_xrs := { rl_xr_peer : Z; rl_xr_logpos : Z; rl_xr_cnt : Z; rl_xr_out : list rl_xout }.

Definition rl_x_rstep (t : rl_topo) (tz fname : Z) (s : rl_xrs) (e : rl_xentry) : rl_xrs :=
  if rl_xe_ts e <=? rl_xr_peer s then s
  else if negb (rl_can_access t tz (rl_xe_sec e)) then s
  else
    let out1 := RlXMsg (rl_xe_msg e) :: rl_xr_out s in
    if rl_xr_logpos s + 10 <? fname
    then {| rl_xr_peer := rl_xe_ts e; rl_xr_logpos := fname; rl_xr_cnt := rl_xr_cnt s + 1; rl_xr_out := RlXPos fname :: out1 |}
    else {| rl_xr_peer := rl_xe_ts e; rl_xr_logpos := rl_xr_logpos s; rl_xr_cnt := rl_xr_cnt s + 1; rl_xr_out := out1 |}.

(* [bound]: the form of ReplayLog with the timestamp bound (RlFixed.v) *)
Fixpoint rl_x_cut (fname : Z) (es : list rl_xentry) : list rl_xentry :=
  match es with [] => [] | e :: r => if fname <=? rl_xe_ts e then [] else e :: rl_x_cut fname r end.

Definition rl_x_replay_file (bound : bool) (t : rl_topo) (tz : Z) (s : rl_xrs) (f : Z * list rl_xentry) : rl_xrs :=
  fold_left (rl_x_rstep t tz (fst f)) (if bound then rl_x_cut (fst f) (snd f) else snd f) s.

Definition rl_x_pass_files (now : Z) (st : rl_xst) (peer : Z) : list (Z * list rl_xentry) :=
  filter (fun f => peer <=? fst f) (rl_x_files st) ++ [(now + 1, rl_x_cur st)].

Definition rl_x_replay_pass (bound : bool) (t : rl_topo) (tz now : Z) (st : rl_xst) (s : rl_xrs) : rl_xrs :=
  fold_left (rl_x_replay_file bound t tz) (rl_x_pass_files now st (rl_xr_peer s))
            {| rl_xr_peer := rl_xr_peer s; rl_xr_logpos := rl_xr_logpos s; rl_xr_cnt := 0; rl_xr_out := rl_xr_out s |}.

Fixpoint rl_x_replay_loop (bound : bool) (fuel : nat) (t : rl_topo) (tz now : Z) (st : rl_xst) (count : Z) (s : rl_xrs) : rl_xrs * bool :=
  match fuel with
  | O => (s, false)
  | S f =>
      let last := negb ((count =? -1) || (50000 <? count)) in
      let s' := rl_x_replay_pass bound t tz now st s in
      if last then (s', true) else rl_x_replay_loop bound f t tz now st (rl_xr_cnt s') s'
  end.

Record rl_xrres := { rl_xrr_out : list rl_xout; rl_xrr_done : bool; rl_xrr_st : rl_xst }.

Definition rl_x_replay (bound : bool) (t : rl_topo) (now : Z) (ep : rl_ep) (st : rl_xst) : rl_xrres :=
  let st1 := rl_x_set_eps st (rl_upd_ep (rl_ep_set_conn true false) (rl_ep_id ep) (rl_x_eps st)) in
  if rl_ep_dur ep =? 0 then {| rl_xrr_out := []; rl_xrr_done := true; rl_xrr_st := st1 |}
  else
    let '(s, done) := rl_x_replay_loop bound 3 t (rl_ep_zone ep) now st (-1)
                        {| rl_xr_peer := rl_ep_pos ep; rl_xr_logpos := rl_ep_pos ep; rl_xr_cnt := 0; rl_xr_out := [] |} in
    {| rl_xrr_out := rev (rl_xr_out s); rl_xrr_done := done; rl_xrr_st := rl_x_open now st1 |}.

(* [emit]: the form with / without the emission of log::SetLogPosition *)
Definition rl_x_is_msg (x : rl_xout) : bool := match x with RlXMsg _ => true | RlXPos _ => false end.
Definition rl_x_out_view (emit : bool) (o : list rl_xout) : list rl_xout := if emit then o else filter rl_x_is_msg o.
Definition rl_x_replay_fe (emit bound : bool) (t : rl_topo) (now : Z) (ep : rl_ep) (st : rl_xst) : rl_xrres :=
  let r := rl_x_replay bound t now ep st in
  {| rl_xrr_out := rl_x_out_view emit (rl_xrr_out r); rl_xrr_done := rl_xrr_done r; rl_xrr_st := rl_xrr_st r |}.
(* the form the source has now *)
Definition rl_x_replay_src : rl_topo -> Z -> rl_ep -> rl_xst -> rl_xrres := rl_x_replay_fe rl_src_emit rl_src_bound.

(* what the byte-level replay emits for this output *)
Definition rl_x_out_bytes (o : list rl_xout) : list rl_out :=
  map (fun x => match x with RlXMsg m => RlOutMsg (rl_x_expand m) | RlXPos p => RlOutPos p end) o.

Definition rl_x_log_entries (st : rl_xst) : list rl_xentry := flat_map snd (rl_x_files st) ++ rl_x_cur st.

(* ---- clean-up, acknowledgements, incoming messages: names and endpoints only ---- *)
Definition rl_x_cleanup (t : rl_topo) (now : Z) (st : rl_xst) : rl_xst :=
  {| rl_x_files := filter (fun f => rl_needed t now (rl_x_eps st) (fst f)) (rl_x_files st); rl_x_cur := rl_x_cur st;
     rl_x_lmt := rl_x_lmt st; rl_x_cnt := rl_x_cnt st; rl_x_eps := rl_x_eps st |}.

Definition rl_x_ack (id p : Z) (st : rl_xst) : rl_xst := rl_x_set_eps st (rl_eps (rl_ack id p (rl_x_skel st))).
Definition rl_x_recv (id ts : Z) (st : rl_xst) : bool * rl_xst :=
  let r := rl_recv id ts (rl_x_skel st) in (fst r, rl_x_set_eps st (rl_eps (snd r))).
Definition rl_x_feed_acks (id : Z) (o : list rl_xout) (st : rl_xst) : rl_xst :=
  fold_left (fun s x => match x with RlXPos p => rl_x_ack id p s | RlXMsg _ => s end) o st.

(* ---- SyncRelayMessage: the routing of RlModel.rl_relay (it looks at the endpoints only), then the record-level persist ---- *)
Record rl_xrelres := { rl_xrl_logged : bool; rl_xrl_live : list Z; rl_xrl_st : rl_xst }.

Definition rl_x_relay (t : rl_topo) (now : Z) (sec : option (rl_bytes * rl_bytes)) (msg : rl_rle) (st : rl_xst) : rl_xrelres :=
  let r := rl_relay t now sec [] (rl_x_skel st) in
  let st1 := rl_x_set_eps st (rl_eps (rl_rl_st r)) in
  {| rl_xrl_logged := rl_rl_logged r; rl_xrl_live := rl_rl_live r;
     rl_xrl_st := if rl_rl_logged r then rl_x_persist now {| rl_xe_ts := now; rl_xe_sec := sec; rl_xe_msg := msg |} st1 else st1 |}.

(* ---- observations ---- *)
(* size in bytes of a log file *)
Definition rl_x_file_size (es : list rl_xentry) : Z := fold_right (fun e a => rl_frame_len (rl_xe_len e) + a) 0 es.

(* cut a file at byte offset k: the entries that end at or before k stay (a partial frame at the end is never returned
   by the reader; nothing may be appended afterwards) *)
Fixpoint rl_x_truncate (k : Z) (es : list rl_xentry) : list rl_xentry :=
  match es with
  | [] => []
  | e :: r => let l := rl_frame_len (rl_xe_len e) in if l <=? k then e :: rl_x_truncate (k - l) r else []
  end.
