(* C12 - ReplayLog in the forms the two proposed repairs give it, selected by regenerated facts (definitions only).
   * bound = true  (repo_patches/c12-replaylog-bound-timestamp.diff): an entry whose timestamp is >= the name bound of the
     file it is read from (a rotated file's name; now + 1 for current) is treated like the other corruption cases: break.
   * emit = false  (repo_patches/c12-replaylog-no-setlogposition.diff): no log::SetLogPosition is sent during the replay;
     logpos_ts has no other use, so the messages are the same and the position items are absent.
   [rl_replay_f false] with the full output is RlModel.rl_replay (RlFixedProofs.v); [rl_replay_src] is the form the source
   has now - what the correspondence run executes. *)
From Icv Require Import Base.Tac Replay.RlBytes Replay.RlModel Facts.Facts_c12.
Local Open Scope Z_scope.

(* the entries of a file the loop gets to when it stops at the first timestamp >= fname *)
Fixpoint rl_cut (fname : Z) (es : list rl_entry) : list rl_entry :=
  match es with [] => [] | e :: r => if fname <=? rl_e_ts e then [] else e :: rl_cut fname r end.

Definition rl_replay_file_f (bound : bool) (t : rl_topo) (tz : Z) (s : rl_rs) (f : Z * rl_bytes) : rl_rs :=
  fold_left (rl_rstep t tz (fst f)) (if bound then rl_cut (fst f) (rl_parse_log (snd f)) else rl_parse_log (snd f)) s.

Definition rl_replay_pass_f (bound : bool) (t : rl_topo) (tz now : Z) (st : rl_st) (s : rl_rs) : rl_rs :=
  fold_left (rl_replay_file_f bound t tz) (rl_pass_files now st (rl_r_peer s))
            {| rl_r_peer := rl_r_peer s; rl_r_logpos := rl_r_logpos s; rl_r_cnt := 0; rl_r_out := rl_r_out s |}.

Fixpoint rl_replay_loop_f (bound : bool) (fuel : nat) (t : rl_topo) (tz now : Z) (st : rl_st) (count : Z) (s : rl_rs) : rl_rs * bool :=
  match fuel with
  | O => (s, false)
  | S f =>
      let last := negb ((count =? -1) || (50000 <? count)) in
      let s' := rl_replay_pass_f bound t tz now st s in
      if last then (s', true) else rl_replay_loop_f bound f t tz now st (rl_r_cnt s') s'
  end.

Definition rl_replay_f (bound : bool) (t : rl_topo) (now : Z) (ep : rl_ep) (st : rl_st) : rl_rres :=
  let st1 := rl_set_eps st (rl_upd_ep (rl_ep_set_conn true false) (rl_ep_id ep) (rl_eps st)) in
  if rl_ep_dur ep =? 0 then {| rl_rr_out := []; rl_rr_done := true; rl_rr_st := st1 |}
  else
    let '(s, done) := rl_replay_loop_f bound 3 t (rl_ep_zone ep) now st (-1)
                        {| rl_r_peer := rl_ep_pos ep; rl_r_logpos := rl_ep_pos ep; rl_r_cnt := 0; rl_r_out := [] |} in
    {| rl_rr_out := rev (rl_r_out s); rl_rr_done := done; rl_rr_st := rl_open now st1 |}.

(* what goes out when the emission of log::SetLogPosition is (not) there *)
Definition rl_is_msg (x : rl_out) : bool := match x with RlOutMsg _ => true | RlOutPos _ => false end.
Definition rl_out_view (emit : bool) (o : list rl_out) : list rl_out := if emit then o else filter rl_is_msg o.

Definition rl_replay_fe (emit bound : bool) (t : rl_topo) (now : Z) (ep : rl_ep) (st : rl_st) : rl_rres :=
  let r := rl_replay_f bound t now ep st in
  {| rl_rr_out := rl_out_view emit (rl_rr_out r); rl_rr_done := rl_rr_done r; rl_rr_st := rl_rr_st r |}.

(* the forms the source has now; an unrecognised form reads as the pinned one and C12_replay_forms_recognised stops checking *)
Definition rl_src_emit : bool := match f_rl_replay_emits_setlogposition with Some b => b | None => true end.
Definition rl_src_bound : bool := match f_rl_replay_bounds_timestamp with Some b => b | None => false end.
Definition rl_src_forms_recognised : bool :=
  match f_rl_replay_emits_setlogposition, f_rl_replay_bounds_timestamp with Some _, Some _ => true | _, _ => false end.
Definition rl_replay_src : rl_topo -> Z -> rl_ep -> rl_st -> rl_rres := rl_replay_fe rl_src_emit rl_src_bound.
