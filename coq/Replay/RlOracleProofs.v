(* The C12 oracle accepts every trace of the model (so it can only fire where the implementation
   leaves what the theorems establish). *)
From Icv Require Import Base.Tac Replay.RlBytes Replay.RlModel Replay.RlBytesProofs Replay.RlProofs Replay.RlObs.
From Coq Require Import Sorting.Sorted.
Local Open Scope Z_scope.

Lemma rl_bytes_eqb_refl a : rl_bytes_eqb a a = true.
Proof. induction a; cbn; [reflexivity|rewrite Z.eqb_refl; assumption]. Qed.
Lemma rl_list_eqb_refl a : rl_list_eqb a a = true.
Proof. induction a; cbn; [reflexivity|rewrite rl_bytes_eqb_refl; assumption]. Qed.

Lemma rl_strict_b_sorted es : rl_strict_b es = true -> StronglySorted rl_ts_lt es.
Proof.
  intros H. apply Sorted_StronglySorted; [intros a b c; unfold rl_ts_lt; lia|].
  induction es as [|e r IH]; [constructor|]. cbn [rl_strict_b] in H. destruct r as [|e' r'].
  - constructor; constructor.
  - apply andb_prop in H. destruct H as [H1 H2]. constructor; [apply IH; assumption|].
    constructor. unfold rl_ts_lt. lia.
Qed.

Theorem rl_oracle_accepts_replay t now ep st :
  rl_ep_dur ep <> 0 -> rl_name_bound (rl_files st) ->
  rl_or_replay t (rl_ep_zone ep) (rl_ep_pos ep) (rl_log_entries st) (rl_msgs (rl_rr_out (rl_replay t now ep st))) = true.
Proof.
  intros Hd Hnb. unfold rl_or_replay. destruct (rl_strict_b (rl_log_entries st)) eqn:E; [|reflexivity].
  destruct (rl_replayed t now ep st Hd Hnb (rl_strict_b_sorted _ E)) as [H _]. rewrite H. apply rl_list_eqb_refl.
Qed.

(* damaged log: as long as the decodable entries still have increasing timestamps (the negation of the
   recorded finding) every owed entry of any sub-collection of the log is delivered *)
Theorem rl_oracle_accepts_damaged t now ep st intact :
  rl_ep_dur ep <> 0 -> rl_name_bound (rl_files st) -> rl_strict_b (rl_log_entries st) = true ->
  incl intact (rl_log_entries st) ->
  rl_or_damaged t (rl_ep_zone ep) (rl_ep_pos ep) intact (rl_msgs (rl_rr_out (rl_replay t now ep st))) = true.
Proof.
  intros Hd Hnb Hs Hincl. unfold rl_or_damaged.
  destruct (rl_replayed t now ep st Hd Hnb (rl_strict_b_sorted _ Hs)) as [H _]. rewrite H.
  apply forallb_forall. intros m Hm. apply existsb_exists. exists m. split; [|apply rl_bytes_eqb_refl].
  unfold rl_expected in Hm. apply in_map_iff in Hm. destruct Hm as (e & <- & He). apply filter_In in He.
  apply in_map. apply filter_In. split; [apply Hincl|]; tauto.
Qed.

Theorem rl_oracle_accepts_cleanup t now st :
  rl_or_cleanup t now (rl_eps st) (map fst (rl_files st)) (map fst (rl_files (rl_cleanup t now st))) = true.
Proof.
  unfold rl_or_cleanup. apply forallb_forall. intros n Hn.
  destruct (rl_needed t now (rl_eps st) n) eqn:E; [|rewrite orb_true_r; reflexivity].
  rewrite orb_false_r. apply existsb_exists. exists n. split; [|apply Z.eqb_refl].
  apply in_map_iff in Hn. destruct Hn as (f & <- & Hf). apply in_map.
  apply (proj2 (proj2 (rl_cleanup_keeps t now st))); assumption.
Qed.

Theorem rl_oracle_accepts_recv id ts st e :
  rl_get_ep (rl_eps st) id = Some e -> rl_or_recv (rl_ep_rpos e) ts (fst (rl_recv id ts st)) = true.
Proof.
  intros H. unfold rl_or_recv, rl_recv. rewrite H. destruct (ts <? rl_ep_rpos e); reflexivity.
Qed.

Lemma rl_pairs_eqb_refl a : rl_pairs_eqb a a = true.
Proof. induction a as [|[x y] a IH]; cbn; [reflexivity|rewrite !Z.eqb_refl; assumption]. Qed.

Theorem rl_oracle_accepts_restart now st :
  let sz := map (fun f => (fst f, Z.of_nat (length (snd f)))) in
  rl_or_restart (sz (rl_files st)) (sz (rl_files (rl_restart false now st)))
                (Z.of_nat (length (rl_cur st))) (Z.of_nat (length (rl_cur (rl_restart false now st)))) = true.
Proof. cbv zeta. unfold rl_or_restart. cbn. rewrite rl_pairs_eqb_refl, Z.eqb_refl. reflexivity. Qed.

(* ---- the recorded finding on the model: one overwritten timestamp digit hides later intact entries ---- *)
Definition rl_w_topo : rl_topo :=
  {| rl_t_zones := [{| rl_z_id := 1; rl_z_parent := -1; rl_z_global := false |}]; rl_t_local := 1; rl_t_objs := [] |}.
Definition rl_w_e (ts id : Z) : rl_entry := {| rl_e_ts := ts; rl_e_sec := None; rl_e_msg := rl_mk_msg id ts |}.
Definition rl_w_ep : rl_ep :=
  {| rl_ep_id := 1; rl_ep_zone := 1; rl_ep_dur := 86400; rl_ep_pos := 0; rl_ep_rpos := 0; rl_ep_conn := false; rl_ep_sync := false |}.
Definition rl_w_file : rl_bytes := rl_enc_log [rl_w_e 10 1; rl_w_e 20 2].
Definition rl_w_st (f : rl_bytes) : rl_st :=
  {| rl_files := [(21, f)]; rl_cur := rl_enc_log [rl_w_e 30 3]; rl_lmt := 30; rl_cnt := 1; rl_eps := [rl_w_ep] |}.
(* offset of the first digit of the first entry's "timestamp" value *)
Definition rl_w_off : nat := 105.

Theorem rl_corrupt_ts_refuted :
  (* undamaged: all three events are replayed *)
  rl_msgs (rl_rr_out (rl_replay rl_w_topo 40 rl_w_ep (rl_w_st rl_w_file))) = [rl_mk_msg 1 10; rl_mk_msg 2 20; rl_mk_msg 3 30] /\
  (* '1' -> '9' in the first entry's timestamp: the intact later entry of the same file AND the entry of the other file are not replayed *)
  rl_msgs (rl_rr_out (rl_replay rl_w_topo 40 rl_w_ep (rl_w_st (rl_set_byte rl_w_off 57 rl_w_file)))) = [rl_mk_msg 1 10] /\
  nth rl_w_off rl_w_file 0 = 49.
Proof. vm_compute. repeat split. Qed.

(* ---- the second recorded finding on the model: during replay the sender emits log::SetLogPosition carrying the name of
   ITS OWN log file; the peer (same code) takes it as confirmation of the PEER's log.  Two nodes in the same situation
   (each kept three events for the other during the outage): the stream node A emits contains RlOutPos 21 and 41; node B
   handles them before its own replay starts and then replays NOTHING, although A never received B's three events. ---- *)
Theorem rl_setpos_refuted :
  let stB := rl_w_st rl_w_file in
  let emitted_by_A := rl_rr_out (rl_replay rl_w_topo 40 rl_w_ep stB) in          (* A is in the same state as B *)
  emitted_by_A = [RlOutMsg (rl_mk_msg 1 10); RlOutPos 21; RlOutMsg (rl_mk_msg 2 20); RlOutMsg (rl_mk_msg 3 30); RlOutPos 41] /\
  let stB' := rl_feed_acks 1 emitted_by_A stB in
  option_map rl_ep_pos (rl_get_ep (rl_eps stB') 1) = Some 41 /\
  (forall ep', rl_get_ep (rl_eps stB') 1 = Some ep' -> rl_msgs (rl_rr_out (rl_replay rl_w_topo 40 ep' stB')) = []) /\
  length (filter (rl_sel rl_w_topo 1 0) (rl_log_entries stB)) = 3%nat.
Proof.
  cbv zeta. split; [vm_compute; reflexivity|]. split; [vm_compute; reflexivity|]. split; [|vm_compute; reflexivity].
  intros ep' H. vm_compute in H. inversion H; subst. vm_compute. reflexivity.
Qed.
