(* C12 replay log - byte level (definitions only).
   * decimal printing / the digit loops of the readers
   * netstring framing: [rl_frame] = NetString::WriteStringToStream, [rl_ns_read] = one call of
     NetString::ReadStringFromStream (lib/base/netstring.cpp:26-105) on a buffer that already holds the
     rest of the file (StreamReadContext::FillFromStream reads a small file completely on the first call;
     'need more data' then leads to end-of-file on the next call)
   * the log entry PersistMessage writes, as a tiny concrete encoding: exactly the bytes JsonEncode produces
     for {'message': <string>, 'secobj': {'name','type'}, 'timestamp': <whole number>} and a STRICT decoder
     for exactly that shape.  JSON payloads are otherwise opaque byte strings.
   * [rl_parse_log] = the reading loop of ApiListener::ReplayLog (apilistener.cpp:1504-1525) with its
     error handling: a framing exception, an undecodable payload or a truncated tail stop THIS file. *)
From Icv Require Import Base.Tac.
Local Open Scope Z_scope.

Definition rl_bytes := list Z.

Definition rl_isdigit (c : Z) : bool := (48 <=? c) && (c <=? 57).

(* ---- decimal printing (what operator<< / JsonEncode print for a non-negative whole number) ---- *)
Fixpoint rl_digits_aux (fuel : nat) (n : Z) (acc : rl_bytes) : rl_bytes :=
  match fuel with
  | O => acc
  | S f => let acc' := (48 + n mod 10) :: acc in
           if n / 10 =? 0 then acc' else rl_digits_aux f (n / 10) acc'
  end.
Definition rl_digits (n : Z) : rl_bytes := rl_digits_aux 20 n [].

(* value of a digit string, most significant first: len = len * 10 + (c - '0') *)
Definition rl_dval (a : Z) (ds : rl_bytes) : Z := fold_left (fun a c => a * 10 + (c - 48)) ds a.

(* ---- netstring ---- *)
Definition rl_frame (p : rl_bytes) : rl_bytes := rl_digits (Z.of_nat (length p)) ++ [58] ++ p ++ [44].

Inductive rl_scanres := RlScanAt (i : Z) | RlScanNone | RlScanErr.

(* for (i = 0; i < Size; i++) { if (Buffer[i] == ':') { header_length = i; if (i == 0) throw; break; } else if (i > 16) throw; } *)
Fixpoint rl_scan (buf : rl_bytes) (i : Z) : rl_scanres :=
  match buf with
  | [] => RlScanNone
  | c :: t => if c =? 58 then (if i =? 0 then RlScanErr else RlScanAt i)
              else if 16 <? i then RlScanErr else rl_scan t (i + 1)
  end.

(* for (i = 0; i < header_length && isdigit(Buffer[i]); i++) { if (i >= 9) throw; len = len * 10 + (Buffer[i] - '0'); }
   (stops silently at the first non-digit) *)
Fixpoint rl_ns_len (hdr : rl_bytes) (i : Z) (len : Z) : option Z :=
  match hdr with
  | [] => Some len
  | c :: t => if rl_isdigit c then (if 9 <=? i then None else rl_ns_len t (i + 1) (len * 10 + (c - 48)))
              else Some len
  end.

Inductive rl_rd := RlItem (payload rest : rl_bytes) | RlNeed | RlErr.

Definition rl_ns_read (buf : rl_bytes) : rl_rd :=
  match rl_scan buf 0 with
  | RlScanErr => RlErr
  | RlScanNone => RlNeed
  | RlScanAt hl =>
      if (nth 0 buf 0 =? 48) && rl_isdigit (nth 1 buf 0) then RlErr else
      match rl_ns_len (firstn (Z.to_nat hl) buf) 0 0 with
      | None => RlErr
      | Some len =>
          let data := skipn (Z.to_nat hl + 1) buf in
          if Z.of_nat (length data) <? len + 1 then RlNeed
          else if nth (Z.to_nat len) data 0 =? 44
               then RlItem (firstn (Z.to_nat len) data) (skipn (Z.to_nat len + 1) data)
               else RlErr
      end
  end.

(* ---- the log entry ---- *)
Record rl_entry := { rl_e_ts : Z; rl_e_sec : option (rl_bytes * rl_bytes) (* type, name *); rl_e_msg : rl_bytes }.

(* JSON string escaping of the two characters that occur in our payloads *)
Fixpoint rl_esc (m : rl_bytes) : rl_bytes :=
  match m with
  | [] => []
  | c :: t => if (c =? 34) || (c =? 92) then 92 :: c :: rl_esc t else c :: rl_esc t
  end.

(* read a string body up to and including the closing quote *)
Fixpoint rl_unesc (buf : rl_bytes) : option (rl_bytes * rl_bytes) :=
  match buf with
  | [] => None
  | c :: t =>
      if c =? 34 then Some ([], t)
      else if c =? 92 then
        match t with
        | d :: t' => if (d =? 34) || (d =? 92)
                     then match rl_unesc t' with Some (m, r) => Some (d :: m, r) | None => None end
                     else None
        | [] => None
        end
      else match rl_unesc t with Some (m, r) => Some (c :: m, r) | None => None end
  end.

Fixpoint rl_expect (lit buf : rl_bytes) : option rl_bytes :=
  match lit with
  | [] => Some buf
  | c :: l => match buf with d :: b => if c =? d then rl_expect l b else None | [] => None end
  end.

Fixpoint rl_span_digits (buf : rl_bytes) : rl_bytes * rl_bytes :=
  match buf with
  | c :: t => if rl_isdigit c then let '(d, r) := rl_span_digits t in (c :: d, r) else ([], buf)
  | [] => ([], [])
  end.

Definition rl_lit_open : rl_bytes := [123;34;109;101;115;115;97;103;101;34;58;34].  (* {'message':' *)
Definition rl_lit_sec : rl_bytes := [44;34;115;101;99;111;98;106;34;58;123;34;110;97;109;101;34;58;34].  (* ,'secobj':{'name':' *)
Definition rl_lit_type : rl_bytes := [44;34;116;121;112;101;34;58;34].  (* ,'type':' *)
Definition rl_lit_secend : rl_bytes := [125].  (* } *)
Definition rl_lit_ts : rl_bytes := [44;34;116;105;109;101;115;116;97;109;112;34;58].  (* ,'timestamp': *)

Definition rl_enc_sec (sec : option (rl_bytes * rl_bytes)) : rl_bytes :=
  match sec with
  | Some (ty, nm) => rl_lit_sec ++ rl_esc nm ++ [34] ++ rl_lit_type ++ rl_esc ty ++ [34] ++ rl_lit_secend
  | None => []
  end.

Definition rl_enc_entry (e : rl_entry) : rl_bytes :=
  rl_lit_open ++ rl_esc (rl_e_msg e) ++ [34] ++ rl_enc_sec (rl_e_sec e) ++ rl_lit_ts ++ rl_digits (rl_e_ts e) ++ [125].

(* ,'timestamp':<digits>}<end> ; whole numbers of at most 15 digits (exact in binary64), no leading zero *)
Definition rl_dec_ts (b : rl_bytes) : option Z :=
  match rl_expect rl_lit_ts b with
  | None => None
  | Some b1 =>
      let '(ds, r) := rl_span_digits b1 in
      match ds, r with
      | d0 :: dr, [125] =>
          if (d0 =? 48) && negb (match dr with [] => true | _ => false end) then None
          else if (15 <? Z.of_nat (length ds)) then None else Some (rl_dval 0 ds)
      | _, _ => None
      end
  end.

Definition rl_dec_entry (p : rl_bytes) : option rl_entry :=
  match rl_expect rl_lit_open p with
  | None => None
  | Some b1 =>
    match rl_unesc b1 with
    | None => None
    | Some (msg, b2) =>
      match rl_expect rl_lit_sec b2 with
      | Some c1 =>
          match rl_unesc c1 with
          | None => None
          | Some (nm, c2) =>
            match rl_expect rl_lit_type c2 with
            | None => None
            | Some c3 =>
              match rl_unesc c3 with
              | None => None
              | Some (ty, c4) =>
                match rl_expect rl_lit_secend c4 with
                | None => None
                | Some c5 =>
                    match rl_dec_ts c5 with
                    | Some ts => Some {| rl_e_ts := ts; rl_e_sec := Some (ty, nm); rl_e_msg := msg |}
                    | None => None
                    end
                end
              end
            end
          end
      | None =>
          match rl_dec_ts b2 with
          | Some ts => Some {| rl_e_ts := ts; rl_e_sec := None; rl_e_msg := msg |}
          | None => None
          end
      end
    end
  end.

(* ---- the reading loop of ReplayLog over one file ---- *)
Fixpoint rl_parse_log_f (fuel : nat) (buf : rl_bytes) : list rl_entry :=
  match fuel with
  | O => []
  | S f =>
      match rl_ns_read buf with
      | RlItem p rest =>
          match rl_dec_entry p with
          | Some e => e :: rl_parse_log_f f rest      (* processed, loop continues *)
          | None => []                                 (* JsonDecode threw: break *)
          end
      | RlNeed => []   (* StatusNeedData: continue -> FillFromStream finds end-of-file -> StatusEof: break *)
      | RlErr => []    (* exception from ReadStringFromStream: break *)
      end
  end.
Definition rl_parse_log (buf : rl_bytes) : list rl_entry := rl_parse_log_f (S (length buf)) buf.

Definition rl_enc_log (es : list rl_entry) : rl_bytes := flat_map (fun e => rl_frame (rl_enc_entry e)) es.

(* damage *)
Definition rl_truncate_bytes (k : Z) (b : rl_bytes) : rl_bytes := firstn (Z.to_nat k) b.
Fixpoint rl_set_byte (k : nat) (v : Z) (b : rl_bytes) : rl_bytes :=
  match b with
  | [] => []
  | c :: t => match k with O => v :: t | S k' => c :: rl_set_byte k' v t end
  end.

(* the cluster message the harness relays: {'jsonrpc':'2.0','method':'vf::ev','params':{'id':N},'ts':T} *)
Definition rl_lit_m1 : rl_bytes := [123;34;106;115;111;110;114;112;99;34;58;34;50;46;48;34;44;34;109;101;116;104;111;100;34;58;34;118;102;58;58;101;118;34;44;34;112;97;114;97;109;115;34;58;123;34;105;100;34;58].
Definition rl_lit_m2 : rl_bytes := [125;44;34;116;115;34;58].  (* },'ts': *)
Definition rl_mk_msg (id ts : Z) : rl_bytes := rl_lit_m1 ++ rl_digits id ++ rl_lit_m2 ++ rl_digits ts ++ [125].
