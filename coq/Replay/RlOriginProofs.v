(* C12 round 2 (brief C12b) - proofs about arriving messages that are relayed on:
   - with origin = null the extended routing IS RlModel.rl_relay (all older theorems speak about the same function);
   - every endpoint RelayMessageOne puts on skippedEndpoints is CONNECTED, hence
   - the local log position of an endpoint that is away is changed by nothing but its own acknowledgement
     (C12_position_only_moves_for_connected), and stays away until its own reconnect;
   - the log invariant and C12_replayed hold over histories with arriving messages; per endpoint: what an endpoint that
     was away is replayed on its return is determined by the position it had when it left, whatever the other endpoints
     of its zone did meanwhile;
   - the record-level model refines the byte-level one for the new operation; the oracle accepts the model. *)
From Icv Require Import Base.Tac Replay.RlBytes Replay.RlModel Replay.RlBytesProofs Replay.RlProofs Replay.RlHistory Replay.RlHistoryProofs
  Replay.RlSize Replay.RlCompact Replay.RlCompactProofs Replay.RlOrigin.
From Coq Require Import Sorting.Sorted.
Local Open Scope Z_scope.

(* ---------- origin = null: the old routing ---------- *)
Lemma rl_relay_zone_eps_o_none il : forall eps relayed ln ld live sk,
  rl_relay_zone_eps_o None false il eps relayed ln ld live sk = rl_relay_zone_eps il eps relayed ln ld live sk.
Proof.
  induction eps as [|e r IH]; intros; [reflexivity|]. cbn [rl_relay_zone_eps_o rl_relay_zone_eps rl_o_from_ep].
  rewrite !IH. reflexivity.
Qed.

Lemma rl_fold_left_ext {A B} (f g : A -> B -> A) : (forall a b, f a b = g a b) -> forall l a, fold_left f l a = fold_left g l a.
Proof. intros H l. induction l as [|x l IH]; intros a; [reflexivity|]. cbn. rewrite H. apply IH. Qed.

Lemma rl_relay_one_o_none t eps z : rl_relay_one_o None t eps z = rl_relay_one t eps z.
Proof.
  unfold rl_relay_one_o, rl_relay_one. cbv zeta. destruct (_ && _ && _ && _); [reflexivity|].
  apply rl_fold_left_ext. intros acc z0. cbn [rl_o_from_zone]. rewrite rl_relay_zone_eps_o_none. reflexivity.
Qed.

Theorem rl_relay_o_none t now sec msg st : rl_relay_o None t now sec msg st = rl_relay t now sec msg st.
Proof.
  unfold rl_relay_o, rl_relay, rl_relay_route_o, rl_relay_zones, rl_target_zone.
  erewrite rl_fold_left_ext; [reflexivity|].
  intros [[need live] eps] z. rewrite rl_relay_one_o_none. reflexivity.
Qed.

(* ---------- skipped endpoints are connected ---------- *)
Definition rl_conn_in (eps : list rl_ep) (id : Z) : Prop := exists e, In e eps /\ rl_ep_id e = id /\ rl_ep_conn e = true.

Ltac rl_step_ih IH :=
  match goal with |- context [rl_relay_zone_eps_o ?o ?f ?i ?r ?a ?b ?c ?d ?s] =>
    specialize (IH a b c d s); destruct (rl_relay_zone_eps_o o f i r a b c d s) as [[[? ?] ?] ?] end.

Lemma rl_zone_eps_o_skipped org fz il : forall eps relayed ln ld live sk,
  let '(_, _, _, sk') := rl_relay_zone_eps_o org fz il eps relayed ln ld live sk in
  forall id, In id sk' -> In id sk \/ rl_conn_in eps id.
Proof.
  induction eps as [|e r IH]; intros relayed ln ld live sk; cbn [rl_relay_zone_eps_o].
  - intros id H. left. exact H.
  - assert (forall id, rl_conn_in r id -> rl_conn_in (e :: r) id) as Hw.
    { intros id (x & Hx & Hy). exists x. split; [right; exact Hx|exact Hy]. }
    destruct (rl_ep_conn e) eqn:Ec; cbn [negb].
    + assert (forall id, In id (sk ++ [rl_ep_id e]) -> In id sk \/ rl_conn_in (e :: r) id) as Hs.
      { intros id Hi. apply in_app_or in Hi. destruct Hi as [Hi|[Hi|[]]]; [left; exact Hi|right].
        exists e. split; [left; reflexivity|split; [exact Hi|exact Ec]]. }
      destruct (relayed && negb il); [|destruct (rl_o_from_ep org e); [|destruct fz]].
      1-3: rl_step_ih IH;
           intros id Hi; destruct (IH id Hi) as [H|H]; [apply Hs; exact H|right; apply Hw; exact H].
      rl_step_ih IH.
      intros id Hi; destruct (IH id Hi) as [H|H]; [left; exact H|right; apply Hw; exact H].
    + rl_step_ih IH.
      intros id Hi; destruct (IH id Hi) as [H|H]; [left; exact H|right; apply Hw; exact H].
Qed.

Lemma rl_relay_one_o_skipped org t eps z id :
  In id (rl_zr_skipped (rl_relay_one_o org t eps z)) -> rl_conn_in eps id.
Proof.
  unfold rl_relay_one_o. cbv zeta. destruct (_ && _ && _ && _); [intros []|].
  match goal with |- context [fold_left ?f ?l0 ?a] =>
    assert (forall zl acc, (forall i, In i (rl_zr_skipped acc) -> rl_conn_in eps i) ->
                          forall i, In i (rl_zr_skipped (fold_left f zl acc)) -> rl_conn_in eps i) as Hf end.
  { induction zl as [|z0 zl IH]; intros acc Ha; [exact Ha|]. cbn [fold_left]. apply IH.
    pose proof (rl_zone_eps_o_skipped org (rl_o_from_zone org z0) (z0 =? rl_t_local t) (rl_zone_eps eps z0) false false false [] []) as Hs.
    destruct (rl_relay_zone_eps_o _ _ _ _ _ _ _ _ _) as [[[ln ld] live] sk]. cbn [rl_zr_skipped].
    intros i Hi. apply in_app_or in Hi. destruct Hi as [Hi|Hi]; [apply Ha; exact Hi|].
    destruct (Hs i Hi) as [[]|(e & He & Hy)]. exists e. split; [|exact Hy].
    unfold rl_zone_eps in He. apply filter_In in He. tauto. }
  apply Hf. intros i [].
Qed.

(* ---------- what the position updates leave alone ---------- *)
Lemma rl_ep_view_map h id eps :
  (forall e, rl_ep_id (h e) = rl_ep_id e) -> rl_ep_view id (map h eps) = map h (rl_ep_view id eps).
Proof.
  intros Hid. unfold rl_ep_view. induction eps as [|e r IH]; [reflexivity|]. cbn [map filter]. rewrite Hid.
  destruct (rl_ep_id e =? id); cbn [map]; rewrite IH; reflexivity.
Qed.

Lemma rl_pos_view_map h id eps :
  (forall e, rl_ep_id (h e) = rl_ep_id e) -> (forall e, rl_ep_id e = id -> rl_ep_pos (h e) = rl_ep_pos e) ->
  map rl_ep_pos (rl_ep_view id (map h eps)) = map rl_ep_pos (rl_ep_view id eps).
Proof.
  intros Hid Hp. rewrite rl_ep_view_map by exact Hid. rewrite map_map. apply map_ext_in.
  intros e He. apply Hp. unfold rl_ep_view in He. apply filter_In in He. lia.
Qed.

Lemma rl_away_map h id eps :
  (forall e, rl_ep_id (h e) = rl_ep_id e) -> (forall e, rl_ep_id e = id -> rl_ep_conn e = false -> rl_ep_conn (h e) = false) ->
  rl_ep_away id eps -> rl_ep_away id (map h eps).
Proof.
  intros Hid Hc Ha e' He' Hi. apply in_map_iff in He'. destruct He' as (e & <- & He). rewrite Hid in Hi.
  apply Hc; [exact Hi|]. apply Ha; assumption.
Qed.

Lemma rl_away_view id eps eps' : rl_view eps' = rl_view eps -> rl_ep_away id eps -> rl_ep_away id eps'.
Proof.
  intros Hv Ha e' He' Hi.
  assert (In (rl_ep_id e', rl_ep_zone e', rl_ep_conn e', rl_ep_sync e') (rl_view eps)) as Hin.
  { rewrite <- Hv. unfold rl_view. apply (in_map (fun e => (rl_ep_id e, rl_ep_zone e, rl_ep_conn e, rl_ep_sync e))). exact He'. }
  unfold rl_view in Hin. apply in_map_iff in Hin. destruct Hin as (e & Heq & He). injection Heq as H1 H2 H3 H4.
  rewrite <- H3. apply Ha; [exact He|congruence].
Qed.

Lemma rl_conn_in_view eps eps' id : rl_view eps' = rl_view eps -> rl_conn_in eps' id -> rl_conn_in eps id.
Proof.
  intros Hv (e' & He' & Hi & Hc).
  assert (In (rl_ep_id e', rl_ep_zone e', rl_ep_conn e', rl_ep_sync e') (rl_view eps)) as Hin.
  { rewrite <- Hv. unfold rl_view. apply (in_map (fun e => (rl_ep_id e, rl_ep_zone e, rl_ep_conn e, rl_ep_sync e))). exact He'. }
  unfold rl_view in Hin. apply in_map_iff in Hin. destruct Hin as (e & Heq & He). injection Heq as H1 H2 H3 H4.
  exists e. split; [exact He|split; congruence].
Qed.

Lemma rl_away_not_conn id eps sid : rl_ep_away id eps -> rl_conn_in eps sid -> sid <> id.
Proof. intros Ha (e & He & Hi & Hc) ->. rewrite (Ha e He Hi) in Hc. discriminate. Qed.

(* advancing the positions of endpoints other than id *)
Lemma rl_fold_pos_other now id : forall ids eps, Forall (fun s => s <> id) ids ->
  rl_ep_view id (fold_left (fun eps s => rl_upd_ep (rl_ep_set_pos now) s eps) ids eps) = rl_ep_view id eps.
Proof.
  induction ids as [|s r IH]; intros eps Hf; [reflexivity|]. cbn [fold_left]. inversion Hf; subst. rewrite IH by assumption.
  unfold rl_upd_ep. rewrite rl_ep_view_map by (intros e; destruct (rl_ep_id e =? s); reflexivity).
  unfold rl_ep_view. rewrite <- (map_id (filter _ eps)) at 2. apply map_ext_in. intros e He. apply filter_In in He.
  destruct (rl_ep_id e =? s) eqn:E; [lia|reflexivity].
Qed.

(* the routing of a whole SyncRelayMessage: flags of all endpoints and the records of an endpoint that is away are untouched *)
Lemma rl_relay_route_o_inv org t now id : forall zs need live eps eps0,
  rl_view eps = rl_view eps0 -> rl_ep_away id eps0 ->
  let '(_, _, eps') := fold_left (fun '(need, live, eps) z =>
               let r := rl_relay_one_o org t eps z in
               (need || rl_zr_need r, live ++ rl_zr_live r,
                fold_left (fun eps id => rl_upd_ep (rl_ep_set_pos now) id eps) (rl_zr_skipped r) eps)) zs (need, live, eps) in
  rl_view eps' = rl_view eps0 /\ rl_ep_view id eps' = rl_ep_view id eps.
Proof.
  induction zs as [|z zs IH]; intros need live eps eps0 Hv Ha; cbn [fold_left]; [split; [exact Hv|reflexivity]|].
  set (r := rl_relay_one_o org t eps z).
  set (eps1 := fold_left (fun eps id => rl_upd_ep (rl_ep_set_pos now) id eps) (rl_zr_skipped r) eps).
  assert (rl_view eps1 = rl_view eps0) as Hv1 by (unfold eps1; rewrite rl_view_fold_pos; exact Hv).
  assert (rl_ep_view id eps1 = rl_ep_view id eps) as He1.
  { unfold eps1. apply rl_fold_pos_other. apply Forall_forall. intros s Hs.
    apply (rl_away_not_conn id eps0); [exact Ha|]. apply (rl_conn_in_view eps0 eps); [exact Hv|].
    apply (rl_relay_one_o_skipped org t eps z). exact Hs. }
  specialize (IH (need || rl_zr_need r) (live ++ rl_zr_live r) eps1 eps0 Hv1 Ha).
  destruct (fold_left _ zs _) as [[n' l'] eps']. destruct IH as [A B]. split; [exact A|]. rewrite B. exact He1.
Qed.

Lemma rl_persist_eps now e st : rl_eps (rl_persist now e st) = rl_eps st.
Proof.
  unfold rl_persist. cbv zeta. cbn [rl_cnt]. destruct (50000 <? _); [|reflexivity].
  unfold rl_rotate_cycle, rl_open, rl_rotate. cbn [rl_set_lmt rl_lmt rl_files rl_cur rl_eps]. destruct (rl_has_file _ _); reflexivity.
Qed.

Lemma rl_relay_o_eps org t now sec msg st :
  rl_eps (rl_rl_st (rl_relay_o org t now sec msg st)) = snd (rl_relay_route_o org t now (rl_relay_zones t sec) (rl_eps st)).
Proof.
  unfold rl_relay_o. destruct (rl_relay_route_o _ _ _ _ _) as [[need live] eps']. cbn [snd].
  destruct need; cbn [rl_rl_st]; [rewrite rl_persist_eps|]; reflexivity.
Qed.

Lemma rl_relay_o_away org t now sec msg st id : rl_ep_away id (rl_eps st) ->
  rl_view (rl_eps (rl_rl_st (rl_relay_o org t now sec msg st))) = rl_view (rl_eps st) /\
  rl_ep_view id (rl_eps (rl_rl_st (rl_relay_o org t now sec msg st))) = rl_ep_view id (rl_eps st).
Proof.
  intros Ha. rewrite rl_relay_o_eps. unfold rl_relay_route_o.
  pose proof (rl_relay_route_o_inv org t now id (rl_relay_zones t sec) false [] (rl_eps st) (rl_eps st) eq_refl Ha) as H.
  destruct (fold_left _ _ _) as [[n l] eps']. exact H.
Qed.

(* ---------- C12_position_only_moves_for_connected: one operation ---------- *)
Lemma rl_upd_pos_view f i id eps :
  (forall e, rl_ep_id (f e) = rl_ep_id e) -> (i = id -> forall e, rl_ep_pos (f e) = rl_ep_pos e) ->
  map rl_ep_pos (rl_ep_view id (rl_upd_ep f i eps)) = map rl_ep_pos (rl_ep_view id eps).
Proof.
  intros Hid Hp. unfold rl_upd_ep. apply rl_pos_view_map.
  - intros e. destruct (rl_ep_id e =? i); [apply Hid|reflexivity].
  - intros e He. destruct (rl_ep_id e =? i) eqn:E; [apply Hp; lia|reflexivity].
Qed.

Lemma rl_upd_away f i id eps :
  (forall e, rl_ep_id (f e) = rl_ep_id e) -> (i = id -> forall e, rl_ep_conn e = false -> rl_ep_conn (f e) = false) ->
  rl_ep_away id eps -> rl_ep_away id (rl_upd_ep f i eps).
Proof.
  intros Hid Hc. unfold rl_upd_ep. apply rl_away_map.
  - intros e. destruct (rl_ep_id e =? i); [apply Hid|reflexivity].
  - intros e He Hd. destruct (rl_ep_id e =? i) eqn:E; [apply Hc; [lia|exact Hd]|exact Hd].
Qed.

Lemma rl_recv_eps id ts st :
  rl_eps (snd (rl_recv id ts st)) = rl_eps st \/ rl_eps (snd (rl_recv id ts st)) = rl_upd_ep (rl_ep_set_rpos ts) id (rl_eps st).
Proof. unfold rl_recv. destruct (rl_get_ep _ _) as [e|]; [destruct (ts <? rl_ep_rpos e)|]; cbn; auto. Qed.

Theorem rl_pos_stable_step t now op st id :
  rl_ep_away id (rl_eps st) -> rl_oh_acks op id = false ->
  map rl_ep_pos (rl_ep_view id (rl_eps (rl_ohstep t now op st))) = map rl_ep_pos (rl_ep_view id (rl_eps st)) /\
  (rl_oh_conns op id = false -> rl_ep_away id (rl_eps (rl_ohstep t now op st))).
Proof.
  intros Ha Hk. destruct op as [b|i ts oz sec msg]; cbn [rl_ohstep].
  - destruct b as [sec msg| |clean|i|i|i p|i ts|]; cbn [rl_hstep rl_oh_acks rl_oh_conns] in *.
    + rewrite <- rl_relay_o_none. destruct (rl_relay_o_away None t now sec msg st id Ha) as [A B]. rewrite B.
      split; [reflexivity|]. intros _. apply (rl_away_view id (rl_eps st)); assumption.
    + assert (rl_eps (rl_rotate_cycle now st) = rl_eps st) as ->.
      { unfold rl_rotate_cycle, rl_open, rl_rotate. cbn [rl_set_lmt rl_eps]. destruct (rl_has_file _ _); reflexivity. }
      split; [reflexivity|intros _; exact Ha].
    + assert (rl_eps (rl_restart clean now st) = map (rl_ep_set_conn false false) (rl_eps st)) as ->.
      { unfold rl_restart. cbn [rl_eps]. destruct clean; [|reflexivity]. unfold rl_rotate. destruct (rl_has_file _ _); reflexivity. }
      split; [apply rl_pos_view_map; reflexivity|]. intros _. apply rl_away_map; [reflexivity| |exact Ha]. reflexivity.
    + cbn [rl_set_eps rl_eps]. split; [apply rl_upd_pos_view; reflexivity|]. intros _. apply rl_upd_away; [reflexivity| |exact Ha]. reflexivity.
    + destruct (rl_get_ep (rl_eps st) i) as [ep|] eqn:Heqo; [|split; [reflexivity|intros _; exact Ha]].
      assert (rl_eps (rl_rr_st (rl_replay t now ep st)) = rl_upd_ep (rl_ep_set_conn true false) (rl_ep_id ep) (rl_eps st)) as ->.
      { unfold rl_replay. destruct (rl_ep_dur ep =? 0); [reflexivity|]. destruct (rl_replay_loop _ _ _ _ _ _ _); reflexivity. }
      split; [apply rl_upd_pos_view; reflexivity|].
      intros Hc. unfold rl_upd_ep. apply rl_away_map; [intros e; destruct (rl_ep_id e =? rl_ep_id ep); reflexivity| |exact Ha].
      intros e He Hd. destruct (rl_ep_id e =? rl_ep_id ep) eqn:E; [|exact Hd].
      (* the reconnecting endpoint is named like id although the operation names another id: then that other id has no
         record of its own and rl_get_ep returned an endpoint it does not name - impossible *)
      exfalso. assert (rl_ep_id ep = i) as Hi.
      { clear - Heqo. revert Heqo. induction (rl_eps st) as [|x r IH]; cbn [rl_get_ep]; [discriminate|].
        destruct (rl_ep_id x =? i) eqn:Ex; [intros [= <-]; lia|exact IH]. }
      lia.
    + unfold rl_ack. cbn [rl_set_eps rl_eps]. split.
      * apply rl_upd_pos_view; [intros e; destruct (_ <? _); reflexivity|]. intros ->. rewrite Z.eqb_refl in Hk. discriminate.
      * intros _. apply rl_upd_away; [intros e; destruct (_ <? _); reflexivity| |exact Ha]. intros _ e Hd. destruct (_ <? _); exact Hd.
    + destruct (rl_recv_eps i ts st) as [-> | ->]; [split; [reflexivity|intros _; exact Ha]|].
      split; [apply rl_upd_pos_view; reflexivity|]. intros _. apply rl_upd_away; [reflexivity| |exact Ha]. intros _ e Hd. exact Hd.
    + split; [reflexivity|intros _; exact Ha].
  - cbn [rl_oh_conns]. destruct (rl_get_ep (rl_eps st) i) as [e0|]; [|split; [reflexivity|intros _; exact Ha]].
    destruct (rl_recv i ts st) as [acc st1] eqn:Er.
    assert (map rl_ep_pos (rl_ep_view id (rl_eps st1)) = map rl_ep_pos (rl_ep_view id (rl_eps st)) /\ rl_ep_away id (rl_eps st1)) as [P1 A1].
    { change st1 with (snd (acc, st1)). rewrite <- Er. destruct (rl_recv_eps i ts st) as [-> | ->]; [split; [reflexivity|exact Ha]|].
      split; [apply rl_upd_pos_view; reflexivity|]. apply rl_upd_away; [reflexivity| |exact Ha]. intros _ e Hd. exact Hd. }
    destruct acc; [|split; [exact P1|intros _; exact A1]].
    destruct (rl_get_ep (rl_eps st1) i) as [e|]; [|split; [exact P1|intros _; exact A1]].
    destruct (rl_relay_o_away (rl_origin_of t e oz) t now sec msg st1 id A1) as [A B]. rewrite B.
    split; [exact P1|]. intros _. apply (rl_away_view id (rl_eps st1)); assumption.
Qed.

(* ... and any number of them *)
Theorem rl_pos_stable_run t id : forall h st,
  rl_ep_away id (rl_eps st) -> Forall (fun x => rl_oh_acks (snd x) id = false /\ rl_oh_conns (snd x) id = false) h ->
  map rl_ep_pos (rl_ep_view id (rl_eps (rl_ohrun t h st))) = map rl_ep_pos (rl_ep_view id (rl_eps st)) /\
  rl_ep_away id (rl_eps (rl_ohrun t h st)).
Proof.
  induction h as [|[now op] h IH]; intros st Ha Hf; [split; [reflexivity|exact Ha]|]. cbn [rl_ohrun].
  inversion Hf as [|x l [H1 H2] Hr]; subst. cbn [snd] in H1, H2.
  destruct (rl_pos_stable_step t now op st id Ha H1) as [P A]. specialize (A H2).
  destruct (IH _ A Hr) as [P' A']. split; [rewrite P'; exact P|exact A'].
Qed.

(* ---------- the log invariant over histories with arriving messages ---------- *)
Lemma rl_relay_o_shape org t now sec msg st :
  exists eps', let st1 := rl_set_eps st eps' in
    rl_rl_st (rl_relay_o org t now sec msg st) =
      if rl_rl_logged (rl_relay_o org t now sec msg st)
      then rl_persist now {| rl_e_ts := now; rl_e_sec := sec; rl_e_msg := msg |} st1 else st1.
Proof.
  unfold rl_relay_o. destruct (rl_relay_route_o _ _ _ _ _) as [[need live] eps'].
  exists eps'. destruct need; reflexivity.
Qed.

Lemma rl_hinv_ostep t c now op st :
  rl_hinv c st -> rl_ohvalid c [(now, op)] -> rl_hinv now (rl_ohstep t now op st).
Proof.
  intros Hi [Hv _]. destruct op as [b|i ts oz sec msg]; cbn [rl_ohstep].
  - apply (rl_hinv_step t c); assumption.
  - destruct Hv as (Hc & Hn & Hlen). pose proof Hi as (fl0 & ces0 & _ & _ & Hl & _).
    assert (forall eps', rl_hinv c (rl_set_eps st eps')) as Hset by (intros eps'; eapply rl_hinv_mono; [| | |exact Hi]; cbn; try reflexivity; lia).
    assert (forall st', rl_files st' = rl_files st -> rl_cur st' = rl_cur st -> rl_lmt st' = rl_lmt st -> rl_hinv now st') as Hsame.
    { intros st' F1 F2 F3. eapply rl_hinv_mono; [| | |exact Hi]; try assumption. rewrite F3. lia. }
    destruct (rl_get_ep (rl_eps st) i) as [e0|]; [|apply Hsame; reflexivity].
    destruct (rl_recv i ts st) as [acc st1] eqn:Er.
    assert (rl_files st1 = rl_files st /\ rl_cur st1 = rl_cur st /\ rl_lmt st1 = rl_lmt st) as (F1 & F2 & F3).
    { change st1 with (snd (acc, st1)). rewrite <- Er. unfold rl_recv. destruct (rl_get_ep _ _) as [e|]; [destruct (ts <? rl_ep_rpos e)|]; cbn; repeat split. }
    destruct acc; [|apply Hsame; assumption].
    destruct (rl_get_ep (rl_eps st1) i) as [e|]; [|apply Hsame; assumption].
    assert (rl_hinv c st1) as Hi1 by (eapply rl_hinv_mono; [| | |exact Hi]; try assumption; rewrite F3; lia).
    destruct (rl_relay_o_shape (rl_origin_of t e oz) t now sec msg st1) as (eps' & Hs). cbv zeta in Hs. rewrite Hs.
    assert (rl_hinv c (rl_set_eps st1 eps')) as H1 by (eapply rl_hinv_mono; [| | |exact Hi1]; cbn; try reflexivity; lia).
    destruct (rl_rl_logged _).
    + apply (rl_hinv_persist c); [assumption|assumption| |reflexivity]. split; cbn [rl_e_ts]; [lia|assumption].
    + eapply rl_hinv_mono; [| | |exact H1]; cbn; try reflexivity. pose proof Hi1 as (fl1 & ces1 & _ & _ & Hl1 & _). lia.
Qed.

Theorem rl_ohistory_invariant t : forall h c st,
  rl_hinv c st -> rl_ohvalid c h -> rl_hinv (rl_ohclock c h) (rl_ohrun t h st).
Proof.
  induction h as [|[now op] h IH]; intros c st Hi Hv; [exact Hi|]. cbn [rl_ohrun rl_ohclock].
  destruct Hv as [Hv Hr]. apply IH; [|exact Hr]. apply (rl_hinv_ostep t c); [exact Hi|]. split; [exact Hv|exact I].
Qed.

(* C12_replayed over histories with arriving messages *)
Theorem rl_replayed_ohistory t now0 eps h now ep :
  0 < now0 -> rl_ohvalid now0 h -> rl_ep_dur ep <> 0 ->
  let st := rl_ohrun t h (rl_init_st now0 eps) in
  let r := rl_replay t now ep st in
  rl_msgs (rl_rr_out r) = map rl_e_msg (filter (rl_sel t (rl_ep_zone ep) (rl_ep_pos ep)) (rl_log_entries st)) /\
  rl_rr_done r = true.
Proof.
  intros H0 Hv Hd. cbv zeta. apply (rl_replayed_reachable t now ep (rl_ohclock now0 h)); [|assumption].
  apply rl_ohistory_invariant; [apply rl_hinv_init; assumption|assumption].
Qed.

(* per endpoint: endpoint id is away after h1 with confirmed position(s) ps; whatever happens then (h2: anything but its own
   reconnect and acknowledgement - relays, messages arriving from the other endpoints of its zone, their reconnects,
   acknowledgements, rotations, restarts, clean-ups), on its return it is replayed every persisted entry above THAT position
   which its zone may see *)
Theorem rl_replayed_per_endpoint t now0 eps h1 h2 now id ep :
  0 < now0 -> rl_ohvalid now0 (h1 ++ h2) -> rl_ep_dur ep <> 0 ->
  let st1 := rl_ohrun t h1 (rl_init_st now0 eps) in
  let st2 := rl_ohrun t h2 st1 in
  rl_ep_away id (rl_eps st1) ->
  Forall (fun x => rl_oh_acks (snd x) id = false /\ rl_oh_conns (snd x) id = false) h2 ->
  In ep (rl_ep_view id (rl_eps st2)) ->
  rl_ep_conn ep = false /\ In (rl_ep_pos ep) (map rl_ep_pos (rl_ep_view id (rl_eps st1))) /\
  let r := rl_replay t now ep st2 in
  rl_msgs (rl_rr_out r) = map rl_e_msg (filter (rl_sel t (rl_ep_zone ep) (rl_ep_pos ep)) (rl_log_entries st2)) /\
  rl_rr_done r = true.
Proof.
  intros H0 Hv Hd st1 st2 Ha Hf Hin.
  destruct (rl_pos_stable_run t id h2 st1 Ha Hf) as [P A]. fold st2 in P, A.
  split; [|split].
  - unfold rl_ep_view in Hin. apply filter_In in Hin. apply A; [tauto|lia].
  - rewrite <- P. apply in_map. exact Hin.
  - assert (st2 = rl_ohrun t (h1 ++ h2) (rl_init_st now0 eps)) as ->.
    { unfold st2, st1. generalize (rl_init_st now0 eps). clear. induction h1 as [|[n o] h1 IH]; intros s; [reflexivity|]. cbn [app rl_ohrun]. apply IH. }
    apply rl_replayed_ohistory; assumption.
Qed.

(* ---------- the seeded form (origin tests in front of the connection test) is refuted by the model: a witness ---------- *)
(* zone 2 (child of the local zone 1) with endpoints 3 and 4; both away; 3 returns and sends a message; 4 keeps its position *)
Definition rl_ow_topo : rl_topo :=
  {| rl_t_zones := [{| rl_z_id := 1; rl_z_parent := -1; rl_z_global := false |}; {| rl_z_id := 2; rl_z_parent := 1; rl_z_global := false |}];
     rl_t_local := 1; rl_t_objs := [([111], [97], 2)] |}.
Definition rl_ow_ep (id : Z) : rl_ep :=
  {| rl_ep_id := id; rl_ep_zone := 2; rl_ep_dur := 86400; rl_ep_pos := 0; rl_ep_rpos := 0; rl_ep_conn := false; rl_ep_sync := false |}.
Definition rl_ow_hist : list (Z * rl_ohop) :=
  [(101, RlOBase (RlHRelay (Some ([111], [97])) (rl_mk_msg 1 101)));
   (102, RlOBase (RlHRelay (Some ([111], [97])) (rl_mk_msg 2 102)));
   (103, RlOBase (RlHConn 3));
   (104, RlOFrom 3 104 (-1) (Some ([111], [97])) (rl_mk_omsg (Some [122]) 3 104))].
Definition rl_ow_st : rl_st := rl_ohrun rl_ow_topo rl_ow_hist (rl_init_st 100 [rl_ow_ep 3; rl_ow_ep 4]).

Lemma rl_ow_witness :
  map rl_ep_pos (rl_eps rl_ow_st) = [104; 0] /\ map rl_ep_conn (rl_eps rl_ow_st) = [true; false] /\
  rl_msgs (rl_rr_out (rl_replay rl_ow_topo 105 (rl_ow_ep 4) rl_ow_st)) = [rl_mk_msg 1 101; rl_mk_msg 2 102].
Proof. vm_compute. repeat split. Qed.

(* ---------- the record-level model refines the byte-level one for the new operation ---------- *)
Theorem rl_x_conc_relay_o org t now sec m s :
  let rx := rl_x_relay_o org t now sec m s in
  let rb := rl_relay_o org t now sec (rl_x_expand m) (rl_x_conc s) in
  rl_xrl_logged rx = rl_rl_logged rb /\ rl_xrl_live rx = rl_rl_live rb /\ rl_x_conc (rl_xrl_st rx) = rl_rl_st rb.
Proof.
  cbv zeta. unfold rl_x_relay_o, rl_relay_o. cbn [rl_x_skel rl_x_conc rl_eps].
  destruct (rl_relay_route_o _ _ _ _ _) as [[need live] eps'].
  destruct need; cbn [rl_rl_logged rl_rl_live rl_rl_st rl_xrl_logged rl_xrl_live rl_xrl_st]; (split; [reflexivity|split; [reflexivity|]]).
  - rewrite rl_persist_eps. cbn [rl_set_eps rl_eps]. rewrite rl_x_conc_persist. reflexivity.
  - reflexivity.
Qed.

(* the operation of the correspondence run is the history step, on both levels *)
Lemma rl_from_step t now id ts oz sec msg st :
  rl_fr_st (rl_from t now id ts oz sec msg st) = rl_ohstep t now (RlOFrom id ts oz sec msg) st.
Proof.
  unfold rl_from. cbn [rl_ohstep]. destruct (rl_get_ep (rl_eps st) id); [|reflexivity].
  destruct (rl_recv id ts st) as [acc st1]. destruct acc; [|reflexivity]. destruct (rl_get_ep (rl_eps st1) id); reflexivity.
Qed.

Theorem rl_x_conc_from t now id ts oz sec m s :
  let rx := rl_x_from t now id ts oz sec m s in
  let rb := rl_from t now id ts oz sec (rl_x_expand m) (rl_x_conc s) in
  rl_xfr_acc rx = rl_fr_acc rb /\ rl_xfr_logged rx = rl_fr_logged rb /\ rl_xfr_live rx = rl_fr_live rb /\ rl_x_conc (rl_xfr_st rx) = rl_fr_st rb.
Proof.
  cbv zeta. unfold rl_x_from, rl_from. change (rl_eps (rl_x_conc s)) with (rl_x_eps s).
  destruct (rl_get_ep (rl_x_eps s) id); [|repeat split].
  destruct (rl_x_conc_recv id ts s) as [R1 R2].
  destruct (rl_x_recv id ts s) as [acc s1]. destruct (rl_recv id ts (rl_x_conc s)) as [acc' st1]. cbn [fst snd] in R1, R2. subst acc' st1.
  destruct acc; [|repeat split]. change (rl_eps (rl_x_conc s1)) with (rl_x_eps s1).
  destruct (rl_get_ep (rl_x_eps s1) id) as [e|]; [|repeat split].
  destruct (rl_x_conc_relay_o (rl_origin_of t e oz) t now sec m s1) as (A & B & C). cbv zeta in A, B, C.
  cbn [rl_xfr_acc rl_xfr_logged rl_xfr_live rl_xfr_st rl_fr_acc rl_fr_logged rl_fr_live rl_fr_st]. repeat split; assumption.
Qed.

(* ---------- the oracle accepts the model ---------- *)
(* observation of one operation, per endpoint id: (some record of that id connected before?, is the operation its own
   acknowledgement?, position before, position after) *)
Definition rl_any_conn (id : Z) (eps : list rl_ep) : bool := existsb (fun e => (rl_ep_id e =? id) && rl_ep_conn e) eps.
Definition rl_pos_of (id : Z) (eps : list rl_ep) : Z := match rl_get_ep eps id with Some e => rl_ep_pos e | None => 0 end.
Definition rl_posmove_obs (op : rl_ohop) (before after : list rl_ep) (ids : list Z) : list (bool * bool * Z * Z) :=
  map (fun id => (rl_any_conn id before, rl_oh_acks op id, rl_pos_of id before, rl_pos_of id after)) ids.

Lemma rl_pos_of_view id eps : rl_pos_of id eps = hd 0 (map rl_ep_pos (rl_ep_view id eps)).
Proof.
  unfold rl_pos_of, rl_ep_view. induction eps as [|e r IH]; [reflexivity|]. cbn [rl_get_ep filter].
  destruct (rl_ep_id e =? id); [reflexivity|exact IH].
Qed.

Lemma rl_any_conn_away id eps : rl_any_conn id eps = false -> rl_ep_away id eps.
Proof.
  intros H e He Hi. unfold rl_any_conn in H. destruct (rl_ep_conn e) eqn:Ec; [|reflexivity].
  assert (existsb (fun e => (rl_ep_id e =? id) && rl_ep_conn e) eps = true) as Hx.
  { apply existsb_exists. exists e. split; [exact He|]. rewrite Ec, Hi, Z.eqb_refl. reflexivity. }
  congruence.
Qed.

Theorem rl_oracle_accepts_posmove t now op st ids :
  rl_or_posmove (rl_posmove_obs op (rl_eps st) (rl_eps (rl_ohstep t now op st)) ids) = true.
Proof.
  unfold rl_posmove_obs. induction ids as [|id r IH]; [reflexivity|]. cbn [map rl_or_posmove]. rewrite IH, andb_true_r.
  destruct (rl_any_conn id (rl_eps st)) eqn:Ec; [reflexivity|]. destruct (rl_oh_acks op id) eqn:Ek; [reflexivity|]. cbn [orb].
  destruct (rl_pos_stable_step t now op st id (rl_any_conn_away _ _ Ec) Ek) as [P _].
  rewrite !rl_pos_of_view, P. apply Z.eqb_refl.
Qed.
