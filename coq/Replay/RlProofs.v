(* C12 - proofs about replay, clean-up, receiver filter, restart. *)
From Icv Require Import Base.Tac Replay.RlBytes Replay.RlModel.
From Coq Require Import Sorting.Sorted.
Local Open Scope Z_scope.

(* which entries endpoint zone tz with confirmed position p is owed *)
Definition rl_sel (t : rl_topo) (tz p : Z) (e : rl_entry) : bool :=
  (p <? rl_e_ts e) && rl_can_access t tz (rl_e_sec e).

(* the dynamic rule of the loop: peer_ts follows the last message sent *)
Fixpoint rl_dyn (t : rl_topo) (tz p : Z) (es : list rl_entry) : list rl_entry :=
  match es with
  | [] => []
  | e :: r => if rl_e_ts e <=? p then rl_dyn t tz p r
              else if negb (rl_can_access t tz (rl_e_sec e)) then rl_dyn t tz p r
              else e :: rl_dyn t tz (rl_e_ts e) r
  end.
Fixpoint rl_dyn_peer (t : rl_topo) (tz p : Z) (es : list rl_entry) : Z :=
  match es with
  | [] => p
  | e :: r => if rl_e_ts e <=? p then rl_dyn_peer t tz p r
              else if negb (rl_can_access t tz (rl_e_sec e)) then rl_dyn_peer t tz p r
              else rl_dyn_peer t tz (rl_e_ts e) r
  end.

Lemma rl_msgs_app a b : rl_msgs (a ++ b) = rl_msgs a ++ rl_msgs b.
Proof. unfold rl_msgs. apply flat_map_app. Qed.

Lemma rl_fold_rstep t tz fname : forall es s,
  let s' := fold_left (rl_rstep t tz fname) es s in
  rl_r_peer s' = rl_dyn_peer t tz (rl_r_peer s) es /\
  rl_msgs (rev (rl_r_out s')) = rl_msgs (rev (rl_r_out s)) ++ map rl_e_msg (rl_dyn t tz (rl_r_peer s) es) /\
  rl_r_cnt s' = rl_r_cnt s + Z.of_nat (length (rl_dyn t tz (rl_r_peer s) es)).
Proof.
  induction es as [|e r IH]; intros s; cbn [fold_left rl_dyn rl_dyn_peer map length].
  - rewrite app_nil_r. (split; [|split]); try reflexivity; try lia.
  - unfold rl_rstep at 2 4 6. destruct (rl_e_ts e <=? rl_r_peer s); [apply IH|].
    destruct (negb (rl_can_access t tz (rl_e_sec e))); [apply IH|].
    destruct (rl_r_logpos s + 10 <? fname);
      (match goal with |- context [fold_left _ r ?s1] => specialize (IH s1); cbv zeta in IH; destruct IH as (I1 & I2 & I3) end;
       cbn [rl_r_peer rl_r_out rl_r_cnt] in *; rewrite I1, I2, I3; split; [reflexivity|split];
       [cbn [rev map]; rewrite ?rl_msgs_app; cbn [rl_msgs flat_map app]; rewrite ?app_nil_r, <- ?app_assoc; reflexivity
       |cbn [length]; lia]).
Qed.

Lemma rl_dyn_app t tz : forall a b p,
  rl_dyn t tz p (a ++ b) = rl_dyn t tz p a ++ rl_dyn t tz (rl_dyn_peer t tz p a) b /\
  rl_dyn_peer t tz p (a ++ b) = rl_dyn_peer t tz (rl_dyn_peer t tz p a) b.
Proof.
  induction a as [|e a IH]; intros b p; cbn [app rl_dyn rl_dyn_peer]; [split; reflexivity|].
  destruct (rl_e_ts e <=? p); [apply IH|]. destruct (negb _); [apply IH|].
  destruct (IH b (rl_e_ts e)) as [H1 H2]. rewrite H1, H2. split; reflexivity.
Qed.

Lemma rl_dyn_peer_ge t tz : forall es p, p <= rl_dyn_peer t tz p es.
Proof.
  induction es as [|e r IH]; intros p; cbn [rl_dyn_peer]; [lia|].
  destruct (rl_e_ts e <=? p) eqn:E; [apply IH|]. destruct (negb _); [apply IH|].
  specialize (IH (rl_e_ts e)). lia.
Qed.

Lemma rl_dyn_covered t tz : forall es p e, In e es -> rl_can_access t tz (rl_e_sec e) = true ->
  rl_e_ts e <= rl_dyn_peer t tz p es.
Proof.
  induction es as [|x r IH]; intros p e Hin Hacc; [contradiction|]. cbn [rl_dyn_peer].
  destruct Hin as [->|Hin].
  - destruct (rl_e_ts e <=? p) eqn:E.
    + pose proof (rl_dyn_peer_ge t tz r p). lia.
    + rewrite Hacc. cbn [negb]. apply rl_dyn_peer_ge.
  - destruct (rl_e_ts x <=? p); [apply IH; assumption|]. destruct (negb _); apply IH; assumption.
Qed.

Lemma rl_dyn_nothing t tz : forall es p,
  (forall e, In e es -> rl_e_ts e <= p \/ rl_can_access t tz (rl_e_sec e) = false) ->
  rl_dyn t tz p es = [] /\ rl_dyn_peer t tz p es = p.
Proof.
  induction es as [|x r IH]; intros p H; [split; reflexivity|]. cbn [rl_dyn rl_dyn_peer].
  assert (forall e, In e r -> rl_e_ts e <= p \/ rl_can_access t tz (rl_e_sec e) = false) as Hr by (intros; apply H; right; assumption).
  destruct (H x (or_introl eq_refl)) as [Hx|Hx].
  - destruct (rl_e_ts x <=? p) eqn:E; [|lia]. apply IH. assumption.
  - rewrite Hx. cbn [negb]. destruct (rl_e_ts x <=? p); apply IH; assumption.
Qed.

Lemma rl_dyn_in t tz : forall es p e, In e (rl_dyn t tz p es) ->
  In e es /\ p < rl_e_ts e /\ rl_can_access t tz (rl_e_sec e) = true.
Proof.
  induction es as [|x r IH]; intros p e H; [contradiction|]. cbn [rl_dyn] in H.
  destruct (rl_e_ts x <=? p) eqn:E.
  - destruct (IH _ _ H) as (A & B & C). repeat split; [right|..]; assumption.
  - destruct (rl_can_access t tz (rl_e_sec x)) eqn:Ea; cbn [negb] in H.
    + destruct H as [->|H].
      * repeat split; [left; reflexivity|lia|assumption].
      * destruct (IH _ _ H) as (A & B & C). repeat split; [right; assumption|lia|assumption].
    + destruct (IH _ _ H) as (A & B & C). repeat split; [right|..]; assumption.
Qed.

Definition rl_ts_lt (a b : rl_entry) : Prop := rl_e_ts a < rl_e_ts b.

(* under strictly increasing timestamps the dynamic rule is the static filter *)
Lemma rl_dyn_sorted t tz : forall es p, StronglySorted rl_ts_lt es ->
  rl_dyn t tz p es = filter (rl_sel t tz p) es.
Proof.
  induction es as [|e r IH]; intros p Hs; [reflexivity|].
  inversion Hs as [|? ? Hr Hall]; subst. cbn [rl_dyn filter]. unfold rl_sel at 1.
  destruct (rl_e_ts e <=? p) eqn:E.
  - replace (p <? rl_e_ts e) with false by lia. cbn [andb]. apply IH. assumption.
  - replace (p <? rl_e_ts e) with true by lia. cbn [andb].
    destruct (rl_can_access t tz (rl_e_sec e)); cbn [negb]; [|apply IH; assumption].
    f_equal. rewrite IH by assumption. apply filter_ext_in. intros x Hx.
    rewrite Forall_forall in Hall. specialize (Hall x Hx). unfold rl_ts_lt in Hall. unfold rl_sel.
    replace (rl_e_ts e <? rl_e_ts x) with true by lia. replace (p <? rl_e_ts x) with true by lia. reflexivity.
Qed.

(* ---- files ---- *)
Definition rl_fentries (fs : list (Z * rl_bytes)) : list rl_entry := flat_map (fun f => rl_parse_log (snd f)) fs.

(* every entry of a rotated file is older than the file's name *)
Definition rl_name_bound (fs : list (Z * rl_bytes)) : Prop :=
  Forall (fun f => Forall (fun e => rl_e_ts e < fst f) (rl_parse_log (snd f))) fs.

Lemma rl_fold_files t tz : forall fs s,
  let s' := fold_left (rl_replay_file t tz) fs s in
  rl_r_peer s' = rl_dyn_peer t tz (rl_r_peer s) (rl_fentries fs) /\
  rl_msgs (rev (rl_r_out s')) = rl_msgs (rev (rl_r_out s)) ++ map rl_e_msg (rl_dyn t tz (rl_r_peer s) (rl_fentries fs)) /\
  rl_r_cnt s' = rl_r_cnt s + Z.of_nat (length (rl_dyn t tz (rl_r_peer s) (rl_fentries fs))).
Proof.
  induction fs as [|f fs IH]; intros s; cbn [fold_left rl_fentries flat_map].
  - cbn. rewrite app_nil_r. (split; [|split]); try reflexivity; try lia.
  - specialize (IH (rl_replay_file t tz s f)). cbv zeta in IH. destruct IH as (I1 & I2 & I3).
    unfold rl_replay_file in I1, I2, I3 |- *.
    destruct (rl_fold_rstep t tz (fst f) (rl_parse_log (snd f)) s) as (F1 & F2 & F3).
    destruct (rl_dyn_app t tz (rl_parse_log (snd f)) (rl_fentries fs) (rl_r_peer s)) as (D1 & D2).
    fold (rl_fentries fs). rewrite D1, D2, I1, I2, I3, F1, F2, F3.
    rewrite map_app, app_length, Nat2Z.inj_add, <- app_assoc. (split; [|split]); try reflexivity; try lia.
Qed.

Lemma rl_dyn_skip_files t tz p0 : forall fs p c, p0 <= p -> rl_name_bound fs ->
  rl_dyn t tz p (rl_fentries (filter (fun f => p0 <=? fst f) fs) ++ c) = rl_dyn t tz p (rl_fentries fs ++ c) /\
  rl_dyn_peer t tz p (rl_fentries (filter (fun f => p0 <=? fst f) fs) ++ c) = rl_dyn_peer t tz p (rl_fentries fs ++ c).
Proof.
  induction fs as [|f fs IH]; intros p c Hp Hnb; [split; reflexivity|].
  inversion Hnb as [|? ? Hf Hfs]; subst. cbn [filter].
  destruct (p0 <=? fst f) eqn:E.
  - cbn [rl_fentries flat_map]. fold (rl_fentries fs). fold (rl_fentries (filter (fun f => p0 <=? fst f) fs)).
    rewrite <- !app_assoc.
    destruct (rl_dyn_app t tz (rl_parse_log (snd f)) (rl_fentries (filter (fun f => p0 <=? fst f) fs) ++ c) p) as (A1 & A2).
    destruct (rl_dyn_app t tz (rl_parse_log (snd f)) (rl_fentries fs ++ c) p) as (B1 & B2).
    pose proof (rl_dyn_peer_ge t tz (rl_parse_log (snd f)) p).
    destruct (IH (rl_dyn_peer t tz p (rl_parse_log (snd f))) c) as (I1 & I2); [lia|assumption|].
    rewrite A1, A2, B1, B2, I1, I2. split; reflexivity.
  - cbn [rl_fentries flat_map]. fold (rl_fentries fs). rewrite <- app_assoc.
    destruct (rl_dyn_app t tz (rl_parse_log (snd f)) (rl_fentries fs ++ c) p) as (B1 & B2).
    destruct (rl_dyn_nothing t tz (rl_parse_log (snd f)) p) as (N1 & N2).
    { intros e He. left. rewrite Forall_forall in Hf. specialize (Hf e He). lia. }
    rewrite B1, B2, N1, N2. cbn [app]. apply IH; assumption.
Qed.

Lemma rl_fentries_filter_in g fs e : In e (rl_fentries (filter g fs)) -> In e (rl_fentries fs).
Proof.
  unfold rl_fentries. rewrite !in_flat_map. intros (f & Hf & He). apply filter_In in Hf. exists f. tauto.
Qed.

(* entries a pass looks at, as a function of the peer position at its start *)
Definition rl_pass_entries (st : rl_st) (p : Z) : list rl_entry :=
  rl_fentries (filter (fun f => p <=? fst f) (rl_files st)) ++ rl_parse_log (rl_cur st).

Lemma rl_pass_spec t tz now st s :
  let s' := rl_replay_pass t tz now st s in
  let es := rl_pass_entries st (rl_r_peer s) in
  rl_r_peer s' = rl_dyn_peer t tz (rl_r_peer s) es /\
  rl_msgs (rev (rl_r_out s')) = rl_msgs (rev (rl_r_out s)) ++ map rl_e_msg (rl_dyn t tz (rl_r_peer s) es) /\
  rl_r_cnt s' = Z.of_nat (length (rl_dyn t tz (rl_r_peer s) es)).
Proof.
  cbv zeta. unfold rl_replay_pass.
  match goal with |- context [fold_left _ ?fs ?s0] => destruct (rl_fold_files t tz fs s0) as (F1 & F2 & F3) end.
  cbn [rl_r_peer rl_r_out rl_r_cnt] in F1, F2, F3.
  assert (rl_fentries (rl_pass_files now st (rl_r_peer s)) = rl_pass_entries st (rl_r_peer s)) as Hes.
  { unfold rl_pass_files, rl_pass_entries, rl_fentries. rewrite flat_map_app. cbn [flat_map snd]. rewrite app_nil_r. reflexivity. }
  rewrite Hes in F1, F2, F3. rewrite F1, F2, F3. (split; [|split]); try reflexivity; try lia.
Qed.

Lemma rl_log_entries_eq st : rl_log_entries st = rl_fentries (rl_files st) ++ rl_parse_log (rl_cur st).
Proof. reflexivity. Qed.

Lemma rl_pass_entries_in st p e : In e (rl_pass_entries st p) -> In e (rl_log_entries st).
Proof.
  unfold rl_pass_entries. rewrite rl_log_entries_eq, !in_app_iff. intros [H|H]; [left|right; assumption].
  eapply rl_fentries_filter_in. eassumption.
Qed.

(* a pass started at a position that already covers every accessible entry sends nothing *)
Lemma rl_pass_idle t tz now st s :
  (forall e, In e (rl_log_entries st) -> rl_can_access t tz (rl_e_sec e) = true -> rl_e_ts e <= rl_r_peer s) ->
  let s' := rl_replay_pass t tz now st s in
  rl_r_peer s' = rl_r_peer s /\ rl_msgs (rev (rl_r_out s')) = rl_msgs (rev (rl_r_out s)) /\ rl_r_cnt s' = 0.
Proof.
  intros Hcov. cbv zeta. destruct (rl_pass_spec t tz now st s) as (P1 & P2 & P3).
  destruct (rl_dyn_nothing t tz (rl_pass_entries st (rl_r_peer s)) (rl_r_peer s)) as (N1 & N2).
  { intros e He. apply rl_pass_entries_in in He.
    destruct (rl_can_access t tz (rl_e_sec e)) eqn:Ea; [left; apply Hcov; assumption|right; reflexivity]. }
  rewrite P1, P2, P3, N1, N2. cbn. rewrite app_nil_r. repeat split.
Qed.

(* ---- C12_replayed ---- *)
Theorem rl_replayed t now ep st :
  rl_ep_dur ep <> 0 ->
  rl_name_bound (rl_files st) ->
  StronglySorted rl_ts_lt (rl_log_entries st) ->
  let r := rl_replay t now ep st in
  rl_msgs (rl_rr_out r) = map rl_e_msg (filter (rl_sel t (rl_ep_zone ep) (rl_ep_pos ep)) (rl_log_entries st)) /\
  rl_rr_done r = true.
Proof.
  intros Hdur Hnb Hsorted. cbv zeta. unfold rl_replay.
  destruct (rl_ep_dur ep =? 0) eqn:Ed; [lia|].
  set (tz := rl_ep_zone ep). set (p0 := rl_ep_pos ep).
  set (s0 := {| rl_r_peer := p0; rl_r_logpos := p0; rl_r_cnt := 0; rl_r_out := [] |}).
  (* pass 1 *)
  destruct (rl_pass_spec t tz now st s0) as (P1 & P2 & P3).
  set (s1 := rl_replay_pass t tz now st s0) in *.
  change (rl_r_peer s0) with p0 in P1, P2, P3. change (rl_r_out s0) with (@nil rl_out) in P2.
  cbn [rev rl_msgs flat_map app] in P2.
  destruct (rl_dyn_skip_files t tz p0 (rl_files st) p0 (rl_parse_log (rl_cur st))) as (K1 & K2); [lia|assumption|].
  unfold rl_pass_entries in P1, P2, P3. rewrite K1 in P2, P3. rewrite K2 in P1. rewrite <- rl_log_entries_eq in P1, P2, P3.
  rewrite (rl_dyn_sorted t tz _ p0 Hsorted) in P2.
  assert (forall e, In e (rl_log_entries st) -> rl_can_access t tz (rl_e_sec e) = true -> rl_e_ts e <= rl_r_peer s1) as Hcov.
  { intros e He Ha. rewrite P1. apply rl_dyn_covered; assumption. }
  (* pass 2 *)
  destruct (rl_pass_idle t tz now st s1 Hcov) as (Q1 & Q2 & Q3).
  set (s2 := rl_replay_pass t tz now st s1) in *.
  assert (forall e, In e (rl_log_entries st) -> rl_can_access t tz (rl_e_sec e) = true -> rl_e_ts e <= rl_r_peer s2) as Hcov2.
  { intros e He Ha. rewrite Q1. apply Hcov; assumption. }
  destruct (rl_pass_idle t tz now st s2 Hcov2) as (R1 & R2 & R3).
  set (s3 := rl_replay_pass t tz now st s2) in *.
  cbn [rl_replay_loop]. fold s1. change (-1 =? -1) with true. cbn [orb negb]. fold s2.
  destruct (negb ((rl_r_cnt s1 =? -1) || (50000 <? rl_r_cnt s1))) eqn:El.
  - cbn [rl_rr_out rl_rr_done]. rewrite Q2, P2. split; reflexivity.
  - fold s3. rewrite Q3. change (negb ((0 =? -1) || (50000 <? 0))) with true. cbn iota beta.
    cbn [rl_rr_out rl_rr_done]. rewrite R2, Q2, P2. split; reflexivity.
Qed.

(* ---- C12_no_resend: without any premise on the log, nothing at or below the confirmed position is sent ---- *)
Definition rl_from_log t tz p0 (st : rl_st) (m : rl_bytes) : Prop :=
  exists e, In e (rl_log_entries st) /\ rl_e_msg e = m /\ p0 < rl_e_ts e /\ rl_can_access t tz (rl_e_sec e) = true.

Lemma rl_pass_inv t tz now st p0 s :
  p0 <= rl_r_peer s -> (forall m, In m (rl_msgs (rev (rl_r_out s))) -> rl_from_log t tz p0 st m) ->
  let s' := rl_replay_pass t tz now st s in
  p0 <= rl_r_peer s' /\ (forall m, In m (rl_msgs (rev (rl_r_out s'))) -> rl_from_log t tz p0 st m).
Proof.
  intros Hp Hm. cbv zeta. destruct (rl_pass_spec t tz now st s) as (P1 & P2 & _). split.
  - rewrite P1. pose proof (rl_dyn_peer_ge t tz (rl_pass_entries st (rl_r_peer s)) (rl_r_peer s)). lia.
  - intros m Hin. rewrite P2 in Hin. apply in_app_iff in Hin. destruct Hin as [Hin|Hin]; [apply Hm; assumption|].
    apply in_map_iff in Hin. destruct Hin as (e & <- & He). apply rl_dyn_in in He. destruct He as (A & B & C).
    exists e. repeat split; [eapply rl_pass_entries_in; eassumption|lia|assumption].
Qed.

Lemma rl_loop_inv t tz now st p0 : forall fuel count s,
  p0 <= rl_r_peer s -> (forall m, In m (rl_msgs (rev (rl_r_out s))) -> rl_from_log t tz p0 st m) ->
  forall m, In m (rl_msgs (rev (rl_r_out (fst (rl_replay_loop fuel t tz now st count s))))) -> rl_from_log t tz p0 st m.
Proof.
  induction fuel as [|f IH]; intros count s Hp Hm; cbn [rl_replay_loop]; [exact Hm|].
  destruct (rl_pass_inv t tz now st p0 s Hp Hm) as (Hp' & Hm').
  destruct (negb _); [exact Hm'|]. apply IH; assumption.
Qed.

Theorem rl_no_resend t now ep st m :
  In m (rl_msgs (rl_rr_out (rl_replay t now ep st))) ->
  rl_from_log t (rl_ep_zone ep) (rl_ep_pos ep) st m.
Proof.
  unfold rl_replay. destruct (rl_ep_dur ep =? 0); [cbn; contradiction|].
  match goal with |- context [rl_replay_loop ?f ?t ?tz ?now ?st ?c ?s] =>
    pose proof (rl_loop_inv t tz now st (rl_ep_pos ep) f c s) as H; destruct (rl_replay_loop f t tz now st c s) as [s' d] end.
  cbn [rl_rr_out fst] in *. apply H; cbn; [lia|contradiction].
Qed.

(* ---- C12_receiver_filter ---- *)
Theorem rl_receiver_filter id ts st e :
  rl_get_ep (rl_eps st) id = Some e -> ts < rl_ep_rpos e -> rl_recv id ts st = (false, st).
Proof. intros H Hlt. unfold rl_recv. rewrite H. replace (ts <? rl_ep_rpos e) with true by lia. reflexivity. Qed.

(* ---- C12_cleanup_safe ---- *)
Theorem rl_cleanup_safe t now st n b :
  In (n, b) (rl_files st) -> ~ In (n, b) (rl_files (rl_cleanup t now st)) ->
  forall e, In e (rl_eps st) -> rl_related t e = true ->
    (0 <= rl_ep_dur e /\ n < now - rl_ep_dur e) \/ n <= rl_ep_pos e.
Proof.
  intros Hin Hout e He Hrel. unfold rl_cleanup in Hout. cbn [rl_files rl_set_files] in Hout.
  rewrite filter_In in Hout. cbn [fst] in Hout.
  destruct (rl_needed t now (rl_eps st) n) eqn:En; [exfalso; apply Hout; split; [assumption|reflexivity]|].
  unfold rl_needed in En.
  assert (rl_related t e && rl_ep_needs now n e = false) as Hf.
  { destruct (rl_related t e && rl_ep_needs now n e) eqn:E; [|reflexivity].
    assert (existsb (fun e0 => rl_related t e0 && rl_ep_needs now n e0) (rl_eps st) = true) by (apply existsb_exists; exists e; split; assumption).
    congruence. }
  rewrite Hrel in Hf. cbn [andb] in Hf. unfold rl_ep_needs in Hf.
  destruct ((0 <=? rl_ep_dur e) && (n <? now - rl_ep_dur e)) eqn:E; [left; lia|right; lia].
Qed.

Theorem rl_cleanup_keeps t now st :
  rl_cur (rl_cleanup t now st) = rl_cur st /\
  (forall f, In f (rl_files (rl_cleanup t now st)) -> In f (rl_files st)) /\
  (forall f, In f (rl_files st) -> rl_needed t now (rl_eps st) (fst f) = true -> In f (rl_files (rl_cleanup t now st))).
Proof.
  unfold rl_cleanup. cbn [rl_cur rl_files rl_set_files]. repeat split.
  - intros f H. apply filter_In in H. tauto.
  - intros f H1 H2. apply filter_In. tauto.
Qed.

(* ---- C12_restart ---- *)
Lemma rl_insert_last n b : forall fs, Forall (fun f => fst f < n) fs -> rl_insert_file n b fs = fs ++ [(n, b)].
Proof.
  induction fs as [|[m c] fs IH]; intros H; [reflexivity|]. inversion H; subst. cbn [rl_insert_file fst] in *.
  replace (n <? m) with false by lia. cbn [app]. f_equal. apply IH. assumption.
Qed.

Lemma rl_has_file_false n : forall fs, rl_has_file fs n = false -> Forall (fun f => fst f <= n) fs -> Forall (fun f => fst f < n) fs.
Proof.
  induction fs as [|[m c] fs IH]; intros H1 H2; [constructor|]. cbn [rl_has_file] in H1. apply orb_false_elim in H1.
  destruct H1 as [Hm Hr]. inversion H2; subst. cbn [fst] in *. constructor; [cbn [fst]; lia|apply IH; assumption].
Qed.

Lemma rl_parse_nil : rl_parse_log [] = [].
Proof. reflexivity. Qed.

Theorem rl_rotate_preserves now st :
  Forall (fun f => fst f <= (if rl_lmt st =? 0 then now else rl_lmt st) + 1) (rl_files st) ->
  rl_log_entries (rl_rotate now st) = rl_log_entries st.
Proof.
  intros Hle. unfold rl_rotate. destruct (rl_has_file _ _) eqn:Eh; [reflexivity|].
  rewrite !rl_log_entries_eq. cbn [rl_files rl_cur]. rewrite rl_insert_last by (apply rl_has_file_false; assumption).
  unfold rl_fentries. rewrite flat_map_app. cbn [flat_map snd]. rewrite rl_parse_nil, !app_nil_r. reflexivity.
Qed.

Theorem rl_restart_preserves clean now st :
  (clean = false -> rl_files (rl_restart clean now st) = rl_files st /\ rl_cur (rl_restart clean now st) = rl_cur st) /\
  (Forall (fun f => fst f <= (if rl_lmt st =? 0 then now else rl_lmt st) + 1) (rl_files st) ->
   rl_log_entries (rl_restart clean now st) = rl_log_entries st) /\
  (forall id, option_map (fun e => (rl_ep_pos e, rl_ep_rpos e)) (rl_get_ep (rl_eps (rl_restart clean now st)) id) =
              option_map (fun e => (rl_ep_pos e, rl_ep_rpos e)) (rl_get_ep (rl_eps st) id)).
Proof.
  split; [|split].
  - intros ->. split; reflexivity.
  - intros H. destruct clean; [|reflexivity]. unfold rl_restart. rewrite <- (rl_rotate_preserves now st H). reflexivity.
  - intros id. assert (rl_eps (if clean then rl_rotate now st else st) = rl_eps st) as He.
    { destruct clean; [|reflexivity]. unfold rl_rotate. destruct (rl_has_file _ _); reflexivity. }
    unfold rl_restart. cbn [rl_eps]. rewrite He. clear He. induction (rl_eps st) as [|e r IH]; [reflexivity|].
    cbn [map rl_get_ep rl_ep_set_conn rl_ep_id]. destruct (rl_ep_id e =? id); [reflexivity|apply IH].
Qed.

(* damage to one file leaves every other file and current untouched *)
Theorem rl_damage_other_files n f st :
  rl_cur (rl_map_file n f st) = rl_cur st /\
  (forall m b, In (m, b) (rl_files st) -> m <> n -> In (m, b) (rl_files (rl_map_file n f st))) /\
  (forall g, rl_files (rl_map_cur g st) = rl_files st).
Proof.
  split; [reflexivity|split; [|reflexivity]]. intros m b Hin Hne. unfold rl_map_file. cbn [rl_files].
  apply in_map_iff. exists (m, b). split; [|assumption]. cbn [fst]. replace (m =? n) with false by lia. reflexivity.
Qed.
