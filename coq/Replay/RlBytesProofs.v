(* C12 - byte level proofs: decimal round trip, netstring frame round trip, entry codec round trip,
   and prefix stability of the log reading loop. *)
From Icv Require Import Base.Tac Replay.RlBytes.
Local Open Scope Z_scope.

(* ---------- digits ---------- *)
Lemma rl_digits_aux_app f : forall n acc, rl_digits_aux f n acc = rl_digits_aux f n [] ++ acc.
Proof.
  induction f as [|f IH]; intros n acc; cbn [rl_digits_aux]; [reflexivity|].
  destruct (n / 10 =? 0); [reflexivity|].
  rewrite (IH (n / 10) ((48 + n mod 10) :: acc)), (IH (n / 10) [48 + n mod 10]).
  rewrite <- app_assoc. reflexivity.
Qed.

Lemma rl_dval_app a x y : rl_dval a (x ++ y) = rl_dval (rl_dval a x) y.
Proof. unfold rl_dval. apply fold_left_app. Qed.

Lemma rl_digits_aux_val f : forall n, 0 <= n < 10 ^ Z.of_nat f -> rl_dval 0 (rl_digits_aux f n []) = n.
Proof.
  induction f as [|f IH]; intros n Hn.
  - cbn in Hn. assert (n = 0) by lia. subst. reflexivity.
  - cbn [rl_digits_aux]. destruct (n / 10 =? 0) eqn:E.
    + apply Z.eqb_eq in E. unfold rl_dval. cbn [fold_left]. lia.
    + rewrite rl_digits_aux_app, rl_dval_app, IH.
      * unfold rl_dval. cbn [fold_left]. lia.
      * rewrite Nat2Z.inj_succ, Z.pow_succ_r in Hn by lia. lia.
Qed.

Lemma rl_isdigit_digit n : rl_isdigit (48 + n mod 10) = true.
Proof. unfold rl_isdigit. pose proof (Z.mod_pos_bound n 10). lia. Qed.

Lemma rl_digits_aux_all f : forall n acc, Forall (fun c => rl_isdigit c = true) acc ->
  Forall (fun c => rl_isdigit c = true) (rl_digits_aux f n acc).
Proof.
  induction f as [|f IH]; intros n acc H; cbn [rl_digits_aux]; [assumption|].
  assert (Forall (fun c => rl_isdigit c = true) ((48 + n mod 10) :: acc)) by (constructor; [apply rl_isdigit_digit|assumption]).
  destruct (n / 10 =? 0); [assumption|]. apply IH. assumption.
Qed.

Lemma rl_digits_aux_len f : forall n (k : nat), 0 <= n < 10 ^ Z.of_nat (S k) ->
  (length (rl_digits_aux (S f) n []) <= S k)%nat.
Proof.
  induction f as [|f IH]; intros n k Hn.
  - cbn. destruct (n / 10 =? 0); cbn; lia.
  - remember (S f) as f1 eqn:Hf1. cbn [rl_digits_aux]. destruct (n / 10 =? 0) eqn:E; [cbn; lia|].
    rewrite rl_digits_aux_app, app_length. cbn [length].
    destruct k as [|k].
    + change (10 ^ Z.of_nat 1) with 10 in Hn. apply Z.eqb_neq in E. lia.
    + assert (0 <= n / 10 < 10 ^ Z.of_nat (S k)).
      { rewrite (Nat2Z.inj_succ (S k)), Z.pow_succ_r in Hn by lia. lia. }
      subst f1. specialize (IH (n / 10) k H). lia.
Qed.

Lemma rl_digits_aux_nonempty f n : rl_digits_aux (S f) n [] <> [].
Proof.
  cbn [rl_digits_aux]. destruct (n / 10 =? 0); [discriminate|].
  rewrite rl_digits_aux_app. intros H. apply app_eq_nil in H. destruct H; discriminate.
Qed.

(* most significant digit is not '0' unless the number is 0 *)
Lemma rl_digits_aux_head f : forall n, 0 < n < 10 ^ Z.of_nat (S f) ->
  exists d r, rl_digits_aux (S f) n [] = d :: r /\ d <> 48.
Proof.
  induction f as [|f IH]; intros n Hn.
  - cbn [rl_digits_aux]. change (10 ^ Z.of_nat 1) with 10 in Hn. destruct (n / 10 =? 0) eqn:E.
    + exists (48 + n mod 10), []. split; [reflexivity|]. lia.
    + apply Z.eqb_neq in E. lia.
  - remember (S f) as f1. cbn [rl_digits_aux]. destruct (n / 10 =? 0) eqn:E.
    + exists (48 + n mod 10), []. split; [reflexivity|]. apply Z.eqb_eq in E. lia.
    + apply Z.eqb_neq in E. rewrite rl_digits_aux_app. subst f1.
      assert (0 < n / 10 < 10 ^ Z.of_nat (S f)) as H.
      { rewrite (Nat2Z.inj_succ (S f)), Z.pow_succ_r in Hn by lia. lia. }
      destruct (IH _ H) as (d & r & Hd & Hne). rewrite Hd. exists d, (r ++ [48 + n mod 10]). split; [reflexivity|assumption].
Qed.

(* ---------- list helpers ---------- *)
Lemma rl_firstn_app {A} (l r : list A) : firstn (length l) (l ++ r) = l.
Proof. induction l; cbn; [destruct r; reflexivity|f_equal; assumption]. Qed.
Lemma rl_skipn_app {A} (l r : list A) : skipn (length l) (l ++ r) = r.
Proof. induction l; cbn; [reflexivity|assumption]. Qed.
Lemma rl_skipn_app1 {A} (l r : list A) x : skipn (length l + 1) (l ++ x :: r) = r.
Proof. induction l; cbn; [reflexivity|assumption]. Qed.

(* ---------- netstring ---------- *)
Definition rl_alld (ds : rl_bytes) := Forall (fun c => rl_isdigit c = true) ds.

Lemma rl_scan_digits : forall ds i rest, rl_alld ds -> 0 <= i -> i + Z.of_nat (length ds) <= 17 ->
  i + Z.of_nat (length ds) <> 0 ->
  rl_scan (ds ++ 58 :: rest) i = RlScanAt (i + Z.of_nat (length ds)).
Proof.
  induction ds as [|c ds IH]; intros i rest Hd Hi Hle Hnz.
  - cbn [app rl_scan length]. rewrite Z.eqb_refl. cbn in Hnz. destruct (i =? 0) eqn:E; [lia|]. f_equal. cbn. lia.
  - inversion Hd as [|? ? Hc Hds]; subst. cbn [app rl_scan].
    unfold rl_isdigit in Hc. destruct (c =? 58) eqn:E; [lia|].
    cbn [length] in *. destruct (16 <? i) eqn:E2; [lia|].
    rewrite IH by (try assumption; lia). f_equal. lia.
Qed.

Lemma rl_ns_len_digits : forall ds i a, rl_alld ds -> 0 <= i -> i + Z.of_nat (length ds) <= 9 ->
  rl_ns_len ds i a = Some (rl_dval a ds).
Proof.
  induction ds as [|c ds IH]; intros i a Hd Hi Hle; [reflexivity|].
  inversion Hd as [|? ? Hc Hds]; subst. cbn [rl_ns_len]. rewrite Hc. cbn [length] in Hle.
  destruct (9 <=? i) eqn:E; [lia|]. rewrite IH by (try assumption; lia). reflexivity.
Qed.

Lemma rl_digits_props n : 0 <= n < 10 ^ 9 ->
  let ds := rl_digits n in
  rl_alld ds /\ (1 <= length ds <= 9)%nat /\ rl_dval 0 ds = n /\
  (exists d r, ds = d :: r /\ (d = 48 -> n = 0 /\ r = [])).
Proof.
  intros Hn ds. unfold ds, rl_digits. repeat split.
  - apply rl_digits_aux_all. constructor.
  - pose proof (rl_digits_aux_nonempty 19 n). destruct (rl_digits_aux 20 n []); [congruence|cbn; lia].
  - apply (rl_digits_aux_len 19 n 8). change (10 ^ Z.of_nat 9) with (10 ^ 9). lia.
  - apply rl_digits_aux_val. change (Z.of_nat 20) with 20. assert (10 ^ 9 < 10 ^ 20) by (vm_compute; reflexivity). lia.
  - destruct (Z.eq_dec n 0) as [->|Hnz].
    + exists 48, []. split; [reflexivity|]. intros _. split; reflexivity.
    + destruct (rl_digits_aux_head 19 n) as (d & r & Hd & Hne).
      { change (Z.of_nat 20) with 20. assert (10 ^ 9 < 10 ^ 20) by (vm_compute; reflexivity). lia. }
      exists d, r. split; [assumption|]. intros; contradiction.
Qed.

Theorem rl_ns_read_frame p rest : Z.of_nat (length p) < 10 ^ 9 ->
  rl_ns_read (rl_frame p ++ rest) = RlItem p rest.
Proof.
  intros Hlen. unfold rl_frame.
  destruct (rl_digits_props (Z.of_nat (length p))) as (Hall & Hl & Hval & (d & r & Hds & Hz)); [lia|].
  set (ds := rl_digits (Z.of_nat (length p))) in *.
  rewrite <- !app_assoc. cbn [app].
  unfold rl_ns_read. rewrite rl_scan_digits by (try assumption; lia).
  cbn [Z.add].
  (* leading zero test *)
  assert (((nth 0 (ds ++ 58 :: p ++ 44 :: rest) 0 =? 48) && rl_isdigit (nth 1 (ds ++ 58 :: p ++ 44 :: rest) 0)) = false) as Hlz.
  { rewrite Hds. cbn [app nth]. destruct (d =? 48) eqn:E; [|reflexivity].
    apply Z.eqb_eq in E. destruct (Hz E) as (_ & ->). cbn. reflexivity. }
  rewrite Hlz. rewrite Nat2Z.id, rl_firstn_app.
  rewrite rl_ns_len_digits by (try assumption; lia). rewrite Hval.
  rewrite rl_skipn_app1.
  rewrite app_length. cbn [length].
  destruct (Z.of_nat (length p + S (length rest)) <? Z.of_nat (length p) + 1) eqn:E; [lia|].
  rewrite Nat2Z.id. rewrite nth_middle. cbn [Z.eqb Pos.eqb].
  rewrite rl_firstn_app, rl_skipn_app1. reflexivity.
Qed.

(* ---------- the entry codec ---------- *)
Lemma rl_expect_app lit r : rl_expect lit (lit ++ r) = Some r.
Proof. induction lit; cbn; [reflexivity|rewrite Z.eqb_refl; assumption]. Qed.

Lemma rl_unesc_esc m r : rl_unesc (rl_esc m ++ [34] ++ r) = Some (m, r).
Proof.
  induction m as [|c m IH]; [reflexivity|].
  cbn [rl_esc]. destruct ((c =? 34) || (c =? 92)) eqn:E.
  - cbn [app rl_unesc]. cbn [Z.eqb Pos.eqb]. rewrite E. cbn [app] in IH. rewrite IH. reflexivity.
  - cbn [app rl_unesc]. apply orb_false_elim in E. destruct E as [E1 E2]. rewrite E1, E2.
    cbn [app] in IH. rewrite IH. reflexivity.
Qed.

Lemma rl_span_digits_app ds r : rl_alld ds -> rl_span_digits (ds ++ 125 :: r) = (ds, 125 :: r).
Proof.
  induction ds as [|c ds IH]; intros H; [reflexivity|].
  inversion H; subst. cbn [app rl_span_digits]. rewrite H2, IH by assumption. reflexivity.
Qed.

Lemma rl_dec_ts_enc ts : 0 <= ts < 10 ^ 15 -> rl_dec_ts (rl_lit_ts ++ rl_digits ts ++ [125]) = Some ts.
Proof.
  intros Hts. unfold rl_dec_ts. rewrite rl_expect_app.
  assert (rl_alld (rl_digits ts)) as Hall by (apply rl_digits_aux_all; constructor).
  change (rl_digits ts ++ [125]) with (rl_digits ts ++ 125 :: []). rewrite rl_span_digits_app by assumption.
  assert (10 ^ 15 < 10 ^ 20) by (vm_compute; reflexivity).
  assert (rl_dval 0 (rl_digits ts) = ts) as Hval by (apply rl_digits_aux_val; change (Z.of_nat 20) with 20; lia).
  assert (length (rl_digits ts) <= 15)%nat as Hlen by (apply (rl_digits_aux_len 19 ts 14); change (10 ^ Z.of_nat 15) with (10 ^ 15); lia).
  destruct (Z.eq_dec ts 0) as [->|Hnz]; [reflexivity|].
  destruct (rl_digits_aux_head 19 ts) as (d & r & Hd & Hne); [change (Z.of_nat 20) with 20; lia|].
  unfold rl_digits in *. rewrite Hd in *. destruct (d =? 48) eqn:E; [lia|]. cbn [andb].
  destruct (15 <? Z.of_nat (length (d :: r))) eqn:E2; [lia|]. rewrite Hval. reflexivity.
Qed.

Definition rl_entry_ok (e : rl_entry) : Prop :=
  0 <= rl_e_ts e < 10 ^ 15 /\ Z.of_nat (length (rl_enc_entry e)) < 10 ^ 9.

Theorem rl_dec_enc_entry e : 0 <= rl_e_ts e < 10 ^ 15 -> rl_dec_entry (rl_enc_entry e) = Some e.
Proof.
  intros Hts. destruct e as [ts sec msg]. cbn [rl_e_ts rl_e_sec rl_e_msg] in *.
  unfold rl_dec_entry, rl_enc_entry. cbn [rl_e_ts rl_e_sec rl_e_msg].
  rewrite rl_expect_app, rl_unesc_esc.
  destruct sec as [[ty nm]|]; cbn [rl_enc_sec].
  - rewrite <- !app_assoc. rewrite rl_expect_app, rl_unesc_esc, rl_expect_app, rl_unesc_esc, rl_expect_app.
    rewrite rl_dec_ts_enc by assumption. reflexivity.
  - cbn [app]. replace (rl_expect rl_lit_sec (rl_lit_ts ++ rl_digits ts ++ [125])) with (@None rl_bytes) by reflexivity.
    rewrite rl_dec_ts_enc by assumption. reflexivity.
Qed.

(* ---------- the reading loop ---------- *)
Lemma rl_ns_read_shorter buf p rest : rl_ns_read buf = RlItem p rest -> (length rest < length buf)%nat.
Proof.
  unfold rl_ns_read. destruct buf as [|b0 buf]; [cbn; discriminate|].
  destruct (rl_scan (b0 :: buf) 0); try discriminate.
  destruct (_ && _); try discriminate.
  destruct (rl_ns_len _ 0 0) as [len|]; try discriminate.
  destruct (_ <? _); try discriminate. destruct (_ =? 44); try discriminate.
  intros H. inversion H; subst. rewrite !skipn_length. cbn [length]. lia.
Qed.

Lemma rl_parse_fuel : forall f1 f2 buf, (length buf < f1)%nat -> (length buf < f2)%nat ->
  rl_parse_log_f f1 buf = rl_parse_log_f f2 buf.
Proof.
  induction f1 as [|f1 IH]; intros f2 buf H1 H2; [lia|].
  destruct f2 as [|f2]; [lia|]. cbn [rl_parse_log_f].
  destruct (rl_ns_read buf) as [p rest| |] eqn:E; try reflexivity.
  destruct (rl_dec_entry p); [|reflexivity]. f_equal.
  apply rl_ns_read_shorter in E. apply IH; lia.
Qed.

Lemma rl_parse_log_cons e rest : rl_entry_ok e ->
  rl_parse_log (rl_frame (rl_enc_entry e) ++ rest) = e :: rl_parse_log rest.
Proof.
  intros [Hts Hlen]. unfold rl_parse_log at 1. cbn [rl_parse_log_f].
  rewrite rl_ns_read_frame by assumption. rewrite rl_dec_enc_entry by assumption. f_equal.
  unfold rl_parse_log. apply rl_parse_fuel; [|lia].
  rewrite app_length. unfold rl_frame. rewrite !app_length. cbn [length]. lia.
Qed.

Theorem rl_prefix_stable es junk : Forall rl_entry_ok es ->
  rl_parse_log (rl_enc_log es ++ junk) = es ++ rl_parse_log junk.
Proof.
  induction es as [|e es IH]; intros H; [reflexivity|].
  inversion H; subst. unfold rl_enc_log. cbn [flat_map]. rewrite <- app_assoc.
  rewrite rl_parse_log_cons by assumption. cbn [app]. f_equal. apply IH. assumption.
Qed.

Lemma rl_enc_log_app a b : rl_enc_log (a ++ b) = rl_enc_log a ++ rl_enc_log b.
Proof. unfold rl_enc_log. apply flat_map_app. Qed.

(* truncation at ANY byte offset at or beyond the end of an entry keeps every entry before it *)
Theorem rl_truncate_safe es es' k : Forall rl_entry_ok es -> Z.of_nat (length (rl_enc_log es)) <= k ->
  exists tail, rl_parse_log (rl_truncate_bytes k (rl_enc_log (es ++ es'))) = es ++ tail.
Proof.
  intros Hok Hk. unfold rl_truncate_bytes. rewrite rl_enc_log_app, firstn_app.
  rewrite firstn_all2 by lia. eexists. apply rl_prefix_stable. assumption.
Qed.

Lemma rl_set_byte_app a : forall b k v, (length a <= k)%nat ->
  rl_set_byte k v (a ++ b) = a ++ rl_set_byte (k - length a) v b.
Proof.
  induction a as [|x a IH]; intros b k v H; cbn [app length]; [rewrite Nat.sub_0_r; reflexivity|].
  destruct k as [|k]; [cbn in H; lia|]. cbn [rl_set_byte length Nat.sub]. f_equal. apply IH. cbn in H. lia.
Qed.

(* overwriting ANY byte at or beyond the end of an entry keeps every entry before it *)
Theorem rl_corrupt_safe es es' k v : Forall rl_entry_ok es -> (length (rl_enc_log es) <= k)%nat ->
  exists tail, rl_parse_log (rl_set_byte k v (rl_enc_log (es ++ es'))) = es ++ tail.
Proof.
  intros Hok Hk. rewrite rl_enc_log_app, rl_set_byte_app by assumption.
  eexists. apply rl_prefix_stable. assumption.
Qed.
