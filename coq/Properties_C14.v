(* C14 - the property theorems, nothing else. *)
From Icv Require Import Base.Tac Persist.PsValue Persist.PsModel Persist.PsAtomicProofs.
From Coq Require Import NArith.
Local Open Scope N_scope.

(* kill at any instant of an atomic write: for every prefix of the system-call trace (stale temp files removed,
   mkstemp, chmod, write*, fsync, close, rename) the final path holds the complete old or the complete new content,
   it exists if it existed before, and the complete trace installs the new content *)
Theorem C14_atomic : forall old temps stale t chunks n,
  let s := ps_fs_run {| ps_fs_final := old; ps_fs_temps := temps |} (firstn n (ps_persist_trace stale t chunks)) in
  (ps_fs_final s = old \/ ps_fs_final s = Some (concat chunks)) /\ (old <> None -> ps_fs_final s <> None) /\
  ps_fs_final (ps_fs_run {| ps_fs_final := old; ps_fs_temps := temps |} (ps_persist_trace stale t chunks)) = Some (concat chunks).
Proof. exact ps_atomic_prefix. Qed.
Print Assumptions C14_atomic.

Theorem C14_atomic_oracle_accepts_model : forall old t chunks,
  ps_oracle_atomic old t (ps_atomic_trace t chunks) = None.
Proof. exact ps_oracle_atomic_accepts. Qed.
Print Assumptions C14_atomic_oracle_accepts_model.
