(* C14 - the property theorems, nothing else.  Each is closed by [exact] of a lemma proved in coq/Persist/*Proofs.v
   and followed by Print Assumptions. *)
From Icv Require Import Base.Tac Persist.PsValue Persist.PsModel Persist.PsValueProofs
  Persist.PsAtomicProofs Persist.PsRestoreProofs Persist.PsRoundtripProofs Persist.PsStateProofs Persist.PsModattrProofs Persist.PsFrameProofs Persist.PsSeqProofs Persist.PsSpineProofs Persist.PsReloadProofs Persist.PsHistoryProofs
  Persist.PsPopModel Persist.PsPopProofs Persist.PsFileModel Persist.PsFileProofs Facts.Facts_c14.
From Coq Require Import NArith.
Local Open Scope N_scope.

(* ---------------------------------------------------------------- state round trip *)
(* RestoreObjects (DumpObjects objs) onto the freshly configured population gives back objs - for EVERY population
   (any number of objects of any types of the environment, state fields holding any nesting of arrays, dictionaries
   and reflected objects such as the CheckResult in last_check_result) under the visible premise
   [ps_persisted_clean]: no dictionary inside a persisted field has a key "type" (negated signature of finding
   state-type-key).  [ps_obj_shape]: the fresh object has the same type, name and fields, fields that are not
   persisted hold their configured value, persisted fields are fields of the type, none is called "type". *)
Theorem C14_state_roundtrip : forall env mask objs fresh,
  ps_env_ok env -> (mask =? 0) = false ->
  Forall2 (ps_obj_shape env mask) objs fresh -> NoDup (map ps_id objs) ->
  (forall o, In o objs -> ps_persisted_clean env mask o) ->
  ps_restore_objects env mask (ps_dump_objects env mask objs) fresh = objs.
Proof. exact ps_population_roundtrip_clean. Qed.
Print Assumptions C14_state_roundtrip.

(* the value level: Deserialize (Serialize v) = v for every clean value, nested reflected objects included *)
Theorem C14_state_roundtrip_values : forall env mask, ps_env_ok env -> forall v,
  ps_clean env mask v = true -> ps_deserialize env mask (ps_serialize env mask v) = v.
Proof. exact ps_clean_roundtrip. Qed.
Print Assumptions C14_state_roundtrip_values.

(* plain data (no reflected objects): no premise on the type environment at all *)
Theorem C14_state_roundtrip_plain : forall env mask v,
  ps_plain v = true -> ps_deserialize env mask (ps_serialize env mask v) = v.
Proof. exact ps_value_roundtrip. Qed.
Print Assumptions C14_state_roundtrip_plain.

(* ... and outside that premise the statement is false (known finding state-type-key) *)
Theorem C14_state_type_key_refuted :
  let v1 := PsDict [([107], PsStr [118]); (ps_type_key, PsStr [110; 111; 110; 101])] in
  let v2 := PsArr [PsDict [(ps_type_key, PsStr [72; 111; 115; 116])]; PsStr [97]] in
  ps_deserialize ps_w_env ps_FAState (ps_serialize ps_w_env ps_FAState v1) = PsEmpty /\
  ps_deserialize ps_w_env ps_FAState (ps_serialize ps_w_env ps_FAState v2)
    = PsArr [PsObj [72; 111; 115; 116] [([120], PsNum 0 0)]; PsStr [97]].
Proof. exact ps_type_key_refuted. Qed.
Print Assumptions C14_state_type_key_refuted.

(* ---------------------------------------------------------------- modify / restore *)
(* For every field environment, object, dotted path and value: if ModifyAttribute succeeds on a configuration
   attribute whose value at the path was NOT a dictionary (negated signature of restore-dict-original) and
   original_attributes listed nothing at or below the path (negated signature of restore-overlap), then
   RestoreAttribute succeeds, the value at the path is exactly the value before the modification, and
   original_attributes no longer mentions the path. *)
Theorem C14_restore : forall fe attr v now1 now2 o o1,
  ps_modify_attribute fe attr v true now1 o = (true, o1) ->
  ps_is_config fe attr ->
  ps_well_typed fe attr o ->
  ps_is_dict (ps_get_attr attr o) = false ->
  ps_clean_for attr o ->
  exists o2, ps_restore_attribute fe attr true now2 o1 = (true, o2) /\
             ps_get_attr attr o2 = ps_get_attr attr o /\
             ps_orig_mentions attr o2 = false.
Proof. exact ps_restore_after_modify. Qed.
Print Assumptions C14_restore.

(* the oracle run over the implementation's observations (value at the path before the modify / after the restore,
   original_attributes after) accepts what the model produces under those premises *)
Theorem C14_restore_oracle_accepts_model : forall fe attr v now1 now2 o o1,
  ps_modify_attribute fe attr v true now1 o = (true, o1) ->
  ps_is_config fe attr -> ps_well_typed fe attr o -> ps_is_dict (ps_get_attr attr o) = false -> ps_clean_for attr o ->
  forall o2, ps_restore_attribute fe attr true now2 o1 = (true, o2) ->
  ps_get_attr attr o2 = ps_get_attr attr o /\ ps_orig_mentions attr o2 = false.
Proof. exact ps_restore_oracle_accepts. Qed.
Print Assumptions C14_restore_oracle_accepts_model.

(* frame: ModifyAttribute on p (whatever its outcome) leaves the value at every path q that is token-incomparable
   with p (neither dotted path is a prefix of the other) untouched; it records at most the one entry p -> old value *)
Theorem C14_modify_frame : forall fe p v now o ok o',
  ps_modify_attribute fe p v true now o = (ok, o') ->
  ps_cfg_field fe p -> ps_is_dict (ps_get_attr p o) = false ->
  (forall q, ps_incomp p q -> ps_get_attr q o' = ps_get_attr q o) /\
  (ps_orig_dict o' = ps_orig_dict o \/
   (ps_dcontains p (ps_orig_dict o) = false /\ ps_orig_dict o' = ps_dset p (ps_get_attr p o) (ps_orig_dict o))) /\
  (if ok then ps_dcontains p (ps_orig_dict o') = true else ps_m_fields o' = ps_m_fields o).
Proof. exact ps_modify_spec. Qed.
Print Assumptions C14_modify_frame.

(* frame: RestoreAttribute on p, when the only original_attributes entries at or below p are keyed p itself *)
Theorem C14_restore_frame : forall fe p now o ok o' x,
  ps_restore_attribute fe p true now o = (ok, o') ->
  ps_own_only p x (ps_orig_dict o) ->
  (forall fi, ps_filookup fe (ps_field_of p) = Some fi -> ps_coerce fi x = x) ->
  (forall q, ps_incomp p q -> ps_get_attr q o' = ps_get_attr q o) /\
  (forall kx, In kx (ps_orig_dict o') <-> In kx (ps_orig_dict o) /\ (ok = true -> fst kx <> p)) /\
  (ok = true -> ps_get_attr p o' = if ps_dcontains p (ps_orig_dict o) then x else ps_get_attr p o) /\
  (ok = false -> o' = o).
Proof. exact ps_restore_spec. Qed.
Print Assumptions C14_restore_frame.

(* THE SEQUENCE THEOREM.  P: any set of dotted paths of configuration attributes that are pairwise token-incomparable
   (negated signature of restore-overlap), o0: the object as configured (values of the fields' types, nothing modified).
   For EVERY history h of ModifyAttribute / RestoreAttribute calls on paths of P - the same path any number of times,
   succeeding or failing - in which no ModifyAttribute meets a dictionary at its path (negated signature of
   restore-dict-original), and for every list rs of restore calls on paths of P that covers the modified paths, in any
   order (restores of listed paths always succeed, C14_restore_succeeds; failing ones change nothing): every path of P
   and every path incomparable with P reads exactly as configured, and original_attributes is empty. *)
Theorem C14_restore_sequence : forall fe P o0,
  (forall p p', In p P -> In p' P -> p <> p' -> ps_incomp p p') ->
  (forall p, In p P -> ps_cfg_field fe p) ->
  (forall p, In p P -> forall fi, ps_filookup fe (ps_field_of p) = Some fi -> ps_coerce fi (ps_get_attr p o0) = ps_get_attr p o0) ->
  forall h rs,
  ps_orig_dict o0 = [] ->
  ps_hist_ok fe P o0 h ->
  let o := ps_run fe o0 h in
  (forall r, In r rs -> In (fst r) P) ->
  (forall k x, In (k, x) (ps_orig_dict o) -> In k (map fst rs)) ->
  let o' := ps_run fe o (ps_restores rs) in
  (forall p, In p P -> ps_get_attr p o' = ps_get_attr p o0) /\
  (forall q, (forall p, In p P -> ps_incomp p q) -> ps_get_attr q o' = ps_get_attr q o0) /\
  ps_orig_dict o' = [].
Proof. exact ps_restore_sequence_total. Qed.
Print Assumptions C14_restore_sequence.

(* while a path is listed in original_attributes its intermediate dictionaries exist (invariant of every such history,
   ps_spine_run), hence RestoreAttribute of a listed configuration attribute reports success *)
Theorem C14_restore_succeeds : forall fe p now o,
  ps_cfg_field fe p -> ps_dcontains p (ps_orig_dict o) = true -> ps_spine_attr p o ->
  fst (ps_restore_attribute fe p true now o) = true.
Proof. exact ps_restore_succeeds. Qed.
Print Assumptions C14_restore_succeeds.

Theorem C14_restore_dict_original_refuted :
  (* original value an empty dictionary: nothing recorded, restore is a no-op *)
  (let o := ps_w_obj (PsDict [([97], PsDict [])]) in
   let o1 := snd (ps_modify_attribute ps_w_fe ps_w_path_a (PsNum 5 0) true 1%Z o) in
   let o2 := snd (ps_restore_attribute ps_w_fe ps_w_path_a true 2%Z o1) in
   fst (ps_modify_attribute ps_w_fe ps_w_path_a (PsNum 5 0) true 1%Z o) = true /\
   fst (ps_restore_attribute ps_w_fe ps_w_path_a true 2%Z o1) = true /\
   ps_orig_mentions ps_w_path_a o1 = false /\
   ps_get_attr ps_w_path_a o = PsDict [] /\ ps_get_attr ps_w_path_a o2 = PsNum 5 0) /\
  (* original {x:1}, new {y:2}: y stays behind as null *)
  (let o := ps_w_obj (PsDict [([97], PsDict [([120], PsNum 1 0)])]) in
   let o1 := snd (ps_modify_attribute ps_w_fe ps_w_path_a (PsDict [([121], PsNum 2 0)]) true 1%Z o) in
   let o2 := snd (ps_restore_attribute ps_w_fe ps_w_path_a true 2%Z o1) in
   fst (ps_restore_attribute ps_w_fe ps_w_path_a true 2%Z o1) = true /\
   ps_get_attr ps_w_path_a o = PsDict [([120], PsNum 1 0)] /\
   ps_get_attr ps_w_path_a o2 = PsDict [([120], PsNum 1 0); ([121], PsEmpty)]).
Proof. exact (conj ps_restore_empty_dict_refuted ps_restore_null_keys_refuted). Qed.
Print Assumptions C14_restore_dict_original_refuted.

Theorem C14_restore_overlap_refuted :
  let o := ps_w_obj (PsDict [([97], PsNum 5 0)]) in
  let o1 := snd (ps_modify_attribute ps_w_fe ps_w_path_a (PsDict [([98], PsNum 1 0)]) true 1%Z o) in
  let o2 := snd (ps_modify_attribute ps_w_fe ps_w_path_ab (PsNum 2 0) true 2%Z o1) in
  let o3 := snd (ps_restore_attribute ps_w_fe ps_w_path_a true 3%Z o2) in
  fst (ps_restore_attribute ps_w_fe ps_w_path_a true 3%Z o2) = true /\
  ps_get_attr ps_w_path_a o = PsNum 5 0 /\ ps_get_attr ps_w_path_a o3 = PsDict [([98], PsNum 1 0)].
Proof. exact ps_restore_overlap_refuted. Qed.
Print Assumptions C14_restore_overlap_refuted.

(* fixed (repo commit 587182ba): RestoreAttribute of a top-level attribute that original_attributes does not list
   leaves the object exactly as it is - for every object, whatever else is modified *)
Theorem C14_restore_unmodified_noop : forall fe attr updv now o,
  length (ps_split attr) = 1%nat -> ps_orig_mentions attr o = false ->
  snd (ps_restore_attribute fe attr updv now o) = o.
Proof. exact ps_restore_unmodified_noop. Qed.
Print Assumptions C14_restore_unmodified_noop.

(* ---------------------------------------------------------------- modified attributes across a restart *)
(* DumpModifiedAttributes of the running object [cur], the written script replayed on the object as configured
   [base]: the dump succeeds, the replay succeeds, every attribute has the value it had before the restart,
   original_attributes lists the same entries with the same originals, and the version is restored - for every object
   whose original_attributes entries are top-level attribute names ([ps_top_ok]: no dot in the key, a modifiable config
   field holding a value of its type, and the value survives the config writer, see C14_modattr_six_decimals).
   The premise "top-level" excludes the nested per-key recording (findings restore-dict-original, restore-overlap,
   modattr-dump-throws); the premise on the writer excludes finding modattr-number-precision. *)
Theorem C14_modattr_roundtrip : forall fe cur base ver now,
  ps_orig_dict base = [] ->
  (forall k, ps_dcontains k (ps_orig_dict cur) = true -> ps_top_ok fe cur k) ->
  (forall k x, ps_dget_opt k (ps_orig_dict cur) = Some x -> x = ps_dget k (ps_m_fields base)) ->
  (forall f, ps_dcontains f (ps_orig_dict cur) = false -> ps_dget f (ps_m_fields cur) = ps_dget f (ps_m_fields base)) ->
  exists script r,
    ps_dump_modattrs cur = Some script /\ ps_replay_modattrs fe script ver now base = (true, r) /\
    (forall f, ps_dget f (ps_m_fields r) = ps_dget f (ps_m_fields cur)) /\
    (forall k, ps_dget_opt k (ps_orig_dict r) = ps_dget_opt k (ps_orig_dict cur)) /\
    (ps_orig_dict cur <> [] -> ps_m_version r = ver).
Proof. exact ps_modattr_roundtrip. Qed.
Print Assumptions C14_modattr_roundtrip.

(* the same for NESTED dotted keys.  [cur]: any object reached from the configured object o0 by a history of
   modify/restore calls on pairwise incomparable paths P in which no modify met a dictionary ([ps_reload_inv], shown to
   be an invariant of every such history by ps_reload_run - this is where "no dict->scalar replacement" and the
   overlap signature enter; it also carries that every listed path was walkable in the configuration).
   [ps_listed_ok] for every listed key: its current value survives the writer (<= 6 fractional digits,
   C14_modattr_six_decimals) and a top-level value is of its field's type.  Then: the dump succeeds, the replay on o0 succeeds, every path of P and
   every path incomparable with P reads as before the restart, original_attributes has the same entries, the version
   is restored; with nothing listed the script is empty and the replay is the identity. *)
Theorem C14_modattr_roundtrip_nested : forall fe P o0,
  (forall p p', In p P -> In p' P -> p <> p' -> ps_incomp p p') ->
  (forall p, In p P -> ps_cfg_field fe p) ->
  (forall p, In p P -> forall fi, ps_filookup fe (ps_field_of p) = Some fi -> ps_fi_nomod fi = false) ->
  (forall p, In p P -> forall fi, ps_filookup fe (ps_field_of p) = Some fi -> ps_coerce fi (ps_get_attr p o0) = ps_get_attr p o0) ->
  forall cur, ps_reload_inv P o0 cur ->
  forall now, (forall k x, In (k, x) (ps_orig_dict cur) -> ps_listed_ok fe cur k) ->
  forall ver, ps_orig_dict o0 = [] ->
  exists script r,
    ps_dump_modattrs cur = Some script /\ ps_replay_modattrs fe script ver now o0 = (true, r) /\
    (forall p, In p P -> ps_get_attr p r = ps_get_attr p cur) /\
    (forall q, (forall p, In p P -> ps_incomp p q) -> ps_get_attr q r = ps_get_attr q cur) /\
    (forall k x, In (k, x) (ps_orig_dict r) <-> In (k, x) (ps_orig_dict cur)) /\
    (ps_orig_dict cur <> [] -> ps_m_version r = ver) /\
    (ps_orig_dict cur = [] -> script = [] /\ r = o0).
Proof. exact ps_reload_roundtrip. Qed.
Print Assumptions C14_modattr_roundtrip_nested.

(* [ps_reload_inv] holds after every history of the allowed kind *)
Theorem C14_reload_inv_reachable : forall fe P o0,
  (forall p p', In p P -> In p' P -> p <> p' -> ps_incomp p p') ->
  (forall p, In p P -> ps_cfg_field fe p) ->
  (forall p, In p P -> forall fi, ps_filookup fe (ps_field_of p) = Some fi -> ps_coerce fi (ps_get_attr p o0) = ps_get_attr p o0) ->
  forall h o, ps_reload_inv P o0 o -> ps_hist_ok fe P o h -> ps_reload_inv P o0 (ps_run fe o h).
Proof. exact ps_reload_run. Qed.
Print Assumptions C14_reload_inv_reachable.

(* HISTORIES WITH DUMP AS AN OPERATION: the state is the object plus the script in modified-attributes.conf.  After any
   history of modify / restore / dump operations of the allowed kind, either nothing was ever dumped and there is no
   file, or the file holds exactly the script of the LAST dump (H = H1 ++ dump :: H2 with no dump in H2), and replaying
   it on the configured object yields the values the object had at that dump; if everything had been restored before
   that dump the script is EMPTY and the replay changes nothing (a stale file from an earlier dump cannot survive). *)
Theorem C14_history_reload : forall fe P o0,
  (forall p p', In p P -> In p' P -> p <> p' -> ps_incomp p p') ->
  (forall p, In p P -> ps_cfg_field fe p) ->
  (forall p, In p P -> forall fi, ps_filookup fe (ps_field_of p) = Some fi -> ps_fi_nomod fi = false) ->
  (forall p, In p P -> forall fi, ps_filookup fe (ps_field_of p) = Some fi -> ps_coerce fi (ps_get_attr p o0) = ps_get_attr p o0) ->
  forall H ver now,
  ps_orig_dict o0 = [] -> ps_hhist_ok fe P o0 H ->
  match snd (ps_hrun fe (o0, None) H) with
  | None => forallb (fun h => negb (ps_is_dump h)) H = true
  | Some script =>
    exists H1 H2, H = H1 ++ PsHDump :: H2 /\ forallb (fun h => negb (ps_is_dump h)) H2 = true /\
      let od := fst (ps_hrun fe (o0, None) H1) in
      ps_dump_modattrs od = Some script /\
      exists r, ps_replay_modattrs fe script ver now o0 = (true, r) /\
        (forall p, In p P -> ps_get_attr p r = ps_get_attr p od) /\
        (forall q, (forall p, In p P -> ps_incomp p q) -> ps_get_attr q r = ps_get_attr q od) /\
        (forall k x, In (k, x) (ps_orig_dict r) <-> In (k, x) (ps_orig_dict od)) /\
        (ps_orig_dict od = [] -> script = [] /\ r = o0)
  end.
Proof. exact ps_history_reload. Qed.
Print Assumptions C14_history_reload.

(* THE WRITER PREMISE HOLDS FOR EVERY VALUE.  ps_top_ok / ps_listed_ok above ask that the listed value survives
   ConfigWriter::EmitNumber + lexer.  Since fix 1e5729f (finding modattr-number-precision, now fixed) the writer emits
   six decimals and more only while the text does not read back as the same number; the model reads which form the
   source has from the regenerated fact f_cw_number_roundtrip, and for the form it has now every value - any number of
   fractional digits, any nesting - comes back unchanged.  (Stops compiling when EmitNumber changes shape.) *)
Theorem C14_writer_codec_identity : forall v, ps_writer_codec v = v.
Proof. exact ps_codec_id. Qed.
Print Assumptions C14_writer_codec_identity.

(* the writer as pinned (always six decimals): values all of whose numbers have at most six fractional digits (any
   nesting of arrays and dictionaries) came back unchanged ... *)
Theorem C14_modattr_six_decimals : forall v, ps_six v = true -> ps_writer_codec_m false v = v.
Proof. exact ps_six_codec. Qed.
Print Assumptions C14_modattr_six_decimals.

Theorem C14_modattr_dump_throws_refuted :
  let o := ps_w_obj (PsDict [([97], PsDict [([120], PsNum 1 0)])]) in
  let o1 := snd (ps_modify_attribute ps_w_fe ps_w_path_a (PsNum 5 0) true 1%Z o) in
  fst (ps_modify_attribute ps_w_fe ps_w_path_a (PsNum 5 0) true 1%Z o) = true /\ ps_dump_modattrs o1 = None.
Proof. exact ps_dump_modattrs_throws_refuted. Qed.
Print Assumptions C14_modattr_dump_throws_refuted.

(* ... and every other number did not (the recorded finding, on the pinned form of the writer) *)
Theorem C14_modattr_number_precision_refuted :
  ps_writer_codec_m false (PsNum 1234567 7) = PsNum 123457 6 /\ ps_writer_codec_m false (PsNum 1 7) = PsNum 0 0 /\
  ps_writer_codec_m false (PsDict [([97], PsArr [PsNum 1234567 7])]) = PsDict [([97], PsArr [PsNum 123457 6])].
Proof. exact ps_modattr_precision_refuted. Qed.
Print Assumptions C14_modattr_number_precision_refuted.

(* the former witness on the source as it is now: modify vars.a to 0.1234567, dump, reload - 0.1234567 *)
Theorem C14_modattr_number_precision_fixed :
  let o := ps_w_obj (PsDict [([97], PsNum 1 0)]) in
  let o1 := snd (ps_modify_attribute ps_w_fe ps_w_path_a (PsNum 1234567 7) true 1%Z o) in
  exists script, ps_dump_modattrs o1 = Some script /\
    ps_get_attr ps_w_path_a (snd (ps_replay_modattrs ps_w_fe script 1%Z 9%Z o)) = PsNum 1234567 7.
Proof. exact ps_modattr_precision_fixed. Qed.
Print Assumptions C14_modattr_number_precision_fixed.

(* ---------------------------------------------------------------- populations: every object gets back ITS OWN version *)
(* modified-attributes.conf for SEVERAL objects: a block per object that lists something, closed with that object's own
   version (ps_pop_dump); the file is evaluated block by block on the population as configured (ps_pop_replay).
   specs: per object its name, its set P of pairwise incomparable paths, the configured object o0 and the running object
   cur (ps_pspec_ok = the premises of C14_modattr_roundtrip_nested for that object).  For every population with distinct
   names, of any size: the dump succeeds, the evaluation succeeds, the population keeps its objects and order, and EVERY
   object ends up with its own values on P and on the frame, its own original_attributes entries and - if it lists
   anything - its OWN version (ps_pspec_concl); an object that lists nothing is exactly the configured object. *)
Theorem C14_population_reload : forall fe now specs,
  NoDup (map ps_s_name specs) -> (forall s, In s specs -> ps_pspec_ok fe s) ->
  exists blocks r,
    ps_pop_dump (ps_pop_cur specs) = Some blocks /\ ps_pop_replay fe now blocks (ps_pop_base specs) = (true, r) /\
    map ps_p_name r = map ps_s_name specs /\
    (forall s, In s specs -> exists ro, ps_pop_find (ps_s_name s) r = Some ro /\ ps_pspec_concl s ro).
Proof. exact ps_pop_reload. Qed.
Print Assumptions C14_population_reload.

(* THE WHOLE STOP/START CYCLE.  DumpProgramState of the running population = the state file (of the attributes modelled
   here it carries every object's version; original_attributes is not a state attribute) + modified-attributes.conf;
   start-up on the population as configured = RestoreObjects (ps_state_restore), then evaluation of the file.  Nothing
   throws, and EVERY object - whether it lists modified attributes or not - has its own version, its own values on P and
   on the frame, its own original_attributes entries (rebuilt by the replay); an object that lists nothing is the
   configured object carrying its version. *)
Theorem C14_population_restart : forall fe now specs,
  NoDup (map ps_s_name specs) -> (forall s, In s specs -> ps_pspec_ok fe s) ->
  exists r,
    ps_pop_restart fe now (ps_pop_cur specs) (ps_pop_base specs) = Some (true, r) /\
    map ps_p_name r = map ps_s_name specs /\
    (forall s, In s specs -> exists ro, ps_pop_find (ps_s_name s) r = Some ro /\ ps_pspec_concl_restart s ro).
Proof. exact ps_pop_restart_reload. Qed.
Print Assumptions C14_population_restart.

(* ... and the premises hold after EVERY interleaving of ModifyAttribute / RestoreAttribute calls on the objects of the
   population, at any times, in which each object's own calls form an allowed history (paths of its P, no modify meets a
   dictionary): dump + evaluation on the configured population succeed and each object reads as before the restart, with
   its own original_attributes entries and its own version. *)
Theorem C14_population_history_reload : forall fe now cfg H,
  NoDup (map ps_c_name cfg) -> (forall c, In c cfg -> ps_pcfg_ok fe c) ->
  (forall c, In c cfg -> ps_hist_ok fe (ps_c_P c) (ps_c_o0 c) (ps_pop_proj (ps_c_name c) H)) ->
  let running := ps_pop_run fe (ps_pop_cfg cfg) H in
  (forall c, In c cfg -> forall k x, In (k, x) (ps_orig_dict (ps_run fe (ps_c_o0 c) (ps_pop_proj (ps_c_name c) H))) ->
     ps_listed_ok fe (ps_run fe (ps_c_o0 c) (ps_pop_proj (ps_c_name c) H)) k) ->
  exists blocks r,
    ps_pop_dump running = Some blocks /\ ps_pop_replay fe now blocks (ps_pop_cfg cfg) = (true, r) /\
    map ps_p_name r = map ps_c_name cfg /\
    (forall c, In c cfg -> exists cur ro,
       ps_pop_find (ps_c_name c) running = Some cur /\ ps_pop_find (ps_c_name c) r = Some ro /\
       (forall p, In p (ps_c_P c) -> ps_get_attr p ro = ps_get_attr p cur) /\
       (forall q, (forall p, In p (ps_c_P c) -> ps_incomp p q) -> ps_get_attr q ro = ps_get_attr q cur) /\
       (forall k x, In (k, x) (ps_orig_dict ro) <-> In (k, x) (ps_orig_dict cur)) /\
       (ps_orig_dict cur <> [] -> ps_m_version ro = ps_m_version cur) /\
       (ps_orig_dict cur = [] -> ro = ps_c_o0 c)).
Proof. exact ps_pop_history_reload. Qed.
Print Assumptions C14_population_history_reload.

(* ... and followed by the whole stop/start cycle: every object has its own version back, whether or not it lists
   modified attributes (the state file carries the version of every object) *)
Theorem C14_population_history_restart : forall fe now cfg H,
  NoDup (map ps_c_name cfg) -> (forall c, In c cfg -> ps_pcfg_ok fe c) ->
  (forall c, In c cfg -> ps_hist_ok fe (ps_c_P c) (ps_c_o0 c) (ps_pop_proj (ps_c_name c) H)) ->
  let running := ps_pop_run fe (ps_pop_cfg cfg) H in
  (forall c, In c cfg -> forall k x, In (k, x) (ps_orig_dict (ps_run fe (ps_c_o0 c) (ps_pop_proj (ps_c_name c) H))) ->
     ps_listed_ok fe (ps_run fe (ps_c_o0 c) (ps_pop_proj (ps_c_name c) H)) k) ->
  exists r,
    ps_pop_restart fe now running (ps_pop_cfg cfg) = Some (true, r) /\
    map ps_p_name r = map ps_c_name cfg /\
    (forall c, In c cfg -> exists cur ro,
       ps_pop_find (ps_c_name c) running = Some cur /\ ps_pop_find (ps_c_name c) r = Some ro /\
       (forall p, In p (ps_c_P c) -> ps_get_attr p ro = ps_get_attr p cur) /\
       (forall q, (forall p, In p (ps_c_P c) -> ps_incomp p q) -> ps_get_attr q ro = ps_get_attr q cur) /\
       (forall k x, In (k, x) (ps_orig_dict ro) <-> In (k, x) (ps_orig_dict cur)) /\
       ps_m_version ro = ps_m_version cur /\
       (ps_orig_dict cur = [] -> ro = ps_set_version (ps_m_version cur) (ps_c_o0 c))).
Proof. exact ps_pop_history_restart. Qed.
Print Assumptions C14_population_history_restart.

(* ---------------------------------------------------------------- sizes: the state file as framed records *)
(* "whatever their content" includes SIZE.  The state file is a sequence of netstring-framed JSON records; jlen is the byte
   length of a record's JSON text (an input of the model).  For every population, every jlen and every limit configuration
   of the read side (digits of the length prefix, maxMessageLength, nesting limit of the decoder): if every record is one
   the reader accepts, RestoreObjects succeeds and gives back the population.  Size enters nowhere else. *)
Theorem C14_state_file_roundtrip : forall jlen env mask digits maxlen dlim objs fresh,
  ps_env_ok env -> (mask =? 0) = false ->
  Forall2 (ps_obj_shape env mask) objs fresh -> NoDup (map ps_id objs) ->
  (forall o, In o objs -> ps_persisted_clean env mask o) ->
  (forall o, In o objs -> ps_frame_accepts digits maxlen (jlen (ps_dump_object env mask o)) = true /\
                           ps_depth_accepts dlim (ps_dump_object env mask o) = true) ->
  ps_restore_file env mask digits maxlen dlim (ps_dump_file jlen env mask objs) fresh = Some objs.
Proof. exact ps_file_roundtrip. Qed.
Print Assumptions C14_state_file_roundtrip.

(* THE LENGTH LIMITS OF THE TWO SIDES, READ FROM THE SOURCE (Facts_c14, regenerated on every run): DumpObjects writes
   records of any length (f_ps_dump_maxlen = no limit) and RestoreObjects passes no maxMessageLength, so every record
   shorter than 10^9 bytes (the nine digits the netstring reader accepts in a length prefix) that DumpObjects writes is
   accepted.  Stops checking when one side gets a limit the other does not have. *)
Theorem C14_state_frame_limits_agree : forall len,
  ps_frame_written ps_src_dump_maxlen len = true -> len < 10 ^ 9 -> ps_src_frame_fits len = true.
Proof. exact ps_src_frame_limits_agree. Qed.
Print Assumptions C14_state_frame_limits_agree.

(* what a limit on the read side alone does: the first record longer than it makes RestoreObjects throw - nothing is loaded *)
Theorem C14_state_frame_rejected : forall env mask digits maxlen dlim rec len file pop,
  ps_frame_accepts digits maxlen len = false ->
  ps_restore_file env mask digits maxlen dlim ((rec, len) :: file) pop = None.
Proof. exact ps_file_frame_rejected. Qed.
Print Assumptions C14_state_frame_rejected.

(* NESTING: the write side has no limit, the decoder RestoreObject uses has one (128, JsonDecode since d99256e) - known
   finding state-depth-limit.  With that limit a clean host whose performance data holds an element nested 125 arrays deep
   (record depth 129) is dumped and silently NOT restored: it comes back as the freshly configured object; 124 levels come
   back; without a decoder limit (proposed fix repo_patches/c14-state-depth.diff) 125 levels come back too. *)
Theorem C14_state_depth_limit_refuted :
  ps_clean ps_s_env ps_FAState (ps_f_cr 125) = true /\
  ps_json_depth (ps_dump_object ps_s_env ps_FAState (ps_s_host [1] (PsStr [99]) (PsNum 2 0) (ps_f_cr 125))) = 129 /\
  ps_restore_file ps_s_env ps_FAState 9 None (Some 128) (ps_dump_file (fun _ => 1000) ps_s_env ps_FAState (ps_f_objs 125)) ps_f_fresh
    = Some ps_f_fresh /\
  ps_restore_file ps_s_env ps_FAState 9 None (Some 128) (ps_dump_file (fun _ => 1000) ps_s_env ps_FAState (ps_f_objs 124)) ps_f_fresh
    = Some (ps_f_objs 124) /\
  ps_restore_file ps_s_env ps_FAState 9 None None (ps_dump_file (fun _ => 1000) ps_s_env ps_FAState (ps_f_objs 125)) ps_f_fresh
    = Some (ps_f_objs 125).
Proof. exact ps_file_depth_refuted. Qed.
Print Assumptions C14_state_depth_limit_refuted.

(* ---------------------------------------------------------------- crash atomicity *)
(* kill at any instant of a persisting write: for every prefix of the system-call trace (stale temp files removed,
   mkstemp, chmod, write*, fsync, close, rename) the final path holds the complete old or the complete new content,
   it exists if it existed before, and the complete trace installs the new content *)
Theorem C14_atomic : forall old temps stale t chunks n,
  let s := ps_fs_run {| ps_fs_final := old; ps_fs_temps := temps |} (firstn n (ps_persist_trace stale t chunks)) in
  (ps_fs_final s = old \/ ps_fs_final s = Some (concat chunks)) /\ (old <> None -> ps_fs_final s <> None) /\
  ps_fs_final (ps_fs_run {| ps_fs_final := old; ps_fs_temps := temps |} (ps_persist_trace stale t chunks)) = Some (concat chunks).
Proof. exact ps_atomic_prefix. Qed.
Print Assumptions C14_atomic.

Theorem C14_atomic_oracle_accepts_model : forall old t chunks,
  ps_oracle_atomic old t (ps_atomic_trace t chunks) = None.
Proof. exact ps_oracle_atomic_accepts. Qed.
Print Assumptions C14_atomic_oracle_accepts_model.

(* non-vacuity: the premises of C14_restore are met by a nested path whose leaf does not exist; the value at the path
   returns to null, while the enclosing dictionary keeps a null entry (observation "null leaf") *)
Example C14_restore_sequence_nonvacuous :
  ps_incomp ps_q_a ps_q_bc /\ ps_incomp ps_q_a ps_q_xyz /\ ps_incomp ps_q_a ps_q_n /\
  ps_incomp ps_q_bc ps_q_xyz /\ ps_incomp ps_q_bc ps_q_n /\ ps_incomp ps_q_xyz ps_q_n /\
  ps_hist_ok ps_q_fe ps_q_P ps_q_o0 ps_q_h /\
  ps_run_ok ps_q_fe (ps_run ps_q_fe ps_q_o0 ps_q_h) (ps_restores ps_q_rs) = true /\
  map fst (ps_orig_dict (ps_run ps_q_fe ps_q_o0 ps_q_h)) = [ps_q_n; ps_q_a; ps_q_bc; ps_q_xyz] /\
  ps_orig_dict (ps_run ps_q_fe (ps_run ps_q_fe ps_q_o0 ps_q_h) (ps_restores ps_q_rs)) = [] /\
  ps_dget [118; 97; 114; 115] (ps_m_fields (ps_run ps_q_fe (ps_run ps_q_fe ps_q_o0 ps_q_h) (ps_restores ps_q_rs)))
    = PsDict [([97], PsNum 5 0); ([98], PsDict [([99], PsEmpty); ([100], PsBool true)]); ([120], PsDict [([121], PsEmpty)])].
Proof. exact ps_restore_sequence_nonvacuous. Qed.

Example C14_history_nonvacuous :
  ps_hhist_ok ps_q_fe ps_q_P ps_q_o0 ps_y_H /\
  snd (ps_hrun ps_q_fe (ps_q_o0, None) (firstn 4 ps_y_H))
    = Some [(ps_q_n, PsStr [121]); (ps_q_a, PsNum 123456 6); (ps_q_bc, PsDict [([107], PsStr [118])])] /\
  snd (ps_hrun ps_q_fe (ps_q_o0, None) ps_y_H) = Some [].
Proof. exact ps_history_reload_nonvacuous. Qed.

Example C14_modattr_nonvacuous :
  ps_orig_dict ps_r_base = [] /\
  ps_orig_dict ps_r_cur <> [] /\
  (forall k, ps_dcontains k (ps_orig_dict ps_r_cur) = true -> ps_top_ok ps_r_fe ps_r_cur k) /\
  (forall k x, ps_dget_opt k (ps_orig_dict ps_r_cur) = Some x -> x = ps_dget k (ps_m_fields ps_r_base)) /\
  (forall f, ps_dcontains f (ps_orig_dict ps_r_cur) = false -> ps_dget f (ps_m_fields ps_r_cur) = ps_dget f (ps_m_fields ps_r_base)).
Proof. exact ps_modattr_roundtrip_nonvacuous. Qed.

Example C14_state_nonvacuous :
  let cr := PsObj [67] [([111], PsStr [120]); ([112], PsArr [PsDict [([97], PsNum 5 1)]; PsEmpty])] in
  let objs := [ps_s_host [1] (PsStr [99]) (PsNum 2 0) cr; ps_s_host [2] (PsStr [100]) (PsNum 1 0) PsEmpty] in
  let fresh := [ps_s_host [1] (PsStr [99]) (PsNum 0 0) PsEmpty; ps_s_host [2] (PsStr [100]) (PsNum 0 0) PsEmpty] in
  ps_restore_objects ps_s_env ps_FAState (ps_dump_objects ps_s_env ps_FAState objs) fresh = objs /\
  ps_clean ps_s_env ps_FAState cr = true.
Proof. exact ps_population_roundtrip_nonvacuous. Qed.

Example C14_nonvacuous :
  let o := ps_w_obj (PsDict [([97], PsDict [([120], PsNum 1 0)])]) in
  let p := [118; 97; 114; 115; 46; 97; 46; 122] in
  fst (ps_modify_attribute ps_w_fe p (PsStr [104]) true 1%Z o) = true /\
  ps_is_dict (ps_get_attr p o) = false /\
  ps_get_attr p (snd (ps_restore_attribute ps_w_fe p true 2%Z (snd (ps_modify_attribute ps_w_fe p (PsStr [104]) true 1%Z o)))) = PsEmpty /\
  ps_get_attr ps_w_path_a (snd (ps_restore_attribute ps_w_fe p true 2%Z (snd (ps_modify_attribute ps_w_fe p (PsStr [104]) true 1%Z o))))
    = PsDict [([120], PsNum 1 0); ([122], PsEmpty)].
Proof. exact ps_restore_after_modify_nonvacuous. Qed.

(* non-vacuity of C14_state_file_roundtrip under the limits the source has now: two hosts, records of 2 MB *)
Example C14_state_file_nonvacuous :
  let cr := PsObj [67] [([111], PsStr [120]); ([112], PsArr [PsDict [([97], PsNum 5 1)]; PsEmpty])] in
  let objs := [ps_s_host [1] (PsStr [99]) (PsNum 2 0) cr; ps_s_host [2] (PsStr [100]) (PsNum 1 0) PsEmpty] in
  let fresh := [ps_s_host [1] (PsStr [99]) (PsNum 0 0) PsEmpty; ps_s_host [2] (PsStr [100]) (PsNum 0 0) PsEmpty] in
  ps_src_restore_file ps_s_env ps_FAState (ps_dump_file (fun _ => 2000000) ps_s_env ps_FAState objs) fresh = Some objs /\
  (forall o, In o objs -> ps_src_frame_fits 2000000 = true /\ ps_depth_accepts ps_src_state_depth (ps_dump_object ps_s_env ps_FAState o) = true).
Proof. exact ps_file_roundtrip_nonvacuous. Qed.

(* non-vacuity of the population theorems: three objects, calls interleaved at times 5..12; the file has a block for
   objects 1 and 2 with versions 9 and 12, none for object 3 (everything restored); after the reload the versions are
   9, 12 and (nothing listed, no state file in this theorem) 0 *)
Example C14_population_nonvacuous :
  let running := ps_pop_run ps_q_fe (ps_pop_cfg ps_v_cfg) ps_v_H in
  (forall c, In c ps_v_cfg -> ps_hist_ok ps_q_fe (ps_c_P c) (ps_c_o0 c) (ps_pop_proj (ps_c_name c) ps_v_H)) /\
  match ps_pop_dump running with
  | Some blocks =>
    map (fun b => (ps_b_name b, length (ps_b_lines b), ps_b_version b)) blocks = [([49], 2%nat, 9%Z); ([50], 2%nat, 12%Z)] /\
    map (fun po => ps_m_version (ps_p_obj po)) (snd (ps_pop_replay ps_q_fe 99%Z blocks (ps_pop_cfg ps_v_cfg))) = [9%Z; 12%Z; 0%Z] /\
    fst (ps_pop_replay ps_q_fe 99%Z blocks (ps_pop_cfg ps_v_cfg)) = true
  | None => False
  end /\
  map (fun po => ps_m_version (ps_p_obj po)) running = [9%Z; 12%Z; 11%Z].
Proof. exact ps_pop_reload_nonvacuous. Qed.
