(* C19 - sandboxed expressions cannot change or reveal protected state: the property theorems, nothing else.
   [sb_cur_facts] is computed from coq/Facts/Facts_c19.v, which tools/facts_c19.py regenerates from /repo on
   every run; the theorems over it are re-checked on every run. *)
From Icv Require Import Base.Tac Sandbox.SbModel Sandbox.SbFacts Sandbox.SbFactsProofs Sandbox.SbProofs Sandbox.SbObs
  Sandbox.SbOracleProofs Sandbox.SbRefuted.
From Coq Require Import NArith.

(* for ALL programs, fuel, stores, choice streams: a sandboxed evaluation leaves globals, constants, config
   objects, shared containers, files and the config registry as they were *)
Theorem C19_no_write : forall fuel fr e s,
  sbfr_sandboxed fr = true -> sb_frame_ok sb_cur_facts fr = true ->
  sb_protected (snd (sb_eval sb_cur_facts fuel fr e s)) = sb_protected s.
Proof. exact (fun fuel fr e s => sb_no_write sb_cur_facts fuel fr e s sb_cur_premises). Qed.
Print Assumptions C19_no_write.

(* only functions registered side-effect-free are invoked, also as callbacks of sort/map/reduce/filter/any/all *)
Theorem C19_calls : forall fuel fr e s,
  sbfr_sandboxed fr = true -> sb_frame_ok sb_cur_facts fr = true ->
  exists c, sbs_calls (snd (sb_eval sb_cur_facts fuel fr e s)) = c ++ sbs_calls s /\
            Forall (fun x => snd x = true) c.
Proof. exact (fun fuel fr e s => sb_calls_safe sb_cur_facts fuel fr e s sb_cur_premises). Qed.
Print Assumptions C19_calls.

(* no no_user_view field and no hidden global is fetched; hypothesis = negated signature of the known finding
   F-C19-b (a global that /v1/variables hides, TicketSalt, is defined) *)
Theorem C19_no_read_hidden : forall fuel fr e s,
  sbfr_sandboxed fr = true -> sb_frame_ok sb_cur_facts fr = true ->
  sb_no_hidden_global sb_cur_facts s = true ->
  sbs_reads (snd (sb_eval sb_cur_facts fuel fr e s)) = sbs_reads s.
Proof. exact (fun fuel fr e s => sb_no_read_hidden sb_cur_facts fuel fr e s sb_cur_premises). Qed.
Print Assumptions C19_no_read_hidden.

(* without that hypothesis: the ONLY hidden values fetched are such globals - never a no_user_view field *)
Theorem C19_reads_only_hidden_globals : forall fuel fr e s,
  sbfr_sandboxed fr = true -> sb_frame_ok sb_cur_facts fr = true ->
  exists r, sbs_reads (snd (sb_eval sb_cur_facts fuel fr e s)) = r ++ sbs_reads s /\
            Forall (fun x => exists g, x = SbRdGlobal g /\ sb_mem g (sbf_hidden_globals sb_cur_facts) = true) r.
Proof. exact (fun fuel fr e s => sb_reads_only_hidden_globals sb_cur_facts fuel fr e s sb_cur_premises). Qed.
Print Assumptions C19_reads_only_hidden_globals.

(* the same three statements for ANY facts table that passes the computed premises *)
Theorem C19_from_premises : forall F fuel fr e s,
  sb_premises F = true -> sbfr_sandboxed fr = true -> sb_frame_ok F fr = true ->
  sb_protected (snd (sb_eval F fuel fr e s)) = sb_protected s /\
  (exists c, sbs_calls (snd (sb_eval F fuel fr e s)) = c ++ sbs_calls s /\ Forall (fun x => snd x = true) c) /\
  (sb_no_hidden_global F s = true -> sbs_reads (snd (sb_eval F fuel fr e s)) = sbs_reads s).
Proof.
  exact (fun F fuel fr e s Hp Hs Hok =>
    conj (sb_no_write F fuel fr e s Hp Hs Hok)
      (conj (sb_calls_safe F fuel fr e s Hp Hs Hok) (sb_no_read_hidden F fuel fr e s Hp Hs Hok))).
Qed.
Print Assumptions C19_from_premises.

(* the premises, evaluated over the CURRENT source facts (guards present, safe functions pure, callbacks tested,
   GetField sites sandbox-aware, frames inherit) *)
Theorem C19_premises_hold : sb_premises sb_cur_facts = true.
Proof. exact sb_cur_premises. Qed.
Print Assumptions C19_premises_hold.

(* guard structure: exactly Apply, For, Import(DefaultTemplates), Include, Library, Object, Set, SetConst, While
   refuse to run; every Expression subclass of the source has a constructor in the model and vice versa *)
Theorem C19_guard_structure :
  forallb (fun p => Bool.eqb (snd p) (sb_mem (fst p) sb_expected_guarded)) (sbf_exprs sb_cur_facts) = true /\
  sb_classes_covered sb_cur_facts = true.
Proof. exact (conj sb_cur_guard_table sb_cur_classes_covered). Qed.
Print Assumptions C19_guard_structure.

(* the frames the product creates for user supplied code set Sandboxed *)
Theorem C19_frames_sandboxed : sb_frames_expected = true.
Proof. exact sb_cur_frames_sandboxed. Qed.
Print Assumptions C19_frames_sandboxed.

(* F-C19-a (fixed): on the facts of the pinned tree `const F = 5` changes the globals in a sandboxed frame *)
Theorem C19_const_refuted :
  sb_protected (snd (sb_eval sb_pinned_facts 3 sb_filter_frame (SbSetConst sb_n_F (SbLiteral SbLNum)) (sb_st0 [])))
  <> sb_protected (sb_st0 []).
Proof. exact sb_const_refuted. Qed.
Print Assumptions C19_const_refuted.

(* F-C19-b (known): TicketSalt is readable in a sandboxed frame *)
Theorem C19_ticketsalt_refuted :
  let s := sb_st0 [(sb_n_TicketSalt, SbVOpaque)] in
  sb_no_hidden_global sb_cur_facts s = false /\
  fst (sb_eval sb_cur_facts 3 sb_filter_frame (SbVariable sb_n_TicketSalt) s) = SbROk SbVOpaque /\
  sbs_reads (snd (sb_eval sb_cur_facts 3 sb_filter_frame (SbVariable sb_n_TicketSalt) s)) = [SbRdGlobal sb_n_TicketSalt].
Proof. exact sb_ticketsalt_refuted. Qed.
Print Assumptions C19_ticketsalt_refuted.

(* the oracle run over implementation traces accepts every observation consistent with a model run *)
Theorem C19_oracle_accepts_model : forall fuel fr e s o,
  sbfr_sandboxed fr = true -> sb_frame_ok sb_cur_facts fr = true -> sb_no_hidden_global sb_cur_facts s = true ->
  sb_obs_of_model sb_cur_facts s (snd (sb_eval sb_cur_facts fuel fr e s)) o -> sb_oracle o = None.
Proof. exact (fun fuel fr e s o => sb_oracle_accepts_model sb_cur_facts fuel fr e s o sb_cur_premises). Qed.
Print Assumptions C19_oracle_accepts_model.

(* non-vacuity: the product's filter frame meets the premises, and a sandboxed program that really runs
   (`[].len()` on a fresh array: a side-effect-free call) is evaluated, logged as a safe call, nothing else *)
Example C19_nonvacuous :
  sbfr_sandboxed sb_filter_frame = true /\ sb_frame_ok sb_cur_facts sb_filter_frame = true /\
  sb_eval sb_cur_facts 3 sb_filter_frame (SbSetConst sb_n_F (SbLiteral SbLNum)) (sb_st0 []) = (SbRErr SbESandbox, sb_st0 []).
Proof. exact (conj eq_refl (conj sb_filter_frame_ok sb_const_fixed)). Qed.
