(* C19 - sandboxed expressions cannot change or reveal protected state: the property theorems, nothing else.
   [sb_cur_facts] is computed from coq/Facts/Facts_c19.v, which tools/facts_c19.py regenerates from /repo on
   every run.  The theorems of the first block are the boolean premises EVALUATED over those facts
   ([eq_refl] checked by the kernel's VM): a source change that removes a guard, registers a non-pure function
   side-effect-free, drops a callback test, ... makes exactly that theorem fail on the next run. *)
From Icv Require Import Base.Tac Sandbox.SbModel Sandbox.SbFacts Sandbox.SbProofs Sandbox.SbObs
  Sandbox.SbOracleProofs Sandbox.SbRefuted Sandbox.SbMember.
From Coq Require Import NArith.

(* ---------------- premises, computed over the current source facts ---------------- *)
(* NO CONDITIONAL GUARDS.  No DoEvaluate begins with a sandbox test that carries a further condition
   (`if (frame.Sandboxed && <cond>) throw`): such a test is not a guard (f_sb_exprs counts only the unconditional form),
   and where the model understands the condition - a flag saying "member of a dictionary literal" - its evaluator lets
   the exempted nodes run (C19_member_guard_refuted).  Also: icinga::BindToScope and the parser's only use of it with
   ScopeThis still have the shape [sb_bind_scope] / [sb_parse_dict] transcribe. *)
Theorem C19_guards_unconditional :
  sb_cur_guard_conds = [] /\ sbf_cond_guards sb_cur_facts = [] /\ sb_cur_bind_scope_facts = true.
Proof.
  exact (conj (@eq_refl (list sb_name) [] <: sb_cur_guard_conds = [])
        (conj (@eq_refl (list (sb_name * sb_gcond)) [] <: sbf_cond_guards sb_cur_facts = [])
              (eq_refl true <: sb_cur_bind_scope_facts = true))).
Qed.
Print Assumptions C19_guards_unconditional.

(* Set, SetConst, Apply, Object, Include, For: DoEvaluate begins with `if (frame.Sandboxed) throw` *)
Theorem C19_all_writers_guarded : sb_all_writers_guarded sb_cur_facts = true.
Proof. exact (eq_refl true <: sb_all_writers_guarded sb_cur_facts = true). Qed.
Print Assumptions C19_all_writers_guarded.

(* PURITY IS A CHECKED FACT.  Every function registered side-effect-free is established pure by the mutation-capability
   analysis of its C++ body (tools/c19_purity.py, regenerated on every run: all definitions of the registered callee
   located; every container/object reachable from a parameter, from `this` / the current frame or through an alias local
   is used through non-modifying operations only or replaced by a clone first; no in-place std::sort/unique, Resize, Set,
   Add, Remove, Clear, std::back_inserter / CopyTo into pre-existing state, write through ->, unknown callee).  A function
   the analysis flags makes this theorem fail. *)
Theorem C19_safe_funcs_harmless : sb_safe_funcs_harmless sb_cur_facts = true.
Proof. exact (eq_refl true <: sb_safe_funcs_harmless sb_cur_facts = true). Qed.
Print Assumptions C19_safe_funcs_harmless.

(* sanity of that analysis on the current tree: every definition of every function registered side-effect-free is located,
   and the same analysis flags all 15 container/object mutators the model knows (Array#add/set/remove/clear/freeze, ...) *)
Theorem C19_safe_bodies_clean :
  sb_safe_bodies_located sb_cur_facts sb_cur_purity_raw = true /\
  sb_analysis_sees_mutators sb_cur_purity_raw sb_container_mutators = true.
Proof.
  exact (conj (eq_refl true <: sb_safe_bodies_located sb_cur_facts sb_cur_purity_raw = true)
              (eq_refl true <: sb_analysis_sees_mutators sb_cur_purity_raw sb_container_mutators = true)).
Qed.
Print Assumptions C19_safe_bodies_clean.

(* the analysis and the reviewed EXPECTED tables agree (sb_pure_names / sb_higher_names are no longer used by the
   semantics): every side-effect-free function is listed, the callback-taking ones are exactly sort/map/reduce/filter/
   any/all, no listed function is flagged; the analysis' self-test passed (19 mutating idioms rejected, the pure idioms
   accepted); the READ methods of Array/Dictionary/Namespace/Reference/Object it relies on are declared const (every
   overload) and their own bodies are clean or on the named trusted list *)
Theorem C19_purity_analysis :
  sb_purity_as_expected sb_cur_facts = true /\ sb_cur_purity_selftest = true /\
  sb_read_methods_ok sb_cur_read_methods = true.
Proof.
  exact (conj (eq_refl true <: sb_purity_as_expected sb_cur_facts = true)
        (conj (eq_refl true <: sb_cur_purity_selftest = true)
              (eq_refl true <: sb_read_methods_ok sb_cur_read_methods = true))).
Qed.
Print Assumptions C19_purity_analysis.

(* every side-effect-free native whose body invokes a Function argument (sort/map/reduce/filter/any/all) tests
   `Sandboxed && !IsSideEffectFree()` in front of the first Invoke *)
Theorem C19_callbacks_guarded : sb_callbacks_guarded sb_cur_facts = true.
Proof. exact (eq_refl true <: sb_callbacks_guarded sb_cur_facts = true). Qed.
Print Assumptions C19_callbacks_guarded.

(* call whitelist in front of the call; all GetField sites pass frame.Sandboxed and GetFieldByName tests
   FANoUserView; Reference::Get reads sandboxed; nested frames inherit Sandboxed; Namespace/Dictionary (the
   Self of every frame) have no hidden field *)
Theorem C19_structural_facts :
  sbf_call_guard sb_cur_facts = true /\ sbf_getfield_checked sb_cur_facts = true /\
  sbf_ref_get_checked sb_cur_facts = true /\ sbf_frame_inherit sb_cur_facts = true /\
  sb_containers_clean sb_cur_facts = true.
Proof.
  exact (conj (eq_refl true <: sbf_call_guard sb_cur_facts = true)
        (conj (eq_refl true <: sbf_getfield_checked sb_cur_facts = true)
        (conj (eq_refl true <: sbf_ref_get_checked sb_cur_facts = true)
        (conj (eq_refl true <: sbf_frame_inherit sb_cur_facts = true)
              (eq_refl true <: sb_containers_clean sb_cur_facts = true))))).
Qed.
Print Assumptions C19_structural_facts.

(* the fields the property names - passwords, the ticket salt - are flagged no_user_view *)
Theorem C19_secrets_hidden : sb_secrets_hidden sb_cur_facts = true.
Proof. exact (eq_refl true <: sb_secrets_hidden sb_cur_facts = true). Qed.
Print Assumptions C19_secrets_hidden.

(* READ PATHS.  Every way the interpreter fetches a name or attribute goes through the accessor that tests no_user_view
   when sandboxed: Indexer, method binding in FunctionCall, GetReference, combined assignment, Import (all GetField call
   sites pass frame.Sandboxed - C19_structural_facts), Reference::Get, and the bare identifier resolved through a `using`
   import (VMOps::FindVarImport -> GetField(parent, name, frame.Sandboxed)).  The ONLY raw accessor (GetOwnField,
   GetField(fid), NavigateField, unsandboxed GetFieldByName) anywhere in expression.cpp / vmops.hpp is GetOwnField on
   frame.Self in VariableExpression::DoEvaluate, which the model has as a raw read (Self is a container, proved). *)
Theorem C19_read_paths :
  sbf_var_import_checked sb_cur_facts = true /\ sb_raw_reads_expected sb_cur_raw_reads = true.
Proof.
  exact (conj (eq_refl true <: sbf_var_import_checked sb_cur_facts = true)
              (eq_refl true <: sb_raw_reads_expected sb_cur_raw_reads = true)).
Qed.
Print Assumptions C19_read_paths.

(* the Sandboxed flag of a frame is set where the frame is set up and nowhere else: no assignment to (or handle on) a member
   named Sandboxed in the interpreter (lib/config), in any native or anywhere else under lib/ than InitializeFrame's inherit
   line and the API/CLI entry points (filterutility, eventqueue, consolehandler, consolecommand) *)
Theorem C19_sandboxed_flag_stable : sb_cur_sandboxed_flag_stable = true.
Proof. exact (eq_refl true <: sb_cur_sandboxed_flag_stable = true). Qed.
Print Assumptions C19_sandboxed_flag_stable.

Theorem C19_premises_hold : sb_premises sb_cur_facts = true.
Proof. exact (eq_refl true <: sb_premises sb_cur_facts = true). Qed.
Print Assumptions C19_premises_hold.

(* guard structure: exactly Apply, For, Import(DefaultTemplates), Include, Library, Object, Set, SetConst, While
   refuse to run; every Expression subclass of the source has a constructor in the model and vice versa *)
Theorem C19_guard_structure :
  forallb (fun p => Bool.eqb (snd p) (sb_mem (fst p) sb_expected_guarded)) (sbf_exprs sb_cur_facts) = true /\
  sb_classes_covered sb_cur_facts = true.
Proof.
  exact (conj (eq_refl true <: forallb (fun p => Bool.eqb (snd p) (sb_mem (fst p) sb_expected_guarded)) (sbf_exprs sb_cur_facts) = true)
              (eq_refl true <: sb_classes_covered sb_cur_facts = true)).
Qed.
Print Assumptions C19_guard_structure.

(* FRAME STACK.  At every place where the product evaluates user supplied code (GetFilterTargets, EventQueue::ProcessEvent,
   EventsFilter::Push, ExecuteScriptHelper) the LAST ScriptFrame constructed is the user's frame with Sandboxed = true
   (console: the request parameter), and FilteredAddTarget / FilterUtility::EvaluateFilter construct none: no unsandboxed
   frame lies above the user's frame while user code runs (callee frames inherit Sandboxed from the stack top). *)
Theorem C19_frames_sandboxed : forall outer : list bool, sb_frames_expected outer = true.
Proof. intros [|[|] outer]; exact (eq_refl true). Qed.
Print Assumptions C19_frames_sandboxed.

(* constructor calls (VMOps::ConstructorCall -> Type::Instantiate): DefaultObjectFactory<T> refuses arguments before `new T()`,
   and DateTime is the only type declared vararg_constructor - the shape the model's ConstructorCall case transcribes *)
Theorem C19_constructor_facts : sb_cur_ctor_shape = true.
Proof. exact (eq_refl true <: sb_cur_ctor_shape = true). Qed.
Print Assumptions C19_constructor_facts.

(* ---------------- the property, for ALL programs, fuel, stores, choice streams ---------------- *)
(* a sandboxed evaluation leaves globals, constants, config objects, shared containers, files, the config
   registry and the process-global singletons as they were; hypothesis [sb_no_global_ctor] = negated signature of the known
   finding `application-dtor-resets-instance` (no script-constructible type has a constructor / destructor that writes a
   static datum unconditionally - regenerated fact f_sb_ctor_global = []; false on a tree where Application::~Application()
   resets m_Instance unconditionally, true once it tests `m_Instance == this`) *)
Theorem C19_no_write : forall fuel fr e s,
  sb_no_global_ctor sb_cur_facts = true ->
  sbfr_sandboxed fr = true -> sbfr_top fr = true -> sb_frame_ok sb_cur_facts fr = true ->
  sb_protected (snd (sb_eval sb_cur_facts fuel fr e s)) = sb_protected s.
Proof. exact (fun fuel fr e s Hc => sb_no_write sb_cur_facts fuel fr e s C19_premises_hold Hc). Qed.
Print Assumptions C19_no_write.

(* WITHOUT that hypothesis (so also on the tree with the finding): the shared heap - globals, constants, config objects,
   containers - is untouched, and the external component grows only by the logged construction of types on the regenerated
   list f_sb_ctor_global; and that list holds nothing but the types of the recorded finding (a newly flagged type breaks this) *)
Theorem C19_writes_only_ctor_effects : forall fuel fr e s,
  sbfr_sandboxed fr = true -> sbfr_top fr = true -> sb_frame_ok sb_cur_facts fr = true ->
  sbs_shared (snd (sb_eval sb_cur_facts fuel fr e s)) = sbs_shared s /\
  exists w, sbs_extern (snd (sb_eval sb_cur_facts fuel fr e s)) = w ++ sbs_extern s /\
            Forall (fun x => sb_mem x sb_known_ctor_global = true) w.
Proof.
  intros fuel fr e s Hs Ht Hok.
  destruct (sb_writes_only_ctor_effects sb_cur_facts fuel fr e s C19_premises_hold Hs Ht Hok) as (A & w & B & W).
  split; [exact A|]. exists w. split; [exact B|]. eapply Forall_impl; [|exact W].
  intros a Ha. assert (forallb (fun x => sb_mem x sb_known_ctor_global) (sbf_ctor_global sb_cur_facts) = true) as K
    by (exact (eq_refl true <: forallb (fun x => sb_mem x sb_known_ctor_global) (sbf_ctor_global sb_cur_facts) = true)).
  rewrite forallb_forall in K. apply K. apply sb_mem_in. exact Ha.
Qed.
Print Assumptions C19_writes_only_ctor_effects.

(* the finding on the model: on facts that flag IcingaApplication the sandboxed filter `IcingaApplication()` evaluates
   normally, leaves every VALUE alone and changes the process-global component; on facts that flag nothing it changes nothing *)
Theorem C19_application_dtor_refuted :
  (let s' := snd (sb_eval (sb_facts_ctor sb_cur_facts [sb_t_IcingaApplication]) 4 sb_filter_frame sb_ctor_prog sb_ctor_st) in
   sbs_extern s' = [sb_t_IcingaApplication] /\ sbs_shared s' = sbs_shared sb_ctor_st /\
   sb_protected s' <> sb_protected sb_ctor_st /\
   (exists v, fst (sb_eval (sb_facts_ctor sb_cur_facts [sb_t_IcingaApplication]) 4 sb_filter_frame sb_ctor_prog sb_ctor_st) = SbROk v) /\
   sb_no_global_ctor (sb_facts_ctor sb_cur_facts [sb_t_IcingaApplication]) = false) /\
  (sb_protected (snd (sb_eval (sb_facts_ctor sb_cur_facts []) 4 sb_filter_frame sb_ctor_prog sb_ctor_st)) = sb_protected sb_ctor_st /\
   sb_no_global_ctor (sb_facts_ctor sb_cur_facts []) = true).
Proof. exact (conj sb_ctor_refuted sb_ctor_fixed). Qed.
Print Assumptions C19_application_dtor_refuted.

(* POSITIONS AND LEFT-HAND SIDES, explicitly.  The statement above is over ALL syntax trees; in particular over what the
   parser builds for a dictionary literal `{ m1; m2; ... }` ([sb_parse_dict]: every member assignment carries the member
   flag, its left-hand side is rebased onto the new dictionary only if its root is a bare identifier or a string
   literal) with ARBITRARY members - assignments with any operator and any left-hand side (globals.x, locals.x, this.x,
   f(..).attr, f(..)[0].vars.k, *ref, ...), at any nesting depth, anywhere inside any expression [ctx] builds around it *)
Theorem C19_no_write_dict_members : forall fuel fr members (ctx : sb_expr -> sb_expr) s,
  sb_no_global_ctor sb_cur_facts = true -> sbfr_sandboxed fr = true -> sbfr_top fr = true -> sb_frame_ok sb_cur_facts fr = true ->
  sb_protected (snd (sb_eval sb_cur_facts fuel fr (ctx (sb_parse_dict members)) s)) = sb_protected s.
Proof. exact (fun fuel fr members ctx s Hc => sb_no_write sb_cur_facts fuel fr (ctx (sb_parse_dict members)) s C19_premises_hold Hc). Qed.
Print Assumptions C19_no_write_dict_members.

(* what BindToScope does to a left-hand side, for all of them: a root that is a bare identifier or a string literal becomes
   `<scope>.<name>`; any other root (a scope, a call, a dereference, an array, a number, ...) leaves the whole left-hand
   side untouched - so the member flag says nothing about where the assignment writes *)
Theorem C19_bind_scope_roots : forall sc lhs,
  (sb_root_rebased lhs = true -> sb_lhs_root (sb_bind_scope sc lhs) = SbGetScope sc) /\
  (sb_root_untouched lhs = true -> sb_bind_scope sc lhs = lhs).
Proof. exact (fun sc lhs => conj (sb_bind_scope_rebases sc lhs) (sb_bind_scope_untouched sc lhs)). Qed.
Print Assumptions C19_bind_scope_roots.

(* sensitivity: on facts where the guard of SetExpression exempts dictionary members (`Sandboxed && !<member flag>`) the
   sandboxed programs `{ globals.X = 42 }`, `{ globals.X += 1 }`, `{ get_object(Host, "h").display_name = "x" }` and
   `{ a = { get_objects(Host)[0].vars.added = true } }` change the global namespace resp. the live Host resp. its custom
   variables, while `{ x = 1 }`, `{ "x" = 1 }`, `{ this.x = 1 }` evaluate and change nothing and the plain statement
   `globals.X = 42` is still refused; such facts fail sb_all_writers_guarded.  On the current facts all are refused. *)
Theorem C19_member_guard_refuted :
  sb_protected (snd (sb_run_member sb_facts_member_exempt (sb_member_prog_global false) [])) <> sb_protected (sb_member_st []) /\
  sb_protected (snd (sb_run_member sb_facts_member_exempt (sb_member_prog_global true) [])) <> sb_protected (sb_member_st []) /\
  (let ch := [sb_ch (SbVObj sb_t_Host (SbShared 1))] in
   nth 1 (sbs_shared (snd (sb_run_member sb_facts_member_exempt sb_member_prog_call ch))) [] <> nth 1 (sbs_shared (sb_member_st ch)) []) /\
  (let ch := [sb_ch (SbVObj sb_t_Array (SbLocal 1))] in
   nth 2 (sbs_shared (snd (sb_run_member sb_facts_member_exempt sb_member_prog_nested ch))) [] <> nth 2 (sbs_shared (sb_member_st ch)) []) /\
  sb_member_local_ok (SbVariable sb_n_x []) /\ sb_member_local_ok (sb_lit sb_n_x) /\
  sb_member_local_ok (SbIndexer (SbGetScope SbScopeThis) (sb_lit sb_n_x)) /\
  fst (sb_run_member sb_facts_member_exempt (SbSet false false (sb_glob sb_n_X) sb_num) []) = SbRErr SbESandbox /\
  sb_all_writers_guarded sb_facts_member_exempt = false /\ sb_premises sb_facts_member_exempt = false.
Proof. exact sb_member_exempt_writes. Qed.
Print Assumptions C19_member_guard_refuted.

Theorem C19_member_current_refused :
  sb_run_member sb_cur_facts (sb_member_prog_global false) [] = (SbRErr SbESandbox, sb_member_refused_st) /\
  sb_run_member sb_cur_facts (sb_member_prog_global true) [] = (SbRErr SbESandbox, sb_member_refused_st) /\
  sb_run_member sb_cur_facts sb_member_prog_call [] = (SbRErr SbESandbox, sb_member_refused_st) /\
  sb_run_member sb_cur_facts sb_member_prog_nested [] = (SbRErr SbESandbox, sb_member_refused_st) /\
  sb_run_member sb_cur_facts (sb_member_prog_local (SbVariable sb_n_x [])) [] = (SbRErr SbESandbox, sb_member_refused_st).
Proof.
  exact (conj (@eq_refl _ (@SbRErr sb_val SbESandbox, sb_member_refused_st) <: sb_run_member sb_cur_facts (sb_member_prog_global false) [] = (SbRErr SbESandbox, sb_member_refused_st))
        (conj (@eq_refl _ (@SbRErr sb_val SbESandbox, sb_member_refused_st) <: sb_run_member sb_cur_facts (sb_member_prog_global true) [] = (SbRErr SbESandbox, sb_member_refused_st))
        (conj (@eq_refl _ (@SbRErr sb_val SbESandbox, sb_member_refused_st) <: sb_run_member sb_cur_facts sb_member_prog_call [] = (SbRErr SbESandbox, sb_member_refused_st))
        (conj (@eq_refl _ (@SbRErr sb_val SbESandbox, sb_member_refused_st) <: sb_run_member sb_cur_facts sb_member_prog_nested [] = (SbRErr SbESandbox, sb_member_refused_st))
              (@eq_refl _ (@SbRErr sb_val SbESandbox, sb_member_refused_st) <: sb_run_member sb_cur_facts (sb_member_prog_local (SbVariable sb_n_x [])) [] = (SbRErr SbESandbox, sb_member_refused_st)))))).
Qed.
Print Assumptions C19_member_current_refused.

(* NATIVES.  Registered side-effect-free => established pure by the regenerated analysis ... *)
Theorem C19_safe_natives_pure : forall nm,
  sb_fun_safe sb_cur_facts (SbNative nm) = true -> sb_native_pure sb_cur_facts nm = true.
Proof. exact (fun nm => sb_safe_native_is_pure sb_cur_facts nm C19_premises_hold). Qed.
Print Assumptions C19_safe_natives_pure.

(* ... a native established pure (no callback) returns a value or raises an error and leaves every shared cell reachable
   from its receiver and arguments unchanged - as well as the rest of the shared heap, the external component, the local
   heap and the hidden-read log; for every store, receiver, argument list and choice stream *)
Theorem C19_pure_native : forall fuel fr nm self args s,
  sb_native_pure sb_cur_facts nm = true -> sb_native_higher sb_cur_facts nm = false -> (nm =? sb_n_ref_get)%N = false ->
  let r := sb_run sb_cur_facts (S fuel) (SbRqInvoke fr (SbNative nm) self args) s in
  ((exists v, fst r = SbROk v) \/ fst r = SbRErr SbEOther) /\
  (forall i, In i (sb_reach s (self :: args)) -> nth i (sbs_shared (snd r)) [] = nth i (sbs_shared s) []) /\
  sbs_shared (snd r) = sbs_shared s /\ sbs_extern (snd r) = sbs_extern s /\ sbs_local (snd r) = sbs_local s /\
  sbs_reads (snd r) = sbs_reads s.
Proof. exact (sb_pure_native sb_cur_facts). Qed.
Print Assumptions C19_pure_native.

(* HIDDEN READS THROUGH NATIVES.  Every accessor fetching a field of a reflected object that a side-effect-free native can
   reach (its own body and the bodies of its callees, resolved by name in lib/base) is GetFieldByName(.., sandboxed = true, ..), which tests
   no_user_view; Reference#get (= Reference::Get, modelled as the same checked read as `*ref`) is refused on a reference to
   a no_user_view field such as ApiUser.password / ApiListener.ticket_salt and fetches nothing *)
Theorem C19_native_read_paths :
  sb_native_reads_checked sb_cur_native_reflect = true /\
  forall fuel fr ty o idx args s, sb_is_hidden sb_cur_facts ty idx = true ->
    let r := sb_run sb_cur_facts (S fuel) (SbRqInvoke fr (SbNative sb_n_ref_get) (SbVRef ty o idx) args) s in
    fst r = SbRErr SbESandbox /\ sbs_reads (snd r) = sbs_reads s /\ sb_protected (snd r) = sb_protected s.
Proof.
  exact (conj (eq_refl true <: sb_native_reads_checked sb_cur_native_reflect = true)
          (fun fuel fr ty o idx args s =>
             sb_reference_get_refused sb_cur_facts fuel fr ty o idx args s
               (eq_refl SbPure <: sb_class_of sb_cur_facts sb_n_ref_get = SbPure)
               (eq_refl true <: sbf_ref_get_checked sb_cur_facts = true)
               (eq_refl true <: sbf_getfield_checked sb_cur_facts = true))).
Qed.
Print Assumptions C19_native_read_paths.

(* ... and every native registered side-effect-free, the callback-taking ones included, leaves every cell reachable from
   receiver and arguments and the whole protected component unchanged when invoked below a sandboxed stack top *)
Theorem C19_safe_native_preserves_reachable : forall fuel fr nm self args s,
  sb_no_global_ctor sb_cur_facts = true -> sbfr_top fr = true -> sb_fun_safe sb_cur_facts (SbNative nm) = true ->
  let s' := snd (sb_run sb_cur_facts fuel (SbRqInvoke fr (SbNative nm) self args) s) in
  (forall i, In i (sb_reach s (self :: args)) -> nth i (sbs_shared s') [] = nth i (sbs_shared s) []) /\
  sb_protected s' = sb_protected s.
Proof. exact (fun fuel fr nm self args s Hc => sb_safe_native_preserves sb_cur_facts fuel fr nm self args s C19_premises_hold Hc). Qed.
Print Assumptions C19_safe_native_preserves_reachable.

(* sensitivity: with the purity fact of System#intersection false (what the analysis reports when the ShallowClone of its
   first argument is dropped) the model lets it write what its arguments reach: `intersection(SbArr, [ 1 ])` in a sandboxed
   frame changes the cell of the global array, and C19_safe_funcs_harmless is false for those facts; with the purity fact
   true the same program changes nothing *)
Theorem C19_impure_native_refuted :
  sb_reach sb_isect_st [SbVObj sb_t_Array (SbShared 1)] = [1%nat] /\
  nth 1 (sbs_shared (snd (sb_eval (sb_facts_impure sb_cur_facts sb_n_intersection) 6 sb_filter_frame sb_isect_prog sb_isect_st))) []
    <> nth 1 (sbs_shared sb_isect_st) [] /\
  sb_safe_funcs_harmless (sb_facts_impure sb_cur_facts sb_n_intersection) = false /\
  sb_protected (snd (sb_eval (sb_facts_purity sb_cur_facts sb_n_intersection true) 6 sb_filter_frame sb_isect_prog sb_isect_st))
    = sb_protected sb_isect_st.
Proof. exact sb_impure_native_writes_reachable. Qed.
Print Assumptions C19_impure_native_refuted.

(* only functions registered side-effect-free are invoked, also as callbacks of sort/map/reduce/filter/any/all *)
Theorem C19_calls : forall fuel fr e s,
  sbfr_sandboxed fr = true -> sbfr_top fr = true -> sb_frame_ok sb_cur_facts fr = true ->
  exists c, sbs_calls (snd (sb_eval sb_cur_facts fuel fr e s)) = c ++ sbs_calls s /\
            Forall (fun x => snd x = true) c.
Proof. exact (fun fuel fr e s => sb_calls_safe sb_cur_facts fuel fr e s C19_premises_hold). Qed.
Print Assumptions C19_calls.

(* no no_user_view field and no hidden global is fetched; hypothesis = negated signature of the known finding
   F-C19-b (a global that /v1/variables hides, TicketSalt, is defined) *)
Theorem C19_no_read_hidden : forall fuel fr e s,
  sbfr_sandboxed fr = true -> sbfr_top fr = true -> sb_frame_ok sb_cur_facts fr = true ->
  sb_no_hidden_global sb_cur_facts s = true ->
  sbs_reads (snd (sb_eval sb_cur_facts fuel fr e s)) = sbs_reads s.
Proof. exact (fun fuel fr e s => sb_no_read_hidden sb_cur_facts fuel fr e s C19_premises_hold). Qed.
Print Assumptions C19_no_read_hidden.

(* without that hypothesis: the ONLY hidden values fetched are such globals - never a no_user_view field *)
Theorem C19_reads_only_hidden_globals : forall fuel fr e s,
  sbfr_sandboxed fr = true -> sbfr_top fr = true -> sb_frame_ok sb_cur_facts fr = true ->
  exists r, sbs_reads (snd (sb_eval sb_cur_facts fuel fr e s)) = r ++ sbs_reads s /\
            Forall (fun x => exists g, x = SbRdGlobal g /\ sb_mem g (sbf_hidden_globals sb_cur_facts) = true) r.
Proof. exact (fun fuel fr e s => sb_reads_only_hidden_globals sb_cur_facts fuel fr e s C19_premises_hold). Qed.
Print Assumptions C19_reads_only_hidden_globals.

(* the same three statements for ANY facts table that passes the computed premises *)
Theorem C19_from_premises : forall F fuel fr e s,
  sb_premises F = true -> sbfr_sandboxed fr = true -> sbfr_top fr = true -> sb_frame_ok F fr = true ->
  (sb_no_global_ctor F = true -> sb_protected (snd (sb_eval F fuel fr e s)) = sb_protected s) /\
  (exists c, sbs_calls (snd (sb_eval F fuel fr e s)) = c ++ sbs_calls s /\ Forall (fun x => snd x = true) c) /\
  (sb_no_hidden_global F s = true -> sbs_reads (snd (sb_eval F fuel fr e s)) = sbs_reads s).
Proof.
  exact (fun F fuel fr e s Hp Hs Ht Hok =>
    conj (fun Hc => sb_no_write F fuel fr e s Hp Hc Hs Ht Hok)
      (conj (sb_calls_safe F fuel fr e s Hp Hs Ht Hok) (sb_no_read_hidden F fuel fr e s Hp Hs Ht Hok))).
Qed.
Print Assumptions C19_from_premises.

(* every frame the evaluator itself pushes (Function::Invoke, NamespaceExpression) above a sandboxed stack top is again
   sandboxed, is its own stack top and has a container as Self: the invariant the induction carries *)
Theorem C19_nested_frames_sandboxed : forall fr self locals,
  sbfr_top fr = true ->
  match self with SbVObj ty _ => sb_type_clean sb_cur_facts ty = true | _ => True end ->
  match locals with Some (SbVObj ty _) => sb_type_clean sb_cur_facts ty = true | _ => True end ->
  sb_fr_good sb_cur_facts (sb_sub_frame sb_cur_facts fr self locals).
Proof. exact (sb_sub_frame_good sb_cur_facts C19_premises_hold). Qed.
Print Assumptions C19_nested_frames_sandboxed.

(* both hypotheses are needed (sensitivity): a FindVarImport that reads through GetOwnField leaks
   `using <ApiUser>; password`; an unsandboxed frame above the user's frame lets `[x].map(<unsafe native>)` write *)
Theorem C19_hypotheses_needed :
  sbs_reads (snd (sb_eval (sb_facts_import_unchecked sb_cur_facts) 4 sb_filter_frame sb_using_prog sb_using_st))
    = [SbRdField sb_t_ApiUser sb_n_password] /\
  sb_protected (snd (sb_eval sb_cur_facts 6 sb_below_frame sb_stack_prog sb_stack_st)) <> sb_protected sb_stack_st.
Proof. exact (conj sb_using_unchecked_leaks sb_stack_unsandboxed_top_writes). Qed.
Print Assumptions C19_hypotheses_needed.

(* ---------------- findings ---------------- *)
(* F-C19-a (fixed): on the facts of the pinned tree (SetConstExpression::DoEvaluate without guard) the sandboxed
   program `const F = 5` changes the global namespace ... *)
Theorem C19_const_refuted :
  sb_protected (snd (sb_eval sb_pinned_facts 3 sb_filter_frame (SbSetConst sb_n_F (SbLiteral SbLNum)) (sb_st0 [])))
  <> sb_protected (sb_st0 []).
Proof. exact sb_const_refuted. Qed.
Print Assumptions C19_const_refuted.

(* ... and on the current facts it is refused and nothing changes *)
Theorem C19_const_fixed :
  sb_eval sb_cur_facts 3 sb_filter_frame (SbSetConst sb_n_F (SbLiteral SbLNum)) (sb_st0 [])
  = (SbRErr SbESandbox, sb_st0 []).
Proof. exact (@eq_refl _ (@SbRErr sb_val SbESandbox, sb_st0 []) <: sb_eval sb_cur_facts 3 sb_filter_frame (SbSetConst sb_n_F (SbLiteral SbLNum)) (sb_st0 []) = (SbRErr SbESandbox, sb_st0 [])). Qed.
Print Assumptions C19_const_fixed.

(* F-C19-b (known): TicketSalt is readable in a sandboxed frame *)
Theorem C19_ticketsalt_refuted :
  let s := sb_st0 [(sb_n_TicketSalt, SbVOpaque)] in
  sb_no_hidden_global sb_cur_facts s = false /\
  fst (sb_eval sb_cur_facts 3 sb_filter_frame (SbVariable sb_n_TicketSalt []) s) = SbROk SbVOpaque /\
  sbs_reads (snd (sb_eval sb_cur_facts 3 sb_filter_frame (SbVariable sb_n_TicketSalt []) s)) = [SbRdGlobal sb_n_TicketSalt].
Proof.
  exact (conj (@eq_refl _ false <: sb_no_hidden_global sb_cur_facts (sb_st0 [(sb_n_TicketSalt, SbVOpaque)]) = false)
        (conj (@eq_refl _ (SbROk SbVOpaque) <: fst (sb_eval sb_cur_facts 3 sb_filter_frame (SbVariable sb_n_TicketSalt []) (sb_st0 [(sb_n_TicketSalt, SbVOpaque)])) = SbROk SbVOpaque)
              (@eq_refl _ [SbRdGlobal sb_n_TicketSalt] <: sbs_reads (snd (sb_eval sb_cur_facts 3 sb_filter_frame (SbVariable sb_n_TicketSalt []) (sb_st0 [(sb_n_TicketSalt, SbVOpaque)]))) = [SbRdGlobal sb_n_TicketSalt]))).
Qed.
Print Assumptions C19_ticketsalt_refuted.

(* F-C19-c (known): a console handler that serialises the result with all fields (Serialize(result, 0)) hands back
   the password of an ApiUser that the sandboxed expression merely returned; one that leaves out no_user_view fields
   (repo_patches/C19-console-serialize-hidden.diff) hands back no hidden value *)
Theorem C19_console_refuted :
  In (SbRdField sb_t_ApiUser sb_n_password)
     (sb_console_result sb_cur_facts true (SbVObj sb_t_ApiUser (SbShared 1))) /\
  (forall F v, sb_console_result F false v = []).
Proof. exact (conj sb_console_refuted sb_console_filtered). Qed.
Print Assumptions C19_console_refuted.

(* the oracle run over implementation traces accepts every observation consistent with a model run *)
Theorem C19_oracle_accepts_model : forall fuel fr e s o,
  sbfr_sandboxed fr = true -> sbfr_top fr = true -> sb_frame_ok sb_cur_facts fr = true -> sb_no_hidden_global sb_cur_facts s = true ->
  sb_no_global_ctor sb_cur_facts = true ->
  sb_obs_of_model sb_cur_facts s (snd (sb_eval sb_cur_facts fuel fr e s)) o -> sb_oracle o = None.
Proof. exact (fun fuel fr e s o => sb_oracle_accepts_model sb_cur_facts fuel fr e s o C19_premises_hold). Qed.
Print Assumptions C19_oracle_accepts_model.

(* non-vacuity: the frame FilterUtility/EventQueue create meets the premises of the theorems *)
Example C19_nonvacuous :
  sbfr_sandboxed sb_filter_frame = true /\ sbfr_top sb_filter_frame = true /\
  sb_frame_ok sb_cur_facts sb_filter_frame = true /\
  sb_no_hidden_global sb_cur_facts (sb_st0 []) = true.
Proof. vm_compute. repeat split; reflexivity. Qed.
