(* C03 - theorems over the functions TRANSLATED from /repo on every run (tools/cxx2coq.py -> coq/Facts/Facts_fn_*.v).
   Each theorem is guarded by `src_<fn>_recognised = true`: a C++ shape outside the translator's subset leaves it
   trivially true (logged as "xlate: ... not recognised", tie by the correspondence run only); a recognised shape that no
   longer equals the model breaks the proof in coq/Src and with it this file.  Only `exact` + Print Assumptions here. *)
From Icv Require Import Base.Tac Src.XlPrelude Notif.NfModel Facts.Facts_enums Facts.Facts_fn_ck Facts.Facts_fn_notif Src.SrcNotif.
Local Open Scope Z_scope.

Theorem C03_src_user_filters : src_notification_check_user_filters_recognised = true ->
  forall c x ty force reminder u has_p inside,
    0 <= cx_raw x <= 3 -> nfu_per_closed u = has_p && negb inside ->
    src_notification_check_user_filters (nf_type_bit ty) force reminder has_p inside (nfu_types u) (nfc_svc c)
      (nf_api_state (nfc_svc c) (cx_raw x)) (nfu_states u)
    = nf_user_filters c x ty force u.
Proof. exact src_notification_check_user_filters_eq. Qed.
Print Assumptions C03_src_user_filters.

Theorem C03_src_service_state_to_filter : src_service_state_to_filter_recognised = true ->
  forall raw, 0 <= raw <= 3 -> src_service_state_to_filter raw = nf_state_bit true raw.
Proof. exact src_service_state_to_filter_eq. Qed.
Print Assumptions C03_src_service_state_to_filter.

Theorem C03_src_host_state_to_filter : src_host_state_to_filter_recognised = true ->
  forall raw, src_host_state_to_filter (nf_api_state false raw) = nf_state_bit false raw.
Proof. exact src_host_state_to_filter_eq. Qed.
Print Assumptions C03_src_host_state_to_filter.

Theorem C03_src_reason_applies : src_checkable_notification_reason_applies_recognised = true ->
  forall x ty is_host cr_state,
    cx_cr_ok x = src_checkable_is_state_ok is_host cr_state ->
    src_checkable_notification_reason_applies (nf_type_bit ty) is_host (cx_has_cr x) cr_state (cx_flapping x)
    = nf_reason_applies x ty.
Proof. exact src_checkable_notification_reason_applies_nf. Qed.
Print Assumptions C03_src_reason_applies.

Theorem C03_src_reason_suppressed : src_checkable_notification_reason_suppressed_recognised = true ->
  forall x ty,
    src_checkable_notification_reason_suppressed (nf_type_bit ty) (cx_reachable x) (cx_downtime x) (cx_acked x)
    = nf_reason_suppressed x ty.
Proof. exact src_checkable_notification_reason_suppressed_nf. Qed.
Print Assumptions C03_src_reason_suppressed.

Example C03_src_nonvacuous : src_notification_check_user_filters_recognised = true -> src_notification_check_user_filters 32 false false false true 32 true 2 4 = true /\ src_notification_check_user_filters 32 false false false true 32 true 2 3 = false.
Proof. intro H; xl_rec H. all: repeat split; vm_compute; reflexivity. Qed.


(* ---------------------------------------------------------------------------------------------------------------------
   Round 2 (notes/XLATE.md section 8): regions of Notification::BeginExecuteNotification and the reminder part of
   NotificationComponent::NotificationTimerHandler as translated from /repo on this run (coq/Facts/Facts_fn_begin.v).
   A region that can be left early by return/continue yields `left early?` first. *)
From Icv Require Import Facts.Facts_fn_begin Src.SrcBegin.

(* the notification-level filters (period with stashing, times window, type filter, state filter): the region returns
   exactly when nf_pre stops the call, and has then written what nf_begin writes; nobody is notified *)
Theorem C03_src_begin_gate : src_begin_gate_recognised = true -> src_service_state_to_filter_recognised = true ->
  src_host_state_to_filter_recognised = true ->
  forall c now x ty force reminder s has_p inside,
    0 <= cx_raw x <= 3 -> cx_per_closed x = has_p && negb inside ->
    let '(lft, supp, next, nomore, evs) :=
      src_begin_gate (nf_type_bit ty) force reminder has_p inside now true (xb_some (nfc_begin c)) (nf_opt_val (nfc_begin c))
        (xb_some (nfc_end c)) (nf_opt_val (nfc_end c)) (cx_lhsc x) (nfc_types c) (nfc_interval c) (nfc_svc c)
        (nf_api_state (nfc_svc c) (cx_raw x)) (nfc_states c) (nf_supp_mask (nf_sup s)) (nf_next s) (nf_nomore s) in
    let r := nf_begin c now x ty force reminder s in
    lft = negb (xb_gate_eqb (nf_pre c now x ty force) NfGo) /\
    (lft = true ->
       nf_supp_mask (nf_sup (fst r)) = supp /\ nf_next (fst r) = next /\ nf_nomore (fst r) = nomore /\
       nf_npu (fst r) = (match evs with [] => nf_npu s | _ => [] end) /\ ne_reached (snd r) = false /\ ne_sent (snd r) = []).
Proof. exact src_begin_gate_nf_begin. Qed.
Print Assumptions C03_src_begin_gate.

(* the bookkeeping block = what the NfGo branch of nf_begin writes (xb_begin_go states the same right-hand sides for nf_begin) *)
Theorem C03_src_begin_bookkeeping : src_begin_bookkeeping_recognised = true ->
  forall c now ty s0,
    src_begin_bookkeeping (nf_type_bit ty) now (nfc_interval c) (nf_next s0) (nf_nomore s0) (nf_last s0) (nf_last_problem s0)
    = (let isp := nf_type_eqb ty NfProblem in
       (if isp && (0 <? nfc_interval c) then now + nfc_interval c else nf_next s0,
        if isp && (nfc_interval c <=? 0) then true else if negb (nf_type_eqb ty NfCustom) then false else nf_nomore s0,
        now, if isp then now else nf_last_problem s0, [XbNumber])).
Proof. exact src_begin_bookkeeping_eq. Qed.
Print Assumptions C03_src_begin_bookkeeping.

Theorem C03_src_begin_go_model : forall c now x ty force reminder s,
  nf_pre c now x ty force = NfGo ->
  let s0 := if nf_type_eqb ty NfRecovery then nf_set_lns s [] else s in
  let s' := fst (nf_begin c now x ty force reminder s) in
  let isp := nf_type_eqb ty NfProblem in
  nf_next s' = (if isp && (0 <? nfc_interval c) then now + nfc_interval c else nf_next s0) /\
  nf_nomore s' = (if isp && (nfc_interval c <=? 0) then true else if negb (nf_type_eqb ty NfCustom) then false else nf_nomore s0) /\
  nf_last s' = now /\ nf_last_problem s' = (if isp then now else nf_last_problem s0) /\ nf_number s' = nf_number s0 + 1 /\
  ne_reached (snd (nf_begin c now x ty force reminder s)) = true.
Proof. exact xb_begin_go. Qed.
Print Assumptions C03_src_begin_go_model.

(* one iteration of the per-user loop (enable_notifications, user filters, the Recovery / Acknowledgement "was notified of
   the problem" rule, the duplicate-state rule): left by `continue` exactly when nf_user_sends says the user gets nothing *)
Theorem C03_src_begin_user : src_begin_user_skipped_recognised = true -> src_notification_check_user_filters_recognised = true ->
  forall c x ty force reminder npu lns u has_p inside,
    0 <= cx_raw x <= 3 -> nfu_per_closed u = has_p && negb inside ->
    src_begin_user_skipped (nf_type_bit ty) force reminder (nfu_enable u) has_p inside (nfu_types u) (nfc_svc c)
      (nf_api_state (nfc_svc c) (cx_raw x)) (nfu_states u) (nf_mem (nfu_id u) npu) (cx_volatile x) (nf_lns_get (nfu_id u) lns)
    = negb (nf_user_sends c x ty force reminder npu lns u).
Proof. exact src_begin_user_skipped_eq. Qed.
Print Assumptions C03_src_begin_user.

(* the reminder conditions of the timer handler = nf_tick_rem (both reads of the clock see the same instant) *)
Theorem C03_src_timer_reminder : src_timer_reminder_skipped_recognised = true ->
  forall c now x s ck_supp,
    negb (Z.land ck_supp 32 =? 0) = cx_ck_supp_problem x ->
    let '(skipped, next) :=
      src_timer_reminder_skipped now now (nfc_interval c) (nf_nomore s) (nf_next s) (if cx_hard x then f_StateTypeHard else f_StateTypeSoft)
        (nfc_svc c) (nf_api_state (nfc_svc c) (cx_raw x)) ck_supp (nf_supp_mask (nf_sup s)) (cx_reachable x) (cx_downtime x)
        (cx_acked x) (cx_flapping x) in
    nf_tick_rem c now x s =
    if skipped then (nf_set_next s next, [])
    else let '(s2, e) := nf_begin c now x NfProblem false true (nf_set_next s next) in (s2, [NfEvExec e]).
Proof. exact src_timer_reminder_skipped_eq. Qed.
Print Assumptions C03_src_timer_reminder.

Example C03_src_round2_nonvacuous : src_begin_gate_recognised = true -> src_begin_user_skipped_recognised = true ->
  (* a Problem outside the notification's period is stashed; a Recovery for a user who never saw the problem is skipped *)
  src_begin_gate 32 false false true false 100 true false 0 false 0 0 96 0 true 2 15 0 7 false = (true, 32, 7, false, []) /\
  src_begin_user_skipped 64 false false true false false 96 true 0 15 false false 0 = true /\
  src_begin_user_skipped 64 false false true false false 96 true 0 15 true false 0 = false.
Proof. intros H1 H2; xl_rec H1; xl_rec H2. all: repeat split; vm_compute; reflexivity. Qed.
