(* C03 - theorems over the functions TRANSLATED from /repo on every run (tools/cxx2coq.py -> coq/Facts/Facts_fn_*.v).
   Each theorem is guarded by `src_<fn>_recognised = true`: a C++ shape outside the translator's subset leaves it
   trivially true (logged as "xlate: ... not recognised", tie by the correspondence run only); a recognised shape that no
   longer equals the model breaks the proof in coq/Src and with it this file.  Only `exact` + Print Assumptions here. *)
From Icv Require Import Base.Tac Src.XlPrelude Notif.NfModel Facts.Facts_enums Facts.Facts_fn_ck Facts.Facts_fn_notif Src.SrcNotif.
Local Open Scope Z_scope.

Theorem C03_src_user_filters : src_notification_check_user_filters_recognised = true ->
  forall c x ty force reminder u has_p inside,
    0 <= cx_raw x <= 3 -> nfu_per_closed u = has_p && negb inside ->
    src_notification_check_user_filters (nf_type_bit ty) force reminder has_p inside (nfu_types u) (nfc_svc c)
      (nf_api_state (nfc_svc c) (cx_raw x)) (nfu_states u)
    = nf_user_filters c x ty force u.
Proof. exact src_notification_check_user_filters_eq. Qed.
Print Assumptions C03_src_user_filters.

Theorem C03_src_service_state_to_filter : src_service_state_to_filter_recognised = true ->
  forall raw, 0 <= raw <= 3 -> src_service_state_to_filter raw = nf_state_bit true raw.
Proof. exact src_service_state_to_filter_eq. Qed.
Print Assumptions C03_src_service_state_to_filter.

Theorem C03_src_host_state_to_filter : src_host_state_to_filter_recognised = true ->
  forall raw, src_host_state_to_filter (nf_api_state false raw) = nf_state_bit false raw.
Proof. exact src_host_state_to_filter_eq. Qed.
Print Assumptions C03_src_host_state_to_filter.

Theorem C03_src_reason_applies : src_checkable_notification_reason_applies_recognised = true ->
  forall x ty is_host cr_state,
    cx_cr_ok x = src_checkable_is_state_ok is_host cr_state ->
    src_checkable_notification_reason_applies (nf_type_bit ty) is_host (cx_has_cr x) cr_state (cx_flapping x)
    = nf_reason_applies x ty.
Proof. exact src_checkable_notification_reason_applies_nf. Qed.
Print Assumptions C03_src_reason_applies.

Theorem C03_src_reason_suppressed : src_checkable_notification_reason_suppressed_recognised = true ->
  forall x ty,
    src_checkable_notification_reason_suppressed (nf_type_bit ty) (cx_reachable x) (cx_downtime x) (cx_acked x)
    = nf_reason_suppressed x ty.
Proof. exact src_checkable_notification_reason_suppressed_nf. Qed.
Print Assumptions C03_src_reason_suppressed.

Example C03_src_nonvacuous : src_notification_check_user_filters_recognised = true -> src_notification_check_user_filters 32 false false false true 32 true 2 4 = true /\ src_notification_check_user_filters 32 false false false true 32 true 2 3 = false.
Proof. intro H; xl_rec H. all: repeat split; vm_compute; reflexivity. Qed.

