(* C18 - the property theorems, nothing else.  Each is closed by [exact] of a lemma proved in Perm/*.v and
   followed by Print Assumptions.  Model: Perm/PmModel.v.  A filter frame's namespace [ns] is explicit:
   [pm_bind ns o] is EvaluateFilter's binding step (obj, the type variable, EVERY navigation field - value or
   null), [pm_eval fv ns f] reads only [ns]; [pm_eval_opt pf o] = the filter on the object alone (bound into an
   empty namespace), which is what the statement means by "the filter is true of the object".
   Free names of a filter (names EvaluateFilter does not bind) are resolved in an explicit environment: the global
   constants [G] for the permission filter, filter_vars ++ G for the user's filter; [G] is universally quantified.
   Companion file Properties_C18_indep.v: independence of the permission filter from the request, the join caches.
   Finding F-C18-a (stale `service` in the shared permission frame) is fixed in /repo (053695b + 17a75cd: the
   namespace is replaced per by-name type iteration and before the filter phase); the model transcribes the
   fixed code and no theorem carries a finding hypothesis any more. *)
From Icv Require Import Base.Tac Perm.PmModel Perm.PmProofs Perm.PmJoins Perm.PmObs Perm.PmOracleProofs Perm.PmFacts.
Local Open Scope Z_scope.

(* matcher correctness: Utility::Match's model = the declarative glob relation; case of the text is irrelevant *)
Theorem C18_match_correct : forall pat text, pm_match pat text = true <-> pm_glob (pm_tokens pat) text.
Proof. exact pm_match_correct. Qed.
Print Assumptions C18_match_correct.

Theorem C18_match_case_insensitive : forall pat text, pm_match pat (pm_lower text) = pm_match pat text.
Proof. exact pm_match_case_insensitive. Qed.
Print Assumptions C18_match_case_insensitive.

(* HasPermission = "some entry matches"; granted + combined filter true of o  ==>  some matching entry whose own
   filter, if it has one, is true of o *)
Theorem C18_has_permission : forall u perm, fst (pm_has_permission u perm) = pm_spec_has u perm.
Proof. exact pm_spec_has_correct. Qed.
Print Assumptions C18_has_permission.

Theorem C18_combined_filter : forall G u perm pf o,
  perm <> [] -> pm_check_permission u perm = Some pf -> pm_eval_opt G pf o = PmT ->
  pm_spec_allow G u perm o = true.
Proof. exact pm_granted_allow. Qed.
Print Assumptions C18_combined_filter.

(* EvaluateFilter's binding step leaves a frame that depends on the current target only: in a namespace that was
   used for targets of one type (what GetFilterTargets guarantees since 053695b + 17a75cd), every variable reads
   the same after binding o as in a fresh namespace - nothing of an earlier target survives, null references
   included.  only_permitted / by_name_denied / paths_agree below are derived from this, not from an assumption. *)
Theorem C18_frame_depends_on_target_only : forall ns o,
  pm_ns_typed (po_type o) ns -> forall v, pm_ns_get (pm_bind ns o) v = pm_ns_get (pm_bind [] o) v.
Proof. exact pm_frame_depends_on_target_only. Qed.
Print Assumptions C18_frame_depends_on_target_only.

(* only permitted objects are returned - for all permission lists, queries, inventories, both providers *)
Theorem C18_only_permitted : forall G fast u perm tys q inv objs c,
  perm <> [] ->
  pm_filter_targets G fast u perm tys q inv = (c, PmOk objs) ->
  forall o, In o objs -> In o inv /\ pm_spec_allow G u perm o = true.
Proof. exact pm_only_permitted. Qed.
Print Assumptions C18_only_permitted.

(* the same in terms of the code's combined filter: it is true of every returned object, evaluated on that
   object alone (no variable left over from another target) *)
Theorem C18_only_permitted_filter : forall G fast u perm tys q inv objs c,
  pm_filter_targets G fast u perm tys q inv = (c, PmOk objs) ->
  exists pf, pm_check_permission u perm = Some pf /\ forall o, In o objs -> In o inv /\ pm_eval_opt G pf o = PmT.
Proof. exact pm_only_permitted_clean. Qed.
Print Assumptions C18_only_permitted_filter.

(* no matching entry: the call fails with "Missing permission" and no object was consulted *)
Theorem C18_reject_first : forall G fast u perm tys q inv,
  perm <> [] -> (forall e, In e u -> pm_match (pm_lower (pe_perm e)) (pm_lower perm) = false) ->
  pm_filter_targets G fast u perm tys q inv = (false, PmErr PmErrPerm).
Proof. exact pm_reject_first. Qed.
Print Assumptions C18_reject_first.

(* an object addressed by name (single or in a list) that the permission filter does not accept: error, no objects *)
Theorem C18_by_name_denied : forall G fast u perm tys q inv t n o pf,
  In t tys -> pm_names q t n -> pm_lookup inv t n = Some o ->
  pm_check_permission u perm = Some pf -> pm_eval_opt G pf o <> PmT ->
  exists c e, pm_filter_targets G fast u perm tys q inv = (c, PmErr e).
Proof. exact pm_by_name_denied. Qed.
Print Assumptions C18_by_name_denied.

(* by name, by one-element list, by type (+ user filter), by the fast path for hosts and for services
   (host.name == H && service.name == S in either order): the same objects for the same user *)
Theorem C18_paths_agree : forall G u perm inv o pf,
  pm_check_permission u perm = Some pf -> pm_lookup inv (po_type o) (po_name o) = Some o ->
  (forall fast, snd (pm_filter_targets G fast u perm [po_type o] (pm_q_by_name (po_type o) (po_name o)) inv) = PmOk [o]
                <-> pm_eval_opt G pf o = PmT) /\
  (forall fast, snd (pm_filter_targets G fast u perm [po_type o] (pm_q_by_list (po_type o) (po_name o)) inv) = PmOk [o]
                <-> pm_eval_opt G pf o = PmT) /\
  (forall uf fv objs, snd (pm_filter_targets G false u perm [po_type o] (pm_q_by_type (po_type o) uf fv) inv) = PmOk objs ->
                (In o objs <-> pm_eval_opt G pf o = PmT /\ pm_ueval G fv uf o = PmT)) /\
  (forall objs, po_type o = PmHost ->
                snd (pm_filter_targets G true u perm [po_type o] (pm_q_by_type (po_type o) (Some (PmFName PmScHost (po_name o))) []) inv) = PmOk objs ->
                (In o objs <-> pm_eval_opt G pf o = PmT)) /\
  (forall objs (swap : bool), po_type o = PmService -> po_name o = po_host o ++ [33] ++ po_short o ->
                snd (pm_filter_targets G true u perm [po_type o]
                       (pm_q_by_type (po_type o)
                          (Some (if swap then PmFAnd (PmFName PmScService (po_short o)) (PmFName PmScHost (po_host o))
                                 else PmFAnd (PmFName PmScHost (po_host o)) (PmFName PmScService (po_short o)))) []) inv) = PmOk objs ->
                (In o objs <-> pm_eval_opt G pf o = PmT)).
Proof. exact pm_paths_agree. Qed.
Print Assumptions C18_paths_agree.

(* joins: a joined object (a host, or a CheckCommand / TimePeriod / EventCommand / Endpoint the fragment knows by type
   and name) is serialised only if objects/query/<its type> is granted and the filter of THAT permission allows it;
   the loop with its two per-request caches is in Properties_C18_indep.v *)
Theorem C18_join_only_permitted : forall G u j, pm_join_visible G u j = true -> pm_spec_allow_j G u j = true.
Proof. exact pm_join_only_permitted. Qed.
Print Assumptions C18_join_only_permitted.

(* the executable oracle run over implementation observations never fires on what the model produces *)
Theorem C18_oracle_accepts_model : forall G prov fast u perm tys q inv,
  perm <> [] -> pm_inv_wf inv ->
  pm_oracle_q G u perm tys q inv
    (pm_observe prov (fst (pm_has_permission u perm)) (pm_filter_targets G fast u perm tys q inv)) = true.
Proof. exact pm_oracle_accepts_model. Qed.
Print Assumptions C18_oracle_accepts_model.

(* model constants = what the source says now (regenerated facts; None = not recognised = compared only) *)
Theorem C18_source_facts :
  pm_prefix_ok Facts_c18.f_pm_query_prefix pm_query_prefix /\ pm_guard_ok Facts_c18.f_pm_query_guard /\
  pm_prefix_ok Facts_c18.f_pm_modify_prefix pm_modify_prefix /\ pm_guard_ok Facts_c18.f_pm_modify_guard /\
  pm_prefix_ok Facts_c18.f_pm_delete_prefix pm_delete_prefix /\ pm_guard_ok Facts_c18.f_pm_delete_guard /\
  pm_prefix_ok Facts_c18.f_pm_actions_prefix pm_actions_prefix /\ pm_guard_ok Facts_c18.f_pm_actions_guard /\
  pm_prefix_ok Facts_c18.f_pm_join_prefix pm_query_prefix /\ pm_guard_ok Facts_c18.f_pm_join_guard /\
  pm_navs_ok Facts_c18.f_pm_nav_host PmHost /\ pm_navs_ok Facts_c18.f_pm_nav_service PmService /\
  pm_guard_ok Facts_c18.f_pm_bind_guard /\
  (* the permission frame's namespace is a `new Namespace()` only EvaluateFilter writes to; filter_vars go to the user's frame *)
  pm_guard_ok Facts_c18.f_pm_perm_ns_private /\
  (* the join caches are keyed by object identity resp. type identity; joinAttrs is an ordered set *)
  pm_guard_ok Facts_c18.f_pm_join_cache_by_identity /\ pm_guard_ok Facts_c18.f_pm_join_type_cache_by_identity /\
  pm_guard_ok Facts_c18.f_pm_join_attrs_sorted.
Proof. exact pm_source_facts. Qed.
Print Assumptions C18_source_facts.

(* non-vacuity: a user with two matching entries (one filtered), a query by name that is allowed, one denied *)
Example C18_nonvacuous :
  let h := {| po_type := PmHost; po_name := [104]; po_short := [104]; po_host := [104]; po_vars := [([111], [108])]; po_hvars := [([111], [108])];
             po_cc := Some [99]; po_cp := None; po_ec := None; po_ce := Some [101] |} in
  let w := {| po_type := PmHost; po_name := [119]; po_short := [119]; po_host := [119]; po_vars := []; po_hvars := [];
             po_cc := Some [99]; po_cp := None; po_ec := None; po_ce := None |} in
  let u := [ {| pe_perm := [42]; pe_filter := None |};
             {| pe_perm := [79;66;74;69;67;84;83;47;42]; pe_filter := Some (PmFName (PmScNav PmNCommandEndpoint) [101]) |} ] in
  let perm := pm_query_perm PmHost in
  pm_check_permission u perm = Some (Some (PmFName (PmScNav PmNCommandEndpoint) [101])) /\
  pm_filter_targets [] true u perm [PmHost] (pm_q_by_name PmHost [104]) [h; w] = (true, PmOk [h]) /\
  pm_filter_targets [] true u perm [PmHost] (pm_q_by_name PmHost [119]) [h; w] = (true, PmErr PmErrDenied) /\
  pm_filter_targets [] true u perm [PmHost] (pm_q_by_type PmHost None []) [h; w] = (true, PmOk [h]).
Proof. vm_compute. repeat split. Qed.
