(* C07 - a configuration load committed in several rounds (plain objects, apply-rule instances, ...)
   and runtime additions: whatever the batching, the load is rejected iff the union of the old graph
   and all new dependencies (with the implicit service->host edges) has a cycle. *)
From Coq Require Import Relations.
From Icv Require Import Base.Tac Dep.DgModel Dep.DgCycleProofs.

(* the edge relation only depends on which dependencies are present, not where they are stored *)
Lemma dg_E_mem g1 ex1 g2 ex2 :
  dgg_svc g1 = dgg_svc g2 ->
  (forall d, In d (dgg_deps g1) \/ In d ex1 -> In d (dgg_deps g2) \/ In d ex2) ->
  forall x y, dg_E g1 ex1 x y -> dg_E g2 ex2 x y.
Proof.
  intros Hsvc Hin x y (e & He & Hd). exists e. split; [|exact Hd].
  apply dg_out_edges_in in He. apply dg_out_edges_in.
  destruct He as [(h & Hh & ->)|(d & -> & Hc & Hm)].
  - left. exists h. unfold dg_host_of in *. rewrite <- Hsvc. auto.
  - right. exists d. auto.
Qed.

Lemma dg_acyclic_mem g1 ex1 g2 ex2 :
  dgg_svc g1 = dgg_svc g2 ->
  (forall d, In d (dgg_deps g1) \/ In d ex1 -> In d (dgg_deps g2) \/ In d ex2) ->
  dg_acyclic g2 ex2 -> dg_acyclic g1 ex1.
Proof.
  intros Hsvc Hin Hac x Hx. apply (Hac x). revert Hx. apply dg_ct_mono.
  apply dg_E_mem; assumption.
Qed.

Definition dg_linv (g0 : dg_graph) (done : list dg_dep) (l : dg_lstate) : Prop :=
  dgg_svc (dgl_g l) = dgg_svc g0 /\
  forall d, In d (dgl_pending l) \/ In d (dgg_deps (dgl_g l)) <-> In d (dgg_deps g0) \/ In d done.

Lemma dg_filter_split {A} (p : A -> bool) l x :
  In x (filter p l) \/ In x (filter (fun y => negb (p y)) l) <-> In x l.
Proof. rewrite !filter_In. destruct (p x); cbn; intuition congruence. Qed.

Lemma dg_lbatches_spec started g0 : forall bs l done,
  dg_linv g0 done l -> dg_acyclic g0 done ->
  match dg_lbatches started l bs with
  | Some l' => dg_linv g0 (done ++ concat bs) l' /\ dg_acyclic g0 (done ++ concat bs)
  | None => ~ dg_acyclic g0 (done ++ concat bs)
  end.
Proof.
  induction bs as [|b r IH]; intros l done Hinv Hac; cbn [dg_lbatches concat].
  - rewrite app_nil_r. split; assumption.
  - destruct Hinv as [Hsvc Hmem].
    assert (dg_acyclic (dg_lview l) []) as Hv.
    { apply (dg_acyclic_mem _ _ g0 done); [exact Hsvc| |exact Hac].
      intros d [Hd|[]]. cbn in Hd. apply in_app_iff in Hd. apply Hmem. tauto. }
    assert (dg_acyclic (dg_lview l) b <-> dg_acyclic g0 (done ++ b)) as Hiff.
    { split; apply dg_acyclic_mem; try (cbn; congruence).
      - intros d Hd. cbn. rewrite in_app_iff in Hd. rewrite in_app_iff.
        assert (In d (dgg_deps g0) \/ In d done <-> In d (dgl_pending l) \/ In d (dgg_deps (dgl_g l))) as H by (symmetry; apply Hmem).
        tauto.
      - intros d Hd. cbn in Hd. rewrite in_app_iff in Hd. rewrite in_app_iff.
        pose proof (Hmem d). tauto. }
    unfold dg_lbatch. destruct (dg_check_ok (dg_lview l) b) eqn:Hok.
    + apply (dg_check_ok_spec _ _ Hv) in Hok. apply Hiff in Hok.
      rewrite app_assoc. apply IH; [|exact Hok].
      split; [exact Hsvc|]. intros d. cbn. rewrite !in_app_iff.
      pose proof (Hmem d) as H1. pose proof (dg_filter_split (fun d => started (dgd_child d)) b d) as H2. tauto.
    + intros Hall. assert (dg_check_ok (dg_lview l) b = true) as Ht; [|congruence].
      apply (dg_check_ok_spec _ _ Hv), Hiff.
      revert Hall. apply dg_acyclic_mem; [reflexivity|].
      intros d. rewrite !in_app_iff. tauto.
Qed.

(* every load, in whatever batches and whichever children are already started, is accepted iff the
   union of the old graph and all new dependencies is acyclic; an accepted load registers exactly
   the union and leaves an acyclic graph *)
Theorem dg_load_decides started g bs :
  dg_acyclic g [] ->
  (snd (dg_load started g bs) = true <-> dg_acyclic g (concat bs)) /\
  (snd (dg_load started g bs) = true ->
     dgg_svc (fst (dg_load started g bs)) = dgg_svc g /\
     (forall d, In d (dgg_deps (fst (dg_load started g bs))) <-> In d (dgg_deps g) \/ In d (concat bs)) /\
     dg_acyclic (fst (dg_load started g bs)) []) /\
  (snd (dg_load started g bs) = false -> fst (dg_load started g bs) = g).
Proof.
  intros Hac. unfold dg_load.
  pose proof (dg_lbatches_spec started g bs {| dgl_g := g; dgl_pending := [] |} []) as H.
  cbn [app] in H.
  assert (dg_linv g [] {| dgl_g := g; dgl_pending := [] |}) as Hi by (split; [reflexivity|cbn; tauto]).
  specialize (H Hi Hac).
  destruct (dg_lbatches started {| dgl_g := g; dgl_pending := [] |} bs) as [l|]; cbn [fst snd].
  - destruct H as [[Hsvc Hmem] Hacy]. split; [tauto|]. split; [|discriminate].
    intros _. split; [exact Hsvc|]. split.
    + intros d. cbn. rewrite in_app_iff. pose proof (Hmem d). tauto.
    + apply (dg_acyclic_mem _ _ g (concat bs)); [exact Hsvc| |exact Hacy].
      intros d [Hd|[]]. cbn in Hd. rewrite in_app_iff in Hd. apply Hmem. tauto.
  - split; [split; [discriminate|tauto]|]. split; [discriminate|reflexivity].
Qed.

(* the batching is irrelevant for the verdict *)
Corollary dg_load_batching_irrelevant started1 started2 g bs1 bs2 :
  dg_acyclic g [] -> (forall d, In d (concat bs1) <-> In d (concat bs2)) ->
  snd (dg_load started1 g bs1) = snd (dg_load started2 g bs2).
Proof.
  intros Hac Hm. apply eq_true_iff_eq.
  rewrite (proj1 (dg_load_decides started1 g bs1 Hac)), (proj1 (dg_load_decides started2 g bs2 Hac)).
  split; apply dg_acyclic_mem; try reflexivity; intros d; rewrite <- ?Hm; rewrite ?Hm; tauto.
Qed.
