(* C07 - the oracle that is run over implementation traces accepts everything the model produces,
   so it can only fire where the implementation leaves what the theorems establish.
   Also: the recursion bound in C07_reachable_spec is tight (chain of 257 dependencies). *)
From Icv Require Import Base.Tac Dep.DgModel Dep.DgObs Dep.DgReachProofs Dep.DgCycleProofs Dep.DgLoadProofs.
Local Open Scope Z_scope.

Lemma dg_find_none_all {A} (f : A -> bool) l : (forall x, In x l -> f x = false) -> find f l = None.
Proof. induction l as [|x r IH]; cbn; intros H; [reflexivity|]. rewrite (H x); auto. Qed.

Lemma dg_rank_ok_spec g rk :
  dg_rank_ok g rk = true ->
  dg_ranked g rk /\ forall c, In c (dgg_nodes g) -> (rk c <= dg_max_recursion)%nat.
Proof.
  unfold dg_rank_ok. rewrite andb_true_iff, !forallb_forall. intros [H1 H2]. split.
  - intros d Hd. apply Nat.ltb_lt, H1, Hd.
  - intros c Hc. apply Nat.leb_le, H2, Hc.
Qed.

(* part 1: the observed-reachability check accepts the model's own answers, for every graph, status
   assignment, period assignment and every candidate rank function *)
Theorem dg_oracle_reach_accepts g st po rk :
  dg_oracle_reach g st po rk (fun a c => dg_reachable dg_max_recursion g st po a c) = None.
Proof.
  unfold dg_oracle_reach. destruct (dg_rank_ok g rk) eqn:Hok; [|reflexivity].
  apply dg_rank_ok_spec in Hok. destruct Hok as [Hrk Hdepth].
  apply dg_find_none_all. intros [c a] Hin. apply in_prod_iff in Hin. destruct Hin as [Hc _].
  cbn [fst snd]. apply negb_false_iff, Bool.eqb_true_iff.
  rewrite dg_reachable_unfold. apply dg_local_ext. intros d H1 H2.
  specialize (Hdepth c Hc). pose proof (Hrk d H1) as Hlt. rewrite H2 in Hlt.
  unfold dg_max_recursion in *. change 256%nat with (S 255). cbn [dg_rp].
  apply (dg_reachable_fuel_irrel g st po rk a 255 (S 255) (dgd_parent d) Hrk); lia.
Qed.

(* part 2: on an acyclic graph, what the batch check decides is what the oracle demands *)
Theorem dg_oracle_commit_accepts g extra :
  dg_acyclic g [] -> dg_oracle_commit g extra (snd (dg_commit g extra)) = true.
Proof.
  intros Hac. unfold dg_oracle_commit, dg_commit.
  rewrite <- (dg_oracle_cycle_agrees g extra Hac).
  destruct (dg_check_ok g extra); reflexivity.
Qed.

(* ... and so is the verdict of a load committed in any number of rounds *)
Theorem dg_oracle_load_accepts started g batches :
  dg_acyclic g [] -> dg_oracle_commit g (concat batches) (snd (dg_load started g batches)) = true.
Proof.
  intros Hac. unfold dg_oracle_commit. apply Bool.eqb_true_iff, eq_true_iff_eq.
  rewrite (proj1 (dg_load_decides started g batches Hac)), dg_full_check_spec.
  symmetry. apply dg_with_deps_acyclic.
Qed.

(* the invariant the oracle glue relies on: accepted batches keep the graph acyclic *)
Theorem dg_commit_preserves_acyclic g extra :
  dg_acyclic g [] -> dg_acyclic (fst (dg_commit g extra)) [].
Proof.
  intros Hac. unfold dg_commit. destruct (dg_check_ok g extra) eqn:E; cbn [fst]; [|exact Hac].
  apply dg_commit_acyclic; assumption.
Qed.

Lemma dg_remove_preserves_acyclic g id : dg_acyclic g [] -> dg_acyclic (dg_remove_dep g id) [].
Proof.
  intros Hac x Hx. apply (Hac x). revert Hx. apply dg_ct_mono.
  intros u v (e & He & Hd). exists e. split; [|exact Hd].
  apply dg_out_edges_in in He. apply dg_out_edges_in.
  destruct He as [He|(d & He & Hc & [Hin|Hin])]; [left; exact He | | destruct Hin].
  right. exists d. split; [exact He|]. split; [exact Hc|]. left.
  cbn in Hin. apply filter_In in Hin. tauto.
Qed.

(* ---------------- the depth bound of C07_reachable_spec is tight ---------------- *)
Definition dg_chain_dep (j : nat) : dg_dep :=
  {| dgd_id := j; dgd_child := j; dgd_parent := S j; dgd_rg := None; dgd_filter := 16; dgd_iss := false;
     dgd_period := None; dgd_dc := true; dgd_dn := true |}.

Definition dg_chain_graph (len : nat) : dg_graph :=
  {| dgg_nodes := seq 0 (S len); dgg_svc := []; dgg_deps := map dg_chain_dep (seq 0 len) |}.

Lemma dg_chain_ranked len : dg_ranked (dg_chain_graph len) (fun c => (len - c)%nat).
Proof.
  intros d Hd. cbn in Hd. apply in_map_iff in Hd. destruct Hd as (j & <- & Hj).
  apply in_seq in Hj. cbn. lia.
Qed.

(* 257 nested dependencies, nobody checked yet: every dependency is available, so the statement says
   "reachable" - the implementation (and the model) answer "unreachable" because of the recursion limit *)
Theorem dg_depth_limit_witness :
  let g := dg_chain_graph 257 in
  let st := fun _ => dg_status_pending false in
  let po := fun _ => true in
  dg_reachable dg_max_recursion g st po DgState 0%nat = false /\
  dg_spec_reachable g st po DgState 0%nat.
Proof.
  cbv zeta. split; [vm_compute; reflexivity|].
  apply (dg_reachable_spec _ _ _ (fun c => (257 - c)%nat) DgState 257 0%nat (dg_chain_ranked 257)); [lia|].
  vm_compute. reflexivity.
Qed.
