(* C07 - what the correspondence run needs beyond the model, and the executable property oracle
   that is run over the IMPLEMENTATION's traces (definitions only; proofs in DgOracleProofs.v). *)
From Icv Require Import Base.Tac Dep.DgModel.
Local Open Scope Z_scope.

(* a never-checked object: state_raw = ServiceUnknown (a host computes HostDown from it), StateTypeSoft *)
Definition dg_status_pending (svc : bool) : dg_status :=
  {| dgs_checked := false; dgs_state := if svc then 3 else 1; dgs_hard := false |}.

(* ---- oracle, part 1: the reachability statement, one unfolding ----
   obs a c = the observed IsReachable(a) of node c.  The statement of C07 for node c and aspect a,
   with the parents' reachability READ FROM THE OBSERVATIONS (no recursion, no fuel): *)
Definition dg_local (g : dg_graph) (st : nat -> dg_status) (po : nat -> bool)
           (obs : dg_aspect -> nat -> bool) (a : dg_aspect) (c : nat) : bool :=
  dg_host_ok g st a c &&
  forallb (fun k =>
    let ds := dg_group_deps g c k in
    let good := fun d => obs a (dgd_parent d) && dg_available g st po a d in
    if dg_key_is_rg k then existsb good ds else forallb good ds)
    (dg_keys g c).

Definition dg_aspects : list dg_aspect := [DgState; DgChecks; DgNotif].

(* rk is a candidate rank function supplied by the caller (untrusted); it certifies "acyclic, depth <= 256" *)
Definition dg_rank_ok (g : dg_graph) (rk : nat -> nat) : bool :=
  forallb (fun d => Nat.ltb (rk (dgd_parent d)) (rk (dgd_child d))) (dgg_deps g)
  && forallb (fun c => Nat.leb (rk c) dg_max_recursion) (dgg_nodes g).

(* first (node, aspect) whose observed reachability contradicts the statement *)
Definition dg_oracle_reach (g : dg_graph) (st : nat -> dg_status) (po : nat -> bool)
           (rk : nat -> nat) (obs : dg_aspect -> nat -> bool) : option (nat * dg_aspect) :=
  if dg_rank_ok g rk then
    find (fun ca => negb (Bool.eqb (obs (snd ca) (fst ca)) (dg_local g st po obs (snd ca) (fst ca))))
         (list_prod (dgg_nodes g) dg_aspects)
  else None.

(* ---- oracle, part 2: a batch of new dependencies is accepted iff the resulting graph,
   with the implicit service->host edges, has no cycle (searched from every node) ---- *)
Definition dg_oracle_commit (g : dg_graph) (extra : list dg_dep) (accepted : bool) : bool :=
  Bool.eqb accepted (dg_full_check_ok (dg_with_deps g (dgg_deps g ++ extra))).

Definition dg_aspect_num (a : dg_aspect) : Z :=
  match a with DgState => 0 | DgChecks => 1 | DgNotif => 2 end.

Definition dg_gstate_num (s : dg_gstate) : Z :=
  match s with DgOk => 0 | DgFailed => 1 | DgUnreachable => 2 end.
