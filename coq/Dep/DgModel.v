(* C07 - dependency graph model.  Definitions only (proofs are in the other files of coq/Dep).

   Transcription of
     Dependency::IsAvailable                  lib/icinga/dependency.cpp:274-346
     DependencyGroup::GetState                lib/icinga/dependency-group.cpp:309-348
     Checkable::IsReachable                   lib/icinga/checkable-dependency.cpp:189-219
     DependencyCycleChecker::AssertNoCycle,
     Dependency::BeforeOnAllConfigLoadedHandler   lib/icinga/dependency.cpp:30-175
     Checkable::AddDependency/RemoveDependency/PushDependencyGroupsToRegistry,
     DependencyGroup::Register/Unregister     checkable-dependency.cpp:26-151, dependency-group.cpp:24-66
   Branch order and comparisons follow the C++ text.  Everything the environment decides (parent
   status, whether a period is open at the instant of the question) is an input. *)
From Icv Require Import Base.Tac.
Local Open Scope Z_scope.

(* enum DependencyType { DependencyState, DependencyCheckExecution, DependencyNotification } *)
Inductive dg_aspect := DgState | DgChecks | DgNotif.

Record dg_dep := {
  dgd_id : nat;                 (* object identity (its name) *)
  dgd_child : nat;
  dgd_parent : nat;
  dgd_rg : option nat;          (* redundancy_group, None = "" *)
  dgd_filter : Z;               (* state_filter_real *)
  dgd_iss : bool;               (* ignore_soft_states *)
  dgd_period : option nat;      (* period, None = not configured *)
  dgd_dc : bool;                (* disable_checks *)
  dgd_dn : bool                 (* disable_notifications *)
}.

(* what IsAvailable/IsReachable read from a checkable *)
Record dg_status := {
  dgs_checked : bool;           (* GetLastCheckResult() != nullptr *)
  dgs_state : Z;                (* Host: HostUp=0/HostDown=1; Service: 0..3 *)
  dgs_hard : bool               (* GetStateType() == StateTypeHard *)
}.

Record dg_graph := {
  dgg_nodes : list nat;               (* all checkables *)
  dgg_svc : list (nat * nat);         (* (service, its host) *)
  dgg_deps : list dg_dep              (* dependencies registered to their child *)
}.

Fixpoint dg_assoc (l : list (nat * nat)) (c : nat) : option nat :=
  match l with
  | [] => None
  | (k, v) :: r => if Nat.eqb k c then Some v else dg_assoc r c
  end.

Definition dg_host_of (g : dg_graph) (c : nat) : option nat := dg_assoc (dgg_svc g) c.
Definition dg_is_svc (g : dg_graph) (c : nat) : bool :=
  match dg_host_of g c with Some _ => true | None => false end.

(* ServiceStateToFilter / HostStateToFilter (notification.cpp) *)
Definition dg_state_filter (svc : bool) (s : Z) : Z :=
  if svc then
    (if s =? 0 then 1 else if s =? 1 then 2 else if s =? 2 then 4 else 8)
  else
    (if s =? 0 then 16 else 32).

Definition dg_filter_match (g : dg_graph) (ps : dg_status) (d : dg_dep) : bool :=
  negb (Z.land (dg_state_filter (dg_is_svc g (dgd_parent d)) (dgs_state ps)) (dgd_filter d) =? 0).

Definition dg_period_closed (po : nat -> bool) (d : dg_dep) : bool :=
  match dgd_period d with Some p => negb (po p) | None => false end.

Definition dg_not_disabled (a : dg_aspect) (d : dg_dep) : bool :=
  match a with
  | DgChecks => negb (dgd_dc d)
  | DgNotif => negb (dgd_dn d)
  | DgState => false
  end.

(* Dependency::IsAvailable(dt) *)
Definition dg_available (g : dg_graph) (st : nat -> dg_status) (po : nat -> bool)
           (a : dg_aspect) (d : dg_dep) : bool :=
  if Nat.eqb (dgd_parent d) (dgd_child d) then true            (* parent == GetChild() *)
  else
    let ps := st (dgd_parent d) in
    if negb (dgs_checked ps) then true                          (* ignore pending *)
    else if dgd_iss d && negb (dgs_hard ps) then true           (* ignore soft states *)
    else if dg_filter_match g ps d then true                    (* state & GetStateFilter() *)
    else if dg_period_closed po d then true                     (* tp && !tp->IsInside(now) *)
    else dg_not_disabled a d.

(* ---- per-child dependency groups: key = redundancy group name, or the parent ---- *)
Inductive dg_key := DgKParent (p : nat) | DgKGroup (n : nat).

Definition dg_key_eqb (a b : dg_key) : bool :=
  match a, b with
  | DgKParent x, DgKParent y => Nat.eqb x y
  | DgKGroup x, DgKGroup y => Nat.eqb x y
  | _, _ => false
  end.

(* GetDependencyGroupKey *)
Definition dg_key_of (d : dg_dep) : dg_key :=
  match dgd_rg d with Some n => DgKGroup n | None => DgKParent (dgd_parent d) end.

Definition dg_key_is_rg (k : dg_key) : bool :=
  match k with DgKGroup _ => true | DgKParent _ => false end.

Fixpoint dg_dedup (l : list dg_key) : list dg_key :=
  match l with
  | [] => []
  | k :: r => if existsb (dg_key_eqb k) r then dg_dedup r else k :: dg_dedup r
  end.

Definition dg_child_deps (ds : list dg_dep) (c : nat) : list dg_dep :=
  filter (fun d => Nat.eqb (dgd_child d) c) ds.

Definition dg_keys (g : dg_graph) (c : nat) : list dg_key :=
  dg_dedup (map dg_key_of (dg_child_deps (dgg_deps g) c)).

(* GetDependenciesForChild of the group stored under key k *)
Definition dg_group_deps (g : dg_graph) (c : nat) (k : dg_key) : list dg_dep :=
  filter (fun d => dg_key_eqb (dg_key_of d) k) (dg_child_deps (dgg_deps g) c).

Inductive dg_gstate := DgOk | DgFailed | DgUnreachable.

(* DependencyGroup::GetState: rp = parent->IsReachable(dt, rstack), av = IsAvailable(dt) *)
Definition dg_group_state (rp : nat -> bool) (av : dg_dep -> bool) (redundant : bool)
           (ds : list dg_dep) : dg_gstate :=
  (* one IsReachable call per dependency; IsAvailable is only asked for reachable parents *)
  let flags := map (fun d => if rp (dgd_parent d) then (true, av d) else (false, false)) ds in
  let reachable := length (filter fst flags) in
  let available := length (filter snd flags) in
  if redundant then
    if Nat.eqb reachable 0 then DgUnreachable
    else if Nat.eqb available 0 then DgFailed
    else DgOk
  else
    if Nat.ltb reachable (length ds) then DgUnreachable
    else if Nat.ltb available (length ds) then DgFailed
    else DgOk.

Definition dg_gstate_ok (s : dg_gstate) : bool :=
  match s with DgOk => true | _ => false end.

(* implicit dependency of a service on its host: only for DependencyState / DependencyNotification *)
Definition dg_host_ok (g : dg_graph) (st : nat -> dg_status) (a : dg_aspect) (c : nat) : bool :=
  match a with
  | DgChecks => true
  | _ =>
      match dg_host_of g c with
      | Some h => negb (negb (dgs_state (st h) =? 0) && dgs_hard (st h))
      | None => true
      end
  end.

(* Checkable::IsReachable(dt, rstack) with fuel = l_MaxDependencyRecursionLevel - rstack:
   "rstack > 256 -> false" is the [O => fun _ => false] branch taken for the parents. *)
Fixpoint dg_reachable (fuel : nat) (g : dg_graph) (st : nat -> dg_status) (po : nat -> bool)
         (a : dg_aspect) (c : nat) : bool :=
  let rp := match fuel with O => fun _ => false | S f => dg_reachable f g st po a end in
  dg_host_ok g st a c &&
  forallb (fun k => dg_gstate_ok (dg_group_state rp (dg_available g st po a) (dg_key_is_rg k)
                                                 (dg_group_deps g c k)))
          (dg_keys g c).

Definition dg_max_recursion : nat := 256.

(* state of one group as the public DependencyGroup::GetState(child, dt) reports it (rstack = 0:
   the parents are asked with rstack 0, i.e. full fuel) *)
Definition dg_group_state_of (g : dg_graph) (st : nat -> dg_status) (po : nat -> bool)
           (a : dg_aspect) (c : nat) (k : dg_key) : dg_gstate :=
  dg_group_state (dg_reachable dg_max_recursion g st po a) (dg_available g st po a)
                 (dg_key_is_rg k) (dg_group_deps g c k).

(* ---------------- cycle checker ---------------- *)
(* m_Stack entries: a Dependency (edge child -> parent) or a Service (implicit edge to its host) *)
Inductive dg_edge := DgEImplicit (s h : nat) | DgEDep (d : dg_dep).

Definition dg_edge_src (e : dg_edge) : nat :=
  match e with DgEImplicit s _ => s | DgEDep d => dgd_child d end.
Definition dg_edge_dst (e : dg_edge) : nat :=
  match e with DgEImplicit _ h => h | DgEDep d => dgd_parent d end.

(* the edges AssertNoCycle follows from [c], in its order: implicit host edge, registered
   dependencies (GetDependencies(includePending=true)), ExtraDependencies of the node *)
Definition dg_out_edges (g : dg_graph) (extra : list dg_dep) (c : nat) : list dg_edge :=
  (match dg_host_of g c with Some h => [DgEImplicit c h] | None => [] end)
  ++ map DgEDep (dg_child_deps (dgg_deps g) c)
  ++ map DgEDep (dg_child_deps extra c).

Inductive dg_dfs_result :=
| DgDfsOk (visited : list nat)
| DgDfsCycle (stack : list dg_edge)      (* m_Stack, oldest entry first, as the error lists it *)
| DgDfsFuel.

Definition dg_mem (x : nat) (l : list nat) : bool := existsb (Nat.eqb x) l.

(* AssertNoCycle(c).  vis = nodes with Visited, onst = nodes with OnStack, stk = m_Stack (newest first).
   fuel bounds the recursion depth only. *)
Fixpoint dg_dfs (fuel : nat) (g : dg_graph) (extra : list dg_dep)
         (vis onst : list nat) (stk : list dg_edge) (c : nat) : dg_dfs_result :=
  match fuel with
  | O => DgDfsFuel
  | S f =>
      if dg_mem c onst then DgDfsCycle (rev stk)
      else if dg_mem c vis then DgDfsOk vis
      else
        (fix edges (es : list dg_edge) (vis1 : list nat) : dg_dfs_result :=
           match es with
           | [] => DgDfsOk vis1
           | e :: r =>
               match dg_dfs f g extra vis1 (c :: onst) (e :: stk) (dg_edge_dst e) with
               | DgDfsOk vis2 => edges r vis2
               | other => other
               end
           end) (dg_out_edges g extra c) (c :: vis)
  end.

(* the second loop of BeforeOnAllConfigLoadedHandler: one checker, AssertNoCycle(parent) per new dependency *)
Fixpoint dg_dfs_starts (fuel : nat) (g : dg_graph) (extra : list dg_dep)
         (vis : list nat) (starts : list nat) : dg_dfs_result :=
  match starts with
  | [] => DgDfsOk vis
  | s :: r =>
      match dg_dfs fuel g extra vis [] [] s with
      | DgDfsOk vis' => dg_dfs_starts fuel g extra vis' r
      | other => other
      end
  end.

(* nodes the search can touch: declared nodes plus every endpoint mentioned by an edge *)
Definition dg_all_nodes (g : dg_graph) (extra : list dg_dep) : list nat :=
  dgg_nodes g ++ map fst (dgg_svc g) ++ map snd (dgg_svc g)
  ++ map dgd_child (dgg_deps g) ++ map dgd_parent (dgg_deps g)
  ++ map dgd_child extra ++ map dgd_parent extra.

Definition dg_dfs_fuel (g : dg_graph) (extra : list dg_dep) : nat :=
  S (S (length (dg_all_nodes g extra))).

(* BeforeOnAllConfigLoadedHandler(items): extra = the new Dependency objects of the batch *)
Definition dg_cycle_check (g : dg_graph) (extra : list dg_dep) : dg_dfs_result :=
  dg_dfs_starts (dg_dfs_fuel g extra) g extra [] (map dgd_parent extra).

Definition dg_check_ok (g : dg_graph) (extra : list dg_dep) : bool :=
  match dg_cycle_check g extra with DgDfsOk _ => true | _ => false end.

(* the same search started from every node of the graph (used as the acyclicity test of the oracle) *)
Definition dg_full_check_ok (g : dg_graph) : bool :=
  match dg_dfs_starts (dg_dfs_fuel g []) g [] [] (dg_all_nodes g []) with
  | DgDfsOk _ => true
  | _ => false
  end.

Definition dg_with_deps (g : dg_graph) (ds : list dg_dep) : dg_graph :=
  {| dgg_nodes := dgg_nodes g; dgg_svc := dgg_svc g; dgg_deps := ds |}.

(* a batch of new dependencies is committed iff the check passes; then each is registered *)
Definition dg_commit (g : dg_graph) (extra : list dg_dep) : dg_graph * bool :=
  if dg_check_ok g extra then (dg_with_deps g (dgg_deps g ++ extra), true) else (g, false).

Definition dg_remove_dep (g : dg_graph) (id : nat) : dg_graph :=
  dg_with_deps g (filter (fun d => negb (Nat.eqb (dgd_id d) id)) (dgg_deps g)).

(* ---------------- one configuration load = a sequence of commit batches ----------------
   ConfigItem::CommitNewItems commits the Dependency objects of a load in several rounds: apply-rule
   instances are created (CreateChildObjects) and committed in a later, nested round than plain
   `object Dependency` items, and each round runs BeforeOnAllConfigLoadedHandler over ITS items only.
   Between the rounds Dependency::OnAllConfigLoaded has already handed the earlier items to their child:
   a child that is not started yet keeps them in m_PendingDependencies, a started child registers them
   into its groups.  The checker consults GetDependencies(includePending = true) = pending ++ registered. *)
Record dg_lstate := {
  dgl_g : dg_graph;                 (* nodes, services, dependencies registered in groups *)
  dgl_pending : list dg_dep         (* all m_PendingDependencies *)
}.

(* what AssertNoCycle sees as "registered" edges: GetDependencies(includePending = true) *)
Definition dg_lview (l : dg_lstate) : dg_graph :=
  dg_with_deps (dgl_g l) (dgl_pending l ++ dgg_deps (dgl_g l)).

(* one round: check the batch against the view, then OnAllConfigLoaded -> Checkable::AddDependency *)
Definition dg_lbatch (started : nat -> bool) (l : dg_lstate) (b : list dg_dep) : option dg_lstate :=
  if dg_check_ok (dg_lview l) b then
    Some {| dgl_g := dg_with_deps (dgl_g l)
                       (dgg_deps (dgl_g l) ++ filter (fun d => started (dgd_child d)) b);
            dgl_pending := dgl_pending l ++ filter (fun d => negb (started (dgd_child d))) b |}
  else None.

Fixpoint dg_lbatches (started : nat -> bool) (l : dg_lstate) (bs : list (list dg_dep)) : option dg_lstate :=
  match bs with
  | [] => Some l
  | b :: r => match dg_lbatch started l b with Some l' => dg_lbatches started l' r | None => None end
  end.

(* activation: Checkable::Start -> PushDependencyGroupsToRegistry, nothing stays pending *)
Definition dg_lfinish (l : dg_lstate) : dg_graph :=
  dg_with_deps (dgl_g l) (dgg_deps (dgl_g l) ++ dgl_pending l).

(* a whole load: the first rejected round rejects the load (all its items are unregistered) *)
Definition dg_load (started : nat -> bool) (g : dg_graph) (bs : list (list dg_dep)) : dg_graph * bool :=
  match dg_lbatches started {| dgl_g := g; dgl_pending := [] |} bs with
  | Some l => (dg_lfinish l, true)
  | None => (g, false)
  end.

(* ---------------- dependency group registry ---------------- *)
(* DependencyGroup::CompositeKeyType = (parent, period, state filter, ignore_soft_states) *)
Definition dg_ckey := (nat * option nat * Z * bool)%type.

Definition dg_ckey_of (d : dg_dep) : dg_ckey :=
  (dgd_parent d, dgd_period d, dgd_filter d, dgd_iss d).

Definition dg_optnat_eqb (a b : option nat) : bool :=
  match a, b with
  | Some x, Some y => Nat.eqb x y
  | None, None => true
  | _, _ => false
  end.

Definition dg_ckey_eqb (a b : dg_ckey) : bool :=
  let '(p1, t1, f1, i1) := a in
  let '(p2, t2, f2, i2) := b in
  Nat.eqb p1 p2 && dg_optnat_eqb t1 t2 && (f1 =? f2) && Bool.eqb i1 i2.

Definition dg_ckey_mem (k : dg_ckey) (l : list dg_ckey) : bool := existsb (dg_ckey_eqb k) l.

Fixpoint dg_ckey_dedup (l : list dg_ckey) : list dg_ckey :=
  match l with
  | [] => []
  | k :: r => if dg_ckey_mem k r then dg_ckey_dedup r else k :: dg_ckey_dedup r
  end.

(* identity of a group in the registry: DependencyGroup::Equal compares the redundancy group name
   and the key sets of m_Members *)
Record dg_gid := { dgi_name : option nat; dgi_keys : list dg_ckey }.

Definition dg_gid_eqb (a b : dg_gid) : bool :=
  dg_optnat_eqb (dgi_name a) (dgi_name b)
  && forallb (fun k => dg_ckey_mem k (dgi_keys b)) (dgi_keys a)
  && forallb (fun k => dg_ckey_mem k (dgi_keys a)) (dgi_keys b).

Record dg_grp := { dgr_gid : dg_gid; dgr_members : list dg_dep }.

(* new DependencyGroup(name, dependencies) *)
Definition dg_mkgrp (name : option nat) (ds : list dg_dep) : dg_grp :=
  {| dgr_gid := {| dgi_name := name; dgi_keys := dg_ckey_dedup (map dg_ckey_of ds) |};
     dgr_members := ds |}.

Record dg_regstate := {
  dgx_registry : list dg_grp;                          (* DependencyGroup::m_Registry *)
  dgx_groups : list (nat * dg_key * dg_gid)            (* all m_DependencyGroups: (child, key) -> group *)
}.

Definition dg_reg_empty : dg_regstate := {| dgx_registry := []; dgx_groups := [] |}.

(* DependencyGroup::Register: merge into an equal group or insert *)
Fixpoint dg_register (reg : list dg_grp) (gr : dg_grp) : list dg_grp :=
  match reg with
  | [] => [gr]
  | g0 :: r =>
      if dg_gid_eqb (dgr_gid g0) (dgr_gid gr)
      then {| dgr_gid := dgr_gid g0; dgr_members := dgr_members g0 ++ dgr_members gr |} :: r
      else g0 :: dg_register r gr
  end.

(* DependencyGroup::Unregister(group, child): the child's dependencies leave the group, an empty
   group leaves the registry.  Returns the child's dependencies. *)
Fixpoint dg_unregister (reg : list dg_grp) (gid : dg_gid) (c : nat) : list dg_dep * list dg_grp :=
  match reg with
  | [] => ([], [])
  | g0 :: r =>
      if dg_gid_eqb (dgr_gid g0) gid then
        let mine := dg_child_deps (dgr_members g0) c in
        let rest := filter (fun d => negb (Nat.eqb (dgd_child d) c)) (dgr_members g0) in
        match rest with
        | [] => (mine, r)
        | _ => (mine, {| dgr_gid := dgr_gid g0; dgr_members := rest |} :: r)
        end
      else
        let '(ds, r') := dg_unregister r gid c in (ds, g0 :: r')
  end.

Definition dg_slot_eqb (c : nat) (k : dg_key) (e : nat * dg_key * dg_gid) : bool :=
  let '(c', k', _) := e in Nat.eqb c' c && dg_key_eqb k' k.

Definition dg_slot_find (l : list (nat * dg_key * dg_gid)) (c : nat) (k : dg_key) : option dg_gid :=
  match find (dg_slot_eqb c k) l with Some (_, _, gid) => Some gid | None => None end.

Definition dg_slot_erase (l : list (nat * dg_key * dg_gid)) (c : nat) (k : dg_key) :=
  filter (fun e => negb (dg_slot_eqb c k e)) l.

(* Checkable::AddDependency once m_PendingDependencies is gone *)
Definition dg_reg_add (s : dg_regstate) (d : dg_dep) : dg_regstate :=
  let c := dgd_child d in
  let k := dg_key_of d in
  let '(ds, reg1, sl1) :=
    match dg_slot_find (dgx_groups s) c k with
    | Some gid =>
        let '(ds, reg1) := dg_unregister (dgx_registry s) gid c in
        (ds, reg1, dg_slot_erase (dgx_groups s) c k)
    | None => ([], dgx_registry s, dgx_groups s)
    end in
  let gr := dg_mkgrp (dgd_rg d) (d :: ds) in
  {| dgx_registry := dg_register reg1 gr; dgx_groups := (c, k, dgr_gid gr) :: sl1 |}.

(* Checkable::RemoveDependency *)
Definition dg_reg_remove (s : dg_regstate) (d : dg_dep) : dg_regstate :=
  let c := dgd_child d in
  let k := dg_key_of d in
  match dg_slot_find (dgx_groups s) c k with
  | None => s
  | Some gid =>
      let '(ds, reg1) := dg_unregister (dgx_registry s) gid c in
      let sl1 := dg_slot_erase (dgx_groups s) c k in
      let ds' := filter (fun x => negb (Nat.eqb (dgd_id x) (dgd_id d))) ds in
      match ds' with
      | [] => {| dgx_registry := reg1; dgx_groups := sl1 |}
      | _ =>
          let gr := dg_mkgrp (dgd_rg d) ds' in
          {| dgx_registry := dg_register reg1 gr; dgx_groups := (c, k, dgr_gid gr) :: sl1 |}
      end
  end.

(* PushDependencyGroupsToRegistry of one child: one group per key of m_PendingDependencies *)
Definition dg_reg_push_child (all : list dg_dep) (s : dg_regstate) (c : nat) : dg_regstate :=
  fold_left (fun s k =>
    let ds := filter (fun d => dg_key_eqb (dg_key_of d) k) (dg_child_deps all c) in
    let gr := dg_mkgrp (match k with DgKGroup n => Some n | DgKParent _ => None end) ds in
    {| dgx_registry := dg_register (dgx_registry s) gr; dgx_groups := (c, k, dgr_gid gr) :: dgx_groups s |})
    (dg_dedup (map dg_key_of (dg_child_deps all c))) s.

Fixpoint dg_nat_dedup (l : list nat) : list nat :=
  match l with
  | [] => []
  | x :: r => if dg_mem x r then dg_nat_dedup r else x :: dg_nat_dedup r
  end.

(* a fresh load of the dependency set [all]: every child collects its dependencies, then pushes *)
Definition dg_reg_fresh (all : list dg_dep) : dg_regstate :=
  fold_left (dg_reg_push_child all) (dg_nat_dedup (map dgd_child all)) dg_reg_empty.

(* lookups used by the observation *)
Definition dg_reg_group (s : dg_regstate) (gid : dg_gid) : option dg_grp :=
  find (fun g0 => dg_gid_eqb (dgr_gid g0) gid) (dgx_registry s).

(* runtime operations on the registry *)
Inductive dg_regop := DgRAdd (d : dg_dep) | DgRRemove (d : dg_dep).

Definition dg_reg_step (s : dg_regstate) (o : dg_regop) : dg_regstate :=
  match o with DgRAdd d => dg_reg_add s d | DgRRemove d => dg_reg_remove s d end.

Definition dg_reg_run (s : dg_regstate) (ops : list dg_regop) : dg_regstate := fold_left dg_reg_step ops s.

(* the dependency set that survives a sequence of operations *)
Definition dg_set_step (l : list dg_dep) (o : dg_regop) : list dg_dep :=
  match o with
  | DgRAdd d => l ++ [d]
  | DgRRemove d => filter (fun x => negb (Nat.eqb (dgd_id x) (dgd_id d))) l
  end.

Definition dg_set_run (l : list dg_dep) (ops : list dg_regop) : list dg_dep := fold_left dg_set_step ops l.
