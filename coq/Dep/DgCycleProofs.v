(* C07 - the DFS cycle checker of DgModel.v: soundness, completeness, termination.

   dg_E g extra        edge relation: implicit service->host edges, registered dependencies,
                       and the about-to-be-added ones ([extra]); [dg_E g []] is the registered graph.
   dg_acyclic g extra  no node is on a cycle of [dg_E g extra].

   Main results
     dg_dfs_sound_gen, dg_dfs_sound, dg_commit_acyclic          (an Ok answer means: no cycle)
     dg_dfs_starts_cycle, dg_dfs_complete, dg_dfs_complete_cyclic (a Cycle answer exhibits a cycle)
     dg_dfs_starts_terminates, dg_dfs_terminates                (DgDfsFuel is never the answer)
     dg_full_check_spec, dg_oracle_cycle_agrees *)
From Icv Require Import Base.Tac Dep.DgModel.
From Coq Require Import Relations.

Definition dg_E (g : dg_graph) (extra : list dg_dep) (x y : nat) : Prop :=
  exists e, In e (dg_out_edges g extra x) /\ dg_edge_dst e = y.

Definition dg_acyclic (g : dg_graph) (extra : list dg_dep) : Prop :=
  forall x, ~ clos_trans nat (dg_E g extra) x x.

(* ------------------------------------------------------------------ *)
(* the inner loop of dg_dfs as a top-level function                    *)

Fixpoint dg_dfs_edges (f : nat) (g : dg_graph) (extra : list dg_dep) (c : nat)
         (onst : list nat) (stk : list dg_edge) (es : list dg_edge) (vis1 : list nat)
  : dg_dfs_result :=
  match es with
  | [] => DgDfsOk vis1
  | e :: r =>
      match dg_dfs f g extra vis1 (c :: onst) (e :: stk) (dg_edge_dst e) with
      | DgDfsOk vis2 => dg_dfs_edges f g extra c onst stk r vis2
      | other => other
      end
  end.

Lemma dg_dfs_unfold : forall f g extra vis onst stk c,
  dg_dfs (S f) g extra vis onst stk c =
  if dg_mem c onst then DgDfsCycle (rev stk)
  else if dg_mem c vis then DgDfsOk vis
  else dg_dfs_edges f g extra c onst stk (dg_out_edges g extra c) (c :: vis).
Proof.
  intros. cbn [dg_dfs].
  destruct (dg_mem c onst); [reflexivity|].
  destruct (dg_mem c vis); [reflexivity|].
  generalize (dg_out_edges g extra c) (c :: vis).
  induction l as [|a l IHl]; intros l0; cbn [dg_dfs_edges]; [reflexivity|].
  destruct (dg_dfs f g extra l0 (c :: onst) (a :: stk) (dg_edge_dst a)); auto.
Qed.

(* ------------------------------------------------------------------ *)
(* small facts                                                         *)

Lemma dg_mem_true : forall x l, dg_mem x l = true <-> In x l.
Proof.
  intros. unfold dg_mem. rewrite existsb_exists. split.
  - intros [y [Hy He]]. apply Nat.eqb_eq in He. subst; auto.
  - intros. exists x. split; auto. apply Nat.eqb_refl.
Qed.

Lemma dg_mem_false : forall x l, dg_mem x l = false <-> ~ In x l.
Proof.
  intros. rewrite <- dg_mem_true. destruct (dg_mem x l); intuition congruence.
Qed.

Section DgRel.
  Variable R : nat -> nat -> Prop.

  Lemma dg_closed_rt : forall (P : nat -> Prop),
    (forall x y, P x -> R x y -> P y) ->
    forall x y, clos_refl_trans nat R x y -> P x -> P y.
  Proof. intros P HP x y H. induction H; eauto. Qed.

  Lemma dg_ct_rt : forall x y, clos_trans nat R x y -> clos_refl_trans nat R x y.
  Proof.
    intros x y H. induction H.
    - apply rt_step; auto.
    - eapply rt_trans; eauto.
  Qed.

  Lemma dg_ct_first : forall x y,
    clos_trans nat R x y -> exists z, R x z /\ clos_refl_trans nat R z y.
  Proof.
    intros x y H. apply clos_trans_t1n in H. destruct H as [y H|y z H H0].
    - exists y; split; auto. apply rt_refl.
    - exists y; split; auto. apply dg_ct_rt. apply clos_t1n_trans; auto.
  Qed.

  Lemma dg_ct_rt_ct : forall x y z,
    clos_trans nat R x y -> clos_refl_trans nat R y z -> clos_trans nat R x z.
  Proof.
    intros x y z H1 H2. revert x H1. induction H2; intros; auto.
    eapply t_trans; eauto. apply t_step; auto.
  Qed.

  Lemma dg_rt_step_ct : forall x y z,
    clos_refl_trans nat R x y -> R y z -> clos_trans nat R x z.
  Proof. intros. eapply clos_rt_t; eauto. apply t_step; auto. Qed.

  Lemma dg_step_rt_ct : forall x y z,
    R x y -> clos_refl_trans nat R y z -> clos_trans nat R x z.
  Proof. intros. eapply dg_ct_rt_ct; eauto. apply t_step; auto. Qed.
End DgRel.

Lemma dg_ct_mono : forall (R S : nat -> nat -> Prop),
  (forall x y, R x y -> S x y) ->
  forall x y, clos_trans nat R x y -> clos_trans nat S x y.
Proof.
  intros R S H x y H0. induction H0.
  - apply t_step; auto.
  - eapply t_trans; eauto.
Qed.

(* ------------------------------------------------------------------ *)
(* the out-edges                                                       *)

Lemma dg_assoc_in : forall l c h, dg_assoc l c = Some h -> In (c, h) l.
Proof.
  induction l as [|[k v] l IH]; simpl; intros c h H; [discriminate|].
  destruct (Nat.eqb k c) eqn:E.
  - apply Nat.eqb_eq in E. subst. inv H. auto.
  - auto.
Qed.

Lemma dg_out_edges_in : forall g extra c e,
  In e (dg_out_edges g extra c) <->
  (exists h, dg_host_of g c = Some h /\ e = DgEImplicit c h) \/
  (exists d, e = DgEDep d /\ dgd_child d = c /\ (In d (dgg_deps g) \/ In d extra)).
Proof.
  intros g extra c e. unfold dg_out_edges, dg_child_deps.
  rewrite !in_app_iff, !in_map_iff. split.
  - intros [H|[H|H]].
    + destruct (dg_host_of g c) as [h|]; simpl in H; [|contradiction].
      destruct H as [H|[]]. left. exists h. auto.
    + destruct H as [d [He Hd]]. apply filter_In in Hd. destruct Hd as [Hd Hc].
      apply Nat.eqb_eq in Hc. right. exists d. auto.
    + destruct H as [d [He Hd]]. apply filter_In in Hd. destruct Hd as [Hd Hc].
      apply Nat.eqb_eq in Hc. right. exists d. auto.
  - intros [[h [Hh He]] | [d [He [Hc [Hd|Hd]]]]].
    + left. rewrite Hh. simpl. auto.
    + right; left. exists d. split; auto. apply filter_In. split; auto.
      apply Nat.eqb_eq; auto.
    + right; right. exists d. split; auto. apply filter_In. split; auto.
      apply Nat.eqb_eq; auto.
Qed.

Lemma dg_out_edges_src : forall g extra c e,
  In e (dg_out_edges g extra c) -> dg_edge_src e = c.
Proof.
  intros g extra c e H. apply dg_out_edges_in in H.
  destruct H as [[h [_ ->]] | [d [-> [Hc _]]]]; simpl; auto.
Qed.

Lemma dg_out_edges_nodes : forall g extra c e,
  In e (dg_out_edges g extra c) ->
  In c (dg_all_nodes g extra) /\ In (dg_edge_dst e) (dg_all_nodes g extra).
Proof.
  intros g extra c e H. apply dg_out_edges_in in H.
  unfold dg_all_nodes. rewrite !in_app_iff.
  destruct H as [[h [Hh ->]] | [d [-> [Hc [Hd|Hd]]]]]; simpl.
  - apply dg_assoc_in in Hh.
    pose proof (in_map fst _ _ Hh) as H1. pose proof (in_map snd _ _ Hh) as H2.
    simpl in H1, H2. tauto.
  - pose proof (in_map dgd_child _ _ Hd) as H1. pose proof (in_map dgd_parent _ _ Hd) as H2.
    rewrite Hc in H1. tauto.
  - pose proof (in_map dgd_child _ _ Hd) as H1. pose proof (in_map dgd_parent _ _ Hd) as H2.
    rewrite Hc in H1. tauto.
Qed.

Lemma dg_E_nodes : forall g extra x y,
  dg_E g extra x y -> In x (dg_all_nodes g extra) /\ In y (dg_all_nodes g extra).
Proof.
  intros g extra x y [e [He <-]]. eapply dg_out_edges_nodes; eauto.
Qed.

Lemma dg_out_edges_outside : forall g extra c,
  ~ In c (dg_all_nodes g extra) -> dg_out_edges g extra c = [].
Proof.
  intros g extra c H. destruct (dg_out_edges g extra c) as [|e l] eqn:E; auto.
  exfalso. apply H. apply (dg_out_edges_nodes g extra c e). rewrite E. left; auto.
Qed.

(* an edge of the extended graph is an edge of the registered graph or one of the new dependencies *)
Lemma dg_out_edges_split : forall g extra c e,
  In e (dg_out_edges g extra c) ->
  In e (dg_out_edges g [] c) \/
  exists d, e = DgEDep d /\ In d extra /\ dgd_child d = c.
Proof.
  intros g extra c e H. apply dg_out_edges_in in H.
  destruct H as [[h [Hh ->]] | [d [-> [Hc [Hd|Hd]]]]].
  - left. apply dg_out_edges_in. left. eauto.
  - left. apply dg_out_edges_in. right. exists d. auto.
  - right. exists d. auto.
Qed.

Lemma dg_extra_edge : forall g extra d,
  In d extra -> dg_E g extra (dgd_child d) (dgd_parent d).
Proof.
  intros g extra d Hd. exists (DgEDep d). split; auto.
  apply dg_out_edges_in. right. exists d. auto.
Qed.

(* ------------------------------------------------------------------ *)
(* soundness                                                           *)

(* finished nodes: visited and no longer on the stack *)
Definition dg_F (vis onst : list nat) (x : nat) : Prop := In x vis /\ ~ In x onst.

(* the set is closed under successors and contains no node of a cycle *)
Definition dg_Inv (g : dg_graph) (extra : list dg_dep) (P : nat -> Prop) : Prop :=
  (forall x y, P x -> dg_E g extra x y -> P y) /\
  (forall x, P x -> ~ clos_trans nat (dg_E g extra) x x).

Lemma dg_Inv_ext : forall g extra (P Q : nat -> Prop),
  (forall x, P x <-> Q x) -> dg_Inv g extra P -> dg_Inv g extra Q.
Proof.
  intros g extra P Q H [H1 H2]. split.
  - intros x y Hx He. apply H. eapply H1; eauto. apply H; auto.
  - intros x Hx. apply H2. apply H; auto.
Qed.

Lemma dg_Inv_finish : forall g extra vis2 onst c,
  dg_Inv g extra (dg_F vis2 (c :: onst)) ->
  (forall e, In e (dg_out_edges g extra c) -> dg_F vis2 (c :: onst) (dg_edge_dst e)) ->
  In c vis2 -> ~ In c onst ->
  dg_Inv g extra (dg_F vis2 onst).
Proof.
  intros g extra vis2 onst c [Hcl Hcy] Hes Hc Hn.
  assert (Hsub : forall x, dg_F vis2 (c :: onst) x -> dg_F vis2 onst x).
  { intros x [Hx Hx']. split; auto. intro. apply Hx'. right; auto. }
  assert (Hcase : forall x, dg_F vis2 onst x -> x = c \/ dg_F vis2 (c :: onst) x).
  { intros x [Hx Hx']. destruct (Nat.eq_dec x c) as [|n]; auto. right. split; auto.
    intros [E|E]; [congruence|auto]. }
  assert (Hsucc : forall y, dg_E g extra c y -> dg_F vis2 (c :: onst) y).
  { intros y [e [He Hd]]. subst y. auto. }
  split.
  - intros x y Hx He. apply Hsub. destruct (Hcase x Hx) as [->|Hx'].
    + auto.
    + eapply Hcl; eauto.
  - intros x Hx Hcyc. destruct (Hcase x Hx) as [->|Hx'].
    + apply dg_ct_first in Hcyc. destruct Hcyc as [z [Hz Hzc]].
      assert (Hcc : dg_F vis2 (c :: onst) c).
      { eapply (dg_closed_rt (dg_E g extra)); eauto. }
      destruct Hcc as [_ Hcc]. apply Hcc. left; auto.
    + eapply Hcy; eauto.
Qed.

Lemma dg_dfs_edges_ok : forall f g extra c onst,
  (forall vis stk c' vis',
     dg_dfs f g extra vis (c :: onst) stk c' = DgDfsOk vis' ->
     dg_Inv g extra (dg_F vis (c :: onst)) ->
     incl vis vis' /\ In c' vis' /\ ~ In c' (c :: onst) /\
     dg_Inv g extra (dg_F vis' (c :: onst))) ->
  forall stk es vis1 vis2,
  dg_dfs_edges f g extra c onst stk es vis1 = DgDfsOk vis2 ->
  dg_Inv g extra (dg_F vis1 (c :: onst)) ->
  incl vis1 vis2 /\
  (forall e, In e es -> dg_F vis2 (c :: onst) (dg_edge_dst e)) /\
  dg_Inv g extra (dg_F vis2 (c :: onst)).
Proof.
  intros f g extra c onst IH stk es.
  induction es as [|e r IHr]; intros vis1 vis2 H HI; cbn [dg_dfs_edges] in H.
  - inv H. split; [apply incl_refl|]. split; auto. intros e [].
  - destruct (dg_dfs f g extra vis1 (c :: onst) (e :: stk) (dg_edge_dst e)) eqn:Hd;
      try discriminate.
    destruct (IH _ _ _ _ Hd HI) as [Hi [Hin [Hno HI']]].
    destruct (IHr _ _ H HI') as [Hi2 [Hall HI2]].
    split. { eapply incl_tran; eauto. }
    split; auto.
    intros e' [<-|He']; auto. split; auto.
Qed.

Lemma dg_dfs_ok : forall fuel g extra vis onst stk c vis',
  dg_dfs fuel g extra vis onst stk c = DgDfsOk vis' ->
  dg_Inv g extra (dg_F vis onst) ->
  incl vis vis' /\ In c vis' /\ ~ In c onst /\ dg_Inv g extra (dg_F vis' onst).
Proof.
  induction fuel as [|f IH]; intros g extra vis onst stk c vis' H HI.
  - discriminate.
  - rewrite dg_dfs_unfold in H.
    destruct (dg_mem c onst) eqn:Ho; [discriminate|].
    apply dg_mem_false in Ho.
    destruct (dg_mem c vis) eqn:Hv.
    + inv H. apply dg_mem_true in Hv.
      split; [apply incl_refl|]. split; auto.
    + apply dg_mem_false in Hv.
      assert (HI1 : dg_Inv g extra (dg_F (c :: vis) (c :: onst))).
      { eapply dg_Inv_ext; [|exact HI]. intros x; unfold dg_F; simpl. split.
        - intros [Hx Hx']. split; auto. intros [E|E]; [subst; auto|auto].
        - intros [[E|Hx] Hx'].
          + exfalso; apply Hx'; auto.
          + split; auto. }
      destruct (dg_dfs_edges_ok f g extra c onst
                  (fun vis stk c' vis' => IH g extra vis (c :: onst) stk c' vis')
                  _ _ _ _ H HI1) as [Hi [Hall HI2]].
      assert (Hc : In c vis') by (apply Hi; left; auto).
      split. { intros x Hx; apply Hi; right; auto. }
      split; auto. split; auto.
      eapply dg_Inv_finish; eauto.
Qed.

Lemma dg_dfs_starts_ok : forall fuel g extra starts vis vis',
  dg_dfs_starts fuel g extra vis starts = DgDfsOk vis' ->
  dg_Inv g extra (dg_F vis []) ->
  incl vis vis' /\ incl starts vis' /\ dg_Inv g extra (dg_F vis' []).
Proof.
  intros fuel g extra starts.
  induction starts as [|s r IHr]; intros vis vis' H HI; cbn [dg_dfs_starts] in H.
  - inv H. split; [apply incl_refl|]. split; auto. intros x [].
  - destruct (dg_dfs fuel g extra vis [] [] s) eqn:Hd; try discriminate.
    destruct (dg_dfs_ok _ _ _ _ _ _ _ _ Hd HI) as [Hi [Hin [_ HI']]].
    destruct (IHr _ _ H HI') as [Hi2 [Hst HI2]].
    split. { eapply incl_tran; eauto. }
    split; auto.
    intros x [<-|Hx]; auto.
Qed.

Lemma dg_Inv_nil : forall g extra, dg_Inv g extra (dg_F [] []).
Proof. intros g extra. split; intros x; intros; destruct H as [[] _]. Qed.

(* 1. no cycle is reachable from a start node (for every fuel) *)
Theorem dg_dfs_sound_gen : forall fuel g extra starts vis,
  dg_dfs_starts fuel g extra [] starts = DgDfsOk vis ->
  forall s z, In s starts -> clos_refl_trans nat (dg_E g extra) s z ->
              ~ clos_trans nat (dg_E g extra) z z.
Proof.
  intros fuel g extra starts vis H s z Hs Hz.
  destruct (dg_dfs_starts_ok _ _ _ _ _ _ H (dg_Inv_nil g extra)) as [_ [Hst [Hcl Hcy]]].
  apply Hcy. eapply (dg_closed_rt (dg_E g extra)); eauto. split; auto.
Qed.

(* a path of the extended graph is a path of the registered graph or passes through a new edge *)
Lemma dg_path_split : forall g extra x y,
  clos_trans nat (dg_E g extra) x y ->
  clos_trans nat (dg_E g []) x y \/
  exists d, In d extra /\
            clos_refl_trans nat (dg_E g extra) x (dgd_child d) /\
            clos_refl_trans nat (dg_E g extra) (dgd_parent d) y.
Proof.
  intros g extra x y H. apply clos_trans_t1n in H.
  induction H as [x y H|x y z H H0 IH].
  - destruct H as [e [He Hd]]. apply dg_out_edges_split in He.
    destruct He as [He|[d [-> [Hin Hc]]]].
    + left. apply t_step. exists e; auto.
    + right. exists d. simpl in Hd. subst. split; auto. split; apply rt_refl.
  - assert (Hxy : dg_E g extra x y) by exact H.
    destruct H as [e [He Hd]]. apply dg_out_edges_split in He.
    destruct He as [He|[d [-> [Hin Hc]]]].
    + destruct IH as [IH|[d [Hin [H1 H2]]]].
      * left. eapply t_trans; eauto. apply t_step. exists e; auto.
      * right. exists d. split; auto. split; auto.
        eapply rt_trans; [apply rt_step; exact Hxy|exact H1].
    + right. exists d. simpl in Hd. subst. split; auto. split; [apply rt_refl|].
      apply dg_ct_rt. apply clos_t1n_trans; auto.
Qed.

(* 2. an accepted batch keeps the graph acyclic *)
Theorem dg_dfs_sound : forall g extra,
  dg_acyclic g [] -> dg_check_ok g extra = true -> dg_acyclic g extra.
Proof.
  intros g extra Hold Hok x Hx.
  unfold dg_check_ok in Hok.
  destruct (dg_cycle_check g extra) as [vis| |] eqn:Hc; try discriminate.
  unfold dg_cycle_check in Hc.
  apply dg_path_split in Hx. destruct Hx as [Hx|[d [Hin [H1 H2]]]].
  - exact (Hold x Hx).
  - apply (dg_dfs_sound_gen _ _ _ _ _ Hc (dgd_parent d) (dgd_parent d)).
    + apply in_map; auto.
    + apply rt_refl.
    + eapply dg_rt_step_ct; [|apply dg_extra_edge; exact Hin].
      eapply rt_trans; eauto.
Qed.

Lemma dg_with_deps_out_edges : forall g extra c e,
  In e (dg_out_edges (dg_with_deps g (dgg_deps g ++ extra)) [] c) <->
  In e (dg_out_edges g extra c).
Proof.
  intros g extra c e. rewrite !dg_out_edges_in.
  unfold dg_host_of. simpl. split.
  - intros [H|[d [He [Hc [H|[]]]]]]; [left; auto|right; exists d].
    apply in_app_iff in H. auto.
  - intros [H|[d [He [Hc H]]]]; [left; auto|right; exists d].
    split; auto. split; auto. left. apply in_app_iff. auto.
Qed.

Lemma dg_with_deps_E : forall g extra x y,
  dg_E (dg_with_deps g (dgg_deps g ++ extra)) [] x y <-> dg_E g extra x y.
Proof.
  intros g extra x y. unfold dg_E. split; intros [e [He Hd]]; exists e; split; auto;
    apply dg_with_deps_out_edges; auto.
Qed.

Lemma dg_with_deps_acyclic : forall g extra,
  dg_acyclic (dg_with_deps g (dgg_deps g ++ extra)) [] <-> dg_acyclic g extra.
Proof.
  intros g extra. unfold dg_acyclic. split; intros H x Hx; apply (H x);
    eapply dg_ct_mono; [|exact Hx| |exact Hx]; intros a b Hab; apply dg_with_deps_E; auto.
Qed.

Theorem dg_commit_acyclic : forall g extra,
  dg_acyclic g [] -> dg_check_ok g extra = true ->
  dg_acyclic (dg_with_deps g (dgg_deps g ++ extra)) [].
Proof.
  intros g extra H1 H2. apply dg_with_deps_acyclic. apply dg_dfs_sound; auto.
Qed.

(* ------------------------------------------------------------------ *)
(* completeness: a reported stack is a lead-in followed by a cycle     *)

(* a list of graph edges, oldest first, each one starting where the previous one ends *)
Fixpoint dg_chain (g : dg_graph) (extra : list dg_dep) (l : list dg_edge) : Prop :=
  match l with
  | [] => True
  | e :: r =>
      In e (dg_out_edges g extra (dg_edge_src e)) /\
      match r with [] => True | e' :: _ => dg_edge_dst e = dg_edge_src e' end /\
      dg_chain g extra r
  end.

Definition dg_cycle_path (g : dg_graph) (extra : list dg_dep) (path : list dg_edge) : Prop :=
  exists pre cyc,
    path = pre ++ cyc /\ cyc <> [] /\ dg_chain g extra cyc /\
    forall e0, dg_edge_src (hd e0 cyc) = dg_edge_dst (last cyc e0).

(* the stack, newest first, is a chain that ends in [c] *)
Fixpoint dg_rchain (g : dg_graph) (extra : list dg_dep) (stk : list dg_edge) (c : nat) : Prop :=
  match stk with
  | [] => True
  | e :: r =>
      In e (dg_out_edges g extra (dg_edge_src e)) /\ dg_edge_dst e = c /\
      dg_rchain g extra r (dg_edge_src e)
  end.

Lemma dg_last_cons2 : forall (a b : dg_edge) l d, last (a :: b :: l) d = last (b :: l) d.
Proof. reflexivity. Qed.

Lemma dg_chain_snoc : forall g extra l a e0,
  l <> [] -> dg_chain g extra l ->
  dg_edge_dst (last l e0) = dg_edge_src a ->
  In a (dg_out_edges g extra (dg_edge_src a)) ->
  dg_chain g extra (l ++ [a]).
Proof.
  intros g extra l a e0. induction l as [|e r IH]; intros Hne Hc Hl Ha.
  - congruence.
  - destruct r as [|e' r'].
    + simpl in *. destruct Hc as [H1 _]. repeat split; auto.
    + destruct Hc as [H1 [H2 H3]]. rewrite dg_last_cons2 in Hl.
      change ((e :: e' :: r') ++ [a]) with (e :: ((e' :: r') ++ [a])).
      split; auto. split.
      * simpl. auto.
      * apply IH; auto. discriminate.
Qed.

Lemma dg_rchain_split : forall g extra s1 e' s2 c e0,
  dg_rchain g extra (s1 ++ e' :: s2) c ->
  dg_chain g extra (e' :: rev s1) /\ dg_edge_dst (last (e' :: rev s1) e0) = c.
Proof.
  intros g extra s1. induction s1 as [|a s1 IH]; intros e' s2 c e0 H; simpl in H.
  - destruct H as [H1 [H2 _]]. simpl. auto.
  - destruct H as [H1 [H2 H3]]. destruct (IH _ _ _ e0 H3) as [Hc Hl].
    simpl rev. change (e' :: rev s1 ++ [a]) with ((e' :: rev s1) ++ [a]). split.
    + eapply dg_chain_snoc; eauto. discriminate.
    + rewrite last_last. auto.
Qed.

Lemma dg_cycle_found : forall g extra stk c,
  dg_rchain g extra stk c -> In c (map dg_edge_src stk) ->
  dg_cycle_path g extra (rev stk).
Proof.
  intros g extra stk c H H0. apply in_map_iff in H0. destruct H0 as [e' [Hs Hin]].
  apply in_split in Hin. destruct Hin as [s1 [s2 ->]].
  exists (rev s2), (e' :: rev s1). split.
  { rewrite rev_app_distr. simpl. rewrite <- app_assoc. reflexivity. }
  split; [discriminate|]. split.
  - apply (dg_rchain_split _ _ _ _ _ _ e' H).
  - intros e0. rewrite (proj2 (dg_rchain_split _ _ _ _ _ _ e0 H)). simpl. auto.
Qed.

Lemma dg_dfs_edges_cycle : forall f g extra c onst,
  (forall vis stk c' path,
     dg_dfs f g extra vis (c :: onst) stk c' = DgDfsCycle path ->
     dg_rchain g extra stk c' -> map dg_edge_src stk = c :: onst ->
     dg_cycle_path g extra path) ->
  forall stk es vis1 path,
  dg_dfs_edges f g extra c onst stk es vis1 = DgDfsCycle path ->
  (forall e, In e es -> In e (dg_out_edges g extra c)) ->
  dg_rchain g extra stk c -> map dg_edge_src stk = onst ->
  dg_cycle_path g extra path.
Proof.
  intros f g extra c onst IH stk es.
  induction es as [|a r IHr]; intros vis1 path H Hes Hr Hm; cbn [dg_dfs_edges] in H.
  - discriminate.
  - destruct (dg_dfs f g extra vis1 (c :: onst) (a :: stk) (dg_edge_dst a)) eqn:Hd.
    + eapply IHr; eauto. intros; apply Hes; right; auto.
    + inv H.
      assert (Ha : In a (dg_out_edges g extra c)) by (apply Hes; left; auto).
      assert (Hsrc : dg_edge_src a = c) by (eapply dg_out_edges_src; eauto).
      eapply IH; eauto.
      * simpl. rewrite Hsrc. auto.
      * simpl. rewrite Hsrc. reflexivity.
    + discriminate.
Qed.

Lemma dg_dfs_cycle : forall fuel g extra vis onst stk c path,
  dg_dfs fuel g extra vis onst stk c = DgDfsCycle path ->
  dg_rchain g extra stk c -> map dg_edge_src stk = onst ->
  dg_cycle_path g extra path.
Proof.
  induction fuel as [|f IH]; intros g extra vis onst stk c path H Hr Hm.
  - discriminate.
  - rewrite dg_dfs_unfold in H.
    destruct (dg_mem c onst) eqn:Ho.
    + inv H. apply dg_mem_true in Ho. eapply dg_cycle_found; eauto.
    + destruct (dg_mem c vis); [discriminate|].
      eapply dg_dfs_edges_cycle; eauto.
Qed.

(* 3. for any start list *)
Theorem dg_dfs_starts_cycle : forall fuel g extra starts vis path,
  dg_dfs_starts fuel g extra vis starts = DgDfsCycle path ->
  dg_cycle_path g extra path.
Proof.
  intros fuel g extra starts.
  induction starts as [|s r IHr]; intros vis path H; cbn [dg_dfs_starts] in H.
  - discriminate.
  - destruct (dg_dfs fuel g extra vis [] [] s) eqn:Hd.
    + eauto.
    + inv H. eapply dg_dfs_cycle; eauto. simpl; auto.
    + discriminate.
Qed.

Theorem dg_dfs_complete : forall g extra path,
  dg_cycle_check g extra = DgDfsCycle path ->
  exists pre cyc,
    path = pre ++ cyc /\ cyc <> [] /\ dg_chain g extra cyc /\
    forall e0, dg_edge_src (hd e0 cyc) = dg_edge_dst (last cyc e0).
Proof.
  intros g extra path H. unfold dg_cycle_check in H.
  exact (dg_dfs_starts_cycle _ _ _ _ _ _ H).
Qed.

Lemma dg_chain_ct : forall g extra l e e0,
  dg_chain g extra (e :: l) ->
  clos_trans nat (dg_E g extra) (dg_edge_src e) (dg_edge_dst (last (e :: l) e0)).
Proof.
  intros g extra l. induction l as [|e' l IH]; intros e e0 H.
  - simpl. apply t_step. destruct H as [H _]. exists e; auto.
  - destruct H as [H1 [H2 H3]]. rewrite dg_last_cons2.
    eapply t_trans.
    + apply t_step. exists e; split; [exact H1|reflexivity].
    + rewrite H2. apply IH; auto.
Qed.

Lemma dg_cycle_path_cyclic : forall g extra path,
  dg_cycle_path g extra path -> ~ dg_acyclic g extra.
Proof.
  intros g extra path [pre [cyc [_ [Hne [Hc Hl]]]]] Hac.
  destruct cyc as [|e l]; [congruence|].
  apply (Hac (dg_edge_src e)).
  pose proof (dg_chain_ct g extra l e e Hc) as H.
  rewrite <- (Hl e) in H. simpl in H. exact H.
Qed.

Theorem dg_dfs_complete_cyclic : forall g extra path,
  dg_cycle_check g extra = DgDfsCycle path -> ~ dg_acyclic g extra.
Proof.
  intros g extra path H. eapply dg_cycle_path_cyclic. eapply dg_dfs_complete; eauto.
Qed.

(* ------------------------------------------------------------------ *)
(* termination: the fuel of dg_dfs_fuel is never exhausted             *)

Lemma dg_dfs_edges_nofuel : forall f g extra c onst stk es vis1,
  (forall e vis stk', In e es ->
     dg_dfs f g extra vis (c :: onst) stk' (dg_edge_dst e) <> DgDfsFuel) ->
  dg_dfs_edges f g extra c onst stk es vis1 <> DgDfsFuel.
Proof.
  intros f g extra c onst stk es.
  induction es as [|a r IHr]; intros vis1 H; cbn [dg_dfs_edges].
  - discriminate.
  - destruct (dg_dfs f g extra vis1 (c :: onst) (a :: stk) (dg_edge_dst a)) eqn:Hd.
    + apply IHr. intros; apply H; right; auto.
    + discriminate.
    + exfalso. eapply H; [left; reflexivity|exact Hd].
Qed.

Lemma dg_dfs_nofuel_in : forall fuel g extra vis onst stk c,
  In c (dg_all_nodes g extra) -> NoDup onst -> incl onst (dg_all_nodes g extra) ->
  length (dg_all_nodes g extra) < fuel + length onst ->
  dg_dfs fuel g extra vis onst stk c <> DgDfsFuel.
Proof.
  induction fuel as [|f IH]; intros g extra vis onst stk c Hc Hnd Hincl Hlen.
  - exfalso. pose proof (NoDup_incl_length Hnd Hincl). simpl in Hlen. lia.
  - rewrite dg_dfs_unfold.
    destruct (dg_mem c onst) eqn:Ho; [discriminate|].
    destruct (dg_mem c vis); [discriminate|].
    apply dg_dfs_edges_nofuel. intros e vis0 stk' He. apply IH.
    + eapply dg_out_edges_nodes; eauto.
    + constructor; auto. apply dg_mem_false; auto.
    + intros x [<-|Hx]; auto.
    + simpl. lia.
Qed.

Lemma dg_dfs_nofuel : forall f g extra vis stk c,
  length (dg_all_nodes g extra) <= f ->
  dg_dfs (S f) g extra vis [] stk c <> DgDfsFuel.
Proof.
  intros f g extra vis stk c Hf.
  destruct (in_dec Nat.eq_dec c (dg_all_nodes g extra)) as [Hc|Hc].
  - apply dg_dfs_nofuel_in; auto.
    + constructor.
    + intros x [].
    + simpl. lia.
  - rewrite dg_dfs_unfold. simpl dg_mem. cbv iota.
    destruct (dg_mem c vis); [discriminate|].
    rewrite dg_out_edges_outside by auto. simpl. discriminate.
Qed.

Lemma dg_dfs_starts_nofuel : forall f g extra starts vis,
  length (dg_all_nodes g extra) <= f ->
  dg_dfs_starts (S f) g extra vis starts <> DgDfsFuel.
Proof.
  intros f g extra starts.
  induction starts as [|s r IHr]; intros vis Hf; cbn [dg_dfs_starts].
  - discriminate.
  - destruct (dg_dfs (S f) g extra vis [] [] s) eqn:Hd.
    + apply IHr; auto.
    + discriminate.
    + exfalso. eapply dg_dfs_nofuel; eauto.
Qed.

(* 4. *)
Theorem dg_dfs_starts_terminates : forall g extra vis starts,
  dg_dfs_starts (dg_dfs_fuel g extra) g extra vis starts <> DgDfsFuel.
Proof.
  intros. unfold dg_dfs_fuel. apply dg_dfs_starts_nofuel. lia.
Qed.

Theorem dg_dfs_terminates : forall g extra, dg_cycle_check g extra <> DgDfsFuel.
Proof. intros. unfold dg_cycle_check. apply dg_dfs_starts_terminates. Qed.

(* ------------------------------------------------------------------ *)
(* 5. the full check decides acyclicity                                *)

Theorem dg_full_check_spec : forall g, dg_full_check_ok g = true <-> dg_acyclic g [].
Proof.
  intros g. unfold dg_full_check_ok. split.
  - intros H x Hx.
    destruct (dg_dfs_starts (dg_dfs_fuel g []) g [] [] (dg_all_nodes g [])) eqn:Hd;
      try discriminate.
    apply (dg_dfs_sound_gen _ _ _ _ _ Hd x x); auto.
    + apply dg_ct_first in Hx. destruct Hx as [z [Hz _]].
      apply (dg_E_nodes _ _ _ _ Hz).
    + apply rt_refl.
  - intros Hac.
    destruct (dg_dfs_starts (dg_dfs_fuel g []) g [] [] (dg_all_nodes g [])) eqn:Hd; auto.
    + exfalso. eapply dg_cycle_path_cyclic; eauto. eapply dg_dfs_starts_cycle; eauto.
    + exfalso. eapply dg_dfs_starts_terminates; eauto.
Qed.

Theorem dg_check_ok_spec : forall g extra,
  dg_acyclic g [] -> (dg_check_ok g extra = true <-> dg_acyclic g extra).
Proof.
  intros g extra Hold. split.
  - apply dg_dfs_sound; auto.
  - intros Hac. unfold dg_check_ok.
    destruct (dg_cycle_check g extra) eqn:Hc; auto.
    + exfalso. eapply dg_dfs_complete_cyclic; eauto.
    + exfalso. eapply dg_dfs_terminates; eauto.
Qed.

Theorem dg_oracle_cycle_agrees : forall g extra,
  dg_acyclic g [] ->
  dg_check_ok g extra = dg_full_check_ok (dg_with_deps g (dgg_deps g ++ extra)).
Proof.
  intros g extra Hold.
  destruct (dg_check_ok g extra) eqn:Hc.
  - symmetry. apply dg_full_check_spec. apply dg_commit_acyclic; auto.
  - destruct (dg_full_check_ok (dg_with_deps g (dgg_deps g ++ extra))) eqn:Hf; auto.
    apply dg_full_check_spec in Hf.
    apply (proj1 (dg_with_deps_acyclic g extra)) in Hf.
    apply (proj2 (dg_check_ok_spec g extra Hold)) in Hf. congruence.
Qed.
