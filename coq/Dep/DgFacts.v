(* C07 - the constants of the model are what the source says now (coq/Facts/Facts_c07.v and
   Facts_enums.v are regenerated from /repo on every run).  An unrecognised fact (None) degrades to
   "covered by the correspondence run only"; a recognised fact that differs breaks this file. *)
From Coq Require Import String.
From Icv Require Import Base.Tac Dep.DgModel Dep.DgObs Facts.Facts_enums Facts.Facts_c07.
Local Open Scope Z_scope.

Definition dg_opt_is {A} (o : option A) (P : A -> Prop) : Prop :=
  match o with Some v => P v | None => True end.

Theorem dg_facts_hold :
  dg_opt_is f_max_dependency_recursion (fun v => v = Z.of_nat dg_max_recursion) /\
  dg_opt_is f_DependencyState (fun v => v = dg_aspect_num DgState) /\
  dg_opt_is f_DependencyCheckExecution (fun v => v = dg_aspect_num DgChecks) /\
  dg_opt_is f_DependencyNotification (fun v => v = dg_aspect_num DgNotif) /\
  dg_opt_is f_service_state_to_filter (fun t => t = map (fun s => (s, dg_state_filter true s)) [0; 1; 2; 3]) /\
  dg_opt_is f_host_state_to_filter (fun t => t = map (fun s => (s, dg_state_filter false s)) [0; 1]).
Proof. vm_compute. repeat split; reflexivity. Qed.

(* The per-checkable group map (m_DependencyGroups, m_PendingDependencies, GetDependencyGroupKey) is keyed by a SUM with
   exactly the two alternatives of [dg_key]: the parent object for plain dependencies, the name for redundancy groups.
   A single text key (see Dep/DgKeyProofs.v, dg_string_key_refuted) is recognised and breaks this proof. *)
Definition dg_key_alt_name (k : dg_key) : string :=
  match k with DgKParent _ => "Checkable*"%string | DgKGroup _ => "String"%string end.

Theorem dg_key_fact_holds :
  dg_opt_is f_dependency_group_key_alternatives
            (fun l => l = [dg_key_alt_name (DgKParent 0); dg_key_alt_name (DgKGroup 0)]).
Proof. vm_compute. reflexivity. Qed.
