(* C07 - the constants of the model are what the source says now (coq/Facts/Facts_c07.v and
   Facts_enums.v are regenerated from /repo on every run).  An unrecognised fact (None) degrades to
   "covered by the correspondence run only"; a recognised fact that differs breaks this file. *)
From Icv Require Import Base.Tac Dep.DgModel Dep.DgObs Facts.Facts_enums Facts.Facts_c07.
Local Open Scope Z_scope.

Definition dg_opt_is {A} (o : option A) (P : A -> Prop) : Prop :=
  match o with Some v => P v | None => True end.

Theorem dg_facts_hold :
  dg_opt_is f_max_dependency_recursion (fun v => v = Z.of_nat dg_max_recursion) /\
  dg_opt_is f_DependencyState (fun v => v = dg_aspect_num DgState) /\
  dg_opt_is f_DependencyCheckExecution (fun v => v = dg_aspect_num DgChecks) /\
  dg_opt_is f_DependencyNotification (fun v => v = dg_aspect_num DgNotif) /\
  dg_opt_is f_service_state_to_filter (fun t => t = map (fun s => (s, dg_state_filter true s)) [0; 1; 2; 3]) /\
  dg_opt_is f_host_state_to_filter (fun t => t = map (fun s => (s, dg_state_filter false s)) [0; 1]).
Proof. vm_compute. repeat split; reflexivity. Qed.
