(* C07 - availability and reachability: the statement of the property as a specification
   (dg_spec_available, dg_spec_reachable) and the proof that the transcription of
   Dependency::IsAvailable / DependencyGroup::GetState / Checkable::IsReachable computes it on
   every acyclic dependency graph whose depth does not exceed the recursion limit. *)
From Icv Require Import Base.Tac Dep.DgModel Dep.DgObs.
Local Open Scope Z_scope.

(* ---------------- the statement ---------------- *)

(* "A dependency is available when its parent has never been checked, is in a state listed in the
   dependency's state filter, is in a soft state while ignore_soft_states is set, the dependency's
   period is closed, or the dependency does not disable the aspect asked about." *)
Definition dg_spec_available (g : dg_graph) (st : nat -> dg_status) (po : nat -> bool)
           (a : dg_aspect) (d : dg_dep) : Prop :=
  let ps := st (dgd_parent d) in
  dgs_checked ps = false
  \/ dg_filter_match g ps d = true
  \/ (dgd_iss d = true /\ dgs_hard ps = false)
  \/ dg_period_closed po d = true
  \/ dg_not_disabled a d = true.

(* "for services, as far as state and notifications are concerned - its host is not in a hard Down state" *)
Definition dg_spec_host_ok (g : dg_graph) (st : nat -> dg_status) (a : dg_aspect) (c : nat) : Prop :=
  match a with
  | DgChecks => True
  | _ => forall h, dg_host_of g c = Some h -> ~ (dgs_state (st h) <> 0 /\ dgs_hard (st h) = true)
  end.

(* "A checkable is reachable exactly when [host clause], every dependency outside a redundancy group
   has a reachable parent and is available, and every redundancy group contains at least one
   dependency with a reachable parent that is available." *)
Inductive dg_spec_reachable (g : dg_graph) (st : nat -> dg_status) (po : nat -> bool)
          (a : dg_aspect) : nat -> Prop :=
| DgSpecReach : forall c,
    dg_spec_host_ok g st a c ->
    (forall d, In d (dgg_deps g) -> dgd_child d = c -> dgd_rg d = None ->
               dg_spec_reachable g st po a (dgd_parent d) /\ dg_spec_available g st po a d) ->
    (forall n, (exists d, In d (dgg_deps g) /\ dgd_child d = c /\ dgd_rg d = Some n) ->
               exists d, In d (dgg_deps g) /\ dgd_child d = c /\ dgd_rg d = Some n /\
                         dg_spec_reachable g st po a (dgd_parent d) /\ dg_spec_available g st po a d) ->
    dg_spec_reachable g st po a c.

(* acyclic with explicit depth: a rank that strictly decreases along every dependency *)
Definition dg_ranked (g : dg_graph) (rk : nat -> nat) : Prop :=
  forall d, In d (dgg_deps g) -> (rk (dgd_parent d) < rk (dgd_child d))%nat.

(* ---------------- availability ---------------- *)

Lemma dg_available_self g st po a d :
  dgd_parent d = dgd_child d -> dg_available g st po a d = true.
Proof. intros H. unfold dg_available. rewrite H, Nat.eqb_refl. reflexivity. Qed.

Theorem dg_available_spec g st po a d :
  dgd_parent d <> dgd_child d ->
  (dg_available g st po a d = true <-> dg_spec_available g st po a d).
Proof.
  intros Hne. unfold dg_available, dg_spec_available.
  destruct (Nat.eqb (dgd_parent d) (dgd_child d)) eqn:E; [apply Nat.eqb_eq in E; contradiction|].
  cbv zeta.
  destruct (dgs_checked (st (dgd_parent d))) eqn:Hc; cbn [negb].
  2: { split; auto. }
  destruct (dgd_iss d) eqn:Hi; destruct (dgs_hard (st (dgd_parent d))) eqn:Hh; cbn [negb andb].
  all: try (split; [intros _; right; right; left; split; reflexivity | reflexivity]).
  all: destruct (dg_filter_match g (st (dgd_parent d)) d) eqn:Hf;
       [split; [intros _; right; left; reflexivity | reflexivity]|].
  all: destruct (dg_period_closed po d) eqn:Hp;
       [split; [intros _; right; right; right; left; reflexivity | reflexivity]|].
  all: split; [intros H; right; right; right; right; exact H|].
  all: intros [H|[H|[[H1 H2]|[H|H]]]]; try discriminate; exact H.
Qed.

(* ---------------- list helpers ---------------- *)

Lemma dg_key_eqb_true a b : dg_key_eqb a b = true <-> a = b.
Proof.
  destruct a, b; cbn; split; intros H; try discriminate.
  - apply Nat.eqb_eq in H. subst. reflexivity.
  - inversion H. apply Nat.eqb_refl.
  - apply Nat.eqb_eq in H. subst. reflexivity.
  - inversion H. apply Nat.eqb_refl.
Qed.

Lemma dg_dedup_in k l : In k (dg_dedup l) <-> In k l.
Proof.
  induction l as [|x r IH]; cbn; [tauto|].
  destruct (existsb (dg_key_eqb x) r) eqn:E.
  - rewrite IH. split; [auto|]. intros [->|H]; [|exact H].
    apply existsb_exists in E. destruct E as (y & Hy & Heq). apply dg_key_eqb_true in Heq. subst. exact Hy.
  - cbn. rewrite IH. tauto.
Qed.

Lemma dg_child_deps_in ds c d : In d (dg_child_deps ds c) <-> In d ds /\ dgd_child d = c.
Proof. unfold dg_child_deps. rewrite filter_In, Nat.eqb_eq. tauto. Qed.

Lemma dg_group_deps_in g c k d :
  In d (dg_group_deps g c k) <-> In d (dgg_deps g) /\ dgd_child d = c /\ dg_key_of d = k.
Proof. unfold dg_group_deps. rewrite filter_In, dg_child_deps_in, dg_key_eqb_true. tauto. Qed.

Lemma dg_keys_in g c k :
  In k (dg_keys g c) <-> exists d, In d (dgg_deps g) /\ dgd_child d = c /\ dg_key_of d = k.
Proof.
  unfold dg_keys. rewrite dg_dedup_in, in_map_iff. split.
  - intros (d & Hk & Hd). apply dg_child_deps_in in Hd. exists d. tauto.
  - intros (d & H1 & H2 & H3). exists d. rewrite dg_child_deps_in. tauto.
Qed.

Lemma dg_filter_len_le {A} (p : A -> bool) l : (length (filter p l) <= length l)%nat.
Proof. induction l as [|x r IH]; cbn; [lia|]. destruct (p x); cbn; lia. Qed.

Lemma dg_filter_len_all {A} (p : A -> bool) l : length (filter p l) = length l <-> forallb p l = true.
Proof.
  induction l as [|x r IH]; cbn; [tauto|].
  pose proof (dg_filter_len_le p r). destruct (p x); cbn.
  - rewrite <- IH. lia.
  - split; [lia|discriminate].
Qed.

Lemma dg_filter_len_zero {A} (p : A -> bool) l : length (filter p l) = 0%nat <-> existsb p l = false.
Proof.
  induction l as [|x r IH]; cbn; [tauto|].
  destruct (p x); cbn; [split; [lia|discriminate]|exact IH].
Qed.

Lemma dg_forallb_ext_in {A} (f h : A -> bool) l :
  (forall x, In x l -> f x = h x) -> forallb f l = forallb h l.
Proof. induction l as [|x r IH]; cbn; intros H; [reflexivity|]. rewrite H, IH; auto. Qed.

Lemma dg_existsb_ext_in {A} (f h : A -> bool) l :
  (forall x, In x l -> f x = h x) -> existsb f l = existsb h l.
Proof. induction l as [|x r IH]; cbn; intros H; [reflexivity|]. rewrite H, IH; auto. Qed.

(* ---------------- DependencyGroup::GetState ---------------- *)

Definition dg_good (rp : nat -> bool) (av : dg_dep -> bool) (d : dg_dep) : bool :=
  rp (dgd_parent d) && av d.

Lemma dg_flags_reach (rp : nat -> bool) (av : dg_dep -> bool) (ds : list dg_dep) :
  filter fst (map (fun d => if rp (dgd_parent d) then (true, av d) else (false, false)) ds)
  = map (fun d => (true, av d)) (filter (fun d => rp (dgd_parent d)) ds).
Proof. induction ds as [|d r IH]; cbn; [reflexivity|]. destruct (rp (dgd_parent d)); cbn; rewrite IH; reflexivity. Qed.

Lemma dg_flags_avail (rp : nat -> bool) (av : dg_dep -> bool) (ds : list dg_dep) :
  length (filter snd (map (fun d => if rp (dgd_parent d) then (true, av d) else (false, false)) ds))
  = length (filter (dg_good rp av) ds).
Proof.
  induction ds as [|d r IH]; cbn; [reflexivity|]. unfold dg_good at 1.
  destruct (rp (dgd_parent d)); cbn; [destruct (av d); cbn; rewrite IH; reflexivity | exact IH].
Qed.

Lemma dg_good_reach (rp : nat -> bool) (av : dg_dep -> bool) (ds : list dg_dep) :
  (length (filter (dg_good rp av) ds) <= length (filter (fun d => rp (dgd_parent d)) ds))%nat.
Proof.
  induction ds as [|d r IH]; cbn; [lia|]. unfold dg_good at 1.
  destruct (rp (dgd_parent d)); cbn; [destruct (av d); cbn; lia | lia].
Qed.

(* redundancy semantics: a redundancy group needs one good member, any other group needs all *)
Theorem dg_group_state_ok rp av red ds :
  dg_gstate_ok (dg_group_state rp av red ds) =
  if red then existsb (dg_good rp av) ds else forallb (dg_good rp av) ds.
Proof.
  unfold dg_group_state. cbv zeta.
  rewrite dg_flags_reach, map_length, dg_flags_avail.
  pose proof (dg_good_reach rp av ds) as Hle.
  pose proof (dg_filter_len_le (fun d => rp (dgd_parent d)) ds) as Hr.
  pose proof (dg_filter_len_le (dg_good rp av) ds) as Ha.
  set (nr := length (filter (fun d => rp (dgd_parent d)) ds)) in *.
  set (na := length (filter (dg_good rp av) ds)) in *.
  destruct red.
  - destruct (existsb (dg_good rp av) ds) eqn:E.
    + assert (na <> 0%nat) as Hna by (intros H; apply dg_filter_len_zero in H; congruence).
      destruct (Nat.eqb nr 0) eqn:E1; [apply Nat.eqb_eq in E1; lia|].
      destruct (Nat.eqb na 0) eqn:E2; [apply Nat.eqb_eq in E2; lia|]. reflexivity.
    + apply dg_filter_len_zero in E. fold na in E. rewrite E.
      destruct (Nat.eqb nr 0); reflexivity.
  - destruct (forallb (dg_good rp av) ds) eqn:E.
    + apply dg_filter_len_all in E. fold na in E.
      destruct (Nat.ltb nr (length ds)) eqn:E1; [apply Nat.ltb_lt in E1; lia|].
      destruct (Nat.ltb na (length ds)) eqn:E2; [apply Nat.ltb_lt in E2; lia|]. reflexivity.
    + assert (na <> length ds) as Hna by (intros H; apply dg_filter_len_all in H; congruence).
      destruct (Nat.ltb nr (length ds)) eqn:E1; [reflexivity|].
      destruct (Nat.ltb na (length ds)) eqn:E2; [reflexivity|].
      apply Nat.ltb_ge in E2. lia.
Qed.

(* ---------------- Checkable::IsReachable, one level ---------------- *)

Definition dg_rp (fuel : nat) g st po a : nat -> bool :=
  match fuel with O => fun _ => false | S f => dg_reachable f g st po a end.

Lemma dg_reachable_unfold fuel g st po a c :
  dg_reachable fuel g st po a c = dg_local g st po (fun _ => dg_rp fuel g st po a) a c.
Proof.
  unfold dg_local, dg_rp. destruct fuel; cbn [dg_reachable]; f_equal;
    apply dg_forallb_ext_in; intros k _; rewrite dg_group_state_ok; reflexivity.
Qed.

(* dg_local reads the observations only at the parents of c's dependencies *)
Lemma dg_local_ext g st po obs1 obs2 a c :
  (forall d, In d (dgg_deps g) -> dgd_child d = c -> obs1 a (dgd_parent d) = obs2 a (dgd_parent d)) ->
  dg_local g st po obs1 a c = dg_local g st po obs2 a c.
Proof.
  intros H. unfold dg_local. f_equal. apply dg_forallb_ext_in. intros k _.
  assert (forall d, In d (dg_group_deps g c k) ->
            obs1 a (dgd_parent d) && dg_available g st po a d = obs2 a (dgd_parent d) && dg_available g st po a d) as He.
  { intros d Hd. apply dg_group_deps_in in Hd. destruct Hd as (H1 & H2 & _). rewrite (H d H1 H2). reflexivity. }
  destruct (dg_key_is_rg k); [apply dg_existsb_ext_in | apply dg_forallb_ext_in]; exact He.
Qed.

Lemma dg_host_ok_spec g st a c : dg_host_ok g st a c = true <-> dg_spec_host_ok g st a c.
Proof.
  unfold dg_host_ok, dg_spec_host_ok.
  assert (forall h, negb (negb (dgs_state (st h) =? 0) && dgs_hard (st h)) = true <->
                    ~ (dgs_state (st h) <> 0 /\ dgs_hard (st h) = true)) as Hh.
  { intros h. destruct (dgs_state (st h) =? 0) eqn:E.
    - apply Z.eqb_eq in E. cbn. split; [intros _ [A _]; contradiction | reflexivity].
    - apply Z.eqb_neq in E. destruct (dgs_hard (st h)); cbn.
      + split; [discriminate | intros H; exfalso; apply H; split; [exact E | reflexivity]].
      + split; [intros _ [_ A]; discriminate | reflexivity]. }
  destruct a; try tauto.
  all: destruct (dg_host_of g c) as [h|]; [rewrite Hh; split; [intros H h' Hx; inversion Hx; subst; exact H | intros H; apply H; reflexivity]
                                           | split; [intros _ h' Hx; discriminate | reflexivity]].
Qed.

Lemma dg_key_of_rg d n : dg_key_of d = DgKGroup n <-> dgd_rg d = Some n.
Proof. unfold dg_key_of. destruct (dgd_rg d); split; intros H; inversion H; reflexivity. Qed.

Lemma dg_key_of_parent d p : dg_key_of d = DgKParent p <-> dgd_rg d = None /\ dgd_parent d = p.
Proof. unfold dg_key_of. destruct (dgd_rg d); split; intros H; try discriminate; try (destruct H; discriminate).
  - inversion H. auto. - destruct H as [_ ->]. reflexivity. Qed.

(* one unfolding of the statement: if the observations at c's parents are right, dg_local is the statement at c *)
Lemma dg_local_spec g st po obs a c :
  (forall d, In d (dgg_deps g) -> dgd_child d = c -> dgd_parent d <> c) ->
  (forall d, In d (dgg_deps g) -> dgd_child d = c ->
             (obs a (dgd_parent d) = true <-> dg_spec_reachable g st po a (dgd_parent d))) ->
  (dg_local g st po obs a c = true <-> dg_spec_reachable g st po a c).
Proof.
  intros Hself Hobs.
  assert (forall d, In d (dgg_deps g) -> dgd_child d = c ->
            (obs a (dgd_parent d) && dg_available g st po a d = true <->
             dg_spec_reachable g st po a (dgd_parent d) /\ dg_spec_available g st po a d)) as Hgood.
  { intros d H1 H2. rewrite andb_true_iff, (Hobs d H1 H2), dg_available_spec; [tauto|].
    rewrite H2. apply Hself; assumption. }
  unfold dg_local. rewrite andb_true_iff, forallb_forall, dg_host_ok_spec. split.
  - intros [Hh Hk]. constructor; [exact Hh| |].
    + intros d H1 H2 H3. apply Hgood; [assumption..|].
      specialize (Hk (DgKParent (dgd_parent d))).
      cbn [dg_key_is_rg] in Hk. rewrite forallb_forall in Hk. apply Hk.
      * apply dg_keys_in. exists d. rewrite dg_key_of_parent. tauto.
      * apply dg_group_deps_in. rewrite dg_key_of_parent. tauto.
    + intros n (d & H1 & H2 & H3).
      specialize (Hk (DgKGroup n)). cbn [dg_key_is_rg] in Hk.
      assert (In (DgKGroup n) (dg_keys g c)) as Hin by (apply dg_keys_in; exists d; rewrite dg_key_of_rg; tauto).
      apply Hk, existsb_exists in Hin. destruct Hin as (d' & Hd' & Hg).
      apply dg_group_deps_in in Hd'. destruct Hd' as (A & B & C). apply dg_key_of_rg in C.
      exists d'. apply Hgood in Hg; tauto.
  - intros Hs. inversion Hs as [c' Hh Hplain Hrg]; subst c'. split; [exact Hh|].
    intros k Hk. apply dg_keys_in in Hk. destruct Hk as (d0 & A0 & B0 & C0).
    destruct k as [p|n]; cbn [dg_key_is_rg].
    + apply forallb_forall. intros d Hd. apply dg_group_deps_in in Hd. destruct Hd as (A & B & C).
      apply dg_key_of_parent in C. destruct C as [C _]. apply Hgood; auto.
    + apply dg_key_of_rg in C0.
      destruct (Hrg n) as (d & A & B & C & D); [exists d0; tauto|].
      apply existsb_exists. exists d. split; [apply dg_group_deps_in; rewrite dg_key_of_rg; tauto|].
      apply Hgood; auto.
Qed.

(* ---------------- the main theorem ---------------- *)

Theorem dg_reachable_spec g st po rk a : forall fuel c,
  dg_ranked g rk -> (rk c <= fuel)%nat ->
  (dg_reachable fuel g st po a c = true <-> dg_spec_reachable g st po a c).
Proof.
  induction fuel as [|f IH]; intros c Hrk Hc; rewrite dg_reachable_unfold; apply dg_local_spec.
  - intros d H1 H2 H3. specialize (Hrk d H1). rewrite H2, H3 in Hrk. lia.
  - intros d H1 H2. specialize (Hrk d H1). rewrite H2 in Hrk. lia.
  - intros d H1 H2 H3. specialize (Hrk d H1). rewrite H2, H3 in Hrk. lia.
  - intros d H1 H2. cbn [dg_rp]. apply IH; [exact Hrk|].
    specialize (Hrk d H1). rewrite H2 in Hrk. lia.
Qed.

(* the recursion limit is never hit on such graphs: any sufficient fuel gives the same answer *)
Theorem dg_reachable_fuel_irrel g st po rk a f1 f2 c :
  dg_ranked g rk -> (rk c <= f1)%nat -> (rk c <= f2)%nat ->
  dg_reachable f1 g st po a c = dg_reachable f2 g st po a c.
Proof.
  intros Hrk H1 H2. apply eq_true_iff_eq.
  rewrite (dg_reachable_spec g st po rk a f1 c Hrk H1), (dg_reachable_spec g st po rk a f2 c Hrk H2). tauto.
Qed.

(* the verdicts do not depend on the order in which dependencies were registered (std::map / std::set
   iteration order in the implementation): the specification only speaks of membership *)
Lemma dg_spec_transfer g1 g2 st po rk a :
  dgg_svc g1 = dgg_svc g2 -> (forall d, In d (dgg_deps g1) <-> In d (dgg_deps g2)) ->
  dg_ranked g1 rk ->
  forall n c, (rk c <= n)%nat -> dg_spec_reachable g1 st po a c -> dg_spec_reachable g2 st po a c.
Proof.
  intros Hsvc Hin Hrk.
  assert (forall d, dg_spec_available g1 st po a d <-> dg_spec_available g2 st po a d) as Hav.
  { intros d. unfold dg_spec_available, dg_filter_match, dg_is_svc, dg_host_of. rewrite Hsvc. tauto. }
  assert (forall x, dg_spec_host_ok g1 st a x <-> dg_spec_host_ok g2 st a x) as Hho.
  { intros x. unfold dg_spec_host_ok, dg_host_of. rewrite Hsvc. tauto. }
  induction n as [|n IH]; intros c Hc Hs; inversion Hs as [c' Hh Hp Hr]; subst c'; constructor.
  - apply Hho, Hh.
  - intros d H1 H2 H3. apply Hin in H1. specialize (Hrk d H1). rewrite H2 in Hrk. lia.
  - intros k (d & H1 & H2 & H3). apply Hin in H1. specialize (Hrk d H1). rewrite H2 in Hrk. lia.
  - apply Hho, Hh.
  - intros d H1 H2 H3. apply Hin in H1. destruct (Hp d H1 H2 H3) as [A B].
    split; [apply IH; [|exact A] | apply Hav, B].
    specialize (Hrk d H1). rewrite H2 in Hrk. lia.
  - intros k (d & H1 & H2 & H3). apply Hin in H1.
    destruct (Hr k) as (d' & A & B & C & D & E); [exists d; tauto|].
    exists d'. split; [apply Hin, A|]. split; [exact B|]. split; [exact C|].
    split; [apply IH; [|exact D] | apply Hav, E].
    specialize (Hrk d' A). rewrite B in Hrk. lia.
Qed.

Theorem dg_reachable_order_irrel g1 g2 st po rk a fuel c :
  dgg_svc g1 = dgg_svc g2 -> (forall d, In d (dgg_deps g1) <-> In d (dgg_deps g2)) ->
  dg_ranked g1 rk -> (rk c <= fuel)%nat ->
  dg_reachable fuel g1 st po a c = dg_reachable fuel g2 st po a c.
Proof.
  intros Hsvc Hin Hrk Hc.
  assert (dg_ranked g2 rk) as Hrk2 by (intros d Hd; apply Hrk, Hin, Hd).
  apply eq_true_iff_eq.
  rewrite (dg_reachable_spec g1 st po rk a fuel c Hrk Hc), (dg_reachable_spec g2 st po rk a fuel c Hrk2 Hc).
  split.
  - apply (dg_spec_transfer g1 g2 st po rk a Hsvc Hin Hrk (rk c)). lia.
  - apply (dg_spec_transfer g2 g1 st po rk a (eq_sym Hsvc) (fun d => iff_sym (Hin d)) Hrk2 (rk c)). lia.
Qed.
